/-
  C30 helper lemmas, part 3: every leaf in normal form is `LeafGood` — its printed text is read back
  by `clause` (and, in first position, by `multiterm`/`clause`) as the same leaf.
-/
import VrlProofs.Lemmas.SearchSkeleton
import VrlProofs.Lemmas.SearchTokens

namespace Search
open Grammar

/-! ### the alternatives of `value` by the first character -/

theorem alt_none {α : Type} (b : Option α) : alt none b = b := rfl
theorem alt_some {α : Type} (x : α) (b : Option α) : alt (some x) b = some x := rfl

theorem starValue_ne (c : Char) (r : Str) (h : c ≠ '*') : starValue (c :: r) = none := by
  simp [starValue, h]

theorem phrase_ne (c : Char) (r : Str) (h : c ≠ '"') : phrase (c :: r) = none := by
  simp [phrase, h]

theorem operator_ne (c : Char) (r : Str) (h1 : c ≠ '>') (h2 : c ≠ '<') : operator (c :: r) = none := by
  simp [operator, h1, h2]

theorem comparison_ne (c : Char) (r : Str) (h1 : c ≠ '>') (h2 : c ≠ '<') : comparison (c :: r) = none := by
  simp [comparison, operator_ne c r h1 h2]

theorem range_ne (c : Char) (r : Str) (h1 : c ≠ '[') (h2 : c ≠ '{') : range (c :: r) = none := by
  simp [range, h1, h2]

/-- the first character of a printed term: a backslash or a character valid at the start of a term -/
def TermHead (s : Str) : Prop := ∃ c r, s = c :: r ∧ (c = '\\' ∨ isInvalidStartChar c = false)

theorem TermHead.ne {c : Char} {r : Str} (h : TermHead (c :: r)) (d : Char) (hd : isInvalidStartChar d = true)
    (hb : d ≠ '\\') : c ≠ d := by
  obtain ⟨c', r', e, hc⟩ := h
  simp only [List.cons.injEq] at e
  obtain ⟨rfl, rfl⟩ := e
  intro e; subst e
  cases hc with
  | inl h => exact hb h
  | inr h => rw [hd] at h; cases h

theorem termHead_escape (v rest : Str) (hne : v ≠ []) (hw : hasBlank v = false) : TermHead (luceneEscape v ++ rest) := by
  cases v with
  | nil => exact absurd rfl hne
  | cons c v =>
    by_cases hs : isLuceneSpecial c = true
    · exact ⟨'\\', c :: (luceneEscape v ++ rest), by simp [luceneEscape, hs], Or.inl rfl⟩
    · simp only [hasBlank, List.any_cons, Bool.or_eq_false_iff] at hw
      exact ⟨c, luceneEscape v ++ rest, by simp [luceneEscape, hs],
        Or.inr (not_invalid_of_plain c hw.1 (by simpa using hs))⟩

theorem termHead_raw (a rest : Str) (h : rawTermChars a = true) : TermHead (a ++ rest) := by
  cases a with
  | nil => simp [rawTermChars] at h
  | cons c a =>
    simp only [rawTermChars, Bool.and_eq_true, Bool.not_eq_true'] at h
    exact ⟨c, _, rfl, Or.inr h.1⟩

/-- a printed term followed by a terminator is read by `value` as `TERM` -/
theorem value_term (s t rest : Str) (hh : TermHead s) (hp : termPrefix s = none)
    (ht : term s = some (t, rest)) (he : atTermEnd rest = true) : value s = some (.term t, rest) := by
  obtain ⟨c, r, rfl, hc⟩ := id hh
  have n1 := hh.ne '*' (by decide) (by decide)
  have n2 := hh.ne '"' (by decide) (by decide)
  have n3 := hh.ne '>' (by decide) (by decide)
  have n4 := hh.ne '<' (by decide) (by decide)
  have n5 := hh.ne '[' (by decide) (by decide)
  have n6 := hh.ne '{' (by decide) (by decide)
  simp only [value, starValue_ne c r n1, alt_none, phraseValue, phrase_ne c r n2, Option.map_none, prefixValue, hp,
    comparison_ne c r n3 n4, range_ne c r n5 n6, termValue, ht, he, if_true, alt_some]

/-- … and `TERM*` as `TERM_PREFIX` -/
theorem value_pfx (s t rest : Str) (hh : TermHead s) (hp : termPrefix s = some (t, rest)) :
    value s = some (.pfx t, rest) := by
  obtain ⟨c, r, rfl, hc⟩ := id hh
  have n1 := hh.ne '*' (by decide) (by decide)
  have n2 := hh.ne '"' (by decide) (by decide)
  simp only [value, starValue_ne c r n1, alt_none, phraseValue, phrase_ne c r n2, Option.map_none, prefixValue, hp,
    Option.map_some, alt_some]

theorem termPrefix_none_of_scan (s t rest : Str) (hs : termScan s = some (t, rest))
    (hr : ∀ r', rest ≠ '*' :: r') : termPrefix s = none := by
  unfold termPrefix
  rw [hs]
  cases rest with
  | nil => rfl
  | cons c r' =>
    have : c ≠ '*' := by intro e; subst e; exact hr r' rfl
    simp [this]

theorem termPrefix_of_scan (s t rest : Str) (hs : termScan s = some (t, '*' :: rest))
    (he : atTermEnd rest = true) : termPrefix s = some (t ++ ['*'], rest) := by
  unfold termPrefix
  rw [hs]
  simp [he]

/-! ### what follows an element -/

theorem ItemEnd.termStop {rest : Str} (h : ItemEnd rest) : termStop rest = true :=
  termStop_of_atTermEnd h.atTermEnd

theorem ItemEnd.not_star {rest : Str} (h : ItemEnd rest) : ∀ r', rest ≠ '*' :: r' := by
  intro r' e
  rcases h with h | ⟨r, h⟩ | ⟨r, h⟩ | ⟨r, h⟩ <;> rw [h] at e <;> simp at e

theorem ItemEnd.not_colon {rest : Str} (h : ItemEnd rest) : ∀ r', rest ≠ ':' :: r' := by
  intro r' e
  rcases h with h | ⟨r, h⟩ | ⟨r, h⟩ | ⟨r, h⟩ <;> rw [h] at e <;> simp at e


/-! ### `clause` on an optional attribute prefix and a value -/

theorem skipWs_head (c : Char) (r : Str) (h : isWs c = false) : skipWs (c :: r) = c :: r := by
  simp [skipWs, h]

theorem skipWs_termHead (s : Str) (h : TermHead s) : skipWs s = s := by
  obtain ⟨c, r, rfl, hc⟩ := h
  apply skipWs_head
  cases hc with
  | inl e => subst e; rfl
  | inr h =>
    cases hw : isWs c with
    | false => rfl
    | true => simp [isInvalidStartChar, hw] at h

theorem matchall_ne (c : Char) (r : Str) (h : c ≠ '*') : matchall (c :: r) = none := by
  simp [matchall, stripPrefix, Ne.symm h]

theorem kwNot_none (c : Char) (r : Str) (hm : c ≠ '-') (hn : startsWith ['N', 'O', 'T'] (c :: r) = false) :
    kwNot (c :: r) = none := by
  simp only [startsWith, Option.isSome_eq_false_iff, Option.isNone_iff_eq_none] at hn
  unfold kwNot
  rw [hn]
  simp [stripPrefix, Ne.symm hm]

theorem modifiers_none_of (c : Char) (r : Str) (hp : c ≠ '+') (hm : c ≠ '-')
    (hn : startsWith ['N', 'O', 'T'] (c :: r) = false) : modifiers (c :: r) = none := by
  simp [modifiers, hp, kwNot_none c r hm hn]

theorem kwStart_not {s : Str} (h : kwStart s = false) : startsWith ['N', 'O', 'T'] s = false := by
  simp only [kwStart, Bool.or_eq_false_iff] at h
  exact h.1.1.2

/-- `clause` when the text is `value` text, possibly after `field` -/
theorem clause_value (fuel : Nat) (s : Str) (fld : Option Str) (s1 : Str) (v : PValue) (rest : Str)
    (hm : matchall s = none)
    (hf : (field s = none ∧ fld = none ∧ s1 = skipWs s) ∨
          (∃ f r, field s = some (f, r) ∧ fld = some f ∧ s1 = skipWs r))
    (hv : value s1 = some (v, rest)) : clause (fuel + 1) s = .ok (.value fld v) rest := by
  rw [clause, hm]
  rcases hf with ⟨hf, rfl, rfl⟩ | ⟨f, r, hf, rfl, rfl⟩ <;> simp [hf, hv]

theorem field_of_term (s t r : Str) (h : term s = some (t, ':' :: r)) : field s = some (t, r) := by
  simp [field, h]

theorem field_none_of_term (s t rest : Str) (h : term s = some (t, rest)) (hr : ∀ r', rest ≠ ':' :: r') :
    field s = none := by
  unfold field
  rw [h]
  cases rest with
  | nil => rfl
  | cons c r' =>
    have : c ≠ ':' := by intro e; subst e; exact hr r' rfl
    simp [this]

theorem field_none_of_term_none (s : Str) (h : term s = none) : field s = none := by
  simp [field, h]

theorem multiterm_none_of_term_none (s : Str) (h : term s = none) : multiterm s = none := by
  simp [multiterm, multitermLookahead, h]

/-- after a `TERM`, a colon or a star stops `multiterm` -/
theorem multiterm_none_of_term (s t : Str) (c : Char) (r : Str) (h : term s = some (t, c :: r))
    (hc : c = ':' ∨ c = '*') : multiterm s = none := by
  have : multitermLookahead s = false := by
    simp only [multitermLookahead, h]
    cases hc with
    | inl e => subst e; simp
    | inr e => subst e; simp
  simp [multiterm, this]

/-- the raw attribute in front of a value -/
theorem field_attr (a x : Str) (h : rawTermOK a = true) : field (a ++ ':' :: x) = some (a, x) :=
  field_of_term _ a x (term_raw a (':' :: x) h (termStop_colon x))

theorem rawTerm_head (a : Str) (h : rawTermOK a = true) :
    ∃ c r, a = c :: r ∧ isInvalidStartChar c = false ∧ kwStart a = false := by
  simp only [rawTermOK, Bool.and_eq_true, Bool.not_eq_true'] at h
  obtain ⟨⟨hne, hch⟩, hk⟩ := h
  cases a with
  | nil => simp at hne
  | cons c r =>
    simp only [rawTermChars, Bool.and_eq_true, Bool.not_eq_true'] at hch
    exact ⟨c, r, rfl, hch.1, hk⟩

theorem rawTerm_noBackslash (a : Str) (h : rawTermOK a = true) : ∀ c ∈ a, c ≠ '\\' := by
  simp only [rawTermOK, Bool.and_eq_true, Bool.not_eq_true'] at h
  obtain ⟨⟨hne, hch⟩, hk⟩ := h
  cases a with
  | nil => simp
  | cons c r =>
    simp only [rawTermChars, Bool.and_eq_true, Bool.not_eq_true', List.all_eq_true] at hch
    intro d hd
    simp only [List.mem_cons] at hd
    cases hd with
    | inl e => subst e; intro e; subst e; exact absurd hch.1 (by decide)
    | inr hd => intro e; subst e; exact absurd (hch.2 _ hd) (by decide)

theorem unescape_rawTerm (a : Str) (h : rawTermOK a = true) : unescape a = a :=
  unescape_noBackslash a (rawTerm_noBackslash a h)

/-- text starting with a raw attribute and a colon: nothing before the clause -/
theorem attr_front (a x : Str) (h : rawTermOK a = true) :
    matchall (a ++ ':' :: x) = none ∧ skipWs (a ++ ':' :: x) = a ++ ':' :: x ∧
    modifiers (a ++ ':' :: x) = none ∧ multiterm (a ++ ':' :: x) = none := by
  obtain ⟨c, r, rfl, hc, hk⟩ := rawTerm_head a h
  have n1 : c ≠ '*' := by intro e; subst e; exact absurd hc (by decide)
  have n2 : c ≠ '+' := by intro e; subst e; exact absurd hc (by decide)
  have n3 : c ≠ '-' := by intro e; subst e; exact absurd hc (by decide)
  have hw : isWs c = false := by
    cases hw : isWs c with
    | false => rfl
    | true => simp [isInvalidStartChar, hw] at hc
  refine ⟨matchall_ne c _ n1, skipWs_head c _ hw, ?_, ?_⟩
  · apply modifiers_none_of c _ n2 n3
    exact kwStart_not (kwStart_append (c :: r) (':' :: x) (termStop_colon x) hk)
  · exact multiterm_none_of_term _ (c :: r) ':' x (term_raw (c :: r) (':' :: x) h (termStop_colon x)) (Or.inl rfl)

theorem attrPrefix_default : attrPrefix defaultField = [] := by simp [attrPrefix]

theorem attrPrefix_ne (a : Str) (h : a ≠ defaultField) : attrPrefix a = a ++ [':'] := by simp [attrPrefix, h]

/-- builder: a leaf whose text is `attrPrefix a ++ body`, with `body` read back by `value` -/
theorem leafGood_attr (F : FloatLib) (l : Leaf) (a body : Str) (v : PValue)
    (hL : l.toLucene F = attrPrefix a ++ body) (hattr : attrOK a = true)
    (hval : ∀ rest, ItemEnd rest → value (body ++ rest) = some (v, rest))
    (hhead : ∀ x, skipWs (body ++ x) = body ++ x) (hne : body ≠ [])
    (hdef : a = defaultField → ∀ rest, ItemEnd rest →
      matchall (body ++ rest) = none ∧ field (body ++ rest) = none ∧ multiterm (body ++ rest) = none)
    (hmod : a = defaultField → ∀ rest, ItemEnd rest → modifiers (body ++ rest) = none)
    (hvisit : visitValue F a v = .ok (.leaf l)) : LeafGood F l := by
  by_cases ha : a = defaultField
  · subst ha
    have hL' : l.toLucene F = body := by rw [hL, attrPrefix_default]; rfl
    have hcl : ∀ fuel rest, ItemEnd rest → clause (fuel + 1) (l.toLucene F ++ rest) = .ok (.value none v) rest := by
      intro fuel rest hr
      obtain ⟨h1, h2, _⟩ := hdef rfl rest hr
      rw [hL']
      exact clause_value fuel _ none (body ++ rest) v rest h1 (Or.inl ⟨h2, rfl, (hhead rest).symm⟩) (hval rest hr)
    have hv : visitClause F (.value none v) defaultField = .ok (.leaf l) := by
      simpa [visitClause] using hvisit
    refine ⟨?_, ⟨_, hcl, hv⟩, by rw [hL']; exact hhead, by rw [hL']; exact hmod rfl, by rw [hL']; exact hne⟩
    intro fuel rest hr
    refine ⟨.clause none none (.value none v), ?_, pushes_clause F none _ _ hv⟩
    have := hcl fuel rest hr
    rw [hL'] at this ⊢
    exact item_first_plain (fuel + 1) body rest _ (hdef rfl rest hr).2.2 (hmod rfl rest hr) (hhead rest) this
  · have hraw : rawTermOK a = true := by
      simp only [attrOK, Bool.or_eq_true, decide_eq_true_eq] at hattr
      cases hattr with
      | inl h => exact absurd h ha
      | inr h => exact h
    have hL' : ∀ x, l.toLucene F ++ x = a ++ ':' :: (body ++ x) := by
      intro x; rw [hL, attrPrefix_ne a ha]; simp
    have hcl : ∀ fuel rest, ItemEnd rest →
        clause (fuel + 1) (l.toLucene F ++ rest) = .ok (.value (some a) v) rest := by
      intro fuel rest hr
      rw [hL']
      exact clause_value fuel _ (some a) (body ++ rest) v rest (attr_front a _ hraw).1
        (Or.inr ⟨a, body ++ rest, field_attr a _ hraw, rfl, (hhead rest).symm⟩) (hval rest hr)
    have hv : visitClause F (.value (some a) v) defaultField = .ok (.leaf l) := by
      simpa [visitClause] using hvisit
    refine ⟨?_, ⟨_, hcl, hv⟩, ?_, ?_, ?_⟩
    · intro fuel rest hr
      refine ⟨.clause none none (.value (some a) v), ?_, pushes_clause F none _ _ hv⟩
      have := hcl fuel rest hr
      rw [hL'] at this ⊢
      obtain ⟨_, h2, h3, h4⟩ := attr_front a (body ++ rest) hraw
      have := item_first_plain (fuel + 1) (a ++ ':' :: body) rest _ (by simpa using h4) (by simpa using h3)
        (by simpa using h2) (by simpa using this)
      simpa using this
    · intro x; rw [hL']; exact (attr_front a _ hraw).2.1
    · intro x _; rw [hL']; exact (attr_front a _ hraw).2.2.1
    · rw [hL, attrPrefix_ne a ha]; simp


/-! ### `*:*` -/

theorem leafGood_matchAll (F : FloatLib) : LeafGood F .matchAll := by
  have hcl : ∀ fuel rest, clause (fuel + 1) ((Leaf.matchAll).toLucene F ++ rest) = .ok .matchall rest := by
    intro fuel rest; rfl
  have hv : visitClause F .matchall defaultField = .ok (.leaf .matchAll) := rfl
  refine ⟨?_, ⟨.matchall, fun fuel rest _ => hcl fuel rest, hv⟩, fun x => rfl, fun x _ => rfl, by show "*:*".toList ≠ []; decide⟩
  intro fuel rest _
  exact ⟨.clause none none .matchall, rfl, pushes_clause F none _ _ hv⟩

/-! ### front facts of escaped and raw text -/

theorem unescape_default : unescape defaultField = defaultField := by decide +kernel

theorem termHead_front (s : Str) (h : TermHead s) (hn : startsWith ['N', 'O', 'T'] s = false) :
    matchall s = none ∧ skipWs s = s ∧ modifiers s = none := by
  have hs := skipWs_termHead s h
  obtain ⟨c, r, rfl, hc⟩ := id h
  have n1 := h.ne '*' (by decide) (by decide)
  have n2 := h.ne '+' (by decide) (by decide)
  have n3 := h.ne '-' (by decide) (by decide)
  exact ⟨matchall_ne c r n1, hs, modifiers_none_of c r n2 n3 hn⟩

theorem escTermOK_parts {v : Str} (h : escTermOK v = true) : v ≠ [] ∧ hasBlank v = false ∧ True := by
  simp only [escTermOK, Bool.and_eq_true, Bool.not_eq_true'] at h
  refine ⟨?_, h.2, trivial⟩
  intro e; subst e; simp at h

/-- `value` on a printed term -/
theorem value_esc_term (v rest : Str) (h : escTermOK v = true) (hk : kwStart v = false) (hr : ItemEnd rest) :
    value (luceneEscape v ++ rest) = some (.term (luceneEscape v), rest) := by
  obtain ⟨hne, hw, _⟩ := escTermOK_parts h
  exact value_term _ _ rest (termHead_escape v rest hne hw)
    (termPrefix_none_of_scan _ _ rest (termScan_esc v rest h hr.termStop) hr.not_star)
    (term_esc v rest h hk hr.termStop) hr.atTermEnd

theorem value_raw_term (a rest : Str) (h : rawTermOK a = true) (hr : ItemEnd rest) :
    value (a ++ rest) = some (.term a, rest) := by
  have h' := h
  simp only [rawTermOK, Bool.and_eq_true, Bool.not_eq_true'] at h'
  obtain ⟨⟨hne, hch⟩, hk⟩ := h'
  have hne' : a ≠ [] := by intro e; subst e; simp at hne
  exact value_term _ _ rest (termHead_raw a rest hch)
    (termPrefix_none_of_scan _ _ rest (termScan_raw a rest hne' hch hr.termStop) hr.not_star)
    (term_raw a rest h hr.termStop) hr.atTermEnd

/-! ### `_exists_:a`, `_missing_:a` -/

theorem rawTermOK_parts {a : Str} (h : rawTermOK a = true) :
    a ≠ [] ∧ True ∧ rawTermChars a = true ∧ kwStart a = false := by
  simp only [rawTermOK, Bool.and_eq_true, Bool.not_eq_true'] at h
  refine ⟨?_, trivial, h.1.2, h.2⟩
  intro e; subst e; simp at h

theorem existsField_ne_default : existsField ≠ defaultField := by decide +kernel
theorem missingField_ne_default : missingField ≠ defaultField := by decide +kernel
theorem missing_ne_exists : missingField ≠ existsField := by decide +kernel
theorem default_ne_exists : defaultField ≠ existsField := by decide +kernel
theorem default_ne_missing : defaultField ≠ missingField := by decide +kernel
theorem attrOK_exists : attrOK existsField = true := by decide +kernel
theorem attrOK_missing : attrOK missingField = true := by decide +kernel

theorem exists_text (F : FloatLib) (a : Str) :
    (Leaf.exists_ a).toLucene F = attrPrefix existsField ++ a := by
  rw [attrPrefix_ne existsField existsField_ne_default]
  show "_exists_:".toList ++ a = (existsField ++ [':']) ++ a
  rw [show "_exists_:".toList = existsField ++ [':'] from rfl]

theorem missing_text (F : FloatLib) (a : Str) :
    (Leaf.missing a).toLucene F = attrPrefix missingField ++ a := by
  rw [attrPrefix_ne missingField missingField_ne_default]
  show "_missing_:".toList ++ a = (missingField ++ [':']) ++ a
  rw [show "_missing_:".toList = missingField ++ [':'] from rfl]

theorem leafGood_exists (F : FloatLib) (a : Str) (h : NFLeaf F (.exists_ a) = true) : LeafGood F (.exists_ a) := by
  simp only [NFLeaf] at h
  obtain ⟨hne, _, hch, _⟩ := rawTermOK_parts h
  exact leafGood_attr F (.exists_ a) existsField a (.term a) (exists_text F a)
    attrOK_exists (fun rest hr => value_raw_term a rest h hr)
    (fun x => skipWs_termHead _ (termHead_raw a x hch)) hne
    (fun e => absurd e existsField_ne_default) (fun e => absurd e existsField_ne_default)
    (by simp [visitValue, unescape_rawTerm a h])

theorem leafGood_missing (F : FloatLib) (a : Str) (h : NFLeaf F (.missing a) = true) : LeafGood F (.missing a) := by
  simp only [NFLeaf] at h
  obtain ⟨hne, _, hch, _⟩ := rawTermOK_parts h
  exact leafGood_attr F (.missing a) missingField a (.term a) (missing_text F a)
    attrOK_missing (fun rest hr => value_raw_term a rest h hr)
    (fun x => skipWs_termHead _ (termHead_raw a x hch)) hne
    (fun e => absurd e missingField_ne_default) (fun e => absurd e missingField_ne_default)
    (by simp [visitValue, missing_ne_exists, unescape_rawTerm a h])


/-! ### terms -/

theorem luceneEscape_ne_nil (v : Str) (h : v ≠ []) : luceneEscape v ≠ [] := by
  cases v with
  | nil => exact absurd rfl h
  | cons c v => by_cases hs : isLuceneSpecial c = true <;> simp [luceneEscape, hs]

theorem unescape_attr (a : Str) (h : attrOK a = true) : unescape a = a := by
  simp only [attrOK, Bool.or_eq_true, decide_eq_true_eq] at h
  cases h with
  | inl h => subst h; exact unescape_default
  | inr h => exact unescape_rawTerm a h

theorem notReserved_parts {a : Str} (h : notReserved a = true) : a ≠ existsField ∧ a ≠ missingField := by
  simp only [notReserved, Bool.not_eq_true', Bool.or_eq_false_iff, decide_eq_false_iff_not] at h
  exact h

/-- front facts of text printed by `lucene_escape` -/
theorem esc_front (v rest : Str) (h : escTermOK v = true) (hk : kwStart v = false) (hr : termStop rest = true) :
    matchall (luceneEscape v ++ rest) = none ∧ skipWs (luceneEscape v ++ rest) = luceneEscape v ++ rest ∧
    modifiers (luceneEscape v ++ rest) = none := by
  obtain ⟨hne, hw, _⟩ := escTermOK_parts h
  exact termHead_front _ (termHead_escape v rest hne hw) (kwStart_not (kwStart_escape v rest hr hk))

theorem visit_term (F : FloatLib) (a v : Str) (ha : attrOK a = true) (hn : notReserved a = true) :
    visitValue F a (.term (luceneEscape v)) = .ok (.leaf (.term a v)) := by
  obtain ⟨h1, h2⟩ := notReserved_parts hn
  simp [visitValue, h1, h2, unescape_attr a ha, unescape_luceneEscape]

theorem term_end_none (rest : Str) (h : QEnd rest) : term rest = none := by
  cases h with
  | inl h => subst h; rfl
  | inr h => obtain ⟨r, rfl⟩ := h; rfl

/-- a default-field term alone in its (sub)query is read by `multiterm` -/
theorem multiterm_default_end (v rest : Str) (h : escTermOK v = true) (hk : kwStart v = false) (hr : QEnd rest) :
    multiterm (luceneEscape v ++ rest) = some ([luceneEscape v], rest) := by
  have ht := term_esc v rest h hk hr.itemEnd.termStop
  have hs := (esc_front v rest h hk hr.itemEnd.termStop).2.1
  have hla : multitermLookahead (luceneEscape v ++ rest) = true := by
    simp only [multitermLookahead, ht]
    cases hr with
    | inl e => subst e; rfl
    | inr e => obtain ⟨r, rfl⟩ := e; rfl
  have hla2 : multitermLookahead rest = false := by
    simp [multitermLookahead, term_end_none rest hr]
  simp only [multiterm, hla, if_true, hs, ht, skipWs_QEnd hr, hla2]
  simp

theorem multiterm_default_sep (v x : Str) (op : BoolOp) (h : escTermOK v = true) (hk : kwStart v = false) :
    multiterm (luceneEscape v ++ (sepOf op ++ x)) = none := by
  have hstop : termStop (sepOf op ++ x) = true := by cases op <;> rfl
  have ht := term_esc v (sepOf op ++ x) h hk hstop
  have hla : multitermLookahead (luceneEscape v ++ (sepOf op ++ x)) = false := by
    simp only [multitermLookahead, ht]
    cases op <;> rfl
  simp [multiterm, hla]

theorem itemEnd_cases {rest : Str} (h : ItemEnd rest) : QEnd rest ∨ ∃ op x, rest = sepOf op ++ x := by
  rcases h with h | ⟨r, h⟩ | ⟨r, h⟩ | ⟨r, h⟩
  · exact Or.inl (Or.inl h)
  · exact Or.inl (Or.inr ⟨r, h⟩)
  · exact Or.inr ⟨.and, r, by simp [h, sepOf, andSep]⟩
  · exact Or.inr ⟨.or, r, by simp [h, sepOf, orSep]⟩

theorem leafGood_term (F : FloatLib) (a v : Str) (h : NFLeaf F (.term a v) = true) : LeafGood F (.term a v) := by
  simp only [NFLeaf, Bool.and_eq_true, Bool.not_eq_true'] at h
  obtain ⟨⟨⟨ha, hn⟩, hv⟩, hk⟩ := h
  obtain ⟨hne, hw, _⟩ := escTermOK_parts hv
  by_cases hd : a = defaultField
  · subst hd
    have hL : (Leaf.term defaultField v).toLucene F = luceneEscape v := by
      show attrPrefix defaultField ++ luceneEscape v = luceneEscape v
      rw [attrPrefix_default]; rfl
    have hvis : visitClause F (.value none (.term (luceneEscape v))) defaultField = .ok (.leaf (.term defaultField v)) := by
      simpa [visitClause] using visit_term F defaultField v ha hn
    have hcl : ∀ fuel rest, ItemEnd rest →
        clause (fuel + 1) ((Leaf.term defaultField v).toLucene F ++ rest) = .ok (.value none (.term (luceneEscape v))) rest := by
      intro fuel rest hr
      rw [hL]
      obtain ⟨h1, h2, _⟩ := esc_front v rest hv hk hr.termStop
      exact clause_value fuel _ none _ _ rest h1
        (Or.inl ⟨field_none_of_term _ _ rest (term_esc v rest hv hk hr.termStop) hr.not_colon, rfl, h2.symm⟩)
        (value_esc_term v rest hv hk hr)
    refine ⟨?_, ⟨_, hcl, hvis⟩, ?_, ?_, by rw [hL]; exact luceneEscape_ne_nil v hne⟩
    · intro fuel rest hr
      cases itemEnd_cases hr with
      | inl hq =>
        refine ⟨.multiterm [luceneEscape v], ?_, ?_⟩
        · rw [hL, item, multiterm_default_end v rest hv hk hq]
        · intro tail st
          simp [PItem.cons, visitItems, visitMultiterm, joinSpace, unescape_luceneEscape, VState.conj]
      | inr hs =>
        obtain ⟨op, x, rfl⟩ := hs
        refine ⟨.clause none none (.value none (.term (luceneEscape v))), ?_, pushes_clause F none _ _ hvis⟩
        have := hcl fuel _ hr
        rw [hL] at this ⊢
        obtain ⟨_, h2, h3⟩ := esc_front v (sepOf op ++ x) hv hk hr.termStop
        exact item_first_plain (fuel + 1) _ _ _ (multiterm_default_sep v x op hv hk) h3 h2 this
    · intro x; rw [hL]; exact skipWs_termHead _ (termHead_escape v x hne hw)
    · intro rest hr; rw [hL]; exact (esc_front v rest hv hk hr.termStop).2.2
  · exact leafGood_attr F (.term a v) a (luceneEscape v) (.term (luceneEscape v)) rfl ha
      (fun rest hr => value_esc_term v rest hv hk hr)
      (fun x => skipWs_termHead _ (termHead_escape v x hne hw)) (luceneEscape_ne_nil v hne)
      (fun e => absurd e hd) (fun e => absurd e hd) (visit_term F a v ha hn)


/-! ### phrases -/

theorem phraseBody_bs (c : Char) (r : Str) :
    phraseBody ('\\' :: c :: r) = (phraseBody r).map fun p => ('\\' :: c :: p.1, p.2) := by
  conv => lhs; unfold phraseBody
  simp

theorem phraseBody_quote (r : Str) : phraseBody ('"' :: r) = some ([], r) := by
  conv => lhs; unfold phraseBody
  simp

theorem phraseBody_cons (c : Char) (r : Str) (h1 : c ≠ '\\') (h2 : c ≠ '"') :
    phraseBody (c :: r) = (phraseBody r).map fun p => (c :: p.1, p.2) := by
  conv => lhs; unfold phraseBody
  simp [h1, h2]

theorem phraseBody_quoted : (p rest : Str) →
    phraseBody (quotedEscape p ++ '"' :: rest) = some (quotedEscape p, rest)
  | [], rest => by simp [quotedEscape, phraseBody_quote]
  | c :: p, rest => by
    by_cases h : (c == '"' || c == '\\') = true
    · simp only [quotedEscape, h, if_true, List.cons_append]
      rw [phraseBody_bs, phraseBody_quoted p rest]; rfl
    · have h1 : c ≠ '\\' := by intro e; subst e; exact h (by decide)
      have h2 : c ≠ '"' := by intro e; subst e; exact h (by decide)
      simp only [quotedEscape, h, Bool.false_eq_true, if_false, List.cons_append]
      rw [phraseBody_cons c _ h1 h2, phraseBody_quoted p rest]; rfl

theorem phrase_quoted (p rest : Str) :
    phrase ('"' :: (quotedEscape p ++ '"' :: rest)) = some ('"' :: quotedEscape p ++ ['"'], rest) := by
  simp [phrase, phraseBody_quoted]

theorem value_quoted (p rest : Str) :
    value (('"' :: quotedEscape p ++ ['"']) ++ rest) = some (.phrase ('"' :: quotedEscape p ++ ['"']), rest) := by
  have e : ('"' :: quotedEscape p ++ ['"']) ++ rest = '"' :: (quotedEscape p ++ '"' :: rest) := by simp
  rw [e]
  simp only [value, starValue_ne '"' (quotedEscape p ++ '"' :: rest) (by decide), alt_none, phraseValue,
    phrase_quoted, Option.map_some, alt_some]

theorem visitPhrase_quoted (p : Str) : visitPhrase ('"' :: quotedEscape p ++ ['"']) = p := by
  simp [visitPhrase, unescape_quotedEscape]

theorem leafGood_quoted (F : FloatLib) (a p : Str) (h : NFLeaf F (.quoted a p) = true) : LeafGood F (.quoted a p) := by
  simp only [NFLeaf, Bool.and_eq_true] at h
  obtain ⟨ha, hn⟩ := h
  obtain ⟨h1, h2⟩ := notReserved_parts hn
  exact leafGood_attr F (.quoted a p) a ('"' :: quotedEscape p ++ ['"']) (.phrase ('"' :: quotedEscape p ++ ['"']))
    (by show attrPrefix a ++ ['"'] ++ quotedEscape p ++ ['"'] = attrPrefix a ++ ('"' :: quotedEscape p ++ ['"'])
        simp only [List.append_assoc, List.cons_append, List.nil_append])
    ha (fun rest _ => value_quoted p rest) (fun x => rfl) (by simp)
    (fun _ rest _ => ⟨rfl, rfl, rfl⟩) (fun _ rest _ => rfl)
    (by simp only [visitValue, h1, h2, if_false, unescape_attr a ha, visitPhrase_quoted])

/-! ### prefixes -/

theorem dropLast_append_singleton (x : Str) (c : Char) : (x ++ [c]).dropLast = x := by
  simp

theorem leafGood_pfx (F : FloatLib) (a p : Str) (h : NFLeaf F (.pfx a p) = true) : LeafGood F (.pfx a p) := by
  simp only [NFLeaf, Bool.and_eq_true, Bool.not_eq_true'] at h
  obtain ⟨⟨ha, hp⟩, hkd⟩ := h
  obtain ⟨hne, hw, _⟩ := escTermOK_parts hp
  have hbody : ∀ x, (luceneEscape p ++ ['*']) ++ x = luceneEscape p ++ '*' :: x := by intro x; simp
  have hscan : ∀ rest, termScan (luceneEscape p ++ '*' :: rest) = some (luceneEscape p, '*' :: rest) :=
    fun rest => termScan_esc p _ hp (termStop_star rest)
  refine leafGood_attr F (.pfx a p) a (luceneEscape p ++ ['*']) (.pfx (luceneEscape p ++ ['*']))
    (by show attrPrefix a ++ luceneEscape p ++ ['*'] = attrPrefix a ++ (luceneEscape p ++ ['*'])
        simp only [List.append_assoc])
    ha ?_ ?_ (by simp) ?_ ?_ ?_
  · intro rest hr
    rw [hbody]
    exact value_pfx _ _ rest (termHead_escape p _ hne hw) (termPrefix_of_scan _ _ rest (hscan rest) hr.atTermEnd)
  · intro x; rw [hbody]; exact skipWs_termHead _ (termHead_escape p _ hne hw)
  · intro hd rest hr
    have hk : kwStart p = false := by
      cases hk : kwStart p with
      | false => rfl
      | true => simp [hd, hk] at hkd
    rw [hbody]
    have ht := term_esc p ('*' :: rest) hp hk (termStop_star rest)
    exact ⟨(esc_front p _ hp hk (termStop_star rest)).1,
      field_none_of_term _ _ _ ht (by intro r' e; simp at e),
      multiterm_none_of_term _ _ '*' rest ht (Or.inr rfl)⟩
  · intro hd rest hr
    have hk : kwStart p = false := by
      cases hk : kwStart p with
      | false => rfl
      | true => simp [hd, hk] at hkd
    rw [hbody]
    exact (esc_front p _ hp hk (termStop_star rest)).2.2
  · simp only [visitValue, visitPrefix, unescape_attr a ha, dropLast_append_singleton, unescape_luceneEscape]


/-! ### comparisons -/

theorem ItemEnd.numStop {rest : Str} (h : ItemEnd rest) : numStop rest = true := by
  rcases h with h | ⟨r, h⟩ | ⟨r, h⟩ | ⟨r, h⟩ <;> subst h <;> rfl

theorem operator_asLucene (op : Cmp) (t : Str) (h : ∀ r, t ≠ '=' :: r) :
    operator (op.asLucene ++ t) = some (op, t) := by
  cases op with
  | gte => simp [Cmp.asLucene, operator]
  | lte => simp [Cmp.asLucene, operator]
  | gt =>
    cases t with
    | nil => simp [Cmp.asLucene, operator]
    | cons d r =>
      have : d ≠ '=' := by intro e; subst e; exact h r rfl
      simp [Cmp.asLucene, operator, this]
  | lt =>
    cases t with
    | nil => simp [Cmp.asLucene, operator]
    | cons d r =>
      have : d ≠ '=' := by intro e; subst e; exact h r rfl
      simp [Cmp.asLucene, operator, this]

/-- text starting with a comparison operator: only the `comparison` alternative applies, and nothing
    comes before the clause -/
theorem cmp_front (op : Cmp) (x : Str) :
    starValue (op.asLucene ++ x) = none ∧ phraseValue (op.asLucene ++ x) = none ∧
    prefixValue (op.asLucene ++ x) = none ∧ matchall (op.asLucene ++ x) = none ∧
    field (op.asLucene ++ x) = none ∧ multiterm (op.asLucene ++ x) = none ∧
    modifiers (op.asLucene ++ x) = none ∧ skipWs (op.asLucene ++ x) = op.asLucene ++ x := by
  cases op <;> exact ⟨rfl, rfl, rfl, rfl, rfl, rfl, rfl, rfl⟩

theorem value_cmp (op : Cmp) (x : Str) (pv : PValue) (rest : Str)
    (hc : comparison (op.asLucene ++ x) = some (pv, rest)) : value (op.asLucene ++ x) = some (pv, rest) := by
  obtain ⟨h1, h2, h3, _⟩ := cmp_front op x
  simp only [value, h1, h2, h3, alt_none, hc, alt_some]

theorem digits_head (c : Char) (r : Str) (h : isAsciiDigit c = false) : (digits (c :: r)).1 = [] := by
  rw [digits_cons, h]; rfl

theorem numUnsigned_none_of (s : Str) (h : (digits s).1 = []) : numUnsigned s = none := by
  simp [numUnsigned, h]

theorem escape_head_nondigit (s rest : Str) (hr : numStop rest = true)
    (h : ∀ d r, s = d :: r → isAsciiDigit d = false) : (digits (luceneEscape s ++ rest)).1 = [] := by
  cases s with
  | nil => simp [luceneEscape, digits_stop rest hr]
  | cons d r =>
    by_cases hs : isLuceneSpecial d = true
    · simp only [luceneEscape, hs, if_true, List.cons_append]
      exact digits_head _ _ (by decide)
    · simp only [luceneEscape, hs, Bool.false_eq_true, if_false, List.cons_append]
      exact digits_head _ _ (h d r rfl)

/-- a string operand that does not start like a number is not read as `NUMERIC_TERM` -/
theorem numericTerm_none_esc (s rest : Str) (hne : s ≠ []) (hn : numStart s = false) (hr : numStop rest = true) :
    numericTerm (luceneEscape s ++ rest) = none := by
  have : numValue (luceneEscape s ++ rest) = none := by
    cases s with
    | nil => exact absurd rfl hne
    | cons c s' =>
      unfold numValue
      by_cases hs : isLuceneSpecial c = true
      · simp only [luceneEscape, hs, if_true, List.cons_append]
        by_cases hm : c = '-'
        · subst hm
          have hsg : numSign ('\\' :: '-' :: (luceneEscape s' ++ rest)) = (['\\', '-'], luceneEscape s' ++ rest) := by
            simp [numSign]
          rw [hsg]
          have hd : (digits (luceneEscape s' ++ rest)).1 = [] := by
            apply escape_head_nondigit s' rest hr
            intro d r e
            subst e
            simpa [numStart] using hn
          simp [numUnsigned_none_of _ hd]
        · have hsg : numSign ('\\' :: c :: (luceneEscape s' ++ rest)) = ([], '\\' :: c :: (luceneEscape s' ++ rest)) := by
            simp [numSign, hm]
          rw [hsg]
          simp [numUnsigned_none_of _ (digits_head '\\' _ (by decide))]
      · have hm : c ≠ '-' := by intro e; subst e; exact hs (by decide)
        have hb : c ≠ '\\' := by intro e; subst e; exact hs (by decide)
        simp only [luceneEscape, hs, Bool.false_eq_true, if_false, List.cons_append]
        have hsg : numSign (c :: (luceneEscape s' ++ rest)) = ([], c :: (luceneEscape s' ++ rest)) := by
          simp [numSign, hm, hb]
        rw [hsg]
        have hd : isAsciiDigit c = false := by simpa [numStart, hm] using hn
        simp [numUnsigned_none_of _ (digits_head c _ hd)]
  simp [numericTerm, this]

theorem escape_head_ne_eq (s rest : Str) (hne : s ≠ []) : ∀ r, luceneEscape s ++ rest ≠ '=' :: r := by
  intro r e
  cases s with
  | nil => exact absurd rfl hne
  | cons c s' =>
    by_cases hs : isLuceneSpecial c = true
    · simp [luceneEscape, hs] at e
    · simp only [luceneEscape, hs, Bool.false_eq_true, if_false, List.cons_append, List.cons.injEq] at e
      rw [e.1] at hs; exact hs (by decide)

theorem numeric_head_ne_eq (p rest : Str) (h : numericTerm p = some (p, [])) : ∀ r, p ++ rest ≠ '=' :: r := by
  intro r e
  cases p with
  | nil => simp [numericTerm, numValue, numSign, numUnsigned, digits] at h
  | cons c p' =>
    simp only [List.cons_append, List.cons.injEq] at e
    rw [e.1] at h
    have : numericTerm ('=' :: p') = none := rfl
    rw [this] at h; cases h

theorem leafGood_comparison (F : FloatLib) (a : Str) (op : Cmp) (cv : CV)
    (h : NFLeaf F (.comparison a op cv) = true) : LeafGood F (.comparison a op cv) := by
  simp only [NFLeaf, Bool.and_eq_true] at h
  obtain ⟨ha, hcv⟩ := h
  have hL : (Leaf.comparison a op cv).toLucene F = attrPrefix a ++ (op.asLucene ++ cv.toLucene F) := by
    show attrPrefix a ++ op.asLucene ++ cv.toLucene F = _
    simp only [List.append_assoc]
  have hne : op.asLucene ++ cv.toLucene F ≠ [] := by cases op <;> simp [Cmp.asLucene]
  have hfront := fun x => cmp_front op (cv.toLucene F ++ x)
  -- the value token and what the visitor makes of it
  have key : ∃ pv, (∀ rest, ItemEnd rest → comparison (op.asLucene ++ (cv.toLucene F ++ rest)) = some (pv, rest)) ∧
      visitValue F a pv = .ok (.leaf (.comparison a op cv)) := by
    cases cv with
    | unbounded => simp [cmpValueOK] at hcv
    | str s =>
      simp only [cmpValueOK, Bool.and_eq_true, Bool.not_eq_true'] at hcv
      obtain ⟨⟨hs, hk⟩, hnum⟩ := hcv
      obtain ⟨hsne, _, _⟩ := escTermOK_parts hs
      refine ⟨.cmp op false (luceneEscape s), ?_, ?_⟩
      · intro rest hr
        simp only [CV.toLucene, comparison,
          operator_asLucene op _ (escape_head_ne_eq s rest hsne),
          numericTerm_none_esc s rest hsne hnum hr.numStop, term_esc s rest hs hk hr.termStop]
      · simp [visitValue, unescape_attr a ha, unescape_luceneEscape]
    | int i =>
      simp only [cmpValueOK, numTextOK, Bool.and_eq_true, decide_eq_true_eq] at hcv
      refine ⟨.cmp op true ((CV.int i).toLucene F), ?_, ?_⟩
      · intro rest hr
        simp only [comparison, operator_asLucene op _ (numeric_head_ne_eq _ rest hcv.1),
          numericTerm_append _ rest hr.numStop hcv.1]
      · simp [visitValue, unescape_attr a ha, hcv.2]
    | float b =>
      simp only [cmpValueOK, numTextOK, Bool.and_eq_true, decide_eq_true_eq] at hcv
      refine ⟨.cmp op true ((CV.float b).toLucene F), ?_, ?_⟩
      · intro rest hr
        simp only [comparison, operator_asLucene op _ (numeric_head_ne_eq _ rest hcv.1),
          numericTerm_append _ rest hr.numStop hcv.1]
      · simp [visitValue, unescape_attr a ha, hcv.2]
  obtain ⟨pv, hcmp, hvis⟩ := key
  refine leafGood_attr F _ a (op.asLucene ++ cv.toLucene F) pv hL ha ?_ ?_ hne ?_ ?_ hvis
  · intro rest hr
    rw [List.append_assoc]
    exact value_cmp op _ pv rest (hcmp rest hr)
  · intro x; rw [List.append_assoc]; exact (hfront x).2.2.2.2.2.2.2
  · intro _ rest _; rw [List.append_assoc]
    exact ⟨(hfront rest).2.2.2.1, (hfront rest).2.2.2.2.1, (hfront rest).2.2.2.2.2.1⟩
  · intro _ rest _; rw [List.append_assoc]; exact (hfront rest).2.2.2.2.2.2.1


/-! ### ranges -/

theorem toSep : " TO ".toList = [' ', 'T', 'O', ' '] := by decide

def rvChar (c : Char) : Bool := !isWs c && c != ']' && c != '}'

def rvStop (x : Str) : Bool :=
  match x with
  | [] => true
  | c :: _ => isWs c || c == ']' || c == '}'

theorem rangeValueChars_cons (c : Char) (r : Str) :
    rangeValueChars (c :: r) =
      if isWs c || c == ']' || c == '}' then ([], c :: r)
      else ((c :: (rangeValueChars r).1), (rangeValueChars r).2) := by
  rw [rangeValueChars]

theorem rangeValueChars_append : (p x : Str) → p.all rvChar = true → rvStop x = true →
    rangeValueChars (p ++ x) = (p, x)
  | [], x, _, hx => by
    cases x with
    | nil => rfl
    | cons c r =>
      simp only [rvStop] at hx
      rw [List.nil_append, rangeValueChars_cons, hx]; rfl
  | c :: p, x, hp, hx => by
    simp only [List.all_cons, Bool.and_eq_true] at hp
    have hc : (isWs c || c == ']' || c == '}') = false := by
      have := hp.1
      simp only [rvChar, Bool.and_eq_true, Bool.not_eq_true', bne_iff_ne, ne_eq] at this
      simp [this.1.1, this.1.2, this.2]
    rw [List.cons_append, rangeValueChars_cons, hc, rangeValueChars_append p x hp.2 hx]
    rfl

theorem rangeValue_append (p x : Str) (hne : p ≠ []) (hp : p.all rvChar = true) (hx : rvStop x = true) :
    rangeValue (p ++ x) = some (p, x) := by
  unfold rangeValue
  rw [rangeValueChars_append p x hp hx]
  cases p with
  | nil => exact absurd rfl hne
  | cons c r => rfl

theorem rangeBound_parts (F : FloatLib) (cv : CV) (h : rangeBoundOK F cv = true) :
    cv.toLucene F ≠ [] ∧ (cv.toLucene F).all rvChar = true ∧ CV.ofText F (cv.toLucene F) = cv := by
  simp only [rangeBoundOK, Bool.and_eq_true, Bool.not_eq_true', decide_eq_true_eq] at h
  refine ⟨?_, ?_, h.2⟩
  · intro e; rw [e] at h; simp at h
  · exact h.1.2

theorem rangeValueOK_bound (F : FloatLib) (cv : CV) (h : rangeValueOK F cv = true) : rangeBoundOK F cv = true := by
  cases cv with
  | unbounded => rfl
  | str s => simp only [rangeValueOK, Bool.and_eq_true] at h; exact h.2
  | int i => exact h
  | float b => exact h

theorem skipWs_rv (p x : Str) (hne : p ≠ []) (hp : p.all rvChar = true) : skipWs (p ++ x) = p ++ x := by
  cases p with
  | nil => exact absurd rfl hne
  | cons c r =>
    simp only [List.all_cons, Bool.and_eq_true, rvChar, Bool.not_eq_true'] at hp
    exact skipWs_head c _ hp.1.1.1

/-- the `range` rule on a printed range; each bracket is of either kind -/
theorem range_printed (lsq rsq : Bool) (v1 v2 rest : Str) (h1 : v1 ≠ []) (h1c : v1.all rvChar = true)
    (h2 : v2 ≠ []) (h2c : v2.all rvChar = true) :
    range ((if lsq then '[' else '{') :: (v1 ++ (' ' :: 'T' :: 'O' :: ' ' :: (v2 ++ (if rsq then ']' else '}') :: rest)))) =
      some (.range lsq v1 v2 rsq, rest) := by
  have key : ∀ (o cl : Char), ((o = '[' ∧ lsq = true) ∨ (o = '{' ∧ lsq = false)) →
      ((cl = ']' ∧ rsq = true) ∨ (cl = '}' ∧ rsq = false)) →
      range (o :: (v1 ++ (' ' :: 'T' :: 'O' :: ' ' :: (v2 ++ cl :: rest)))) = some (.range lsq v1 v2 rsq, rest) := by
    intro o cl ho hc
    have hstop2 : rvStop (cl :: rest) = true := by
      rcases hc with ⟨rfl, _⟩ | ⟨rfl, _⟩ <;> rfl
    have e1 : skipWs (v1 ++ (' ' :: 'T' :: 'O' :: ' ' :: (v2 ++ cl :: rest))) = v1 ++ (' ' :: 'T' :: 'O' :: ' ' :: (v2 ++ cl :: rest)) :=
      skipWs_rv v1 _ h1 h1c
    have e2 : rangeValue (v1 ++ (' ' :: 'T' :: 'O' :: ' ' :: (v2 ++ cl :: rest))) = some (v1, ' ' :: 'T' :: 'O' :: ' ' :: (v2 ++ cl :: rest)) :=
      rangeValue_append v1 _ h1 h1c rfl
    have e3 : stripPrefix ['T', 'O'] (skipWs (' ' :: 'T' :: 'O' :: ' ' :: (v2 ++ cl :: rest))) = some (' ' :: (v2 ++ cl :: rest)) := rfl
    have e4 : skipWs (' ' :: (v2 ++ cl :: rest)) = v2 ++ cl :: rest := by
      rw [show skipWs (' ' :: (v2 ++ cl :: rest)) = skipWs (v2 ++ cl :: rest) from rfl]
      exact skipWs_rv v2 _ h2 h2c
    have e5 : rangeValue (v2 ++ cl :: rest) = some (v2, cl :: rest) := rangeValue_append v2 _ h2 h2c hstop2
    have e6 : skipWs (cl :: rest) = cl :: rest := by
      rcases hc with ⟨rfl, _⟩ | ⟨rfl, _⟩ <;> rfl
    unfold range
    rcases ho with ⟨rfl, rfl⟩ | ⟨rfl, rfl⟩ <;> rcases hc with ⟨rfl, rfl⟩ | ⟨rfl, rfl⟩ <;>
      simp only [Char.reduceEq, if_false, if_true, e1, e2, e3, e4, e5, e6]
  apply key
  · cases lsq <;> simp
  · cases rsq <;> simp

/-- text starting with a range bracket: only the `range` alternative applies -/
theorem range_front (lsq : Bool) (x : Str) :
    let s := (if lsq then '[' else '{') :: x
    starValue s = none ∧ phraseValue s = none ∧ prefixValue s = none ∧ comparison s = none ∧
    matchall s = none ∧ field s = none ∧ multiterm s = none ∧ modifiers s = none ∧ skipWs s = s := by
  cases lsq <;> exact ⟨rfl, rfl, rfl, rfl, rfl, rfl, rfl, rfl, rfl⟩

theorem leafGood_range (F : FloatLib) (a : Str) (lo : CV) (li : Bool) (hi : CV) (ui : Bool)
    (h : NFLeaf F (.range a lo li hi ui) = true) : LeafGood F (.range a lo li hi ui) := by
  simp only [NFLeaf, Bool.and_eq_true] at h
  obtain ⟨⟨ha, hlo⟩, hhi⟩ := h
  obtain ⟨l1, l2, l3⟩ := rangeBound_parts F lo (rangeValueOK_bound F lo hlo)
  obtain ⟨u1, u2, u3⟩ := rangeBound_parts F hi (rangeValueOK_bound F hi hhi)
  let body : Str := (if li then '[' else '{') ::
    (lo.toLucene F ++ (' ' :: 'T' :: 'O' :: ' ' :: (hi.toLucene F ++ [if ui then ']' else '}'])))
  have hbody : ∀ x, body ++ x = (if li then '[' else '{') ::
      (lo.toLucene F ++ (' ' :: 'T' :: 'O' :: ' ' :: (hi.toLucene F ++ (if ui then ']' else '}') :: x))) := by
    intro x; simp [body]
  have hL : (Leaf.range a lo li hi ui).toLucene F = attrPrefix a ++ body := by
    show attrPrefix a ++ [if li then '[' else '{'] ++ lo.toLucene F ++ " TO ".toList ++ hi.toLucene F ++
      [if ui then ']' else '}'] = _
    rw [toSep]
    simp [body]
  refine leafGood_attr F _ a body (.range li (lo.toLucene F) (hi.toLucene F) ui) hL ha ?_ ?_ (by simp [body]) ?_ ?_ ?_
  · intro rest _
    rw [hbody]
    have hf := range_front li (lo.toLucene F ++ (' ' :: 'T' :: 'O' :: ' ' :: (hi.toLucene F ++ (if ui then ']' else '}') :: rest)))
    simp only at hf
    obtain ⟨f1, f2, f3, f4, _⟩ := hf
    simp only [value, f1, f2, f3, f4, alt_none, range_printed li ui _ _ rest l1 l2 u1 u2, alt_some]
  · intro x; rw [hbody]; exact (range_front li _).2.2.2.2.2.2.2.2
  · intro _ rest _; rw [hbody]
    exact ⟨(range_front li _).2.2.2.2.1, (range_front li _).2.2.2.2.2.1, (range_front li _).2.2.2.2.2.2.1⟩
  · intro _ rest _; rw [hbody]; exact (range_front li _).2.2.2.2.2.2.2.1
  · simp [visitValue, unescape_attr a ha, l3, u3]

end Search
