import VrlProofs.Lemmas.KindUnion

/-! `merge_keep` preserves the two structural hypotheses of the soundness theorems:
    key-sortedness of the known maps (`SortedK`) and "every `Infinite` unknown is `any`". -/

namespace KList

theorem allGt_trans' : (m : KList) → (a b : Key) → Key.lt a b = true → allGt b m = true →
    allGt a m = true
  | .nil, _, _, _, _ => rfl
  | .cons l _ m, a, b, hab, h => by
    simp only [allGt, Bool.and_eq_true] at h ⊢
    exact ⟨Key.lt_trans a b l hab h.1, allGt_trans' m a b hab h.2⟩

theorem allGt_insert : (m : KList) → (a q : Key) → (x : Kind) → Key.lt a q = true →
    allGt a m = true → allGt a (m.insert q x) = true
  | .nil, a, q, x, h, _ => by simp [insert, allGt, h]
  | .cons k v m, a, q, x, h, hm => by
    simp only [allGt, Bool.and_eq_true] at hm
    simp only [insert]
    split
    · simp [allGt, h, hm.1, hm.2]
    · split
      · simp [allGt, hm.1, hm.2]
      · simp [allGt, hm.1, allGt_insert m a q x h hm.2]

theorem sortedKeys_insert : (m : KList) → (q : Key) → (x : Kind) → m.SortedKeys = true →
    (m.insert q x).SortedKeys = true
  | .nil, q, x, _ => by simp [insert, SortedKeys, allGt]
  | .cons k v m, q, x, hs => by
    simp only [SortedKeys, Bool.and_eq_true] at hs
    simp only [insert]
    split
    · rename_i hlt
      simp only [SortedKeys, allGt, Bool.and_eq_true]
      exact ⟨⟨hlt, allGt_trans' m q k hlt hs.1⟩, hs.1, hs.2⟩
    · split
      · simp only [SortedKeys, Bool.and_eq_true]; exact hs
      · rename_i hnlt hne
        have hkq : Key.lt k q = true := by
          rcases Key.lt_total k q with h | h | h
          · exact h
          · exact absurd h hne
          · simp [h] at hnlt
        simp only [SortedKeys, Bool.and_eq_true]
        exact ⟨allGt_insert m k q x hkq hs.1, sortedKeys_insert m q x hs.2⟩

theorem allGt_mapKV (f : Key → Kind → Kind) : (m : KList) → (a : Key) →
    allGt a (mapKV f m) = allGt a m
  | .nil, _ => rfl
  | .cons k v m, a => by simp [mapKV, allGt, allGt_mapKV f m a]

theorem sortedKeys_mapKV (f : Key → Kind → Kind) : (m : KList) →
    (mapKV f m).SortedKeys = m.SortedKeys
  | .nil => rfl
  | .cons k v m => by simp [mapKV, SortedKeys, allGt_mapKV, sortedKeys_mapKV f m]

theorem allGt_remove : (m : KList) → (a q : Key) → allGt a m = true → allGt a (m.remove q) = true
  | .nil, _, _, _ => rfl
  | .cons k v m, a, q, hm => by
    simp only [allGt, Bool.and_eq_true] at hm
    simp only [remove]
    split
    · exact hm.2
    · simp [allGt, hm.1, allGt_remove m a q hm.2]

theorem sortedKeys_remove : (m : KList) → (q : Key) → m.SortedKeys = true →
    (m.remove q).SortedKeys = true
  | .nil, _, _ => rfl
  | .cons k v m, q, hs => by
    simp only [SortedKeys, Bool.and_eq_true] at hs
    simp only [remove]
    split
    · exact hs.2
    · simp only [SortedKeys, Bool.and_eq_true]
      exact ⟨allGt_remove m k q hs.1, sortedKeys_remove m q hs.2⟩

/-- a property of all values of a known map. -/
def allV (P : Kind → Bool) : KList → Bool
  | .nil => true
  | .cons _ v m => P v && allV P m

theorem allV_insert (P : Kind → Bool) : (m : KList) → (q : Key) → (x : Kind) → allV P m = true →
    P x = true → allV P (m.insert q x) = true
  | .nil, q, x, _, hx => by simp [insert, allV, hx]
  | .cons k v m, q, x, hm, hx => by
    simp only [allV, Bool.and_eq_true] at hm
    simp only [insert]
    split
    · simp [allV, hx, hm.1, hm.2]
    · split
      · simp [allV, hx, hm.2]
      · simp [allV, hm.1, allV_insert P m q x hm.2 hx]

theorem allV_remove (P : Kind → Bool) : (m : KList) → (q : Key) → allV P m = true →
    allV P (m.remove q) = true
  | .nil, _, _ => rfl
  | .cons k v m, q, hm => by
    simp only [allV, Bool.and_eq_true] at hm
    simp only [remove]
    split
    · exact hm.2
    · simp [allV, hm.1, allV_remove P m q hm.2]

theorem allV_mapKV (P : Kind → Bool) (f : Key → Kind → Kind) (hf : ∀ k v, P v = true → P (f k v) = true) :
    (m : KList) → allV P m = true → allV P (mapKV f m) = true
  | .nil, _ => rfl
  | .cons k v m, hm => by
    simp only [allV, Bool.and_eq_true] at hm
    simp [mapKV, allV, hf k v hm.1, allV_mapKV P f hf m hm.2]

theorem allV_get (P : Kind → Bool) : (m : KList) → (q : Key) → (K : Kind) → allV P m = true →
    m.get q = some K → P K = true
  | .nil, _, _, _, h => by simp [get] at h
  | .cons k v m, q, K, hm, h => by
    simp only [allV, Bool.and_eq_true] at hm
    simp only [get] at h
    split at h
    · cases h; exact hm.1
    · exact allV_get P m q K hm.2 h

theorem allV_foldl_insert (P : Kind → Bool) (skip : Key → Bool) (g : Kind → Kind)
    (hg : ∀ v, P v = true → P (g v) = true) : (m : KList) → (acc : KList) → allV P m = true →
    allV P acc = true →
    allV P (m.foldl (fun acc key ok => if skip key then acc else acc.insert key (g ok)) acc) = true
  | .nil, acc, _, ha => ha
  | .cons k v m, acc, hm, ha => by
    simp only [allV, Bool.and_eq_true] at hm
    simp only [foldl]
    apply allV_foldl_insert P skip g hg m _ hm.2
    split
    · exact ha
    · exact allV_insert P acc k _ ha (hg v hm.1)

theorem sortedKeys_foldl_insert (skip : Key → Bool) (g : Kind → Kind) : (m : KList) → (acc : KList) →
    acc.SortedKeys = true →
    (m.foldl (fun acc key ok => if skip key then acc else acc.insert key (g ok)) acc).SortedKeys = true
  | .nil, acc, ha => ha
  | .cons k v m, acc, ha => by
    simp only [foldl]
    apply sortedKeys_foldl_insert skip g m
    split
    · exact ha
    · exact sortedKeys_insert acc k _ ha

theorem sortedK_eq_allV : (m : KList) → m.SortedK = allV Kind.SortedK m
  | .nil => rfl
  | .cons _ v m => by simp [SortedK, allV, sortedK_eq_allV m]

theorem hasNonAnyInf_eq_allV : (m : KList) →
    (!m.hasNonAnyInf) = allV (fun k => !k.hasNonAnyInf) m
  | .nil => rfl
  | .cons _ v m => by
    have := hasNonAnyInf_eq_allV m
    simp only [hasNonAnyInf, allV, Bool.not_or, this]

end KList

namespace Spec

/-- a predicate on kinds that only looks at the collections and is closed under the constructions
    `Collection::merge` performs around the recursive merges. -/
structure MergeInv (P : Kind → Bool) (PU : Unknown → Bool) (PL : KList → Bool) : Prop where
  prim : ∀ p p' a o, P (.mk p a o) = P (.mk p' a o)
  split : ∀ p a o, P (.mk p a o) = true ↔
    ((match a with | .none => True | .some (.mk k u) => PL k = true ∧ KList.allV P k = true ∧ PU u = true) ∧
     (match o with | .none => True | .some (.mk k u) => PL k = true ∧ KList.allV P k = true ∧ PU u = true))
  exact : ∀ k, PU (.exact k) = P k
  toKind : ∀ u, PU u = true → P u.toKind = true
  infMerge : ∀ l r, PU (.infinite l) = true → PU (.infinite r) = true → PU (.infinite (l.merge r)) = true
  any : P Kind.any = true
  plMap : ∀ (f : Key → Kind → Kind) (k : KList), PL k = true → PL (KList.mapKV f k) = true
  plFold : ∀ (skip : Key → Bool) (g : Kind → Kind) (m acc : KList), PL acc = true →
    PL (KList.foldl (fun acc key ok => if skip key then acc else acc.insert key (g ok)) acc m) = true

theorem ite_inv (P : Kind → Bool) (c : Prop) [Decidable c] (a b : Kind) (ha : P a = true)
    (hb : P b = true) : P (if c then a else b) = true := by
  by_cases h : c <;> simp [h, ha, hb]

theorem orUndefined_inv {P : Kind → Bool} {PU : Unknown → Bool} {PL : KList → Bool} (I : MergeInv P PU PL) (k : Kind) (h : P k = true) :
    P k.orUndefined = true := by
  cases k with
  | mk p a o => rw [Kind.orUndefined, I.prim _ p]; exact h

theorem withoutUndefined_inv {P : Kind → Bool} {PU : Unknown → Bool} {PL : KList → Bool} (I : MergeInv P PU PL) (k : Kind) (h : P k = true) :
    P k.withoutUndefined = true := by
  cases k with
  | mk p a o => rw [Kind.withoutUndefined, I.prim _ p]; exact h

theorem unknown_merge_inv {P : Kind → Bool} {PU : Unknown → Bool} {PL : KList → Bool} (I : MergeInv P PU PL) (f : Kind → Kind → Bool → Kind)
    (hf : ∀ x y ow, P x = true → P y = true → P (f x y ow) = true) (u1 u2 : Unknown) (ow : Bool)
    (h1 : PU u1 = true) (h2 : PU u2 = true) : PU (Unknown.mergeWith f u1 u2 ow) = true := by
  cases u1 with
  | exact l =>
    cases u2 with
    | exact r =>
      rw [I.exact] at h1 h2
      simp only [Unknown.mergeWith, I.exact]
      exact hf l r ow h1 h2
    | infinite r => simpa [Unknown.mergeWith] using h2
  | infinite l =>
    cases u2 with
    | exact r => simpa [Unknown.mergeWith] using h1
    | infinite r => simpa [Unknown.mergeWith] using I.infMerge l r h1 h2

theorem col_merge_inv {P : Kind → Bool} {PU : Unknown → Bool} {PL : KList → Bool} (I : MergeInv P PU PL) (f : Kind → Kind → Bool → Kind)
    (hf : ∀ x y ow, P x = true → P y = true → P (f x y ow) = true)
    (k1 k2 : KList) (u1 u2 : Unknown) (ow : Bool)
    (h1 : PL k1 = true ∧ KList.allV P k1 = true ∧ PU u1 = true)
    (h2 : PL k2 = true ∧ KList.allV P k2 = true ∧ PU u2 = true) :
    ∃ k u, Col.mergeWith f (.mk k1 u1) (.mk k2 u2) ow = .mk k u ∧
      PL k = true ∧ KList.allV P k = true ∧ PU u = true := by
  refine ⟨_, _, rfl, ?_, ?_, unknown_merge_inv I f hf u1 u2 ow h1.2.2 h2.2.2⟩
  · exact I.plFold _ _ _ _ (I.plMap _ _ h1.1)
  · apply KList.allV_foldl_insert
    · intro v hv
      unfold Col.mergeKnownOther
      have hu := I.toKind u1 h1.2.2
      simp only [Col.unknownKind, Col.unknown]
      exact ite_inv P _ _ _ (ite_inv P _ _ _ (hf _ _ _ hv hu) hv)
        (ite_inv P _ _ _ hv (orUndefined_inv I v hv))
    · exact h2.2.1
    · apply KList.allV_mapKV
      · intro k v hv
        unfold Col.mergeKnownSelf
        have hu := I.toKind u2 h2.2.2
        simp only [Col.known, Col.unknownKind, Col.unknown]
        cases hg : k2.get k with
        | some ok =>
          have hok := KList.allV_get P k2 k ok h2.2.1 hg
          simp only
          exact ite_inv P _ _ _ hok (hf _ _ _ hv hok)
        | none =>
          simp only
          exact ite_inv P _ _ _
            (ite_inv P _ _ _ (hf _ _ _ (withoutUndefined_inv I _ hu) hv) (hf _ _ _ hv hu))
            (ite_inv P _ _ _ (orUndefined_inv I v hv) hv)
      · exact h1.2.1

theorem ocol_merge_inv {P : Kind → Bool} {PU : Unknown → Bool} {PL : KList → Bool} (I : MergeInv P PU PL) (f : Kind → Kind → Bool → Kind)
    (hf : ∀ x y ow, P x = true → P y = true → P (f x y ow) = true) (a1 a2 : OCol) (ow : Bool)
    (h1 : match a1 with | .none => True | .some (.mk k u) => PL k = true ∧ KList.allV P k = true ∧ PU u = true)
    (h2 : match a2 with | .none => True | .some (.mk k u) => PL k = true ∧ KList.allV P k = true ∧ PU u = true) :
    match OCol.mergeWith f a1 a2 ow with
    | .none => True
    | .some (.mk k u) => PL k = true ∧ KList.allV P k = true ∧ PU u = true := by
  cases a1 with
  | none =>
    cases a2 with
    | none => trivial
    | some c2 => simpa [OCol.mergeWith] using h2
  | some c1 =>
    cases a2 with
    | none => simpa [OCol.mergeWith] using h1
    | some c2 =>
      cases c1 with
      | mk k1 u1 =>
      cases c2 with
      | mk k2 u2 =>
      obtain ⟨k, u, hm, hk⟩ := col_merge_inv I f hf k1 k2 u1 u2 ow h1 h2
      simp only [OCol.mergeWith, hm]
      exact hk

/-- `merge_keep` (any fuel, either strategy) preserves a `MergeInv` predicate. -/
theorem mergeKeepF_inv {P : Kind → Bool} {PU : Unknown → Bool} {PL : KList → Bool} (I : MergeInv P PU PL) : (n : Nat) → ∀ x y ow,
    P x = true → P y = true → P (Kind.mergeKeepF n x y ow) = true
  | 0 => by intro x y ow _ _; simpa [Kind.mergeKeepF] using I.any
  | n + 1 => by
    intro x y ow hx hy
    cases x with
    | mk p1 a1 o1 =>
    cases y with
    | mk p2 a2 o2 =>
    simp only [Kind.mergeKeepF]
    rw [I.split] at hx hy ⊢
    exact ⟨ocol_merge_inv I _ (mergeKeepF_inv I n) a1 a2 ow hx.1 hy.1,
      ocol_merge_inv I _ (mergeKeepF_inv I n) o1 o2 ow hx.2 hy.2⟩

end Spec

namespace Spec

theorem sortedK_inv : MergeInv Kind.SortedK Unknown.SortedK KList.SortedKeys where
  prim := by intro p p' a o; simp [Kind.SortedK]
  split := by
    intro p a o
    cases a with
    | none =>
      cases o with
      | none => simp [Kind.SortedK, OCol.SortedK]
      | some c => cases c; simp [Kind.SortedK, OCol.SortedK, Col.SortedK, KList.sortedK_eq_allV, and_assoc]
    | some c =>
      cases c
      cases o with
      | none => simp [Kind.SortedK, OCol.SortedK, Col.SortedK, KList.sortedK_eq_allV, and_assoc]
      | some c' => cases c'; simp [Kind.SortedK, OCol.SortedK, Col.SortedK, KList.sortedK_eq_allV, and_assoc]
  exact := by intro k; rfl
  toKind := Unknown.sortedK_toKind
  infMerge := by intros; rfl
  any := by decide
  plMap := by intro f k h; rw [KList.sortedKeys_mapKV]; exact h
  plFold := by intro skip g m acc h; exact KList.sortedKeys_foldl_insert skip g m acc h

theorem inf_merge_isAny (l r : Inf) (h : l.isAny = true) : (l.merge r).isAny = true := by
  simp only [Inf.isAny, Bool.and_eq_true] at h
  simp [Inf.isAny, Inf.merge, h]

theorem infAny_inv : MergeInv (fun k => !k.hasNonAnyInf) (fun u => !u.hasNonAnyInf) (fun _ => true) where
  prim := by intro p p' a o; simp [Kind.hasNonAnyInf]
  split := by
    intro p a o
    have hl := KList.hasNonAnyInf_eq_allV
    cases a with
    | none =>
      cases o with
      | none => simp [Kind.hasNonAnyInf, OCol.hasNonAnyInf]
      | some c =>
        cases c with
        | mk k u =>
          have := hl k
          simp only [Kind.hasNonAnyInf, OCol.hasNonAnyInf, Col.hasNonAnyInf, Bool.false_or, Bool.not_or,
            Bool.and_eq_true, this, true_and]
    | some c =>
      cases c with
      | mk k u =>
        have hk := hl k
        cases o with
        | none =>
          simp only [Kind.hasNonAnyInf, OCol.hasNonAnyInf, Col.hasNonAnyInf, Bool.or_false, Bool.not_or,
            Bool.and_eq_true, hk, true_and, and_true]
        | some c' =>
          cases c' with
          | mk k' u' =>
            have hk' := hl k'
            simp only [Kind.hasNonAnyInf, OCol.hasNonAnyInf, Col.hasNonAnyInf, Bool.not_or,
              Bool.and_eq_true, hk, hk', true_and]
  exact := by intro k; rfl
  toKind := by
    intro u h
    have := Unknown.infAny_toKind u (by simpa using h)
    simp [this]
  infMerge := by
    intro l r h1 _
    simp only [Unknown.hasNonAnyInf, Bool.not_not] at h1 ⊢
    exact inf_merge_isAny l r h1
  any := by decide
  plMap := by intros; rfl
  plFold := by intros; rfl

theorem mergeKeepF_sortedK (n : Nat) (x y : Kind) (ow : Bool) (hx : x.SortedK = true)
    (hy : y.SortedK = true) : (Kind.mergeKeepF n x y ow).SortedK = true :=
  mergeKeepF_inv sortedK_inv n x y ow hx hy

theorem mergeKeepF_infAny (n : Nat) (x y : Kind) (ow : Bool) (hx : x.hasNonAnyInf = false)
    (hy : y.hasNonAnyInf = false) : (Kind.mergeKeepF n x y ow).hasNonAnyInf = false := by
  have := mergeKeepF_inv infAny_inv n x y ow (by simp [hx]) (by simp [hy])
  simpa using this

end Spec
