/-
  Lemmas relating the VRL-source path machine (`PathVrl.vrun`) to the JIT machine
  (`PathText.jit`) state by state, used by the agreement theorem of C20 clause (2).
-/
import VrlModel.C20
import VrlProofs.Lemmas.PathText

namespace PathVrl
open PathText

/-! ## stepping `vrun` -/

theorem vrun_go {st st' : VState} {c : Char} (rest : List Char) (h : vstep st c = .go st') :
    vrun st (c :: rest) = vrun st' rest := by
  simp [vrun, h]

theorem vrun_emit {st st' : VState} {c : Char} {s : Seg} (rest : List Char)
    (h : vstep st c = .emit s st') : vrun st (c :: rest) = (vrun st' rest).cons s := by
  simp [vrun, h]

theorem vrun_reject {st : VState} {c : Char} (rest : List Char) (h : vstep st c = .reject) :
    vrun st (c :: rest) = .nopath := by
  simp [vrun, h]

theorem vrun_panic {st : VState} {c : Char} (rest : List Char) (h : vstep st c = .panic) :
    vrun st (c :: rest) = .panic := by
  simp [vrun, h]

theorem vrun_endIdent_some {st st' : VState} {c : Char} {s : Seg} (rest : List Char)
    (h : vstep st c = .endIdent s) (h2 : vSegStart true true c = some st') :
    vrun st (c :: rest) = (vrun st' rest).cons s := by
  simp [vrun, h, h2]

theorem vrun_endIdent_none {st : VState} {c : Char} {s : Seg} (rest : List Char)
    (h : vstep st c = .endIdent s) (h2 : vSegStart true true c = none) :
    vrun st (c :: rest) = .nopath := by
  simp [vrun, h, h2]

/-! ## blanks are not path characters -/

theorem blank_toNat {c : Char} (h : isBlank c = true) :
    c.toNat = 9 ∨ c.toNat = 11 ∨ c.toNat = 12 ∨ c.toNat = 13 ∨ c.toNat = 0x20 ∨ c.toNat = 0x85 ∨
    c.toNat = 0xA0 ∨ 0x1680 ≤ c.toNat := by
  simp only [isBlank, isRustWs, Bool.and_eq_true, Bool.or_eq_true, decide_eq_true_eq, beq_iff_eq,
    bne_iff_ne, ne_eq] at h
  have hn : c.toNat ≠ 10 := by
    intro h10
    apply h.2
    apply Char.ext
    have : c.val.toNat = 10 := h10
    show c.val = (10 : UInt32)
    exact UInt32.toNat_inj.mp (by simpa using this)
  omega

theorem blank_not_digit {c : Char} (h : isBlank c = true) : isDigit c = false := by
  have := blank_toNat h
  cases hd : isDigit c with
  | false => rfl
  | true =>
    simp only [isDigit, Bool.and_eq_true, decide_eq_true_eq] at hd
    omega

theorem blank_not_upper {c : Char} (h : isBlank c = true) : isUpper c = false := by
  have := blank_toNat h
  cases hd : isUpper c with
  | false => rfl
  | true =>
    simp only [isUpper, Bool.and_eq_true, decide_eq_true_eq] at hd
    omega

theorem blank_not_lower {c : Char} (h : isBlank c = true) : isLower c = false := by
  have := blank_toNat h
  cases hd : isLower c with
  | false => rfl
  | true =>
    simp only [isLower, Bool.and_eq_true, decide_eq_true_eq] at hd
    omega

theorem beq_false_of_blank {c d : Char} (h : isBlank c = true) (hd : isBlank d = false) :
    (c == d) = false := by
  cases hcd : c == d with
  | false => rfl
  | true =>
    have := eq_of_beq hcd
    subst this
    simp [h] at hd

theorem blank_not_ser {c : Char} (h : isBlank c = true) : isSerChar c = false := by
  simp [isSerChar, blank_not_upper h, blank_not_lower h, blank_not_digit h,
    beq_false_of_blank h (show isBlank '_' = false by decide),
    beq_false_of_blank h (show isBlank '@' = false by decide)]

theorem blank_not_jit {c : Char} (h : isBlank c = true) : isJitChar c = false := by
  simp [isJitChar, blank_not_ser h, beq_false_of_blank h (show isBlank '-' = false by decide)]

theorem blank_dot {c : Char} (h : isBlank c = true) : (c == '.') = false :=
  beq_false_of_blank h (by decide)
theorem blank_lbr {c : Char} (h : isBlank c = true) : (c == '[') = false :=
  beq_false_of_blank h (by decide)
theorem blank_rbr {c : Char} (h : isBlank c = true) : (c == ']') = false :=
  beq_false_of_blank h (by decide)
theorem blank_quote {c : Char} (h : isBlank c = true) : (c == '"') = false :=
  beq_false_of_blank h (by decide)

/-! ## string literals whose only escapes are `\\\\` and `\\"` -/

/-- decoding of a raw string-literal body made of plain characters and the escapes `\\\\` and `\\"`
    (the only ones the JIT parser accepts); `none` for any other shape. -/
def pdec : List Char → Option (List Char)
  | [] => some []
  | c :: r =>
    if c == '\\' then
      match r with
      | e :: r' => if e == '\\' || e == '"' then (pdec r').map (e :: ·) else none
      | [] => none
    else if c == '"' then none
    else (pdec r).map (c :: ·)

theorem pdec_cons_esc (e : Char) (r : List Char) (he : (e == '\\' || e == '"') = true) :
    pdec ('\\' :: e :: r) = (pdec r).map (e :: ·) := by
  simp [pdec, he]

theorem pdec_cons_esc_bad (e : Char) (r : List Char) (he : (e == '\\' || e == '"') = false) :
    pdec ('\\' :: e :: r) = none := by
  simp [pdec, he]

theorem pdec_cons_plain (c : Char) (r : List Char) (hb : (c == '\\') = false)
    (hq : (c == '"') = false) : pdec (c :: r) = (pdec r).map (c :: ·) := by
  cases r <;> simp [pdec, hb, hq]

theorem pdec_cons_quote (r : List Char) : pdec ('"' :: r) = none := by
  cases r <;> simp [pdec]

theorem pdec_bs_nil : pdec ['\\'] = none := by simp [pdec]

/-- case analysis on the head of a raw body. -/
theorem pdec_cases (c : Char) (r : List Char) :
    (c = '\\' ∧ r = []) ∨ (∃ e r', c = '\\' ∧ r = e :: r') ∨ (c = '"') ∨
    ((c == '\\') = false ∧ (c == '"') = false) := by
  by_cases hb : (c == '\\') = true
  · have := eq_of_beq hb
    cases r with
    | nil => exact Or.inl ⟨this, rfl⟩
    | cons e r' => exact Or.inr (Or.inl ⟨e, r', this, rfl⟩)
  · by_cases hq : (c == '"') = true
    · exact Or.inr (Or.inr (Or.inl (eq_of_beq hq)))
    · exact Or.inr (Or.inr (Or.inr ⟨by simpa using hb, by simpa using hq⟩))

theorem pdec_snoc_plain : ∀ (raw v : List Char) (c : Char),
    pdec raw = some v → (c == '"') = false → (c == '\\') = false →
    pdec (raw ++ [c]) = some (v ++ [c])
  | [], v, c, h, hq, hb => by
    cases h
    simp [pdec, hq, hb]
  | c0 :: r, v, c, h, hq, hb => by
    rcases pdec_cases c0 r with ⟨h0, hr⟩ | ⟨e, r', h0, hr⟩ | h0 | ⟨hb0, hq0⟩
    · subst h0; subst hr; simp [pdec] at h
    · subst h0; subst hr
      by_cases he : (e == '\\' || e == '"') = true
      · rw [pdec_cons_esc e r' he] at h
        cases hp : pdec r' with
        | none => simp [hp] at h
        | some w =>
          simp only [hp, Option.map_some, Option.some.injEq] at h
          subst h
          have ih := pdec_snoc_plain r' w c hp hq hb
          show pdec ('\\' :: e :: (r' ++ [c])) = _
          rw [pdec_cons_esc e _ he, ih]
          rfl
      · rw [pdec_cons_esc_bad e r' (by simpa using he)] at h
        cases h
    · subst h0; rw [pdec_cons_quote] at h; cases h
    · rw [pdec_cons_plain c0 r hb0 hq0] at h
      cases hp : pdec r with
      | none => simp [hp] at h
      | some w =>
        simp only [hp, Option.map_some, Option.some.injEq] at h
        subst h
        have ih := pdec_snoc_plain r w c hp hq hb
        show pdec (c0 :: (r ++ [c])) = _
        rw [pdec_cons_plain c0 _ hb0 hq0, ih]
        rfl

theorem pdec_snoc_esc : ∀ (raw v : List Char) (e : Char),
    pdec raw = some v → (e == '\\' || e == '"') = true →
    pdec (raw ++ ['\\', e]) = some (v ++ [e])
  | [], v, e, h, he => by
    cases h
    show pdec ('\\' :: e :: []) = _
    rw [pdec_cons_esc e [] he]
    rfl
  | c0 :: r, v, e0, h, he0 => by
    rcases pdec_cases c0 r with ⟨h0, hr⟩ | ⟨e, r', h0, hr⟩ | h0 | ⟨hb0, hq0⟩
    · subst h0; subst hr; simp [pdec] at h
    · subst h0; subst hr
      by_cases he : (e == '\\' || e == '"') = true
      · rw [pdec_cons_esc e r' he] at h
        cases hp : pdec r' with
        | none => simp [hp] at h
        | some w =>
          simp only [hp, Option.map_some, Option.some.injEq] at h
          subst h
          have ih := pdec_snoc_esc r' w e0 hp he0
          show pdec ('\\' :: e :: (r' ++ ['\\', e0])) = _
          rw [pdec_cons_esc e _ he, ih]
          rfl
      · rw [pdec_cons_esc_bad e r' (by simpa using he)] at h
        cases h
    · subst h0; rw [pdec_cons_quote] at h; cases h
    · rw [pdec_cons_plain c0 r hb0 hq0] at h
      cases hp : pdec r with
      | none => simp [hp] at h
      | some w =>
        simp only [hp, Option.map_some, Option.some.injEq] at h
        subst h
        have ih := pdec_snoc_esc r w e0 hp he0
        show pdec (c0 :: (r ++ ['\\', e0])) = _
        rw [pdec_cons_plain c0 _ hb0 hq0, ih]
        rfl

/-! ### `unescape` and `template()` on such bodies -/

theorem esc_facts {e : Char} (he : (e == '\\' || e == '"') = true) :
    (e == '\n') = false ∧ (e == 'u') = false ∧ simpleEscape e = some e ∧ (e == '{') = false ∧
    (e == '}') = false := by
  rcases Bool.or_eq_true _ _ |>.mp he with h | h
  · have := eq_of_beq h; subst this; decide
  · have := eq_of_beq h; subst this; decide

theorem unesc_of_pdec : ∀ (raw v : List Char), pdec raw = some v → unesc .normal raw = some v
  | [], v, h => by cases h; rfl
  | c0 :: r, v, h => by
    rcases pdec_cases c0 r with ⟨h0, hr⟩ | ⟨e, r', h0, hr⟩ | h0 | ⟨hb0, hq0⟩
    · subst h0; subst hr; simp [pdec] at h
    · subst h0; subst hr
      by_cases he : (e == '\\' || e == '"') = true
      · rw [pdec_cons_esc e r' he] at h
        cases hp : pdec r' with
        | none => simp [hp] at h
        | some w =>
          simp only [hp, Option.map_some, Option.some.injEq] at h
          subst h
          have ih := unesc_of_pdec r' w hp
          have ⟨f1, f2, f3, _, _⟩ := esc_facts he
          rw [unesc.eq_4, if_pos (by decide), unesc.eq_6, if_neg (by simp [f1]),
            if_neg (by simp [f2]), f3]
          simp [ih]
      · rw [pdec_cons_esc_bad e r' (by simpa using he)] at h
        cases h
    · subst h0; rw [pdec_cons_quote] at h; cases h
    · rw [pdec_cons_plain c0 r hb0 hq0] at h
      cases hp : pdec r with
      | none => simp [hp] at h
      | some w =>
        simp only [hp, Option.map_some, Option.some.injEq] at h
        subst h
        have ih := unesc_of_pdec r w hp
        rw [unesc.eq_4, if_neg (by simp [hb0]), ih]
        rfl

open C20 in
theorem hasTemplate_cons {c : Char} {rest : List Char} (h : hasTemplate (c :: rest) = false) :
    startsTpl (c :: rest) = false ∧ hasTemplate rest = false := by
  simpa [hasTemplate] using h

open C20 in
theorem startsTpl_append {a : List Char} (b : List Char) (h : startsTpl a = true) :
    startsTpl (a ++ b) = true := by
  unfold startsTpl at h
  split at h
  · simp [startsTpl]
  · simp [startsTpl]
  · cases h

open C20 in
theorem hasTemplate_append_left : ∀ (a b : List Char), hasTemplate (a ++ b) = false →
    hasTemplate a = false
  | [], _, _ => rfl
  | c :: a, b, h => by
    have ⟨h1, h2⟩ := hasTemplate_cons (c := c) (rest := a ++ b) h
    have ih := hasTemplate_append_left a b h2
    have : startsTpl (c :: a) = false := by
      cases hs : startsTpl (c :: a) with
      | false => rfl
      | true =>
        have := startsTpl_append b hs
        rw [List.cons_append] at this
        rw [this] at h1
        cases h1
    simp [hasTemplate, this, ih]

open C20 in
theorem hasTemplate_append_right : ∀ (a b : List Char), hasTemplate (a ++ b) = false →
    hasTemplate b = false
  | [], _, h => h
  | _ :: a, b, h => hasTemplate_append_right a b (hasTemplate_cons h).2

open C20 in
/-- on a body without `{{` / `\\}}` whose escapes are `\\\\` and `\\"` only, `template()` pushes every
    character to `current`. -/
theorem tmpl_of_pdec : ∀ (raw v : List Char), pdec raw = some v → hasTemplate raw = false →
    ∀ cur out, tmpl false cur out raw = tmpl false (cur ++ raw) out []
  | [], _, _, _ => by intro cur out; simp
  | c0 :: r, v, h, ht => by
    intro cur out
    rcases pdec_cases c0 r with ⟨h0, hr⟩ | ⟨e, r', h0, hr⟩ | h0 | ⟨hb0, hq0⟩
    · subst h0; subst hr; simp [pdec] at h
    · subst h0; subst hr
      by_cases he : (e == '\\' || e == '"') = true
      · rw [pdec_cons_esc e r' he] at h
        cases hp : pdec r' with
        | none => simp [hp] at h
        | some w =>
          have ⟨_, _, _, f4, f5⟩ := esc_facts he
          have ⟨ht1, ht2⟩ := hasTemplate_cons ht
          have ⟨ht3, ht4⟩ := hasTemplate_cons ht2
          have ih := tmpl_of_pdec r' w hp ht4
          have s1 : tmpl false cur out ('\\' :: e :: r') = tmpl false (cur ++ ['\\']) out (e :: r') := by
            apply tmpl.eq_6
            · intro _ hx; cases hx
            · intro r1 _ _ hr; cases hr; simp at f4
            · intro r1 _ _ hr; cases hr; simp at f5
            · intro r1 _ hc; exact absurd hc (by decide)
          have s2 : tmpl false (cur ++ ['\\']) out (e :: r') = tmpl false (cur ++ ['\\'] ++ [e]) out r' := by
            apply tmpl.eq_6
            · intro _ hx; cases hx
            · intro r1 _ hc hr; subst hc; subst hr; simp [startsTpl, hasTemplate] at ht2
            · intro r1 _ hc hr; subst hc; subst hr; simp [startsTpl] at ht3
            · intro r1 _ hc; subst hc; simp at f4
          rw [s1, s2, ih]
          simp
      · rw [pdec_cons_esc_bad e r' (by simpa using he)] at h
        cases h
    · subst h0; rw [pdec_cons_quote] at h; cases h
    · rw [pdec_cons_plain c0 r hb0 hq0] at h
      cases hp : pdec r with
      | none => simp [hp] at h
      | some w =>
        have ⟨ht1, ht2⟩ := hasTemplate_cons ht
        have ih := tmpl_of_pdec r w hp ht2
        have s1 : tmpl false cur out (c0 :: r) = tmpl false (cur ++ [c0]) out r := by
          apply tmpl.eq_6
          · intro _ hx; cases hx
          · intro r1 _ hc; subst hc; simp at hb0
          · intro r1 _ hc; subst hc; simp at hb0
          · intro r1 _ hc hr; subst hc; subst hr; simp [startsTpl] at ht1
        rw [s1, ih]
        simp

open C20 in
/-- the field denoted by such a string literal is its decoding — what the JIT parser computes. -/
theorem stringField_of_pdec (raw v : List Char) (h : pdec raw = some v)
    (ht : hasTemplate raw = false) : stringField raw = some v := by
  unfold stringField
  rw [tmpl_of_pdec raw v h ht [] [], tmpl.eq_1]
  cases raw with
  | nil => cases h; rfl
  | cons c r =>
    have := unesc_of_pdec (c :: r) v h
    simp [unescape, this]

/-! ## the simulation -/

/-- two results agree: if both machines accept, they produced the same segments. -/
def AgreeR (v : VResult) (j : PResult) : Prop := ∀ p₁ p₂, v = .path p₁ → j = .ok p₂ → p₁ = p₂

theorem agree_nopath (j : PResult) : AgreeR .nopath j := by intro _ _ h; cases h
theorem agree_vpanic (j : PResult) : AgreeR .panic j := by intro _ _ h; cases h
theorem agree_err (v : VResult) : AgreeR v .err := by intro _ _ _ h; cases h
theorem agree_jpanic (v : VResult) : AgreeR v .panic := by intro _ _ _ h; cases h
theorem agree_nil : AgreeR (.path []) (.ok []) := by
  intro _ _ h1 h2; cases h1; cases h2; rfl

theorem agree_cons {v : VResult} {j : PResult} (s : Seg) (h : AgreeR v j) :
    AgreeR (v.cons s) (j.cons s) := by
  intro p₁ p₂ h1 h2
  cases v with
  | path p =>
    cases j with
    | ok q =>
      simp only [VResult.cons, PResult.cons, VResult.path.injEq, PResult.ok.injEq] at h1 h2
      subst h1; subst h2
      rw [h p q rfl rfl]
    | err => cases h2
    | panic => cases h2
  | nopath => cases h1
  | panic => cases h1

/-- which states of the two machines correspond. -/
inductive Rel : VState → JitState → Prop
  | preEvent : Rel .afterPrefix .eventRoot
  | preMeta : Rel .afterPrefix .start
  | seg : Rel .afterSeg .cont
  | dot : Rel .afterDot .dot
  | ident (acc : List Char) : Rel (.ident acc) (.field acc)
  | strQ (raw v : List Char) (h : pdec raw = some v) : Rel (.str raw) (.quote v)
  | strE (raw v : List Char) (h : pdec raw = some v) : Rel (.str raw) (.escapedQuote v)
  | esc (raw v : List Char) (h : pdec raw = some v) : Rel (.strEsc raw) (.escapeNext v)
  | br : Rel .bracket .indexStart
  | neg0 : Rel .negSign (.negIndex 0)
  | numP (acc : List Char) (h : ∀ c ∈ acc, isDigit c = true) :
      Rel (.num false acc) (.index (digitsValue acc))
  | numN (acc : List Char) (h : ∀ c ∈ acc, isDigit c = true) :
      Rel (.num true acc) (.negIndex (-(digitsValue acc : Int)))

/-- the part of the text already consumed that still matters for the template hypothesis. -/
def pending : VState → List Char
  | .str raw => raw
  | .strEsc raw => raw ++ ['\\']
  | _ => []

/-! ### facts about single steps -/

theorem isSerChar_quote : isSerChar '"' = false := by decide

theorem vSegStart_ser {c : Char} (d r : Bool) (h : isSerChar c = true) :
    vSegStart d r c = some (.ident [c]) := by simp [vSegStart, h]

theorem vSegStart_quote (d r : Bool) : vSegStart d r '"' = some (.str []) := by
  simp [vSegStart, isSerChar_quote]

theorem vSegStart_dot_ok (r : Bool) : vSegStart true r '.' = some .afterDot := by
  have : ('.' == '"') = false := by decide
  simp [vSegStart, isSerChar_dot, this]

theorem vSegStart_dot_no (r : Bool) : vSegStart false r '.' = none := by
  have h1 : ('.' == '"') = false := by decide
  have h2 : ('.' == '[') = false := by decide
  have h3 : isBlank '.' = false := by decide
  simp [vSegStart, isSerChar_dot, h1, h2, h3]

theorem vSegStart_lbr_ok (d : Bool) : vSegStart d true '[' = some .bracket := by
  have h1 : ('[' == '"') = false := by decide
  have h2 : ('[' == '.') = false := by decide
  simp [vSegStart, isSerChar_lbr, h1, h2]

theorem vSegStart_lbr_no (d : Bool) : vSegStart d false '[' = none := by
  have h1 : ('[' == '"') = false := by decide
  have h2 : ('[' == '.') = false := by decide
  simp [vSegStart, isSerChar_lbr, h1, h2]

/-- anything else is a blank (then the JIT parser rejects) or rejected by the VRL machine. -/
theorem vSegStart_other {c : Char} (d r : Bool) (hs : isSerChar c = false) (hq : (c == '"') = false)
    (hd : (c == '.') = false) (hl : (c == '[') = false) :
    vSegStart d r c = none ∨ isBlank c = true := by
  cases hb : isBlank c with
  | true => exact Or.inr rfl
  | false => left; simp [vSegStart, hs, hq, hd, hl, hb]

theorem step_cont_ser {c : Char} (h : isSerChar c = true) : step .cont c = .go (.field [c]) := by
  simp [step, segStart, beq_false_of_ser h isSerChar_dot, jit_of_ser h]

theorem step_cont_quote : step .cont '"' = .go (.quote []) := by decide

theorem step_blank_start {c : Char} (h : isBlank c = true) : step .start c = .invalid := by
  simp [step, segStart, blank_dot h, blank_not_jit h, blank_lbr h, blank_quote h]
theorem step_blank_eventRoot {c : Char} (h : isBlank c = true) : step .eventRoot c = .invalid := by
  simp [step, segStart, blank_not_jit h, blank_lbr h, blank_quote h]
theorem step_blank_cont {c : Char} (h : isBlank c = true) : step .cont c = .invalid := by
  simp [step, segStart, blank_dot h, blank_not_jit h, blank_lbr h, blank_quote h]
theorem step_blank_dot {c : Char} (h : isBlank c = true) : step .dot c = .invalid := by
  simp [step, segStart, blank_not_jit h, blank_quote h]
theorem step_blank_field {c : Char} (acc : List Char) (h : isBlank c = true) :
    step (.field acc) c = .invalid := by
  simp [step, blank_dot h, blank_not_jit h, blank_lbr h]
theorem step_blank_index {c : Char} (v : Int) (h : isBlank c = true) :
    step (.index v) c = .invalid := by
  simp [step, blank_not_digit h, blank_rbr h]
theorem step_blank_negIndex {c : Char} (v : Int) (h : isBlank c = true) :
    step (.negIndex v) c = .invalid := by
  simp [step, blank_not_digit h, blank_rbr h]

theorem step_dot_dot : step .dot '.' = .invalid := by decide
theorem step_dot_lbr : step .dot '[' = .invalid := by decide
theorem step_field_quote (acc : List Char) : step (.field acc) '"' = .invalid := by
  have h1 : ('"' == '.') = false := by decide
  have h2 : ('"' == '[') = false := by decide
  simp [step, isJitChar_quote, h1, h2]
theorem step_field_dot (acc : List Char) : step (.field acc) '.' = .emit (mkField acc) .dot := by
  simp [step, isJitChar_dot]
theorem step_field_lbr (acc : List Char) :
    step (.field acc) '[' = .emit (mkField acc) .indexStart := by
  have h2 : ('[' == '.') = false := by decide
  simp [step, isJitChar_lbr, h2]

/-- classification of a character at a place where a segment may start. -/
theorem segStart_cases (c : Char) :
    isSerChar c = true ∨ c = '"' ∨ c = '.' ∨ c = '[' ∨
    (isSerChar c = false ∧ (c == '"') = false ∧ (c == '.') = false ∧ (c == '[') = false) := by
  cases hs : isSerChar c with
  | true => exact Or.inl rfl
  | false =>
    cases hq : c == '"' with
    | true => exact Or.inr (Or.inl (eq_of_beq hq))
    | false =>
      cases hd : c == '.' with
      | true => exact Or.inr (Or.inr (Or.inl (eq_of_beq hd)))
      | false =>
        cases hl : c == '[' with
        | true => exact Or.inr (Or.inr (Or.inr (Or.inl (eq_of_beq hl))))
        | false => exact Or.inr (Or.inr (Or.inr (Or.inr ⟨rfl, rfl, rfl, rfl⟩)))

/-! ### numbers -/

theorem digitsValue_snoc (acc : List Char) (c : Char) (h : isDigit c = true) :
    (digitsValue (acc ++ [c]) : Int) = (digitsValue acc : Int) * 10 + digitVal c := by
  have hb : 48 ≤ c.toNat := by
    simp only [isDigit, Bool.and_eq_true, decide_eq_true_eq] at h; exact h.1
  simp only [digitsValue, List.foldl_append, List.foldl_cons, List.foldl_nil, h, if_true, digitVal]
  omega

theorem digitsValue_single (c : Char) (h : isDigit c = true) :
    (digitsValue [c] : Int) = digitVal c := by
  have := digitsValue_snoc [] c h
  simpa [digitsValue] using this

theorem intValue_pos {acc : List Char} {v : Int} (h : intValue false acc = some v) :
    v = (digitsValue acc : Int) := by
  unfold intValue at h
  simp only [Bool.false_eq_true, if_false] at h
  split at h
  · cases h; rfl
  · cases h

theorem intValue_neg {acc : List Char} {v : Int} (h : intValue true acc = some v) :
    v = -(digitsValue acc : Int) := by
  unfold intValue at h
  simp only [if_true] at h
  split at h
  · cases h; rfl
  · cases h

/-! ### one step of the simulation, per pair of related states -/

open C20 in
/-- induction hypothesis of the simulation for the remaining text `rest`. -/
def IH (rest : List Char) : Prop :=
  ∀ vs js, Rel vs js → hasTemplate (pending vs ++ rest) = false → AgreeR (vrun vs rest) (jit js rest)

open C20 in
theorem sim_segStart {rest : List Char} (ih : IH rest) (c : Char) (d r : Bool)
    (vs : VState) (js : JitState) (hp : pending vs = [])
    (hv : ∀ c, vstep vs c = .ofOption (vSegStart d r c))
    (ht : hasTemplate (pending vs ++ c :: rest) = false)
    (jser : ∀ c, isSerChar c = true → step js c = .go (.field [c]))
    (jq : step js '"' = .go (.quote []))
    (jdot : d = true → step js '.' = .go .dot)
    (jlbr : r = true → step js '[' = .go .indexStart)
    (jblank : ∀ c, isBlank c = true → step js c = .invalid) :
    AgreeR (vrun vs (c :: rest)) (jit js (c :: rest)) := by
  rw [hp, List.nil_append] at ht
  have ht2 := (hasTemplate_cons ht).2
  rcases segStart_cases c with hs | hq | hd | hl | ⟨hs, hq, hd, hl⟩
  · rw [vrun_go rest (by rw [hv, vSegStart_ser d r hs]; rfl), jit_go rest (jser c hs)]
    exact ih _ _ (Rel.ident [c]) (by simpa [pending] using ht2)
  · subst hq
    rw [vrun_go rest (by rw [hv, vSegStart_quote]; rfl), jit_go rest jq]
    exact ih _ _ (Rel.strQ [] [] rfl) (by simpa [pending] using ht2)
  · subst hd
    cases d with
    | true =>
      rw [vrun_go rest (by rw [hv, vSegStart_dot_ok]; rfl), jit_go rest (jdot rfl)]
      exact ih _ _ Rel.dot (by simpa [pending] using ht2)
    | false =>
      rw [vrun_reject rest (by rw [hv, vSegStart_dot_no]; rfl)]
      exact agree_nopath _
  · subst hl
    cases r with
    | true =>
      rw [vrun_go rest (by rw [hv, vSegStart_lbr_ok]; rfl), jit_go rest (jlbr rfl)]
      exact ih _ _ Rel.br (by simpa [pending] using ht2)
    | false =>
      rw [vrun_reject rest (by rw [hv, vSegStart_lbr_no]; rfl)]
      exact agree_nopath _
  · rcases vSegStart_other d r hs hq hd hl with hn | hb
    · rw [vrun_reject rest (by rw [hv, hn]; rfl)]
      exact agree_nopath _
    · rw [jit_invalid rest (jblank c hb)]
      exact agree_err _

open C20 in
theorem sim_ident {rest : List Char} (ih : IH rest) (c : Char) (acc : List Char)
    (ht : hasTemplate (pending (.ident acc) ++ c :: rest) = false) :
    AgreeR (vrun (.ident acc) (c :: rest)) (jit (.field acc) (c :: rest)) := by
  simp only [pending, List.nil_append] at ht
  have ht2 := (hasTemplate_cons ht).2
  by_cases hs : isSerChar c = true
  · have hv : vstep (.ident acc) c = .go (.ident (acc ++ [c])) := by simp [vstep, hs]
    have hj : step (.field acc) c = .go (.field (acc ++ [c])) := by simp [step, jit_of_ser hs]
    rw [vrun_go rest hv, jit_go rest hj]
    exact ih _ _ (Rel.ident _) (by simpa [pending] using ht2)
  · have hs' : isSerChar c = false := by simpa using hs
    by_cases hval : validIdent acc = true
    · have hv : vstep (.ident acc) c = .endIdent (mkField acc) := by simp [vstep, hs', hval]
      rcases segStart_cases c with hs2 | hq | hd | hl | ⟨_, hq, hd, hl⟩
      · rw [hs2] at hs'; cases hs'
      · subst hq
        rw [jit_invalid rest (step_field_quote acc)]
        exact agree_err _
      · subst hd
        rw [vrun_endIdent_some rest hv (vSegStart_dot_ok true), jit_emit rest (step_field_dot acc)]
        exact agree_cons _ (ih _ _ Rel.dot (by simpa [pending] using ht2))
      · subst hl
        rw [vrun_endIdent_some rest hv (vSegStart_lbr_ok true), jit_emit rest (step_field_lbr acc)]
        exact agree_cons _ (ih _ _ Rel.br (by simpa [pending] using ht2))
      · rcases vSegStart_other true true hs' hq hd hl with hn | hb
        · rw [vrun_endIdent_none rest hv hn]; exact agree_nopath _
        · rw [jit_invalid rest (step_blank_field acc hb)]
          exact agree_err _
    · have hv : vstep (.ident acc) c = .reject := by simp [vstep, hs', hval]
      rw [vrun_reject rest hv]
      exact agree_nopath _

open C20 in
/-- the two string states of the JIT machine behave alike: `mk` is `quote` or `escapedQuote`. -/
theorem sim_str {rest : List Char} (ih : IH rest) (c : Char) (raw v : List Char)
    (mk : List Char → JitState) (hrel : ∀ raw v, pdec raw = some v → Rel (.str raw) (mk v))
    (jclose : ∀ v, step (mk v) '"' = .emit (mkField v) .cont)
    (jbs : ∀ v, step (mk v) '\\' = .go (.escapeNext v))
    (jplain : ∀ v c, (c == '"') = false → (c == '\\') = false → step (mk v) c = .go (mk (v ++ [c])))
    (h : pdec raw = some v)
    (ht : hasTemplate (pending (.str raw) ++ c :: rest) = false) :
    AgreeR (vrun (.str raw) (c :: rest)) (jit (mk v) (c :: rest)) := by
  simp only [pending] at ht
  by_cases hq : (c == '"') = true
  · have := eq_of_beq hq; subst this
    have hraw := hasTemplate_append_left _ _ ht
    have hrest := (hasTemplate_cons (hasTemplate_append_right _ _ ht)).2
    have hv : vstep (.str raw) '"' = .emit (mkField v) .afterSeg := by
      simp [vstep, stringField_of_pdec raw v h hraw]
    rw [vrun_emit rest hv, jit_emit rest (jclose v)]
    exact agree_cons _ (ih _ _ Rel.seg (by simpa [pending] using hrest))
  · have hq' : (c == '"') = false := by simpa using hq
    by_cases hb : (c == '\\') = true
    · have := eq_of_beq hb; subst this
      have hv : vstep (.str raw) '\\' = .go (.strEsc raw) := by
        have : ('\\' == '"') = false := by decide
        simp [vstep, this]
      rw [vrun_go rest hv, jit_go rest (jbs v)]
      exact ih _ _ (Rel.esc raw v h) (by simpa [pending] using ht)
    · have hb' : (c == '\\') = false := by simpa using hb
      have hv : vstep (.str raw) c = .go (.str (raw ++ [c])) := by simp [vstep, hq', hb']
      rw [vrun_go rest hv, jit_go rest (jplain v c hq' hb')]
      exact ih _ _ (hrel _ _ (pdec_snoc_plain raw v c h hq' hb')) (by simpa [pending] using ht)

open C20 in
theorem sim_esc {rest : List Char} (ih : IH rest) (c : Char) (raw v : List Char)
    (h : pdec raw = some v)
    (ht : hasTemplate (pending (.strEsc raw) ++ c :: rest) = false) :
    AgreeR (vrun (.strEsc raw) (c :: rest)) (jit (.escapeNext v) (c :: rest)) := by
  simp only [pending] at ht
  by_cases he : (c == '\\' || c == '"') = true
  · have ⟨f1, f2, f3, _, _⟩ := esc_facts he
    have hv : vstep (.strEsc raw) c = .go (.str (raw ++ ['\\', c])) := by
      simp [vstep, f2, f3]
    have hj : step (.escapeNext v) c = .go (.escapedQuote (v ++ [c])) := by
      simp only [step, he, if_true]
    rw [vrun_go rest hv, jit_go rest hj]
    exact ih _ _ (Rel.strE _ _ (pdec_snoc_esc raw v c h he)) (by simpa [pending] using ht)
  · have hj : step (.escapeNext v) c = .invalid := by
      have : (c == '\\' || c == '"') = false := by simpa using he
      simp only [step, this, Bool.false_eq_true, if_false]
    rw [jit_invalid rest hj]
    exact agree_err _

open C20 in
theorem sim_bracket {rest : List Char} (ih : IH rest) (c : Char)
    (ht : hasTemplate (pending .bracket ++ c :: rest) = false) :
    AgreeR (vrun .bracket (c :: rest)) (jit .indexStart (c :: rest)) := by
  simp only [pending, List.nil_append] at ht
  have ht2 := (hasTemplate_cons ht).2
  by_cases hd : isDigit c = true
  · have hnb : isBlank c = false := by
      cases hb : isBlank c with
      | false => rfl
      | true => rw [blank_not_digit hb] at hd; cases hd
    have hv : vstep .bracket c = .go (.num false [c]) := by simp [vstep, hnb, hd]
    have hj : step .indexStart c = .go (.index (digitVal c)) := by simp [step, hd]
    rw [vrun_go rest hv, jit_go rest hj, ← digitsValue_single c hd]
    exact ih _ _ (Rel.numP [c] (by simpa using hd)) (by simpa [pending] using ht2)
  · have hd' : isDigit c = false := by simpa using hd
    by_cases hm : (c == '-') = true
    · have := eq_of_beq hm; subst this
      have hv : vstep .bracket '-' = .go .negSign := by decide
      have hj : step .indexStart '-' = .go (.negIndex 0) := by decide
      rw [vrun_go rest hv, jit_go rest hj]
      exact ih _ _ Rel.neg0 (by simpa [pending] using ht2)
    · have hj : step .indexStart c = .invalid := by
        have : (c == '-') = false := by simpa using hm
        simp [step, hd', this]
      rw [jit_invalid rest hj]
      exact agree_err _

open C20 in
theorem sim_negSign {rest : List Char} (ih : IH rest) (c : Char)
    (ht : hasTemplate (pending .negSign ++ c :: rest) = false) :
    AgreeR (vrun .negSign (c :: rest)) (jit (.negIndex 0) (c :: rest)) := by
  simp only [pending, List.nil_append] at ht
  have ht2 := (hasTemplate_cons ht).2
  by_cases hd : isDigit c = true
  · have hv : vstep .negSign c = .go (.num true [c]) := by simp [vstep, hd]
    have hb := digitVal_bounds hd
    have hp : pushDigitNeg 0 (digitVal c) = some (-(digitsValue [c] : Int)) := by
      rw [digitsValue_single c hd]
      have a1 : inIsize (0 * 10) = true := by decide
      have a2 : inIsize (0 * 10 - digitVal c) = true := by
        rw [inIsize_iff]; omega
      simp only [pushDigitNeg, a1, a2, if_true]
      congr 1; omega
    have hj : step (.negIndex 0) c = .go (.negIndex (-(digitsValue [c] : Int))) := by
      simp [step, hd, hp]
    rw [vrun_go rest hv, jit_go rest hj]
    exact ih _ _ (Rel.numN [c] (by simpa using hd)) (by simpa [pending] using ht2)
  · have hv : vstep .negSign c = .reject := by
      have : isDigit c = false := by simpa using hd
      simp [vstep, this]
    rw [vrun_reject rest hv]
    exact agree_nopath _

open C20 in
theorem sim_numP {rest : List Char} (ih : IH rest) (c : Char) (acc : List Char)
    (hacc : ∀ c ∈ acc, isDigit c = true)
    (ht : hasTemplate (pending (.num false acc) ++ c :: rest) = false) :
    AgreeR (vrun (.num false acc) (c :: rest)) (jit (.index (digitsValue acc)) (c :: rest)) := by
  simp only [pending, List.nil_append] at ht
  have ht2 := (hasTemplate_cons ht).2
  by_cases hd : isDigit c = true
  · have hv : vstep (.num false acc) c = .go (.num false (acc ++ [c])) := by simp [vstep, hd]
    cases hp : pushDigit (digitsValue acc) (digitVal c) with
    | none =>
      have hj : step (.index (digitsValue acc)) c = .panic := by simp [step, hd, hp]
      rw [jit_panic rest hj]
      exact agree_jpanic _
    | some v' =>
      have hv' : v' = (digitsValue (acc ++ [c]) : Int) := by
        rw [digitsValue_snoc acc c hd]
        unfold pushDigit at hp
        split at hp
        · split at hp
          · cases hp; rfl
          · cases hp
        · cases hp
      have hj : step (.index (digitsValue acc)) c = .go (.index (digitsValue (acc ++ [c]))) := by
        simp [step, hd, hp, hv']
      rw [vrun_go rest hv, jit_go rest hj]
      exact ih _ _ (Rel.numP _ (by
        intro x hx
        rcases List.mem_append.mp hx with h | h
        · exact hacc x h
        · simp at h; subst h; exact hd)) (by simpa [pending] using ht2)
  · have hd' : isDigit c = false := by simpa using hd
    by_cases hr : (c == ']') = true
    · have := eq_of_beq hr; subst this
      have hj : step (.index (digitsValue acc)) ']' = .emit (.index (digitsValue acc)) .cont := by
        simp [step, digit_rbr]
      rw [jit_emit rest hj]
      cases hi : intValue false acc with
      | none =>
        have hv : vstep (.num false acc) ']' = .reject := by
          have : (']' == '_') = false := by decide
          simp [vstep, digit_rbr, this, hi]
        rw [vrun_reject rest hv]
        exact agree_nopath _
      | some v =>
        have hv : vstep (.num false acc) ']' = .emit (.index (digitsValue acc)) .afterSeg := by
          have : (']' == '_') = false := by decide
          simp [vstep, digit_rbr, this, hi, intValue_pos hi]
        rw [vrun_emit rest hv]
        exact agree_cons _ (ih _ _ Rel.seg (by simpa [pending] using ht2))
    · have hj : step (.index (digitsValue acc)) c = .invalid := by
        have : (c == ']') = false := by simpa using hr
        simp [step, hd', this]
      rw [jit_invalid rest hj]
      exact agree_err _

open C20 in
theorem sim_numN {rest : List Char} (ih : IH rest) (c : Char) (acc : List Char)
    (hacc : ∀ c ∈ acc, isDigit c = true)
    (ht : hasTemplate (pending (.num true acc) ++ c :: rest) = false) :
    AgreeR (vrun (.num true acc) (c :: rest))
      (jit (.negIndex (-(digitsValue acc : Int))) (c :: rest)) := by
  simp only [pending, List.nil_append] at ht
  have ht2 := (hasTemplate_cons ht).2
  by_cases hd : isDigit c = true
  · have hv : vstep (.num true acc) c = .go (.num true (acc ++ [c])) := by simp [vstep, hd]
    cases hp : pushDigitNeg (-(digitsValue acc : Int)) (digitVal c) with
    | none =>
      have hj : step (.negIndex (-(digitsValue acc : Int))) c = .panic := by simp [step, hd, hp]
      rw [jit_panic rest hj]
      exact agree_jpanic _
    | some v' =>
      have hv' : v' = -(digitsValue (acc ++ [c]) : Int) := by
        rw [digitsValue_snoc acc c hd]
        unfold pushDigitNeg at hp
        split at hp
        · split at hp
          · cases hp; omega
          · cases hp
        · cases hp
      have hj : step (.negIndex (-(digitsValue acc : Int))) c
          = .go (.negIndex (-(digitsValue (acc ++ [c]) : Int))) := by
        simp [step, hd, hp, hv']
      rw [vrun_go rest hv, jit_go rest hj]
      exact ih _ _ (Rel.numN _ (by
        intro x hx
        rcases List.mem_append.mp hx with h | h
        · exact hacc x h
        · simp at h; subst h; exact hd)) (by simpa [pending] using ht2)
  · have hd' : isDigit c = false := by simpa using hd
    by_cases hr : (c == ']') = true
    · have := eq_of_beq hr; subst this
      have hj : step (.negIndex (-(digitsValue acc : Int))) ']'
          = .emit (.index (-(digitsValue acc : Int))) .cont := by
        simp [step, digit_rbr]
      rw [jit_emit rest hj]
      cases hi : intValue true acc with
      | none =>
        have hv : vstep (.num true acc) ']' = .reject := by
          have : (']' == '_') = false := by decide
          simp [vstep, digit_rbr, this, hi]
        rw [vrun_reject rest hv]
        exact agree_nopath _
      | some v =>
        have hv : vstep (.num true acc) ']' = .emit (.index (-(digitsValue acc : Int))) .afterSeg := by
          have : (']' == '_') = false := by decide
          simp [vstep, digit_rbr, this, hi, intValue_neg hi]
        rw [vrun_emit rest hv]
        exact agree_cons _ (ih _ _ Rel.seg (by simpa [pending] using ht2))
    · have hj : step (.negIndex (-(digitsValue acc : Int))) c = .invalid := by
        have : (c == ']') = false := by simpa using hr
        simp [step, hd', this]
      rw [jit_invalid rest hj]
      exact agree_err _

/-! ### the simulation theorem -/

theorem agree_ident_end (acc : List Char) :
    AgreeR (if validIdent acc = true then VResult.path [mkField acc] else VResult.nopath)
      (.ok [mkField acc]) := by
  intro p₁ p₂ h1 h2
  split at h1
  · cases h1; cases h2; rfl
  · cases h1

/-- from related states, on any remaining text without `{{` / `\\}}`, the VRL-source machine and
    the JIT machine never accept with different segments. -/
theorem sim : ∀ rest, IH rest := by
  intro rest
  induction rest with
  | nil =>
    intro vs js h _
    cases h with
    | preEvent => exact agree_nil
    | preMeta => exact agree_err _
    | seg => exact agree_nil
    | dot => exact agree_nopath _
    | ident acc => exact agree_ident_end acc
    | strQ raw v h => exact agree_nopath _
    | strE raw v h => exact agree_nopath _
    | esc raw v h => exact agree_nopath _
    | br => exact agree_nopath _
    | neg0 => exact agree_nopath _
    | numP acc h => exact agree_nopath _
    | numN acc h => exact agree_nopath _
  | cons c rest ih =>
    intro vs js h ht
    cases h with
    | preEvent =>
      exact sim_segStart ih c false true _ _ rfl (fun _ => rfl) ht
        (fun _ h => step_eventRoot_ser h) step_eventRoot_quote (fun h => by cases h)
        (fun _ => step_eventRoot_lbr) (fun _ h => step_blank_eventRoot h)
    | preMeta =>
      exact sim_segStart ih c false true _ _ rfl (fun _ => rfl) ht
        (fun _ h => step_start_ser h) step_start_quote (fun h => by cases h)
        (fun _ => step_start_lbr) (fun _ h => step_blank_start h)
    | seg =>
      exact sim_segStart ih c true true _ _ rfl (fun _ => rfl) ht
        (fun _ h => step_cont_ser h) step_cont_quote (fun _ => step_cont_dot)
        (fun _ => step_cont_lbr) (fun _ h => step_blank_cont h)
    | dot =>
      exact sim_segStart ih c false false _ _ rfl (fun _ => rfl) ht
        (fun _ h => step_dot_ser h) step_dot_quote (fun h => by cases h)
        (fun h => by cases h) (fun _ h => step_blank_dot h)
    | ident acc => exact sim_ident ih c acc ht
    | strQ raw v h =>
      exact sim_str ih c raw v JitState.quote (fun r w hw => Rel.strQ r w hw)
        (fun v => step_quote_close v)
        (fun v => by
          have : ('\\' == '"') = false := by decide
          simp [step, this])
        (fun v c hq hb => by simp [step, hq, hb]) h ht
    | strE raw v h =>
      exact sim_str ih c raw v JitState.escapedQuote (fun r w hw => Rel.strE r w hw)
        (fun v => step_escapedQuote_close v)
        (fun v => by
          have : ('\\' == '"') = false := by decide
          simp [step, this])
        (fun v c hq hb => by simp [step, hq, hb]) h ht
    | esc raw v h => exact sim_esc ih c raw v h ht
    | br => exact sim_bracket ih c ht
    | neg0 => exact sim_negSign ih c ht
    | numP acc h => exact sim_numP ih c acc h ht
    | numN acc h => exact sim_numN ih c acc h ht

end PathVrl
