import VrlProofs.Lemmas.TypeState
import VrlProofs.Lemmas.TypeEffect

/-! C12: an expression for which the compiler knows a constant (`resolve_constant`) evaluates to
    exactly that constant, without touching the state, in every run-time state that inhabits the
    type state. No side condition is needed: only literals, variables with a recorded constant,
    paths into them, groups, array / object literals of such, and `+ - * /` on numeric constants
    have one. -/

namespace Lang
open Spec

mutual
  /-- the syntactic forms that can have a constant -/
  def constShape : Expr → Bool
    | .lit _ | .var _ | .qvar _ _ => true
    | .grp e => constShape e
    | .arr es => constShapeS es
    | .obj kvs => constShapeK kvs
    | .op o l r => isArith o && constShape l && constShape r
    | _ => false
  def constShapeS : Exprs → Bool
    | .nil => true
    | .cons e es => constShape e && constShapeS es
  def constShapeK : KExprs → Bool
    | .nil => true
    | .cons _ e kes => constShape e && constShapeK kes
end

theorem constOp_isArith {o : Opcode} {a b c : Value} (h : constOp o a b = some c) : isArith o = true := by
  unfold constOp at h
  split at h
  · cases h
  · cases o <;> first | rfl | cases h

mutual
  theorem constShape_of_const : (e : Expr) → (T : TState) → (c : Value) → constOf e T = some c →
      constShape e = true
    | .lit _, _, _, _ => rfl
    | .var _, _, _, _ => rfl
    | .qvar _ _, _, _, _ => rfl
    | .grp e, T, c, h => by
      rw [constOf] at h; rw [constShape]; exact constShape_of_const e T c h
    | .arr es, T, c, h => by
      rw [constOf] at h; rw [constShape]
      cases hl : constList es T with
      | none => rw [hl] at h; cases h
      | some l => exact constShapeS_of_const es T l hl
    | .obj kvs, T, c, h => by
      rw [constOf] at h; rw [constShape]
      cases hl : constKVs kvs T with
      | none => rw [hl] at h; cases h
      | some l => exact constShapeK_of_const kvs T l hl
    | .op o l r, T, c, h => by
      rw [constOf] at h; rw [constShape]
      cases hl : constOf l T with
      | none => rw [hl] at h; cases h
      | some a =>
        cases hr : constOf r T with
        | none => rw [hl, hr] at h; cases h
        | some b =>
          rw [hl, hr] at h
          simp only at h
          simp [constOp_isArith h, constShape_of_const l T a hl, constShape_of_const r T b hr]
    | .noop, _, _, h => by simp [constOf] at h
    | .blk _, _, _, h => by simp [constOf] at h
    | .ifte _ _ _ _, _, _, h => by simp [constOf] at h
    | .asg _ _, _, _, h => by simp [constOf] at h
    | .iasg _ _ _ _, _, _, h => by simp [constOf] at h
    | .qext _ _, _, _, h => by simp [constOf] at h
    | .qexpr _ _, _, _, h => by simp [constOf] at h
    | .not _, _, _, h => by simp [constOf] at h
    | .abort _ _, _, _, h => by simp [constOf] at h
    | .ret _, _, _, h => by simp [constOf] at h
    | .delExt _ _ _ _, _, _, h => by simp [constOf] at h
    | .delVar _ _ _ _, _, _, h => by simp [constOf] at h
    | .delExpr _ _ _ _, _, _, h => by simp [constOf] at h
    | .existsExt _ _, _, _, h => by simp [constOf] at h
    | .existsVar _ _, _, _, h => by simp [constOf] at h
    | .existsExpr _ _, _, _, h => by simp [constOf] at h
    | .call _ _ _ _ _ _ _, _, _, h => by simp [constOf] at h
  theorem constShapeS_of_const : (es : Exprs) → (T : TState) → (l : VList) → constList es T = some l →
      constShapeS es = true
    | .nil, _, _, _ => rfl
    | .cons e es, T, l, h => by
      rw [constList] at h; rw [constShapeS]
      cases he : constOf e T with
      | none => rw [he] at h; cases h
      | some v =>
        cases hes : constList es T with
        | none => rw [he, hes] at h; cases h
        | some vs => simp [constShape_of_const e T v he, constShapeS_of_const es T vs hes]
  theorem constShapeK_of_const : (kvs : KExprs) → (T : TState) → (m : VMap) → constKVs kvs T = some m →
      constShapeK kvs = true
    | .nil, _, _, _ => rfl
    | .cons k e kes, T, m, h => by
      rw [constKVs] at h; rw [constShapeK]
      cases he : constOf e T with
      | none => rw [he] at h; cases h
      | some v =>
        cases hes : constKVs kes T with
        | none => rw [he, hes] at h; cases h
        | some vs => simp [constShape_of_const e T v he, constShapeK_of_const kes T vs hes]
end

theorem opState_arith (o : Opcode) (h : isArith o = true) (l : TypeDef) (lv : Option Value) (T : TState) :
    opState o l lv T T = T := by
  cases o <;> first | rfl | cases h

mutual
  /-- typing an expression of constant shape does not change the type state -/
  theorem constShape_state : (e : Expr) → constShape e = true → (T : TState) → (typeInfo e T).2 = T
    | .lit _, _, T => by rw [typeInfo]
    | .var _, _, T => by rw [typeInfo]
    | .qvar _ _, _, T => by rw [typeInfo]
    | .grp e, h, T => by rw [typeInfo]; exact constShape_state e (by simpa [constShape] using h) T
    | .arr es, h, T => by rw [typeInfo]; exact constShapeS_state es (by simpa [constShape] using h) T {}
    | .obj kvs, h, T => by rw [typeInfo]; exact constShapeK_state kvs (by simpa [constShape] using h) T {}
    | .op o l r, h, T => by
      simp only [constShape, Bool.and_eq_true] at h
      rw [typeInfo]
      simp only [opInfo]
      rw [constShape_state l h.1.2 T, constShape_state r h.2 T]
      exact opState_arith o h.1.1 _ _ T
    | .noop, h, _ => by simp [constShape] at h
    | .blk _, h, _ => by simp [constShape] at h
    | .ifte _ _ _ _, h, _ => by simp [constShape] at h
    | .asg _ _, h, _ => by simp [constShape] at h
    | .iasg _ _ _ _, h, _ => by simp [constShape] at h
    | .qext _ _, h, _ => by simp [constShape] at h
    | .qexpr _ _, h, _ => by simp [constShape] at h
    | .not _, h, _ => by simp [constShape] at h
    | .abort _ _, h, _ => by simp [constShape] at h
    | .ret _, h, _ => by simp [constShape] at h
    | .delExt _ _ _ _, h, _ => by simp [constShape] at h
    | .delVar _ _ _ _, h, _ => by simp [constShape] at h
    | .delExpr _ _ _ _, h, _ => by simp [constShape] at h
    | .existsExt _ _, h, _ => by simp [constShape] at h
    | .existsVar _ _, h, _ => by simp [constShape] at h
    | .existsExpr _ _, h, _ => by simp [constShape] at h
    | .call _ _ _ _ _ _ _, h, _ => by simp [constShape] at h
  theorem constShapeS_state : (es : Exprs) → constShapeS es = true → (T : TState) → (acc : ArrAcc) →
      (typeArr es T acc).2 = T
    | .nil, _, T, acc => by rw [typeArr]
    | .cons e es, h, T, acc => by
      simp only [constShapeS, Bool.and_eq_true] at h
      rw [typeArr, constShape_state e h.1 T]
      split
      · rfl
      · exact constShapeS_state es h.2 T _
  theorem constShapeK_state : (kvs : KExprs) → constShapeK kvs = true → (T : TState) → (acc : ObjAcc) →
      (typeObj kvs T acc).2 = T
    | .nil, _, T, acc => by rw [typeObj]
    | .cons k e kes, h, T, acc => by
      simp only [constShapeK, Bool.and_eq_true] at h
      rw [typeObj, constShape_state e h.1 T]
      split
      · rfl
      · exact constShapeK_state kes h.2 T _
end

/-- the state after typing an expression that has a constant (in whichever state) is the state before -/
theorem const_state {e : Expr} {T T' : TState} {c : Value} (h : constOf e T' = some c) :
    (typeInfo e T).2 = T := constShape_state e (constShape_of_const e T' c h) T

theorem arithOk_ofArith {r : Arith.Res Value} {c : Value} (h : arithOk r = some c) : ofArith r = .ok c := by
  cases r <;> simp_all [arithOk, ofArith]

theorem binop_of_constOp {o : Opcode} {a b c : Value} (h : constOp o a b = some c) : binop o a b = .ok c := by
  unfold constOp at h
  split at h
  · cases h
  · cases o <;> simp only [] at h
    case mul => exact arithOk_ofArith h
    case div => exact arithOk_ofArith h
    case add => exact arithOk_ofArith h
    case sub => exact arithOk_ofArith h
    all_goals cases h

mutual
  /-- **C12**: an expression with a compile-time constant evaluates to it, leaving the state alone -/
  theorem const_eval : (e : Expr) → (T : TState) → (c : Value) → constOf e T = some c →
      ∀ s, Conforms s T → ∃ s', eval e s = (.ok c, s') ∧ St.Same s s'
    | .lit v, T, c, h, s, _ => by
      rw [constOf] at h; cases h
      exact ⟨s, by rw [eval], St.Same.refl s⟩
    | .var n, T, c, h, s, hc => by
      rw [constOf] at h
      cases hd : T.getVar n with
      | none => rw [hd] at h; cases h
      | some d =>
        rw [hd] at h
        simp only [Option.bind_some] at h
        obtain ⟨v, h1, _, _, h4⟩ := hc.vars n d hd
        have := h4 c h
        subst this
        exact ⟨s, by rw [eval, h1]; rfl, St.Same.refl s⟩
    | .qvar n p, T, c, h, s, hc => by
      rw [constOf] at h
      cases hd : T.getVar n with
      | none => rw [hd] at h; cases h
      | some d =>
        rw [hd] at h
        simp only [Option.bind_some] at h
        cases hv : d.value with
        | none => rw [hv] at h; cases h
        | some c0 =>
          rw [hv] at h
          simp only [Option.bind_some] at h
          obtain ⟨v, h1, _, _, h4⟩ := hc.vars n d hd
          have := h4 c0 hv
          subst this
          exact ⟨s, by rw [eval, h1]; simp [h], St.Same.refl s⟩
    | .grp e, T, c, h, s, hc => by
      rw [constOf] at h
      obtain ⟨s', h1, h2⟩ := const_eval e T c h s hc
      exact ⟨s', by rw [eval]; exact h1, h2⟩
    | .arr es, T, c, h, s, hc => by
      rw [constOf] at h
      cases hl : constList es T with
      | none => rw [hl] at h; cases h
      | some l =>
        rw [hl] at h
        simp only [Option.map_some, Option.some.injEq] at h
        subst h
        obtain ⟨s', h1, h2⟩ := const_evalList es T l hl s hc
        exact ⟨s', by rw [eval, h1], h2⟩
    | .obj kvs, T, c, h, s, hc => by
      rw [constOf] at h
      cases hl : constKVs kvs T with
      | none => rw [hl] at h; cases h
      | some l =>
        rw [hl] at h
        simp only [Option.map_some, Option.some.injEq] at h
        subst h
        obtain ⟨s', h1, h2⟩ := const_evalKVs kvs T l hl s hc
        exact ⟨s', by rw [eval, h1], h2⟩
    | .op o l r, T, c, h, s, hc => by
      rw [constOf] at h
      cases hl : constOf l T with
      | none => rw [hl] at h; cases h
      | some a =>
        cases hr : constOf r T with
        | none => rw [hl, hr] at h; cases h
        | some b =>
          rw [hl, hr] at h
          simp only at h
          obtain ⟨s1, e1, sm1⟩ := const_eval l T a hl s hc
          obtain ⟨s2, e2, sm2⟩ := const_eval r T b hr s1 (Conforms.of_same sm1 hc)
          have hb := binop_of_constOp h
          have ha := constOp_isArith h
          refine ⟨s2, ?_, St.Same.trans sm1 sm2⟩
          cases o
          case mul => rw [eval]; simp only [e1, e2, hb]; all_goals (intro hc'; cases hc')
          case div => rw [eval]; simp only [e1, e2, hb]; all_goals (intro hc'; cases hc')
          case add => rw [eval]; simp only [e1, e2, hb]; all_goals (intro hc'; cases hc')
          case sub => rw [eval]; simp only [e1, e2, hb]; all_goals (intro hc'; cases hc')
          all_goals (simp [isArith] at ha)
    | .noop, _, _, h, _, _ => by simp [constOf] at h
    | .blk _, _, _, h, _, _ => by simp [constOf] at h
    | .ifte _ _ _ _, _, _, h, _, _ => by simp [constOf] at h
    | .asg _ _, _, _, h, _, _ => by simp [constOf] at h
    | .iasg _ _ _ _, _, _, h, _, _ => by simp [constOf] at h
    | .qext _ _, _, _, h, _, _ => by simp [constOf] at h
    | .qexpr _ _, _, _, h, _, _ => by simp [constOf] at h
    | .not _, _, _, h, _, _ => by simp [constOf] at h
    | .abort _ _, _, _, h, _, _ => by simp [constOf] at h
    | .ret _, _, _, h, _, _ => by simp [constOf] at h
    | .delExt _ _ _ _, _, _, h, _, _ => by simp [constOf] at h
    | .delVar _ _ _ _, _, _, h, _, _ => by simp [constOf] at h
    | .delExpr _ _ _ _, _, _, h, _, _ => by simp [constOf] at h
    | .existsExt _ _, _, _, h, _, _ => by simp [constOf] at h
    | .existsVar _ _, _, _, h, _, _ => by simp [constOf] at h
    | .existsExpr _ _, _, _, h, _, _ => by simp [constOf] at h
    | .call _ _ _ _ _ _ _, _, _, h, _, _ => by simp [constOf] at h
  theorem const_evalList : (es : Exprs) → (T : TState) → (l : VList) → constList es T = some l →
      ∀ s, Conforms s T → ∃ s', evalList es s = (.ok l, s') ∧ St.Same s s'
    | .nil, T, l, h, s, _ => by
      rw [constList] at h; cases h
      exact ⟨s, by rw [evalList], St.Same.refl s⟩
    | .cons e es, T, l, h, s, hc => by
      rw [constList] at h
      cases he : constOf e T with
      | none => rw [he] at h; cases h
      | some v =>
        cases hes : constList es T with
        | none => rw [he, hes] at h; cases h
        | some vs =>
          rw [he, hes] at h
          simp only [Option.some.injEq] at h
          subst h
          obtain ⟨s1, e1, sm1⟩ := const_eval e T v he s hc
          obtain ⟨s2, e2, sm2⟩ := const_evalList es T vs hes s1 (Conforms.of_same sm1 hc)
          exact ⟨s2, by rw [evalList, e1]; simp only [e2], St.Same.trans sm1 sm2⟩
  theorem const_evalKVs : (kvs : KExprs) → (T : TState) → (m : VMap) → constKVs kvs T = some m →
      ∀ s, Conforms s T → ∃ s', evalKVs kvs s = (.ok m, s') ∧ St.Same s s'
    | .nil, T, l, h, s, _ => by
      rw [constKVs] at h; cases h
      exact ⟨s, by rw [evalKVs], St.Same.refl s⟩
    | .cons k e kes, T, l, h, s, hc => by
      rw [constKVs] at h
      cases he : constOf e T with
      | none => rw [he] at h; cases h
      | some v =>
        cases hes : constKVs kes T with
        | none => rw [he, hes] at h; cases h
        | some vs =>
          rw [he, hes] at h
          simp only [Option.some.injEq] at h
          subst h
          obtain ⟨s1, e1, sm1⟩ := const_eval e T v he s hc
          obtain ⟨s2, e2, sm2⟩ := const_evalKVs kes T vs hes s1 (Conforms.of_same sm1 hc)
          exact ⟨s2, by rw [evalKVs, e1]; simp only [e2], St.Same.trans sm1 sm2⟩
end

end Lang
