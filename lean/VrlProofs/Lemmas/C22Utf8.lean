/-
  Lemmas about the `from_utf8_lossy` model (VrlModel/Codec/Utf8.lean) used by C22.
-/
import VrlModel.Codec.Utf8

namespace Codec.Utf8

theorem lead_some_ge {b : Nat} {x : Nat × Nat × Nat} (h : lead b = some x) : 0xC2 ≤ b ∧ b ≤ 0xF4 := by
  unfold lead at h
  repeat' split at h
  all_goals first | omega | cases h

theorem lead_some_range {b lo hi r : Nat} (h : lead b = some (lo, hi, r)) :
    128 ≤ lo ∧ hi ≤ 0xBF := by
  unfold lead at h
  repeat' split at h
  all_goals first | (cases h; omega) | cases h

/-- ASCII text is left alone. -/
theorem go_none_ascii : ∀ (s : List Nat), (∀ b ∈ s, b < 128) → go none s = s
  | [], _ => rfl
  | b :: rest, h => by
    have hb : b < 128 := h b (by simp)
    have := go_none_ascii rest (fun x hx => h x (by simp [hx]))
    simp [go, hb, this]

theorem lossy_ascii (s : List Nat) (h : ∀ b ∈ s, b < 128) : lossy s = s := go_none_ascii s h

/-- Well-formed UTF-8 is left alone. -/
theorem lossy_valid {s : List Nat} (h : Valid s) : lossy s = s := by
  unfold lossy
  induction h with
  | nil => rfl
  | ascii b t hb _ ih => simp [go, hb, ih]
  | two b c t h1 h2 h3 h4 _ ih =>
    have hl : lead b = some (0x80, 0xBF, 0) := by simp [lead, h1, h2]
    have hb : ¬ b < 128 := by omega
    simp [go, hb, hl, h3, h4, ih]
  | three b c d t lo hi hl h1 h2 h3 h4 _ ih =>
    have hb : ¬ b < 128 := by have := lead_some_ge hl; omega
    simp [go, hb, hl, h1, h2, h3, h4, ih]
  | four b c d e t lo hi hl h1 h2 h3 h4 h5 h6 _ ih =>
    have hb : ¬ b < 128 := by have := lead_some_ge hl; omega
    simp [go, hb, hl, h1, h2, h3, h4, h5, h6, ih]

/-- invariant of a pending sequence: only non-ASCII bytes buffered, next byte must be ≥ 0x80. -/
def Pend.ok (p : Pend) : Prop := (∀ x ∈ p.buf, 128 ≤ x ∧ x < 256) ∧ 128 ≤ p.lo ∧ p.hi ≤ 0xBF

def stOk : Option Pend → Prop
  | none => True
  | some p => p.ok

def ascii (l : List Nat) : List Nat := l.filter (· < 128)

theorem ascii_fffd : ascii fffd = [] := by decide

theorem ascii_append (a b : List Nat) : ascii (a ++ b) = ascii a ++ ascii b := by
  simp [ascii]

theorem ascii_of_high (l : List Nat) (h : ∀ x ∈ l, 128 ≤ x ∧ x < 256) : ascii l = [] := by
  simp only [ascii, List.filter_eq_nil_iff]
  intro x hx
  have := h x hx
  simp; omega

/-- `lossy` never adds, drops or reorders ASCII bytes. -/
theorem ascii_go : ∀ (s : List Nat) (st : Option Pend), stOk st → ascii (go st s) = ascii s
  | [], none, _ => rfl
  | [], some _, _ => by simp [go, ascii_fffd]; rfl
  | b :: rest, none, _ => by
    unfold go
    split
    · rename_i hb
      simp [ascii, hb]
      exact ascii_go rest none trivial
    · rename_i hb
      split
      · rename_i lo hi rem hl
        have hr := lead_some_range hl
        have hg := lead_some_ge hl
        rw [ascii_go rest _ (by
          refine ⟨?_, hr.1, hr.2⟩
          intro x hx
          simp at hx
          omega)]
        simp [ascii, hb]
      · rw [ascii_append, ascii_fffd, ascii_go rest none trivial]
        simp [ascii, hb]
  | b :: rest, some p, hp => by
    obtain ⟨hbuf, hlo, hhi⟩ := hp
    unfold go
    split
    · rename_i hin
      have hb : ¬ b < 128 := by omega
      split
      · rw [ascii_append, ascii_of_high _ hbuf]
        simp [ascii, hb]
        exact ascii_go rest none trivial
      · rename_i r _
        rw [ascii_go rest _ (by
          refine ⟨?_, Nat.le_refl _, Nat.le_refl _⟩
          intro x hx
          simp at hx
          rcases hx with hx | hx
          · exact hbuf x hx
          · omega)]
        simp [ascii, hb]
    · rw [ascii_append, ascii_fffd]
      split
      · rename_i hb
        simp [ascii, hb]
        exact ascii_go rest none trivial
      · rename_i hb
        split
        · rename_i lo hi rem hl
          have hr := lead_some_range hl
          have hg := lead_some_ge hl
          rw [ascii_go rest _ (by
            refine ⟨?_, hr.1, hr.2⟩
            intro x hx
            simp at hx
            omega)]
          simp [ascii, hb]
        · rw [ascii_append, ascii_fffd, ascii_go rest none trivial]
          simp [ascii, hb]

theorem ascii_lossy (s : List Nat) : ascii (lossy s) = ascii s := ascii_go s none trivial

/-- every byte `lossy` outputs is a byte. -/
theorem go_lt : ∀ (s : List Nat) (st : Option Pend), stOk st → ∀ y ∈ go st s, y < 256
  | [], none, _ => by simp [go]
  | [], some _, _ => by simp [go, fffd]
  | b :: rest, none, _ => by
    unfold go
    split
    · rename_i hb
      intro y hy
      simp at hy
      rcases hy with hy | hy
      · omega
      · exact go_lt rest none trivial y hy
    · split
      · rename_i lo hi rem hl
        have hr := lead_some_range hl
        have hg := lead_some_ge hl
        exact go_lt rest _ (by
          refine ⟨?_, hr.1, hr.2⟩
          intro x hx
          simp at hx
          omega)
      · intro y hy
        simp at hy
        rcases hy with hy | hy
        · simp [fffd] at hy; omega
        · exact go_lt rest none trivial y hy
  | b :: rest, some p, hp => by
    obtain ⟨hbuf, hlo, hhi⟩ := hp
    have hstart : ∀ y ∈ (if b < 128 then b :: go none rest
         else match lead b with
           | some (lo, hi, rem) => go (some ⟨[b], lo, hi, rem⟩) rest
           | none => fffd ++ go none rest), y < 256 := by
      split
      · intro y hy
        simp at hy
        rcases hy with hy | hy
        · omega
        · exact go_lt rest none trivial y hy
      · split
        · rename_i lo hi rem hl
          have hr := lead_some_range hl
          have hg := lead_some_ge hl
          exact go_lt rest _ (by
            refine ⟨?_, hr.1, hr.2⟩
            intro x hx
            simp at hx
            omega)
        · intro y hy
          simp at hy
          rcases hy with hy | hy
          · simp [fffd] at hy; omega
          · exact go_lt rest none trivial y hy
    unfold go
    split
    · rename_i hin
      split
      · intro y hy
        simp at hy
        rcases hy with hy | hy | hy
        · exact (hbuf y hy).2
        · omega
        · exact go_lt rest none trivial y hy
      · exact go_lt rest _ (by
          refine ⟨?_, Nat.le_refl _, Nat.le_refl _⟩
          intro x hx
          simp at hx
          rcases hx with hx | hx
          · exact hbuf x hx
          · omega)
    · intro y hy
      simp only [List.mem_append] at hy
      rcases hy with hy | hy
      · simp [fffd] at hy; omega
      · exact hstart y hy

theorem lossy_lt (s : List Nat) : ∀ y ∈ lossy s, y < 256 := go_lt s none trivial

/-- text that `lossy` leaves unchanged consists of bytes. -/
theorem bytes_of_lossy_fixed {s : List Nat} (h : lossy s = s) : ∀ y ∈ s, y < 256 := by
  intro y hy
  rw [← h] at hy
  exact lossy_lt s y hy

end Codec.Utf8
