/-
  C03: value-level facts about the collection-typed functions (`array object pop slice split keys
  flatten compact unique to_entries from_entries unflatten`) and the numeric ones (`abs floor ceil
  round mod`), and membership in the kinds their type_defs build.
-/
import VrlProofs.Lemmas.C03Tags

namespace C03
open Spec
open Str (R)

/-! ### numbers -/

def Tag.isNum : Tag → Bool
  | .integer => true
  | .float => true
  | _ => false

theorem abs_pres {v r : Value} (h : ofRes (Conv.Num.abs v) = .ok r) :
    (tagOf v).isNum = true ∧ tagOf r = tagOf v := by
  have h := ofRes_ok h
  cases v <;> simp only [Conv.Num.abs] at h <;> try (cases h)
  · split at h <;> (cases h; exact ⟨rfl, rfl⟩)
  · exact ⟨rfl, rfl⟩

theorem roundFn_pres {m : Round.Mode} {p : Int → Nat} {v : Value} {o : Option Value} {r : Value}
    (h : Round.roundFn m p v o = .ok r) : (tagOf v).isNum = true ∧ tagOf r = tagOf v := by
  unfold Round.roundFn at h
  split at h
  · split at h <;> first | (cases h; exact ⟨rfl, rfl⟩) | cases h
  · cases h

/-- membership of a number only looks at its primitive flag. -/
theorem mem_num_congr {v r : Value} (k : Kind) (hn : (tagOf v).isNum = true) (ht : tagOf r = tagOf v) :
    mem r k = mem v k := by
  cases v <;> simp [tagOf, Tag.isNum] at hn <;> cases r <;> simp [tagOf] at ht <;> rfl

theorem mem_intOrFloat {v : Value} (hn : (tagOf v).isNum = true) : mem v intOrFloat = true := by
  cases v <;> simp [tagOf, Tag.isNum] at hn <;> rfl

theorem num_bit {v : Value} (hn : (tagOf v).isNum = true) : hasBit (mInteger + mFloat) (kindBit v) = true := by
  cases v <;> simp [tagOf, Tag.isNum] at hn <;> simp [hasBit, kindBit, mInteger, mFloat]

theorem floatResult_ok {x : Option Nat} {r : Value} (h : Arith.floatResult x = .ok r) :
    tagOf r = .float := by
  unfold Arith.floatResult at h
  split at h
  · cases h
  · split at h
    · cases h
    · cases h; rfl

/-- `mod`: a float modulus gives a float; an integer modulus gives the kind of the dividend. -/
theorem tryRem_ok {v m r : Value} (h : ofArith (Arith.tryRem v m) = .ok r) :
    (tagOf m).isNum = true ∧ (tagOf v).isNum = true ∧
    (tagOf m = .float → tagOf r = .float) ∧ (tagOf m = .integer → tagOf r = tagOf v) ∧
    m ≠ .int 0 := by
  have h' : Arith.tryRem v m = .ok r := by
    cases hx : Arith.tryRem v m <;> simp [hx, ofArith] at h
    subst h; rfl
  clear h
  cases m <;> simp only [Arith.tryRem] at h' <;> try (cases h'; done)
  · -- int modulus
    split at h'
    · cases h'
    · cases v <;> simp only at h' <;> try (cases h'; done)
      · cases h'; exact ⟨rfl, rfl, by simp [tagOf], fun _ => rfl, by simpa using ‹¬ _›⟩
      · exact ⟨rfl, rfl, by simp [tagOf], fun _ => floatResult_ok h', by simpa using ‹¬ _›⟩
  · split at h'
    · cases h'
    · cases v <;> simp only at h' <;> try (cases h'; done)
      · exact ⟨rfl, rfl, fun _ => floatResult_ok h', by simp [tagOf], by simp⟩
      · exact ⟨rfl, rfl, fun _ => floatResult_ok h', by simp [tagOf], by simp⟩

theorem tag_of_isInteger {v : Value} {k : Kind} (hk : k.isInteger = true) (hm : mem v k = true) :
    tagOf v = .integer := by
  cases k with
  | mk p a o =>
    simp only [Kind.isInteger, Kind.onlyPrim, Kind.prim, Bool.and_eq_true, Bool.not_eq_true',
      Prim.isEmpty, Bool.or_eq_false_iff] at hk
    cases v <;> first | rfl | (simp_all [mem, Kind.prim]; done) | skip
    all_goals first
      | (cases a <;> simp_all [mem, Kind.hasArr]; done)
      | (cases o <;> simp_all [mem, Kind.hasObj]; done)

theorem hasArr_false_of_isBytes {k : Kind} (hk : k.isBytes = true) : k.hasArr = false := by
  cases k with
  | mk p a o =>
    simp only [Kind.isBytes, Kind.onlyPrim, Bool.and_eq_true, Bool.not_eq_true'] at hk
    exact hk.1.2

/-! ### arrays / objects as a whole -/

theorem tag_array {v : Value} (h : tagOf v = .array) : ∃ xs, v = .arr xs := by
  cases v <;> simp [tagOf] at h; exact ⟨_, rfl⟩

theorem tag_object {v : Value} (h : tagOf v = .object) : ∃ m, v = .obj m := by
  cases v <;> simp [tagOf] at h; exact ⟨_, rfl⟩

/-- membership of an array depends on the array state only. -/
theorem mem_arr_congr (xs : VList) {K K' : Kind} (h : K.array = K'.array) :
    mem (.arr xs) K = mem (.arr xs) K' := by
  cases K with
  | mk p a o =>
    cases K' with
    | mk p' a' o' =>
      cases a <;> cases a' <;> simp [Kind.array] at h
      · simp [mem, Kind.hasArr]
      · subst h; simp [mem, Kind.hasArr, arrayD, Kind.array]

/-- membership of a byte string depends on the `bytes` flag only. -/
theorem mem_bytes (b : List Nat) (K : Kind) : mem (.bytes b) K = K.prim.bytes := rfl

/-! ### `Kind::union` with `never` on the left (`slice`) -/

theorem never_union_prim (k : Kind) : (Kind.never.union k).prim = k.prim := by
  cases k with
  | mk p a o =>
    simp only [Kind.union, Kind.mergeKeep, Kind.fuel, Kind.never]
    rw [show 2 * ((Kind.mk {} .none .none).depth + (Kind.mk p a o).depth) + 4
        = (2 * ((Kind.mk {} .none .none).depth + (Kind.mk p a o).depth) + 3) + 1 from rfl]
    simp only [Kind.mergeKeepF, Kind.prim, Prim.or]
    cases p; simp

theorem never_union_array (k : Kind) : (Kind.never.union k).array = k.array := by
  cases k with
  | mk p a o =>
    simp only [Kind.union, Kind.mergeKeep, Kind.fuel, Kind.never]
    rw [show 2 * ((Kind.mk {} .none .none).depth + (Kind.mk p a o).depth) + 4
        = (2 * ((Kind.mk {} .none .none).depth + (Kind.mk p a o).depth) + 3) + 1 from rfl]
    simp only [Kind.mergeKeepF]
    cases a <;> simp [OCol.mergeWith, Kind.array]

/-! ### lists -/

theorem getN_ofList : (l : List Value) → (j : Nat) → (Coll.ofList l).getN j = l[j]?
  | [], j => by simp [Coll.ofList, VList.getN]
  | x :: l, 0 => by simp [Coll.ofList, VList.getN]
  | x :: l, j + 1 => by simp [Coll.ofList, VList.getN, getN_ofList l j]

theorem getN_toList : (xs : VList) → (j : Nat) → (Coll.toList xs)[j]? = xs.getN j
  | .nil, j => by simp [Coll.toList, VList.getN]
  | .cons x xs, 0 => by simp [Coll.toList, VList.getN]
  | .cons x xs, j + 1 => by simp [Coll.toList, VList.getN, getN_toList xs j]

theorem getN_popList : (xs : VList) → (j : Nat) → (x : Value) → (popList xs).getN j = some x →
    xs.getN j = some x
  | .nil, _, _, h => by simp [popList, VList.getN] at h
  | .cons _ .nil, _, _, h => by simp [popList, VList.getN] at h
  | .cons v (.cons w ws), 0, x, h => by simpa [popList, VList.getN] using h
  | .cons v (.cons w ws), j + 1, x, h => by
    simp only [popList, VList.getN] at h ⊢
    exact getN_popList (.cons w ws) j x h

/-- an array kind all of whose known indices may be absent (in particular: no known index). -/
def _root_.Col.knownOptional (c : Col) : Bool := c.known.all fun _ K => K.prim.undefined

/-- the slot kind of an index that is not known -/
theorem slotKind_none {c : Col} {k : Key} (h : c.known.get k = none) :
    slotKind c k = unknownElemKind c.unknown := by
  simp [slotKind, h]

/-- every element of `ys` is a member of the element kind of every index: enough for membership
    in an array kind without known indices. -/
theorem mem_arr_of_noKnown (ys : VList) (K : Kind) (c : Col) (hc : K.array = some c)
    (hk : c.known = .nil)
    (h : ∀ j x, ys.getN j = some x → mem x (unknownElemKind c.unknown) = true) :
    mem (.arr ys) K = true := by
  rw [mem_arr_iff]
  refine ⟨c, hc, ?_, ?_⟩
  · intro j x hj
    rw [slotKind_none (by simp [hk, KList.get])]
    exact h j x hj
  · intro k K' hg
    simp [hk, KList.get] at hg

theorem mem_elem_of_noKnown {xs : VList} {K : Kind} {c : Col} (hm : mem (.arr xs) K = true)
    (hc : K.array = some c) (hk : c.known = .nil) {j : Nat} {x : Value} (hj : xs.getN j = some x) :
    mem x (unknownElemKind c.unknown) = true := by
  rw [mem_arr_iff] at hm
  obtain ⟨c', hc', h1, _⟩ := hm
  rw [hc] at hc'; cases hc'
  have := h1 j x hj
  rwa [slotKind_none (by simp [hk, KList.get])] at this

/-! ### constant element kinds -/

theorem ofKind_bytes : Unknown.ofKind Kind.bytes = .exact Kind.bytes := by decide

theorem mem_arr_bytesCol (ys : VList) (h : ∀ j x, ys.getN j = some x → tagOf x = .bytes) :
    mem (.arr ys) (Kind.ofArray (Col.fromUnknown Kind.bytes)) = true := by
  apply mem_arr_of_noKnown ys _ (Col.fromUnknown Kind.bytes) rfl rfl
  intro j x hj
  have := h j x hj
  simp only [Col.fromUnknown, Col.unknown, ofKind_bytes, unknownElemKind]
  cases x <;> simp [tagOf] at this; rfl

theorem keysCol_eq : Col.empty.withUnknown Kind.bytes = Col.fromUnknown Kind.bytes := by decide

theorem getN_bytesArr : (ps : List (List Nat)) → (j : Nat) → (x : Value) →
    (Str.bytesArr ps).getN j = some x → tagOf x = .bytes
  | [], _, _, h => by simp [Str.bytesArr, VList.getN] at h
  | p :: ps, 0, x, h => by simp [Str.bytesArr, VList.getN] at h; subst h; rfl
  | p :: ps, j + 1, x, h => by
    simp only [Str.bytesArr, VList.getN] at h; exact getN_bytesArr ps j x h

theorem getN_rawBytesArr : (ps : List (List Nat)) → (j : Nat) → (x : Value) →
    (rawBytesArr ps).getN j = some x → tagOf x = .bytes
  | [], _, _, h => by simp [rawBytesArr, VList.getN] at h
  | p :: ps, 0, x, h => by simp [rawBytesArr, VList.getN] at h; subst h; rfl
  | p :: ps, j + 1, x, h => by
    simp only [rawBytesArr, VList.getN] at h; exact getN_rawBytesArr ps j x h

theorem getN_keysArr : (ks : List (List Nat)) → (j : Nat) → (x : Value) →
    (Coll.ofList (ks.map Value.bytes)).getN j = some x → tagOf x = .bytes
  | [], _, _, h => by simp [Coll.ofList, VList.getN] at h
  | p :: ps, 0, x, h => by simp [Coll.ofList, VList.getN] at h; subst h; rfl
  | p :: ps, j + 1, x, h => by
    simp only [List.map, Coll.ofList, VList.getN] at h; exact getN_keysArr ps j x h

/-! ### result shapes -/

theorem splitV_ok {E : Env} {v p : Value} {l : Option Value} {r : Value} (h : splitV E v p l = .ok r) :
    ∃ ys, r = .arr ys ∧ ∀ j x, ys.getN j = some x → tagOf x = .bytes := by
  unfold splitV at h
  split at h
  · rename_i r' hs
    subst h
    unfold Str.split at hs
    repeat' (split at hs)
    all_goals first
      | (cases hs; exact ⟨_, rfl, getN_bytesArr _⟩)
      | cases hs
  · split at h
    · cases h; exact ⟨_, rfl, getN_rawBytesArr _⟩
    · cases h

theorem keys_ok {v r : Value} (h : Coll.keys v = .ok r) :
    ∃ ys, r = .arr ys ∧ ∀ j x, ys.getN j = some x → tagOf x = .bytes := by
  cases v <;> simp only [Coll.keys] at h <;> try (cases h)
  exact ⟨_, rfl, getN_keysArr _⟩

theorem popV_ok {v r : Value} (h : popV v = .ok r) : ∃ xs, v = .arr xs ∧ r = .arr (popList xs) := by
  cases v <;> simp only [popV] at h <;> try (cases h)
  exact ⟨_, rfl, rfl⟩

theorem slice_core {v r : Value} (st : Int) (eo : Option Int)
    (h : (match v with
        | .bytes b =>
          match Coll.sliceRange st eo b.length with
          | some (i, j) => R.ok (.bytes ((b.drop i).take (j - i)))
          | none => R.err
        | .arr xs =>
          match Coll.sliceRange st eo xs.length with
          | some (i, j) => R.ok (.arr (Coll.ofList (((Coll.toList xs).drop i).take (j - i))))
          | none => R.err
        | _ => R.err) = R.ok r) :
    (∃ b b', v = .bytes b ∧ r = .bytes b') ∨
    (∃ xs i n, v = .arr xs ∧ r = .arr (Coll.ofList (((Coll.toList xs).drop i).take n))) := by
  split at h
  · split at h
    · cases h; exact Or.inl ⟨_, _, rfl, rfl⟩
    · cases h
  · split at h
    · cases h; exact Or.inr ⟨_, _, _, rfl, rfl⟩
    · cases h
  · cases h

theorem slice_ok {v s : Value} {e : Option Value} {r : Value} (h : Coll.slice v s e = .ok r) :
    (∃ b b', v = .bytes b ∧ r = .bytes b') ∨
    (∃ xs i n, v = .arr xs ∧ r = .arr (Coll.ofList (((Coll.toList xs).drop i).take n))) := by
  cases s <;> simp only [Coll.slice] at h <;> try (cases h; done)
  rename_i st
  cases e with
  | none => simp only at h; exact slice_core st none h
  | some w =>
    cases w <;> simp only at h <;> try (cases h; done)
    exact slice_core st (some _) h

theorem getN_slice (xs : VList) (i n j : Nat) (x : Value)
    (h : (Coll.ofList (((Coll.toList xs).drop i).take n)).getN j = some x) :
    xs.getN (i + j) = some x := by
  rw [getN_ofList] at h
  rw [List.getElem?_take] at h
  split at h
  · rw [List.getElem?_drop, getN_toList] at h; exact h
  · cases h

/-- results that are some array / some object -/
theorem compact_ok {v : Value} {a b c d e f : Option Value} {r : Value}
    (h : Coll.compact v a b c d e f = .ok r) :
    (∃ m m', v = .obj m ∧ r = .obj m') ∨ (∃ xs ys, v = .arr xs ∧ r = .arr ys) := by
  unfold Coll.compact at h
  split at h
  · split at h
    · cases h; exact Or.inl ⟨_, _, rfl, rfl⟩
    · cases h; exact Or.inr ⟨_, _, rfl, rfl⟩
    · cases h
  · cases h

theorem flattenV_ok {v : Value} {s e : Option Value} {r : Value} (h : flattenV v s e = .ok r) :
    (∃ m m', v = .obj m ∧ r = .obj m') ∨ (∃ xs ys, v = .arr xs ∧ r = .arr ys) := by
  unfold flattenV at h
  split at h
  · have h := ofRes_ok h
    unfold Conv.Flat.flatten at h
    split at h
    · cases h
    · split at h
      · cases h; exact Or.inr ⟨_, _, rfl, rfl⟩
      · cases h; exact Or.inl ⟨_, _, rfl, rfl⟩
      · cases h
  · cases h

theorem unique_ok {v r : Value} (h : Coll.unique v = .ok r) : tagOf r = .array := by
  cases v <;> simp only [Coll.unique] at h <;> ok_tag h

theorem toEntries_ok {v r : Value} (h : ofRes (Conv.toEntries v) = .ok r) : tagOf r = .array := by
  have h := ofRes_ok h
  cases v <;> simp only [Conv.toEntries] at h <;> ok_tag h

theorem fromEntriesLoop_ok : (xs : VList) → (acc : VMap) → (r : Value) →
    Conv.fromEntriesLoop xs acc = .ok r → tagOf r = .object
  | .nil, acc, r, h => by simp only [Conv.fromEntriesLoop] at h; ok_tag h
  | .cons x rest, acc, r, h => by
    cases x <;> simp only [Conv.fromEntriesLoop] at h <;> try (cases h)
    split at h
    · exact fromEntriesLoop_ok rest _ r h
    · cases h

theorem fromEntries_ok {v r : Value} (h : ofRes (Conv.fromEntries v) = .ok r) : tagOf r = .object := by
  have h := ofRes_ok h
  cases v <;> simp only [Conv.fromEntries] at h <;> try (cases h)
  exact fromEntriesLoop_ok _ _ _ h

theorem unflattenV_ok {v : Value} {s o : Option Value} {r : Value} (h : unflattenV v s o = .ok r) :
    tagOf r = .object := by
  have h := ofRes_ok h
  unfold Conv.Flat.unflatten at h
  repeat' (split at h)
  all_goals ok_tag h

theorem mem_of_tag_array {r : Value} (h : tagOf r = .array) : mem r anyArray = true := by
  obtain ⟨xs, rfl⟩ := tag_array h; exact mem_arr_anyArray xs

theorem mem_of_tag_object {r : Value} (h : tagOf r = .object) : mem r anyObject = true := by
  obtain ⟨m, rfl⟩ := tag_object h; exact mem_obj_anyObject m

end C03
