/-
  The printer of `VrlModel.Json` emits UTF-8 that does not start with a byte-order mark, so the
  lossy conversion and the BOM stripping of `parse_json` leave it alone; facts about `mapFloats`,
  `approx` and `AllFloats`; documents that open too many brackets are rejected.
-/
import VrlProofs.Lemmas.JsonRoundTrip

namespace Json

theorem validUtf8_of_ascii (a : List Nat) (h : ∀ c ∈ a, c < 128) : validUtf8 a = true := by
  have := validUtf8_ascii_append a [] h
  simpa [validUtf8] using this

theorem validUtf8_app (a b : List Nat) (ha : validUtf8 a = true) (hb : validUtf8 b = true) :
    validUtf8 (a ++ b) = true := by
  rw [validUtf8_append a b ha]; exact hb

theorem validUtf8_cons_ascii (c : Nat) (a : List Nat) (hc : c < 128) (ha : validUtf8 a = true) :
    validUtf8 (c :: a) = true := by
  rw [validUtf8_1 c a hc]; exact ha

theorem allDigits_lt : (ds : List Nat) → allDigits ds = true → ∀ c ∈ ds, c < 128
  | [], _, c, hc => by simp at hc
  | d :: ds, h, c, hc => by
    simp only [allDigits, Bool.and_eq_true, isDigit, decide_eq_true_eq] at h
    simp only [List.mem_cons] at hc
    rcases hc with rfl | hc
    · omega
    · exact allDigits_lt ds h.2 c hc

theorem render_ascii (t : NumTok) (hw : t.wf = true) : ∀ c ∈ t.render, c < 128 := by
  obtain ⟨neg, int, frac, exp⟩ := t
  simp only [NumTok.wf, Bool.and_eq_true] at hw
  obtain ⟨⟨hi, hf⟩, he⟩ := hw
  intro c hc
  simp only [NumTok.render, List.mem_append] at hc
  rcases hc with hc | hc | hc | hc
  · cases neg <;> simp [signText] at hc; omega
  · cases int with
    | nil => simp at hc
    | cons d r =>
      simp only [wfInt, Bool.or_eq_true, Bool.and_eq_true, beq_iff_eq, decide_eq_true_eq,
        List.isEmpty_iff] at hi
      simp only [List.mem_cons] at hc
      rcases hi with ⟨h0, hr⟩ | ⟨⟨h1, h2⟩, h3⟩
      · subst hr; simp at hc; omega
      · rcases hc with rfl | hc
        · omega
        · exact allDigits_lt r h3 c hc
  · cases frac with
    | none => simp [fracText] at hc
    | some fs =>
      simp only [wfFrac, Bool.and_eq_true] at hf
      simp only [fracText, List.mem_cons] at hc
      rcases hc with rfl | hc
      · omega
      · exact allDigits_lt fs hf.2 c hc
  · cases exp with
    | none => simp [expText] at hc
    | some p =>
      obtain ⟨pre, es⟩ := p
      simp only [wfExp, Bool.and_eq_true, expPrefixes, List.contains_cons, List.contains_nil,
        Bool.or_false, Bool.or_eq_true, beq_iff_eq] at he
      simp only [expText, List.mem_append] at hc
      rcases hc with hc | hc
      · rcases he.1.1 with h | h | h | h | h | h <;> subst h <;> simp at hc <;> omega
      · exact allDigits_lt es he.2 c hc

theorem nl_ascii (pretty : Bool) (lvl : Nat) : ∀ c ∈ nl pretty lvl, c < 128 := by
  intro c hc
  cases pretty
  · simp [nl] at hc
  · simp only [nl, ↓reduceIte, List.mem_cons, List.mem_replicate] at hc
    rcases hc with rfl | ⟨_, rfl⟩ <;> omega

theorem validUtf8_nl_app (pretty : Bool) (lvl : Nat) (X : List Nat) (h : validUtf8 X = true) :
    validUtf8 (nl pretty lvl ++ X) = true := by
  rw [validUtf8_ascii_append _ _ (nl_ascii pretty lvl)]; exact h

theorem validUtf8_colon_app (pretty : Bool) (X : List Nat) (h : validUtf8 X = true) :
    validUtf8 (colon pretty ++ X) = true := by
  rw [validUtf8_ascii_append _ _ (by cases pretty <;> simp [colon])]; exact h

mutual
  theorem valid_pv (P : Prims) (pretty : Bool) : (v : Value) → (lvl : Nat) →
      jsonRepr v = true → AllFloats (FloatTextOK P) v → validUtf8 (pv P pretty lvl v) = true
    | .null, _, _, _ => by rw [pv]; decide
    | .bool true, _, _, _ => by rw [pv]; decide
    | .bool false, _, _, _ => by rw [pv]; decide
    | .int i, _, _, _ => by
      rw [pv, showInt]; exact validUtf8_of_ascii _ (render_ascii _ (intTok_wf i))
    | .float b, _, hr, hf => by
      simp only [jsonRepr, Bool.and_eq_true] at hr
      simp only [AllFloats] at hf
      obtain ⟨t, hw, _, hshow, _⟩ := hf
      rw [pv, showFloat, if_pos hr.2, hshow]
      exact validUtf8_of_ascii _ (render_ascii t hw)
    | .bytes b, _, hr, _ => by
      simp only [jsonRepr] at hr
      rw [pv, utf8Lossy_valid b hr]; exact validUtf8_quote b hr
    | .ts _, _, hr, _ => by simp [jsonRepr] at hr
    | .regex _, _, hr, _ => by simp [jsonRepr] at hr
    | .arr xs, lvl, hr, hf => by
      simp only [jsonRepr] at hr
      simp only [AllFloats] at hf
      rw [pv]; exact validUtf8_cons_ascii _ _ (by omega) (valid_pl0 P pretty xs lvl hr hf)
    | .obj m, lvl, hr, hf => by
      simp only [jsonRepr] at hr
      simp only [AllFloats] at hf
      rw [pv]; exact validUtf8_cons_ascii _ _ (by omega) (valid_pm0 P pretty m lvl hr hf)
  theorem valid_pl0 (P : Prims) (pretty : Bool) : (xs : VList) → (lvl : Nat) →
      jsonReprL xs = true → AllFloatsL (FloatTextOK P) xs → validUtf8 (pl0 P pretty lvl xs) = true
    | .nil, _, _, _ => by rw [pl0]; decide
    | .cons x xs, lvl, hr, hf => by
      simp only [jsonReprL, Bool.and_eq_true] at hr
      simp only [AllFloatsL] at hf
      rw [pl0]
      exact validUtf8_nl_app _ _ _ (validUtf8_app _ _ (valid_pv P pretty x (lvl + 1) hr.1 hf.1)
        (valid_pl P pretty xs lvl hr.2 hf.2))
  theorem valid_pl (P : Prims) (pretty : Bool) : (xs : VList) → (lvl : Nat) →
      jsonReprL xs = true → AllFloatsL (FloatTextOK P) xs → validUtf8 (pl P pretty lvl xs) = true
    | .nil, _, _, _ => by rw [pl]; exact validUtf8_nl_app _ _ _ (by decide)
    | .cons x xs, lvl, hr, hf => by
      simp only [jsonReprL, Bool.and_eq_true] at hr
      simp only [AllFloatsL] at hf
      rw [pl]
      exact validUtf8_cons_ascii _ _ (by omega)
        (validUtf8_nl_app _ _ _ (validUtf8_app _ _ (valid_pv P pretty x (lvl + 1) hr.1 hf.1)
          (valid_pl P pretty xs lvl hr.2 hf.2)))
  theorem valid_pm0 (P : Prims) (pretty : Bool) : (m : VMap) → (lvl : Nat) →
      jsonReprM m = true → AllFloatsM (FloatTextOK P) m → validUtf8 (pm0 P pretty lvl m) = true
    | .nil, _, _, _ => by rw [pm0]; decide
    | .cons k x m, lvl, hr, hf => by
      simp only [jsonReprM, Bool.and_eq_true] at hr
      simp only [AllFloatsM] at hf
      rw [pm0]
      exact validUtf8_nl_app _ _ _ (validUtf8_app _ _ (validUtf8_quote k hr.1.1.1)
        (validUtf8_colon_app _ _ (validUtf8_app _ _ (valid_pv P pretty x (lvl + 1) hr.1.1.2 hf.1)
          (valid_pm P pretty m lvl hr.2 hf.2))))
  theorem valid_pm (P : Prims) (pretty : Bool) : (m : VMap) → (lvl : Nat) →
      jsonReprM m = true → AllFloatsM (FloatTextOK P) m → validUtf8 (pm P pretty lvl m) = true
    | .nil, _, _, _ => by rw [pm]; exact validUtf8_nl_app _ _ _ (by decide)
    | .cons k x m, lvl, hr, hf => by
      simp only [jsonReprM, Bool.and_eq_true] at hr
      simp only [AllFloatsM] at hf
      rw [pm]
      exact validUtf8_cons_ascii _ _ (by omega)
        (validUtf8_nl_app _ _ _ (validUtf8_app _ _ (validUtf8_quote k hr.1.1.1)
          (validUtf8_colon_app _ _ (validUtf8_app _ _ (valid_pv P pretty x (lvl + 1) hr.1.1.2 hf.1)
            (valid_pm P pretty m lvl hr.2 hf.2)))))
end

theorem stripBomStr_start (c : Nat) (r : List Nat) (h : valueStart c = true) :
    stripBomStr (c :: r) = c :: r := by
  have hc : c ≠ 239 := by have := valueStart_cases c h; omega
  match r with
  | [] => rw [stripBomStr]; simp
  | [_] => rw [stripBomStr]; simp
  | a :: b :: r => rw [stripBomStr]; simp [hc]

theorem stripBomBytes_start (c : Nat) (r : List Nat) (h : valueStart c = true) :
    stripBomBytes (c :: r) = c :: r := by
  have hc : c ≠ 239 := by have := valueStart_cases c h; omega
  match r with
  | [] => rw [stripBomBytes]; simp
  | [_] => rw [stripBomBytes]; simp
  | a :: b :: r => rw [stripBomBytes]; simp [hc]

/-! ### `mapFloats`, `approx`, `AllFloats` -/

mutual
  theorem allFloats_of_floatFree (Q : Nat → Prop) : (v : Value) → floatFree v = true → AllFloats Q v
    | .null, _ => trivial
    | .bool _, _ => trivial
    | .int _, _ => trivial
    | .float _, h => by simp [floatFree] at h
    | .bytes _, _ => trivial
    | .ts _, _ => trivial
    | .regex _, _ => trivial
    | .arr xs, h => by
      simp only [floatFree] at h; simp only [AllFloats]; exact allFloatsL_of_floatFree Q xs h
    | .obj m, h => by
      simp only [floatFree] at h; simp only [AllFloats]; exact allFloatsM_of_floatFree Q m h
  theorem allFloatsL_of_floatFree (Q : Nat → Prop) : (xs : VList) → floatFreeL xs = true → AllFloatsL Q xs
    | .nil, _ => trivial
    | .cons x xs, h => by
      simp only [floatFreeL, Bool.and_eq_true] at h
      exact ⟨allFloats_of_floatFree Q x h.1, allFloatsL_of_floatFree Q xs h.2⟩
  theorem allFloatsM_of_floatFree (Q : Nat → Prop) : (m : VMap) → floatFreeM m = true → AllFloatsM Q m
    | .nil, _ => trivial
    | .cons _ x m, h => by
      simp only [floatFreeM, Bool.and_eq_true] at h
      exact ⟨allFloats_of_floatFree Q x h.1, allFloatsM_of_floatFree Q m h.2⟩
end

mutual
  /-- a property of all finite doubles holds of every float of a representable value -/
  theorem allFloats_of_repr (Q : Nat → Prop) (hQ : ∀ x, x < F64.p64 → F64.isFinite x = true → Q x) :
      (v : Value) → jsonRepr v = true → AllFloats Q v
    | .null, _ => trivial
    | .bool _, _ => trivial
    | .int _, _ => trivial
    | .float b, h => by
      simp only [jsonRepr, Bool.and_eq_true, decide_eq_true_eq] at h
      exact hQ b h.1 h.2
    | .bytes _, _ => trivial
    | .ts _, _ => trivial
    | .regex _, _ => trivial
    | .arr xs, h => by
      simp only [jsonRepr] at h; simp only [AllFloats]; exact allFloatsL_of_repr Q hQ xs h
    | .obj m, h => by
      simp only [jsonRepr] at h; simp only [AllFloats]; exact allFloatsM_of_repr Q hQ m h
  theorem allFloatsL_of_repr (Q : Nat → Prop) (hQ : ∀ x, x < F64.p64 → F64.isFinite x = true → Q x) :
      (xs : VList) → jsonReprL xs = true → AllFloatsL Q xs
    | .nil, _ => trivial
    | .cons x xs, h => by
      simp only [jsonReprL, Bool.and_eq_true] at h
      exact ⟨allFloats_of_repr Q hQ x h.1, allFloatsL_of_repr Q hQ xs h.2⟩
  theorem allFloatsM_of_repr (Q : Nat → Prop) (hQ : ∀ x, x < F64.p64 → F64.isFinite x = true → Q x) :
      (m : VMap) → jsonReprM m = true → AllFloatsM Q m
    | .nil, _ => trivial
    | .cons _ x m, h => by
      simp only [jsonReprM, Bool.and_eq_true] at h
      exact ⟨allFloats_of_repr Q hQ x h.1.1.2, allFloatsM_of_repr Q hQ m h.2⟩
end

mutual
  /-- `mapFloats g` changes nothing when `g` fixes every float of the value -/
  theorem mapFloats_id (g : Nat → Nat) : (v : Value) → AllFloats (fun x => g x = x) v → mapFloats g v = v
    | .null, _ => by rw [mapFloats]
    | .bool _, _ => by rw [mapFloats]
    | .int _, _ => by rw [mapFloats]
    | .float b, h => by simp only [AllFloats] at h; rw [mapFloats, h]
    | .bytes _, _ => by rw [mapFloats]
    | .ts _, _ => by rw [mapFloats]
    | .regex _, _ => by rw [mapFloats]
    | .arr xs, h => by simp only [AllFloats] at h; rw [mapFloats, mapFloatsL_id g xs h]
    | .obj m, h => by simp only [AllFloats] at h; rw [mapFloats, mapFloatsM_id g m h]
  theorem mapFloatsL_id (g : Nat → Nat) : (xs : VList) → AllFloatsL (fun x => g x = x) xs → mapFloatsL g xs = xs
    | .nil, _ => by rw [mapFloatsL]
    | .cons x xs, h => by
      simp only [AllFloatsL] at h; rw [mapFloatsL, mapFloats_id g x h.1, mapFloatsL_id g xs h.2]
  theorem mapFloatsM_id (g : Nat → Nat) : (m : VMap) → AllFloatsM (fun x => g x = x) m → mapFloatsM g m = m
    | .nil, _ => by rw [mapFloatsM]
    | .cons k x m, h => by
      simp only [AllFloatsM] at h; rw [mapFloatsM, mapFloats_id g x h.1, mapFloatsM_id g m h.2]
end

mutual
  /-- moving every float by at most `k` ulp gives a value that is `approx k` the original -/
  theorem approx_mapFloats (k : Nat) (g : Nat → Nat) : (v : Value) →
      AllFloats (fun x => ulpDist x (g x) ≤ k) v → approx k v (mapFloats g v) = true
    | .null, _ => by rw [mapFloats, approx]; simp
    | .bool _, _ => by rw [mapFloats, approx]; simp
    | .int _, _ => by rw [mapFloats, approx]; simp
    | .float b, h => by simp only [AllFloats] at h; rw [mapFloats, approx]; simp [h]
    | .bytes _, _ => by rw [mapFloats, approx]; simp
    | .ts _, _ => by rw [mapFloats, approx]; simp
    | .regex _, _ => by rw [mapFloats, approx]; simp
    | .arr xs, h => by
      simp only [AllFloats] at h; rw [mapFloats, approx]; exact approxL_mapFloats k g xs h
    | .obj m, h => by
      simp only [AllFloats] at h; rw [mapFloats, approx]; exact approxM_mapFloats k g m h
  theorem approxL_mapFloats (k : Nat) (g : Nat → Nat) : (xs : VList) →
      AllFloatsL (fun x => ulpDist x (g x) ≤ k) xs → approxL k xs (mapFloatsL g xs) = true
    | .nil, _ => by rw [mapFloatsL, approxL]
    | .cons x xs, h => by
      simp only [AllFloatsL] at h
      rw [mapFloatsL, approxL]
      simp [approx_mapFloats k g x h.1, approxL_mapFloats k g xs h.2]
  theorem approxM_mapFloats (k : Nat) (g : Nat → Nat) : (m : VMap) →
      AllFloatsM (fun x => ulpDist x (g x) ≤ k) m → approxM k m (mapFloatsM g m) = true
    | .nil, _ => by rw [mapFloatsM, approxM]
    | .cons key x m, h => by
      simp only [AllFloatsM] at h
      rw [mapFloatsM, approxM]
      simp [approx_mapFloats k g x h.1, approxM_mapFloats k g m h.2]
end

/-! ### too many opening brackets -/

theorem parseValue_deep (pf : List Nat → Option Nat) (jv : Bool) : (n d f : Nat) → (X : List Nat) →
    1 ≤ d → d ≤ n → parseValue pf jv f d (List.replicate n 91 ++ X) = none
  | 0, d, _, _, h1, h2 => by omega
  | _ + 1, _, 0, _, _, _ => by rw [parseValue]
  | n + 1, d, f + 1, X, h1, h2 => by
    rw [List.replicate_succ, List.cons_append, parseValue]
    simp only [skipWs, isWs]
    by_cases hd : d ≤ 1
    · simp [isDigit, hd]
    · have hn : 1 ≤ n := by omega
      obtain ⟨n', rfl⟩ : ∃ n', n = n' + 1 := ⟨n - 1, by omega⟩
      cases f with
      | zero => simp [isDigit, hd, parseElems]
      | succ f' =>
        have ih := parseValue_deep pf jv (n' + 1) (d - 1) f' X (by omega) (by omega)
        rw [List.replicate_succ, List.cons_append] at ih
        simp [isDigit, hd, parseElems, List.replicate_succ, skipWs, isWs, elemStart, ih]

end Json
