/-
  Lemmas about the percent-encoding model used by C22.
-/
import VrlModel.Codec.Percent
import VrlProofs.Lemmas.C22Base

namespace Codec.Percent
open Codec

/-- the text starts with two hex digits -/
def startsHex2 : List Nat → Bool
  | h :: l :: _ => isHex h && isHex l
  | _ => false

theorem hasPctHex_cons (b : Nat) (rest : List Nat) :
    hasPctHex (b :: rest) = ((b == pct && startsHex2 rest) || hasPctHex rest) := by
  cases rest with
  | nil => rfl
  | cons h t => cases t <;> rfl

theorem isHex_iff (c : Nat) : isHex c = true ↔ ∃ x, hexVal c = some x := by
  unfold isHex
  cases hexVal c <;> simp

theorem isHex_lt : ∀ c, isHex c = true → c < 128 := by
  intro c h
  unfold isHex hexVal at h
  repeat' split at h
  all_goals first | omega | simp at h

/-- no set escapes a hex digit, and `%` is not a hex digit. -/
theorem hex_not_escaped (set : AsciiSet) : ∀ c, c < 128 → isHex c = true → set.escapes c = false := by
  cases set <;> decide

theorem isHex_pct : isHex pct = false := by decide

theorem isHex_hexUpper : ∀ n, n < 16 → isHex (hexUpper n) = true := by decide

theorem decRaw_escape (h l x y : Nat) (r : List Nat) (hx : hexVal h = some x) (hy : hexVal l = some y) :
    decRaw (pct :: h :: l :: r) = (x * 16 + y) :: decRaw r := by
  simp [decRaw, hx, hy]

theorem decRaw_other (b : Nat) (r : List Nat) (hb : b ≠ pct) : decRaw (b :: r) = b :: decRaw r := by
  match r with
  | [] => simp [decRaw]
  | [_] => simp [decRaw]
  | h :: l :: r' => simp [decRaw, hb]

theorem decRaw_literal (r : List Nat) (hr : startsHex2 r = false) :
    decRaw (pct :: r) = pct :: decRaw r := by
  match r with
  | [] => simp [decRaw]
  | [_] => simp [decRaw]
  | h :: l :: r' =>
    simp only [startsHex2, Bool.and_eq_false_iff] at hr
    unfold isHex at hr
    rw [decRaw]
    simp only [↓reduceIte]
    rcases hr with hr | hr
    · cases hh : hexVal h with
      | none => rfl
      | some _ => simp [hh] at hr
    · cases hl : hexVal l with
      | none => cases hexVal h <;> rfl
      | some _ => simp [hl] at hr

/-- an encoder output starts with two hex digits only if the input did. -/
theorem startsHex2_encRaw (set : AsciiSet) (s : List Nat) :
    startsHex2 (encRaw set s) = true → startsHex2 s = true := by
  match s with
  | [] => simp [encRaw, startsHex2]
  | [a] =>
    simp only [encRaw]
    split
    · simp [startsHex2, isHex_pct]
    · simp [startsHex2]
  | a :: b :: r =>
    simp only [encRaw]
    split
    · simp [startsHex2, isHex_pct]
    · split
      · simp [startsHex2, isHex_pct]
      · simp [startsHex2]

/-- raw round trip on the exact domain. -/
theorem decRaw_encRaw (set : AsciiSet) : ∀ (s : List Nat), (∀ x ∈ s, x < 256) →
    roundTripOK set s = true → decRaw (encRaw set s) = s
  | [], _, _ => rfl
  | b :: rest, hs, hok => by
    have hb : b < 256 := hs b (by simp)
    have hrest : ∀ x ∈ rest, x < 256 := fun x hx => hs x (by simp [hx])
    have hok' : roundTripOK set rest = true := by
      simp only [roundTripOK, hasPctHex_cons, Bool.or_eq_true, Bool.not_eq_true'] at hok ⊢
      rcases hok with h | h
      · exact Or.inl h
      · right
        simp only [Bool.or_eq_false_iff] at h
        exact h.2
    have ih := decRaw_encRaw set rest hrest hok'
    simp only [encRaw]
    split
    · rw [decRaw_escape _ _ _ _ _ (hexVal_hexUpper (b / 16) (by omega))
        (hexVal_hexUpper (b % 16) (by omega)), ih]
      congr 1
      omega
    · rename_i hesc
      by_cases hp : b = pct
      · subst hp
        have hstart : startsHex2 (encRaw set rest) = false := by
          cases hh : startsHex2 (encRaw set rest) with
          | false => rfl
          | true =>
            have h2 := startsHex2_encRaw set rest hh
            simp only [roundTripOK, hasPctHex_cons, Bool.or_eq_true, Bool.not_eq_true'] at hok
            rcases hok with h | h
            · simp [h] at hesc
            · simp [h2] at h
        rw [decRaw_literal _ hstart, ih]
      · rw [decRaw_other _ _ hp, ih]



theorem ascii_cons_lt (b : Nat) (l : List Nat) (h : b < 128) : Utf8.ascii (b :: l) = b :: Utf8.ascii l := by
  simp [Utf8.ascii, h]

theorem ascii_length_cons_le (b : Nat) (l : List Nat) : (Utf8.ascii (b :: l)).length ≤ (Utf8.ascii l).length + 1 := by
  simp only [Utf8.ascii, List.filter_cons]
  split <;> simp

/-- the decoder never produces more ASCII bytes than the text had, and strictly fewer when a
    literal `%` followed by two hex digits was read as an escape. -/
theorem ascii_decRaw_encRaw (set : AsciiSet) : ∀ (s : List Nat), (∀ x ∈ s, x < 256) →
    (Utf8.ascii (decRaw (encRaw set s))).length ≤ (Utf8.ascii s).length ∧
    (roundTripOK set s = false → (Utf8.ascii (decRaw (encRaw set s))).length < (Utf8.ascii s).length)
  | [], _ => by simp [encRaw, decRaw, roundTripOK, hasPctHex]
  | b :: rest, hs => by
    have hb : b < 256 := hs b (by simp)
    have hrest : ∀ x ∈ rest, x < 256 := fun x hx => hs x (by simp [hx])
    have ih := ascii_decRaw_encRaw set rest hrest
    have hrt : ∀ (hne : (b == pct && startsHex2 rest) = false), roundTripOK set (b :: rest) = false →
        roundTripOK set rest = false := by
      intro hne h
      simp only [roundTripOK, hasPctHex_cons, hne, Bool.false_or] at h ⊢
      exact h
    have hsame : ∀ (hne : (b == pct && startsHex2 rest) = false),
        decRaw (encRaw set (b :: rest)) = b :: decRaw (encRaw set rest) →
        (Utf8.ascii (decRaw (encRaw set (b :: rest)))).length ≤ (Utf8.ascii (b :: rest)).length ∧
        (roundTripOK set (b :: rest) = false →
          (Utf8.ascii (decRaw (encRaw set (b :: rest)))).length < (Utf8.ascii (b :: rest)).length) := by
      intro hne heq
      rw [heq]
      simp only [Utf8.ascii, List.filter_cons]
      split
      · simp only [List.length_cons]
        refine ⟨by have := ih.1; simp only [Utf8.ascii] at this; omega, ?_⟩
        intro h
        have := ih.2 (hrt hne h)
        simp only [Utf8.ascii] at this
        omega
      · refine ⟨ih.1, ?_⟩
        intro h
        exact ih.2 (hrt hne h)
    by_cases hesc : set.escapes b = true
    · -- escaped byte: `%XX` decodes to the byte
      have heq : decRaw (encRaw set (b :: rest)) = b :: decRaw (encRaw set rest) := by
        simp only [encRaw, hesc, ↓reduceIte]
        rw [decRaw_escape _ _ _ _ _ (hexVal_hexUpper (b / 16) (by omega))
          (hexVal_hexUpper (b % 16) (by omega))]
        congr 1
        omega
      by_cases hp : b = pct
      · -- `%` itself is escaped: the set round-trips, only the bound is needed
        subst hp
        rw [heq]
        refine ⟨?_, ?_⟩
        · have := ih.1
          simp only [Utf8.ascii, List.filter_cons] at this ⊢
          split <;> simp <;> omega
        · intro h
          simp [roundTripOK, hesc] at h
      · exact hsame (by simp [hp]) heq
    · have hesc' : set.escapes b = false := by simpa using hesc
      by_cases hp : b = pct
      · subst hp
        cases hst : startsHex2 rest with
        | false =>
          have hstart : startsHex2 (encRaw set rest) = false := by
            cases hh : startsHex2 (encRaw set rest) with
            | false => rfl
            | true => have := startsHex2_encRaw set rest hh; simp [hst] at this
          have heq : decRaw (encRaw set (pct :: rest)) = pct :: decRaw (encRaw set rest) := by
            simp only [encRaw, hesc', Bool.false_eq_true, ↓reduceIte]
            exact decRaw_literal _ hstart
          exact hsame (by simp [hst]) heq
        | true =>
          -- `%` h l … with h, l hex digits that no set escapes: the decoder eats three ASCII bytes
          match rest, hst, hrest, ih with
          | h :: l :: r', hst, hrest, _ =>
            simp only [startsHex2, Bool.and_eq_true] at hst
            have hh := isHex_lt h hst.1
            have hl := isHex_lt l hst.2
            have eh := hex_not_escaped set h hh hst.1
            have el := hex_not_escaped set l hl hst.2
            obtain ⟨x, hx⟩ := (isHex_iff h).mp hst.1
            obtain ⟨y, hy⟩ := (isHex_iff l).mp hst.2
            have ih' := (ascii_decRaw_encRaw set r' (fun z hz => hrest z (by simp [hz]))).1
            have heq : decRaw (encRaw set (pct :: h :: l :: r')) = (x * 16 + y) :: decRaw (encRaw set r') := by
              simp only [encRaw, hesc', eh, el, Bool.false_eq_true, ↓reduceIte]
              exact decRaw_escape _ _ _ _ _ hx hy
            rw [heq]
            have hlen : (Utf8.ascii (pct :: h :: l :: r')).length = (Utf8.ascii r').length + 3 := by
              rw [ascii_cons_lt _ _ (by decide), ascii_cons_lt _ _ hh, ascii_cons_lt _ _ hl]
              simp
            have hle := ascii_length_cons_le (x * 16 + y) (decRaw (encRaw set r'))
            rw [hlen]
            exact ⟨by omega, fun _ => by omega⟩
      · have heq : decRaw (encRaw set (b :: rest)) = b :: decRaw (encRaw set rest) := by
          simp only [encRaw, hesc', Bool.false_eq_true, ↓reduceIte]
          exact decRaw_other _ _ hp
        exact hsame (by simp [hp]) heq

end Codec.Percent
