import VrlModel.C28
import VrlProofs.Lemmas.Utf8Str

/-! Lemmas for the string laws of C28. -/
namespace Str

/-! ### case mapping -/

/-- the law of `char::to_uppercase` the idempotence of `upcase` needs: upper-casing the image of a
    char changes nothing (sampled exhaustively over all scalar values by `o.c28.casemap`). -/
structure LawfulUpper (cm : CaseMap) : Prop where
  idem : ∀ c, upcaseCp cm (cm.toUpper c) = cm.toUpper c
  scalar : ∀ c, isScalar c = true → ∀ d ∈ cm.toUpper c, isScalar d = true

/-- the laws of `char::to_lowercase`: every char of an image is a fixed point and is not `Σ`
    (`Σ` itself is handled by the Final_Sigma rule and yields `σ`/`ς`, both fixed points). -/
structure LawfulLower (cm : CaseMap) : Prop where
  fixed : ∀ c, c ≠ capSigma → ∀ d ∈ cm.toLower c, d ≠ capSigma ∧ cm.toLower d = [d]
  small : cm.toLower smallSigma = [smallSigma]
  final : cm.toLower finalSigma = [finalSigma]
  scalar : ∀ c, isScalar c = true → ∀ d ∈ cm.toLower c, isScalar d = true

theorem upcaseCp_append (cm : CaseMap) : (a b : List Nat) →
    upcaseCp cm (a ++ b) = upcaseCp cm a ++ upcaseCp cm b
  | [], _ => rfl
  | c :: a, b => by simp [upcaseCp, upcaseCp_append cm a b]

theorem upcaseCp_idem (cm : CaseMap) (h : LawfulUpper cm) : (s : List Nat) →
    upcaseCp cm (upcaseCp cm s) = upcaseCp cm s
  | [] => rfl
  | c :: s => by
    simp only [upcaseCp]
    rw [upcaseCp_append, h.idem c, upcaseCp_idem cm h s]

theorem upcaseCp_scalar (cm : CaseMap) (h : LawfulUpper cm) : (s : List Nat) →
    (∀ c ∈ s, isScalar c = true) → ∀ d ∈ upcaseCp cm s, isScalar d = true
  | [], _ => by simp [upcaseCp]
  | c :: s, hs => by
    intro d hd
    simp only [upcaseCp, List.mem_append] at hd
    rcases hd with hd | hd
    · exact h.scalar c (hs c (by simp)) d hd
    · exact upcaseCp_scalar cm h s (fun x hx => hs x (by simp [hx])) d hd

/-- every char is a fixed point of lower-casing and is not `Σ`. -/
def Low (cm : CaseMap) (s : List Nat) : Prop := ∀ d ∈ s, d ≠ capSigma ∧ cm.toLower d = [d]

theorem downcaseGo_low (cm : CaseMap) : (s before : List Nat) → Low cm s → downcaseGo cm before s = s
  | [], _, _ => rfl
  | c :: s, before, h => by
    have hc := h c (by simp)
    have ih := downcaseGo_low cm s (c :: before) (fun d hd => h d (by simp [hd]))
    simp [downcaseGo, hc.1, hc.2, ih]

theorem low_downcaseGo (cm : CaseMap) (h : LawfulLower cm) : (s before : List Nat) →
    Low cm (downcaseGo cm before s)
  | [], _ => by simp [downcaseGo, Low]
  | c :: s, before => by
    intro d hd
    simp only [downcaseGo, List.mem_append] at hd
    rcases hd with hd | hd
    · by_cases hc : c = capSigma
      · simp only [hc, if_true, List.mem_singleton] at hd
        split at hd
        · subst hd; exact ⟨by decide, h.final⟩
        · subst hd; exact ⟨by decide, h.small⟩
      · simp only [hc, if_false] at hd
        exact h.fixed c hc d hd
    · exact low_downcaseGo cm h s (c :: before) d hd

theorem downcaseCp_idem (cm : CaseMap) (h : LawfulLower cm) (s : List Nat) :
    downcaseCp cm (downcaseCp cm s) = downcaseCp cm s :=
  downcaseGo_low cm _ [] (low_downcaseGo cm h s [])

theorem downcaseGo_scalar (cm : CaseMap) (h : LawfulLower cm) : (s before : List Nat) →
    (∀ c ∈ s, isScalar c = true) → ∀ d ∈ downcaseGo cm before s, isScalar d = true
  | [], _, _ => by simp [downcaseGo]
  | c :: s, before, hs => by
    intro d hd
    simp only [downcaseGo, List.mem_append] at hd
    rcases hd with hd | hd
    · by_cases hc : c = capSigma
      · simp only [hc, if_true, List.mem_singleton] at hd
        split at hd <;> (subst hd; decide)
      · simp only [hc, if_false] at hd
        exact h.scalar c (hs c (by simp)) d hd
    · exact downcaseGo_scalar cm h s (c :: before) (fun x hx => hs x (by simp [hx])) d hd

/-! ### ASCII instance is lawful -/

theorem ascii_lawfulUpper : LawfulUpper CaseMap.ascii where
  idem c := by
    simp only [CaseMap.ascii, upcaseCp, List.append_nil, List.cons.injEq, and_true]
    unfold asciiUpper; repeat' split
    all_goals omega
  scalar c hc d hd := by
    simp only [CaseMap.ascii, List.mem_singleton] at hd
    subst hd
    rw [isScalar_iff] at *
    unfold asciiUpper; split <;> omega

theorem ascii_lawfulLower : LawfulLower CaseMap.ascii where
  fixed c hc d hd := by
    simp only [CaseMap.ascii, List.mem_singleton] at hd
    subst hd
    simp only [CaseMap.ascii, capSigma, List.cons.injEq, and_true] at *
    unfold asciiLower; constructor
    · split <;> omega
    · repeat' split
      all_goals omega
  small := by decide
  final := by decide
  scalar c hc d hd := by
    simp only [CaseMap.ascii, List.mem_singleton] at hd
    subst hd
    rw [isScalar_iff] at *
    unfold asciiLower; split <;> omega

/-! ### trim -/

theorem drop_takeWhile_length {α : Type} (p : α → Bool) : (s : List α) →
    s.drop (s.takeWhile p).length = s.dropWhile p
  | [] => rfl
  | c :: s => by
    by_cases h : p c <;> simp [List.takeWhile, List.dropWhile, h, drop_takeWhile_length p s]

theorem all_takeWhile {α : Type} (p : α → Bool) : (s : List α) → (s.takeWhile p).all p = true
  | [] => rfl
  | c :: s => by
    by_cases h : p c <;> simp [List.takeWhile, h, all_takeWhile p s]

theorem specTrim_trimCp (s : List Nat) : C28.specTrim s (trimCp s) = true := by
  unfold C28.specTrim trimCp dropWs
  simp only [drop_takeWhile_length]
  have hhead := List.head?_dropWhile_not isWhitespace s
  generalize s.dropWhile isWhitespace = t at *
  have hlast := List.head?_dropWhile_not isWhitespace t.reverse
  have ht : t = (t.reverse.dropWhile isWhitespace).reverse ++ (t.reverse.takeWhile isWhitespace).reverse := by
    rw [← List.reverse_append, List.takeWhile_append_dropWhile, List.reverse_reverse]
  have hw : ((t.reverse.takeWhile isWhitespace).reverse).all isWhitespace = true := by
    rw [List.all_reverse]; exact all_takeWhile _ _
  generalize (t.reverse.dropWhile isWhitespace) = r' at *
  generalize (t.reverse.takeWhile isWhitespace).reverse = w at *
  subst ht
  simp only [Bool.and_eq_true]
  refine ⟨⟨⟨?_, ?_⟩, ?_⟩, ?_⟩
  · exact List.isPrefixOf_iff_prefix.mpr (List.prefix_append _ _)
  · simpa using hw
  · cases hr : r'.reverse with
    | nil => simp
    | cons a as =>
      simp only [hr, List.cons_append, List.head?_cons] at hhead ⊢
      simp [hhead]
  · rw [List.getLast?_reverse]
    cases hr : r'.head? with
    | none => simp
    | some a => simp only [hr] at hlast; simp [hlast]

/-! ### split / join -/

theorem splitGo_ne_nil (pat : List Nat) : (s : List Nat) → (n k : Nat) → (cur : List Nat) →
    splitGo pat n k cur s ≠ []
  | [], _, _, _ => by simp [splitGo]
  | _ :: rest, n, k + 1, cur => by
    simp only [splitGo]; exact splitGo_ne_nil pat rest n k cur
  | c :: rest, n, 0, cur => by
    simp only [splitGo]; split
    · simp
    · exact splitGo_ne_nil pat rest n 0 (c :: cur)

theorem joinCp_cons (sep x : List Nat) : (rest : List (List Nat)) → rest ≠ [] →
    joinCp sep (x :: rest) = x ++ sep ++ joinCp sep rest
  | [], h => absurd rfl h
  | _ :: _, _ => rfl

theorem join_splitGo (pat : List Nat) (hp : pat ≠ []) : (s : List Nat) → (n k : Nat) → (cur : List Nat) →
    k ≤ s.length → joinCp pat (splitGo pat n k cur s) = cur.reverse ++ s.drop k
  | [], _, _, _, _ => by simp [splitGo, joinCp]
  | c :: rest, n, k + 1, cur, hk => by
    simp only [splitGo, List.drop_succ_cons]
    exact join_splitGo pat hp rest n k cur (by simp at hk; omega)
  | c :: rest, n, 0, cur, _ => by
    simp only [splitGo]
    split
    · rename_i h
      obtain ⟨t, ht⟩ := List.isPrefixOf_iff_prefix.mp h.2
      cases pat with
      | nil => exact absurd rfl hp
      | cons p ps =>
        simp only [List.cons_append, List.cons.injEq] at ht
        obtain ⟨rfl, rfl⟩ := ht
        rw [joinCp_cons _ _ _ (splitGo_ne_nil _ _ _ _ _),
          join_splitGo (p :: ps) hp (ps ++ t) (n - 1) ((p :: ps).length - 1) [] (by simp)]
        simp
    · rw [join_splitGo pat hp rest n 0 (c :: cur) (by simp)]
      simp

theorem charsN_ne_nil : (s : List Nat) → (k : Nat) → charsN k s ≠ []
  | [], _ => by simp [charsN]
  | _ :: _, k => by simp only [charsN]; split <;> simp

theorem join_charsN : (s : List Nat) → (k : Nat) → joinCp [] (charsN k s) = s
  | [], _ => rfl
  | c :: rest, k => by
    simp only [charsN]
    split
    · rfl
    · rw [joinCp_cons _ _ _ (charsN_ne_nil _ _), join_charsN rest (k - 1)]; simp

/-- `join(split(s, d, limit: n), d) = s` on the chars view, for every delimiter (the empty one
    included) and every limit `n ≥ 1`. -/
theorem join_splitCp (n : Nat) (hn : 1 ≤ n) (pat s : List Nat) : joinCp pat (splitCp n pat s) = s := by
  unfold splitCp
  have h0 : n ≠ 0 := by omega
  simp only [h0, if_false]
  split
  · rename_i hp; subst hp
    split
    · rfl
    · rw [joinCp_cons _ _ _ (charsN_ne_nil _ _), join_charsN]; simp
  · rename_i hp
    rw [join_splitGo pat hp s n 0 [] (by simp)]; simp

theorem mem_joinCp (sep : List Nat) : (ps : List (List Nat)) → (p : List Nat) → p ∈ ps →
    ∀ c ∈ p, c ∈ joinCp sep ps
  | [x], p, hp, c, hc => by simp at hp; subst hp; simpa [joinCp]
  | x :: y :: rest, p, hp, c, hc => by
    simp only [joinCp, List.mem_append]
    rcases List.mem_cons.mp hp with rfl | hp
    · exact Or.inl (Or.inl hc)
    · exact Or.inr (mem_joinCp sep (y :: rest) p hp c hc)

theorem itemsCp_bytesArr : (ps : List (List Nat)) → (∀ p ∈ ps, ∀ c ∈ p, isScalar c = true) →
    itemsCp (bytesArr ps) = some ps
  | [], _ => rfl
  | p :: ps, h => by
    simp only [bytesArr, itemsCp]
    rw [itemsCp_bytesArr ps (fun q hq => h q (by simp [hq])), decode_encode p (h p (by simp))]
    rfl

/-! ### prefix / suffix / infix as substring positions -/

theorem isPrefixOf_eq_subAt (s v : List Nat) : s.isPrefixOf v = C28.subAt v s 0 := by
  rw [Bool.eq_iff_iff, List.isPrefixOf_iff_prefix, List.prefix_iff_eq_take]
  simp only [C28.subAt, Nat.zero_add, List.drop_zero, Bool.and_eq_true, decide_eq_true_eq, beq_iff_eq]
  constructor
  · intro h
    refine ⟨?_, h.symm⟩
    have := congrArg List.length h
    simp at this; omega
  · intro h; exact h.2.symm

theorem isSuffixOf_eq_subAt (s v : List Nat) : s.isSuffixOf v = C28.subAt v s (v.length - s.length) := by
  rw [Bool.eq_iff_iff, List.isSuffixOf_iff_suffix, List.suffix_iff_eq_drop]
  simp only [C28.subAt, Bool.and_eq_true, decide_eq_true_eq, beq_iff_eq]
  constructor
  · intro h
    have hl := congrArg List.length h
    simp at hl
    refine ⟨by omega, ?_⟩
    rw [← h]; simp
  · intro h
    have hl : (List.drop (v.length - s.length) v).length = s.length := by simp; omega
    have h2 := h.2
    have : List.take s.length (List.drop (v.length - s.length) v) = List.drop (v.length - s.length) v := by
      exact List.take_of_length_le (by omega)
    rw [this] at h2
    exact h2.symm

theorem subAt_cons (c : Nat) (rest needle : List Nat) (i : Nat) :
    C28.subAt (c :: rest) needle (i + 1) = C28.subAt rest needle i := by
  simp only [C28.subAt, List.length_cons, List.drop_succ_cons]
  congr 1
  simp; omega

theorem containsCp_eq (needle : List Nat) : (hay : List Nat) →
    containsCp needle hay = (List.range (hay.length + 1)).any (C28.subAt hay needle)
  | [] => by
    cases needle <;> simp [containsCp, C28.subAt, List.range_succ_eq_map]
  | c :: rest => by
    rw [containsCp, containsCp_eq needle rest, List.length_cons, List.range_succ_eq_map (n := rest.length + 1),
      List.any_cons, List.any_map, isPrefixOf_eq_subAt]
    congr 2
    funext a
    exact (subAt_cons c rest needle a).symm

end Str
