import VrlProofs.Lemmas.KindSuperset

/-! The converse of `mem_of_superset_kindOf`: a member `v` of `K` makes `K.is_superset(Kind::from(v))`
    answer `Ok` – for well-formed kinds (`Kind.WF`: array slots hold index keys, keys strictly
    increasing) whose `Infinite` unknowns are all `any` (otherwise finding `D_superset_inf_vs_exact`). -/

namespace KList

theorem get_of_entry_sorted : (m : KList) → m.SortedKeys = true → ∀ (f : Key → Kind → Bool),
    (∀ k v, m.get k = some v → f k v = true) → m.all f = true
  | .nil, _, _, _ => rfl
  | .cons k v m, hs, f, h => by
    simp only [SortedKeys, Bool.and_eq_true] at hs
    simp only [all, Bool.and_eq_true]
    refine ⟨h k v (by simp [get]), get_of_entry_sorted m hs.2 f ?_⟩
    intro q w hq
    apply h q w
    have hne : k ≠ q := by
      intro e; subst e
      rw [get_none_of_allGt m k hs.1] at hq; cases hq
    simp [get, hne, hq]

theorem wf_get (isArr : Bool) : (m : KList) → (q : Key) → (K : Kind) → m.WF isArr = true →
    m.get q = some K → K.WF = true ∧ (isArr = true → q.isIdx = true)
  | .nil, _, _, _, h => by simp [get] at h
  | .cons k v m, q, K, hw, h => by
    simp only [KList.WF, Bool.and_eq_true, Bool.or_eq_true, Bool.not_eq_true'] at hw
    simp only [get] at h
    split at h
    · rename_i hk; subst hk; cases h
      refine ⟨hw.1.2, ?_⟩
      intro ha; rcases hw.1.1 with h1 | h1
      · rw [ha] at h1; cases h1
      · exact h1
    · exact wf_get isArr m q K hw.2 h

end KList

theorem Unknown.wf_toKind (u : Unknown) (h : u.WF = true) : u.toKind.WF = true := by
  cases u with
  | exact k =>
    cases k with
    | mk p a o =>
      simpa [Unknown.toKind, Unknown.toExistingKind, Kind.withoutUndefined, Kind.orUndefined,
        Unknown.WF, Kind.WF] using h
  | infinite i =>
    simp only [Unknown.toKind, Unknown.toExistingKind, Kind.ofInf, Kind.withoutUndefined,
      Kind.orUndefined, Kind.WF]
    cases i.array <;> cases i.object <;>
      simp [OCol.WF, Col.WF, KList.WF, KList.SortedKeys, Unknown.WF]

namespace Spec

theorem isSupersetF_never (n : Nat) (k : Kind) :
    Kind.isSupersetF (n + 1) k (.mk {} .none .none) = true := by
  cases k with
  | mk p a o =>
    simp only [Kind.isSupersetF, OCol.isSupersetWith, Bool.and_true]
    cases a <;> cases o <;> simp [Prim.sup]

theorem isSupersetF_undefined (n : Nat) (k : Kind) (h : k.prim.undefined = true) :
    Kind.isSupersetF (n + 1) k Kind.undefined = true := by
  cases k with
  | mk p a o =>
    simp only [Kind.prim] at h
    simp only [Kind.isSupersetF, Kind.undefined, OCol.isSupersetWith]
    cases a <;> cases o <;> simp [Prim.sup, h]

/-- the unknown of `K`'s collection is a superset of `Exact(undefined)`, the unknown of every
    `Kind::from(value)` collection. -/
theorem unknown_sup_undefined (n : Nat) (u : Unknown) (hi : u.hasNonAnyInf = false) :
    Unknown.isSupersetWith (Kind.isSupersetF (n + 1)) u (Unknown.ofKind Kind.undefined) = true := by
  have : Unknown.ofKind Kind.undefined = .exact Kind.undefined := by decide
  rw [this]
  cases u with
  | infinite i =>
    simp only [Unknown.hasNonAnyInf, Bool.not_eq_eq_eq_not, Bool.not_false] at hi
    simp [Unknown.isSupersetWith, hi]
  | exact l =>
    simp only [Unknown.isSupersetWith]
    exact isSupersetF_never n _

/-- invariants of the kind side. -/
def Good (K : Kind) : Prop := K.hasNonAnyInf = false ∧ K.WF = true

theorem good_col {p : Prim} {a o : OCol} (h : Good (.mk p a o)) :
    (∀ k u, a = .some (.mk k u) → k.hasNonAnyInf = false ∧ u.hasNonAnyInf = false ∧
      k.WF true = true ∧ k.SortedKeys = true ∧ u.WF = true) ∧
    (∀ k u, o = .some (.mk k u) → k.hasNonAnyInf = false ∧ u.hasNonAnyInf = false ∧
      k.WF false = true ∧ k.SortedKeys = true ∧ u.WF = true) := by
  obtain ⟨hi, hw⟩ := h
  obtain ⟨ia, io⟩ := kind_infAny hi
  simp only [Kind.WF, Bool.and_eq_true] at hw
  constructor
  · intro k u ha; subst ha
    obtain ⟨ik, iu⟩ := col_infAny ia
    have := hw.1
    simp only [OCol.WF, Col.WF, Bool.and_eq_true] at this
    exact ⟨ik, iu, this.1.1, this.1.2, this.2⟩
  · intro k u ho; subst ho
    obtain ⟨ik, iu⟩ := col_infAny io
    have := hw.2
    simp only [OCol.WF, Col.WF, Bool.and_eq_true] at this
    exact ⟨ik, iu, this.1.1, this.1.2, this.2⟩

theorem good_toKind (u : Unknown) (hi : u.hasNonAnyInf = false) (hw : u.WF = true) : Good u.toKind :=
  ⟨Unknown.infAny_toKind u hi, Unknown.wf_toKind u hw⟩

theorem depth_kindsFrom_le : (xs : VList) → (i j : Nat) → (x : Value) → xs.getN j = some x →
    x.kindOf.depth ≤ (VList.kindsFrom xs i).depth
  | .nil, _, _, _, h => by simp [VList.getN] at h
  | .cons y ys, i, 0, x, h => by
    simp only [VList.getN, Option.some.injEq] at h; subst h
    simp only [VList.kindsFrom, KList.depth]; omega
  | .cons y ys, i, j + 1, x, h => by
    simp only [VList.getN] at h
    have := depth_kindsFrom_le ys (i + 1) j x h
    simp only [VList.kindsFrom, KList.depth]; omega

mutual
  /-- **membership implies the subtype test** (fuel `n` above the depth of `Kind::from(v)`). -/
  theorem superset_of_mem : (v : Value) → (n : Nat) → (K : Kind) → v.kindOf.depth + 1 ≤ n →
      mem v K = true → Good K → Kind.isSupersetF n K v.kindOf = true
    | .null, n + 1, .mk p a o, _, h, _ => by
      simp only [mem, Kind.prim] at h
      cases a <;> cases o <;> simp [Value.kindOf, Kind.null, Kind.isSupersetF, OCol.isSupersetWith, Prim.sup, h]
    | .bool _, n + 1, .mk p a o, _, h, _ => by
      simp only [mem, Kind.prim] at h
      cases a <;> cases o <;> simp [Value.kindOf, Kind.boolean, Kind.isSupersetF, OCol.isSupersetWith, Prim.sup, h]
    | .int _, n + 1, .mk p a o, _, h, _ => by
      simp only [mem, Kind.prim] at h
      cases a <;> cases o <;> simp [Value.kindOf, Kind.integer, Kind.isSupersetF, OCol.isSupersetWith, Prim.sup, h]
    | .float _, n + 1, .mk p a o, _, h, _ => by
      simp only [mem, Kind.prim] at h
      cases a <;> cases o <;> simp [Value.kindOf, Kind.float, Kind.isSupersetF, OCol.isSupersetWith, Prim.sup, h]
    | .bytes _, n + 1, .mk p a o, _, h, _ => by
      simp only [mem, Kind.prim] at h
      cases a <;> cases o <;> simp [Value.kindOf, Kind.bytes, Kind.isSupersetF, OCol.isSupersetWith, Prim.sup, h]
    | .ts _, n + 1, .mk p a o, _, h, _ => by
      simp only [mem, Kind.prim] at h
      cases a <;> cases o <;> simp [Value.kindOf, Kind.timestamp, Kind.isSupersetF, OCol.isSupersetWith, Prim.sup, h]
    | .regex _, n + 1, .mk p a o, _, h, _ => by
      simp only [mem, Kind.prim] at h
      cases a <;> cases o <;> simp [Value.kindOf, Kind.regex, Kind.isSupersetF, OCol.isSupersetWith, Prim.sup, h]
    | .arr xs, n + 1, .mk p a o, hn, h, hg => by
      rw [mem_arr_mk] at h
      cases a with
      | none => simp at h
      | some c1 =>
        cases c1 with
        | mk k1 u1 =>
        simp only [Bool.and_eq_true] at h
        obtain ⟨ik, iu, wk, sk, wu⟩ := (good_col hg).1 k1 u1 rfl
        have hd : (VList.kindsFrom xs 0).depth + 1 ≤ n := by
          simp only [Value.kindOf, Kind.ofArray, Kind.depth, OCol.depth, Col.ofKnown, Col.depth] at hn
          have : Unknown.ofKind Kind.undefined = .exact Kind.undefined := by decide
          rw [this] at hn
          simp only [Unknown.depth, Kind.undefined, Kind.depth, OCol.depth] at hn
          omega
        obtain ⟨n', rfl⟩ : ∃ n', n = n' + 1 := ⟨n - 1, by omega⟩
        have e1 : p.sup {} = true := by simp [Prim.sup]
        have e2 : OCol.isSupersetWith (Kind.isSupersetF (n' + 1)) o .none = true := by cases o <;> rfl
        have e3 : Col.isSupersetWith (Kind.isSupersetF (n' + 1)) (.mk k1 u1)
            (.mk (VList.kindsFrom xs 0) (Unknown.ofKind Kind.undefined)) = true := by
          simp only [Col.isSupersetWith, Col.known, Col.unknown, Col.unknownKind, Bool.and_eq_true]
          refine ⟨⟨unknown_sup_undefined n' u1 iu, ?_⟩, ?_⟩
          · -- every element kind is below its slot
            exact kinds_all_list xs 0 (n' + 1) k1 u1 (fun j x hj => by
              have := depth_kindsFrom_le xs 0 j x hj; omega) h.1 ik iu wk wu
          · -- known entries of `K` not among the value's indices admit `undefined`
            apply KList.get_of_entry_sorted k1 sk
            intro key sK hk
            have habs := (absentIdxOk_iff xs.length k1).mp h.2 key sK hk
            obtain ⟨_, hidx⟩ := KList.wf_get true k1 key sK wk hk
            have hidx := hidx rfl
            have hkey : key = Key.ofIdx key.idx := by
              unfold Key.isIdx at hidx
              split at hidx
              · rfl
              · cases hidx
            by_cases hl : key.idx < xs.length
            · obtain ⟨x, hx⟩ := getN_some_of_lt xs key.idx hl
              have hg2 := kindsFrom_get xs 0 key.idx
              rw [Nat.zero_add, hx, ← hkey] at hg2
              simp [KList.contains, hg2]
            · have hu := habs (Nat.not_lt.mp hl)
              have : (Unknown.ofKind Kind.undefined).toKind = Kind.undefined := by decide
              rw [this, isSupersetF_undefined n' sK hu]; simp
        simp only [Value.kindOf, Kind.ofArray, Kind.isSupersetF, OCol.isSupersetWith, Col.ofKnown, e1, e2, e3,
          Bool.and_self]
    | .obj m, n + 1, .mk p a o, hn, h, hg => by
      rw [mem_obj_mk] at h
      cases o with
      | none => simp at h
      | some c1 =>
        cases c1 with
        | mk k1 u1 =>
        simp only [Bool.and_eq_true] at h
        obtain ⟨ik, iu, wk, sk, wu⟩ := (good_col hg).2 k1 u1 rfl
        have hd : (VMap.kinds m).depth + 1 ≤ n := by
          simp only [Value.kindOf, Kind.ofObject, Kind.depth, OCol.depth, Col.ofKnown, Col.depth] at hn
          have : Unknown.ofKind Kind.undefined = .exact Kind.undefined := by decide
          rw [this] at hn
          simp only [Unknown.depth, Kind.undefined, Kind.depth, OCol.depth] at hn
          omega
        obtain ⟨n', rfl⟩ : ∃ n', n = n' + 1 := ⟨n - 1, by omega⟩
        have e1 : p.sup {} = true := by simp [Prim.sup]
        have e2 : OCol.isSupersetWith (Kind.isSupersetF (n' + 1)) a .none = true := by cases a <;> rfl
        have e3 : Col.isSupersetWith (Kind.isSupersetF (n' + 1)) (.mk k1 u1)
            (.mk (VMap.kinds m) (Unknown.ofKind Kind.undefined)) = true := by
          simp only [Col.isSupersetWith, Col.known, Col.unknown, Col.unknownKind, Bool.and_eq_true]
          refine ⟨⟨unknown_sup_undefined n' u1 iu, ?_⟩, ?_⟩
          · exact kinds_all_map m (n' + 1) k1 u1 hd h.1 ik iu wk wu
          · apply KList.get_of_entry_sorted k1 sk
            intro key sK hk
            have habs := (absentKeysOk_iff m k1).mp h.2 key sK hk
            cases hm : m.get key with
            | some x => simp [KList.contains, kinds_get m key, hm]
            | none =>
              have hu := habs hm
              have : (Unknown.ofKind Kind.undefined).toKind = Kind.undefined := by decide
              rw [this, isSupersetF_undefined n' sK hu]; simp
        simp only [Value.kindOf, Kind.ofObject, Kind.isSupersetF, OCol.isSupersetWith, Col.ofKnown, e1, e2, e3,
          Bool.and_self]
  theorem kinds_all_list : (xs : VList) → (i n : Nat) → (k1 : KList) → (u1 : Unknown) →
      (∀ j x, xs.getN j = some x → x.kindOf.depth + 1 ≤ n) → memList xs i (.mk k1 u1) = true →
      k1.hasNonAnyInf = false → u1.hasNonAnyInf = false → k1.WF true = true → u1.WF = true →
      (VList.kindsFrom xs i).all (fun key ok =>
        match k1.get key with
        | some sk => Kind.isSupersetF n sk ok
        | none => Kind.isSupersetF n u1.toKind ok) = true
    | .nil, _, _, _, _, _, _, _, _, _, _ => rfl
    | .cons x xs, i, n, k1, u1, hd, hm, ik, iu, wk, wu => by
      simp only [memList, Bool.and_eq_true] at hm
      simp only [VList.kindsFrom, KList.all, Bool.and_eq_true]
      refine ⟨?_, kinds_all_list xs (i + 1) n k1 u1 (fun j y hj => hd (j + 1) y (by simpa [VList.getN] using hj))
        hm.2 ik iu wk wu⟩
      have hx := hm.1
      have hdx := hd 0 x rfl
      rw [slotKind_mk] at hx
      cases hk : k1.get (Key.ofIdx i) with
      | some sK =>
        rw [hk] at hx
        exact superset_of_mem x n sK hdx hx
          ⟨KList.infAny_get k1 _ sK ik hk, (KList.wf_get true k1 _ sK wk hk).1⟩
      | none =>
        rw [hk] at hx
        exact superset_of_mem x n u1.toKind hdx (by rw [mem_unknown_toKind]; exact hx) (good_toKind u1 iu wu)
  theorem kinds_all_map : (m : VMap) → (n : Nat) → (k1 : KList) → (u1 : Unknown) →
      (VMap.kinds m).depth + 1 ≤ n → memMap m (.mk k1 u1) = true →
      k1.hasNonAnyInf = false → u1.hasNonAnyInf = false → k1.WF false = true → u1.WF = true →
      (VMap.kinds m).all (fun key ok =>
        match k1.get key with
        | some sk => Kind.isSupersetF n sk ok
        | none => Kind.isSupersetF n u1.toKind ok) = true
    | .nil, _, _, _, _, _, _, _, _, _ => rfl
    | .cons k x m, n, k1, u1, hd, hm, ik, iu, wk, wu => by
      simp only [memMap, Bool.and_eq_true] at hm
      simp only [VMap.kinds, KList.depth] at hd
      simp only [VMap.kinds, KList.all, Bool.and_eq_true]
      refine ⟨?_, kinds_all_map m n k1 u1 (by omega) hm.2 ik iu wk wu⟩
      have hx := hm.1
      have hdx : x.kindOf.depth + 1 ≤ n := by omega
      rw [slotKind_mk] at hx
      cases hk : k1.get k with
      | some sK =>
        rw [hk] at hx
        exact superset_of_mem x n sK hdx hx
          ⟨KList.infAny_get k1 _ sK ik hk, (KList.wf_get false k1 _ sK wk hk).1⟩
      | none =>
        rw [hk] at hx
        exact superset_of_mem x n u1.toKind hdx (by rw [mem_unknown_toKind]; exact hx) (good_toKind u1 iu wu)
end

end Spec
