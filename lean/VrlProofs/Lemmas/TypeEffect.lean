import VrlProofs.Lemmas.TypeState

/-! Effect-free expressions (`Lang.effectFree`): evaluating one changes nothing `Conforms` looks at,
    whatever the outcome (in particular when it fails half-way); and its `type_info` leaves a
    conforming state conforming. Used for the operand of `??` / `ok, err =` (whose failure is
    handled, after which the program continues in the state the failed operand left) -/

namespace Lang

theorem same_flags (s : St) (a b c d e : Bool) :
    St.Same s { s with evRet := a, evAbort := b, evClosure := c, evCatch := d, evShort := e } :=
  ⟨rfl, rfl, rfl, rfl⟩

theorem same_targetGet (s : St) (m : Bool) (p : Path) : St.Same s (s.targetGet m p).2 := by
  unfold St.targetGet St.tick
  simp only
  split <;> exact ⟨rfl, rfl, rfl, rfl⟩

mutual
  theorem effectFree_same : (e : Expr) → effectFree e = true → ∀ s, St.Same s (eval e s).2
    | .lit _, _, s => by rw [eval]; exact St.Same.refl s
    | .noop, _, s => by rw [eval]; exact St.Same.refl s
    | .var _, _, s => by rw [eval]; exact St.Same.refl s
    | .qvar _ _, _, s => by rw [eval]; exact St.Same.refl s
    | .existsVar _ _, _, s => by rw [eval]; split <;> exact St.Same.refl s
    | .qext m p, _, s => by
      rw [eval]
      have := same_targetGet s m p
      cases h : s.targetGet m p with | mk r s1 => rw [h] at this; exact this
    | .existsExt m p, _, s => by
      rw [eval]
      have := same_targetGet s m p
      cases h : s.targetGet m p with | mk r s1 => rw [h] at this; exact this
    | .grp e, h, s => by
      rw [eval]; exact effectFree_same e (by simpa [effectFree] using h) s
    | .not e, h, s => by
      have := effectFree_same e (by simpa [effectFree] using h) s
      rw [eval]
      cases hq : eval e s with
      | mk r s1 => rw [hq] at this; cases r <;> try exact this
                   rename_i v; cases v <;> exact this
    | .qexpr e p, h, s => by
      have := effectFree_same e (by simpa [effectFree] using h) s
      rw [eval]
      cases hq : eval e s with | mk r s1 => rw [hq] at this; cases r <;> exact this
    | .existsExpr e p, h, s => by
      have := effectFree_same e (by simpa [effectFree] using h) s
      rw [eval]
      cases hq : eval e s with | mk r s1 => rw [hq] at this; cases r <;> exact this
    | .arr es, h, s => by
      have := effectFreeS_same es (by simpa [effectFree] using h) s
      rw [eval]
      cases hq : evalList es s with | mk r s1 => rw [hq] at this; cases r <;> exact this
    | .obj kvs, h, s => by
      have := effectFreeK_same kvs (by simpa [effectFree] using h) s
      rw [eval]
      cases hq : evalKVs kvs s with | mk r s1 => rw [hq] at this; cases r <;> exact this
    | .op o l r, h, s => by
      simp only [effectFree, Bool.and_eq_true] at h
      cases o with
      | err =>
        have h1 := effectFree_same l h.1 { s with evCatch := true }
        rw [eval]
        cases hq : eval l { s with evCatch := true } with
        | mk r1 s1 =>
          rw [hq] at h1
          have h1' : St.Same s s1 := St.Same.trans ⟨rfl, rfl, rfl, rfl⟩ h1
          cases r1 with
          | err => exact St.Same.trans h1' (effectFree_same r h.2 s1)
          | _ => exact h1'
      | or =>
        have h1 := effectFree_same l h.1 { s with evShort := true }
        rw [eval]
        cases hq : eval l { s with evShort := true } with
        | mk r1 s1 =>
          rw [hq] at h1
          have h1' : St.Same s s1 := St.Same.trans ⟨rfl, rfl, rfl, rfl⟩ h1
          have h2 := effectFree_same r h.2 s1
          cases r1 with
          | ok v =>
            cases v with
            | null =>
              simp only
              cases hq2 : eval r s1 with | mk r2 s2 => rw [hq2] at h2; cases r2 <;> exact St.Same.trans h1' h2
            | bool b =>
              cases b with
              | false =>
                simp only
                cases hq2 : eval r s1 with | mk r2 s2 => rw [hq2] at h2; cases r2 <;> exact St.Same.trans h1' h2
              | true => exact h1'
            | _ => exact h1'
          | _ => exact h1'
      | and =>
        have h1 := effectFree_same l h.1 { s with evShort := true }
        rw [eval]
        cases hq : eval l { s with evShort := true } with
        | mk r1 s1 =>
          rw [hq] at h1
          have h1' : St.Same s s1 := St.Same.trans ⟨rfl, rfl, rfl, rfl⟩ h1
          have h2 := effectFree_same r h.2 s1
          cases r1 with
          | ok v =>
            cases v with
            | null => exact h1'
            | bool b =>
              cases b with
              | false => exact h1'
              | true =>
                simp only
                cases hq2 : eval r s1 with | mk r2 s2 => rw [hq2] at h2; cases r2 <;> exact St.Same.trans h1' h2
            | _ =>
              simp only
              cases hq2 : eval r s1 with | mk r2 s2 => rw [hq2] at h2; cases r2 <;> exact St.Same.trans h1' h2
          | _ => exact h1'
      | _ =>
        have h1 := effectFree_same l h.1 s
        rw [eval]
        · cases hq : eval l s with
          | mk r1 s1 =>
            rw [hq] at h1
            cases r1 with
            | ok v =>
              have h2 := effectFree_same r h.2 s1
              simp only
              cases hq2 : eval r s1 with | mk r2 s2 => rw [hq2] at h2; cases r2 <;> exact St.Same.trans h1 h2
            | _ => exact h1
        all_goals (intro hc; cases hc)
    | .blk _, h, _ => by simp [effectFree] at h
    | .ifte _ _ _ _, h, _ => by simp [effectFree] at h
    | .asg _ _, h, _ => by simp [effectFree] at h
    | .iasg _ _ _ _, h, _ => by simp [effectFree] at h
    | .abort _ _, h, _ => by simp [effectFree] at h
    | .ret _, h, _ => by simp [effectFree] at h
    | .delExt _ _ _ _, h, _ => by simp [effectFree] at h
    | .delVar _ _ _ _, h, _ => by simp [effectFree] at h
    | .delExpr _ _ _ _, h, _ => by simp [effectFree] at h
    | .call _ _ _ _ _ _ _, h, _ => by simp [effectFree] at h

  theorem effectFreeS_same : (es : Exprs) → effectFreeS es = true → ∀ s, St.Same s (evalList es s).2
    | .nil, _, s => by rw [evalList]; exact St.Same.refl s
    | .cons e es, h, s => by
      simp only [effectFreeS, Bool.and_eq_true] at h
      have h1 := effectFree_same e h.1 s
      rw [evalList]
      cases hq : eval e s with
      | mk r1 s1 =>
        rw [hq] at h1
        cases r1 with
        | ok v =>
          have h2 := effectFreeS_same es h.2 s1
          simp only
          cases hq2 : evalList es s1 with | mk r2 s2 => rw [hq2] at h2; cases r2 <;> exact St.Same.trans h1 h2
        | _ => exact h1

  theorem effectFreeK_same : (kvs : KExprs) → effectFreeK kvs = true → ∀ s, St.Same s (evalKVs kvs s).2
    | .nil, _, s => by rw [evalKVs]; exact St.Same.refl s
    | .cons k e kes, h, s => by
      simp only [effectFreeK, Bool.and_eq_true] at h
      have h1 := effectFree_same e h.1 s
      rw [evalKVs]
      cases hq : eval e s with
      | mk r1 s1 =>
        rw [hq] at h1
        cases r1 with
        | ok v =>
          have h2 := effectFreeK_same kes h.2 s1
          simp only
          cases hq2 : evalKVs kes s1 with | mk r2 s2 => rw [hq2] at h2; cases r2 <;> exact St.Same.trans h1 h2
        | _ => exact h1
end

/-! ### static part -/

/-- the state `Op::type_info` reports conforms when both candidate states do -/
theorem opState_conforms {s : St} (o : Opcode) (l : TypeDef) (lv : Option Value) (T1 : TState)
    (r : TypeDef) (Tr : TState)
    (hchk : AllNan (opChecks o l lv T1 r Tr)) (h1 : Conforms s T1) (hr : Conforms s Tr) :
    Conforms s (opState o l lv T1 Tr) := by
  cases o
  case err =>
    simp only [opChecks, allNan_append] at hchk
    exact Conforms.merge_left (mergeOk_of_checks hchk.2) h1
  case or =>
    simp only [opState]
    split
    · exact hr
    · split
      · exact h1
      · rename_i c1 c2
        simp only [opChecks, c1, c2] at hchk
        simp only [Bool.false_eq_true, if_false, allNan_append] at hchk
        exact Conforms.merge_left (mergeOk_of_checks hchk.2) h1
  case and =>
    simp only [opState]
    split
    · exact h1
    · split
      · exact hr
      · rename_i c1 c2
        simp only [opChecks, c1, c2] at hchk
        simp only [Bool.false_eq_true, if_false, allNan_append] at hchk
        exact Conforms.merge_left (mergeOk_of_checks hchk.2) h1
  all_goals exact hr

mutual
  theorem effectFree_conforms {s : St} : (e : Expr) → effectFree e = true → (T : TState) →
      AllNan (checks e T) → Conforms s T → Conforms s (typeInfo e T).2
    | .lit _, _, T, _, hc => by rw [typeInfo]; exact hc
    | .noop, _, T, _, hc => by rw [typeInfo]; exact hc
    | .var _, _, T, _, hc => by rw [typeInfo]; exact hc
    | .qvar _ _, _, T, _, hc => by rw [typeInfo]; exact hc
    | .qext _ _, _, T, _, hc => by rw [typeInfo]; exact hc
    | .existsExt _ _, _, T, _, hc => by rw [typeInfo]; exact hc
    | .existsVar _ _, _, T, _, hc => by rw [typeInfo]; exact hc
    | .grp e, h, T, hk, hc => by
      rw [typeInfo]; rw [checks] at hk
      exact effectFree_conforms e (by simpa [effectFree] using h) T hk hc
    | .not e, h, T, hk, hc => by
      rw [typeInfo]; rw [checks] at hk
      exact effectFree_conforms e (by simpa [effectFree] using h) T (allNan_append.mp hk).1 hc
    | .qexpr e p, h, T, hk, hc => by
      rw [typeInfo]; rw [checks] at hk
      exact effectFree_conforms e (by simpa [effectFree] using h) T (allNan_append.mp hk).1 hc
    | .existsExpr e p, h, T, hk, hc => by
      rw [typeInfo]; rw [checks] at hk
      exact effectFree_conforms e (by simpa [effectFree] using h) T (allNan_append.mp (allNan_append.mp hk).1).1 hc
    | .arr es, h, T, hk, hc => by
      rw [typeInfo]; rw [checks] at hk
      exact effectFreeS_conforms es (by simpa [effectFree] using h) T {} hk hc
    | .obj kvs, h, T, hk, hc => by
      rw [typeInfo]; rw [checks] at hk
      exact effectFreeK_conforms kvs (by simpa [effectFree] using h) T {} (allNan_append.mp hk).2 hc
    | .op o l r, h, T, hk, hc => by
      simp only [effectFree, Bool.and_eq_true] at h
      rw [checks] at hk
      simp only [allNan_append] at hk
      obtain ⟨⟨⟨hk1, _⟩, hk2⟩, hk3⟩ := hk
      have c1 := effectFree_conforms l h.1 T hk1 hc
      have c2 := effectFree_conforms r h.2 _ hk2 c1
      rw [typeInfo]
      exact opState_conforms o _ _ _ _ _ hk3 c1 c2
    | .blk _, h, _, _, _ => by simp [effectFree] at h
    | .ifte _ _ _ _, h, _, _, _ => by simp [effectFree] at h
    | .asg _ _, h, _, _, _ => by simp [effectFree] at h
    | .iasg _ _ _ _, h, _, _, _ => by simp [effectFree] at h
    | .abort _ _, h, _, _, _ => by simp [effectFree] at h
    | .ret _, h, _, _, _ => by simp [effectFree] at h
    | .delExt _ _ _ _, h, _, _, _ => by simp [effectFree] at h
    | .delVar _ _ _ _, h, _, _, _ => by simp [effectFree] at h
    | .delExpr _ _ _ _, h, _, _, _ => by simp [effectFree] at h
    | .call _ _ _ _ _ _ _, h, _, _, _ => by simp [effectFree] at h

  theorem effectFreeS_conforms {s : St} : (es : Exprs) → effectFreeS es = true → (T : TState) →
      (acc : ArrAcc) → AllNan (checksArr es T acc) → Conforms s T → Conforms s (typeArr es T acc).2
    | .nil, _, T, acc, _, hc => by rw [typeArr]; exact hc
    | .cons e es, h, T, acc, hk, hc => by
      simp only [effectFreeS, Bool.and_eq_true] at h
      rw [checksArr] at hk
      simp only [allNan_append] at hk
      have c1 := effectFree_conforms e h.1 T hk.1.1 hc
      rw [typeArr]
      split
      · exact c1
      · exact effectFreeS_conforms es h.2 _ _ hk.2 c1

  theorem effectFreeK_conforms {s : St} : (kvs : KExprs) → effectFreeK kvs = true → (T : TState) →
      (acc : ObjAcc) → AllNan (checksObj kvs T acc) → Conforms s T → Conforms s (typeObj kvs T acc).2
    | .nil, _, T, acc, _, hc => by rw [typeObj]; exact hc
    | .cons k e kes, h, T, acc, hk, hc => by
      simp only [effectFreeK, Bool.and_eq_true] at h
      rw [checksObj] at hk
      simp only [allNan_append] at hk
      have c1 := effectFree_conforms e h.1 T hk.1.1 hc
      rw [typeObj]
      split
      · exact c1
      · exact effectFreeK_conforms kes h.2 _ _ hk.2 c1
end

end Lang
