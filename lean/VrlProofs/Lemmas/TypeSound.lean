import VrlProofs.Lemmas.TypeOps
import VrlProofs.Lemmas.TypeAssign
import VrlProofs.Lemmas.TypeEffect

/-! Soundness of the type inference for one evaluation step (C01 a/d, C02 b, C12 c), as an
    invariant `Sound` proved by structural recursion over the mutual `Expr`/`Exprs`/`KExprs`.
    The per-constructor arguments are separate lemmas parameterised by the induction hypotheses. -/

namespace Lang
open Spec

/-- what soundness says about the outcome of evaluating an expression typed `td` (state after: `T'`,
    constant: `c`, side conditions: `cs`):
    (a) a value is a result of the reported kind, a `return`ed value of the reported `returns`;
    (b) a run-time error only if typed fallible, or float arithmetic is involved (NaN);
    (c) a value equals the compile-time constant;
    (d) on success the new run-time state inhabits the new type state. -/
def Sound (td : TypeDef) (T' : TState) (c : Option Value) (cs : List Chk) : Res × St → Prop
  | (.ok v, s') =>
    memR v td.kind = true ∧ v.Sorted = true ∧ Conforms s' T' ∧ ∀ cv, c = some cv → v = cv
  | (.ret v, _) => memR v td.returns = true
  | (.err, _) => td.fallible = true ∨ Chk.nan ∈ cs
  | _ => True

/-- the induction hypothesis for a sub-expression -/
def IH (e : Expr) : Prop :=
  ∀ (T : TState) (s : St), AllNan (checks e T) → Conforms s T →
    Sound (typeInfo e T).1 (typeInfo e T).2 (constOf e T) (checks e T) (eval e s)

theorem Sound.mono_cs {td : TypeDef} {T' : TState} {c : Option Value} {cs cs' : List Chk}
    {out : Res × St} (h : Sound td T' c cs out) (hsub : ∀ x ∈ cs, x ∈ cs') : Sound td T' c cs' out := by
  obtain ⟨r, s⟩ := out
  cases r <;> simp only [Sound] at h ⊢ <;> try exact h
  rcases h with h | h
  · exact Or.inl h
  · exact Or.inr (hsub _ h)

/-! ### `resolve_constant` of the forms that have none -/

@[simp] theorem constOf_noop (T : TState) : constOf .noop T = none := by simp [constOf]
@[simp] theorem constOf_blk (es : Exprs) (T : TState) : constOf (.blk es) T = none := by simp [constOf]
@[simp] theorem constOf_ifte (p t : Exprs) (h : Bool) (e : Exprs) (T : TState) :
    constOf (.ifte p t h e) T = none := by simp [constOf]
@[simp] theorem constOf_asg (t : Tgt) (e : Expr) (T : TState) : constOf (.asg t e) T = none := by simp [constOf]
@[simp] theorem constOf_iasg (a b : Tgt) (e : Expr) (d : Value) (T : TState) :
    constOf (.iasg a b e d) T = none := by simp [constOf]
@[simp] theorem constOf_qext (m : Bool) (p : Path) (T : TState) : constOf (.qext m p) T = none := by simp [constOf]
@[simp] theorem constOf_qexpr (e : Expr) (p : Path) (T : TState) : constOf (.qexpr e p) T = none := by simp [constOf]
@[simp] theorem constOf_not (e : Expr) (T : TState) : constOf (.not e) T = none := by simp [constOf]
@[simp] theorem constOf_abort (h : Bool) (e : Expr) (T : TState) : constOf (.abort h e) T = none := by simp [constOf]
@[simp] theorem constOf_ret (e : Expr) (T : TState) : constOf (.ret e) T = none := by simp [constOf]
@[simp] theorem constOf_delExt (m : Bool) (p : Path) (h : Bool) (c : Expr) (T : TState) :
    constOf (.delExt m p h c) T = none := by simp [constOf]
@[simp] theorem constOf_existsExt (m : Bool) (p : Path) (T : TState) : constOf (.existsExt m p) T = none := by simp [constOf]
@[simp] theorem constOf_existsVar (n : String) (p : Path) (T : TState) : constOf (.existsVar n p) T = none := by simp [constOf]
@[simp] theorem constOf_existsExpr (e : Expr) (p : Path) (T : TState) : constOf (.existsExpr e p) T = none := by simp [constOf]

/-! ### leaves -/

theorem sound_lit (v : Value) : IH (.lit v) := by
  intro T s hk hc
  rw [typeInfo, constOf, eval]
  rw [checks, allNan_chk (by decide)] at hk
  simp only [Sound]
  refine ⟨?_, ?_, hc, fun cv h => by cases h; rfl⟩
  · cases v <;> simp [isContainerLit] at hk <;>
      simp [litKind, TypeDef.ofKind, memR, mem, Kind.null, Kind.boolean, Kind.integer, Kind.float,
        Kind.bytes, Kind.timestamp, Kind.regex, Kind.prim]
  · cases v <;> simp [isContainerLit] at hk <;> rfl

theorem sound_noop : IH .noop := by
  intro T s _ hc
  rw [typeInfo, constOf_noop, eval]
  simp only [Sound]
  exact ⟨by simp [TypeDef.null, TypeDef.ofKind, memR, mem, Kind.null, Kind.prim], rfl, hc, fun cv h => by cases h⟩

theorem sound_var (n : String) : IH (.var n) := by
  intro T s hk hc
  rw [typeInfo, constOf, eval]
  rw [checks, allNan_chk (by decide)] at hk
  simp only [Sound]
  cases hd : T.getVar n with
  | none => rw [hd] at hk; cases hk
  | some d =>
    obtain ⟨v, h1, h2, h3, h4⟩ := hc.vars n d hd
    simp only [h1, Option.getD_some, varDef, hd, Option.bind_some]
    exact ⟨memR_of_mem h2, h3, hc, h4⟩

theorem sound_qvar (n : String) (p : Path) : IH (.qvar n p) := by
  intro T s hk hc
  rw [typeInfo, constOf, eval]
  rw [checks] at hk
  simp only [allNan_append] at hk
  rw [allNan_chk (by decide), allNan_chk (by decide)] at hk
  simp only [Sound]
  cases hd : T.getVar n with
  | none => rw [hd] at hk; cases hk.1
  | some d =>
    obtain ⟨v, h1, h2, h3, h4⟩ := hc.vars n d hd
    have hat := hk.2
    simp only [varDef, hd] at hat
    have := memR_atPath (memR_of_mem h2) h3 hat
    simp only [h1, Option.getD_some, varDef, hd, Option.bind_some, TypeDef.atPath]
    refine ⟨this.1, this.2, hc, ?_⟩
    intro cv hcv
    cases hv : d.value with
    | none => rw [hv] at hcv; cases hcv
    | some c0 =>
      rw [hv] at hcv
      simp only [Option.bind_some] at hcv
      have := h4 c0 hv
      subst this
      rw [hcv]; rfl

theorem targetGet_eq (s : St) (hf : s.faults = []) (m : Bool) (p : Path) :
    (s.targetGet m p).1 = (if m then s.metadata else s.event).get p ∧ St.Same s (s.targetGet m p).2 := by
  refine ⟨?_, same_targetGet s m p⟩
  unfold St.targetGet St.tick
  simp [hf]

theorem sound_qext (m : Bool) (p : Path) : IH (.qext m p) := by
  intro T s hk hc
  rw [typeInfo, constOf_qext, eval]
  rw [checks, allNan_chk (by decide)] at hk
  obtain ⟨h1, h2⟩ := targetGet_eq s hc.faults m p
  cases hq : s.targetGet m p with
  | mk r s1 =>
    rw [hq] at h1 h2
    simp only at h1 h2
    simp only [Sound, TypeDef.ofKind]
    subst h1
    cases m with
    | false =>
      simp only [TState.extKind, Bool.false_eq_true, if_false] at hk ⊢
      have := memR_atPath (memR_of_mem hc.event) hc.eventSorted hk
      exact ⟨this.1, this.2, Conforms.of_same h2 hc, fun cv h => by cases h⟩
    | true =>
      simp only [TState.extKind, if_true] at hk ⊢
      have := memR_atPath (memR_of_mem hc.metadata) hc.metadataSorted hk
      exact ⟨this.1, this.2, Conforms.of_same h2 hc, fun cv h => by cases h⟩

theorem sound_existsExt (m : Bool) (p : Path) : IH (.existsExt m p) := by
  intro T s _ hc
  rw [typeInfo, constOf_existsExt, eval]
  have h2 := same_targetGet s m p
  cases hq : s.targetGet m p with
  | mk r s1 =>
    rw [hq] at h2
    simp only [Sound]
    exact ⟨memR_bool _, rfl, Conforms.of_same h2 hc, fun cv h => by cases h⟩

theorem sound_existsVar (n : String) (p : Path) : IH (.existsVar n p) := by
  intro T s _ hc
  rw [typeInfo, constOf_existsVar, eval]
  split <;> (simp only [Sound]; exact ⟨memR_bool _, rfl, hc, fun cv h => by cases h⟩)

end Lang
