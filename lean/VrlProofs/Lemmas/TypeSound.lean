import VrlProofs.Lemmas.TypeOps
import VrlProofs.Lemmas.TypeAssign
import VrlProofs.Lemmas.TypeEffect
import VrlProofs.Lemmas.TypeConst
import VrlProofs.Lemmas.TypeBinop
import VrlProofs.Lemmas.KindRemoveField

/-! Soundness of the type inference for one evaluation step (C01 a/d, C02 b, C12 c), as an
    invariant `Sound` proved by structural recursion over the mutual `Expr`/`Exprs`/`KExprs`.
    The per-constructor arguments are separate lemmas parameterised by the induction hypotheses. -/

namespace Lang
open Spec

/-- what soundness says about the outcome of evaluating an expression typed `td` (state after: `T'`,
    side conditions: `cs`):
    (a) a value is a result of the reported kind, a `return`ed value of the reported `returns`;
    (b) a run-time error only if typed fallible, or float arithmetic is involved (NaN);
    (d) on success the new run-time state inhabits the new type state.
    ((c), constants, is `Lang.const_eval`: it needs no side condition.) -/
def Sound (td : TypeDef) (T' : TState) (cs : List Chk) : Res × St → Prop
  | (.ok v, s') => memR v td.kind = true ∧ v.Sorted = true ∧ Conforms s' T'
  | (.ret v, _) => memR v td.returns = true
  | (.err, _) => td.fallible = true ∨ Chk.nan ∈ cs
  | _ => True

/-- the induction hypothesis for a sub-expression -/
def IH (e : Expr) : Prop :=
  ∀ (T : TState) (s : St), AllNan (checks e T) → Conforms s T →
    Sound (typeInfo e T).1 (typeInfo e T).2 (checks e T) (eval e s)

theorem Sound.mono_cs {td : TypeDef} {T' : TState} {cs cs' : List Chk}
    {out : Res × St} (h : Sound td T' cs out) (hsub : ∀ x ∈ cs, x ∈ cs') : Sound td T' cs' out := by
  obtain ⟨r, s⟩ := out
  cases r <;> simp only [Sound] at h ⊢ <;> try exact h
  rcases h with h | h
  · exact Or.inl h
  · exact Or.inr (hsub _ h)

/-! ### leaves -/

theorem sound_lit (v : Value) : IH (.lit v) := by
  intro T s hk hc
  rw [typeInfo, eval]
  rw [checks, allNan_chk (by decide)] at hk
  simp only [Sound]
  refine ⟨?_, ?_, hc⟩
  · cases v <;> simp [isContainerLit] at hk <;>
      simp [litKind, TypeDef.ofKind, memR, mem, Kind.null, Kind.boolean, Kind.integer, Kind.float,
        Kind.bytes, Kind.timestamp, Kind.regex, Kind.prim]
  · cases v <;> simp [isContainerLit] at hk <;> rfl

theorem sound_noop : IH .noop := by
  intro T s _ hc
  rw [typeInfo, eval]
  simp only [Sound]
  exact ⟨by simp [TypeDef.null, TypeDef.ofKind, memR, mem, Kind.null, Kind.prim], rfl, hc⟩

theorem sound_var (n : String) : IH (.var n) := by
  intro T s hk hc
  rw [typeInfo, eval]
  rw [checks, allNan_chk (by decide)] at hk
  simp only [Sound]
  cases hd : T.getVar n with
  | none => rw [hd] at hk; cases hk
  | some d =>
    obtain ⟨v, h1, h2, h3, h4⟩ := hc.vars n d hd
    simp only [h1, Option.getD_some, varDef, hd, Option.bind_some]
    exact ⟨memR_of_mem h2, h3, hc⟩

theorem sound_qvar (n : String) (p : Path) : IH (.qvar n p) := by
  intro T s hk hc
  rw [typeInfo, eval]
  rw [checks] at hk
  simp only [allNan_append] at hk
  rw [allNan_chk (by decide), allNan_chk (by decide)] at hk
  simp only [Sound]
  cases hd : T.getVar n with
  | none => rw [hd] at hk; cases hk.1
  | some d =>
    obtain ⟨v, h1, h2, h3, h4⟩ := hc.vars n d hd
    have hat := hk.2
    simp only [varDef, hd] at hat
    have := memR_atPath (memR_of_mem h2) h3 hat
    simp only [h1, Option.getD_some, varDef, hd, Option.bind_some, TypeDef.atPath]
    exact ⟨this.1, this.2, hc⟩

theorem targetGet_eq (s : St) (hf : s.faults = []) (m : Bool) (p : Path) :
    (s.targetGet m p).1 = (if m then s.metadata else s.event).get p ∧ St.Same s (s.targetGet m p).2 := by
  refine ⟨?_, same_targetGet s m p⟩
  unfold St.targetGet St.tick
  simp [hf]

theorem sound_qext (m : Bool) (p : Path) : IH (.qext m p) := by
  intro T s hk hc
  rw [typeInfo, eval]
  rw [checks, allNan_chk (by decide)] at hk
  obtain ⟨h1, h2⟩ := targetGet_eq s hc.faults m p
  cases hq : s.targetGet m p with
  | mk r s1 =>
    rw [hq] at h1 h2
    simp only at h1 h2
    simp only [Sound, TypeDef.ofKind]
    subst h1
    cases m with
    | false =>
      simp only [TState.extKind, Bool.false_eq_true, if_false] at hk ⊢
      have := memR_atPath (memR_of_mem hc.event) hc.eventSorted hk
      exact ⟨this.1, this.2, Conforms.of_same h2 hc⟩
    | true =>
      simp only [TState.extKind, if_true] at hk ⊢
      have := memR_atPath (memR_of_mem hc.metadata) hc.metadataSorted hk
      exact ⟨this.1, this.2, Conforms.of_same h2 hc⟩

theorem sound_existsExt (m : Bool) (p : Path) : IH (.existsExt m p) := by
  intro T s _ hc
  rw [typeInfo, eval]
  have h2 := same_targetGet s m p
  cases hq : s.targetGet m p with
  | mk r s1 =>
    rw [hq] at h2
    simp only [Sound]
    exact ⟨memR_bool _, rfl, Conforms.of_same h2 hc⟩

theorem sound_existsVar (n : String) (p : Path) : IH (.existsVar n p) := by
  intro T s _ hc
  rw [typeInfo, eval]
  split <;> (simp only [Sound]; exact ⟨memR_bool _, rfl, hc⟩)

/-! ### one operand -/

theorem sound_grp (e : Expr) (ih : IH e) : IH (.grp e) := by
  intro T s hk hc
  rw [typeInfo, eval, checks]
  rw [checks] at hk
  exact ih T s hk hc

theorem sound_not (e : Expr) (ih : IH e) : IH (.not e) := by
  intro T s hk hc
  rw [checks] at hk
  simp only [allNan_append] at hk
  rw [allNan_chk (by decide)] at hk
  have h := ih T s hk.1 hc
  rw [typeInfo, eval, checks]
  cases hq : eval e s with
  | mk r s1 =>
    rw [hq] at h
    cases r with
    | ok v =>
      simp only [Sound] at h
      obtain ⟨b, rfl⟩ := memR_isBoolean hk.2 h.1
      simp only [Sound]
      exact ⟨memR_bool _, rfl, h.2.2⟩
    | err =>
      simp only [Sound] at h ⊢
      rcases h with h | h
      · exact Or.inl h
      · exact Or.inr (List.mem_append_left _ h)
    | ret v => simp only [Sound] at h ⊢; exact h
    | _ => trivial

theorem sound_qexpr (e : Expr) (p : Path) (ih : IH e) : IH (.qexpr e p) := by
  intro T s hk hc
  rw [checks] at hk
  simp only [allNan_append] at hk
  rw [allNan_chk (by decide)] at hk
  have h := ih T s hk.1 hc
  rw [typeInfo, eval, checks]
  cases hq : eval e s with
  | mk r s1 =>
    rw [hq] at h
    cases r with
    | ok v =>
      simp only [Sound] at h ⊢
      have := memR_atPath h.1 h.2.1 hk.2
      exact ⟨this.1, this.2, h.2.2⟩
    | err =>
      simp only [Sound] at h ⊢
      rcases h with h | h
      · exact Or.inl h
      · exact Or.inr (List.mem_append_left _ h)
    | ret v => simp only [Sound] at h ⊢; exact h
    | _ => trivial

theorem sound_existsExpr (e : Expr) (p : Path) (ih : IH e) : IH (.existsExpr e p) := by
  intro T s hk hc
  rw [checks] at hk
  simp only [allNan_append] at hk
  rw [allNan_chk (by decide), allNan_chk (by decide)] at hk
  have h := ih T s hk.1.1 hc
  rw [typeInfo, eval, checks]
  cases hq : eval e s with
  | mk r s1 =>
    rw [hq] at h
    cases r with
    | ok v =>
      simp only [Sound] at h ⊢
      exact ⟨memR_bool _, rfl, h.2.2⟩
    | err =>
      simp only [Sound] at h ⊢
      rcases h with h | h
      · have := hk.1.2; simp [h] at this
      · exact Or.inr (List.mem_append_left _ (List.mem_append_left _ h))
    | ret v =>
      simp only [Sound] at h ⊢
      rw [memR_never v _ hk.2] at h; cases h
    | _ => trivial

/-! ### `return`, `abort` -/

theorem sound_ret (e : Expr) (ih : IH e) : IH (.ret e) := by
  intro T s hk hc
  rw [checks] at hk
  simp only [allNan_append] at hk
  rw [allNan_chk (by decide), allNan_chk (by decide)] at hk
  have h := ih T s hk.1.1 hc
  rw [typeInfo, eval, checks]
  cases hq : eval e s with
  | mk r s1 =>
    rw [hq] at h
    cases r with
    | ok v => simp only [Sound] at h ⊢; exact memR_union_left hk.2 h.1
    | err =>
      simp only [Sound] at h ⊢
      rcases h with h | h
      · have := hk.1.2; simp [h] at this
      · exact Or.inr (List.mem_append_left _ (List.mem_append_left _ h))
    | ret v =>
      simp only [Sound] at h ⊢
      exact memR_union_right hk.2 h
    | _ => trivial

theorem sound_abort (hasMsg : Bool) (msg : Expr) (ih : IH msg) : IH (.abort hasMsg msg) := by
  intro T s hk hc
  rw [checks] at hk
  rw [typeInfo, eval, checks]
  cases hasMsg with
  | false => simp [Sound]
  | true =>
    simp only [if_true, allNan_append] at hk ⊢
    rw [allNan_chk (by decide)] at hk
    simp only [Bool.and_eq_true, Bool.not_eq_true'] at hk
    have h := ih T s hk.1 hc
    cases hq : eval msg s with
    | mk r s1 =>
      rw [hq] at h
      cases r with
      | ok v =>
        simp only [Sound] at h
        obtain ⟨b, rfl⟩ := memR_isBytes hk.2.1 h.1
        simp only
        split <;> trivial
      | err =>
        simp only [Sound] at h ⊢
        rcases h with h | h
        · rw [hk.2.2] at h; cases h
        · exact Or.inr (List.mem_append_left _ h)
      | ret v => simp only [Sound] at h ⊢; exact h
      | _ => trivial

/-! ### assignments -/

/-- the constant `Assignment::type_info` records (taken in the state *after* the right-hand side)
    is the value assigned -/
theorem asg_const {e : Expr} {T : TState} {s s1 : St} {v : Value} (hc : Conforms s T)
    (he : eval e s = (.ok v, s1)) : ∀ cv, constOf e (typeInfo e T).2 = some cv → v = cv := by
  intro cv hcv
  have hst : (typeInfo e T).2 = T := const_state hcv
  rw [hst] at hcv
  obtain ⟨s', h1, _⟩ := const_eval e T cv hcv s hc
  rw [he] at h1
  cases h1; rfl

/-- … and an expression with a constant does not fail -/
theorem asg_const_no_err {e : Expr} {T : TState} {s s1 : St} (hc : Conforms s T)
    (he : eval e s = (.err, s1)) : constOf e (typeInfo e T).2 = none := by
  cases hcv : constOf e (typeInfo e T).2 with
  | none => rfl
  | some cv =>
    have hst : (typeInfo e T).2 = T := const_state hcv
    rw [hst] at hcv
    obtain ⟨s', h1, _⟩ := const_eval e T cv hcv s hc
    rw [he] at h1
    cases h1

theorem sound_asg (t : Tgt) (e : Expr) (ih : IH e) : IH (.asg t e) := by
  intro T s hk hc
  rw [checks] at hk
  simp only [allNan_append] at hk
  have h := ih T s hk.1 hc
  rw [typeInfo, eval, checks]
  cases hq : eval e s with
  | mk r s1 =>
    rw [hq] at h
    cases r with
    | ok v =>
      simp only [Sound] at h
      simp only
      cases hi : t.insert v s1 with
      | none => trivial
      | some s2 =>
        simp only [Sound]
        exact ⟨h.1, h.2.1, tgt_insert_conforms t v _ _ h.2.2 h.1 h.2.1 (asg_const hc hq) hk.2 hi⟩
    | err =>
      simp only [Sound] at h ⊢
      rcases h with h | h
      · exact Or.inl h
      · exact Or.inr (List.mem_append_left _ h)
    | ret v => simp only [Sound] at h ⊢; exact h
    | _ => trivial

theorem mem_orBytes_of_mem (w : Value) (k : Kind) (h : mem w k = true) : mem w k.orBytes = true := by
  cases k with
  | mk p a o =>
    cases w <;> simp [mem, Kind.orBytes, Kind.prim, Kind.hasArr, Kind.hasObj, arrayD, objectD,
      Kind.array, Kind.object] at h ⊢ <;> try exact h
    all_goals (cases a <;> cases o <;> simp_all [Kind.hasArr, Kind.hasObj, Kind.array, Kind.object])

theorem memR_orBytes {v : Value} {K : Kind} (h : memR v K = true) : memR v K.orBytes = true := by
  rcases (memR_iff v K).mp h with h1 | ⟨h1, h2⟩
  · exact memR_of_mem (mem_orBytes_of_mem v K h1)
  · refine (memR_iff _ _).mpr (Or.inr ⟨h1, ?_⟩)
    cases K with
    | mk p a o => simpa [Kind.orBytes, Kind.prim] using h2

theorem memR_bytes_orBytes (b : List Nat) (K : Kind) : memR (.bytes b) K.orBytes = true := by
  cases K with
  | mk p a o => simp [memR, mem, Kind.orBytes, Kind.prim]

theorem memR_bytes_bytesNull (b : List Nat) : memR (.bytes b) (TypeDef.ofKind bytesNull).kind = true := by
  simp [memR, mem, TypeDef.ofKind, bytesNull, Kind.bytes, Kind.orNull, Kind.prim]

theorem sound_iasg (okT errT : Tgt) (e : Expr) (dflt : Value) (ih : IH e) : IH (.iasg okT errT e dflt) := by
  intro T s hk hc
  rw [checks] at hk
  simp only [allNan_append] at hk
  obtain ⟨⟨⟨⟨⟨hk1, hk2⟩, hk3⟩, hk4⟩, hk5⟩, hk6⟩ := hk
  rw [allNan_chk (by decide)] at hk2 hk3 hk4
  have hc0 : Conforms { s with evCatch := true } T := Conforms.of_same (s := s) ⟨rfl, rfl, rfl, rfl⟩ hc
  have h := ih T _ hk1 hc0
  rw [typeInfo, eval, checks]
  cases hq : eval e { s with evCatch := true } with
  | mk r s1 =>
    rw [hq] at h
    cases r with
    | ok v =>
      simp only [Sound] at h
      simp only
      cases hi : okT.insert v s1 with
      | none => trivial
      | some s2 =>
        simp only
        have c2 := tgt_insert_conforms okT v
          ((typeInfo e T).1.union (TypeDef.ofKind dflt.kindOf)).infallible
          (constOf e (typeInfo e T).2) h.2.2 (memR_union_left hk4 h.1) h.2.1 (asg_const hc0 hq) hk5 hi
        cases hi2 : errT.insert .null s2 with
        | none => trivial
        | some s3 =>
          simp only [Sound]
          refine ⟨memR_orBytes h.1, h.2.1, ?_⟩
          exact tgt_insert_conforms errT .null (TypeDef.ofKind bytesNull) none c2 (by decide) rfl
            (fun cv h => by cases h) hk6 hi2
    | err =>
      -- the failed right-hand side left the state alone (`effectFree`)
      have hsame := effectFree_same e hk2 { s with evCatch := true }
      rw [hq] at hsame
      have c1 : Conforms s1 (typeInfo e T).2 :=
        Conforms.of_same hsame (effectFree_conforms e hk2 T hk1 hc0)
      simp only
      cases hi : okT.insert dflt s1 with
      | none => trivial
      | some s2 =>
        simp only
        have hd : mem dflt dflt.kindOf = true := C19.mem_kindOf dflt hk3
        have c2 := tgt_insert_conforms okT dflt
          ((typeInfo e T).1.union (TypeDef.ofKind dflt.kindOf)).infallible
          (constOf e (typeInfo e T).2) c1 (memR_union_right hk4 (memR_of_mem hd)) hk3
          (by rw [asg_const_no_err hc0 hq]; intro cv h; cases h) hk5 hi
        cases hm : s2.errs with
        | nil => trivial
        | cons msg rest =>
          simp only
          have c2' : Conforms { s2 with errs := rest } (okT.insertTypeDef (typeInfo e T).2
              ((typeInfo e T).1.union (TypeDef.ofKind dflt.kindOf)).infallible
              (constOf e (typeInfo e T).2)) := Conforms.of_same (s := s2) ⟨rfl, rfl, rfl, rfl⟩ c2
          cases hi2 : errT.insert (.bytes msg) { s2 with errs := rest } with
          | none => trivial
          | some s3 =>
            simp only [Sound]
            refine ⟨memR_bytes_orBytes msg _, rfl, ?_⟩
            exact tgt_insert_conforms errT (.bytes msg) (TypeDef.ofKind bytesNull) none c2' (memR_bytes_bytesNull msg) rfl
              (fun cv h => by cases h) hk6 hi2
    | ret v =>
      simp only [Sound] at h ⊢
      exact h
    | _ => trivial

/-! ### operators -/

/-- the pieces of `checks (.op o l r) T` -/
theorem op_checks_split {o : Opcode} {l r : Expr} {T : TState} (hk : AllNan (checks (.op o l r) T)) :
    AllNan (checks l T) ∧ (o = .err → effectFree l = true) ∧ AllNan (checks r (typeInfo l T).2) ∧
    AllNan (opChecks o (typeInfo l T).1 (constOf l T) (typeInfo l T).2 (typeInfo r (typeInfo l T).2).1
      (typeInfo r (typeInfo l T).2).2) := by
  rw [checks] at hk
  simp only [allNan_append] at hk
  obtain ⟨⟨⟨h1, h2⟩, h3⟩, h4⟩ := hk
  refine ⟨h1, ?_, h3, h4⟩
  intro ho
  subst ho
  simp only [beq_self_eq_true, if_true] at h2
  rwa [allNan_chk (by decide)] at h2

theorem nan_l {o : Opcode} {l r : Expr} {T : TState} (h : Chk.nan ∈ checks l T) : Chk.nan ∈ checks (.op o l r) T := by
  rw [checks]
  exact List.mem_append_left _ (List.mem_append_left _ (List.mem_append_left _ h))

theorem nan_r {o : Opcode} {l r : Expr} {T : TState} (h : Chk.nan ∈ checks r (typeInfo l T).2) :
    Chk.nan ∈ checks (.op o l r) T := by
  rw [checks]
  exact List.mem_append_left _ (List.mem_append_right _ h)

theorem nan_o {o : Opcode} {l r : Expr} {T : TState}
    (h : Chk.nan ∈ opChecks o (typeInfo l T).1 (constOf l T) (typeInfo l T).2 (typeInfo r (typeInfo l T).2).1
      (typeInfo r (typeInfo l T).2).2) : Chk.nan ∈ checks (.op o l r) T := by
  rw [checks]
  exact List.mem_append_right _ h

theorem sound_op_strict (o : Opcode) (ho : strictOp o = true) (l r : Expr) (ihl : IH l) (ihr : IH r) :
    IH (.op o l r) := by
  intro T s hk hc
  obtain ⟨hkl, _, hkr, hko⟩ := op_checks_split hk
  have hu := opChecks_strict_returns o ho _ _ _ _ _ hko
  have h1 := ihl T s hkl hc
  rw [typeInfo, eval_op_strict o ho]
  simp only [opInfo]
  cases hq : eval l s with
  | mk r1 s1 =>
    rw [hq] at h1
    cases r1 with
    | ok v =>
      simp only [Sound] at h1
      have h2 := ihr _ s1 hkr h1.2.2
      simp only
      cases hq2 : eval r s1 with
      | mk r2 s2 =>
        rw [hq2] at h2
        cases r2 with
        | ok w =>
          simp only [Sound] at h2
          -- the constant of the rhs (typed in the state after the lhs) is its value
          have hrv : ∀ c, constOf r (typeInfo l T).2 = some c → w = c := by
            intro c hcv
            obtain ⟨s', e1, _⟩ := const_eval r _ c hcv s1 h1.2.2
            rw [hq2] at e1; cases e1; rfl
          have hb := binop_sound o ho v w (typeInfo l T).1 (typeInfo r (typeInfo l T).2).1 (constOf l T)
            (constOf r (typeInfo l T).2) (typeInfo l T).2 (typeInfo r (typeInfo l T).2).2
            h1.1 h2.1 h1.2.1 h2.2.1 hrv hko
          simp only
          rcases binop_shape o v w with ⟨x, hbo⟩ | hbo | hbo
          · rw [hbo]
            simp only [Sound]
            refine ⟨(hb.1 x hbo).1, (hb.1 x hbo).2, ?_⟩
            rw [opState_strict o ho]
            exact h2.2.2
          · rw [hbo]
            simp only [Sound]
            rcases hb.2 hbo with h | h
            · exact Or.inl h
            · exact Or.inr (nan_o h)
          · rw [hbo]; trivial
        | err =>
          simp only [Sound] at h2 ⊢
          rcases h2 with h | h
          · exact Or.inl (opDef_strict_fallible o ho _ _ _ _ (Or.inr h))
          · exact Or.inr (nan_r h)
        | ret x =>
          simp only [Sound] at h2 ⊢
          rw [opDef_strict_returns o ho]
          exact memR_union_right hu h2
        | _ => trivial
    | err =>
      simp only [Sound] at h1 ⊢
      rcases h1 with h | h
      · exact Or.inl (opDef_strict_fallible o ho _ _ _ _ (Or.inl h))
      · exact Or.inr (nan_l h)
    | ret x =>
      simp only [Sound] at h1 ⊢
      rw [opDef_strict_returns o ho]
      exact memR_union_left hu h1
    | _ => trivial

theorem sound_op_err (l r : Expr) (ihl : IH l) (ihr : IH r) : IH (.op .err l r) := by
  intro T s hk hc
  obtain ⟨hkl, hef, hkr, hko⟩ := op_checks_split hk
  have hef := hef rfl
  have hc0 : Conforms { s with evCatch := true } T := Conforms.of_same (s := s) ⟨rfl, rfl, rfl, rfl⟩ hc
  have h1 := ihl T _ hkl hc0
  simp only [opChecks, allNan_append] at hko
  rw [allNan_chk (by decide), allNan_chk (by decide)] at hko
  obtain ⟨⟨hu1, hu2⟩, hm⟩ := hko
  have mok := mergeOk_of_checks hm
  rw [typeInfo, eval]
  simp only [opInfo, opDef, opState, maybeRhs]
  cases hq : eval l { s with evCatch := true } with
  | mk r1 s1 =>
    rw [hq] at h1
    cases r1 with
    | ok v =>
      simp only [Sound] at h1 ⊢
      exact ⟨memR_union_left hu1 h1.1, h1.2.1, Conforms.merge_left mok h1.2.2⟩
    | err =>
      -- the failed lhs left the state alone
      have hsame := effectFree_same l hef { s with evCatch := true }
      rw [hq] at hsame
      have c1 : Conforms s1 (typeInfo l T).2 := Conforms.of_same hsame (effectFree_conforms l hef T hkl hc0)
      have h2 := ihr _ s1 hkr c1
      simp only [Sound] at h1
      simp only
      cases hq2 : eval r s1 with
      | mk r2 s2 =>
        rw [hq2] at h2
        cases r2 with
        | ok w =>
          simp only [Sound] at h2 ⊢
          exact ⟨memR_union_right hu1 h2.1, h2.2.1, Conforms.merge_right mok h2.2.2⟩
        | err =>
          simp only [Sound] at h2 ⊢
          rcases h1 with h1 | h1
          · rcases h2 with h2 | h2
            · exact Or.inl (by simp [TypeDef.maybeFallible, h1, h2])
            · exact Or.inr (nan_r h2)
          · exact Or.inr (nan_l h1)
        | ret x => simp only [Sound] at h2 ⊢; exact memR_union_right hu2 h2
        | _ => trivial
    | ret x => simp only [Sound] at h1 ⊢; exact memR_union_left hu2 h1
    | _ => trivial

theorem mem_withoutNull {v : Value} {K : Kind} (h : mem v K = true) (hn : v ≠ .null) :
    mem v K.withoutNull = true := by
  cases K with
  | mk p a o =>
    cases v <;> simp [mem, Kind.withoutNull, Kind.prim, Kind.hasArr, Kind.hasObj, arrayD, objectD,
      Kind.array, Kind.object] at h ⊢ <;> try exact h
    · exact absurd rfl hn
    all_goals (cases a <;> cases o <;> simp_all [Kind.hasArr, Kind.hasObj, Kind.array, Kind.object])

/-- a value that is not `null`/`false` when `||` is typed "always false" is impossible; a value that
    is `null`/`false` when it is typed "always true" likewise -/
theorem or_lhs_facts {v : Value} {l : TypeDef} (hv : memR v l.kind = true) :
    mem v l.upgradeUndefined.kind = true ∧
    (l.upgradeUndefined.kind.isNull = true → v = .null) ∧
    ((l.upgradeUndefined.kind.containsNull || l.upgradeUndefined.kind.containsBoolean) = false →
      v ≠ .null ∧ ∀ b, v ≠ .bool b) := by
  have hm : mem v l.upgradeUndefined.kind = true := mem_upgrade_of_memR hv
  refine ⟨hm, fun h => memR_isNull h (memR_of_mem hm), ?_⟩
  intro h
  simp only [Bool.or_eq_false_iff, Kind.containsNull, Kind.containsBoolean] at h
  generalize l.upgradeUndefined.kind = K at hm h
  cases K with
  | mk p a o =>
    simp only [Kind.prim] at h
    constructor
    · rintro rfl; simp [mem, Kind.prim] at hm; simp [hm] at h
    · rintro b rfl; simp [mem, Kind.prim] at hm; simp [hm] at h

theorem optValueEq_some_bool {lv : Option Value} {b : Bool} (h : optValueEq lv (some (.bool b)) = true) :
    lv = some (.bool b) := by
  cases lv with
  | none => simp [optValueEq] at h
  | some c => cases c <;> simp_all [optValueEq, Arith.veq]

/-- the value of an lhs with a boolean constant -/
theorem lhs_const {l : Expr} {T : TState} {s s1 : St} {v : Value} {b : Bool} (hc : Conforms s T)
    (he : eval l s = (.ok v, s1)) (h : optValueEq (constOf l T) (some (.bool b)) = true) : v = .bool b := by
  obtain ⟨s', e1, _⟩ := const_eval l T _ (optValueEq_some_bool h) s hc
  rw [he] at e1; cases e1; rfl

theorem lhs_const_no_err {l : Expr} {T : TState} {s s1 : St} {b : Bool} {r : Res} (hc : Conforms s T)
    (he : eval l s = (r, s1)) (h : optValueEq (constOf l T) (some (.bool b)) = true) : r = .ok (.bool b) := by
  obtain ⟨s', e1, _⟩ := const_eval l T _ (optValueEq_some_bool h) s hc
  rw [he] at e1; cases e1; rfl

/-- `||`: what `Op::resolve` does after the lhs evaluated to `v` -/
theorem eval_or (l r : Expr) (s : St) :
    eval (.op .or l r) s =
      (match eval l { s with evShort := true } with
       | (.ok v, s1) =>
         if v = .null ∨ v = .bool false then
           (match eval r s1 with
            | (.ok w, s2) => (.ok w, s2)
            | (.panic, s2) => (.panic, s2)
            | (.oom, s2) => (.oom, s2)
            | x => x)
         else (.ok v, s1)
       | x => x) := by
  rw [eval]
  cases hq : eval l { s with evShort := true } with
  | mk r1 s1 =>
    cases r1 with
    | ok v =>
      cases v with
      | null => simp; rfl
      | bool b => cases b <;> first | (simp; done) | (simp; rfl)
      | _ => simp
    | _ => rfl

theorem sound_op_or (l r : Expr) (ihl : IH l) (ihr : IH r) : IH (.op .or l r) := by
  intro T s hk hc
  obtain ⟨hkl, _, hkr, hko⟩ := op_checks_split hk
  have hc0 : Conforms { s with evShort := true } T := Conforms.of_same (s := s) ⟨rfl, rfl, rfl, rfl⟩ hc
  have h1 := ihl T _ hkl hc0
  rw [typeInfo, eval_or]
  simp only [opInfo, opDef, opState]
  simp only [opChecks] at hko
  by_cases c1 : ((typeInfo l T).1.upgradeUndefined.kind.isNull || optValueEq (constOf l T) (some (.bool false))) = true
  · -- the lhs is always "false": the result is the rhs
    simp only [c1, if_true, allNan_append] at hko ⊢
    rw [allNan_chk (by decide), allNan_chk (by decide)] at hko
    obtain ⟨hu1, hu2⟩ := hko
    cases hq : eval l { s with evShort := true } with
    | mk r1 s1 =>
      rw [hq] at h1
      cases r1 with
      | ok v =>
        simp only [Sound] at h1
        have hv : v = .null ∨ v = .bool false := by
          simp only [Bool.or_eq_true] at c1
          rcases c1 with c1 | c1
          · exact Or.inl ((or_lhs_facts h1.1).2.1 c1)
          · exact Or.inr (lhs_const hc0 hq c1)
        have h2 := ihr _ s1 hkr h1.2.2
        simp only [hv, if_true]
        cases hq2 : eval r s1 with
        | mk r2 s2 =>
          rw [hq2] at h2
          cases r2 with
          | ok w =>
            simp only [Sound] at h2 ⊢
            exact ⟨memR_union_right hu1 h2.1, h2.2.1, h2.2.2⟩
          | err =>
            simp only [Sound] at h2 ⊢
            rcases h2 with h | h
            · exact Or.inl (by simp [h])
            · exact Or.inr (nan_r h)
          | ret x => simp only [Sound] at h2 ⊢; exact memR_union_right hu2 h2
          | _ => trivial
      | err =>
        simp only [Sound] at h1 ⊢
        rcases h1 with h | h
        · exact Or.inl (by simp [TypeDef.upgradeUndefined, h])
        · exact Or.inr (nan_l h)
      | ret x => simp only [Sound] at h1 ⊢; exact memR_union_left hu2 h1
      | _ => trivial
  · simp only [c1, Bool.false_eq_true, if_false] at hko ⊢
    by_cases c2 : (!((typeInfo l T).1.upgradeUndefined.kind.containsNull ||
        (typeInfo l T).1.upgradeUndefined.kind.containsBoolean) ||
        optValueEq (constOf l T) (some (.bool true))) = true
    · -- the lhs is always "true": the result is the lhs
      simp only [c2, if_true] at hko ⊢
      cases hq : eval l { s with evShort := true } with
      | mk r1 s1 =>
        rw [hq] at h1
        cases r1 with
        | ok v =>
          simp only [Sound] at h1
          have hf := or_lhs_facts h1.1
          have hv : ¬ (v = .null ∨ v = .bool false) := by
            simp only [Bool.or_eq_true, Bool.not_eq_true'] at c2
            rcases c2 with c2 | c2
            · have := hf.2.2 c2
              rintro (h | h)
              · exact this.1 h
              · exact this.2 _ h
            · have := lhs_const hc0 hq c2
              subst this
              simp
          simp only [hv, if_false, Sound]
          exact ⟨memR_of_mem hf.1, h1.2.1, h1.2.2⟩
        | err =>
          simp only [Sound] at h1 ⊢
          rcases h1 with h | h
          · exact Or.inl h
          · exact Or.inr (nan_l h)
        | ret x => simp only [Sound] at h1 ⊢; exact h1
        | _ => trivial
    · -- unknown: both
      simp only [c2, Bool.false_eq_true, if_false, allNan_append] at hko ⊢
      rw [allNan_chk (by decide), allNan_chk (by decide)] at hko
      obtain ⟨⟨hu1, hu2⟩, hm⟩ := hko
      have mok := mergeOk_of_checks hm
      simp only [maybeRhs]
      cases hq : eval l { s with evShort := true } with
      | mk r1 s1 =>
        rw [hq] at h1
        cases r1 with
        | ok v =>
          simp only [Sound] at h1
          have hf := or_lhs_facts h1.1
          by_cases hv : v = .null ∨ v = .bool false
          · have h2 := ihr _ s1 hkr h1.2.2
            simp only [hv, if_true]
            cases hq2 : eval r s1 with
            | mk r2 s2 =>
              rw [hq2] at h2
              cases r2 with
              | ok w =>
                simp only [Sound] at h2 ⊢
                exact ⟨memR_union_right hu1 h2.1, h2.2.1, Conforms.merge_right mok h2.2.2⟩
              | err =>
                simp only [Sound] at h2 ⊢
                rcases h2 with h | h
                · exact Or.inl (by simp [h])
                · exact Or.inr (nan_r h)
              | ret x => simp only [Sound] at h2 ⊢; exact memR_union_right hu2 h2
              | _ => trivial
          · simp only [hv, if_false, Sound]
            have hn : v ≠ .null := fun h => hv (Or.inl h)
            exact ⟨memR_of_mem (mem_union_left' hu1 (mem_withoutNull hf.1 hn)), h1.2.1,
              Conforms.merge_left mok h1.2.2⟩
        | err =>
          simp only [Sound] at h1 ⊢
          rcases h1 with h | h
          · exact Or.inl (by simp [TypeDef.upgradeUndefined, h])
          · exact Or.inr (nan_l h)
        | ret x => simp only [Sound] at h1 ⊢; exact memR_union_left hu2 h1
        | _ => trivial

/-- `&&`: what `Op::resolve` does after the lhs evaluated to `v` -/
theorem eval_and (l r : Expr) (s : St) :
    eval (.op .and l r) s =
      (match eval l { s with evShort := true } with
       | (.ok v, s1) =>
         if v = .null ∨ v = .bool false then (.ok (.bool false), s1)
         else
           (match eval r s1 with
            | (.ok w, s2) => (tryAnd v w, s2)
            | x => x)
       | x => x) := by
  rw [eval]
  cases hq : eval l { s with evShort := true } with
  | mk r1 s1 =>
    cases r1 with
    | ok v =>
      cases v with
      | null => simp
      | bool b => cases b <;> first | (simp; done) | (simp; rfl)
      | _ => first | (simp; done) | (simp; rfl)
    | _ => rfl

theorem tryAnd_true_nullBool {w : Value} (h : w = .null ∨ ∃ b, w = .bool b) :
    ∃ b, tryAnd (.bool true) w = .ok (.bool b) := by
  rcases h with rfl | ⟨b, rfl⟩ <;> simp [tryAnd, Arith.tryAnd, ofArith]

theorem sound_op_and (l r : Expr) (ihl : IH l) (ihr : IH r) : IH (.op .and l r) := by
  intro T s hk hc
  obtain ⟨hkl, _, hkr, hko⟩ := op_checks_split hk
  have hc0 : Conforms { s with evShort := true } T := Conforms.of_same (s := s) ⟨rfl, rfl, rfl, rfl⟩ hc
  have h1 := ihl T _ hkl hc0
  rw [typeInfo, eval_and]
  simp only [opInfo, opDef, opState]
  simp only [opChecks] at hko
  by_cases c1 : ((typeInfo l T).1.kind.isNull || optValueEq (constOf l T) (some (.bool false))) = true
  · -- the lhs is always "false"
    simp only [c1, if_true] at hko ⊢
    cases hq : eval l { s with evShort := true } with
    | mk r1 s1 =>
      rw [hq] at h1
      cases r1 with
      | ok v =>
        simp only [Sound] at h1
        have hv : v = .null ∨ v = .bool false := by
          simp only [Bool.or_eq_true] at c1
          rcases c1 with c1 | c1
          · exact Or.inl (memR_isNull c1 h1.1)
          · exact Or.inr (lhs_const hc0 hq c1)
        simp only [hv, if_true, Sound]
        exact ⟨memR_bool _, rfl, h1.2.2⟩
      | err =>
        simp only [Sound] at h1 ⊢
        rcases h1 with h | h
        · exact Or.inl h
        · exact Or.inr (nan_l h)
      | ret x => simp only [Sound] at h1 ⊢; exact h1
      | _ => trivial
  · simp only [c1, Bool.false_eq_true, if_false] at hko ⊢
    by_cases c2 : optValueEq (constOf l T) (some (.bool true)) = true
    · -- the lhs is always "true"
      simp only [c2, if_true] at hko ⊢
      rw [allNan_chk (by decide)] at hko
      cases hq : eval l { s with evShort := true } with
      | mk r1 s1 =>
        rw [hq] at h1
        have hr1 := lhs_const_no_err hc0 hq c2
        subst hr1
        simp only [Sound] at h1
        have h2 := ihr _ s1 hkr h1.2.2
        simp only [reduceCtorEq, Value.bool.injEq, Bool.true_eq_false, or_self, if_false]
        cases hq2 : eval r s1 with
        | mk r2 s2 =>
          rw [hq2] at h2
          cases r2 with
          | ok w =>
            simp only [Sound] at h2
            simp only
            rcases tryAnd_shape (.bool true) w with ⟨b, hb⟩ | hb
            · simp only [hb, Sound]
              exact ⟨memR_bool _, rfl, h2.2.2⟩
            · simp only [hb, Sound]
              left
              simp only [TypeDef.withKind_fallible, TypeDef.union_fallible, Bool.or_eq_true]
              cases f2 : ((typeInfo r (typeInfo l T).2).1.fallibleUnless nullBool).fallible with
              | true => exact Or.inr rfl
              | false =>
                exfalso
                have m2 := memR_nullBool (superset_prim_sound w nullBool _ nullBool_noExactAny
                  (TypeDef.fallibleUnless_false _ _ f2) h2.1)
                obtain ⟨b, hb'⟩ := tryAnd_true_nullBool m2
                rw [hb'] at hb; cases hb
          | err =>
            simp only [Sound] at h2 ⊢
            rcases h2 with h | h
            · exact Or.inl (by simp [TypeDef.fallibleUnless_mono _ _ h])
            · exact Or.inr (nan_r h)
          | ret x =>
            simp only [Sound] at h2 ⊢
            simp only [TypeDef.withKind_returns, TypeDef.union_returns, TypeDef.fallibleUnless_returns]
            exact memR_union_right hko h2
          | _ => trivial
    · -- unknown
      simp only [c2, Bool.false_eq_true, if_false, allNan_append] at hko ⊢
      rw [allNan_chk (by decide)] at hko
      obtain ⟨hu2, hm⟩ := hko
      have mok := mergeOk_of_checks hm
      simp only [maybeRhs]
      cases hq : eval l { s with evShort := true } with
      | mk r1 s1 =>
        rw [hq] at h1
        cases r1 with
        | ok v =>
          simp only [Sound] at h1
          by_cases hv : v = .null ∨ v = .bool false
          · simp only [hv, if_true, Sound]
            exact ⟨memR_bool _, rfl, Conforms.merge_left mok h1.2.2⟩
          · have h2 := ihr _ s1 hkr h1.2.2
            simp only [hv, if_false]
            cases hq2 : eval r s1 with
            | mk r2 s2 =>
              rw [hq2] at h2
              cases r2 with
              | ok w =>
                simp only [Sound] at h2
                simp only
                rcases tryAnd_shape v w with ⟨b, hb⟩ | hb
                · simp only [hb, Sound]
                  exact ⟨memR_bool _, rfl, Conforms.merge_right mok h2.2.2⟩
                · simp only [hb, Sound]
                  left
                  simp only [TypeDef.withKind_fallible, TypeDef.union_fallible, Bool.or_eq_true]
                  cases f1 : ((typeInfo l T).1.fallibleUnless nullBool).fallible with
                  | true => exact Or.inl rfl
                  | false =>
                    cases f2 : ((typeInfo r (typeInfo l T).2).1.fallibleUnless nullBool).fallible with
                    | true => exact Or.inr rfl
                    | false =>
                      exfalso
                      have m1 := memR_nullBool (superset_prim_sound v nullBool _ nullBool_noExactAny
                        (TypeDef.fallibleUnless_false _ _ f1) h1.1)
                      have m2 := memR_nullBool (superset_prim_sound w nullBool _ nullBool_noExactAny
                        (TypeDef.fallibleUnless_false _ _ f2) h2.1)
                      have hvt : v = .bool true := by
                        rcases m1 with rfl | ⟨b, rfl⟩
                        · exact absurd (Or.inl rfl) hv
                        · cases b
                          · exact absurd (Or.inr rfl) hv
                          · rfl
                      subst hvt
                      obtain ⟨b, hb'⟩ := tryAnd_true_nullBool m2
                      rw [hb'] at hb; cases hb
              | err =>
                simp only [Sound] at h2 ⊢
                rcases h2 with h | h
                · exact Or.inl (by simp [TypeDef.fallibleUnless_mono _ _ h])
                · exact Or.inr (nan_r h)
              | ret x =>
                simp only [Sound] at h2 ⊢
                simp only [TypeDef.withKind_returns, TypeDef.union_returns, TypeDef.fallibleUnless_returns]
                exact memR_union_right hu2 h2
              | _ => trivial
        | err =>
          simp only [Sound] at h1 ⊢
          rcases h1 with h | h
          · exact Or.inl (by simp [TypeDef.fallibleUnless_mono _ _ h])
          · exact Or.inr (nan_l h)
        | ret x =>
          simp only [Sound] at h1 ⊢
          simp only [TypeDef.withKind_returns, TypeDef.union_returns, TypeDef.fallibleUnless_returns]
          exact memR_union_left hu2 h1
        | _ => trivial

theorem sound_op (o : Opcode) (l r : Expr) (ihl : IH l) (ihr : IH r) : IH (.op o l r) := by
  cases ho : strictOp o with
  | true => exact sound_op_strict o ho l r ihl ihr
  | false =>
    cases o <;> simp [strictOp] at ho
    · exact sound_op_or l r ihl ihr
    · exact sound_op_and l r ihl ihr
    · exact sound_op_err l r ihl ihr

/-! ### sequences (`Block::type_info` loop vs `Block::resolve`) -/

/-- soundness of a sequence typed from the accumulator `acc'` reached at its end -/
def SeqSound (acc' : BlockAcc) (T' : TState) (cs : List Chk) : Res × St → Prop
  | (.ok v, s') => memR v acc'.result.kind = true ∧ v.Sorted = true ∧ Conforms s' T'
  | (.ret v, _) => memR v acc'.returns = true
  | (.err, _) => acc'.fallible = true ∨ Chk.nan ∈ cs
  | _ => True

def IHS (es : Exprs) : Prop :=
  ∀ (T : TState) (s : St) (acc : BlockAcc), es ≠ .nil → acc.afterNever = false →
    AllNan (checksSeq es T acc) → Conforms s T →
    SeqSound (typeSeq es T acc).1 (typeSeq es T acc).2 (checksSeq es T acc) (evalSeq es s)

theorem typeSeq_fallible_mono : (es : Exprs) → (T : TState) → (acc : BlockAcc) → acc.fallible = true →
    (typeSeq es T acc).1.fallible = true
  | .nil, T, acc, h => by rw [typeSeq]; exact h
  | .cons e es, T, acc, h => by
    rw [typeSeq]
    exact typeSeq_fallible_mono es _ _ (by simp [BlockAcc.step, h])

theorem typeSeq_returns_mono : (es : Exprs) → (T : TState) → (acc : BlockAcc) → (w : Value) →
    AllNan (checksSeq es T acc) → memR w acc.returns = true → memR w (typeSeq es T acc).1.returns = true
  | .nil, T, acc, w, _, h => by rw [typeSeq]; exact h
  | .cons e es, T, acc, w, hk, h => by
    rw [checksSeq] at hk
    simp only [allNan_append] at hk
    rw [allNan_chk (by decide)] at hk
    rw [typeSeq]
    exact typeSeq_returns_mono es _ _ w hk.2 (memR_union_left hk.1.2 h)

theorem sound_seq_nil : IHS .nil := by
  intro T s acc hne
  exact absurd rfl hne

theorem sound_seq_cons (e : Expr) (es : Exprs) (ihe : IH e) (ihs : IHS es) : IHS (.cons e es) := by
  intro T s acc _ han hk hc
  rw [checksSeq] at hk ⊢
  simp only [allNan_append] at hk
  rw [allNan_chk (by decide)] at hk
  obtain ⟨⟨hke, hu⟩, hks⟩ := hk
  have h1 := ihe T s hke hc
  rw [typeSeq]
  cases es with
  | nil =>
    -- the last expression: its outcome is the block's
    rw [evalSeq, typeSeq]
    cases hq : eval e s with
    | mk r s1 =>
      rw [hq] at h1
      cases r with
      | ok v => simp only [Sound] at h1; simp only [SeqSound, BlockAcc.step]; exact h1
      | err =>
        simp only [Sound] at h1
        simp only [SeqSound, BlockAcc.step, han]
        rcases h1 with h | h
        · exact Or.inl (by simp [h])
        · exact Or.inr (List.mem_append_left _ (List.mem_append_left _ h))
      | ret x =>
        simp only [Sound] at h1
        simp only [SeqSound, BlockAcc.step]
        exact memR_union_right hu h1
      | _ => trivial
  | cons e' es' =>
    rw [evalSeq]
    · cases hq : eval e s with
      | mk r s1 =>
        rw [hq] at h1
        cases r with
        | ok v =>
          simp only [Sound] at h1
          have hnn : (typeInfo e T).1.kind.isNever = false := by
            cases hn : (typeInfo e T).1.kind.isNever with
            | false => rfl
            | true => rw [memR_never v _ hn] at h1; cases h1.1
          have := ihs (typeInfo e T).2 s1 (acc.step (typeInfo e T).1) (by simp)
            (by simp [BlockAcc.step, han, hnn]) hks h1.2.2
          simp only
          cases hq2 : evalSeq (.cons e' es') s1 with
          | mk r2 s2 =>
            rw [hq2] at this
            cases r2 with
            | err =>
              simp only [SeqSound] at this ⊢
              rcases this with h | h
              · exact Or.inl h
              · exact Or.inr (List.mem_append_right _ h)
            | _ => exact this
        | err =>
          simp only [Sound] at h1
          simp only [SeqSound]
          rcases h1 with h | h
          · exact Or.inl (typeSeq_fallible_mono _ _ _ (by simp [BlockAcc.step, han, h]))
          · exact Or.inr (List.mem_append_left _ (List.mem_append_left _ h))
        | ret x =>
          simp only [Sound] at h1
          simp only [SeqSound]
          exact typeSeq_returns_mono _ _ _ x hks (by simp only [BlockAcc.step]; exact memR_union_right hu h1)
        | _ => trivial
    · intro h; cases h

/-! ### blocks and conditionals -/

@[simp] theorem BlockAcc.finish_kind (a : BlockAcc) : a.finish.kind = a.result.kind := rfl
@[simp] theorem BlockAcc.finish_fallible (a : BlockAcc) : a.finish.fallible = a.fallible := rfl
@[simp] theorem BlockAcc.finish_returns (a : BlockAcc) : a.finish.returns = a.returns := rfl

theorem sound_blk (es : Exprs) (ihs : IHS es) : IH (.blk es) := by
  intro T s hk hc
  rw [checks] at hk ⊢
  simp only [allNan_append] at hk
  rw [allNan_chk (by decide)] at hk
  rw [typeInfo, eval]
  cases es with
  | nil => rw [evalSeq]; trivial
  | cons e es' =>
    have h := ihs T s {} (by simp) rfl hk.1 hc
    cases hq : evalSeq (.cons e es') s with
    | mk r s1 =>
      rw [hq] at h
      cases r with
      | ok v =>
        simp only [SeqSound] at h
        simp only [Sound, BlockAcc.finish_kind]
        exact ⟨h.1, h.2.1, Conforms.scope hk.2 h.2.2⟩
      | err =>
        simp only [SeqSound] at h
        simp only [Sound, BlockAcc.finish_fallible]
        rcases h with h | h
        · exact Or.inl h
        · exact Or.inr (List.mem_append_left _ h)
      | ret x => simp only [SeqSound] at h; simp only [Sound, BlockAcc.finish_returns]; exact h
      | _ => trivial

theorem memR_orNull {v : Value} {K : Kind} (h : memR v K = true) : memR v K.orNull = true := by
  rcases (memR_iff v K).mp h with h1 | ⟨h1, _⟩
  · exact memR_of_mem (mem_orNull_of_mem v K h1)
  · subst h1
    cases K with
    | mk p a o => simp [memR, mem, Kind.orNull, Kind.prim]

theorem memR_null_orNull (K : Kind) : memR .null K.orNull = true := by
  cases K with
  | mk p a o => simp [memR, mem, Kind.orNull, Kind.prim]

theorem sound_ifte (pred thn : Exprs) (hasElse : Bool) (els : Exprs) (ihp : IHS pred) (iht : IHS thn)
    (ihe : IHS els) : IH (.ifte pred thn hasElse els) := by
  intro T s hk hc
  rw [checks] at hk ⊢
  rw [typeInfo, eval]
  simp only [allNan_append] at hk
  obtain ⟨⟨⟨⟨hkp, hkb⟩, hkt⟩, hst⟩, hrest⟩ := hk
  rw [allNan_chk (by decide)] at hkb hst
  simp only [Bool.and_eq_true, Bool.not_eq_true', BlockAcc.finish_kind, BlockAcc.finish_fallible] at hkb
  have hc0 : Conforms { s with evShort := true } T := Conforms.of_same (s := s) ⟨rfl, rfl, rfl, rfl⟩ hc
  cases pred with
  | nil => rw [evalSeq]; trivial
  | cons p0 ps =>
    have h1 := ihp T _ {} (by simp) rfl hkp hc0
    cases hq : evalSeq (.cons p0 ps) { s with evShort := true } with
    | mk r1 s1 =>
      rw [hq] at h1
      cases r1 with
      | ok v =>
        simp only [SeqSound] at h1
        obtain ⟨b, rfl⟩ := memR_isBoolean hkb.1 h1.1
        cases b with
        | true =>
          -- the `if` block runs
          simp only
          cases thn with
          | nil => rw [evalSeq]; trivial
          | cons t0 ts =>
            have h2 := iht _ s1 {} (by simp) rfl hkt h1.2.2
            cases hq2 : evalSeq (.cons t0 ts) s1 with
            | mk r2 s2 =>
              rw [hq2] at h2
              cases hasElse with
              | true =>
                simp only [if_true, allNan_append] at hrest
                obtain ⟨⟨⟨⟨⟨hke, hse⟩, hu1⟩, hu2⟩, hu3⟩, hm⟩ := hrest
                rw [allNan_chk (by decide)] at hse hu1 hu2 hu3
                have mok := mergeOk_of_checks hm
                simp only [ifResult, if_true]
                cases r2 with
                | ok w =>
                  simp only [SeqSound] at h2
                  simp only [Sound]
                  exact ⟨memR_union_left hu1 h2.1, h2.2.1,
                    Conforms.merge_left mok (Conforms.scope hst h2.2.2)⟩
                | err =>
                  simp only [SeqSound] at h2
                  simp only [Sound]
                  rcases h2 with h | h
                  · exact Or.inl (by simp [TypeDef.withReturns, h])
                  · exact Or.inr (List.mem_append_left _ (List.mem_append_left _ (List.mem_append_right _ h)))
                | ret x =>
                  simp only [SeqSound] at h2
                  simp only [Sound]
                  exact memR_union_left hu3 (memR_union_left hu2 h2)
                | _ => trivial
              | false =>
                simp only [Bool.false_eq_true, if_false, allNan_append] at hrest
                obtain ⟨hu, hm⟩ := hrest
                rw [allNan_chk (by decide)] at hu
                have mok := mergeOk_of_checks hm
                simp only [ifResult, Bool.false_eq_true, if_false]
                cases r2 with
                | ok w =>
                  simp only [SeqSound] at h2
                  simp only [Sound]
                  exact ⟨memR_orNull h2.1, h2.2.1, Conforms.merge_left mok (Conforms.scope hst h2.2.2)⟩
                | err =>
                  simp only [SeqSound] at h2
                  simp only [Sound]
                  rcases h2 with h | h
                  · exact Or.inl (by simp [TypeDef.withReturns, TypeDef.orNull, h])
                  · exact Or.inr (List.mem_append_left _ (List.mem_append_left _ (List.mem_append_right _ h)))
                | ret x =>
                  simp only [SeqSound] at h2
                  simp only [Sound]
                  exact memR_union_left hu h2
                | _ => trivial
        | false =>
          cases hasElse with
          | true =>
            simp only [if_true, allNan_append] at hrest ⊢
            obtain ⟨⟨⟨⟨⟨hke, hse⟩, hu1⟩, hu2⟩, hu3⟩, hm⟩ := hrest
            rw [allNan_chk (by decide)] at hse hu1 hu2 hu3
            have mok := mergeOk_of_checks hm
            simp only [ifResult, if_true]
            cases els with
            | nil => rw [evalSeq]; trivial
            | cons e0 es =>
              have h2 := ihe _ s1 {} (by simp) rfl hke h1.2.2
              cases hq2 : evalSeq (.cons e0 es) s1 with
              | mk r2 s2 =>
                rw [hq2] at h2
                cases r2 with
                | ok w =>
                  simp only [SeqSound] at h2
                  simp only [Sound]
                  exact ⟨memR_union_right hu1 h2.1, h2.2.1,
                    Conforms.merge_right mok (Conforms.scope hse h2.2.2)⟩
                | err =>
                  simp only [SeqSound] at h2
                  simp only [Sound]
                  rcases h2 with h | h
                  · exact Or.inl (by simp [TypeDef.withReturns, h])
                  · exact Or.inr (List.mem_append_right _ (List.mem_append_left _ (List.mem_append_left _
                      (List.mem_append_left _ (List.mem_append_left _ (List.mem_append_left _ h))))))
                | ret x =>
                  simp only [SeqSound] at h2
                  simp only [Sound]
                  exact memR_union_left hu3 (memR_union_right hu2 h2)
                | _ => trivial
          | false =>
            simp only [Bool.false_eq_true, if_false, allNan_append] at hrest ⊢
            obtain ⟨hu, hm⟩ := hrest
            have mok := mergeOk_of_checks hm
            simp only [ifResult, Bool.false_eq_true, if_false, Sound]
            exact ⟨memR_null_orNull _, rfl, Conforms.merge_right mok h1.2.2⟩
      | err =>
        simp only [SeqSound] at h1
        simp only [Sound]
        rcases h1 with h | h
        · rw [hkb.2] at h; cases h
        · exact Or.inr (List.mem_append_left _ (List.mem_append_left _ (List.mem_append_left _
            (List.mem_append_left _ h))))
      | ret x =>
        -- the predicate may `return`
        simp only [SeqSound] at h1
        simp only [Sound]
        cases hasElse with
        | true =>
          simp only [if_true, allNan_append] at hrest
          obtain ⟨⟨⟨⟨⟨_, _⟩, _⟩, _⟩, hu3⟩, _⟩ := hrest
          rw [allNan_chk (by decide)] at hu3
          simp only [ifResult, if_true]
          exact memR_union_right hu3 h1
        | false =>
          simp only [Bool.false_eq_true, if_false, allNan_append] at hrest
          obtain ⟨hu, _⟩ := hrest
          rw [allNan_chk (by decide)] at hu
          simp only [ifResult, Bool.false_eq_true, if_false]
          exact memR_union_right hu h1
      | _ => trivial

/-! ### array literals -/

theorem ArrAcc.step_of_not_never (a : ArrAcc) (t : TypeDef) (h : t.kind.isNever = false) :
    a.step t = { a with tds := a.tds ++ [t], fallible := a.fallible || t.fallible } := by
  simp [ArrAcc.step, h]

theorem ArrAcc.step_fallible (a : ArrAcc) (t : TypeDef) : (a.step t).fallible = (a.fallible || t.fallible) := by
  unfold ArrAcc.step; simp only []; split <;> rfl

theorem ArrAcc.step_stop_fallible (a : ArrAcc) (t : TypeDef) (ha : a.stop = none) (td : TypeDef)
    (h : (a.step t).stop = some td) : td.fallible = (a.fallible || t.fallible) := by
  unfold ArrAcc.step at h
  simp only [] at h
  split at h
  · simp only [Option.some.injEq] at h; subst h; rfl
  · simp only [ha] at h; cases h

theorem typeArr_fallible_mono : (es : Exprs) → (T : TState) → (acc : ArrAcc) → acc.stop = none →
    acc.fallible = true → (typeArr es T acc).1.finish.fallible = true
  | .nil, T, acc, hs, hf => by rw [typeArr]; simp [ArrAcc.finish, hs, hf]
  | .cons e es, T, acc, hs, hf => by
    rw [typeArr]
    have hf' : (acc.step (typeInfo e T).1.upgradeUndefined).fallible = true := by
      rw [ArrAcc.step_fallible, hf]; rfl
    cases hst : (acc.step (typeInfo e T).1.upgradeUndefined).stop with
    | some td =>
      simp only [Option.isSome_some, if_true]
      have := ArrAcc.step_stop_fallible acc _ hs td hst
      simp only [ArrAcc.finish, hst]
      rw [this, hf]; rfl
    | none =>
      simp only [Option.isSome_none, Bool.false_eq_true, if_false]
      exact typeArr_fallible_mono es _ _ hst hf'

def ArrSound (acc acc' : ArrAcc) (T' : TState) (cs : List Chk) : Except Res VList × St → Prop
  | (.ok vs, s') => acc'.stop = none ∧ (∃ L, acc'.tds = acc.tds ++ L ∧ ListMem vs L) ∧ Conforms s' T'
  | (.error .err, _) => acc'.finish.fallible = true ∨ Chk.nan ∈ cs
  | (.error (.ret _), _) => False
  | (.error (.ok _), _) => False
  | _ => True

def IHL (es : Exprs) : Prop :=
  ∀ (T : TState) (s : St) (acc : ArrAcc), acc.stop = none → AllNan (checksArr es T acc) → Conforms s T →
    ArrSound acc (typeArr es T acc).1 (typeArr es T acc).2 (checksArr es T acc) (evalList es s)

theorem sound_list_nil : IHL .nil := by
  intro T s acc hs _ hc
  rw [typeArr, evalList]
  exact ⟨hs, ⟨[], by simp, trivial⟩, hc⟩

theorem sound_list_cons (e : Expr) (es : Exprs) (ihe : IH e) (ihl : IHL es) : IHL (.cons e es) := by
  intro T s acc hs hk hc
  rw [checksArr] at hk ⊢
  simp only [allNan_append] at hk
  rw [allNan_chk (by decide)] at hk
  obtain ⟨⟨hke, hret⟩, hkl⟩ := hk
  have h1 := ihe T s hke hc
  rw [typeArr, evalList]
  cases hq : eval e s with
  | mk r s1 =>
    rw [hq] at h1
    cases r with
    | ok v =>
      simp only [Sound] at h1
      have hm : mem v (typeInfo e T).1.upgradeUndefined.kind = true := mem_upgrade_of_memR h1.1
      have hnn := not_never_of_mem v _ hm
      have hstep := ArrAcc.step_of_not_never acc _ hnn
      have hs' : (acc.step (typeInfo e T).1.upgradeUndefined).stop = none := by rw [hstep]; exact hs
      have h2 := ihl (typeInfo e T).2 s1 _ hs' hkl h1.2.2
      simp only [hs', Option.isSome_none, Bool.false_eq_true, if_false]
      cases hq2 : evalList es s1 with
      | mk r2 s2 =>
        rw [hq2] at h2
        cases r2 with
        | ok vs =>
          simp only [ArrSound] at h2 ⊢
          obtain ⟨h2a, ⟨L, hL, hLm⟩, h2c⟩ := h2
          refine ⟨h2a, ⟨(typeInfo e T).1.upgradeUndefined :: L, ?_, hm, h1.2.1, hLm⟩, h2c⟩
          rw [hL, hstep]; simp
        | error r =>
          cases r with
          | err =>
            simp only [ArrSound] at h2 ⊢
            rcases h2 with h | h
            · exact Or.inl h
            · exact Or.inr (List.mem_append_right _ h)
          | ret x => exact h2
          | ok x => exact h2
          | _ => trivial
    | err =>
      simp only [Sound] at h1
      simp only [ArrSound]
      rcases h1 with h | h
      · left
        have hf' : (acc.step (typeInfo e T).1.upgradeUndefined).fallible = true := by
          rw [ArrAcc.step_fallible]
          simp [TypeDef.upgradeUndefined, h]
        cases hst : (acc.step (typeInfo e T).1.upgradeUndefined).stop with
        | some td =>
          simp only [Option.isSome_some, if_true]
          have := ArrAcc.step_stop_fallible acc _ hs td hst
          simp only [ArrAcc.finish, hst]
          rw [this]
          simp [TypeDef.upgradeUndefined, h]
        | none =>
          simp only [Option.isSome_none, Bool.false_eq_true, if_false]
          exact typeArr_fallible_mono es _ _ hst hf'
      · exact Or.inr (List.mem_append_left _ (List.mem_append_left _ h))
    | ret x =>
      simp only [Sound] at h1
      rw [memR_never x _ hret] at h1; cases h1
    | _ => trivial

theorem sound_arr (es : Exprs) (ihl : IHL es) : IH (.arr es) := by
  intro T s hk hc
  rw [checks] at hk ⊢
  have h := ihl T s {} rfl hk hc
  rw [typeInfo, eval]
  cases hq : evalList es s with
  | mk r s1 =>
    rw [hq] at h
    cases r with
    | ok vs =>
      simp only [ArrSound] at h
      obtain ⟨hst, ⟨L, hL, hLm⟩, hc'⟩ := h
      simp only [Sound, ArrAcc.finish, hst]
      have : (typeArr es T {}).1.tds = L := by rw [hL]; rfl
      rw [this]
      exact ⟨memR_of_mem (mem_arr_of_listMem vs L hLm), ListMem.sorted vs L hLm, hc'⟩
    | error r =>
      cases r with
      | err => simp only [ArrSound] at h; simp only [Sound]; exact h
      | ret x => exact absurd h (by simp [ArrSound])
      | ok x => exact absurd h (by simp [ArrSound])
      | _ => trivial

/-! ### object literals -/

theorem ObjAcc.step_of_not_never (a : ObjAcc) (k : Key) (t : TypeDef) (h : t.kind.isNever = false) :
    a.step k t = { a with known := a.known.insert k t.kind, returns := a.returns.union t.returns,
                          fallible := a.fallible || t.fallible } := by
  simp [ObjAcc.step, h]

theorem ObjAcc.step_fallible (a : ObjAcc) (k : Key) (t : TypeDef) :
    (a.step k t).fallible = (a.fallible || t.fallible) := by
  unfold ObjAcc.step; simp only []; split <;> rfl

theorem ObjAcc.step_stop_fallible (a : ObjAcc) (k : Key) (t : TypeDef) (ha : a.stop = none) (td : TypeDef)
    (h : (a.step k t).stop = some td) : td.fallible = (a.fallible || t.fallible) := by
  unfold ObjAcc.step at h
  simp only [] at h
  split at h
  · simp only [Option.some.injEq] at h; subst h; rfl
  · simp only [ha] at h; cases h

theorem typeObj_fallible_mono : (kvs : KExprs) → (T : TState) → (acc : ObjAcc) → acc.stop = none →
    acc.fallible = true → (typeObj kvs T acc).1.finish.fallible = true
  | .nil, T, acc, hs, hf => by rw [typeObj]; simp [ObjAcc.finish, hs, hf]
  | .cons k e kes, T, acc, hs, hf => by
    rw [typeObj]
    have hf' : (acc.step k (typeInfo e T).1.upgradeUndefined).fallible = true := by
      rw [ObjAcc.step_fallible, hf]; rfl
    cases hst : (acc.step k (typeInfo e T).1.upgradeUndefined).stop with
    | some td =>
      simp only [Option.isSome_some, if_true]
      have := ObjAcc.step_stop_fallible acc k _ hs td hst
      simp only [ObjAcc.finish, hst]
      rw [this, hf]; rfl
    | none =>
      simp only [Option.isSome_none, Bool.false_eq_true, if_false]
      exact typeObj_fallible_mono kes _ _ hst hf'

def ObjSound (kes : KExprs) (acc acc' : ObjAcc) (T' : TState) (cs : List Chk) : Except Res VMap × St → Prop
  | (.ok mp, s') =>
    acc'.stop = none ∧ KeysEq mp kes ∧ mp.Sorted = true ∧
    (∀ k x, mp.get k = some x → ∃ K, acc'.known.get k = some K ∧ mem x K = true) ∧
    (∀ k, mp.get k = none → acc'.known.get k = acc.known.get k) ∧ Conforms s' T'
  | (.error .err, _) => acc'.finish.fallible = true ∨ Chk.nan ∈ cs
  | (.error (.ret _), _) => False
  | (.error (.ok _), _) => False
  | _ => True

def IHK (kes : KExprs) : Prop :=
  ∀ (T : TState) (s : St) (acc : ObjAcc), acc.stop = none → keysSorted kes = true →
    AllNan (checksObj kes T acc) → Conforms s T →
    ObjSound kes acc (typeObj kes T acc).1 (typeObj kes T acc).2 (checksObj kes T acc) (evalKVs kes s)

theorem sound_kvs_nil : IHK .nil := by
  intro T s acc hs _ _ hc
  rw [typeObj, evalKVs]
  exact ⟨hs, trivial, rfl, by intro k x h; simp [VMap.get] at h, fun _ _ => rfl, hc⟩

theorem sound_kvs_cons (k : Key) (e : Expr) (kes : KExprs) (ihe : IH e) (ihk : IHK kes) :
    IHK (.cons k e kes) := by
  intro T s acc hs hsorted hk hc
  rw [checksObj] at hk ⊢
  simp only [allNan_append] at hk
  rw [allNan_chk (by decide)] at hk
  obtain ⟨⟨hke, hret⟩, hkl⟩ := hk
  obtain ⟨hgt, hsorted'⟩ := keysSorted_tail_gt k e kes hsorted
  have h1 := ihe T s hke hc
  rw [typeObj, evalKVs]
  cases hq : eval e s with
  | mk r s1 =>
    rw [hq] at h1
    cases r with
    | ok v =>
      simp only [Sound] at h1
      have hm : mem v (typeInfo e T).1.upgradeUndefined.kind = true := mem_upgrade_of_memR h1.1
      have hnn := not_never_of_mem v _ hm
      have hstep := ObjAcc.step_of_not_never acc k _ hnn
      have hs' : (acc.step k (typeInfo e T).1.upgradeUndefined).stop = none := by rw [hstep]; exact hs
      have h2 := ihk (typeInfo e T).2 s1 _ hs' hsorted' hkl h1.2.2
      simp only [hs', Option.isSome_none, Bool.false_eq_true, if_false]
      cases hq2 : evalKVs kes s1 with
      | mk r2 s2 =>
        rw [hq2] at h2
        cases r2 with
        | ok mp =>
          simp only [ObjSound] at h2 ⊢
          obtain ⟨h2a, hkeys, hsrt, hget, hnone, h2c⟩ := h2
          have hknone : mp.get k = none := by
            cases hg : mp.get k with
            | none => rfl
            | some x =>
              have := KeysEq.get_isSome mp kes hkeys k (by simp [hg])
              have := hgt k this
              rw [Key.lt_irrefl] at this; cases this
          have hknown : (acc.step k (typeInfo e T).1.upgradeUndefined).known =
              acc.known.insert k (typeInfo e T).1.upgradeUndefined.kind := by rw [hstep]
          refine ⟨h2a, ⟨rfl, hkeys⟩, ?_, ?_, ?_, h2c⟩
          · simp only [VMap.Sorted, h1.2.1, hsrt, KeysEq.allGt mp kes hkeys k hgt, Bool.and_self]
          · intro q x hx
            simp only [VMap.get] at hx
            by_cases hkq : k = q
            · subst hkq
              simp only [if_true, Option.some.injEq] at hx
              subst hx
              refine ⟨_, ?_, hm⟩
              rw [hnone k hknone, hknown, KList.get_insert_same]
            · simp only [hkq, if_false] at hx
              exact hget q x hx
          · intro q hq'
            simp only [VMap.get] at hq'
            by_cases hkq : k = q
            · simp [hkq] at hq'
            · simp only [hkq, if_false] at hq'
              rw [hnone q hq', hknown, KList.get_insert_other _ _ _ _ hkq]
        | error r =>
          cases r with
          | err =>
            simp only [ObjSound] at h2 ⊢
            rcases h2 with h | h
            · exact Or.inl h
            · exact Or.inr (List.mem_append_right _ h)
          | ret x => exact h2
          | ok x => exact h2
          | _ => trivial
    | err =>
      simp only [Sound] at h1
      simp only [ObjSound]
      rcases h1 with h | h
      · left
        have hf' : (acc.step k (typeInfo e T).1.upgradeUndefined).fallible = true := by
          rw [ObjAcc.step_fallible]
          simp [TypeDef.upgradeUndefined, h]
        cases hst : (acc.step k (typeInfo e T).1.upgradeUndefined).stop with
        | some td =>
          simp only [Option.isSome_some, if_true]
          have := ObjAcc.step_stop_fallible acc k _ hs td hst
          simp only [ObjAcc.finish, hst]
          rw [this]
          simp [TypeDef.upgradeUndefined, h]
        | none =>
          simp only [Option.isSome_none, Bool.false_eq_true, if_false]
          exact typeObj_fallible_mono kes _ _ hst hf'
      · exact Or.inr (List.mem_append_left _ (List.mem_append_left _ h))
    | ret x =>
      simp only [Sound] at h1
      rw [memR_never x _ hret] at h1; cases h1
    | _ => trivial

theorem sound_obj (kvs : KExprs) (ihk : IHK kvs) : IH (.obj kvs) := by
  intro T s hk hc
  rw [checks] at hk ⊢
  simp only [allNan_append] at hk
  rw [allNan_chk (by decide)] at hk
  have h := ihk T s {} rfl hk.1 hk.2 hc
  rw [typeInfo, eval]
  cases hq : evalKVs kvs s with
  | mk r s1 =>
    rw [hq] at h
    cases r with
    | ok mp =>
      simp only [ObjSound] at h
      obtain ⟨hst, _, hsrt, hget, hnone, hc'⟩ := h
      simp only [Sound, ObjAcc.finish, hst]
      refine ⟨memR_of_mem ?_, by simpa [Value.Sorted] using hsrt, hc'⟩
      rw [mem_obj_iff _ _ (VMap.sortedKeys_of_sorted mp hsrt)]
      refine ⟨Col.ofKnown (typeObj kvs T {}).1.known, rfl, ?_, ?_⟩
      · intro q x hx
        obtain ⟨K, hK, hm⟩ := hget q x hx
        simp only [slotKind, Col.ofKnown, Col.known, hK]
        exact hm
      · intro q K' hK hq'
        have := hnone q hq'
        simp only [Col.ofKnown, Col.known] at hK
        rw [this] at hK
        simp [KList.get] at hK
    | error r =>
      cases r with
      | err =>
        simp only [ObjSound] at h
        simp only [Sound]
        rcases h with h | h
        · exact Or.inl h
        · exact Or.inr (List.mem_append_right _ h)
      | ret x => exact absurd h (by simp [ObjSound])
      | ok x => exact absurd h (by simp [ObjSound])
      | _ => trivial

/-! ### `del` on the event / metadata: the root, or one field of an exact object kind -/

theorem value_remove_field (m : VMap) (f : Key) (c : Bool) :
    ((Value.obj m).remove [.field f] c).2 = .obj (m.remove f) := by
  simp only [Value.remove, Value.removeOpt]
  cases hg : m.get f with
  | none => simp [Value.removeOpt, VMap.remove_absent m f hg]
  | some x => simp [Value.removeOpt]

/-- `Kind::remove` at the paths `delPathOk` admits: it succeeds and what is left of a member belongs
    to the kind left behind -/
theorem remove_sound_ok (v : Value) (K : Kind) (p : Path) (c : Bool) (hok : delPathOk K p = true)
    (hm : mem v K = true) (hs : v.Sorted = true) :
    ∃ K' R, K.remove p c = .ok (K', R) ∧ mem (v.remove p c).2 K' = true := by
  cases p with
  | nil =>
    refine ⟨_, _, remove_root_eq K c, ?_⟩
    have : (v.remove [] c).2 = Value.emptied v := by simp [Value.remove, Value.removeOpt]
    rw [this]
    exact mem_emptied v K hm
  | cons sg rest =>
    cases sg with
    | index i => simp [delPathOk] at hok
    | field f =>
      cases rest with
      | cons _ _ => simp [delPathOk] at hok
      | nil =>
        simp only [delPathOk, Bool.and_eq_true, Bool.not_eq_true'] at hok
        obtain ⟨⟨hobj, sK⟩, iK⟩ := hok
        obtain ⟨m, rfl⟩ := memR_isObject hobj (memR_of_mem hm)
        cases K with
        | mk pr a o =>
          cases o with
          | none => simp [mem, Kind.hasObj] at hm
          | some col =>
            cases col with
            | mk kn u =>
              obtain ⟨_, so⟩ := kind_sortedK sK
              obtain ⟨_, io⟩ := kind_infAny iK
              have := remove_field_obj_sound m pr a kn u f c so io (by simpa [Value.Sorted] using hs) hm
              refine ⟨_, _, this.1, ?_⟩
              rw [value_remove_field]
              exact this.2

theorem targetRemove_eq (s : St) (hf : s.faults = []) (m : Bool) (p : Path) (b : Bool) :
    (s.targetRemove m p b).1 = ((if m then s.metadata else s.event).remove p b).1 ∧
    (s.targetRemove m p b).2.vars = s.vars ∧ (s.targetRemove m p b).2.faults = s.faults ∧
    (if m then (s.targetRemove m p b).2.metadata = (s.metadata.remove p b).2 ∧
               (s.targetRemove m p b).2.event = s.event
     else (s.targetRemove m p b).2.event = (s.event.remove p b).2 ∧
          (s.targetRemove m p b).2.metadata = s.metadata) := by
  unfold St.targetRemove St.tick
  simp only [hf, List.contains_nil, Bool.false_eq_true, if_false]
  cases m <;> simp [hf]

/-- the state after `del` against the type state `deleteExt` -/
theorem conforms_delete {s : St} {T : TState} (hc : Conforms s T) (m : Bool) (p : Path) (b : Bool)
    (hok : delPathOk (T.extKind m) p = true) :
    Conforms (s.targetRemove m p b).2 (deleteExt T m p b) := by
  obtain ⟨_, hv, hfa, hrest⟩ := targetRemove_eq s hc.faults m p b
  have hvars : ∀ n d, T.getVar n = some d → varOk (s.targetRemove m p b).2 n d := by
    intro n d hd
    obtain ⟨w, h1, h2⟩ := hc.vars n d hd
    exact ⟨w, by simpa [St.getVar, hv] using h1, h2⟩
  have hclosed : ∀ n w, (s.targetRemove m p b).2.getVar n = some w →
      (T.getVar n).isSome = true ∨ n ∈ T.leaked := by
    intro n w hn
    exact hc.closed n w (by simpa [St.getVar, hv] using hn)
  cases m with
  | false =>
    simp only [Bool.false_eq_true, if_false] at hrest
    simp only [TState.extKind, Bool.false_eq_true, if_false] at hok
    obtain ⟨K', R, hrem, hmem⟩ := remove_sound_ok s.event T.target p b hok hc.event hc.eventSorted
    have : deleteExt T false p b = T.setExt false K' := by
      simp [deleteExt, TState.extKind, hrem]
    rw [this]
    exact ⟨by rw [hfa]; exact hc.faults, hvars, by rw [hrest.1]; exact hmem,
      by rw [hrest.1]; exact C18.remove_sorted _ _ _ hc.eventSorted,
      by rw [hrest.2]; exact hc.metadata, by rw [hrest.2]; exact hc.metadataSorted,
      by cases T; exact hclosed⟩
  | true =>
    simp only [if_true] at hrest
    simp only [TState.extKind, if_true] at hok
    obtain ⟨K', R, hrem, hmem⟩ := remove_sound_ok s.metadata T.metadata p b hok hc.metadata hc.metadataSorted
    have : deleteExt T true p b = T.setExt true K' := by
      simp [deleteExt, TState.extKind, hrem]
    rw [this]
    exact ⟨by rw [hfa]; exact hc.faults, hvars, by rw [hrest.2]; exact hc.event,
      by rw [hrest.2]; exact hc.eventSorted, by rw [hrest.1]; exact hmem,
      by rw [hrest.1]; exact C18.remove_sorted _ _ _ hc.metadataSorted, by cases T; exact hclosed⟩

theorem conforms_delExternal {s' : St} {T : TState} (m : Bool) (p : Path) (compact : Option Bool) (b : Bool)
    (hb : ∀ c, compact = some c → b = c)
    (hk : AllNan (delUnionChecks T m p compact))
    (hc : Conforms s' (deleteExt T m p b)) :
    Conforms s' (delExternal T (some (m, p)) compact) := by
  cases compact with
  | some c => have := hb c rfl; subst this; simpa [delExternal] using hc
  | none =>
    simp only [delExternal, TState.mergeExternal]
    simp only [delUnionChecks, allNan_append] at hk
    rw [allNan_chk (by decide), allNan_chk (by decide)] at hk
    have hloc : ∀ b', (deleteExt T m p b').locals = T.locals ∧ (deleteExt T m p b').leaked = T.leaked := by
      intro b'
      unfold deleteExt
      split
      · unfold TState.setExt; split <;> exact ⟨rfl, rfl⟩
      · exact ⟨rfl, rfl⟩
    cases b with
    | false =>
      exact ⟨hc.faults, hc.vars, mem_union_left' hk.1 hc.event, hc.eventSorted,
        mem_union_left' hk.2 hc.metadata, hc.metadataSorted, hc.closed⟩
    | true =>
      refine ⟨hc.faults, ?_, mem_union_right' hk.1 hc.event, hc.eventSorted,
        mem_union_right' hk.2 hc.metadata, hc.metadataSorted, ?_⟩
      · intro n d hd
        apply hc.vars n d
        simpa [TState.getVar, (hloc true).1, (hloc false).1] using hd
      · intro n w hn
        have := hc.closed n w hn
        simpa [TState.getVar, (hloc true).1, (hloc false).1, (hloc true).2, (hloc false).2] using this

/-- the value `del` returns is what the path held -/
theorem del_result {s : St} {T : TState} (hc : Conforms s T) (m : Bool) (p : Path) (b : Bool)
    (hat : atOk (T.extKind m) p = true) :
    memR (((s.targetRemove m p b).1).getD .null) ((T.extKind m).atPath p) = true ∧
    (((s.targetRemove m p b).1).getD .null).Sorted = true := by
  obtain ⟨hr, _⟩ := targetRemove_eq s hc.faults m p b
  rw [hr, C18.remove_returns_get]
  cases m with
  | false => exact memR_atPath (memR_of_mem hc.event) hc.eventSorted hat
  | true => exact memR_atPath (memR_of_mem hc.metadata) hc.metadataSorted hat

theorem sound_delExt (m : Bool) (p : Path) (hasC : Bool) (c : Expr) (ihc : IH c) : IH (.delExt m p hasC c) := by
  intro T s hk hc
  rw [checks] at hk ⊢
  simp only [allNan_append, delExtChecks] at hk
  obtain ⟨hkc, ⟨hp, hat⟩, hun⟩ := hk
  rw [allNan_chk (by decide)] at hp hat
  rw [typeInfo, eval]
  cases hasC with
  | false =>
    simp only [Bool.false_eq_true, if_false] at hun hp hat ⊢
    have hres := del_result hc m p false hat
    have hconf := conforms_delExternal (T := T) m p none false (fun c h => by cases h) hun
      (conforms_delete hc m p false hp)
    cases hq : s.targetRemove m p false with
    | mk r s1 =>
      rw [hq] at hres hconf
      simp only [Sound, TypeDef.maybeFallible, TypeDef.ofKind]
      exact ⟨hres.1, hres.2, hconf⟩
  | true =>
    simp only [if_true, allNan_append] at hkc hun hp hat ⊢
    rw [allNan_chk (by decide)] at hkc
    simp only [Bool.and_eq_true, Bool.not_eq_true'] at hkc
    have h1 := ihc T s hkc.1 hc
    cases hq : eval c s with
    | mk r1 s1 =>
      rw [hq] at h1
      cases r1 with
      | ok v =>
        simp only [Sound] at h1
        cases v with
        | bool b =>
          simp only
          -- a constant `compact` is the run-time flag
          have hb : ∀ c', (constOf c (typeInfo c T).2).bind asBoolean = some c' → b = c' := by
            intro c' hc'
            cases hcv : constOf c (typeInfo c T).2 with
            | none => rw [hcv] at hc'; cases hc'
            | some cv =>
              have := asg_const hc hq cv hcv
              subst this
              rw [hcv] at hc'
              simpa [asBoolean] using hc'
          have hres := del_result h1.2.2 m p b hat
          have hconf := conforms_delExternal (T := (typeInfo c T).2) m p
            ((constOf c (typeInfo c T).2).bind asBoolean) b hb hun (conforms_delete h1.2.2 m p b hp)
          cases hq2 : s1.targetRemove m p b with
          | mk r s2 =>
            rw [hq2] at hres hconf
            simp only [Sound, TypeDef.maybeFallible, TypeDef.ofKind]
            exact ⟨hres.1, hres.2, hconf⟩
        | _ =>
          -- a `compact` that is not a boolean: typed fallible
          simp only [Sound, TypeDef.maybeFallible]
          left
          simp only [delFallible, TypeDef.ofKind, Bool.false_or, Bool.true_and, Bool.not_eq_true']
          cases hsup : Kind.boolean.isSuperset (typeInfo c T).1.kind with
          | false => rfl
          | true =>
            have := memR_isBoolean (K := Kind.boolean) (by decide)
              (superset_prim_sound _ Kind.boolean _ boolean_noExactAny hsup h1.1)
            obtain ⟨b, hb⟩ := this
            cases hb
      | err =>
        simp only [Sound] at h1 ⊢
        rcases h1 with h | h
        · rw [hkc.2.1] at h; cases h
        · exact Or.inr (List.mem_append_left _ (List.mem_append_left _ h))
      | ret x =>
        simp only [Sound] at h1
        rw [memR_never x _ hkc.2.2] at h1; cases h1
      | _ => trivial

/-! ### `del` on a variable: the root, or one field of an exact object kind -/

theorem conforms_delExternal_none {s : St} {T : TState} (compact : Option Bool) (hc : Conforms s T)
    (hk : compact = none → unionOk T.target T.target = true ∧ unionOk T.metadata T.metadata = true) :
    Conforms s (delExternal T none compact) := by
  cases compact with
  | some b => exact hc
  | none =>
    obtain ⟨h1, h2⟩ := hk rfl
    exact ⟨hc.faults, hc.vars, mem_union_left' h1 hc.event, hc.eventSorted,
      mem_union_left' h2 hc.metadata, hc.metadataSorted, hc.closed⟩

theorem delExternal_none_getVar (T : TState) (compact : Option Bool) (n : String) :
    (delExternal T none compact).getVar n = T.getVar n := by
  cases compact <;> rfl

/-- the variable after `del` against its re-inserted type (`DelFn::type_info`) -/
theorem conforms_delVarUpdate {s : St} {T : TState} {n : String} {p : Path} {d : Details} {v : Value}
    (compact : Option Bool) (b : Bool) (hb : ∀ c, compact = some c → b = c)
    (hd : T.getVar n = some d) (hv : mem v d.td.kind = true) (hs : v.Sorted = true)
    (hok : delPathOk d.td.kind p = true)
    (hu : compact = none → unionOk (removeTd d.td p false).kind (removeTd d.td p true).kind = true)
    (hc : Conforms s T) :
    Conforms (s.setVar n (v.remove p b).2) (delVarUpdate T n p compact) := by
  have hmb : ∀ b', mem (v.remove p b').2 (removeTd d.td p b').kind = true := by
    intro b'
    obtain ⟨K', R, hrem, hmem⟩ := remove_sound_ok v d.td.kind p b' hok hv hs
    simpa [removeTd, hrem] using hmem
  have hso := C18.remove_sorted v p b hs
  unfold delVarUpdate
  rw [hd]
  simp only
  cases compact with
  | some c =>
    have := hb c rfl
    subst this
    have h := Conforms.setVar (n := n) (d := { td := removeTd d.td p b, value := none }) hc (hmb b) hso
      (by intro c h; cases h)
    exact ⟨h.faults, h.vars, h.event, h.eventSorted, h.metadata, h.metadataSorted, h.closed⟩
  | none =>
    have hu := hu rfl
    have hm : mem (v.remove p b).2 ((removeTd d.td p false).union (removeTd d.td p true)).kind = true := by
      cases b with
      | false => exact mem_union_left' hu (hmb false)
      | true => exact mem_union_right' hu (hmb true)
    have h := Conforms.setVar (n := n)
      (d := { td := (removeTd d.td p false).union (removeTd d.td p true), value := none }) hc hm hso
      (by intro c h; cases h)
    exact ⟨h.faults, h.vars, h.event, h.eventSorted, h.metadata, h.metadataSorted, h.closed⟩

/-- `DelFn::resolve` on a variable, once `compact` is known to be `b` -/
theorem delVar_step {s : St} {T : TState} (n : String) (p : Path) (compact : Option Bool) (b : Bool)
    (hb : ∀ c, compact = some c → b = c)
    (hst : AllNan (chk .structural (T.getVar n).isSome)) (hk : AllNan (delVarChecks T n p compact))
    (hc : Conforms s T) (f : Bool) (cs : List Chk) :
    Sound (((varDef T n).atPath p).maybeFallible f) (delVarUpdate (delExternal T none compact) n p compact) cs
      (match s.getVar n with
       | some v =>
         let (r, v') := v.remove p b
         (.ok (r.getD .null), s.setVar n v')
       | none => (.ok .null, s)) := by
  rw [allNan_chk (by decide)] at hst
  cases hd : T.getVar n with
  | none => rw [hd] at hst; cases hst
  | some d =>
    obtain ⟨v, h1, h2, h3, _⟩ := hc.vars n d hd
    simp only [delVarChecks, hd, allNan_append] at hk
    obtain ⟨⟨hp, hat⟩, hun⟩ := hk
    rw [allNan_chk (by decide)] at hp hat
    have hres := memR_atPath (memR_of_mem h2) h3 hat
    have hext : Conforms s (delExternal T none compact) := by
      apply conforms_delExternal_none compact hc
      intro hcn
      subst hcn
      simp only [allNan_append, allNan_chk (c := .kindUnion) (by decide)] at hun
      exact ⟨hun.1.2, hun.2⟩
    have hconf := conforms_delVarUpdate (n := n) (p := p) (d := d) (v := v) compact b hb
      (by rw [delExternal_none_getVar]; exact hd) h2 h3 hp
      (by
        intro hcn
        subst hcn
        simp only [allNan_append, allNan_chk (c := .kindUnion) (by decide)] at hun
        exact hun.1.1) hext
    simp only [h1, Sound, TypeDef.maybeFallible, TypeDef.atPath, varDef, hd]
    rw [C18.remove_returns_get]
    exact ⟨hres.1, hres.2, hconf⟩

theorem sound_delVar (n : String) (p : Path) (hasC : Bool) (c : Expr) (ihc : IH c) : IH (.delVar n p hasC c) := by
  intro T s hk hc
  rw [checks] at hk ⊢
  simp only [allNan_append] at hk
  obtain ⟨⟨hkc, hst⟩, hdv⟩ := hk
  rw [typeInfo, eval]
  cases hasC with
  | false =>
    simp only [Bool.false_eq_true, if_false] at hst hdv ⊢
    exact delVar_step n p none false (fun c h => by cases h) hst hdv hc _ _
  | true =>
    simp only [if_true, allNan_append] at hkc hst hdv ⊢
    rw [allNan_chk (by decide)] at hkc
    simp only [Bool.and_eq_true, Bool.not_eq_true'] at hkc
    have h1 := ihc T s hkc.1 hc
    cases hq : eval c s with
    | mk r1 s1 =>
      rw [hq] at h1
      cases r1 with
      | ok v =>
        simp only [Sound] at h1
        cases v with
        | bool b =>
          simp only
          have hb : ∀ c', (constOf c (typeInfo c T).2).bind asBoolean = some c' → b = c' := by
            intro c' hc'
            cases hcv : constOf c (typeInfo c T).2 with
            | none => rw [hcv] at hc'; cases hc'
            | some cv =>
              have := asg_const hc hq cv hcv
              subst this
              rw [hcv] at hc'
              simpa [asBoolean] using hc'
          exact delVar_step n p _ b hb hst hdv h1.2.2 _ _
        | _ =>
          simp only [Sound, TypeDef.maybeFallible]
          left
          simp only [delFallible, TypeDef.atPath, Bool.true_and, Bool.not_eq_true', Bool.or_eq_true]
          right
          cases hsup : Kind.boolean.isSuperset (typeInfo c T).1.kind with
          | false => rfl
          | true =>
            have := memR_isBoolean (K := Kind.boolean) (by decide)
              (superset_prim_sound _ Kind.boolean _ boolean_noExactAny hsup h1.1)
            obtain ⟨b, hb⟩ := this
            cases hb
      | err =>
        simp only [Sound] at h1 ⊢
        rcases h1 with h | h
        · rw [hkc.2.1] at h; cases h
        · exact Or.inr (List.mem_append_left _ (List.mem_append_left _ (List.mem_append_left _ h)))
      | ret x =>
        simp only [Sound] at h1
        rw [memR_never x _ hkc.2.2] at h1; cases h1
      | _ => trivial

/-! ### forms outside the theorem (a failed check) -/

theorem sound_excluded (e : Expr) (c : Chk) (hc : c ≠ .nan) (h : ∀ T, c ∈ checks e T) : IH e := by
  intro T s hk
  exact absurd (hk c (h T)) hc

/-! ### the induction -/

mutual
  theorem eval_sound : (e : Expr) → IH e
    | .lit v => sound_lit v
    | .noop => sound_noop
    | .grp e => sound_grp e (eval_sound e)
    | .blk es => sound_blk es (evalSeq_sound es)
    | .arr es => sound_arr es (evalList_sound es)
    | .obj kvs => sound_obj kvs (evalKVs_sound kvs)
    | .ifte p t h e => sound_ifte p t h e (evalSeq_sound p) (evalSeq_sound t) (evalSeq_sound e)
    | .op o l r => sound_op o l r (eval_sound l) (eval_sound r)
    | .asg t e => sound_asg t e (eval_sound e)
    | .iasg a b e d => sound_iasg a b e d (eval_sound e)
    | .qext m p => sound_qext m p
    | .qvar n p => sound_qvar n p
    | .qexpr e p => sound_qexpr e p (eval_sound e)
    | .var n => sound_var n
    | .not e => sound_not e (eval_sound e)
    | .abort h m => sound_abort h m (eval_sound m)
    | .ret e => sound_ret e (eval_sound e)
    | .delExt m p h c => sound_delExt m p h c (eval_sound c)
    | .delVar n p h c => sound_delVar n p h c (eval_sound c)
    | .delExpr e p h c => sound_excluded _ .delTyping (by decide) (fun T => by rw [checks]; simp)
    | .existsExt m p => sound_existsExt m p
    | .existsVar n p => sound_existsVar n p
    | .existsExpr e p => sound_existsExpr e p (eval_sound e)
    | .call n a b args hc cv cb => sound_excluded _ .outOfModel (by decide) (fun T => by rw [checks]; simp)
  theorem evalSeq_sound : (es : Exprs) → IHS es
    | .nil => sound_seq_nil
    | .cons e es => sound_seq_cons e es (eval_sound e) (evalSeq_sound es)
  theorem evalList_sound : (es : Exprs) → IHL es
    | .nil => sound_list_nil
    | .cons e es => sound_list_cons e es (eval_sound e) (evalList_sound es)
  theorem evalKVs_sound : (kvs : KExprs) → IHK kvs
    | .nil => sound_kvs_nil
    | .cons k e kes => sound_kvs_cons k e kes (eval_sound e) (evalKVs_sound kes)
end

end Lang
