/-
  Helper lemmas for C32 (iv): every capture of the reference matcher is a contiguous substring of
  the input (for every expression of the subset, any nesting, greedy or lazy).
-/
import VrlModel.GrokRegex

namespace Rx
open Grok (Str)

/-- every recorded capture is a contiguous substring of `input`. -/
def CapsOK (input : Str) (caps : Caps) : Prop := ∀ nt ∈ caps, nt.2 <:+: input

theorem capsOK_nil (input : Str) : CapsOK input [] := by intro nt h; cases h

theorem setCap_ok {input : Str} {caps : Caps} (n t : Str) (h : CapsOK input caps) (ht : t <:+: input) :
    CapsOK input (setCap caps n t) := by
  induction caps with
  | nil => intro nt hnt; simp [setCap] at hnt; subst hnt; exact ht
  | cons kv rest ih =>
    obtain ⟨k, v⟩ := kv
    intro nt hnt
    simp only [setCap] at hnt
    split at hnt
    · rcases List.mem_cons.mp hnt with rfl | h'
      · exact ht
      · exact h nt (List.mem_cons_of_mem _ h')
    · rcases List.mem_cons.mp hnt with rfl | h'
      · exact h _ (by simp)
      · exact ih (fun x hx => h x (List.mem_cons_of_mem _ hx)) nt h'

/-- the text consumed between two positions of the input is a substring of the input. -/
theorem take_infix {input a b : Str} (ha : a <:+ input) (hb : b <:+ a) :
    a.take (a.length - b.length) <:+: input := by
  obtain ⟨pre, hpre⟩ := hb
  obtain ⟨pre2, hpre2⟩ := ha
  subst hpre
  have : (pre ++ b).take ((pre ++ b).length - b.length) = pre := by simp
  rw [this]
  exact ⟨pre2, b, by simp [← hpre2]⟩

/-- "whatever `k` answers from a later position with well-formed captures satisfies `J`". -/
def ContOK (input : Str) (k : K) (bound : Str) (J : Caps → Prop) : Prop :=
  ∀ (st' : St) (caps' res' : Caps), st'.rest <:+ bound → CapsOK input caps' → k st' caps' = some res' → J res'

theorem contOK_mono {input : Str} {k : K} {b1 b2 : Str} {J : Caps → Prop} (h : ContOK input k b1 J)
    (hb : b2 <:+ b1) : ContOK input k b2 J :=
  fun st' caps' res' hs hc hk => h st' caps' res' (List.IsSuffix.trans hs hb) hc hk

/-- the property proved of `run re`, abstracted so that it can be assumed of a loop body. -/
def RunOK (input : Str) (body : K → K) : Prop :=
  ∀ (k : K) (st : St) (caps res : Caps) (J : Caps → Prop),
    st.rest <:+ input → CapsOK input caps → ContOK input k st.rest J → body k st caps = some res → J res

theorem orElse_some {a : Option Caps} {b : Unit → Option Caps} {r : Caps} (h : orElse a b = some r) :
    a = some r ∨ b () = some r := by
  unfold orElse at h
  cases a with
  | some x => left; exact h
  | none => right; exact h

theorem iter_ok {input : Str} {body : K → K} (hbody : RunOK input body) (k : K) (g : Bool) :
    ∀ (n : Nat) (st : St) (caps res : Caps) (J : Caps → Prop),
      st.rest <:+ input → CapsOK input caps → ContOK input k st.rest J →
      iter body k g n st caps = some res → J res := by
  intro n
  induction n with
  | zero =>
    intro st caps res J _ hc hk h
    exact hk st caps res (List.suffix_refl _) hc h
  | succ n ih =>
    intro st caps res J hs hc hk h
    have hagain : body (fun st' caps' =>
        if st'.rest.length < st.rest.length then iter body k g n st' caps' else none) st caps = some res → J res := by
      intro h'
      refine hbody _ st caps res J hs hc ?_ h'
      intro st' caps' res' hs' hc' hk'
      simp only at hk'
      split at hk'
      · exact ih st' caps' res' J (List.IsSuffix.trans hs' hs) hc' (contOK_mono hk hs') hk'
      · cases hk'
    simp only [iter] at h
    split at h
    · rcases orElse_some h with h' | h'
      · exact hagain h'
      · exact hk st caps res (List.suffix_refl _) hc h'
    · rcases orElse_some h with h' | h'
      · exact hk st caps res (List.suffix_refl _) hc h'
      · exact hagain h'

theorem oneChar_ok (input : Str) (p : Char → Bool) : RunOK input (oneChar p) := by
  intro k st caps res J _ hc hk h
  unfold oneChar at h
  split at h
  · rename_i c r hr
    split at h
    · exact hk ⟨some c, r⟩ caps res (by rw [hr]; exact List.suffix_cons c r) hc h
    · cases h
  · cases h

theorem guard_ok (input : Str) (cond : St → Bool) :
    RunOK input (fun k st caps => if cond st then k st caps else none) := by
  intro k st caps res J _ hc hk h
  simp only at h
  split at h
  · exact hk st caps res (List.suffix_refl _) hc h
  · cases h

theorem run_ok (input : Str) (re : Re) : RunOK input (run re) := by
  induction re with
  | eps => intro k st caps res J _ hc hk h; exact hk st caps res (List.suffix_refl _) hc h
  | chr c => exact oneChar_ok input _
  | any => exact oneChar_ok input _
  | set neg items => exact oneChar_ok input _
  | seq a b iha ihb =>
    intro k st caps res J hs hc hk h
    simp only [run] at h
    refine iha _ st caps res J hs hc ?_ h
    intro st' caps' res' hs' hc' hk'
    exact ihb k st' caps' res' J (List.IsSuffix.trans hs' hs) hc' (contOK_mono hk hs') hk'
  | alt a b iha ihb =>
    intro k st caps res J hs hc hk h
    simp only [run] at h
    rcases orElse_some h with h' | h'
    · exact iha k st caps res J hs hc hk h'
    · exact ihb k st caps res J hs hc hk h'
  | rep kind g r ih =>
    intro k st caps res J hs hc hk h
    cases kind with
    | star =>
      simp only [run] at h
      exact iter_ok ih k g _ st caps res J hs hc hk h
    | plus =>
      simp only [run] at h
      refine ih _ st caps res J hs hc ?_ h
      intro st' caps' res' hs' hc' hk'
      exact iter_ok ih k g _ st' caps' res' J (List.IsSuffix.trans hs' hs) hc' (contOK_mono hk hs') hk'
    | opt =>
      simp only [run] at h
      split at h
      · rcases orElse_some h with h' | h'
        · exact ih k st caps res J hs hc hk h'
        · exact hk st caps res (List.suffix_refl _) hc h'
      · rcases orElse_some h with h' | h'
        · exact hk st caps res (List.suffix_refl _) hc h'
        · exact ih k st caps res J hs hc hk h'
  | grp name r ih =>
    intro k st caps res J hs hc hk h
    cases name with
    | none => simp only [run] at h; exact ih k st caps res J hs hc hk h
    | some n =>
      simp only [run] at h
      refine ih _ st caps res J hs hc ?_ h
      intro st' caps' res' hs' hc' hk'
      exact hk st' _ res' hs' (setCap_ok n _ hc' (take_infix hs hs')) hk'
  | bos => exact guard_ok input (fun st => st.prev.isNone)
  | eos => exact guard_ok input (fun st => st.rest.isEmpty)
  | bol => exact guard_ok input (fun st => st.prev.isNone || st.prev = some '\n')
  | eol => exact guard_ok input (fun st => st.rest.isEmpty || st.rest.head? = some '\n')
  | wordb => exact guard_ok input (fun st => atWordB st)
  | nwordb =>
    intro k st caps res J _ hc hk h
    simp only [run] at h
    split at h
    · cases h
    · exact hk st caps res (List.suffix_refl _) hc h

theorem matchAt_ok {input : Str} {re : Re} {prev : Option Char} {rest : Str} {caps : Caps}
    (hs : rest <:+ input) (h : matchAt re prev rest = some caps) : CapsOK input caps := by
  unfold matchAt at h
  refine run_ok input re _ ⟨prev, rest⟩ [] caps (CapsOK input) hs (capsOK_nil input) ?_ h
  intro st' caps' res' _ hc' hk'
  simp at hk'; subst hk'; exact hc'

theorem searchFrom_ok {input : Str} {re : Re} : ∀ (rest : Str) (prev : Option Char) (caps : Caps),
    rest <:+ input → searchFrom re prev rest = some caps → CapsOK input caps := by
  intro rest
  induction rest with
  | nil => intro prev caps hs h; simp only [searchFrom] at h; exact matchAt_ok hs h
  | cons c cs ih =>
    intro prev caps hs h
    simp only [searchFrom] at h
    split at h
    · rename_i r hr; simp at h; subst h; exact matchAt_ok hs hr
    · exact ih (some c) caps (List.IsSuffix.trans (List.suffix_cons c cs) hs) h

end Rx
