/-
  C26, leaves of the case tables: integer casts, float casts, enum lookups, and the round trip of a
  scalar (`convScalar` against `toValue`).
-/
import VrlProofs.Lemmas.Proto

namespace Proto

/-! ### integer casts -/

theorem and_decide_iff {p q : Prop} [Decidable p] [Decidable q] :
    (decide p && decide q) = true ↔ p ∧ q := by
  rw [Bool.and_eq_true]
  exact ⟨fun h => ⟨of_decide_eq_true h.1, of_decide_eq_true h.2⟩, fun h => ⟨decide_eq_true h.1, decide_eq_true h.2⟩⟩

theorem inI32_iff (i : Int) : inI32 i = true ↔ -2147483648 ≤ i ∧ i < 2147483648 := and_decide_iff
theorem inU32_iff (i : Int) : inU32 i = true ↔ 0 ≤ i ∧ i < 4294967296 := and_decide_iff
theorem inI64_iff (i : Int) : inI64 i = true ↔ -9223372036854775808 ≤ i ∧ i < 9223372036854775808 := and_decide_iff

theorem wrapI32_of_in (i : Int) (h : inI32 i = true) : wrapI32 i = i := by
  have := (inI32_iff i).mp h
  simp only [wrapI32, p31, p32]
  omega

theorem wrapU32_of_in (i : Int) (h : inU32 i = true) : wrapU32 i = i := by
  have := (inU32_iff i).mp h
  simp only [wrapU32, p32]
  omega

theorem wrapU64_of_in (i : Int) (h0 : 0 ≤ i) (h1 : i < 9223372036854775808) : wrapU64 i = i := by
  simp only [wrapU64, p64]
  omega

theorem wrapI64_of_in (i : Int) (h0 : -9223372036854775808 ≤ i) (h1 : i < 9223372036854775808) : wrapI64 i = i := by
  simp only [wrapI64, p63, p64]
  omega

/-- `uint64` fields: the two wrapping casts `i as u64` and `u as i64` undo each other on every `i64`. -/
theorem wrapI64_wrapU64 (i : Int) (h : inI64 i = true) : wrapI64 (wrapU64 i) = i := by
  have := (inI64_iff i).mp h
  simp only [wrapI64, wrapU64, p63, p64]
  omega

/-! ### float casts -/

theorem f64_default_iff (b : Nat) (hb : b < F64.p64) (hnz : b ≠ negZero64) :
    (F64.mag b == 0) = (b == 0) := by
  simp only [F64.p64] at hb
  simp only [negZero64] at hnz
  simp only [F64.mag, F64.p63]
  by_cases h : b = 0
  · subst h; rfl
  · have : b % 9223372036854775808 ≠ 0 := by omega
    have e1 : (b % 9223372036854775808 == 0) = false := by rw [beq_eq_false_iff_ne]; exact this
    have e2 : (b == 0) = false := by rw [beq_eq_false_iff_ne]; exact h
    rw [e1, e2]

theorem f32_toF64_of_mag_zero (y : Nat) (h : F32.mag y = 0) :
    F32.toF64 y = 0 ∨ F32.toF64 y = negZero64 := by
  simp only [F32.mag, F32.p31] at h
  have hexp : F32.expField y = 0 := by simp only [F32.expField, F32.p23]; omega
  have hfrac : F32.frac y = 0 := by simp only [F32.frac, F32.p23]; omega
  have hnan : F32.isNaN y = false := by simp [F32.isNaN, F32.mag, F32.p31, h, F32.infBits]
  have hinf : F32.isInf y = false := by simp [F32.isInf, F32.mag, F32.p31, h, F32.infBits]
  have hmant : F32.mant y = 0 := by simp [F32.mant, hexp, hfrac]
  simp only [F32.toF64, hnan, hinf, hmant, F64.roundMag, F64.withSign, negZero64, F64.p63]
  cases F32.signBit y <;> simp

theorem f32_default_iff (b : Nat) (hex : F32.exact b = true) (hnz : b ≠ negZero64) :
    (F32.mag (F32.ofF64 b) == 0) = (b == 0) := by
  simp only [F32.exact, Bool.and_eq_true, beq_iff_eq] at hex
  by_cases h : b = 0
  · subst h; decide
  · have : F32.mag (F32.ofF64 b) ≠ 0 := by
      intro hm
      rcases f32_toF64_of_mag_zero _ hm with h0 | h0
      · rw [hex.2] at h0; exact h h0
      · rw [hex.2] at h0; exact hnz h0
    have e1 : (F32.mag (F32.ofF64 b) == 0) = false := by rw [beq_eq_false_iff_ne]; exact this
    have e2 : (b == 0) = false := by rw [beq_eq_false_iff_ne]; exact h
    rw [e1, e2]

theorem F32.roundMag_le (m : Nat) (e : Int) : F32.roundMag m e ≤ F32.infBits := by
  unfold F32.roundMag F32.clampInf
  split
  · simp [F32.infBits]
  · split <;> omega

theorem F32.mag_withSign (s : Bool) (y : Nat) (h : y ≤ F32.infBits) : F32.mag (F32.withSign s y) = y := by
  simp only [F32.infBits] at h
  cases s <;> simp only [F32.mag, F32.withSign, F32.p31] <;> simp <;> omega

/-- narrowing a double that is no NaN never gives a NaN -/
theorem F32.ofF64_not_nan (b : Nat) (h : F64.isNaN b = false) : F32.isNaN (F32.ofF64 b) = false := by
  have key : ∀ s y, y ≤ F32.infBits → F32.isNaN (F32.withSign s y) = false := by
    intro s y hy
    simp only [F32.isNaN, F32.mag_withSign s y hy]
    simp; exact hy
  unfold F32.ofF64
  rw [h]
  simp only [Bool.false_eq_true, if_false]
  split
  · exact key _ _ (Nat.le_refl _)
  · exact key _ _ (F32.roundMag_le _ _)

/-! ### enum lookups -/

theorem enum_ok_of_pool {pool : Pool} {e : Nat} {ed : EnumDesc} (hok : pool.Ok = true)
    (h : pool.enum e = some ed) : ed.Ok = true := by
  simp only [Pool.Ok, Bool.and_eq_true, List.all_eq_true] at hok
  unfold Pool.enum at h
  exact hok.2 ed (List.mem_of_getElem? h)

theorem msg_ok_of_pool {pool : Pool} {r : Nat} {md : MsgDesc} (hok : pool.Ok = true)
    (h : pool.msg r = some md) : md.Ok = true := by
  simp only [Pool.Ok, Bool.and_eq_true, List.all_eq_true] at hok
  unfold Pool.msg at h
  exact hok.1 md (List.mem_of_getElem? h)

theorem EnumDesc.mem_of_hasName {ed : EnumDesc} {b : List Nat} (h : ed.hasName b = true) :
    ∃ n, (b, n) ∈ ed.values := by
  simp only [EnumDesc.hasName, List.any_eq_true, beq_iff_eq] at h
  obtain ⟨p, hp, he⟩ := h
  exact ⟨p.2, by rw [← he]; exact hp⟩

theorem EnumDesc.byNameCI_of_mem {ed : EnumDesc} (hok : ed.Ok = true) {b : List Nat} {n : Int}
    (hm : (b, n) ∈ ed.values) : ed.byNameCI b = some n := by
  simp only [EnumDesc.Ok, Bool.and_eq_true] at hok
  unfold EnumDesc.byNameCI
  rw [find_of_mem_distinct (fun p : List Nat × Int => p.1.map Utf8L.lowerAscii) _ (b, n)
    (by intro x; simp [Utf8L.eqIgnoreAsciiCase]) ed.values hok.1.1 hm]
  rfl

theorem EnumDesc.byNumber_of_mem {ed : EnumDesc} (hok : ed.Ok = true) {b : List Nat} {n : Int}
    (hm : (b, n) ∈ ed.values) : ed.byNumber n = some b := by
  simp only [EnumDesc.Ok, Bool.and_eq_true] at hok
  unfold EnumDesc.byNumber
  rw [find_of_mem_distinct (fun p : List Nat × Int => p.2) _ (b, n)
    (by intro x; simp) ed.values hok.1.2 hm]
  rfl

theorem EnumDesc.lossy_name {ed : EnumDesc} (hok : ed.Ok = true) {b : List Nat} {n : Int}
    (hm : (b, n) ∈ ed.values) : Utf8L.lossy b = b := by
  simp only [EnumDesc.Ok, Bool.and_eq_true, List.all_eq_true] at hok
  have := hok.2 (b, n) hm
  simpa [Utf8L.valid] using this

theorem EnumDesc.number_unique {ed : EnumDesc} (hok : ed.Ok = true) {b : List Nat} {n n' : Int}
    (hm : (b, n) ∈ ed.values) (hm' : (b, n') ∈ ed.values) : n = n' := by
  have h1 := EnumDesc.byNameCI_of_mem hok hm
  have h2 := EnumDesc.byNameCI_of_mem hok hm'
  rw [h1] at h2
  exact Option.some.inj h2

/-! ### the scalar rows -/


theorem isDefault_singular_scalar (pool : Pool) (f : Field) (s : Scalar) (hk : f.kind = .scalar s)
    (hc : f.card = .singular) (pv : PValue) (hl : ∀ xs, pv ≠ .list xs) (hm : ∀ es, pv ≠ .map es) :
    isDefault pool f pv = isDefault pool ⟨[], 0, .scalar s, .singular⟩ pv := by
  obtain ⟨nm, num, k, c⟩ := f
  simp only at hk hc
  subst hk hc
  cases pv <;> simp [isDefault, Field.isList, Field.isMap] <;> first | exact absurd rfl (hl _) | exact absurd rfl (hm _)

theorem isDefaultValue_singular (pool : Pool) (f : Field) (s : Scalar) (hk : f.kind = .scalar s)
    (hc : f.card = .singular) (x : Value) :
    isDefaultValue pool f x = isDefaultValue pool ⟨[], 0, .scalar s, .singular⟩ x := by
  obtain ⟨nm, num, k, c⟩ := f
  simp only at hk hc
  subst hk hc
  rfl

theorem rt_int (P : Prims) (lossy : Bool) (pool : Pool) (s : Scalar) (i : Int) (pv : PValue)
    (hconv : convScalar P lossy (.int i) s = some pv)
    (hvalid : validKind pv (.scalar s) = true)
    (htv : ∀ ctx, toValue pool ctx pv = some (.int i))
    (hdef : isDefault pool ⟨[], 0, .scalar s, .singular⟩ pv = (i == 0))
    (hl : ∀ xs, pv ≠ .list xs) (hm : ∀ es, pv ≠ .map es) (sing : Bool) :
    ∃ pv, convScalar P lossy (.int i) s = some pv ∧ validKind pv (.scalar s) = true ∧
      (∀ ctx, toValue pool ctx pv = some (.int i)) ∧
      (∀ f : Field, f.kind = .scalar s → f.card = .singular → sing = true →
         isDefault pool f pv = isDefaultValue pool f (.int i)) := by
  refine ⟨pv, hconv, hvalid, htv, ?_⟩
  intro f hk hc _
  rw [isDefault_singular_scalar pool f s hk hc pv hl hm, isDefaultValue_singular pool f s hk hc, hdef]
  rfl

/-- The scalar rows of the two case tables are inverse on shaped scalars. -/
theorem rt_scalar (P : Prims) (lossy : Bool) (pool : Pool) (sing : Bool) (s : Scalar) (x : Value)
    (h : defectScalar sing s x = none) :
    ∃ pv, convScalar P lossy x s = some pv ∧ validKind pv (.scalar s) = true ∧
      (∀ ctx, toValue pool ctx pv = some x) ∧
      (∀ f : Field, f.kind = .scalar s → f.card = .singular → sing = true →
         isDefault pool f pv = isDefaultValue pool f x) := by
  cases s <;> cases x <;> try (simp [defectScalar, Scalar.carrier] at h; done)
  case int32.int i =>
    have hin : inI32 i = true := by
      simp only [defectScalar, Scalar.carrier] at h
      split at h
      · assumption
      · cases h
    apply rt_int P lossy pool .int32 i (.i32 i)
    · simp [convScalar, Scalar.carrier, wrapI32_of_in i hin]
    · rfl
    · intro ctx; simp [toValue]
    · simp [isDefault, Field.isList, Field.isMap, Scalar.carrier]
    · intro xs; simp
    · intro es; simp
  case sint32.int i =>
    have hin : inI32 i = true := by
      simp only [defectScalar, Scalar.carrier] at h
      split at h
      · assumption
      · cases h
    apply rt_int P lossy pool .sint32 i (.i32 i)
    · simp [convScalar, Scalar.carrier, wrapI32_of_in i hin]
    · rfl
    · intro ctx; simp [toValue]
    · simp [isDefault, Field.isList, Field.isMap, Scalar.carrier]
    · intro xs; simp
    · intro es; simp
  case sfixed32.int i =>
    have hin : inI32 i = true := by
      simp only [defectScalar, Scalar.carrier] at h
      split at h
      · assumption
      · cases h
    apply rt_int P lossy pool .sfixed32 i (.i32 i)
    · simp [convScalar, Scalar.carrier, wrapI32_of_in i hin]
    · rfl
    · intro ctx; simp [toValue]
    · simp [isDefault, Field.isList, Field.isMap, Scalar.carrier]
    · intro xs; simp
    · intro es; simp
  case int64.int i =>
    apply rt_int P lossy pool .int64 i (.i64 i)
    · simp [convScalar, Scalar.carrier]
    · rfl
    · intro ctx; simp [toValue]
    · simp [isDefault, Field.isList, Field.isMap, Scalar.carrier]
    · intro xs; simp
    · intro es; simp
  case sint64.int i =>
    apply rt_int P lossy pool .sint64 i (.i64 i)
    · simp [convScalar, Scalar.carrier]
    · rfl
    · intro ctx; simp [toValue]
    · simp [isDefault, Field.isList, Field.isMap, Scalar.carrier]
    · intro xs; simp
    · intro es; simp
  case sfixed64.int i =>
    apply rt_int P lossy pool .sfixed64 i (.i64 i)
    · simp [convScalar, Scalar.carrier]
    · rfl
    · intro ctx; simp [toValue]
    · simp [isDefault, Field.isList, Field.isMap, Scalar.carrier]
    · intro xs; simp
    · intro es; simp
  case uint32.int i =>
    have hin : inU32 i = true := by
      simp only [defectScalar, Scalar.carrier] at h
      split at h
      · assumption
      · cases h
    apply rt_int P lossy pool .uint32 i (.u32 i)
    · simp [convScalar, Scalar.carrier, wrapU32_of_in i hin]
    · rfl
    · intro ctx; simp [toValue]
    · simp [isDefault, Field.isList, Field.isMap, Scalar.carrier]
    · intro xs; simp
    · intro es; simp
  case fixed32.int i =>
    have hin : inU32 i = true := by
      simp only [defectScalar, Scalar.carrier] at h
      split at h
      · assumption
      · cases h
    apply rt_int P lossy pool .fixed32 i (.u32 i)
    · simp [convScalar, Scalar.carrier, wrapU32_of_in i hin]
    · rfl
    · intro ctx; simp [toValue]
    · simp [isDefault, Field.isList, Field.isMap, Scalar.carrier]
    · intro xs; simp
    · intro es; simp
  case uint64.int i =>
    have hin : 0 ≤ i ∧ i < 9223372036854775808 := by
      simp only [defectScalar, Scalar.carrier] at h
      split at h
      · rename_i hc; exact and_decide_iff.mp hc
      · cases h
    apply rt_int P lossy pool .uint64 i (.u64 i)
    · simp [convScalar, Scalar.carrier, wrapU64_of_in i hin.1 hin.2]
    · rfl
    · intro ctx; simp [toValue, wrapI64_of_in i (by omega) hin.2]
    · simp [isDefault, Field.isList, Field.isMap, Scalar.carrier]
    · intro xs; simp
    · intro es; simp
  case fixed64.int i =>
    have hin : 0 ≤ i ∧ i < 9223372036854775808 := by
      simp only [defectScalar, Scalar.carrier] at h
      split at h
      · rename_i hc; exact and_decide_iff.mp hc
      · cases h
    apply rt_int P lossy pool .fixed64 i (.u64 i)
    · simp [convScalar, Scalar.carrier, wrapU64_of_in i hin.1 hin.2]
    · rfl
    · intro ctx; simp [toValue, wrapI64_of_in i (by omega) hin.2]
    · simp [isDefault, Field.isList, Field.isMap, Scalar.carrier]
    · intro xs; simp
    · intro es; simp
  case double.float b =>
    simp only [defectScalar] at h
    split at h
    · cases h
    · rename_i h1
      simp only [Bool.or_eq_true, Bool.not_eq_true', decide_eq_false_iff_not, not_or, Bool.not_eq_true, Decidable.not_not] at h1
      refine ⟨.f64 b, by simp [convScalar], rfl, ?_, ?_⟩
      · intro ctx; simp [toValue, h1.1]
      · intro f hk hc hs
        subst hs
        have hnz : b ≠ negZero64 := by
          intro e
          simp [e] at h
        rw [isDefault_singular_scalar pool f _ hk hc _ (by intro xs; simp) (by intro es; simp),
          isDefaultValue_singular pool f _ hk hc]
        simp only [isDefault, Field.isList, Field.isMap, isDefaultValue]
        exact f64_default_iff b h1.2 hnz
  case float.float b =>
    simp only [defectScalar] at h
    split at h
    · cases h
    · rename_i h1
      simp only [Bool.or_eq_true, Bool.not_eq_true', decide_eq_false_iff_not, not_or, Bool.not_eq_true, Decidable.not_not] at h1
      split at h
      · cases h
      · rename_i h2
        simp only [Bool.not_eq_true', Bool.not_eq_false] at h2
        have hex := h2
        simp only [F32.exact, Bool.and_eq_true, Bool.not_eq_true', beq_iff_eq] at h2
        refine ⟨.f32 (F32.ofF64 b), by simp [convScalar], rfl, ?_, ?_⟩
        · intro ctx; simp [toValue, h2.1, h2.2]
        · intro f hk hc hs
          subst hs
          have hnz : b ≠ negZero64 := by
            intro e
            simp [e] at h
          rw [isDefault_singular_scalar pool f _ hk hc _ (by intro xs; simp) (by intro es; simp),
            isDefaultValue_singular pool f _ hk hc]
          simp only [isDefault, Field.isList, Field.isMap, isDefaultValue]
          exact f32_default_iff b hex hnz
  case bool.bool b =>
    refine ⟨.bool b, by simp [convScalar], rfl, ?_, ?_⟩
    · intro ctx; simp [toValue]
    · intro f hk hc _
      rw [isDefault_singular_scalar pool f _ hk hc _ (by intro xs; simp) (by intro es; simp),
        isDefaultValue_singular pool f _ hk hc]
      simp [isDefault, Field.isList, Field.isMap, isDefaultValue]
  case string.bytes b =>
    have hv : Utf8L.lossy b = b := by
      simp only [defectScalar] at h
      split at h
      · rename_i hv; simpa [Utf8L.valid] using hv
      · cases h
    refine ⟨.string b, by simp [convScalar, hv], rfl, ?_, ?_⟩
    · intro ctx; simp [toValue]
    · intro f hk hc _
      rw [isDefault_singular_scalar pool f _ hk hc _ (by intro xs; simp) (by intro es; simp),
        isDefaultValue_singular pool f _ hk hc]
      simp [isDefault, Field.isList, Field.isMap, isDefaultValue]
  case bytes.bytes b =>
    refine ⟨.bytes b, by simp [convScalar], rfl, ?_, ?_⟩
    · intro ctx; simp [toValue]
    · intro f hk hc _
      rw [isDefault_singular_scalar pool f _ hk hc _ (by intro xs; simp) (by intro es; simp),
        isDefaultValue_singular pool f _ hk hc]
      simp [isDefault, Field.isList, Field.isMap, isDefaultValue]

end Proto
