/-
  Helper lemmas about the containers of `VrlModel.Value` (sorted association lists and arrays).
  `VList`/`VMap` belong to a mutual inductive block, so `induction` is not available: the lemmas
  are proved by structural recursion written as pattern-matching definitions.
-/
import VrlModel.Value

namespace Key

theorem lt_irrefl : (a : List Nat) → Key.lt a a = false
  | [] => rfl
  | x :: xs => by simp [Key.lt, lt_irrefl xs]

theorem lt_asymm : (a b : List Nat) → Key.lt a b = true → Key.lt b a = false
  | [], [], h => by simp [Key.lt] at h
  | [], _ :: _, _ => by simp [Key.lt]
  | _ :: _, [], h => by simp [Key.lt] at h
  | x :: xs, y :: ys, h => by
    simp only [Key.lt] at h ⊢
    by_cases h1 : x < y
    · have : ¬ y < x := by omega
      have : ¬ y = x := by omega
      simp [*]
    · by_cases h2 : x = y
      · subst h2
        simp at h
        simp [lt_asymm xs ys h]
      · simp [h1, h2] at h

theorem lt_trans : (a b c : List Nat) → Key.lt a b = true → Key.lt b c = true → Key.lt a c = true
  | [], [], _, h, _ => by simp [Key.lt] at h
  | [], _ :: _, [], _, h => by simp [Key.lt] at h
  | [], _ :: _, _ :: _, _, _ => by simp [Key.lt]
  | _ :: _, [], _, h, _ => by simp [Key.lt] at h
  | _ :: _, _ :: _, [], _, h => by simp [Key.lt] at h
  | x :: xs, y :: ys, z :: zs, h1, h2 => by
    simp only [Key.lt] at h1 h2 ⊢
    by_cases hxy : x < y
    · by_cases hyz : y < z
      · have : x < z := by omega
        simp [this]
      · by_cases hyz' : y = z
        · subst hyz'; simp [hxy]
        · simp [hyz, hyz'] at h2
    · by_cases hxy' : x = y
      · subst hxy'
        simp at h1
        by_cases hyz : x < z
        · simp [hyz]
        · by_cases hyz' : x = z
          · subst hyz'
            simp at h2
            simp [lt_trans xs ys zs h1 h2]
          · simp [hyz, hyz'] at h2
      · simp [hxy, hxy'] at h1

theorem lt_ne (a b : List Nat) (h : Key.lt a b = true) : a ≠ b := by
  intro e; subst e; simp [lt_irrefl] at h

/-- trichotomy (totality of the key order) -/
theorem lt_total : (a b : List Nat) → Key.lt a b = true ∨ a = b ∨ Key.lt b a = true
  | [], [] => by simp
  | [], _ :: _ => by simp [Key.lt]
  | _ :: _, [] => by simp [Key.lt]
  | x :: xs, y :: ys => by
    simp only [Key.lt]
    by_cases h1 : x < y
    · simp [h1]
    · by_cases h2 : x = y
      · subst h2
        rcases lt_total xs ys with h | h | h
        · simp [h]
        · simp [h]
        · simp [h]
      · have : y < x := by omega
        simp [h1, h2, this]

end Key

namespace VMap

@[simp] theorem get_nil (q : List Nat) : VMap.nil.get q = none := rfl

theorem get_insert_same : (m : VMap) → (q : List Nat) → (x : Value) → (m.insert q x).get q = some x
  | .nil, q, x => by simp [VMap.insert, VMap.get]
  | .cons k v m, q, x => by
    simp only [VMap.insert]
    split
    · simp [VMap.get]
    · split
      · rename_i h; subst h; simp [VMap.get]
      · rename_i h; simp [VMap.get, h, get_insert_same m q x]

theorem get_insert_other : (m : VMap) → (q r : List Nat) → (x : Value) → q ≠ r →
    (m.insert q x).get r = m.get r
  | .nil, q, r, x, h => by simp [VMap.insert, VMap.get, h]
  | .cons k v m, q, r, x, h => by
    simp only [VMap.insert]
    split
    · simp [VMap.get, h]
    · split
      · rename_i h2; subst h2; simp [VMap.get, h]
      · simp [VMap.get, get_insert_other m q r x h]

theorem get_remove_other : (m : VMap) → (q r : List Nat) → q ≠ r → (m.remove q).get r = m.get r
  | .nil, _, _, _ => rfl
  | .cons k v m, q, r, h => by
    simp only [VMap.remove]
    split
    · rename_i h2; subst h2; simp [VMap.get, h]
    · simp [VMap.get, get_remove_other m q r h]

theorem allGt_trans : (m : VMap) → (a b : List Nat) → Key.lt a b = true → allGt b m = true →
    allGt a m = true
  | .nil, _, _, _, _ => rfl
  | .cons l _ m, a, b, hab, h => by
    simp only [allGt, Bool.and_eq_true] at h ⊢
    exact ⟨Key.lt_trans a b l hab h.1, allGt_trans m a b hab h.2⟩

theorem allGt_insert : (m : VMap) → (a q : List Nat) → (x : Value) → Key.lt a q = true →
    allGt a m = true → allGt a (m.insert q x) = true
  | .nil, a, q, x, h, _ => by simp [VMap.insert, allGt, h]
  | .cons k v m, a, q, x, h, hm => by
    simp only [allGt, Bool.and_eq_true] at hm
    simp only [VMap.insert]
    split
    · simp [allGt, h, hm.1, hm.2]
    · split
      · simp [allGt, hm.1, hm.2]
      · simp [allGt, hm.1, allGt_insert m a q x h hm.2]

theorem allGt_remove : (m : VMap) → (a q : List Nat) → allGt a m = true → allGt a (m.remove q) = true
  | .nil, _, _, _ => rfl
  | .cons k v m, a, q, hm => by
    simp only [allGt, Bool.and_eq_true] at hm
    simp only [VMap.remove]
    split
    · exact hm.2
    · simp [allGt, hm.1, allGt_remove m a q hm.2]

end VMap

namespace VList

@[simp] theorem length_nil : VList.nil.length = 0 := rfl
@[simp] theorem length_cons (v : Value) (vs : VList) : (VList.cons v vs).length = vs.length + 1 := rfl

theorem length_append : (a b : VList) → (a.append b).length = a.length + b.length
  | .nil, b => by simp [append]
  | .cons _ vs, b => by simp [append, length_append vs b]; omega

theorem append_nil : (b : VList) → b.append .nil = b
  | .nil => rfl
  | .cons v vs => by simp [append, append_nil vs]

theorem length_nulls : (n : Nat) → (nulls n).length = n
  | 0 => rfl
  | n + 1 => by simp [nulls, length_nulls n]

theorem length_setN : (a : VList) → (n : Nat) → (x : Value) → (a.setN n x).length = a.length
  | .nil, _, _ => rfl
  | .cons _ _, 0, _ => rfl
  | .cons _ vs, n + 1, x => by simp [setN, length_setN vs n x]

theorem getN_setN_same : (a : VList) → (n : Nat) → (x : Value) → n < a.length →
    (a.setN n x).getN n = some x
  | .nil, _, _, h => by simp at h
  | .cons _ _, 0, _, _ => rfl
  | .cons _ vs, n + 1, x, h => by
    simp only [setN, getN]
    exact getN_setN_same vs n x (by simp at h; omega)

theorem getN_setN_other : (a : VList) → (n k : Nat) → (x : Value) → n ≠ k →
    (a.setN n x).getN k = a.getN k
  | .nil, _, _, _, _ => rfl
  | .cons _ _, 0, 0, _, h => by simp at h
  | .cons _ _, 0, k + 1, _, _ => rfl
  | .cons _ _, n + 1, 0, _, _ => rfl
  | .cons _ vs, n + 1, k + 1, x, h => by
    simp only [setN, getN]
    exact getN_setN_other vs n k x (by omega)

theorem getN_append_left : (a b : VList) → (n : Nat) → n < a.length → (a.append b).getN n = a.getN n
  | .nil, _, _, h => by simp at h
  | .cons _ _, _, 0, _ => rfl
  | .cons _ vs, b, n + 1, h => by
    simp only [append, getN]
    exact getN_append_left vs b n (by simp at h; omega)

theorem getN_append_right : (a b : VList) → (n : Nat) → a.length ≤ n →
    (a.append b).getN n = b.getN (n - a.length)
  | .nil, _, _, _ => by simp [append]
  | .cons _ vs, b, 0, h => by simp at h
  | .cons _ vs, b, n + 1, h => by
    simp only [append, getN, length_cons]
    rw [getN_append_right vs b n (by simp at h; omega)]
    congr 1; omega

theorem getN_none_of_le : (a : VList) → (n : Nat) → a.length ≤ n → a.getN n = none
  | .nil, _, _ => rfl
  | .cons _ _, 0, h => by simp at h
  | .cons _ vs, n + 1, h => by
    simp only [getN]; exact getN_none_of_le vs n (by simp at h; omega)

theorem getN_nulls : (k n : Nat) → n < k → (nulls k).getN n = some .null
  | 0, _, h => by omega
  | _ + 1, 0, _ => rfl
  | k + 1, n + 1, h => by simp only [nulls, getN]; exact getN_nulls k n (by omega)

end VList
