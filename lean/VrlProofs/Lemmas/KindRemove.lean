import VrlProofs.Lemmas.KindInsert

/-! `Kind::remove`: the root path. -/

namespace Spec

theorem remove_root_eq (K : Kind) (c : Bool) :
    K.remove [] c = .ok
      ((let k0 := Kind.never
        let k1 := if K.containsObject then k0.orObject Col.empty else k0
        let k2 := if K.containsArray then k1.orArray Col.empty else k1
        if K.containsPrimitive then k2.orNull else k2), K.upgradeUndefined) := by
  simp [Kind.remove, Kind.getO, Kind.atPathPanics, Kind.Outcome.bind, Kind.get, Kind.atPath]

/-- what `remove` leaves at the root belongs to the kind `Kind::remove` leaves at the root. -/
theorem mem_emptied (v : Value) (K : Kind) (h : mem v K = true) :
    mem (Value.emptied v)
      (let k0 := Kind.never
       let k1 := if K.containsObject then k0.orObject Col.empty else k0
       let k2 := if K.containsArray then k1.orArray Col.empty else k1
       if K.containsPrimitive then k2.orNull else k2) = true := by
  have hn := not_never_of_mem v K h
  cases K with
  | mk p a o =>
    cases v with
    | obj m =>
      have hO : (Kind.mk p a o).hasObj = true := mem_obj_hasObj m _ h
      cases o with
      | none => simp [Kind.hasObj] at hO
      | some c =>
        simp only [Value.emptied, Kind.containsObject, Kind.hasObj, Bool.true_or, if_true]
        cases (Kind.mk p a (.some c)).containsArray <;> cases (Kind.mk p a (.some c)).containsPrimitive <;>
          simp [mem, Kind.never, Kind.orObject, Kind.orArray, Kind.orNull, Kind.hasObj, objectD,
            Kind.object, memMap, absentKeysOk, Col.empty, Col.known, KList.keys]
    | arr xs =>
      have hA : (Kind.mk p a o).hasArr = true := mem_arr_hasArr xs _ h
      cases a with
      | none => simp [Kind.hasArr] at hA
      | some c =>
        simp only [Value.emptied, Kind.containsArray, Kind.hasArr, Bool.true_or, if_true]
        cases (Kind.mk p (.some c) o).containsObject <;> cases (Kind.mk p (.some c) o).containsPrimitive <;>
          simp [mem, Kind.never, Kind.orObject, Kind.orArray, Kind.orNull, Kind.hasArr, arrayD,
            Kind.array, memList, absentIdxOk, Col.empty, Col.known, KList.keys, VList.length]
    | _ =>
      have hp := prim_nonempty_of_mem_scalar _ _ h (by intro xs; simp) (by intro m; simp)
      have hcp : (Kind.mk p a o).containsPrimitive = true := by
        simp only [Kind.containsPrimitive, Kind.prim] at hp ⊢; simp [hp]
      simp only [Value.emptied, hcp, if_true]
      cases (Kind.mk p a o).containsObject <;> cases (Kind.mk p a o).containsArray <;>
        simp [mem, Kind.never, Kind.orObject, Kind.orArray, Kind.orNull, Kind.prim]

end Spec
