import VrlModel.C28
import VrlProofs.Lemmas.Sorted

/-! Lemmas for the collection laws of C28. -/

/-! ### `==` on values is equality -/
mutual
  theorem Value.beq_iff : (a b : Value) → (Value.beq a b = true ↔ a = b)
    | .null, b => by cases b <;> simp [Value.beq]
    | .bool x, b => by cases b <;> simp [Value.beq]
    | .int x, b => by cases b <;> simp [Value.beq]
    | .float x, b => by cases b <;> simp [Value.beq]
    | .bytes x, b => by cases b <;> simp [Value.beq]
    | .ts x, b => by cases b <;> simp [Value.beq]
    | .regex x, b => by cases b <;> simp [Value.beq]
    | .arr xs, b => by
      cases b
      case arr ys => simp only [Value.beq, Value.arr.injEq]; exact VList.beq_iff xs ys
      all_goals simp [Value.beq]
    | .obj m, b => by
      cases b
      case obj n => simp only [Value.beq, Value.obj.injEq]; exact VMap.beq_iff m n
      all_goals simp [Value.beq]
  theorem VList.beq_iff : (a b : VList) → (VList.beq a b = true ↔ a = b)
    | .nil, .nil => by simp [VList.beq]
    | .nil, .cons _ _ => by simp [VList.beq]
    | .cons _ _, .nil => by simp [VList.beq]
    | .cons x xs, .cons y ys => by
      simp only [VList.beq, Bool.and_eq_true, VList.cons.injEq]
      rw [Value.beq_iff x y, VList.beq_iff xs ys]
  theorem VMap.beq_iff : (a b : VMap) → (VMap.beq a b = true ↔ a = b)
    | .nil, .nil => by simp [VMap.beq]
    | .nil, .cons _ _ _ => by simp [VMap.beq]
    | .cons _ _ _, .nil => by simp [VMap.beq]
    | .cons k x xs, .cons l y ys => by
      simp only [VMap.beq, Bool.and_eq_true, VMap.cons.injEq, beq_iff_eq]
      rw [Value.beq_iff x y, VMap.beq_iff xs ys]
      exact and_assoc
end

instance : LawfulBEq Value where
  eq_of_beq {a b} h := (Value.beq_iff a b).mp h
  rfl {a} := (Value.beq_iff a a).mpr rfl

namespace Coll

/-! ### `VList` ↔ `List` -/

theorem toList_ofList : (xs : List Value) → toList (ofList xs) = xs
  | [] => rfl
  | x :: xs => by simp [toList, ofList, toList_ofList xs]

theorem length_toList : (xs : VList) → (toList xs).length = xs.length
  | .nil => rfl
  | .cons _ xs => by simp [toList, VList.length, length_toList xs]

/-! ### slice -/

def sliceRange' (s en : Int) (len : Nat) : Option (Nat × Nat) :=
  if s < 0 ∨ s > (len : Int) then none
  else if en < s then none
  else if en > (len : Int) then some (s.toNat, len)
  else some (s.toNat, en.toNat)

def specCore {α : Type} [BEq α] (xs : List α) (start s en : Int) (w : Option (List α)) : Bool :=
  match w with
  | none => !(decide (0 ≤ s) && decide (s ≤ (xs.length : Int)) && decide (s ≤ en))
  | some w =>
    decide (0 ≤ s) && decide (s ≤ (xs.length : Int)) && decide (s ≤ en) &&
      decide ((w.length : Int) = min en (xs.length : Int) - s) &&
    (List.range w.length).all fun k => w[k]? == C28.idx xs (start + k)

theorem idx_at {α : Type} (xs : List α) (start : Int) (i k : Nat)
    (hs : (if start < 0 then start + (xs.length : Int) else start) = (i : Int))
    (hk : i + k < xs.length) : C28.idx xs (start + k) = xs[i + k]? := by
  unfold C28.idx
  split at hs
  · have : ¬ (start + (k : Int) ≥ 0) := by omega
    simp only [this, if_false]
    have h5 : (xs.length : Int) + (start + k) ≥ 0 := by omega
    simp only [h5, if_true]
    congr 1; omega
  · have : start + (k : Int) ≥ 0 := by omega
    simp only [this, if_true]
    congr 1; omega

theorem specCore_ok {α : Type} [BEq α] [LawfulBEq α] (xs : List α) (start s en : Int)
    (hs : (if start < 0 then start + (xs.length : Int) else start) = s) :
    specCore xs start s en
      ((sliceRange' s en xs.length).map fun p => (xs.drop p.1).take (p.2 - p.1)) = true := by
  unfold specCore sliceRange'
  by_cases h1 : s < 0 ∨ s > (xs.length : Int)
  · simp only [h1, if_true, Option.map_none]
    simp only [Bool.not_eq_true', Bool.and_eq_false_iff, decide_eq_false_iff_not]
    omega
  · simp only [h1, if_false]
    by_cases h2 : en < s
    · simp only [h2, if_true, Option.map_none]
      simp only [Bool.not_eq_true', Bool.and_eq_false_iff, decide_eq_false_iff_not]
      omega
    · simp only [h2, if_false]
      obtain ⟨i, hi⟩ : ∃ i : Nat, s = i := ⟨s.toNat, by omega⟩
      subst hi
      have hil : i ≤ xs.length := by omega
      by_cases h3 : en > (xs.length : Int)
      · simp only [h3, if_true, Option.map_some, Int.toNat_natCast]
        simp only [Bool.and_eq_true, decide_eq_true_eq, List.all_eq_true, List.mem_range, beq_iff_eq]
        refine ⟨⟨⟨⟨by omega, by omega⟩, by omega⟩, ?_⟩, ?_⟩
        · simp; omega
        · intro k hk
          simp at hk
          rw [List.getElem?_take, if_pos (by omega), List.getElem?_drop]
          exact (idx_at xs start i k hs (by omega)).symm
      · simp only [h3, if_false, Option.map_some, Int.toNat_natCast]
        obtain ⟨j, hj⟩ : ∃ j : Nat, en = j := ⟨en.toNat, by omega⟩
        subst hj
        simp only [Int.toNat_natCast]
        simp only [Bool.and_eq_true, decide_eq_true_eq, List.all_eq_true, List.mem_range, beq_iff_eq]
        refine ⟨⟨⟨⟨by omega, by omega⟩, by omega⟩, ?_⟩, ?_⟩
        · simp; omega
        · intro k hk
          simp at hk
          rw [List.getElem?_take, if_pos (by omega), List.getElem?_drop]
          exact (idx_at xs start i k hs (by omega)).symm

theorem specSliceL_ok {α : Type} [BEq α] [LawfulBEq α] (xs : List α) (start : Int) (e : Option Int) :
    C28.specSliceL xs start e
      ((sliceRange start e xs.length).map fun p => (xs.drop p.1).take (p.2 - p.1)) = true := by
  cases e with
  | none => exact specCore_ok xs start _ (xs.length : Int) rfl
  | some e0 => exact specCore_ok xs start _ (if e0 < 0 then e0 + (xs.length : Int) else e0) rfl

/-! ### unique -/

theorem veq_refl (a : Value) : veq a a = true := by simp [veq]
theorem veq_symm (a b : Value) : veq a b = veq b a := by simp [veq, eq_comm]
theorem veq_trans (a b c : Value) (h1 : veq a b = true) (h2 : veq b c = true) : veq a c = true := by
  simp only [veq, decide_eq_true_eq] at *
  rw [h1, h2]

/-- `uniqueGo` compares with the kept values only, the Spec with every earlier value: the same,
    because every earlier value equals a kept one. -/
theorem uniqueGo_eq : (xs seen pre : List Value) → (∀ y ∈ seen, y ∈ pre) →
    (∀ y ∈ pre, ∃ z ∈ seen, veq z y = true) → uniqueGo seen xs = C28.firstOccsFrom pre xs
  | [], _, _, _, _ => rfl
  | x :: xs, seen, pre, h1, h2 => by
    have hany : seen.any (veq x) = pre.any (fun y => veq y x) := by
      rw [Bool.eq_iff_iff, List.any_eq_true, List.any_eq_true]
      constructor
      · rintro ⟨z, hz, hv⟩
        exact ⟨z, h1 z hz, by rw [veq_symm]; exact hv⟩
      · rintro ⟨y, hy, hv⟩
        obtain ⟨z, hz, hzy⟩ := h2 y hy
        exact ⟨z, hz, by rw [veq_symm]; exact veq_trans z y x hzy hv⟩
    simp only [uniqueGo, C28.firstOccsFrom, hany]
    split
    · rename_i hdup
      rw [← hany, List.any_eq_true] at hdup
      obtain ⟨z, hz, hv⟩ := hdup
      apply uniqueGo_eq xs seen (x :: pre)
      · intro y hy; exact List.mem_cons_of_mem _ (h1 y hy)
      · intro y hy
        rcases List.mem_cons.mp hy with rfl | hy
        · exact ⟨z, hz, by rw [veq_symm]; exact hv⟩
        · exact h2 y hy
    · congr 1
      apply uniqueGo_eq xs (x :: seen) (x :: pre)
      · intro y hy
        rcases List.mem_cons.mp hy with rfl | hy
        · simp
        · exact List.mem_cons_of_mem _ (h1 y hy)
      · intro y hy
        rcases List.mem_cons.mp hy with rfl | hy
        · exact ⟨y, by simp, veq_refl y⟩
        · obtain ⟨z, hz, hv⟩ := h2 y hy
          exact ⟨z, List.mem_cons_of_mem _ hz, hv⟩

theorem uniqueGo_fresh : (xs seen : List Value) → ∀ y ∈ uniqueGo seen xs, seen.any (veq y) = false
  | [], _ => by simp [uniqueGo]
  | x :: xs, seen => by
    intro y hy
    simp only [uniqueGo] at hy
    split at hy
    · exact uniqueGo_fresh xs seen y hy
    · rename_i hx
      rcases List.mem_cons.mp hy with rfl | hy
      · simpa using hx
      · have := uniqueGo_fresh xs (x :: seen) y hy
        simp only [List.any_cons, Bool.or_eq_false_iff] at this
        exact this.2

theorem distinct_uniqueGo : (xs seen : List Value) → C28.distinct (uniqueGo seen xs) = true
  | [], _ => rfl
  | x :: xs, seen => by
    simp only [uniqueGo]
    split
    · exact distinct_uniqueGo xs seen
    · simp only [C28.distinct, Bool.and_eq_true, Bool.not_eq_true']
      refine ⟨?_, distinct_uniqueGo xs (x :: seen)⟩
      rw [← Bool.not_eq_true, List.any_eq_true]
      rintro ⟨y, hy, hv⟩
      have := uniqueGo_fresh xs (x :: seen) y hy
      simp only [List.any_cons, Bool.or_eq_false_iff] at this
      rw [veq_symm] at hv
      simp [hv] at this

theorem specUnique_ok (xs : List Value) : C28.specUnique xs (uniqueL xs) = true := by
  unfold C28.specUnique uniqueL C28.firstOccs
  have h := uniqueGo_eq xs [] [] (by simp) (by simp)
  have d := distinct_uniqueGo xs []
  rw [h] at d ⊢
  simp [d]

/-! ### compact -/

theorem compactValue_nonrec (o : CompactOptions) (h : o.recursive = false) (v : Value) :
    compactValue o v = v := by
  cases v <;> simp [compactValue, h]

mutual
  theorem clean_compactValue (o : CompactOptions) (h : o.recursive = true) :
      (v : Value) → C28.cleanV o (compactValue o v) = true
    | .arr xs => by simp only [compactValue, h, if_true, C28.cleanV]; exact clean_compactList o xs
    | .obj m => by simp only [compactValue, h, if_true, C28.cleanV]; exact clean_compactMap o m
    | .null => by simp [compactValue, C28.cleanV]
    | .bool _ => by simp [compactValue, C28.cleanV]
    | .int _ => by simp [compactValue, C28.cleanV]
    | .float _ => by simp [compactValue, C28.cleanV]
    | .bytes _ => by simp [compactValue, C28.cleanV]
    | .ts _ => by simp [compactValue, C28.cleanV]
    | .regex _ => by simp [compactValue, C28.cleanV]
  theorem clean_compactList (o : CompactOptions) : (xs : VList) → C28.cleanL o (compactList o xs) = true
    | .nil => by simp [compactList, C28.cleanL]
    | .cons v vs => by
      simp only [compactList]
      split
      · exact clean_compactList o vs
      · rename_i hne
        simp only [C28.cleanL, Bool.and_eq_true, Bool.not_eq_true', Bool.or_eq_true]
        refine ⟨⟨by simpa using hne, ?_⟩, clean_compactList o vs⟩
        cases hr : o.recursive
        · exact Or.inl rfl
        · exact Or.inr (clean_compactValue o hr v)
  theorem clean_compactMap (o : CompactOptions) : (m : VMap) → C28.cleanM o (compactMap o m) = true
    | .nil => by simp [compactMap, C28.cleanM]
    | .cons k v m => by
      simp only [compactMap]
      split
      · exact clean_compactMap o m
      · rename_i hne
        simp only [C28.cleanM, Bool.and_eq_true, Bool.not_eq_true', Bool.or_eq_true]
        refine ⟨⟨by simpa using hne, ?_⟩, clean_compactMap o m⟩
        cases hr : o.recursive
        · exact Or.inl rfl
        · exact Or.inr (clean_compactValue o hr v)
end

theorem subL_skip (deep : Bool) (x : Value) (xs : VList) : (rs : VList) → C28.subL deep xs rs = true →
    C28.subL deep (.cons x xs) rs = true
  | .nil, _ => by simp [C28.subL]
  | .cons r rs, h => by simp [C28.subL, h]

theorem subM_skip (deep : Bool) (k : List Nat) (x : Value) (m : VMap) : (rm : VMap) →
    C28.subM deep m rm = true → C28.subM deep (.cons k x m) rm = true
  | .nil, _ => by simp [C28.subM]
  | .cons l r rm, h => by simp [C28.subM, h]

mutual
  theorem sub_compactValue (o : CompactOptions) (h : o.recursive = true) :
      (v : Value) → C28.subV true v (compactValue o v) = true
    | .arr xs => by
      have hc : compactValue o (.arr xs) = .arr (compactList o xs) := by simp [compactValue, h]
      rw [hc, C28.subV]; have := sub_compactList o xs; rwa [h] at this
    | .obj m => by
      have hc : compactValue o (.obj m) = .obj (compactMap o m) := by simp [compactValue, h]
      rw [hc, C28.subV]; have := sub_compactMap o m; rwa [h] at this
    | .null => by simp [compactValue, C28.subV]
    | .bool _ => by simp [compactValue, C28.subV]
    | .int _ => by simp [compactValue, C28.subV]
    | .float _ => by simp [compactValue, C28.subV]
    | .bytes _ => by simp [compactValue, C28.subV]
    | .ts _ => by simp [compactValue, C28.subV]
    | .regex _ => by simp [compactValue, C28.subV]
  theorem sub_compactList (o : CompactOptions) : (xs : VList) →
      C28.subL o.recursive xs (compactList o xs) = true
    | .nil => by simp [compactList, C28.subL]
    | .cons v vs => by
      simp only [compactList]
      split
      · exact subL_skip _ _ _ _ (sub_compactList o vs)
      · simp only [C28.subL, Bool.or_eq_true, Bool.and_eq_true]
        refine Or.inl ⟨?_, sub_compactList o vs⟩
        cases hr : o.recursive
        · simp [compactValue_nonrec o hr]
        · simp only [if_true]; exact sub_compactValue o hr v
  theorem sub_compactMap (o : CompactOptions) : (m : VMap) →
      C28.subM o.recursive m (compactMap o m) = true
    | .nil => by simp [compactMap, C28.subM]
    | .cons k v m => by
      simp only [compactMap]
      split
      · exact subM_skip _ _ _ _ _ (sub_compactMap o m)
      · simp only [C28.subM, Bool.or_eq_true, Bool.and_eq_true, beq_self_eq_true, true_and]
        refine Or.inl ⟨?_, sub_compactMap o m⟩
        cases hr : o.recursive
        · simp [compactValue_nonrec o hr]
        · simp only [if_true]; exact sub_compactValue o hr v
end

mutual
  theorem compactValue_clean (o : CompactOptions) : (v : Value) → C28.cleanV o v = true →
      compactValue o v = v
    | .arr xs, h => by
      simp only [C28.cleanV] at h
      simp only [compactValue, compactList_clean o xs h, ite_self]
    | .obj m, h => by
      simp only [C28.cleanV] at h
      simp only [compactValue, compactMap_clean o m h, ite_self]
    | .null, _ => rfl
    | .bool _, _ => rfl
    | .int _, _ => rfl
    | .float _, _ => rfl
    | .bytes _, _ => rfl
    | .ts _, _ => rfl
    | .regex _, _ => rfl
  theorem compactList_clean (o : CompactOptions) : (xs : VList) → C28.cleanL o xs = true →
      compactList o xs = xs
    | .nil, _ => rfl
    | .cons v vs, h => by
      simp only [C28.cleanL, Bool.and_eq_true, Bool.not_eq_true', Bool.or_eq_true] at h
      have hv : compactValue o v = v := by
        rcases h.1.2 with hr | hc
        · exact compactValue_nonrec o hr v
        · exact compactValue_clean o v hc
      simp only [compactList, hv, h.1.1, compactList_clean o vs h.2]
      simp
  theorem compactMap_clean (o : CompactOptions) : (m : VMap) → C28.cleanM o m = true →
      compactMap o m = m
    | .nil, _ => rfl
    | .cons k v m, h => by
      simp only [C28.cleanM, Bool.and_eq_true, Bool.not_eq_true', Bool.or_eq_true] at h
      have hv : compactValue o v = v := by
        rcases h.1.2 with hr | hc
        · exact compactValue_nonrec o hr v
        · exact compactValue_clean o v hc
      simp only [compactMap, hv, h.1.1, compactMap_clean o m h.2]
      simp
end

theorem specCompact_list (o : CompactOptions) (xs : VList) :
    C28.specCompact o (.arr xs) (.arr (compactList o xs)) = true := by
  simp only [C28.specCompact, C28.cleanV, C28.subV, Bool.and_eq_true, Bool.or_eq_true, Bool.not_eq_true']
  refine ⟨⟨clean_compactList o xs, sub_compactList o xs⟩, ?_⟩
  cases hc : C28.cleanL o xs
  · exact Or.inl rfl
  · right; rw [compactList_clean o xs hc]; simp

theorem specCompact_map (o : CompactOptions) (m : VMap) :
    C28.specCompact o (.obj m) (.obj (compactMap o m)) = true := by
  simp only [C28.specCompact, C28.cleanV, C28.subV, Bool.and_eq_true, Bool.or_eq_true, Bool.not_eq_true']
  refine ⟨⟨clean_compactMap o m, sub_compactMap o m⟩, ?_⟩
  cases hc : C28.cleanM o m
  · exact Or.inl rfl
  · right; rw [compactMap_clean o m hc]; simp

/-! ### keys / values / length -/

theorem get_none_of_allGt : (m : VMap) → (k : List Nat) → VMap.allGt k m = true → m.get k = none
  | .nil, _, _ => rfl
  | .cons l v m, k, h => by
    simp only [VMap.allGt, Bool.and_eq_true] at h
    have hne : l ≠ k := fun e => Key.lt_ne k l h.1 e.symm
    simp only [VMap.get, hne, if_false]
    exact get_none_of_allGt m k h.2

theorem get_cons_of_get (k : List Nat) (v : Value) (m : VMap) (h : VMap.allGt k m = true)
    (q : List Nat) (x : Value) (hq : m.get q = some x) : (VMap.cons k v m).get q = some x := by
  have : k ≠ q := by
    intro e; subst e; rw [get_none_of_allGt m k h] at hq; cases hq
  simp [VMap.get, this, hq]

theorem lookupOK_cons (k : List Nat) (v : Value) (m : VMap) (h : VMap.allGt k m = true) :
    (ks vs : List Value) → C28.lookupOK m ks vs = true → C28.lookupOK (.cons k v m) ks vs = true
  | [], [], _ => rfl
  | [], _ :: _, h' => by simp [C28.lookupOK] at h'
  | .bytes q :: ks, x :: vs, h' => by
    simp only [C28.lookupOK, Bool.and_eq_true, beq_iff_eq] at h' ⊢
    exact ⟨get_cons_of_get k v m h q x h'.1, lookupOK_cons k v m h ks vs h'.2⟩
  | .null :: _, _, h' => by simp [C28.lookupOK] at h'
  | .bool _ :: _, _, h' => by simp [C28.lookupOK] at h'
  | .int _ :: _, _, h' => by simp [C28.lookupOK] at h'
  | .float _ :: _, _, h' => by simp [C28.lookupOK] at h'
  | .ts _ :: _, _, h' => by simp [C28.lookupOK] at h'
  | .regex _ :: _, _, h' => by simp [C28.lookupOK] at h'
  | .arr _ :: _, _, h' => by simp [C28.lookupOK] at h'
  | .obj _ :: _, _, h' => by simp [C28.lookupOK] at h'
  | .bytes _ :: _, [], h' => by simp [C28.lookupOK] at h'

theorem entriesOK_ok : (m : VMap) → C28.entriesOK m ((keysL m).map Value.bytes) (valuesL m) = true
  | .nil => rfl
  | .cons k v m => by simp [keysL, valuesL, C28.entriesOK, entriesOK_ok m]

theorem lookupOK_ok : (m : VMap) → m.Sorted = true →
    C28.lookupOK m ((keysL m).map Value.bytes) (valuesL m) = true
  | .nil, _ => rfl
  | .cons k v m, h => by
    simp only [VMap.Sorted, Bool.and_eq_true] at h
    simp only [keysL, valuesL, List.map_cons, C28.lookupOK, VMap.get, if_true, Bool.and_eq_true, beq_self_eq_true,
      true_and]
    exact lookupOK_cons k v m h.1.2 _ _ (lookupOK_ok m h.2)

theorem length_keysL : (m : VMap) → (keysL m).length = m.length
  | .nil => rfl
  | .cons _ _ m => by simp [keysL, VMap.length, length_keysL m]

theorem length_valuesL : (m : VMap) → (valuesL m).length = m.length
  | .nil => rfl
  | .cons _ _ m => by simp [valuesL, VMap.length, length_valuesL m]

theorem specKVL_ok (m : VMap) (h : m.Sorted = true) :
    C28.specKVL m ((keysL m).map Value.bytes) (valuesL m) m.length = true := by
  simp [C28.specKVL, entriesOK_ok, lookupOK_ok m h, length_keysL, length_valuesL]

/-! ### merge -/

/-- the value under `q` after merging `b` (distinct keys) into `to`. -/
theorem get_mergeMaps (deep : Bool) : (b to : VMap) → b.Sorted = true → (q : List Nat) →
    (mergeMaps deep to b).get q =
      match b.get q with
      | some v => some (mergeField deep (to.get q) v)
      | none => to.get q
  | .nil, _, _, _ => rfl
  | .cons k v rest, to, h, q => by
    simp only [VMap.Sorted, Bool.and_eq_true] at h
    rw [mergeMaps, get_mergeMaps deep rest _ h.2 q]
    by_cases hq : k = q
    · subst hq
      simp only [get_none_of_allGt rest k h.1.2, VMap.get_insert_same, VMap.get, if_true]
    · simp only [VMap.get, hq, if_false, VMap.get_insert_other _ k q _ hq]

theorem mem_keysL_get : (m : VMap) → (k : List Nat) → k ∈ keysL m → (m.get k).isSome = true
  | .nil, _, h => by simp [keysL] at h
  | .cons l v m, k, h => by
    simp only [keysL, List.mem_cons] at h
    by_cases hk : l = k
    · simp [VMap.get, hk]
    · simp only [VMap.get, hk, if_false]
      exact mem_keysL_get m k (h.resolve_left (fun e => hk e.symm))

theorem frameOK_ok (deep : Bool) (a b : VMap) (hb : b.Sorted = true) :
    C28.frameOK a b (mergeMaps deep a b) = true := by
  simp only [C28.frameOK, Bool.and_eq_true, List.all_eq_true, Bool.or_eq_true, beq_iff_eq]
  constructor
  · intro k _
    rw [get_mergeMaps deep b a hb k]
    cases hk : b.get k
    · exact Or.inr rfl
    · exact Or.inl rfl
  · intro k hk
    have := mem_keysL_get _ k hk
    rw [get_mergeMaps deep b a hb k] at this
    cases hk : b.get k
    · simp only [hk] at this; exact Or.inl this
    · exact Or.inr rfl

mutual
  /-- every entry of `b'` is reflected in `r`, given what `r` holds under the keys of `b'`. -/
  theorem mergeOK_ok (deep : Bool) (a r : VMap) : (b' : VMap) → b'.Sorted = true →
      (∀ k v, b'.get k = some v → r.get k = some (mergeField deep (a.get k) v)) →
      C28.mergeOK deep a r b' = true
    | .nil, _, _ => rfl
    | .cons k v rest, hs, h => by
      simp only [VMap.Sorted, Bool.and_eq_true] at hs
      simp only [C28.mergeOK, Bool.and_eq_true]
      constructor
      · rw [h k v (by simp [VMap.get])]
        exact fieldOK_ok deep (a.get k) v hs.1.1
      · apply mergeOK_ok deep a r rest hs.2
        intro q x hq
        exact h q x (get_cons_of_get k v rest hs.1.2 q x hq)
  theorem fieldOK_ok (deep : Bool) (old : Option Value) : (v : Value) → v.Sorted = true →
      C28.fieldOK deep old (some (mergeField deep old v)) v = true
    | .obj c2, hs => by
      simp only [Value.Sorted] at hs
      cases deep
      · simp [C28.fieldOK, mergeField]
      · cases old with
        | none => simp [C28.fieldOK, mergeField]
        | some o =>
          cases o with
          | obj c1 =>
            simp only [C28.fieldOK, mergeField, Bool.and_eq_true]
            refine ⟨?_, frameOK_ok true c1 c2 hs⟩
            apply mergeOK_ok true c1 _ c2 hs
            intro k v hk
            rw [get_mergeMaps true c2 c1 hs k, hk]
          | _ => simp [C28.fieldOK, mergeField]
    | .null, _ => by simp [C28.fieldOK, mergeField]
    | .bool _, _ => by simp [C28.fieldOK, mergeField]
    | .int _, _ => by simp [C28.fieldOK, mergeField]
    | .float _, _ => by simp [C28.fieldOK, mergeField]
    | .bytes _, _ => by simp [C28.fieldOK, mergeField]
    | .ts _, _ => by simp [C28.fieldOK, mergeField]
    | .regex _, _ => by simp [C28.fieldOK, mergeField]
    | .arr _, _ => by simp [C28.fieldOK, mergeField]
end

theorem specMerge_ok (deep : Bool) (a b : VMap) (hb : b.Sorted = true) :
    C28.specMerge deep a b (mergeMaps deep a b) = true := by
  simp only [C28.specMerge, Bool.and_eq_true]
  refine ⟨?_, frameOK_ok deep a b hb⟩
  apply mergeOK_ok deep a _ b hb
  intro k v hk
  rw [get_mergeMaps deep b a hb k, hk]

end Coll
