import VrlModel.C28

/-! Lemmas for the collection laws of C28. -/

/-! ### `==` on values is equality -/
mutual
  theorem Value.beq_iff : (a b : Value) → (Value.beq a b = true ↔ a = b)
    | .null, b => by cases b <;> simp [Value.beq]
    | .bool x, b => by cases b <;> simp [Value.beq]
    | .int x, b => by cases b <;> simp [Value.beq]
    | .float x, b => by cases b <;> simp [Value.beq]
    | .bytes x, b => by cases b <;> simp [Value.beq]
    | .ts x, b => by cases b <;> simp [Value.beq]
    | .regex x, b => by cases b <;> simp [Value.beq]
    | .arr xs, b => by
      cases b
      case arr ys => simp only [Value.beq, Value.arr.injEq]; exact VList.beq_iff xs ys
      all_goals simp [Value.beq]
    | .obj m, b => by
      cases b
      case obj n => simp only [Value.beq, Value.obj.injEq]; exact VMap.beq_iff m n
      all_goals simp [Value.beq]
  theorem VList.beq_iff : (a b : VList) → (VList.beq a b = true ↔ a = b)
    | .nil, .nil => by simp [VList.beq]
    | .nil, .cons _ _ => by simp [VList.beq]
    | .cons _ _, .nil => by simp [VList.beq]
    | .cons x xs, .cons y ys => by
      simp only [VList.beq, Bool.and_eq_true, VList.cons.injEq]
      rw [Value.beq_iff x y, VList.beq_iff xs ys]
  theorem VMap.beq_iff : (a b : VMap) → (VMap.beq a b = true ↔ a = b)
    | .nil, .nil => by simp [VMap.beq]
    | .nil, .cons _ _ _ => by simp [VMap.beq]
    | .cons _ _ _, .nil => by simp [VMap.beq]
    | .cons k x xs, .cons l y ys => by
      simp only [VMap.beq, Bool.and_eq_true, VMap.cons.injEq, beq_iff_eq]
      rw [Value.beq_iff x y, VMap.beq_iff xs ys]
      exact and_assoc
end

instance : LawfulBEq Value where
  eq_of_beq {a b} h := (Value.beq_iff a b).mp h
  rfl {a} := (Value.beq_iff a a).mpr rfl

namespace Coll

/-! ### `VList` ↔ `List` -/

theorem toList_ofList : (xs : List Value) → toList (ofList xs) = xs
  | [] => rfl
  | x :: xs => by simp [toList, ofList, toList_ofList xs]

theorem length_toList : (xs : VList) → (toList xs).length = xs.length
  | .nil => rfl
  | .cons _ xs => by simp [toList, VList.length, length_toList xs]

/-! ### slice -/

def sliceRange' (s en : Int) (len : Nat) : Option (Nat × Nat) :=
  if s < 0 ∨ s > (len : Int) then none
  else if en < s then none
  else if en > (len : Int) then some (s.toNat, len)
  else some (s.toNat, en.toNat)

def specCore {α : Type} [BEq α] (xs : List α) (start s en : Int) (w : Option (List α)) : Bool :=
  match w with
  | none => !(decide (0 ≤ s) && decide (s ≤ (xs.length : Int)) && decide (s ≤ en))
  | some w =>
    decide (0 ≤ s) && decide (s ≤ (xs.length : Int)) && decide (s ≤ en) &&
      decide ((w.length : Int) = min en (xs.length : Int) - s) &&
    (List.range w.length).all fun k => w[k]? == C28.idx xs (start + k)

theorem idx_at {α : Type} (xs : List α) (start : Int) (i k : Nat)
    (hs : (if start < 0 then start + (xs.length : Int) else start) = (i : Int))
    (hk : i + k < xs.length) : C28.idx xs (start + k) = xs[i + k]? := by
  unfold C28.idx
  split at hs
  · have : ¬ (start + (k : Int) ≥ 0) := by omega
    simp only [this, if_false]
    have h5 : (xs.length : Int) + (start + k) ≥ 0 := by omega
    simp only [h5, if_true]
    congr 1; omega
  · have : start + (k : Int) ≥ 0 := by omega
    simp only [this, if_true]
    congr 1; omega

theorem specCore_ok {α : Type} [BEq α] [LawfulBEq α] (xs : List α) (start s en : Int)
    (hs : (if start < 0 then start + (xs.length : Int) else start) = s) :
    specCore xs start s en
      ((sliceRange' s en xs.length).map fun p => (xs.drop p.1).take (p.2 - p.1)) = true := by
  unfold specCore sliceRange'
  by_cases h1 : s < 0 ∨ s > (xs.length : Int)
  · simp only [h1, if_true, Option.map_none]
    simp only [Bool.not_eq_true', Bool.and_eq_false_iff, decide_eq_false_iff_not]
    omega
  · simp only [h1, if_false]
    by_cases h2 : en < s
    · simp only [h2, if_true, Option.map_none]
      simp only [Bool.not_eq_true', Bool.and_eq_false_iff, decide_eq_false_iff_not]
      omega
    · simp only [h2, if_false]
      obtain ⟨i, hi⟩ : ∃ i : Nat, s = i := ⟨s.toNat, by omega⟩
      subst hi
      have hil : i ≤ xs.length := by omega
      by_cases h3 : en > (xs.length : Int)
      · simp only [h3, if_true, Option.map_some, Int.toNat_natCast]
        simp only [Bool.and_eq_true, decide_eq_true_eq, List.all_eq_true, List.mem_range, beq_iff_eq]
        refine ⟨⟨⟨⟨by omega, by omega⟩, by omega⟩, ?_⟩, ?_⟩
        · simp; omega
        · intro k hk
          simp at hk
          rw [List.getElem?_take, if_pos (by omega), List.getElem?_drop]
          exact (idx_at xs start i k hs (by omega)).symm
      · simp only [h3, if_false, Option.map_some, Int.toNat_natCast]
        obtain ⟨j, hj⟩ : ∃ j : Nat, en = j := ⟨en.toNat, by omega⟩
        subst hj
        simp only [Int.toNat_natCast]
        simp only [Bool.and_eq_true, decide_eq_true_eq, List.all_eq_true, List.mem_range, beq_iff_eq]
        refine ⟨⟨⟨⟨by omega, by omega⟩, by omega⟩, ?_⟩, ?_⟩
        · simp; omega
        · intro k hk
          simp at hk
          rw [List.getElem?_take, if_pos (by omega), List.getElem?_drop]
          exact (idx_at xs start i k hs (by omega)).symm

theorem specSliceL_ok {α : Type} [BEq α] [LawfulBEq α] (xs : List α) (start : Int) (e : Option Int) :
    C28.specSliceL xs start e
      ((sliceRange start e xs.length).map fun p => (xs.drop p.1).take (p.2 - p.1)) = true := by
  cases e with
  | none => exact specCore_ok xs start _ (xs.length : Int) rfl
  | some e0 => exact specCore_ok xs start _ (if e0 < 0 then e0 + (xs.length : Int) else e0) rfl

end Coll
