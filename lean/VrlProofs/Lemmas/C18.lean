import VrlModel.C18
import VrlProofs.Lemmas.Value

namespace VList

/-! `arrayIndex`, `getIdx`, `insertIdx` by cases, with the index given as a natural number
    (`i = n`) or as a negated positive natural number (`i = -k`). -/

theorem arrayIndex_ofNat (a : VList) (n : Nat) : a.arrayIndex (n : Int) = some n := by
  simp [arrayIndex]

theorem arrayIndex_neg_in (a : VList) (k : Nat) (hk : 0 < k) (hle : k ≤ a.length) :
    a.arrayIndex (-(k : Int)) = some (a.length - k) := by
  unfold arrayIndex
  have h1 : ¬ (-(k : Int)) ≥ 0 := by omega
  have h2 : (a.length : Int) + -(k : Int) ≥ 0 := by omega
  simp only [h1, h2, ↓reduceIte]
  congr 1; omega

theorem arrayIndex_neg_out (a : VList) (k : Nat) (hgt : a.length < k) :
    a.arrayIndex (-(k : Int)) = none := by
  unfold arrayIndex
  have h1 : ¬ (-(k : Int)) ≥ 0 := by omega
  have h2 : ¬ (a.length : Int) + -(k : Int) ≥ 0 := by omega
  simp only [h1, h2, ↓reduceIte]

theorem getIdx_ofNat (a : VList) (n : Nat) : a.getIdx (n : Int) = a.getN n := by
  simp [getIdx, arrayIndex_ofNat]

theorem getIdx_neg_in (a : VList) (k : Nat) (hk : 0 < k) (hle : k ≤ a.length) :
    a.getIdx (-(k : Int)) = a.getN (a.length - k) := by
  simp [getIdx, arrayIndex_neg_in a k hk hle]

theorem getIdx_neg_out (a : VList) (k : Nat) (hgt : a.length < k) :
    a.getIdx (-(k : Int)) = none := by
  simp [getIdx, arrayIndex_neg_out a k hgt]

theorem insertIdx_ofNat_ge (a : VList) (n : Nat) (x : Value) (h : a.length ≤ n) :
    a.insertIdx (n : Int) x = (a.append (nulls (n - a.length))).append (.cons x .nil) := by
  simp [insertIdx, h]

theorem insertIdx_ofNat_lt (a : VList) (n : Nat) (x : Value) (h : n < a.length) :
    a.insertIdx (n : Int) x = a.setN n x := by
  have : ¬ a.length ≤ n := by omega
  simp [insertIdx, this]

theorem insertIdx_neg_gt (a : VList) (k : Nat) (x : Value) (hk : 0 < k) (h : a.length < k) :
    a.insertIdx (-(k : Int)) x = .cons x ((nulls (k - 1 - a.length)).append a) := by
  unfold insertIdx
  have h1 : ¬ (-(k : Int)) ≥ 0 := by omega
  have h2 : (- -(k : Int)).toNat = k := by omega
  simp only [h1, ↓reduceIte, h2, h]

theorem insertIdx_neg_le (a : VList) (k : Nat) (x : Value) (hk : 0 < k) (h : k ≤ a.length) :
    a.insertIdx (-(k : Int)) x = a.setN (a.length - k) x := by
  unfold insertIdx
  have h1 : ¬ (-(k : Int)) ≥ 0 := by omega
  have h2 : (- -(k : Int)).toNat = k := by omega
  have h3 : ¬ a.length < k := by omega
  have h4 : ((a.length : Int) + -(k : Int)).toNat = a.length - k := by omega
  simp only [h1, ↓reduceIte, h2, h3, h4]

theorem int_cases (i : Int) : (∃ n : Nat, i = n) ∨ (∃ k : Nat, 0 < k ∧ i = -(k : Int)) := by
  by_cases h : 0 ≤ i
  · exact .inl ⟨i.toNat, by omega⟩
  · exact .inr ⟨(-i).toNat, by omega, by omega⟩

theorem getIdx_insertIdx_same (a : VList) (i : Int) (y : Value) :
    (a.insertIdx i y).getIdx i = some y := by
  rcases int_cases i with ⟨n, rfl⟩ | ⟨k, hk, rfl⟩
  · rw [getIdx_ofNat]
    by_cases h : a.length ≤ n
    · rw [insertIdx_ofNat_ge a n y h]
      have hl : (a.append (nulls (n - a.length))).length = n := by
        simp [length_append, length_nulls]; omega
      rw [getN_append_right _ _ _ (by omega), hl, Nat.sub_self]; rfl
    · rw [insertIdx_ofNat_lt a n y (by omega)]
      exact getN_setN_same a n y (by omega)
  · by_cases h : a.length < k
    · rw [insertIdx_neg_gt a k y hk h]
      have hl : (VList.cons y ((nulls (k - 1 - a.length)).append a)).length = k := by
        simp [length_append, length_nulls]; omega
      rw [getIdx_neg_in _ k hk (by omega), hl, Nat.sub_self]; rfl
    · rw [insertIdx_neg_le a k y hk (by omega)]
      rw [getIdx_neg_in _ k hk (by rw [length_setN]; omega), length_setN]
      exact getN_setN_same a _ y (by omega)

/-- An in-range replacement, an append or a prepend does not disturb any other index of the same sign. -/
theorem getIdx_insertIdx_other (a : VList) (i j : Int) (y : Value)
    (hok : C18.idxOK a.length i = true) (hne : i ≠ j) (hs : (decide (0 ≤ i)) = (decide (0 ≤ j))) :
    (a.insertIdx i y).getIdx j = a.getIdx j := by
  unfold C18.idxOK at hok
  simp only [Bool.or_eq_true, Bool.and_eq_true, decide_eq_true_eq] at hok
  rcases int_cases i with ⟨n, rfl⟩ | ⟨k, hk, rfl⟩
  · have hj : 0 ≤ j := by
      have : decide (0 ≤ (n : Int)) = true := by simp
      rw [this] at hs
      simpa using hs.symm
    obtain ⟨m, rfl⟩ : ∃ m : Nat, j = m := ⟨j.toNat, by omega⟩
    have hnm : n ≠ m := by omega
    rw [getIdx_ofNat, getIdx_ofNat]
    by_cases h : a.length ≤ n
    · have hn : n = a.length := by omega
      subst hn
      rw [insertIdx_ofNat_ge a _ y (Nat.le_refl _), Nat.sub_self]
      simp only [nulls]
      have happ : a.append .nil = a := append_nil a
      rw [happ]
      by_cases hm : m < a.length
      · exact getN_append_left a _ m hm
      · rw [getN_none_of_le a m (by omega)]
        apply getN_none_of_le
        simp [length_append]; omega
    · rw [insertIdx_ofNat_lt a n y (by omega)]
      exact getN_setN_other a n m y hnm
  · have hj : ¬ 0 ≤ j := by
      have : decide (0 ≤ -(k : Int)) = false := by simp; omega
      rw [this] at hs
      simpa using hs.symm
    obtain ⟨l, hl, rfl⟩ : ∃ l : Nat, 0 < l ∧ j = -(l : Int) := ⟨(-j).toNat, by omega, by omega⟩
    have hkl : k ≠ l := by omega
    by_cases h : a.length < k
    · have hk1 : k = a.length + 1 := by omega
      rw [insertIdx_neg_gt a k y hk h]
      have h0 : k - 1 - a.length = 0 := by omega
      simp only [h0, nulls, append]
      by_cases hin : l ≤ a.length
      · rw [getIdx_neg_in _ l hl (by simp; omega), getIdx_neg_in a l hl hin]
        have : (VList.cons y a).length - l = (a.length - l) + 1 := by simp; omega
        rw [this]; rfl
      · rw [getIdx_neg_out a l (by omega)]
        apply getIdx_neg_out
        simp; omega
    · rw [insertIdx_neg_le a k y hk (by omega)]
      by_cases hin : l ≤ a.length
      · rw [getIdx_neg_in _ l hl (by rw [length_setN]; exact hin), getIdx_neg_in a l hl hin, length_setN]
        exact getN_setN_other a _ _ y (by omega)
      · rw [getIdx_neg_out a l (by omega)]
        apply getIdx_neg_out
        rw [length_setN]; omega

/-- `insert_value` hands back what `get_value` finds (both `none` outside the array). -/
theorem insertIdxPrev_eq_getIdx (a : VList) (i : Int) : a.insertIdxPrev i = a.getIdx i := by
  rcases int_cases i with ⟨n, rfl⟩ | ⟨k, hk, rfl⟩
  · rw [getIdx_ofNat]
    unfold VList.insertIdxPrev
    by_cases h : a.length ≤ n
    · simp [h, getN_none_of_le a n h]
    · simp [h]
  · unfold VList.insertIdxPrev
    have hneg : ¬ (-(k : Int) ≥ 0) := by omega
    simp only [hneg, if_false]
    by_cases h : a.length < k
    · rw [getIdx_neg_out a k h]
      simp only [Int.neg_neg, Int.toNat_natCast, h, if_true]
    · have hle : k ≤ a.length := by omega
      rw [getIdx_neg_in a k hk hle]
      simp only [Int.neg_neg, Int.toNat_natCast, h, if_false]
      congr 1
      omega

end VList
