/-
  C30 helper lemmas, part 4: wildcards (printed raw) are read back as `TERM_GLOB` (or `STAR`), given
  the shape conditions of the normal form.
-/
import VrlProofs.Lemmas.SearchLeaves

namespace Search
open Grammar

def notGlob (c : Char) : Bool := !isGlobChar c

/-- a wildcard splits into its leading run of non-glob characters and the rest, which is empty or
    starts with a glob character -/
theorem split_glob : (w : Str) →
    (w.takeWhile notGlob).all notGlob = true ∧
    (w.dropWhile notGlob = [] ∨ ∃ g y', w.dropWhile notGlob = g :: y' ∧ isGlobChar g = true)
  | [] => ⟨rfl, Or.inl rfl⟩
  | c :: w => by
    obtain ⟨h1, h2⟩ := split_glob w
    rw [List.takeWhile_cons, List.dropWhile_cons]
    by_cases hc : notGlob c = true
    · simp only [hc, if_true, List.all_cons, h1, Bool.and_self, true_and]
      exact h2
    · simp only [hc, Bool.false_eq_true, if_false, List.all_nil, true_and]
      right
      exact ⟨c, w, rfl, by simpa [notGlob] using hc⟩

theorem glob_invalid (g : Char) (h : isGlobChar g = true) : isInvalidStartChar g = true := by
  simp only [isGlobChar, Bool.or_eq_true, beq_iff_eq] at h
  cases h with
  | inl h => subst h; rfl
  | inr h => subst h; rfl

theorem termStop_glob (g : Char) (r : Str) (h : isGlobChar g = true) : termStop (g :: r) = true := by
  simp only [isGlobChar, Bool.or_eq_true, beq_iff_eq] at h
  cases h with
  | inl h => subst h; rfl
  | inr h => subst h; rfl

/-- a character allowed inside a raw wildcard is not a terminator -/
theorem midglob_not_end (d : Char) (r : Str) (h : (isMidChar d || isGlobChar d) = true) :
    atTermEnd (d :: r) = false := by
  simp only [atTermEnd]
  cases hw : isWs d with
  | true =>
    exfalso
    simp only [isWs, Bool.or_eq_true, beq_iff_eq] at hw
    rcases hw with ((e | e) | e) | e <;> subst e <;> simp [isMidChar, isGlobChar, isInvalidStartChar, isWs] at h
  | false =>
    by_cases e1 : d = ')'
    · subst e1; simp [isMidChar, isGlobChar, isInvalidStartChar] at h
    · by_cases e2 : d = ']'
      · subst e2; simp [isMidChar, isGlobChar, isInvalidStartChar] at h
      · by_cases e3 : d = '}'
        · subst e3; simp [isMidChar, isGlobChar, isInvalidStartChar] at h
        · simp [e1, e2, e3]

theorem startsWith_mono : (p s t : Str) → startsWith p s = true → startsWith p (s ++ t) = true
  | [], s, t, _ => startsWith_nil _
  | a :: p, [], t, h => by simp [startsWith_cons_nil] at h
  | a :: p, c :: s, t, h => by
    simp only [List.cons_append, startsWith_cons, Bool.and_eq_true, decide_eq_true_eq] at h ⊢
    exact ⟨h.1, startsWith_mono p s t h.2⟩

theorem kwStart_mono (s t : Str) (h : kwStart s = true) : kwStart (s ++ t) = true := by
  simp only [kwStart, Bool.or_eq_true] at h ⊢
  rcases h with (((h | h) | h) | h) | h
  · exact Or.inl (Or.inl (Or.inl (Or.inl (startsWith_mono _ s t h))))
  · exact Or.inl (Or.inl (Or.inl (Or.inr (startsWith_mono _ s t h))))
  · exact Or.inl (Or.inl (Or.inr (startsWith_mono _ s t h)))
  · exact Or.inl (Or.inr (startsWith_mono _ s t h))
  · exact Or.inr (startsWith_mono _ s t h)

/-! ### `TERM_CHAR_GLOB*` -/

/-- where a run of glob term characters stops -/
def globStop (rest : Str) : Bool :=
  match rest with
  | [] => true
  | c :: _ => isInvalidStartChar c && c != '-' && c != '+' && c != '=' && c != '\\' && c != '*' && c != '?'

theorem globStop_termStop {rest : Str} (h : globStop rest = true) : termStop rest = true := by
  cases rest with
  | nil => rfl
  | cons c r =>
    simp only [globStop, Bool.and_eq_true] at h
    simp only [termStop, Bool.and_eq_true]
    exact h.1.1

theorem ItemEnd.globStop {rest : Str} (h : ItemEnd rest) : globStop rest = true := by
  rcases h with h | ⟨r, h⟩ | ⟨r, h⟩ | ⟨r, h⟩ <;> subst h <;> rfl

theorem termCharsGlob_cons (c : Char) (r : Str) (h : c ≠ '\\') :
    termCharsGlob (c :: r) =
      if !invalidStart (c :: r) || c == '-' || c == '+' || c == '=' || c == '*' || c == '?' then
        (c :: (termCharsGlob r).1, (termCharsGlob r).2)
      else ([], c :: r) := by
  conv => lhs; unfold termCharsGlob
  simp [h]

theorem termCharsGlob_stop (rest : Str) (h : globStop rest = true) : termCharsGlob rest = ([], rest) := by
  cases rest with
  | nil => rfl
  | cons c r =>
    simp only [globStop, Bool.and_eq_true, bne_iff_ne, ne_eq] at h
    obtain ⟨⟨⟨⟨⟨⟨h1, h2⟩, h3⟩, h4⟩, h5⟩, h6⟩, h7⟩ := h
    rw [termCharsGlob_cons c r h5]
    simp [invalidStart_cons, h1, h2, h3, h4, h6, h7]

theorem termCharsGlob_raw : (r rest : Str) → r.all (fun c => isMidChar c || isGlobChar c) = true →
    globStop rest = true → termCharsGlob (r ++ rest) = (r, rest)
  | [], rest, _, hr => termCharsGlob_stop rest hr
  | c :: r, rest, hm, hr => by
    simp only [List.all_cons, Bool.and_eq_true] at hm
    have hc : c ≠ '\\' := by
      intro e; subst e; exact absurd hm.1 (by decide)
    have ih := termCharsGlob_raw r rest hm.2 hr
    rw [List.cons_append, termCharsGlob_cons c _ hc, ih]
    have hcond : (!invalidStart (c :: (r ++ rest)) || c == '-' || c == '+' || c == '=' || c == '*' || c == '?') = true := by
      have hm1 := hm.1
      simp only [isMidChar, isGlobChar, Bool.or_eq_true, Bool.not_eq_true'] at hm1
      rcases hm1 with (((h | h) | h) | h) | (h | h)
      · simp [invalidStart_cons, h]
      · simp [h]
      · simp [h]
      · simp [h]
      · simp [h]
      · simp [h]
    simp [hcond]

/-! ### the pieces of a raw wildcard -/

theorem takeWhile_mid : (t : Str) → t.all (fun c => isMidChar c || isGlobChar c) = true →
    (t.takeWhile notGlob).all isMidChar = true
  | [], _ => rfl
  | c :: t, h => by
    simp only [List.all_cons, Bool.and_eq_true] at h
    rw [List.takeWhile_cons]
    by_cases hc : notGlob c = true
    · simp only [hc, if_true, List.all_cons, takeWhile_mid t h.2, Bool.and_true]
      have : isGlobChar c = false := by simpa [notGlob] using hc
      simpa [this] using h.1
    · simp [hc]

theorem dropWhile_all {p : Char → Bool} (q : Char → Bool) : (t : Str) → t.all q = true → (t.dropWhile p).all q = true
  | [], _ => rfl
  | c :: t, h => by
    simp only [List.all_cons, Bool.and_eq_true] at h
    rw [List.dropWhile_cons]
    by_cases hc : p c = true
    · simp only [hc, if_true]; exact dropWhile_all q t h.2
    · simp only [hc, Bool.false_eq_true, if_false, List.all_cons, h.1, h.2, Bool.and_self]

theorem dropWhile_nil_noGlob : (w : Str) → w.dropWhile notGlob = [] → w.any isGlobChar = false
  | [], _ => rfl
  | c :: w, h => by
    rw [List.dropWhile_cons] at h
    by_cases hc : notGlob c = true
    · simp only [hc, if_true] at h
      have : isGlobChar c = false := by simpa [notGlob] using hc
      simp [this, dropWhile_nil_noGlob w h]
    · simp [hc] at h

/-- the facts about `w = c0 :: t` the proofs below share -/
structure WParts (c0 : Char) (t : Str) : Prop where
  nbs : c0 ≠ '\\'
  tail : t.all (fun c => isMidChar c || isGlobChar c) = true
  first : isInvalidStartChar c0 = false ∨ isGlobChar c0 = true

theorem wparts (c0 : Char) (t : Str) (hraw : rawGlobChars (c0 :: t) = true) : WParts c0 t := by
  simp only [rawGlobChars, Bool.and_eq_true, Bool.or_eq_true, Bool.not_eq_true'] at hraw
  refine ⟨?_, hraw.2, hraw.1⟩
  intro e; subst e
  cases hraw.1 with
  | inl h => exact absurd h (by decide)
  | inr h => exact absurd h (by decide)

/-- `TERM_GLOB` reads the whole raw wildcard -/
theorem termGlob_raw (c0 : Char) (t rest : Str) (hp : WParts c0 t) (hr : ItemEnd rest) :
    termGlob (c0 :: (t ++ rest)) = some (c0 :: t, rest) := by
  have hstart : globStart (c0 :: (t ++ rest)) = some ([c0], t ++ rest) := by
    unfold globStart
    rw [termStartChar_cons c0 _ hp.nbs, invalidStart_cons]
    cases hp.first with
    | inl h => simp [h]
    | inr h =>
      have hi := glob_invalid c0 h
      simp only [isGlobChar, Bool.or_eq_true, beq_iff_eq] at h
      simp [hi, h]
  unfold termGlob
  rw [hstart]
  simp [termCharsGlob_raw t rest hp.tail hr.globStop, hr.atTermEnd]

/-- the scan `TERM_START_CHAR ~ TERM_CHAR*` of a raw wildcard: nothing when it starts with a glob
    character, otherwise exactly its leading run of non-glob characters -/
theorem termScan_wild (c0 : Char) (t rest : Str) (hp : WParts c0 t)
    (hr : termStop rest = true) :
    (isGlobChar c0 = true ∧ termScan (c0 :: (t ++ rest)) = none) ∨
    (isGlobChar c0 = false ∧
      termScan (c0 :: (t ++ rest)) =
        some ((c0 :: t).takeWhile notGlob, (c0 :: t).dropWhile notGlob ++ rest)) := by
  by_cases hg : isGlobChar c0 = true
  · left
    refine ⟨hg, ?_⟩
    unfold termScan
    rw [termStartChar_cons c0 _ hp.nbs, invalidStart_cons, glob_invalid c0 hg]
    rfl
  · right
    have hg' : isGlobChar c0 = false := by simpa using hg
    refine ⟨hg', ?_⟩
    have hinv : isInvalidStartChar c0 = false := by
      cases hp.first with
      | inl h => exact h
      | inr h => rw [hg'] at h; cases h
    have hx : (c0 :: t).takeWhile notGlob = c0 :: t.takeWhile notGlob := by
      simp [List.takeWhile_cons, notGlob, hg']
    have hy : (c0 :: t).dropWhile notGlob = t.dropWhile notGlob := by
      simp [List.dropWhile_cons, notGlob, hg']
    have hsplit : c0 :: (t ++ rest) = (c0 :: t.takeWhile notGlob) ++ (t.dropWhile notGlob ++ rest) := by
      rw [List.cons_append, ← List.append_assoc, List.takeWhile_append_dropWhile]
    rw [hx, hy, hsplit]
    apply termScan_raw
    · simp
    · simp only [rawTermChars, hinv, Bool.not_false, Bool.true_and]
      exact takeWhile_mid t hp.tail
    · rcases (split_glob t).2 with h | ⟨g, y', h, hgl⟩
      · rw [h]; exact hr
      · rw [h]; exact termStop_glob g _ hgl

/-- `value` on a raw wildcard other than `*` -/
theorem value_wildcard (w rest : Str) (hne : w ≠ []) (hraw : rawGlobChars w = true)
    (hgk : (w.any isGlobChar || kwStart w) = true) (hps : prefixShape w = false) (hstar : w ≠ ['*'])
    (hr : ItemEnd rest) : value (w ++ rest) = some (.glob w, rest) := by
  cases w with
  | nil => exact absurd rfl hne
  | cons c0 t =>
    have hp := wparts c0 t hraw
    rw [List.cons_append]
    -- first character
    have n2 : c0 ≠ '"' := by
      intro e; subst e
      cases hp.first with
      | inl h => exact absurd h (by decide)
      | inr h => exact absurd h (by decide)
    have n3 : c0 ≠ '>' := by
      intro e; subst e
      cases hp.first with
      | inl h => exact absurd h (by decide)
      | inr h => exact absurd h (by decide)
    have n4 : c0 ≠ '<' := by
      intro e; subst e
      cases hp.first with
      | inl h => exact absurd h (by decide)
      | inr h => exact absurd h (by decide)
    have n5 : c0 ≠ '[' := by
      intro e; subst e
      cases hp.first with
      | inl h => exact absurd h (by decide)
      | inr h => exact absurd h (by decide)
    have n6 : c0 ≠ '{' := by
      intro e; subst e
      cases hp.first with
      | inl h => exact absurd h (by decide)
      | inr h => exact absurd h (by decide)
    -- `STAR ~ &TERM_END_CHAR` does not apply
    have a1 : starValue (c0 :: (t ++ rest)) = none := by
      by_cases e : c0 = '*'
      · subst e
        cases t with
        | nil => exact absurd rfl hstar
        | cons d t' =>
          have hd := hp.tail
          simp only [List.all_cons, Bool.and_eq_true] at hd
          simp [starValue, midglob_not_end d (t' ++ rest) hd.1]
      · exact starValue_ne c0 _ e
    -- the scan of the leading run
    have a36 : termPrefix (c0 :: (t ++ rest)) = none ∧ termValue (c0 :: (t ++ rest)) = none := by
      rcases termScan_wild c0 t rest hp hr.termStop with ⟨hg, hs⟩ | ⟨hg, hs⟩
      · refine ⟨by simp [termPrefix, hs], ?_⟩
        unfold termValue term
        rw [hs]
        by_cases hk : noKeyword (c0 :: (t ++ rest)) = true <;> simp [hk]
      · have hy : (c0 :: t).dropWhile notGlob = t.dropWhile notGlob := by
          simp [List.dropWhile_cons, notGlob, hg]
        have hx : (c0 :: t).takeWhile notGlob = c0 :: t.takeWhile notGlob := by
          simp [List.takeWhile_cons, notGlob, hg]
        rcases (split_glob t).2 with h | ⟨g, y', h, hgl⟩
        · -- no glob character at all: the wildcard starts with a keyword
          rw [hy, h, List.nil_append] at hs
          have hnog : (c0 :: t).any isGlobChar = false := dropWhile_nil_noGlob (c0 :: t) (by rw [hy, h])
          have hkw : kwStart (c0 :: t) = true := by simpa [hnog] using hgk
          refine ⟨termPrefix_none_of_scan _ _ rest hs hr.not_star, ?_⟩
          have : noKeyword (c0 :: (t ++ rest)) = false := by
            rw [noKeyword_eq]
            have := kwStart_mono (c0 :: t) rest hkw
            rw [List.cons_append] at this
            simp [this]
          simp [termValue, term, this]
        · rw [hy, h] at hs
          have hy'all : y'.all (fun c => isMidChar c || isGlobChar c) = true := by
            have := dropWhile_all (p := notGlob) (fun c => isMidChar c || isGlobChar c) t hp.tail
            rw [h] at this
            simp only [List.all_cons, Bool.and_eq_true] at this
            exact this.2
          refine ⟨?_, ?_⟩
          · unfold termPrefix
            rw [hs]
            simp only [List.cons_append]
            by_cases e : g = '*'
            · subst e
              cases y' with
              | nil =>
                exfalso
                have : prefixShape (c0 :: t) = true := by
                  show (!((c0 :: t).takeWhile notGlob).isEmpty && (c0 :: t).dropWhile notGlob == ['*']) = true
                  rw [hx, hy, h]; rfl
                rw [this] at hps; cases hps
              | cons d y'' =>
                simp only [List.all_cons, Bool.and_eq_true] at hy'all
                simp [midglob_not_end d (y'' ++ rest) hy'all.1]
            · simp [e]
          · unfold termValue term
            rw [hs]
            have : atTermEnd (g :: (y' ++ rest)) = false := midglob_not_end g _ (by simp [hgl])
            by_cases hk : noKeyword (c0 :: (t ++ rest)) = true <;> simp [hk, this]
    simp only [value, a1, alt_none, phraseValue, phrase_ne c0 _ n2, Option.map_none, prefixValue, a36.1,
      comparison_ne c0 _ n3 n4, range_ne c0 _ n5 n6, a36.2, globValue, termGlob_raw c0 t rest hp hr,
      Option.map_some]


/-! ### the wildcard leaf -/

theorem rawGlob_noBackslash (w : Str) (h : rawGlobChars w = true) : ∀ c ∈ w, c ≠ '\\' := by
  cases w with
  | nil => simp
  | cons c0 t =>
    simp only [rawGlobChars, Bool.and_eq_true, List.all_eq_true] at h
    intro d hd
    simp only [List.mem_cons] at hd
    cases hd with
    | inl e => subst e; intro e; subst e; exact absurd h.1 (by decide)
    | inr hd => intro e; subst e; exact absurd (h.2 _ hd) (by decide)

theorem matchall_star_ne (d : Char) (r : Str) (h : d ≠ ':') : matchall ('*' :: d :: r) = none := by
  simp [matchall, stripPrefix, Ne.symm h]

/-- nothing comes before the clause when a default-field wildcard is an element of a query -/
theorem wildcard_default_front (w rest : Str) (hne : w ≠ []) (hraw : rawGlobChars w = true)
    (hstar : w ≠ ['*']) (hk : kwStart w = false) (hq : qmarkAfterPlain w = false)
    (hgk : (w.any isGlobChar || kwStart w) = true) (hr : ItemEnd rest) :
    matchall (w ++ rest) = none ∧ field (w ++ rest) = none ∧ multiterm (w ++ rest) = none ∧
    modifiers (w ++ rest) = none ∧ skipWs (w ++ rest) = w ++ rest := by
  cases w with
  | nil => exact absurd rfl hne
  | cons c0 t =>
    have hp := wparts c0 t hraw
    rw [List.cons_append]
    have nplus : c0 ≠ '+' := by
      intro e; subst e
      cases hp.first with
      | inl h => exact absurd h (by decide)
      | inr h => exact absurd h (by decide)
    have nminus : c0 ≠ '-' := by
      intro e; subst e
      cases hp.first with
      | inl h => exact absurd h (by decide)
      | inr h => exact absurd h (by decide)
    have hws : isWs c0 = false := by
      cases hw : isWs c0 with
      | false => rfl
      | true =>
        exfalso
        simp only [isWs, Bool.or_eq_true, beq_iff_eq] at hw
        rcases hw with ((e | e) | e) | e <;> subst e <;>
          (cases hp.first with
            | inl h => exact absurd h (by decide)
            | inr h => exact absurd h (by decide))
    have hnot : startsWith ['N', 'O', 'T'] (c0 :: (t ++ rest)) = false := by
      have := kwStart_not (kwStart_append (c0 :: t) rest hr.termStop hk)
      simpa using this
    have hmatch : matchall (c0 :: (t ++ rest)) = none := by
      by_cases e : c0 = '*'
      · subst e
        cases t with
        | nil => exact absurd rfl hstar
        | cons d t' =>
          have hd := hp.tail
          simp only [List.all_cons, Bool.and_eq_true] at hd
          have : d ≠ ':' := by intro e; subst e; exact absurd hd.1 (by decide)
          exact matchall_star_ne d _ this
      · exact matchall_ne c0 _ e
    refine ⟨hmatch, ?_, ?_, modifiers_none_of c0 _ nplus nminus hnot, skipWs_head c0 _ hws⟩
    · -- field
      rcases termScan_wild c0 t rest hp hr.termStop with ⟨hg, hs⟩ | ⟨hg, hs⟩
      · apply field_none_of_term_none
        unfold term; rw [hs]; by_cases hnk : noKeyword (c0 :: (t ++ rest)) = true <;> simp [hnk]
      · have hy : (c0 :: t).dropWhile notGlob = t.dropWhile notGlob := by
          simp [List.dropWhile_cons, notGlob, hg]
        have hnk : noKeyword (c0 :: (t ++ rest)) = true := by
          rw [noKeyword_eq]
          have := kwStart_append (c0 :: t) rest hr.termStop hk
          rw [List.cons_append] at this
          simp [this, startsWith_minus c0 _ nminus]
        rcases (split_glob t).2 with h | ⟨g, y', h, hgl⟩
        · have hnog : (c0 :: t).any isGlobChar = false := dropWhile_nil_noGlob (c0 :: t) (by rw [hy, h])
          rw [hnog, hk] at hgk; cases hgk
        · rw [hy, h] at hs
          have ht : term (c0 :: (t ++ rest)) = some ((c0 :: t).takeWhile notGlob, g :: (y' ++ rest)) := by
            unfold term; rw [hnk, hs]; simp
          apply field_none_of_term _ _ _ ht
          intro r' e
          simp only [List.cons.injEq] at e
          rw [e.1] at hgl; exact absurd hgl (by decide)
    · -- multiterm
      rcases termScan_wild c0 t rest hp hr.termStop with ⟨hg, hs⟩ | ⟨hg, hs⟩
      · apply multiterm_none_of_term_none
        unfold term; rw [hs]; by_cases hnk : noKeyword (c0 :: (t ++ rest)) = true <;> simp [hnk]
      · have hy : (c0 :: t).dropWhile notGlob = t.dropWhile notGlob := by
          simp [List.dropWhile_cons, notGlob, hg]
        have hx : (c0 :: t).takeWhile notGlob = c0 :: t.takeWhile notGlob := by
          simp [List.takeWhile_cons, notGlob, hg]
        have hnk : noKeyword (c0 :: (t ++ rest)) = true := by
          rw [noKeyword_eq]
          have := kwStart_append (c0 :: t) rest hr.termStop hk
          rw [List.cons_append] at this
          simp [this, startsWith_minus c0 _ nminus]
        rcases (split_glob t).2 with h | ⟨g, y', h, hgl⟩
        · have hnog : (c0 :: t).any isGlobChar = false := dropWhile_nil_noGlob (c0 :: t) (by rw [hy, h])
          rw [hnog, hk] at hgk; cases hgk
        · rw [hy, h] at hs
          have ht : term (c0 :: (t ++ rest)) = some ((c0 :: t).takeWhile notGlob, g :: (y' ++ rest)) := by
            unfold term; rw [hnk, hs]; simp
          have hgstar : g = '*' := by
            have hq' : (!((c0 :: t).takeWhile notGlob).isEmpty && ((c0 :: t).dropWhile notGlob).head? == some '?') = false := hq
            rw [hx, hy, h] at hq'
            simp only [List.isEmpty_cons, Bool.not_false, Bool.true_and, List.head?_cons] at hq'
            simp only [isGlobChar, Bool.or_eq_true, beq_iff_eq] at hgl
            cases hgl with
            | inl e => exact e
            | inr e => subst e; simp at hq'
          exact multiterm_none_of_term _ _ g _ ht (Or.inr hgstar)

theorem leafGood_wildcard (F : FloatLib) (a w : Str) (h : NFLeaf F (.wildcard a w) = true) :
    LeafGood F (.wildcard a w) := by
  simp only [NFLeaf, wildcardOK, Bool.and_eq_true, Bool.not_eq_true'] at h
  obtain ⟨ha, ⟨⟨⟨⟨hne, hraw⟩, hgk⟩, hps⟩, hdef⟩⟩ := h
  have hne' : w ≠ [] := by intro e; subst e; simp at hne
  have hL : (Leaf.wildcard a w).toLucene F = attrPrefix a ++ w := rfl
  have hunesc : unescape w = w := unescape_noBackslash w (rawGlob_noBackslash w hraw)
  have hhead : ∀ x, skipWs (w ++ x) = w ++ x := by
    intro x
    cases w with
    | nil => exact absurd rfl hne'
    | cons c0 t =>
      simp only [rawGlobChars, Bool.and_eq_true, Bool.or_eq_true, Bool.not_eq_true'] at hraw
      apply skipWs_head
      cases hw : isWs c0 with
      | false => rfl
      | true =>
        exfalso
        simp only [isWs, Bool.or_eq_true, beq_iff_eq] at hw
        rcases hw with ((e | e) | e) | e <;> subst e <;>
          (cases hraw.1 with
            | inl h => exact absurd h (by decide)
            | inr h => exact absurd h (by decide))
  by_cases hstar : w = ['*']
  · -- `attr:*` (the attribute is not the default field)
    subst hstar
    have had : a ≠ defaultField := by
      intro e; subst e; simp at hdef
    refine leafGood_attr F _ a ['*'] .star hL ha ?_ hhead (by simp) (fun e => absurd e had) (fun e => absurd e had) ?_
    · intro rest hr
      simp [value, starValue, hr.atTermEnd, alt]
    · simp [visitValue, had, unescape_attr a ha]
  · refine leafGood_attr F _ a w (.glob w) hL ha ?_ hhead hne' ?_ ?_ ?_
    · intro rest hr
      exact value_wildcard w rest hne' hraw hgk hps hstar hr
    · intro hd rest hr
      have hk : kwStart w = false := by
        cases hk : kwStart w with
        | false => rfl
        | true => simp [hd, hk] at hdef
      have hq : qmarkAfterPlain w = false := by
        cases hq : qmarkAfterPlain w with
        | false => rfl
        | true => simp [hd, hq] at hdef
      obtain ⟨h1, h2, h3, _, _⟩ := wildcard_default_front w rest hne' hraw hstar hk hq hgk hr
      exact ⟨h1, h2, h3⟩
    · intro hd rest hr
      have hk : kwStart w = false := by
        cases hk : kwStart w with
        | false => rfl
        | true => simp [hd, hk] at hdef
      have hq : qmarkAfterPlain w = false := by
        cases hq : qmarkAfterPlain w with
        | false => rfl
        | true => simp [hd, hq] at hdef
      exact (wildcard_default_front w rest hne' hraw hstar hk hq hgk hr).2.2.2.1
    · simp [visitValue, unescape_attr a ha, hunesc]

/-- every leaf in normal form is read back from its own text -/
theorem leafGood_of_NF (F : FloatLib) (l : Leaf) (h : NFLeaf F l = true) : LeafGood F l := by
  cases l with
  | matchAll => exact leafGood_matchAll F
  | matchNone => simp [NFLeaf] at h
  | exists_ a => exact leafGood_exists F a h
  | missing a => exact leafGood_missing F a h
  | range a lo li hi ui => exact leafGood_range F a lo li hi ui h
  | comparison a c v => exact leafGood_comparison F a c v h
  | term a v => exact leafGood_term F a v h
  | quoted a p => exact leafGood_quoted F a p h
  | pfx a p => exact leafGood_pfx F a p h
  | wildcard a w => exact leafGood_wildcard F a w h

end Search
