import VrlProofs.Lemmas.TypeKind
import VrlProofs.Lemmas.Sorted

/-! Value-level soundness of `Op::type_info` for the operators that evaluate both operands first
    (`Lang.binop`): the result belongs to the reported kind; an error of an operation typed
    infallible is the NaN error of float arithmetic. -/

namespace Lang
open Spec

/-! ### small facts about `TypeDef` combinators -/

@[simp] theorem TypeDef.withKind_kind (t : TypeDef) (k : Kind) : (t.withKind k).kind = k := rfl
@[simp] theorem TypeDef.withKind_fallible (t : TypeDef) (k : Kind) : (t.withKind k).fallible = t.fallible := rfl
@[simp] theorem TypeDef.withKind_returns (t : TypeDef) (k : Kind) : (t.withKind k).returns = t.returns := rfl
@[simp] theorem TypeDef.setFallible_fallible (t : TypeDef) : t.setFallible.fallible = true := rfl
@[simp] theorem TypeDef.setFallible_kind (t : TypeDef) : t.setFallible.kind = t.kind := rfl
@[simp] theorem TypeDef.setFallible_returns (t : TypeDef) : t.setFallible.returns = t.returns := rfl
@[simp] theorem TypeDef.union_fallible (a b : TypeDef) : (a.union b).fallible = (a.fallible || b.fallible) := rfl
@[simp] theorem TypeDef.union_kind (a b : TypeDef) : (a.union b).kind = a.kind.union b.kind := rfl
@[simp] theorem TypeDef.union_returns (a b : TypeDef) : (a.union b).returns = a.returns.union b.returns := rfl

theorem TypeDef.fallibleUnless_kind (t : TypeDef) (k : Kind) : (t.fallibleUnless k).kind = t.kind := by
  unfold TypeDef.fallibleUnless; split <;> rfl

theorem TypeDef.fallibleUnless_returns (t : TypeDef) (k : Kind) : (t.fallibleUnless k).returns = t.returns := by
  unfold TypeDef.fallibleUnless; split <;> rfl

theorem TypeDef.fallibleUnless_mono (t : TypeDef) (k : Kind) (h : t.fallible = true) :
    (t.fallibleUnless k).fallible = true := by
  unfold TypeDef.fallibleUnless; split
  · exact h
  · rfl

/-- `fallible_unless(k)` stays infallible only when the kind is within `k` -/
theorem TypeDef.fallibleUnless_false (t : TypeDef) (k : Kind)
    (h : (t.fallibleUnless k).fallible = false) : k.isSuperset t.kind = true := by
  unfold TypeDef.fallibleUnless at h
  split at h
  · assumption
  · cases h

/-! ### `a | b` at run time -/

theorem mergeMaps_eq_mergeInto : (b a : VMap) → Arith.mergeMaps a b = VMap.mergeInto a b
  | .nil, _ => rfl
  | .cons k v m, a => by rw [Arith.mergeMaps, VMap.mergeInto]; exact mergeMaps_eq_mergeInto m _

theorem mergeInto_sorted : (b a : VMap) → a.Sorted = true → b.Sorted = true →
    (VMap.mergeInto a b).Sorted = true
  | .nil, _, ha, _ => ha
  | .cons k v m, a, ha, hb => by
    simp only [VMap.Sorted, Bool.and_eq_true] at hb
    rw [VMap.mergeInto]
    exact mergeInto_sorted m _ (VMap.sorted_insert a k v ha hb.1.1) hb.2

/-! ### the strict operators -/

theorem sorted_of_scalar {x : Value} (h : ∀ a, x ≠ .arr a) (h' : ∀ m, x ≠ .obj m) : x.Sorted = true := by
  cases x <;> first | rfl | exact absurd rfl (h _) | exact absurd rfl (h' _)

theorem floatResult_cases (o : Option Nat) :
    (∃ b, Arith.floatResult o = .ok (.float b)) ∨ Arith.floatResult o = .err .nanFloat := by
  unfold Arith.floatResult
  cases o with
  | none => exact Or.inr rfl
  | some b => by_cases h : F64.isNaN b = true <;> simp [h]

theorem memR_float (b : Nat) : memR (.float b) Kind.float = true := by
  simp [memR, mem, Kind.float, Kind.prim]
theorem memR_int (i : Int) : memR (.int i) Kind.integer = true := by
  simp [memR, mem, Kind.integer, Kind.prim]
theorem memR_bytes (b : List Nat) : memR (.bytes b) Kind.bytes = true := by
  simp [memR, mem, Kind.bytes, Kind.prim]
theorem memR_bool (b : Bool) : memR (.bool b) Kind.boolean = true := by
  simp [memR, mem, Kind.boolean, Kind.prim]

/-- the outcomes of `ofArith` -/
theorem ofArith_ok {r : Arith.Res Value} {x : Value} (h : ofArith r = .ok x) : r = .ok x := by
  cases r <;> simp_all [ofArith]

theorem ofArith_err {r : Arith.Res Value} (h : ofArith r = .err) : ∃ e, r = .err e := by
  cases r <;> simp_all [ofArith]

/-- comparison operators: `Op::type_info` of `>` `>=` `<` `<=` -/
theorem cmp_sound (c : Arith.Cmp) (v w : Value) (l r : TypeDef)
    (hv : memR v l.kind = true) (hw : memR w r.kind = true) :
    let res : TypeDef :=
      if (l.kind.isBytes && r.kind.isBytes) || (l.kind.isTimestamp && r.kind.isTimestamp) then
        (l.union r).withKind Kind.boolean
      else ((l.fallibleUnless numKind).union (r.fallibleUnless numKind)).withKind Kind.boolean
    (∀ x, ofArith (Arith.tryCmp c v w) = .ok x → ∃ b, x = .bool b) ∧
    (ofArith (Arith.tryCmp c v w) = .err → res.fallible = true) := by
  intro res
  constructor
  · intro x hx
    have := ofArith_ok hx
    cases v <;> cases w <;> simp [Arith.tryCmp] at this <;> exact ⟨_, this.symm⟩
  · intro he
    by_cases hc : ((l.kind.isBytes && r.kind.isBytes) || (l.kind.isTimestamp && r.kind.isTimestamp)) = true
    · exfalso
      simp only [Bool.or_eq_true, Bool.and_eq_true] at hc
      rcases hc with ⟨h1, h2⟩ | ⟨h1, h2⟩
      · obtain ⟨a, rfl⟩ := memR_isBytes h1 hv
        obtain ⟨b, rfl⟩ := memR_isBytes h2 hw
        simp [Arith.tryCmp, ofArith] at he
      · obtain ⟨a, rfl⟩ := memR_isTimestamp h1 hv
        obtain ⟨b, rfl⟩ := memR_isTimestamp h2 hw
        simp [Arith.tryCmp, ofArith] at he
    · simp only [res, hc]
      simp only [Bool.false_eq_true, if_false, TypeDef.withKind_fallible, TypeDef.union_fallible,
        Bool.or_eq_true]
      cases h1 : (l.fallibleUnless numKind).fallible with
      | true => exact Or.inl rfl
      | false =>
        cases h2 : (r.fallibleUnless numKind).fallible with
        | true => exact Or.inr rfl
        | false =>
          exfalso
          have m1 := superset_prim_sound v numKind l.kind numKind_noExactAny (TypeDef.fallibleUnless_false _ _ h1) hv
          have m2 := superset_prim_sound w numKind r.kind numKind_noExactAny (TypeDef.fallibleUnless_false _ _ h2) hw
          rcases memR_numKind m1 with ⟨a, rfl⟩ | ⟨a, rfl⟩ <;> rcases memR_numKind m2 with ⟨b, rfl⟩ | ⟨b, rfl⟩ <;>
            simp [Arith.tryCmp, ofArith] at he

theorem repeatBytes_shape (b : List Nat) (n : Int) :
    Arith.repeatBytes b n = .panic ∨ ∃ c, Arith.repeatBytes b n = .ok (.bytes c) := by
  unfold Arith.repeatBytes
  simp only []
  repeat' split
  all_goals first | exact Or.inl rfl | exact Or.inr ⟨_, rfl⟩

theorem repeatBytes_ok {b : List Nat} {n : Int} {x : Value} (h : Arith.repeatBytes b n = .ok x) :
    ∃ c, x = .bytes c := by
  rcases repeatBytes_shape b n with h1 | ⟨c, h1⟩ <;> rw [h1] at h <;> cases h
  exact ⟨_, rfl⟩

theorem repeatBytes_not_err {b : List Nat} {n : Int} {e : Arith.Err} (h : Arith.repeatBytes b n = .err e) :
    False := by
  rcases repeatBytes_shape b n with h1 | ⟨c, h1⟩ <;> rw [h1] at h <;> cases h

theorem floatResult_ok {o : Option Nat} {x : Value} (h : Arith.floatResult o = .ok x) : ∃ b, x = .float b := by
  rcases floatResult_cases o with ⟨b, hb⟩ | hb <;> rw [hb] at h <;> cases h
  exact ⟨_, rfl⟩

theorem floatResult_err {o : Option Nat} {e : Arith.Err} (h : Arith.floatResult o = .err e) : e = .nanFloat := by
  rcases floatResult_cases o with ⟨b, hb⟩ | hb <;> rw [hb] at h <;> cases h
  rfl

/-- the value-level operation of `+` `-` `*` -/
def arithFn : Opcode → Value → Value → Arith.Res Value
  | .add => Arith.tryAdd
  | .sub => Arith.trySub
  | _ => Arith.tryMul

/-- what `+` `-` `*` can produce at all -/
theorem arithFn_ok_shape (o : Opcode) (ho : o = .add ∨ o = .sub ∨ o = .mul) (v w x : Value)
    (h : arithFn o v w = .ok x) : (∃ i, x = .int i) ∨ (∃ b, x = .float b) ∨ (∃ b, x = .bytes b ∧ o ≠ .sub) := by
  rcases ho with rfl | rfl | rfl
  · cases v <;> cases w <;> simp only [arithFn, Arith.tryAdd] at h <;>
      first
      | exact Or.inr (Or.inl (floatResult_ok h))
      | (cases h; first | exact Or.inl ⟨_, rfl⟩ | exact Or.inr (Or.inr ⟨_, rfl, by decide⟩))
      | cases h
  · cases v <;> cases w <;> simp only [arithFn, Arith.trySub] at h <;>
      first
      | exact Or.inr (Or.inl (floatResult_ok h))
      | (cases h; exact Or.inl ⟨_, rfl⟩)
      | cases h
  · cases v <;> cases w <;> simp only [arithFn, Arith.tryMul] at h <;>
      first
      | exact Or.inr (Or.inl (floatResult_ok h))
      | (obtain ⟨c, rfl⟩ := repeatBytes_ok h; exact Or.inr (Or.inr ⟨_, rfl, by decide⟩))
      | (cases h; exact Or.inl ⟨_, rfl⟩)
      | cases h

theorem arithDef_kind_nf (o : Opcode) (l r : TypeDef) (nf : Bool) :
    (arithDef o l r nf).kind = (arithDef o l r false).kind := by
  unfold arithDef
  split
  · rfl
  · split
    · cases nf <;> rfl
    · rfl

/-- `Op::type_info` of `+` `-` `*` against the run-time operation -/
theorem arith_sound (o : Opcode) (ho : o = .add ∨ o = .sub ∨ o = .mul) (v w : Value) (l r : TypeDef)
    (nf : Bool) (hv : memR v l.kind = true) (hw : memR w r.kind = true) :
    (∀ x, arithFn o v w = .ok x → memR x (arithDef o l r nf).kind = true ∧ x.Sorted = true) ∧
    (∀ e, arithFn o v w = .err e →
      (arithDef o l r nf).fallible = true ∨ (e = .nanFloat ∧ (arithDef o l r nf).kind.prim.float = true)) := by
  unfold arithDef
  by_cases c1 : (o == .add && (l.kind.isBytes || r.kind.isBytes)) = true
  · -- string concatenation
    simp only [c1, if_true]
    simp only [Bool.and_eq_true, beq_iff_eq, Bool.or_eq_true] at c1
    obtain ⟨rfl, hb⟩ := c1
    constructor
    · intro x hx
      have hx' : ∃ b, x = .bytes b := by
        rcases hb with hb | hb
        · obtain ⟨a, rfl⟩ := memR_isBytes hb hv
          cases w <;> simp only [arithFn, Arith.tryAdd] at hx <;> first | (cases hx; exact ⟨_, rfl⟩) | cases hx
        · obtain ⟨a, rfl⟩ := memR_isBytes hb hw
          cases v <;> simp only [arithFn, Arith.tryAdd] at hx <;> first | (cases hx; exact ⟨_, rfl⟩) | cases hx
      obtain ⟨b, rfl⟩ := hx'
      exact ⟨memR_bytes b, rfl⟩
    · intro e he
      left
      simp only [TypeDef.withKind_fallible, TypeDef.union_fallible, Bool.or_eq_true]
      cases h1 : (l.fallibleUnless bytesNull).fallible with
      | true => exact Or.inl rfl
      | false =>
        cases h2 : (r.fallibleUnless bytesNull).fallible with
        | true => exact Or.inr rfl
        | false =>
          exfalso
          have m1 := superset_prim_sound v bytesNull l.kind bytesNull_noExactAny (TypeDef.fallibleUnless_false _ _ h1) hv
          have m2 := superset_prim_sound w bytesNull r.kind bytesNull_noExactAny (TypeDef.fallibleUnless_false _ _ h2) hw
          rcases hb with hb | hb
          · obtain ⟨a, rfl⟩ := memR_isBytes hb hv
            rcases memR_bytesNull m2 with rfl | ⟨b, rfl⟩ <;> simp [arithFn, Arith.tryAdd] at he
          · obtain ⟨a, rfl⟩ := memR_isBytes hb hw
            rcases memR_bytesNull m1 with rfl | ⟨b, rfl⟩ <;> simp [arithFn, Arith.tryAdd] at he
  · simp only [c1, Bool.false_eq_true, if_false]
    by_cases c2 : (l.kind.isFloat || r.kind.isFloat) = true
    · -- float arithmetic
      simp only [c2, if_true]
      have hk : ∀ (b : Bool) (t : TypeDef), (if b = true then (t.withKind Kind.float).setFallible else t.withKind Kind.float).kind = Kind.float := by
        intro b t; cases b <;> rfl
      constructor
      · intro x hx
        have hx' : ∃ b, x = .float b := by
          simp only [Bool.or_eq_true] at c2
          rcases c2 with hb | hb
          · obtain ⟨a, rfl⟩ := memR_isFloat hb hv
            rcases ho with rfl | rfl | rfl <;> cases w <;> simp only [arithFn, Arith.tryAdd, Arith.trySub, Arith.tryMul] at hx <;>
              first | exact floatResult_ok hx | cases hx
          · obtain ⟨a, rfl⟩ := memR_isFloat hb hw
            rcases ho with rfl | rfl | rfl <;> cases v <;> simp only [arithFn, Arith.tryAdd, Arith.trySub, Arith.tryMul] at hx <;>
              first | exact floatResult_ok hx | cases hx
        obtain ⟨b, rfl⟩ := hx'
        rw [hk]
        exact ⟨memR_float b, rfl⟩
      · intro e he
        cases h1 : (l.fallibleUnless numKind).fallible with
        | true => left; cases nf <;> simp [h1]
        | false =>
          cases h2 : (r.fallibleUnless numKind).fallible with
          | true => left; cases nf <;> simp [h2]
          | false =>
            right
            have m1 := superset_prim_sound v numKind l.kind numKind_noExactAny (TypeDef.fallibleUnless_false _ _ h1) hv
            have m2 := superset_prim_sound w numKind r.kind numKind_noExactAny (TypeDef.fallibleUnless_false _ _ h2) hw
            refine ⟨?_, by rw [hk]; rfl⟩
            simp only [Bool.or_eq_true] at c2
            rcases memR_numKind m1 with ⟨a, rfl⟩ | ⟨a, rfl⟩ <;> rcases memR_numKind m2 with ⟨b, rfl⟩ | ⟨b, rfl⟩ <;>
              rcases ho with rfl | rfl | rfl <;>
              simp only [arithFn, Arith.tryAdd, Arith.trySub, Arith.tryMul] at he <;>
              first
              | exact floatResult_err he
              | (exfalso; rcases c2 with hb | hb
                 · have := memR_isFloat hb hv; simp at this
                 · have := memR_isFloat hb hw; simp at this)
    · simp only [c2, Bool.false_eq_true, if_false]
      by_cases c3 : (l.kind.isInteger && r.kind.isInteger) = true
      · simp only [c3, if_true]
        simp only [Bool.and_eq_true] at c3
        obtain ⟨a, rfl⟩ := memR_isInteger c3.1 hv
        obtain ⟨b, rfl⟩ := memR_isInteger c3.2 hw
        constructor
        · intro x hx
          rcases ho with rfl | rfl | rfl <;> simp only [arithFn, Arith.tryAdd, Arith.trySub, Arith.tryMul] at hx <;>
            cases hx <;> exact ⟨memR_int _, rfl⟩
        · intro e he
          rcases ho with rfl | rfl | rfl <;> simp [arithFn, Arith.tryAdd, Arith.trySub, Arith.tryMul] at he
      · simp only [c3, Bool.false_eq_true, if_false]
        by_cases c4 : (o == .mul && l.kind.isBytes && r.kind.isInteger) = true
        · simp only [c4, if_true]
          simp only [Bool.and_eq_true, beq_iff_eq] at c4
          obtain ⟨⟨rfl, h1⟩, h2⟩ := c4
          obtain ⟨a, rfl⟩ := memR_isBytes h1 hv
          obtain ⟨b, rfl⟩ := memR_isInteger h2 hw
          constructor
          · intro x hx
            simp only [arithFn, Arith.tryMul] at hx
            obtain ⟨c, rfl⟩ := repeatBytes_ok hx
            exact ⟨memR_bytes _, rfl⟩
          · intro e he
            exfalso
            simp only [arithFn, Arith.tryMul] at he
            exact repeatBytes_not_err he
        · simp only [c4, Bool.false_eq_true, if_false]
          by_cases c5 : (o == .mul && l.kind.isInteger && r.kind.isBytes) = true
          · simp only [c5, if_true]
            simp only [Bool.and_eq_true, beq_iff_eq] at c5
            obtain ⟨⟨rfl, h1⟩, h2⟩ := c5
            obtain ⟨a, rfl⟩ := memR_isInteger h1 hv
            obtain ⟨b, rfl⟩ := memR_isBytes h2 hw
            constructor
            · intro x hx
              simp only [arithFn, Arith.tryMul] at hx
              obtain ⟨c, rfl⟩ := repeatBytes_ok hx
              exact ⟨memR_bytes _, rfl⟩
            · intro e he
              exfalso
              simp only [arithFn, Arith.tryMul] at he
              exact repeatBytes_not_err he
          · simp only [c5, Bool.false_eq_true, if_false]
            -- the catch-all rules: fallible
            constructor
            · intro x hx
              rcases arithFn_ok_shape o ho v w x hx with ⟨i, rfl⟩ | ⟨b, rfl⟩ | ⟨b, rfl, hne⟩
              · split <;> exact ⟨by simp [memR, mem, numKind, Kind.integer, Kind.orFloat, Kind.bytes, Kind.orInteger, Kind.prim], rfl⟩
              · split <;> exact ⟨by simp [memR, mem, numKind, Kind.integer, Kind.orFloat, Kind.bytes, Kind.orInteger, Kind.prim], rfl⟩
              · split
                · rename_i hs; simp at hs; exact absurd hs hne
                · exact ⟨by simp [memR, mem, Kind.orFloat, Kind.bytes, Kind.orInteger, Kind.prim], rfl⟩
            · intro e he
              left
              split <;> rfl

/-! ### division -/

theorem isNormal_ne_zero (b : Nat) (h : F64.isNormal b = true) : F64.eq b 0 = false := by
  unfold F64.isNormal at h
  simp only [Bool.and_eq_true, decide_eq_true_eq] at h
  unfold F64.eq
  have hk0 : F64.key 0 = 0 := by decide
  have hne : F64.key b ≠ 0 := by
    unfold F64.key
    have hm : F64.mag b ≠ 0 := by
      unfold F64.mag F64.p63
      unfold F64.expField F64.p52 at h
      omega
    split <;> omega
  rw [hk0]
  simp [hne]

theorem div_sound (v w : Value) (l : TypeDef) (rv : Option Value) (hv : memR v l.kind = true)
    (hrv : ∀ c, rv = some c → w = c) :
    (∀ x, Arith.tryDiv v w = .ok x → ∃ b, x = .float b) ∧
    (∀ e, Arith.tryDiv v w = .err e → divInfallible l rv = true → e = .nanFloat) := by
  constructor
  · intro x hx
    cases w <;> simp only [Arith.tryDiv] at hx <;> try cases hx
    all_goals (split at hx; · cases hx)
    all_goals (cases v <;> simp only at hx <;> first | exact floatResult_ok hx | cases hx)
  · intro e he hd
    unfold divInfallible at hd
    simp only [Bool.and_eq_true, Bool.or_eq_true] at hd
    obtain ⟨hl, hr⟩ := hd
    have hvn : (∃ i, v = .int i) ∨ ∃ b, v = .float b := by
      rcases hl with hl | hl
      · exact Or.inr (memR_isFloat hl hv)
      · exact Or.inl (memR_isInteger hl hv)
    cases rv with
    | none => simp at hr
    | some c =>
      have hw := hrv c rfl
      subst hw
      cases w <;> simp at hr
      · rename_i i
        simp only [Arith.tryDiv, hr, if_false] at he
        rcases hvn with ⟨a, rfl⟩ | ⟨a, rfl⟩ <;> exact floatResult_err he
      · rename_i b
        simp only [Arith.tryDiv, isNormal_ne_zero b hr, Bool.false_eq_true, if_false] at he
        rcases hvn with ⟨a, rfl⟩ | ⟨a, rfl⟩ <;> exact floatResult_err he

/-! ### `|` -/

theorem merge_sound (v w : Value) (l r : Kind) (hv : memR v l = true) (hw : memR w r = true)
    (hvs : v.Sorted = true) (hws : w.Sorted = true)
    (hobj : (l.isObject && r.isObject) = true) (hok : mergeOk l r = true) :
    ∃ a b, v = .obj a ∧ w = .obj b ∧
      mem (.obj (Arith.mergeMaps a b)) (l.merge r .overwrite) = true ∧
      (Value.obj (Arith.mergeMaps a b)).Sorted = true := by
  simp only [Bool.and_eq_true] at hobj
  obtain ⟨a, rfl⟩ := memR_isObject hobj.1 hv
  obtain ⟨b, rfl⟩ := memR_isObject hobj.2 hw
  refine ⟨a, b, rfl, rfl, ?_, ?_⟩
  · have hv' : mem (.obj a) l = true := by
      rcases (memR_iff _ _).mp hv with h | ⟨h, _⟩
      · exact h
      · cases h
    have hw' : mem (.obj b) r = true := by
      rcases (memR_iff _ _).mp hw with h | ⟨h, _⟩
      · exact h
      · cases h
    simp only [mergeOk, Bool.and_eq_true, decide_eq_true_eq] at hok
    have := C19.merge_sound_partial (.obj a) (.obj b) l r hvs hws hok.1.1 hok.1.2 hok.2
    simp only [C19.mergeLawM, C19.mergeLaw, hv', hw', Bool.and_self, Bool.not_true, Bool.false_or] at this
    rw [mergeMaps_eq_mergeInto]
    exact this
  · rw [mergeMaps_eq_mergeInto]
    simp only [Value.Sorted] at hvs hws ⊢
    exact mergeInto_sorted b a hvs hws

end Lang
