/-
  Lemmas about the number tokens of `VrlModel.Json`: the lexer reads back what `NumTok.render`
  writes, and the integer text round-trips.
-/
import VrlModel.Json

namespace Json

/-- the first byte of the list satisfies `p` (`false` on the empty list) -/
def headIn (p : Nat → Bool) : List Nat → Bool
  | [] => false
  | c :: _ => p c

/-- what may follow a number in the printer's output: end of input, `,`, `]`, `}` or a newline -/
def sepStart : List Nat → Bool
  | [] => true
  | c :: _ => c == 44 || c == 93 || c == 125 || c == 10

theorem sepStart_notDigit (rest : List Nat) (h : sepStart rest = true) : headIn isDigit rest = false := by
  cases rest with
  | nil => rfl
  | cons c r =>
    simp only [sepStart, Bool.or_eq_true, beq_iff_eq] at h
    simp only [headIn, isDigit]
    rcases h with ((h | h) | h) | h <;> subst h <;> decide

theorem sepStart_notDot (rest : List Nat) (h : sepStart rest = true) : headIn (· == 46) rest = false := by
  cases rest with
  | nil => rfl
  | cons c r =>
    simp only [sepStart, Bool.or_eq_true, beq_iff_eq] at h
    simp only [headIn]
    rcases h with ((h | h) | h) | h <;> subst h <;> decide

theorem sepStart_notExp (rest : List Nat) (h : sepStart rest = true) :
    headIn (fun c => c == 101 || c == 69) rest = false := by
  cases rest with
  | nil => rfl
  | cons c r =>
    simp only [sepStart, Bool.or_eq_true, beq_iff_eq] at h
    simp only [headIn]
    rcases h with ((h | h) | h) | h <;> subst h <;> decide

theorem takeDigits_append : (ds rest : List Nat) → allDigits ds = true → headIn isDigit rest = false →
    takeDigits (ds ++ rest) = (ds, rest)
  | [], rest, _, hr => by
    cases rest with
    | nil => rfl
    | cons c r =>
      simp only [headIn] at hr
      simp [takeDigits, hr]
  | c :: ds, rest, hd, hr => by
    simp only [allDigits, Bool.and_eq_true] at hd
    have ih := takeDigits_append ds rest hd.2 hr
    simp [takeDigits, hd.1, ih]

theorem lexInt_append (int rest : List Nat) (hw : wfInt int = true) (hr : headIn isDigit rest = false) :
    lexInt (int ++ rest) = some (int, rest) := by
  cases int with
  | nil => simp [wfInt] at hw
  | cons c r =>
    simp only [wfInt, Bool.or_eq_true, Bool.and_eq_true, beq_iff_eq, decide_eq_true_eq, List.isEmpty_iff] at hw
    rcases hw with ⟨hc, hr0⟩ | ⟨⟨h1, h2⟩, h3⟩
    · subst hc; subst hr0
      cases rest with
      | nil => rfl
      | cons d r' =>
        simp only [headIn] at hr
        simp [lexInt, hr]
    · have hne : c ≠ 48 := by omega
      have ht := takeDigits_append r rest h3 hr
      simp [lexInt, hne, h1, h2, ht]

theorem lexFrac_append (frac : Option (List Nat)) (rest : List Nat) (hw : wfFrac frac = true)
    (hr : headIn isDigit rest = false) (hdot : frac = none → headIn (· == 46) rest = false) :
    lexFrac (fracText frac ++ rest) = some (frac, rest) := by
  cases frac with
  | none =>
    have hd := hdot rfl
    cases rest with
    | nil => rfl
    | cons c r =>
      simp only [headIn, beq_eq_false_iff_ne, ne_eq] at hd
      simp [fracText, lexFrac, hd]
  | some fs =>
    simp only [wfFrac, Bool.and_eq_true, Bool.not_eq_true', List.isEmpty_eq_false_iff] at hw
    have ht := takeDigits_append fs rest hw.2 hr
    cases fs with
    | nil => exact absurd rfl hw.1
    | cons a as =>
      rw [List.cons_append] at ht
      simp [fracText, lexFrac, ht]

theorem lexExpDigits_append (pre es rest : List Nat) (hne : es ≠ []) (hd : allDigits es = true)
    (hr : headIn isDigit rest = false) :
    lexExpDigits pre (es ++ rest) = some (some (pre, es), rest) := by
  have ht := takeDigits_append es rest hd hr
  cases es with
  | nil => exact absurd rfl hne
  | cons a as =>
    rw [List.cons_append] at ht
    simp [lexExpDigits, ht]

theorem lexExp_append (exp : Option (List Nat × List Nat)) (rest : List Nat) (hw : wfExp exp = true)
    (hr : headIn isDigit rest = false)
    (hexp : exp = none → headIn (fun c => c == 101 || c == 69) rest = false) :
    lexExp (expText exp ++ rest) = some (exp, rest) := by
  cases exp with
  | none =>
    have hd := hexp rfl
    cases rest with
    | nil => rfl
    | cons c r =>
      simp only [headIn, Bool.or_eq_false_iff, beq_eq_false_iff_ne, ne_eq] at hd
      simp [expText, lexExp, hd.1, hd.2]
  | some p =>
    obtain ⟨pre, es⟩ := p
    simp only [wfExp, Bool.and_eq_true, Bool.not_eq_true', List.isEmpty_eq_false_iff] at hw
    obtain ⟨⟨hp, hne⟩, hd⟩ := hw
    have hl := fun pre => lexExpDigits_append pre es rest hne hd hr
    cases es with
    | nil => exact absurd rfl hne
    | cons a as =>
      have ha : isDigit a = true := by simp only [allDigits, Bool.and_eq_true] at hd; exact hd.1
      have ha' : a ≠ 43 ∧ a ≠ 45 := by
        simp only [isDigit, Bool.and_eq_true, decide_eq_true_eq] at ha; omega
      simp only [expPrefixes, List.contains_cons, List.contains_nil, Bool.or_false, Bool.or_eq_true,
        beq_iff_eq] at hp
      simp only [List.cons_append] at hl
      rcases hp with h | h | h | h | h | h <;> subst h <;>
        simp [expText, lexExp, hl, ha'.1, ha'.2]

theorem wfInt_head (int : List Nat) (hw : wfInt int = true) :
    ∃ c r, int = c :: r ∧ isDigit c = true := by
  cases int with
  | nil => simp [wfInt] at hw
  | cons c r =>
    refine ⟨c, r, rfl, ?_⟩
    simp only [wfInt, Bool.or_eq_true, Bool.and_eq_true, beq_iff_eq, decide_eq_true_eq] at hw
    simp only [isDigit, Bool.and_eq_true, decide_eq_true_eq]
    rcases hw with ⟨hc, _⟩ | ⟨⟨h1, h2⟩, _⟩ <;> omega

/-- the lexer reads back a well-formed token, whatever follows it in the printer's output -/
theorem lexNum_render (t : NumTok) (rest : List Nat) (hw : t.wf = true) (hs : sepStart rest = true) :
    lexNum (t.render ++ rest) = some (t, rest) := by
  obtain ⟨neg, int, frac, exp⟩ := t
  simp only [NumTok.wf, Bool.and_eq_true] at hw
  obtain ⟨⟨hi, hf⟩, he⟩ := hw
  have hnd := sepStart_notDigit rest hs
  have hndot := sepStart_notDot rest hs
  have hnexp := sepStart_notExp rest hs
  obtain ⟨c, r, hint, hc⟩ := wfInt_head int hi
  have hc45 : c ≠ 45 := by
    simp only [isDigit, Bool.and_eq_true, decide_eq_true_eq] at hc; omega
  -- the sign
  have hsign : lexSign (signText neg ++ (int ++ (fracText frac ++ expText exp)) ++ rest)
      = (neg, int ++ (fracText frac ++ (expText exp ++ rest))) := by
    subst hint
    cases neg <;> simp [signText, lexSign, hc45]
  -- what follows the exponent, the fraction, the integer part
  have h3 := lexExp_append exp rest he hnd (fun _ => hnexp)
  have hd2 : headIn isDigit (expText exp ++ rest) = false := by
    cases exp with
    | none => simpa [expText] using hnd
    | some p =>
      obtain ⟨pre, es⟩ := p
      simp only [wfExp, Bool.and_eq_true, expPrefixes, List.contains_cons, List.contains_nil,
        Bool.or_false, Bool.or_eq_true, beq_iff_eq] at he
      rcases he.1.1 with h | h | h | h | h | h <;> subst h <;> simp [expText, headIn, isDigit]
  have hdot2 : frac = none → headIn (· == 46) (expText exp ++ rest) = false := by
    intro _
    cases exp with
    | none => simpa [expText] using hndot
    | some p =>
      obtain ⟨pre, es⟩ := p
      simp only [wfExp, Bool.and_eq_true, expPrefixes, List.contains_cons, List.contains_nil,
        Bool.or_false, Bool.or_eq_true, beq_iff_eq] at he
      rcases he.1.1 with h | h | h | h | h | h <;> subst h <;> simp [expText, headIn]
  have h2 := lexFrac_append frac (expText exp ++ rest) hf hd2 hdot2
  have hd1 : headIn isDigit (fracText frac ++ (expText exp ++ rest)) = false := by
    cases frac with
    | none => simpa [fracText] using hd2
    | some fs => simp [fracText, headIn, isDigit]
  have h1 := lexInt_append int (fracText frac ++ (expText exp ++ rest)) hi hd1
  simp only [lexNum, NumTok.render, hsign, h1, h2, h3]

/-! ### integer text -/

theorem showNatAux_acc : (f n : Nat) → (acc : List Nat) →
    showNatAux f n acc = showNatAux f n [] ++ acc
  | 0, _, acc => by simp [showNatAux]
  | f + 1, n, acc => by
    simp only [showNatAux]
    split
    · simp
    · rw [showNatAux_acc f (n / 10) ((48 + n % 10) :: acc), showNatAux_acc f (n / 10) [48 + n % 10]]
      simp

theorem digitsVal_snoc (ds : List Nat) (c : Nat) : digitsVal (ds ++ [c]) = digitsVal ds * 10 + (c - 48) := by
  simp [digitsVal, List.foldl_append]

theorem allDigits_append (a b : List Nat) : allDigits (a ++ b) = (allDigits a && allDigits b) := by
  induction a with
  | nil => simp [allDigits]
  | cons c r ih => simp [allDigits, ih, Bool.and_assoc]

/-- digits of `n` with enough fuel: value, shape -/
theorem showNatAux_spec : (f n : Nat) → n < f →
    digitsVal (showNatAux f n []) = n ∧ allDigits (showNatAux f n []) = true ∧
    (∃ c r, showNatAux f n [] = c :: r ∧ (c = 48 → n = 0 ∧ r = []) ∧ 48 ≤ c ∧ c ≤ 57)
  | 0, _, h => by omega
  | f + 1, n, h => by
    simp only [showNatAux]
    split
    · rename_i hlt
      refine ⟨by simp [digitsVal], by simp [allDigits, isDigit]; omega, 48 + n, [], rfl, ?_, by omega, by omega⟩
      intro h0; exact ⟨by omega, rfl⟩
    · rename_i hge
      have hlt : n / 10 < f := by omega
      obtain ⟨hv, hd, c, r, hcr, hz, hlo, hhi⟩ := showNatAux_spec f (n / 10) hlt
      rw [showNatAux_acc]
      refine ⟨?_, ?_, ?_⟩
      · rw [digitsVal_snoc, hv]; omega
      · rw [allDigits_append, hd]; simp [allDigits, isDigit]; omega
      · refine ⟨c, r ++ [48 + n % 10], by rw [hcr]; rfl, ?_, hlo, hhi⟩
        intro h0
        have := (hz h0).1
        omega

theorem digitsVal_showNat (n : Nat) : digitsVal (showNat n) = n :=
  (showNatAux_spec (n + 1) n (by omega)).1

theorem wfInt_showNat (n : Nat) : wfInt (showNat n) = true := by
  obtain ⟨_, hd, c, r, hcr, hz, hlo, hhi⟩ := showNatAux_spec (n + 1) n (by omega)
  unfold showNat
  rw [hcr] at hd ⊢
  simp only [allDigits, Bool.and_eq_true] at hd
  simp only [wfInt, Bool.or_eq_true, Bool.and_eq_true, beq_iff_eq, decide_eq_true_eq, List.isEmpty_iff]
  by_cases h0 : c = 48
  · left; exact ⟨h0, (hz h0).2⟩
  · right; exact ⟨⟨by omega, hhi⟩, hd.2⟩

theorem intTok_wf (i : Int) : (intTok i).wf = true := by
  simp [NumTok.wf, intTok, wfInt_showNat, wfFrac, wfExp]

/-- an `i64` comes back from its text as the same integer, whatever the float conversion is -/
theorem numOfTok_intTok (parseF : List Nat → Option Nat) (i : Int) (h : i64Ok i = true) :
    numOfTok parseF (intTok i) = some (Num.int i) := by
  simp only [i64Ok, Bool.and_eq_true, decide_eq_true_eq] at h
  simp only [numOfTok, intTok, NumTok.isFloat, Option.isSome_none, Bool.or_self, Bool.false_eq_true,
    ↓reduceIte, digitsVal_showNat, i64Max]
  by_cases hneg : i < 0
  · have h1 : 0 < i.natAbs ∧ i.natAbs ≤ 9223372036854775807 + 1 := by omega
    have h2 : -(i.natAbs : Int) = i := by omega
    simp [hneg, h1, h2]
  · have h1 : i.natAbs ≤ 9223372036854775807 := by omega
    have h2 : (i.natAbs : Int) = i := by omega
    simp [hneg, h1, h2]

end Json
