/-
  C30 helper lemmas, part 1: the Boolean skeleton.

  `to_lucene` of a tree is re-expressed through `clauseText` / `itemText` / `tailText`; the parser
  (`Grammar.query / more / item / clause`) and the visitor are followed over these texts by structural
  recursion on the tree, given that every leaf of the tree is `LeafGood` (its own text is read back as
  that leaf — proved per leaf kind in SearchLeaves.lean).
-/
import VrlModel.Search.NF

namespace Search
open Grammar

/-! ### shapes of the printed text -/

/-- the text of a node as one clause: a leaf as it is, anything else parenthesised -/
def clauseText (F : FloatLib) : QNode → Str
  | .leaf l => l.toLucene F
  | n => paren (n.toLucene F)

/-- the text of an element of a Boolean group (under the normal form) -/
def itemText (F : FloatLib) : QNode → Str
  | .neg m => "NOT ".toList ++ clauseText F m
  | n => clauseText F n

def sepOf : BoolOp → Str
  | .and => " AND ".toList
  | .or => " OR ".toList

/-- separator + element for the elements after the first -/
def tailText (F : FloatLib) (op : BoolOp) : QList → Str
  | .nil => []
  | .cons n ns => sepOf op ++ itemText F n ++ tailText F op ns

theorem toLucene_neg (F : FloatLib) (n : QNode) :
    (QNode.neg n).toLucene F = "NOT ".toList ++ clauseText F n := by
  cases n <;> simp [QNode.toLucene, clauseText, QNode.isNeg, QNode.isBool]

theorem andItem_eq (F : FloatLib) (n : QNode) (h : NFItem F .and n = true) :
    n.andItem F = itemText F n := by
  cases n with
  | leaf l => simp [QNode.andItem, itemText, clauseText]
  | neg m =>
    cases m with
    | leaf l => simp [QNode.andItem, itemText, clauseText, QNode.isBool, QNode.toLucene]
    | neg x => simp [NFItem, QNode.isNeg] at h
    | bool op ns => simp [QNode.andItem, itemText, clauseText, QNode.isBool]
  | bool op ns =>
    cases op <;> simp [QNode.andItem, itemText, clauseText, QNode.toLucene]

theorem orItem_eq (F : FloatLib) (n : QNode) : n.orItem F = itemText F n := by
  cases n with
  | leaf l => simp [QNode.orItem, itemText, clauseText]
  | neg m => simp only [QNode.orItem, itemText]; rw [← toLucene_neg]; simp [QNode.toLucene]
  | bool op ns => cases op <;> simp [QNode.orItem, itemText, clauseText, QNode.toLucene]

/-- every element text starts with a character (under the hypothesis that leaf texts do) -/
def LeafNonEmpty (F : FloatLib) (l : Leaf) : Prop := l.toLucene F ≠ []

theorem itemText_ne_nil (F : FloatLib) (n : QNode) (h : ∀ l, n = .leaf l → l.toLucene F ≠ []) :
    itemText F n ≠ [] := by
  cases n with
  | leaf l => simpa [itemText, clauseText] using h l rfl
  | neg m => simp [itemText]
  | bool op ns => simp [itemText, clauseText, paren]

theorem andLucene_acc (F : FloatLib) : (ns : QList) → (out : Str) → out ≠ [] →
    (∀ n, n ∈ ns.toList → n.andItem F = itemText F n) →
    QList.andLucene F ns out = out ++ tailText F .and ns
  | .nil, out, _, _ => by simp [QList.andLucene, tailText]
  | .cons n ns, out, hne, hit => by
    rw [QList.andLucene]
    have h1 : (out.isEmpty) = false := by cases out <;> simp_all
    rw [h1]
    simp only [Bool.false_eq_true, if_false]
    rw [andLucene_acc F ns _ (by simp [hne]) (fun m hm => hit m (by simp [QList.toList, hm]))]
    rw [hit n (by simp [QList.toList])]
    simp [tailText, sepOf, List.append_assoc]

theorem orLucene_acc (F : FloatLib) : (ns : QList) → (out : Str) → out ≠ [] →
    QList.orLucene F ns out = out ++ tailText F .or ns
  | .nil, out, _ => by simp [QList.orLucene, tailText]
  | .cons n ns, out, hne => by
    rw [QList.orLucene]
    have h1 : (out.isEmpty) = false := by cases out <;> simp_all
    rw [h1]
    simp only [Bool.false_eq_true, if_false]
    rw [orLucene_acc F ns _ (by simp [hne])]
    rw [orItem_eq]
    simp [tailText, sepOf, List.append_assoc]

end Search

namespace Search
open Grammar

/-! ### literal texts as character lists -/

theorem notText : "NOT ".toList = ['N', 'O', 'T', ' '] := by decide
theorem andSep : " AND ".toList = [' ', 'A', 'N', 'D', ' '] := by decide
theorem orSep : " OR ".toList = [' ', 'O', 'R', ' '] := by decide

/-! ### what may follow an element -/

/-- end of input, a closing parenthesis, or a separator -/
def ItemEnd (rest : Str) : Prop :=
  rest = [] ∨ (∃ r, rest = ')' :: r) ∨ (∃ r, rest = ' ' :: 'A' :: 'N' :: 'D' :: ' ' :: r) ∨
    (∃ r, rest = ' ' :: 'O' :: 'R' :: ' ' :: r)

/-- end of a (sub)query -/
def QEnd (rest : Str) : Prop := rest = [] ∨ ∃ r, rest = ')' :: r

theorem QEnd.itemEnd {rest : Str} (h : QEnd rest) : ItemEnd rest := by
  cases h with
  | inl h => exact Or.inl h
  | inr h => exact Or.inr (Or.inl h)

theorem skipWs_QEnd {rest : Str} (h : QEnd rest) : skipWs rest = rest := by
  cases h with
  | inl h => subst h; rfl
  | inr h => obtain ⟨r, rfl⟩ := h; simp [skipWs, isWs]

theorem itemEnd_sep (op : BoolOp) (x : Str) : ItemEnd (sepOf op ++ x) := by
  cases op
  · right; right; left; exact ⟨x, by simp [sepOf, andSep]⟩
  · right; right; right; exact ⟨x, by simp [sepOf, orSep]⟩

/-- the head of what follows an element is blank, `)` or nothing -/
theorem ItemEnd.atTermEnd {rest : Str} (h : ItemEnd rest) : atTermEnd rest = true := by
  rcases h with h | ⟨r, h⟩ | ⟨r, h⟩ | ⟨r, h⟩ <;> subst h <;> rfl

/-! ### the visitor on one element -/

/-- the element `it`, met with state `st`, closes the and-group when `cj` is `OR` and pushes `n` -/
def Pushes (F : FloatLib) (it : PItem) (cj : Option Bool) (n : QNode) : Prop :=
  ∀ tail st, visitItems F (it.cons tail) defaultField st false =
    visitItems F tail defaultField ((st.conj cj).push false n) false

theorem pushes_clause (F : FloatLib) (cj : Option Bool) (pc : PClause) (n : QNode)
    (h : visitClause F pc defaultField = .ok n) : Pushes F (.clause cj none pc) cj n := by
  intro tail st
  simp [PItem.cons, visitItems, h]

theorem pushes_not_clause (F : FloatLib) (cj : Option Bool) (pc : PClause) (n : QNode)
    (h : visitClause F pc defaultField = .ok n) : Pushes F (.clause cj (some true) pc) cj (.neg n) := by
  intro tail st
  simp [PItem.cons, visitItems, h, VState.push]

/-! ### what a good leaf provides -/

structure LeafGood (F : FloatLib) (l : Leaf) : Prop where
  /-- as the first element of a query -/
  first : ∀ fuel rest, ItemEnd rest →
    ∃ it, item (fuel + 2) false (l.toLucene F ++ rest) = .ok it rest ∧ Pushes F it none (.leaf l)
  /-- as a clause -/
  clause : ∃ pc, (∀ fuel rest, ItemEnd rest → clause (fuel + 1) (l.toLucene F ++ rest) = .ok pc rest) ∧
    visitClause F pc defaultField = .ok (.leaf l)
  /-- starts with a non-blank character … -/
  head : ∀ x, skipWs (l.toLucene F ++ x) = l.toLucene F ++ x
  /-- … that is not a modifier -/
  noMod : ∀ rest, ItemEnd rest → modifiers (l.toLucene F ++ rest) = none
  nonEmpty : l.toLucene F ≠ []

/-! ### small parser facts -/

theorem skipWs_space (x : Str) : skipWs (' ' :: x) = skipWs x := by simp [skipWs, isWs]

theorem multiterm_NOT (x : Str) : multiterm ('N' :: 'O' :: 'T' :: x) = none := by
  simp [multiterm, multitermLookahead, term, noKeyword, kwAnd, kwOr, kwNot, stripPrefix]

theorem multiterm_AND (x : Str) : multiterm ('A' :: 'N' :: 'D' :: x) = none := by
  simp [multiterm, multitermLookahead, term, noKeyword, kwAnd, kwOr, kwNot, stripPrefix]

theorem multiterm_OR (x : Str) : multiterm ('O' :: 'R' :: x) = none := by
  simp [multiterm, multitermLookahead, term, noKeyword, kwAnd, kwOr, kwNot, stripPrefix]

theorem multiterm_lparen (x : Str) : multiterm ('(' :: x) = none := by rfl

theorem modifiers_NOT (x : Str) : modifiers ('N' :: 'O' :: 'T' :: x) = some (true, x) := by
  simp [modifiers, kwNot, stripPrefix]

theorem modifiers_lparen (x : Str) : modifiers ('(' :: x) = none := by
  simp [modifiers, kwNot, stripPrefix]

theorem conjunction_AND (x : Str) : conjunction ('A' :: 'N' :: 'D' :: x) = some (false, x) := by
  simp [conjunction, kwAnd, stripPrefix]

theorem conjunction_OR (x : Str) : conjunction ('O' :: 'R' :: x) = some (true, x) := by
  simp [conjunction, kwAnd, kwOr, stripPrefix]

theorem matchall_lparen (x : Str) : matchall ('(' :: x) = none := by simp [matchall, stripPrefix]

theorem field_lparen (x : Str) : field ('(' :: x) = none := by rfl

theorem value_lparen (x : Str) : value ('(' :: x) = none := by rfl

end Search

namespace Search
open Grammar

/-! ### fuel accounting -/

mutual
  def sz : QNode → Nat
    | .leaf _ => 1
    | .neg n => sz n + 1
    | .bool _ ns => szL ns + 1
  def szL : QList → Nat
    | .nil => 0
    | .cons n ns => sz n + szL ns
end

theorem sz_pos : (n : QNode) → 1 ≤ sz n
  | .leaf _ => by simp [sz]
  | .neg n => by simp [sz]
  | .bool _ ns => by simp [sz]

/-! ### round-trip statements for the pieces of a tree -/

/-- `m`, printed as one clause, is read back by `clause` as `m` -/
def ClauseRT (F : FloatLib) (m : QNode) : Prop :=
  ∀ fuel rest, 3 * sz m + 4 ≤ fuel → ItemEnd rest →
    ∃ pc, clause fuel (clauseText F m ++ rest) = .ok pc rest ∧ visitClause F pc defaultField = .ok m

/-- `m` (not a leaf), printed as a whole query, is read back by `query` as `m` -/
def QueryRT (F : FloatLib) (m : QNode) : Prop :=
  ∀ fuel rest, 3 * sz m + 3 ≤ fuel → QEnd rest →
    ∃ its, query fuel (m.toLucene F ++ rest) = .ok its rest ∧
      visitItems F its defaultField ⟨[], []⟩ false = .ok m

/-- `n` as an element of a Boolean group, in first and in later position -/
structure ItemRT (F : FloatLib) (n : QNode) : Prop where
  first : ∀ fuel rest, 3 * sz n + 5 ≤ fuel → ItemEnd rest →
    ∃ it, item fuel false (itemText F n ++ rest) = .ok it rest ∧ Pushes F it none n
  later : ∀ (op : BoolOp) fuel rest, 3 * sz n + 5 ≤ fuel → ItemEnd rest →
    ∃ it, item fuel true (skipWs (sepOf op ++ (itemText F n ++ rest))) = .ok it rest ∧
      Pushes F it (some (op == .or)) n
  head : ∀ x, skipWs (itemText F n ++ x) = itemText F n ++ x
  nonEmpty : itemText F n ≠ []

/-- the state of `visit_query` after the later elements `ns` of an `op` group -/
def foldSt (op : BoolOp) (st : VState) : QList → VState
  | .nil => st
  | .cons n ns => foldSt op ((st.conj (some (op == .or))).push false n) ns

/-! ### `clause` and `item` on the pieces -/

/-- nothing that may follow a query starts an element -/
theorem item_fail_end (fuel : Nat) (b : Bool) (rest : Str) (h : QEnd rest) :
    item (fuel + 2) b rest = .fail := by
  cases h with
  | inl h => subst h; cases b <;> rfl
  | inr h => obtain ⟨r, rfl⟩ := h; cases b <;> rfl

theorem more_end (fuel : Nat) (rest : Str) (h : QEnd rest) : more (fuel + 3) rest = .ok .nil rest := by
  rw [more, skipWs_QEnd h, item_fail_end fuel true rest h]

/-- a parenthesised query as a clause -/
theorem clause_group (F : FloatLib) (m : QNode) (hq : QueryRT F m)
    (hhead : ∀ x, skipWs (m.toLucene F ++ x) = m.toLucene F ++ x)
    (hm : clauseText F m = paren (m.toLucene F)) : ClauseRT F m := by
  intro fuel rest hf hr
  obtain ⟨f, rfl⟩ : ∃ f, fuel = f + 1 := ⟨fuel - 1, by omega⟩
  obtain ⟨its, hqr, hv⟩ := hq f (')' :: rest) (by omega) (Or.inr ⟨rest, rfl⟩)
  refine ⟨.group none its, ?_, ?_⟩
  · rw [hm]
    simp only [paren, List.cons_append, List.append_assoc]
    rw [clause, matchall_lparen, field_lparen]
    simp only [skipWs, isWs]
    simp only [Char.reduceBEq, Bool.or_self, Bool.false_eq_true, if_false]
    rw [value_lparen]
    simp only [hhead, List.nil_append]
    rw [hqr]
    simp [skipWs, isWs]
  · simpa [visitClause] using hv

end Search

namespace Search
open Grammar

/-- `item` when no `multiterm` starts here: optional conjunction, optional modifier, clause -/
theorem item_eq (fuel : Nat) (withConj : Bool) (s : Str) (cj md : Option Bool) (s1 s2 : Str)
    (pc : PClause) (rest : Str)
    (hmt : multiterm s = none)
    (hcj : (withConj = false ∧ cj = none ∧ s1 = s) ∨
           (withConj = true ∧ ∃ b r, conjunction s = some (b, r) ∧ cj = some b ∧ s1 = skipWs r))
    (hmd : (modifiers s1 = none ∧ md = none ∧ s2 = skipWs s1) ∨
           (∃ b r, modifiers s1 = some (b, r) ∧ md = some b ∧ s2 = skipWs r))
    (hcl : clause fuel s2 = .ok pc rest) :
    item (fuel + 1) withConj s = .ok (.clause cj md pc) rest := by
  rw [item]
  simp only [hmt]
  rcases hcj with ⟨hw, rfl, rfl⟩ | ⟨hw, b, r, hc, rfl, rfl⟩
  · subst hw
    rcases hmd with ⟨hm, rfl, rfl⟩ | ⟨b, r, hm, rfl, rfl⟩ <;> simp [hm, hcl]
  · subst hw
    rcases hmd with ⟨hm, rfl, rfl⟩ | ⟨b', r', hm, rfl, rfl⟩ <;> simp [hc, hm, hcl]

/-- first position, no modifier -/
theorem item_first_plain (fuel : Nat) (t rest : Str) (pc : PClause)
    (hmt : multiterm (t ++ rest) = none) (hmod : modifiers (t ++ rest) = none)
    (hhead : skipWs (t ++ rest) = t ++ rest)
    (hc : clause fuel (t ++ rest) = .ok pc rest) :
    item (fuel + 1) false (t ++ rest) = .ok (.clause none none pc) rest := by
  exact item_eq fuel false (t ++ rest) none none (t ++ rest) (t ++ rest) pc rest hmt (Or.inl ⟨rfl, rfl, rfl⟩)
    (Or.inl ⟨hmod, rfl, hhead.symm⟩) hc

/-- first position, `NOT ` -/
theorem item_first_not (fuel : Nat) (t rest : Str) (pc : PClause)
    (hhead : skipWs (t ++ rest) = t ++ rest)
    (hc : clause fuel (t ++ rest) = .ok pc rest) :
    item (fuel + 1) false ('N' :: 'O' :: 'T' :: ' ' :: (t ++ rest)) = .ok (.clause none (some true) pc) rest := by
  exact item_eq fuel false _ none (some true) _ (t ++ rest) pc rest (multiterm_NOT _) (Or.inl ⟨rfl, rfl, rfl⟩)
    (Or.inr ⟨true, _, modifiers_NOT _, rfl, by rw [skipWs_space, hhead]⟩) hc

theorem skipWs_and_sep (x : Str) :
    skipWs (' ' :: 'A' :: 'N' :: 'D' :: ' ' :: x) = 'A' :: 'N' :: 'D' :: ' ' :: x := by
  simp [skipWs, isWs]

theorem skipWs_or_sep (x : Str) : skipWs (' ' :: 'O' :: 'R' :: ' ' :: x) = 'O' :: 'R' :: ' ' :: x := by
  simp [skipWs, isWs]

/-- later position, no modifier -/
theorem item_later_plain (op : BoolOp) (fuel : Nat) (t rest : Str) (pc : PClause)
    (hmod : modifiers (t ++ rest) = none) (hhead : skipWs (t ++ rest) = t ++ rest)
    (hc : clause fuel (t ++ rest) = .ok pc rest) :
    item (fuel + 1) true (skipWs (sepOf op ++ (t ++ rest))) = .ok (.clause (some (op == .or)) none pc) rest := by
  cases op with
  | and =>
    simp only [sepOf, andSep, List.cons_append, List.nil_append, skipWs_and_sep]
    exact item_eq fuel true _ (some false) none (t ++ rest) (t ++ rest) pc rest (multiterm_AND _)
      (Or.inr ⟨rfl, false, _, conjunction_AND _, rfl, by rw [skipWs_space, hhead]⟩)
      (Or.inl ⟨hmod, rfl, hhead.symm⟩) hc
  | or =>
    simp only [sepOf, orSep, List.cons_append, List.nil_append, skipWs_or_sep]
    exact item_eq fuel true _ (some true) none (t ++ rest) (t ++ rest) pc rest (multiterm_OR _)
      (Or.inr ⟨rfl, true, _, conjunction_OR _, rfl, by rw [skipWs_space, hhead]⟩)
      (Or.inl ⟨hmod, rfl, hhead.symm⟩) hc

/-- later position, `NOT ` -/
theorem item_later_not (op : BoolOp) (fuel : Nat) (t rest : Str) (pc : PClause)
    (hhead : skipWs (t ++ rest) = t ++ rest)
    (hc : clause fuel (t ++ rest) = .ok pc rest) :
    item (fuel + 1) true (skipWs (sepOf op ++ ('N' :: 'O' :: 'T' :: ' ' :: (t ++ rest)))) =
      .ok (.clause (some (op == .or)) (some true) pc) rest := by
  have hN : ∀ x : Str, skipWs ('N' :: x) = 'N' :: x := by intro x; simp [skipWs, isWs]
  cases op with
  | and =>
    simp only [sepOf, andSep, List.cons_append, List.nil_append, skipWs_and_sep]
    exact item_eq fuel true _ (some false) (some true) ('N' :: 'O' :: 'T' :: ' ' :: (t ++ rest)) (t ++ rest) pc rest
      (multiterm_AND _) (Or.inr ⟨rfl, false, _, conjunction_AND _, rfl, by rw [skipWs_space, hN]⟩)
      (Or.inr ⟨true, _, modifiers_NOT _, rfl, by rw [skipWs_space, hhead]⟩) hc
  | or =>
    simp only [sepOf, orSep, List.cons_append, List.nil_append, skipWs_or_sep]
    exact item_eq fuel true _ (some true) (some true) ('N' :: 'O' :: 'T' :: ' ' :: (t ++ rest)) (t ++ rest) pc rest
      (multiterm_OR _) (Or.inr ⟨rfl, true, _, conjunction_OR _, rfl, by rw [skipWs_space, hN]⟩)
      (Or.inr ⟨true, _, modifiers_NOT _, rfl, by rw [skipWs_space, hhead]⟩) hc

end Search

namespace Search
open Grammar

/-! ### elements -/

theorem itemRT_leaf (F : FloatLib) (l : Leaf) (hg : LeafGood F l) : ItemRT F (.leaf l) where
  first := by
    intro fuel rest hf hr
    obtain ⟨f, rfl⟩ : ∃ f, fuel = f + 2 := ⟨fuel - 2, by simp [sz] at hf; omega⟩
    exact hg.first f rest hr
  later := by
    intro op fuel rest hf hr
    obtain ⟨f, rfl⟩ : ∃ f, fuel = f + 2 := ⟨fuel - 2, by simp [sz] at hf; omega⟩
    obtain ⟨pc, hc, hv⟩ := hg.clause
    refine ⟨.clause (some (op == .or)) none pc, ?_, pushes_clause F _ pc _ hv⟩
    have := item_later_plain op (f + 1) (l.toLucene F) rest pc (hg.noMod rest hr) (hg.head rest) (hc f rest hr)
    simpa [itemText, clauseText] using this
  head := by intro x; simpa [itemText, clauseText] using hg.head x
  nonEmpty := by simpa [itemText, clauseText] using hg.nonEmpty

theorem itemRT_neg (F : FloatLib) (c : QNode) (hc : ClauseRT F c)
    (hhead : ∀ x, skipWs (clauseText F c ++ x) = clauseText F c ++ x) : ItemRT F (.neg c) where
  first := by
    intro fuel rest hf hr
    obtain ⟨f, rfl⟩ : ∃ f, fuel = f + 1 := ⟨fuel - 1, by omega⟩
    obtain ⟨pc, hcl, hv⟩ := hc f rest (by simp [sz] at hf; omega) hr
    refine ⟨.clause none (some true) pc, ?_, pushes_not_clause F none pc c hv⟩
    have := item_first_not f (clauseText F c) rest pc (hhead rest) hcl
    simpa [itemText, notText] using this
  later := by
    intro op fuel rest hf hr
    obtain ⟨f, rfl⟩ : ∃ f, fuel = f + 1 := ⟨fuel - 1, by omega⟩
    obtain ⟨pc, hcl, hv⟩ := hc f rest (by simp [sz] at hf; omega) hr
    refine ⟨.clause (some (op == .or)) (some true) pc, ?_, pushes_not_clause F _ pc c hv⟩
    have := item_later_not op f (clauseText F c) rest pc (hhead rest) hcl
    simpa [itemText, notText] using this
  head := by intro x; simp [itemText, notText, skipWs, isWs]
  nonEmpty := by simp [itemText, notText]

theorem skipWs_paren (s x : Str) : skipWs (paren s ++ x) = paren s ++ x := by
  simp [paren, skipWs, isWs]

theorem clauseText_bool (F : FloatLib) (op : BoolOp) (ns : QList) :
    clauseText F (.bool op ns) = paren ((QNode.bool op ns).toLucene F) := by
  simp [clauseText]

theorem itemText_bool (F : FloatLib) (op : BoolOp) (ns : QList) :
    itemText F (.bool op ns) = paren ((QNode.bool op ns).toLucene F) := by
  simp [itemText, clauseText]

/-- a Boolean node as an element: parenthesised -/
theorem itemRT_bool (F : FloatLib) (op : BoolOp) (ns : QList) (hc : ClauseRT F (.bool op ns)) :
    ItemRT F (.bool op ns) where
  first := by
    intro fuel rest hf hr
    obtain ⟨f, rfl⟩ : ∃ f, fuel = f + 1 := ⟨fuel - 1, by omega⟩
    obtain ⟨pc, hcl, hv⟩ := hc f rest (by omega) hr
    refine ⟨.clause none none pc, ?_, pushes_clause F none pc _ hv⟩
    rw [itemText_bool]; rw [clauseText_bool] at hcl
    have hmt : multiterm (paren ((QNode.bool op ns).toLucene F) ++ rest) = none := multiterm_lparen _
    have hmod : modifiers (paren ((QNode.bool op ns).toLucene F) ++ rest) = none := modifiers_lparen _
    exact item_first_plain f (paren ((QNode.bool op ns).toLucene F)) rest pc hmt hmod (skipWs_paren _ _) hcl
  later := by
    intro op' fuel rest hf hr
    obtain ⟨f, rfl⟩ : ∃ f, fuel = f + 1 := ⟨fuel - 1, by omega⟩
    obtain ⟨pc, hcl, hv⟩ := hc f rest (by omega) hr
    refine ⟨.clause (some (op' == .or)) none pc, ?_, pushes_clause F _ pc _ hv⟩
    rw [itemText_bool]; rw [clauseText_bool] at hcl
    have hmod : modifiers (paren ((QNode.bool op ns).toLucene F) ++ rest) = none := modifiers_lparen _
    exact item_later_plain op' f (paren ((QNode.bool op ns).toLucene F)) rest pc hmod (skipWs_paren _ _) hcl
  head := by intro x; rw [itemText_bool]; exact skipWs_paren _ _
  nonEmpty := by simp [itemText_bool, paren]

/-! ### the visitor's final state -/

theorem foldSt_and : (ns : QList) → (st : VState) →
    foldSt .and st ns = { groups := st.groups, group := st.group ++ ns.toList }
  | .nil, st => by simp [foldSt, QList.toList]
  | .cons n ns, st => by
    rw [foldSt, foldSt_and ns]
    simp [VState.conj, VState.push, QList.toList]

/-- the end of `visit_query` on the and-groups `l` (the last one still open, all singletons) -/
def orFinal (l : List QNode) : QNode := foldNotAll (QNode.newBoolean .or l)

theorem finishQuery_single (g : List QNode) (x : QNode) : finishQuery ⟨g, [x]⟩ = orFinal (g ++ [x]) := by
  simp [finishQuery, orFinal, QNode.newBoolean]

theorem foldSt_or : (ns : QList) → (g : List QNode) → (x : QNode) →
    finishQuery (foldSt .or ⟨g, [x]⟩ ns) = orFinal (g ++ x :: ns.toList)
  | .nil, g, x => by simp [foldSt, QList.toList, finishQuery_single]
  | .cons n ns, g, x => by
    rw [foldSt]
    have : ((VState.mk g [x]).conj (some (BoolOp.or == BoolOp.or))).push false n = ⟨g ++ [x], [n]⟩ := by
      simp [VState.conj, VState.push, QNode.newBoolean]
    rw [this, foldSt_or ns]
    simp [QList.toList]

theorem newBoolean_two (op : BoolOp) (a b : QNode) (l : List QNode) :
    QNode.newBoolean op (a :: b :: l) = .bool op (QList.ofList (a :: b :: l)) := rfl

/-- the visitor rebuilds an `AND` / `OR` node of at least two elements -/
theorem finish_bool (op : BoolOp) (n m : QNode) (ns : QList) :
    finishQuery (foldSt op ((VState.mk [] []).push false n) (.cons m ns)) = .bool op (.cons n (.cons m ns)) := by
  cases op with
  | and =>
    rw [foldSt_and]
    simp only [VState.push, List.nil_append, Bool.false_eq_true, if_false, QList.toList, finishQuery,
      List.cons_append]
    rw [newBoolean_two]
    simp only [QNode.newBoolean, foldNotAll]
    rw [show QList.ofList (n :: m :: ns.toList) = .cons n (.cons m ns) by
      simp [QList.ofList, QList.ofList_toList]]
  | or =>
    have : (VState.mk [] []).push false n = ⟨[], [n]⟩ := by simp [VState.push]
    rw [this, foldSt_or]
    simp only [List.nil_append, QList.toList, orFinal]
    rw [newBoolean_two]
    simp only [foldNotAll]
    rw [show QList.ofList (n :: m :: ns.toList) = .cons n (.cons m ns) by
      simp [QList.ofList, QList.ofList_toList]]

end Search

namespace Search
open Grammar

/-! ### the later elements of a group -/

/-- the later elements `ns` of an `op` group are read back by `more` -/
def MoreRT (F : FloatLib) (op : BoolOp) (ns : QList) : Prop :=
  ∀ fuel rest, 3 * szL ns + 8 ≤ fuel → QEnd rest →
    ∃ its, more fuel (tailText F op ns ++ rest) = .ok its rest ∧ (ns ≠ .nil → its ≠ .nil) ∧
      ∀ st, visitItems F its defaultField st false = .ok (finishQuery (foldSt op st ns))

theorem moreRT_nil (F : FloatLib) (op : BoolOp) : MoreRT F op .nil := by
  intro fuel rest hf hr
  obtain ⟨f, rfl⟩ : ∃ f, fuel = f + 3 := ⟨fuel - 3, by omega⟩
  exact ⟨.nil, by simpa [tailText] using more_end f rest hr, by simp, fun st => by simp [visitItems, foldSt]⟩

theorem PItem.cons_ne_nil (it : PItem) (its : PItems) : it.cons its ≠ .nil := by
  cases it <;> simp [PItem.cons]

theorem tail_itemEnd (F : FloatLib) (op : BoolOp) (ns : QList) (rest : Str) (hr : QEnd rest) :
    ItemEnd (tailText F op ns ++ rest) := by
  cases ns with
  | nil => simpa [tailText] using hr.itemEnd
  | cons n ns =>
    simp only [tailText, List.append_assoc]
    exact itemEnd_sep op _

theorem moreRT_cons (F : FloatLib) (op : BoolOp) (n : QNode) (ns : QList)
    (hn : ItemRT F n) (hns : MoreRT F op ns) : MoreRT F op (.cons n ns) := by
  intro fuel rest hf hr
  obtain ⟨f, rfl⟩ : ∃ f, fuel = f + 1 := ⟨fuel - 1, by omega⟩
  have hszn := sz_pos n
  simp only [szL] at hf
  obtain ⟨it, hit, hpush⟩ := hn.later op f (tailText F op ns ++ rest) (by omega) (tail_itemEnd F op ns rest hr)
  obtain ⟨its, hmore, _, hvis⟩ := hns f rest (by omega) hr
  refine ⟨it.cons its, ?_, fun _ => PItem.cons_ne_nil it its, ?_⟩
  · simp only [tailText, List.append_assoc]
    rw [more, hit]
    simp only [hmore]
  · intro st
    rw [hpush its st, hvis]
    simp [foldSt]

/-! ### whole (sub)queries -/

theorem foldNotAll_neg (c : QNode) (h : isMatchAll c = false) : foldNotAll (.neg c) = .neg c := by
  cases c with
  | leaf l => cases l <;> simp_all [foldNotAll, isMatchAll]
  | neg x => simp [foldNotAll]
  | bool op ns => simp [foldNotAll]

theorem queryRT_neg (F : FloatLib) (c : QNode) (hc : ClauseRT F c)
    (hhead : ∀ x, skipWs (clauseText F c ++ x) = clauseText F c ++ x) (hna : isMatchAll c = false) :
    QueryRT F (.neg c) := by
  intro fuel rest hf hr
  have hszc := sz_pos c
  simp only [sz] at hf
  obtain ⟨f, rfl⟩ : ∃ f, fuel = f + 5 := ⟨fuel - 5, by omega⟩
  obtain ⟨pc, hcl, hv⟩ := hc (f + 3) rest (by omega) hr.itemEnd
  have hit := item_first_not (f + 3) (clauseText F c) rest pc (hhead rest) hcl
  refine ⟨(PItem.clause none (some true) pc).cons .nil, ?_, ?_⟩
  · rw [toLucene_neg, notText]
    simp only [List.cons_append, List.nil_append]
    rw [query]
    simp only [hit, more_end (f + 1) rest hr, skipWs_QEnd hr]
  · rw [pushes_not_clause F none pc c hv .nil ⟨[], []⟩]
    simp [visitItems, finishQuery, VState.conj, VState.push, QNode.newBoolean, foldNotAll_neg c hna]

theorem queryRT_bool (F : FloatLib) (op : BoolOp) (n m : QNode) (ns : QList)
    (hn : ItemRT F n) (hm : MoreRT F op (.cons m ns))
    (htext : (QNode.bool op (.cons n (.cons m ns))).toLucene F = itemText F n ++ tailText F op (.cons m ns)) :
    QueryRT F (.bool op (.cons n (.cons m ns))) := by
  intro fuel rest hf hr
  obtain ⟨f, rfl⟩ : ∃ f, fuel = f + 1 := ⟨fuel - 1, by omega⟩
  have hszn := sz_pos n
  have hszm := sz_pos m
  simp only [sz, szL] at hf
  obtain ⟨it, hit, hpush⟩ := hn.first f (tailText F op (.cons m ns) ++ rest) (by omega)
    (tail_itemEnd F op (.cons m ns) rest hr)
  obtain ⟨its, hmore, hnn, hvis⟩ := hm f rest (by simp only [szL]; omega) hr
  refine ⟨it.cons its, ?_, ?_⟩
  · rw [htext, List.append_assoc, query]
    simp only [hit, hmore]
    have := hnn (by simp)
    cases its with
    | nil => exact absurd rfl this
    | multiterm ts r => rfl
    | clause cj md c r => rfl
  · rw [hpush its ⟨[], []⟩, hvis]
    simp only [VState.conj]
    rw [finish_bool]

end Search

namespace Search
open Grammar

/-! ### the text of a Boolean node under the normal form -/

theorem NFList_mem (F : FloatLib) (op : BoolOp) : (ns : QList) → NFList F op ns = true →
    ∀ n, n ∈ ns.toList → NFItem F op n = true
  | .nil, _, n, hn => by simp [QList.toList] at hn
  | .cons m ms, h, n, hn => by
    simp only [NFList, Bool.and_eq_true] at h
    simp only [QList.toList, List.mem_cons] at hn
    cases hn with
    | inl e => subst e; exact h.1
    | inr hm => exact NFList_mem F op ms h.2 n hm

theorem toLucene_bool (F : FloatLib) (op : BoolOp) (n : QNode) (ns : QList)
    (h : NFList F op (.cons n ns) = true) (hne : itemText F n ≠ []) :
    (QNode.bool op (.cons n ns)).toLucene F = itemText F n ++ tailText F op ns := by
  cases op with
  | and =>
    have hn : n.andItem F = itemText F n := andItem_eq F n (NFList_mem F .and _ h n (by simp [QList.toList]))
    simp only [QNode.toLucene, QList.isEmpty, Bool.false_eq_true, if_false, QList.andLucene, List.isEmpty_nil,
      if_true, List.nil_append]
    rw [hn]
    exact andLucene_acc F ns _ hne (fun m hm =>
      andItem_eq F m (NFList_mem F .and _ h m (by simp [QList.toList, hm])))
  | or =>
    simp only [QNode.toLucene, QList.isEmpty, Bool.false_eq_true, if_false, QList.orLucene, List.isEmpty_nil,
      if_true, List.nil_append]
    rw [orItem_eq]
    exact orLucene_acc F ns _ hne

/-! ### the whole tree, by recursion on its structure -/

/-- the later elements are read back, and so is the first element when there is one -/
def ListRT (F : FloatLib) (op : BoolOp) (ns : QList) : Prop :=
  MoreRT F op ns ∧ ∀ n ns', ns = .cons n ns' → ItemRT F n ∧ MoreRT F op ns'

theorem leaf_clauseRT (F : FloatLib) (l : Leaf) (hg : LeafGood F l) : ClauseRT F (.leaf l) := by
  intro fuel rest hf hr
  obtain ⟨f, rfl⟩ : ∃ f, fuel = f + 1 := ⟨fuel - 1, by omega⟩
  obtain ⟨pc, hc, hv⟩ := hg.clause
  exact ⟨pc, by simpa [clauseText] using hc f rest hr, hv⟩

theorem skipWs_NOT (x : Str) : skipWs ('N' :: x) = 'N' :: x := by simp [skipWs, isWs]

theorem boolRT (F : FloatLib) (op : BoolOp) (ns : QList) (hl : ListRT F op ns)
    (hnf : NFList F op ns = true) (h2 : 2 ≤ ns.length) :
    QueryRT F (.bool op ns) ∧ ∀ x, skipWs ((QNode.bool op ns).toLucene F ++ x) = (QNode.bool op ns).toLucene F ++ x := by
  match ns, hl, hnf, h2 with
  | .nil, _, _, h2 => simp [QList.length] at h2
  | .cons n .nil, _, _, h2 => simp [QList.length] at h2
  | .cons n (.cons m ms), hl, hnf, _ =>
    obtain ⟨hn, hm⟩ := hl.2 n (.cons m ms) rfl
    have htext := toLucene_bool F op n (.cons m ms) hnf hn.nonEmpty
    refine ⟨queryRT_bool F op n m ms hn hm htext, ?_⟩
    intro x
    rw [htext, List.append_assoc, hn.head]

mutual
  theorem clauseRT (F : FloatLib) (hL : ∀ l, NFLeaf F l = true → LeafGood F l) :
      (m : QNode) → NF F m = true →
      ClauseRT F m ∧ ∀ x, skipWs (clauseText F m ++ x) = clauseText F m ++ x
    | .leaf l, h => by
      have hg := hL l (by simpa [NF] using h)
      exact ⟨leaf_clauseRT F l hg, fun x => by simpa [clauseText] using hg.head x⟩
    | .neg c, h => by
      simp only [NF, Bool.and_eq_true, Bool.not_eq_true'] at h
      obtain ⟨hc, hh⟩ := clauseRT F hL c h.2
      have hq := queryRT_neg F c hc hh h.1
      refine ⟨clause_group F (.neg c) hq ?_ (by simp [clauseText]), fun x => by simp [clauseText, skipWs_paren]⟩
      intro x
      rw [toLucene_neg, notText]
      simp [skipWs_NOT]
    | .bool op ns, h => by
      simp only [NF, Bool.and_eq_true, decide_eq_true_eq] at h
      have hl := listRT F hL op ns h.2
      obtain ⟨hq, hh⟩ := boolRT F op ns hl h.2 h.1
      exact ⟨clause_group F (.bool op ns) hq hh (clauseText_bool F op ns),
        fun x => by rw [clauseText_bool]; exact skipWs_paren _ _⟩
  theorem itemRT (F : FloatLib) (hL : ∀ l, NFLeaf F l = true → LeafGood F l) (op : BoolOp) :
      (n : QNode) → NFItem F op n = true → ItemRT F n
    | .leaf l, h => itemRT_leaf F l (hL l (by simpa [NFItem] using h))
    | .neg c, h => by
      simp only [NFItem, Bool.and_eq_true] at h
      obtain ⟨hc, hh⟩ := clauseRT F hL c h.2
      exact itemRT_neg F c hc hh
    | .bool op' ns, h => by
      simp only [NFItem, Bool.and_eq_true, decide_eq_true_eq] at h
      have hl := listRT F hL op' ns h.2
      obtain ⟨hq, hh⟩ := boolRT F op' ns hl h.2 h.1
      exact itemRT_bool F op' ns (clause_group F (.bool op' ns) hq hh (clauseText_bool F op' ns))
  theorem listRT (F : FloatLib) (hL : ∀ l, NFLeaf F l = true → LeafGood F l) (op : BoolOp) :
      (ns : QList) → NFList F op ns = true → ListRT F op ns
    | .nil, _ => ⟨moreRT_nil F op, fun _ _ h => by cases h⟩
    | .cons n ns, h => by
      simp only [NFList, Bool.and_eq_true] at h
      have hi := itemRT F hL op n h.1
      have hm := (listRT F hL op ns h.2).1
      exact ⟨moreRT_cons F op n ns hi hm, fun n' ns' e => by cases e; exact ⟨hi, hm⟩⟩
end

end Search

namespace Search
open Grammar

/-! ### the printed text is at least as long as the tree is big (fuel of `queryroot`) -/

theorem length_paren (s : Str) : (paren s).length = s.length + 2 := by simp [paren]

/-- what the list recursion provides about lengths -/
def LenList (F : FloatLib) (op : BoolOp) (ns : QList) : Prop :=
  szL ns + ns.length ≤ (tailText F op ns).length ∧
  ∀ n ns', ns = .cons n ns' → sz n ≤ (itemText F n).length ∧ szL ns' + ns'.length ≤ (tailText F op ns').length

theorem len_bool (F : FloatLib) (op : BoolOp) (ns : QList) (h : NFList F op ns = true) (h2 : 2 ≤ ns.length)
    (hl : LenList F op ns) : sz (.bool op ns) ≤ ((QNode.bool op ns).toLucene F).length := by
  match ns, h, h2, hl with
  | .nil, _, h2, _ => simp [QList.length] at h2
  | .cons n ns', h, h2, hl =>
    obtain ⟨h1, h3⟩ := hl.2 n ns' rfl
    have hpos : 0 < (itemText F n).length := by have := sz_pos n; omega
    rw [toLucene_bool F op n ns' h (by intro e; rw [e] at hpos; simp at hpos)]
    have : 1 ≤ ns'.length := by simp [QList.length] at h2; omega
    simp only [sz, szL, List.length_append]
    omega

mutual
  theorem sz_le_clause (F : FloatLib) (hne : ∀ l, NFLeaf F l = true → l.toLucene F ≠ []) :
      (m : QNode) → NF F m = true → sz m ≤ (clauseText F m).length
    | .leaf l, h => by
      have := hne l (by simpa [NF] using h)
      simp only [sz, clauseText]
      cases hl : l.toLucene F with
      | nil => exact absurd hl this
      | cons c r => simp
    | .neg c, h => by
      simp only [NF, Bool.and_eq_true] at h
      have ih := sz_le_clause F hne c h.2
      have e : clauseText F (.neg c) = paren ((QNode.neg c).toLucene F) := by simp [clauseText]
      rw [e, length_paren, toLucene_neg, notText]
      simp only [sz, List.length_append, List.length_cons, List.length_nil]
      omega
    | .bool op ns, h => by
      simp only [NF, Bool.and_eq_true, decide_eq_true_eq] at h
      have := len_bool F op ns h.2 h.1 (sz_le_list F hne op ns h.2)
      rw [clauseText_bool, length_paren]; omega
  theorem sz_le_item (F : FloatLib) (hne : ∀ l, NFLeaf F l = true → l.toLucene F ≠ []) (op : BoolOp) :
      (n : QNode) → NFItem F op n = true → sz n ≤ (itemText F n).length
    | .leaf l, h => by
      have := hne l (by simpa [NFItem] using h)
      simp only [sz, itemText, clauseText]
      cases hl : l.toLucene F with
      | nil => exact absurd hl this
      | cons c r => simp
    | .neg c, h => by
      simp only [NFItem, Bool.and_eq_true] at h
      have ih := sz_le_clause F hne c h.2
      simp only [itemText, notText, sz, List.length_append, List.length_cons, List.length_nil]
      omega
    | .bool op' ns, h => by
      simp only [NFItem, Bool.and_eq_true, decide_eq_true_eq] at h
      have := len_bool F op' ns h.2 h.1 (sz_le_list F hne op' ns h.2)
      rw [itemText_bool, length_paren]; omega
  theorem sz_le_list (F : FloatLib) (hne : ∀ l, NFLeaf F l = true → l.toLucene F ≠ []) (op : BoolOp) :
      (ns : QList) → NFList F op ns = true → LenList F op ns
    | .nil, _ => ⟨by simp [szL, tailText, QList.length], fun _ _ e => by cases e⟩
    | .cons n ns, h => by
      simp only [NFList, Bool.and_eq_true] at h
      have h1 := sz_le_item F hne op n h.1
      have h2 := (sz_le_list F hne op ns h.2).1
      have h3 : 1 ≤ (sepOf op).length := by cases op <;> simp [sepOf, andSep, orSep]
      refine ⟨?_, fun n' ns' e => by cases e; exact ⟨h1, h2⟩⟩
      simp only [szL, tailText, QList.length, List.length_append]
      omega
end

theorem sz_le_query (F : FloatLib) (hne : ∀ l, NFLeaf F l = true → l.toLucene F ≠ []) (m : QNode)
    (h : NF F m = true) : sz m ≤ (m.toLucene F).length := by
  cases m with
  | leaf l => simpa [clauseText, QNode.toLucene] using sz_le_clause F hne (.leaf l) h
  | neg c =>
    simp only [NF, Bool.and_eq_true] at h
    have ih := sz_le_clause F hne c h.2
    rw [toLucene_neg, notText]
    simp only [sz, List.length_append, List.length_cons, List.length_nil]
    omega
  | bool op ns =>
    simp only [NF, Bool.and_eq_true, decide_eq_true_eq] at h
    exact len_bool F op ns h.2 h.1 (sz_le_list F hne op ns h.2)


end Search

namespace Search
open Grammar

/-- a (sub)query that is not a leaf is read back by `query` -/
theorem queryRT_of_NF (F : FloatLib) (hL : ∀ l, NFLeaf F l = true → LeafGood F l) (m : QNode)
    (h : NF F m = true) (hnl : ∀ l, m ≠ .leaf l) : QueryRT F m := by
  cases m with
  | leaf l => exact absurd rfl (hnl l)
  | neg c =>
    simp only [NF, Bool.and_eq_true, Bool.not_eq_true'] at h
    obtain ⟨hc, hh⟩ := clauseRT F hL c h.2
    exact queryRT_neg F c hc hh h.1
  | bool op ns =>
    simp only [NF, Bool.and_eq_true, decide_eq_true_eq] at h
    exact (boolRT F op ns (listRT F hL op ns h.2) h.2 h.1).1

theorem parse_of_query (F : FloatLib) (s : Str) (its : PItems) (t : QNode)
    (hb : s.all isUnicodeWs = false)
    (hq : query (3 * s.length + 6) s = .ok its [])
    (hv : visitItems F its defaultField ⟨[], []⟩ false = .ok t) : parse F s = .ok t := by
  unfold parse
  simp only [hb, Bool.false_eq_true, if_false, queryroot, hq, skipWs, List.isEmpty_nil, if_true, visitQuery, hv]

/-- The Boolean skeleton: if every leaf in normal form is read back from its own text
    (`LeafGood`), every tree in normal form is read back from its text. -/
theorem roundtrip_of_leaves (F : FloatLib) (hL : ∀ l, NFLeaf F l = true → LeafGood F l) (t : QNode)
    (h : NFRoot F t = true) : parse F (t.toLucene F) = .ok t := by
  simp only [NFRoot, Bool.or_eq_true, decide_eq_true_eq, Bool.and_eq_true, Bool.not_eq_true'] at h
  cases h with
  | inl h => subst h; rfl
  | inr h =>
    obtain ⟨hnf, hb⟩ := h
    have hne : ∀ l, NFLeaf F l = true → l.toLucene F ≠ [] := fun l hl => (hL l hl).nonEmpty
    have hsz := sz_le_query F hne t hnf
    cases t with
    | leaf l =>
      have hg := hL l (by simpa [NF] using hnf)
      obtain ⟨it, hit, hpush⟩ := hg.first (3 * (l.toLucene F).length + 3) [] (Or.inl rfl)
      simp only [List.append_nil] at hit
      apply parse_of_query F _ (it.cons .nil) _ hb
      · simp only [QNode.toLucene]
        rw [query]
        simp only [hit, more_end (3 * (l.toLucene F).length + 2) [] (Or.inl rfl), skipWs]
      · rw [hpush .nil ⟨[], []⟩]
        simp [visitItems, finishQuery, VState.conj, VState.push, QNode.newBoolean, foldNotAll]
    | neg c =>
      obtain ⟨its, hq, hv⟩ := queryRT_of_NF F hL (.neg c) hnf (by intro l; simp)
        (3 * ((QNode.neg c).toLucene F).length + 6) [] (by omega) (Or.inl rfl)
      simp only [List.append_nil] at hq
      exact parse_of_query F _ its _ hb hq hv
    | bool op ns =>
      obtain ⟨its, hq, hv⟩ := queryRT_of_NF F hL (.bool op ns) hnf (by intro l; simp)
        (3 * ((QNode.bool op ns).toLucene F).length + 6) [] (by omega) (Or.inl rfl)
      simp only [List.append_nil] at hq
      exact parse_of_query F _ its _ hb hq hv

end Search
