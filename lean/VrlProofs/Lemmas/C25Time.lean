/- Helper lemmas for C25 (unix timestamps): the range predicates as linear facts. -/
import VrlModel.Conv.Time
import VrlProofs.Lemmas.C25Int

namespace Conv.Time

theorem tsInRange_iff (t : Int) :
    tsInRange t = true ↔ -8334601228800000000000 ≤ t ∧ t ≤ 8210266876799999999999 := by
  unfold tsInRange tsMin tsMax minSecs maxSecs
  rw [Bool.and_eq_true, decide_eq_true_iff, decide_eq_true_iff]
  constructor <;> intro h <;> omega

theorem fromUnix_of_inRange (u : TUnit) (n : Int) (hu : u ≠ .nanoseconds)
    (h : tsInRange (n * u.ns) = true) : fromUnix u (.int n) = .ok (.ts (n * u.ns)) := by
  cases u <;> simp_all [fromUnix]

theorem fromUnix_of_not_inRange (u : TUnit) (n : Int) (hu : u ≠ .nanoseconds)
    (h : ¬ tsInRange (n * u.ns) = true) : fromUnix u (.int n) = .err := by
  cases u <;> simp_all [fromUnix]

theorem toUnix_of_ne_ns (u : TUnit) (t : Int) (hu : u ≠ .nanoseconds) :
    toUnix u (.ts t) = .ok (.int (t / u.ns)) := by
  cases u <;> simp_all [toUnix]

/-- the unit is one of four literals -/
theorem ns_cases (u : TUnit) : u.ns = 1000000000 ∨ u.ns = 1000000 ∨ u.ns = 1000 ∨ u.ns = 1 := by
  cases u <;> simp [TUnit.ns]

theorem ns_of_ne (u : TUnit) (hu : u ≠ .nanoseconds) :
    u.ns = 1000000000 ∨ u.ns = 1000000 ∨ u.ns = 1000 := by
  cases u <;> simp_all [TUnit.ns]

end Conv.Time
