import VrlProofs.Lemmas.KindPres

/-! `Kind::at_path` at a negative index into an array kind of unknown length (the branch that unions
    the candidate known kinds with `merge_keep`), for key-sorted kinds whose `Infinite` unknowns are
    all `any`; and the resulting path theorem. -/

namespace Spec

theorem mergeKeep_left (a b : Kind) (w : Value) (sa : a.SortedK = true) (sb : b.SortedK = true)
    (ia : a.hasNonAnyInf = false) (ib : b.hasNonAnyInf = false) (h : mem w a = true) :
    mem w (a.mergeKeep b false) = true :=
  (mergeKeepF_sound _).left a b w sa sb ia ib h

theorem mergeKeep_right (a b : Kind) (w : Value) (sa : a.SortedK = true) (sb : b.SortedK = true)
    (ia : a.hasNonAnyInf = false) (ib : b.hasNonAnyInf = false) (h : mem w b = true) :
    mem w (a.mergeKeep b false) = true :=
  (mergeKeepF_sound _).right a b w sa sb ia ib h

theorem mergeKeep_undefined (a b : Kind) (h : a.prim.undefined = true) :
    (a.mergeKeep b false).prim.undefined = true :=
  (mergeKeepF_sound _).undefL a b h

/-- the fold of `get_recursive` over the known kinds from `minIndex` on. -/
def negFold (minIndex : Nat) (m : KList) (acc : Kind) : Kind :=
  m.foldl (fun kind key iKind => if key.idx ≥ minIndex then kind.mergeKeep iKind false else kind) acc

theorem negFold_sound (minIndex : Nat) : (m : KList) → (acc : Kind) → acc.SortedK = true →
    acc.hasNonAnyInf = false → m.SortedK = true → m.hasNonAnyInf = false →
    (∀ w, mem w acc = true → mem w (negFold minIndex m acc) = true) ∧
    (∀ key iKind w, m.get key = some iKind → key.idx ≥ minIndex → mem w iKind = true →
      mem w (negFold minIndex m acc) = true) ∧
    (acc.prim.undefined = true → (negFold minIndex m acc).prim.undefined = true) ∧
    (negFold minIndex m acc).SortedK = true ∧ (negFold minIndex m acc).hasNonAnyInf = false
  | .nil, acc, sa, ia, _, _ => by
    refine ⟨fun _ h => h, ?_, fun h => h, sa, ia⟩
    intro key iKind w h; simp [KList.get] at h
  | .cons k v m, acc, sa, ia, sm, im => by
    simp only [KList.SortedK, Bool.and_eq_true] at sm
    simp only [KList.hasNonAnyInf, Bool.or_eq_false_iff] at im
    have hstep : negFold minIndex (.cons k v m) acc =
        negFold minIndex m (if k.idx ≥ minIndex then acc.mergeKeep v false else acc) := rfl
    rw [hstep]
    by_cases hk : k.idx ≥ minIndex
    · simp only [hk, if_true]
      have sa' := mergeKeepF_sortedK (Kind.fuel acc v) acc v false sa sm.1
      have ia' := mergeKeepF_infAny (Kind.fuel acc v) acc v false ia im.1
      obtain ⟨h1, h2, h3, h4, h5⟩ := negFold_sound minIndex m (acc.mergeKeep v false) sa' ia' sm.2 im.2
      refine ⟨fun w hw => h1 w (mergeKeep_left acc v w sa sm.1 ia im.1 hw), ?_,
        fun hu => h3 (mergeKeep_undefined acc v hu), h4, h5⟩
      intro key iKind w hg hi hw
      simp only [KList.get] at hg
      split at hg
      · cases hg; exact h1 w (mergeKeep_right acc v w sa sm.1 ia im.1 hw)
      · exact h2 key iKind w hg hi hw
    · simp only [hk, if_false]
      obtain ⟨h1, h2, h3, h4, h5⟩ := negFold_sound minIndex m acc sa ia sm.2 im.2
      refine ⟨h1, ?_, h3, h4, h5⟩
      intro key iKind w hg hi hw
      simp only [KList.get] at hg
      split at hg
      · rename_i hkk; subst hkk; exact absurd hi hk
      · exact h2 key iKind w hg hi hw

theorem getIndex_neg_unknown (K : Kind) (col : Col) (i : Int) (hi : i < 0) (hK : K.array = some col)
    (hunk : col.unknownKind.containsAnyDefined = true) :
    K.getIndex i =
      negFold (max ((col.keyLength : Int) + i) 0).toNat col.known
        (if (K.isExact && !decide ((col.keyLength : Int) + i < 0)) = true
          then col.unknownKind.withoutUndefined else col.unknownKind) := by
  unfold Kind.getIndex
  rw [hK]
  simp only [hi, if_true, hunk, negFold]

theorem keyLength_le_length (a : VList) (K : Kind) (col : Col) (hK : K.array = some col)
    (h : mem (.arr a) K = true)
    (hopt : col.known.any (fun _ v => v.prim.undefined) = false) : col.keyLength ≤ a.length := by
  obtain ⟨col', hc, _, habs⟩ := (mem_arr_iff a K).mp h
  rw [hK] at hc; cases hc
  unfold Col.keyLength
  rw [largestKey_eq]
  cases hf : col.known.foldl KList.maxStep none with
  | none => simp
  | some r =>
    rcases KList.foldl_maxStep_attained col.known none r hf with h1 | ⟨k, hk, hkr⟩
    · cases h1
    · have hs := KList.get_isSome_of_mem_keys col.known k hk
      cases hg : col.known.get k with
      | none => simp [hg] at hs
      | some K' =>
        by_cases hl : k.idx < a.length
        · simp only; omega
        · have h1 := habs k K' hg (Nat.not_lt.mp hl)
          have h2 := KList.any_false _ col.known hopt k K' hg
          simp [h1] at h2

theorem col_parts_of_kind {K : Kind} {col : Col} (hK : K.array = some col) (sK : K.SortedK = true)
    (iK : K.hasNonAnyInf = false) :
    col.known.SortedK = true ∧ col.known.hasNonAnyInf = false ∧
    col.unknownKind.SortedK = true ∧ col.unknownKind.hasNonAnyInf = false := by
  cases K with
  | mk p a o =>
    cases a with
    | none => simp [Kind.array] at hK
    | some c =>
      simp only [Kind.array, Option.some.injEq] at hK; subst hK
      cases c with
      | mk k u =>
        obtain ⟨sa, _⟩ := kind_sortedK sK
        obtain ⟨ia, _⟩ := kind_infAny iK
        obtain ⟨_, sk, su⟩ := col_sortedK sa
        obtain ⟨ik, iu⟩ := col_infAny ia
        exact ⟨sk, ik, Unknown.sortedK_toKind u su, Unknown.infAny_toKind u iu⟩

/-- negative index into an array kind of unknown length. -/
theorem getIndex_sound_negUnknown (c : Option Value) (K : Kind) (col : Col) (i : Int) (hi : i < 0)
    (hK : K.array = some col) (h : memOpt c K = true) (sK : K.SortedK = true)
    (iK : K.hasNonAnyInf = false)
    (hopt : col.known.any (fun _ v => v.prim.undefined) = false)
    (hunk : col.unknownKind.containsAnyDefined = true) :
    memOpt (child c (.index i)) (K.getIndex i) = true ∧
    (K.getIndex i).SortedK = true ∧ (K.getIndex i).hasNonAnyInf = false := by
  rw [getIndex_neg_unknown K col i hi hK hunk]
  obtain ⟨sk, ik, su, iu⟩ := col_parts_of_kind hK sK iK
  have hA := Kind.hasArr_of_array hK
  -- the initial kind of the fold
  have sinit : ∀ b : Bool, (if b = true then col.unknownKind.withoutUndefined else col.unknownKind).SortedK = true := by
    intro b; cases b
    · simpa using su
    · cases hk : col.unknownKind with
      | mk p a o => rw [hk] at su; simpa [Kind.withoutUndefined, Kind.SortedK] using su
  have iinit : ∀ b : Bool, (if b = true then col.unknownKind.withoutUndefined else col.unknownKind).hasNonAnyInf = false := by
    intro b; cases b
    · simpa using iu
    · cases hk : col.unknownKind with
      | mk p a o => rw [hk] at iu; simpa [Kind.withoutUndefined, Kind.hasNonAnyInf] using iu
  obtain ⟨h1, h2, h3, h4, h5⟩ := negFold_sound (max ((col.keyLength : Int) + i) 0).toNat col.known _
    (sinit (K.isExact && !decide ((col.keyLength : Int) + i < 0)))
    (iinit (K.isExact && !decide ((col.keyLength : Int) + i < 0))) sk ik
  refine ⟨?_, h4, h5⟩
  by_cases hv : ∃ a, c = some (.arr a)
  · obtain ⟨a, rfl⟩ := hv
    simp only [memOpt] at h
    have hkl := keyLength_le_length a K col hK h hopt
    obtain ⟨col', hc, hmem, _⟩ := (mem_arr_iff a K).mp h
    rw [hK] at hc; cases hc
    rw [child_index_neg_arr a i hi]
    by_cases h0 : 0 ≤ (a.length : Int) + i
    · rw [if_pos h0]
      have hjl : ((a.length : Int) + i).toNat < a.length := by omega
      obtain ⟨w, hw⟩ := getN_some_of_lt a _ hjl
      rw [hw]
      simp only [memOpt]
      have hslot := hmem _ w hw
      cases hk : col.known.get (Key.ofIdx ((a.length : Int) + i).toNat) with
      | some Kj =>
        simp only [slotKind, hk] at hslot
        apply h2 _ Kj w hk _ hslot
        simp only [Key.ofIdx, Key.idx]; omega
      | none =>
        simp only [slotKind, hk] at hslot
        apply h1
        have : mem w col.unknownKind = true := by rw [Col.unknownKind, mem_unknown_toKind]; exact hslot
        split
        · rw [mem_withoutUndefined]; exact this
        · exact this
    · rw [if_neg h0]
      simp only [memOpt]
      apply h3
      have hcu : decide ((col.keyLength : Int) + i < 0) = true := by simp; omega
      simp only [hcu, Bool.not_true, Bool.and_false, Bool.false_eq_true, if_false]
      exact toKind_undefined col.unknown
  · have hch : child c (.index i) = none := by
      cases c with
      | none => rfl
      | some v => cases v <;> simp [child] at hv ⊢
    rw [hch]
    simp only [memOpt]
    apply h3
    have hne : K.isExact = false := by
      apply Kind.isExact_false_of_arr K hA
      cases c with
      | none =>
        simp only [memOpt] at h
        exact Or.inl (Kind.prim_isEmpty_false_of_undefined _ h)
      | some v =>
        simp only [memOpt] at h
        cases v with
        | arr a => exact absurd ⟨a, rfl⟩ hv
        | obj m =>
          right
          cases K with
          | mk p a o => cases o <;> simp [mem, Kind.hasObj] at h ⊢
        | _ => left; exact prim_nonempty_of_mem_scalar _ K h (by intro xs; simp) (by intro m; simp)
    simp only [hne, Bool.false_and, Bool.false_eq_true, if_false]
    exact toKind_undefined col.unknown

end Spec

namespace Spec

theorem objcol_parts_of_kind {K : Kind} {col : Col} (hK : K.object = some col) (sK : K.SortedK = true)
    (iK : K.hasNonAnyInf = false) :
    col.known.SortedK = true ∧ col.known.hasNonAnyInf = false ∧
    col.unknownKind.SortedK = true ∧ col.unknownKind.hasNonAnyInf = false := by
  cases K with
  | mk p a o =>
    cases o with
    | none => simp [Kind.object] at hK
    | some c =>
      simp only [Kind.object, Option.some.injEq] at hK; subst hK
      cases c with
      | mk k u =>
        obtain ⟨_, so⟩ := kind_sortedK sK
        obtain ⟨_, io⟩ := kind_infAny iK
        obtain ⟨_, sk, su⟩ := col_sortedK so
        obtain ⟨ik, iu⟩ := col_infAny io
        exact ⟨sk, ik, Unknown.sortedK_toKind u su, Unknown.infAny_toKind u iu⟩

theorem inv_orUndefined_if (b : Bool) (k : Kind) (s : k.SortedK = true) (i : k.hasNonAnyInf = false) :
    (if b = true then k.orUndefined else k).SortedK = true ∧
    (if b = true then k.orUndefined else k).hasNonAnyInf = false := by
  cases b
  · exact ⟨by simpa using s, by simpa using i⟩
  · cases k with
    | mk p a o =>
      simp only [if_true, Kind.orUndefined]
      exact ⟨by simpa [Kind.SortedK] using s, by simpa [Kind.hasNonAnyInf] using i⟩

theorem lookup_inv (col : Col) (q : Key) (sk : col.known.SortedK = true)
    (ik : col.known.hasNonAnyInf = false) (su : col.unknownKind.SortedK = true)
    (iu : col.unknownKind.hasNonAnyInf = false) :
    ((col.known.get q).getD col.unknownKind).SortedK = true ∧
    ((col.known.get q).getD col.unknownKind).hasNonAnyInf = false := by
  cases hg : col.known.get q with
  | none => exact ⟨su, iu⟩
  | some K' => exact ⟨KList.sortedK_get _ q K' sk hg, KList.infAny_get _ q K' ik hg⟩

theorem getSeg_inv (K : Kind) (s : Seg) (sK : K.SortedK = true) (iK : K.hasNonAnyInf = false) :
    (K.getSeg s).SortedK = true ∧ (K.getSeg s).hasNonAnyInf = false := by
  cases s with
  | field f =>
    simp only [Kind.getSeg, Kind.getField]
    cases hK : K.object with
    | none =>
      have h1 : Kind.undefined.SortedK = true := by decide
      have h2 : Kind.undefined.hasNonAnyInf = false := by decide
      exact ⟨h1, h2⟩
    | some col =>
      obtain ⟨sk, ik, su, iu⟩ := objcol_parts_of_kind hK sK iK
      obtain ⟨h1, h2⟩ := lookup_inv col f sk ik su iu
      exact inv_orUndefined_if (!K.isExact) _ h1 h2
  | index i =>
    simp only [Kind.getSeg]
    cases hK : K.array with
    | none =>
      have h1 : Kind.undefined.SortedK = true := by decide
      have h2 : Kind.undefined.hasNonAnyInf = false := by decide
      simp only [Kind.getIndex, hK]; exact ⟨h1, h2⟩
    | some col =>
      obtain ⟨sk, ik, su, iu⟩ := col_parts_of_kind hK sK iK
      have hpos : ∀ j, (K.getIndexPos col j).SortedK = true ∧ (K.getIndexPos col j).hasNonAnyInf = false := by
        intro j
        obtain ⟨h1, h2⟩ := lookup_inv col (Key.ofIdx j) sk ik su iu
        exact inv_orUndefined_if (!K.isExact) _ h1 h2
      by_cases hi : i < 0
      · cases hunk : col.unknownKind.containsAnyDefined with
        | true =>
          rw [getIndex_neg_unknown K col i hi hK hunk]
          have sinit : ∀ b : Bool, (if b = true then col.unknownKind.withoutUndefined else col.unknownKind).SortedK = true := by
            intro b; cases b
            · simpa using su
            · cases hk : col.unknownKind with
              | mk p a o => rw [hk] at su; simpa [Kind.withoutUndefined, Kind.SortedK] using su
          have iinit : ∀ b : Bool, (if b = true then col.unknownKind.withoutUndefined else col.unknownKind).hasNonAnyInf = false := by
            intro b; cases b
            · simpa using iu
            · cases hk : col.unknownKind with
              | mk p a o => rw [hk] at iu; simpa [Kind.withoutUndefined, Kind.hasNonAnyInf] using iu
          obtain ⟨_, _, _, h4, h5⟩ := negFold_sound (max ((col.keyLength : Int) + i) 0).toNat col.known _
            (sinit (K.isExact && !decide ((col.keyLength : Int) + i < 0)))
            (iinit (K.isExact && !decide ((col.keyLength : Int) + i < 0))) sk ik
          exact ⟨h4, h5⟩
        | false =>
          rw [getIndex_neg_exact K col i hi hK hunk]
          have h1 : Kind.undefined.SortedK = true := by decide
          have h2 : Kind.undefined.hasNonAnyInf = false := by decide
          split
          · exact hpos _
          · exact ⟨h1, h2⟩
      · have : K.getIndex i = K.getIndexPos col i.toNat := by
          unfold Kind.getIndex; rw [hK]; simp [hi]
        rw [this]; exact hpos _

/-- **`Kind::at_path` is sound along every path** (fields, indices of either sign) for key-sorted kinds
    whose `Infinite` unknowns are all `any`, as long as the path does not meet an array kind with a
    known index that may be absent. -/
theorem atPath_sound_full : (p : Path) → (c : Option Value) → (K : Kind) → optSorted c = true →
    memOpt c K = true → K.SortedK = true → K.hasNonAnyInf = false →
    C19.anyOnPath C19.optionalIdx K p = false →
    memOpt (Value.getOpt c p) (K.atPath p) = true
  | [], c, K, _, h, _, _, _ => by simpa [Value.getOpt, Kind.atPath] using h
  | s :: rest, c, K, hs, h, sK, iK, h1 => by
    simp only [C19.anyOnPath, Bool.or_eq_false_iff] at h1
    rw [getOpt_cons, Kind.atPath, memOpt_not_never c K h]
    simp only [Bool.false_eq_true, if_false]
    obtain ⟨sK', iK'⟩ := getSeg_inv K s sK iK
    refine atPath_sound_full rest (child c s) (K.getSeg s) (child_sorted c s hs) ?_ sK' iK' h1.2
    cases s with
    | field f => exact getField_sound c K f hs h
    | index i =>
      simp only [Kind.getSeg]
      by_cases hi : 0 ≤ i
      · exact getIndex_sound_nonneg c K i hi h
      · have hi' : i < 0 := by omega
        cases hK : K.array with
        | none => exact getIndex_noArray c K i hK h
        | some col =>
          have ho := h1.1
          simp only [C19.optionalIdx, hK] at ho
          cases hunk : col.unknownKind.containsAnyDefined with
          | false => exact getIndex_sound_negExact c K col i hi' hK h ho hunk
          | true => exact (getIndex_sound_negUnknown c K col i hi' hK h sK iK ho hunk).1

end Spec
