/-
  Helper lemmas for C32 (grok rules): the reference escaper `esc`, segmentation and expansion of
  placeholder-free text, tokenising/parsing/matching of escaped literals by the reference matcher.
-/
import VrlModel.C32

namespace C32
open Grok Rx

/-! ### Out -/

@[simp] theorem bind_ok {α β : Type} (a : α) (f : α → Out β) : (Out.ok a >>= f) = f a := rfl
@[simp] theorem bind_err {α β : Type} (e : Err) (f : α → Out β) : ((Out.err e : Out α) >>= f) = .err e := rfl
@[simp] theorem bind_panic {α β : Type} (f : α → Out β) : ((Out.panic : Out α) >>= f) = .panic := rfl
@[simp] theorem bind_oom {α β : Type} (f : α → Out β) : ((Out.oom : Out α) >>= f) = .oom := rfl
@[simp] theorem bind_fuel {α β : Type} (f : α → Out β) : ((Out.fuel : Out α) >>= f) = .fuel := rfl
@[simp] theorem pure_eq_ok {α : Type} (a : α) : (pure a : Out α) = .ok a := rfl

theorem bind_eq_ok {α β : Type} {x : Out α} {f : α → Out β} {b : β} (h : (x >>= f) = .ok b) :
    ∃ a, x = .ok a ∧ f a = .ok b := by
  cases x with
  | ok a => exact ⟨a, rfl, h⟩
  | err e => cases h
  | panic => cases h
  | oom => cases h
  | fuel => cases h

/-! ### the escaper -/

theorem not_meta_of_not_contains {c : Char} (h : metas.contains c = false) :
    c ≠ '.' ∧ c ≠ '*' ∧ c ≠ '+' ∧ c ≠ '?' ∧ c ≠ '(' ∧ c ≠ ')' ∧ c ≠ '[' ∧ c ≠ ']' ∧ c ≠ '{' ∧ c ≠ '}'
      ∧ c ≠ '^' ∧ c ≠ '$' ∧ c ≠ '|' ∧ c ≠ '\\' ∧ c ≠ '/' := by
  simp [metas] at h
  simp [h]

theorem meta_cases {c : Char} (h : metas.contains c = true) :
    c = '.' ∨ c = '*' ∨ c = '+' ∨ c = '?' ∨ c = '(' ∨ c = ')' ∨ c = '[' ∨ c = ']' ∨ c = '{' ∨ c = '}'
      ∨ c = '^' ∨ c = '$' ∨ c = '|' ∨ c = '\\' ∨ c = '/' := by
  simp [metas] at h
  rcases h with h | h | h | h | h | h | h | h | h | h | h | h | h | h | h <;> simp [h]

/-- the first character of an escaped text is a backslash or not a metacharacter. -/
theorem esc_head (s : Str) (c : Char) (h : (esc s).head? = some c) : c = '\\' ∨ metas.contains c = false := by
  cases s with
  | nil => simp [esc] at h
  | cons d ds =>
    simp only [esc] at h
    split at h
    · simp at h; exact Or.inl h.symm
    · rename_i hd
      simp at h; subst h
      right; simpa using hd

theorem esc_append_head (s tail : Str) (c : Char) (h : (esc s ++ tail).head? = some c) :
    c = '\\' ∨ metas.contains c = false ∨ tail.head? = some c := by
  cases hs : esc s with
  | nil => simp [hs] at h; exact Or.inr (Or.inr h)
  | cons d ds =>
    have : (esc s).head? = some c := by simp [hs] at h ⊢; exact h
    rcases esc_head s c this with h1 | h1
    · exact Or.inl h1
    · exact Or.inr (Or.inl h1)

/-! ### placeholder-free text -/

/-- no `%{` in the text. -/
def noPh : Str → Bool
  | [] => true
  | c :: cs => !(c == '%' && cs.head? == some '{') && noPh cs

theorem segF_noPh (t : Str) : ∀ (n : Nat) (acc : Str), t.length < n → noPh t = true →
    segF n t acc = [.text (acc.reverse ++ t)] := by
  induction t with
  | nil =>
    intro n acc hn _
    cases n with
    | zero => omega
    | succ n => simp [segF, flush]
  | cons c cs ih =>
    intro n acc hn hp
    cases n with
    | zero => omega
    | succ n =>
      simp only [noPh, Bool.and_eq_true, Bool.not_eq_true'] at hp
      have hlen : cs.length < n := by simp at hn; omega
      have step : segF n cs (c :: acc) = [.text (acc.reverse ++ c :: cs)] := by
        rw [ih n (c :: acc) hlen hp.2]; simp
      unfold segF
      by_cases hc : c = '%'
      · subst hc
        simp only [↓reduceIte]
        cases cs with
        | nil => exact step
        | cons d ds =>
          by_cases hd : d = '{'
          · subst hd; simp at hp
          · have hne : ∀ body, d :: ds ≠ '{' :: body := by
              intro body e; injection e with e1 _; exact hd e1
            split
            · rename_i body heq; exact absurd heq (hne body)
            · exact step
      · simp only [hc, ↓reduceIte]; exact step

theorem seg_noPh (t : Str) (h : noPh t = true) : seg t = [.text t] := by
  unfold seg; rw [segF_noPh t _ [] (by omega) h]; simp

theorem noPh_esc_append (s tail : Str) (ht : noPh tail = true) (hh : tail.head? ≠ some '{') :
    noPh (esc s ++ tail) = true := by
  induction s with
  | nil => simpa [esc] using ht
  | cons c cs ih =>
    simp only [esc]
    have hhead : (esc cs ++ tail).head? ≠ some '{' := by
      intro e
      rcases esc_append_head cs tail '{' e with h | h | h
      · cases h
      · simp [metas] at h
      · exact hh h
    split
    · rename_i hc
      have hc' : c ≠ '%' := by intro e; subst e; simp [metas] at hc
      simp [noPh, ih, hc']
    · simp only [List.cons_append, noPh, ih, Bool.and_true, Bool.not_eq_true', Bool.and_eq_false_iff]
      right
      simpa using hhead

theorem noPh_esc (s : Str) : noPh (esc s) = true := by
  have := noPh_esc_append s [] rfl (by simp)
  simpa using this

/-- `frm` occurs somewhere in the text. -/
def occurs (frm : Str) : Str → Bool
  | [] => false
  | c :: cs => frm.isPrefixOf (c :: cs) || occurs frm cs

theorem replaceAllF_noOcc (frm to : Str) (s : Str) : ∀ n, occurs frm s = false → replaceAllF frm to n s = s := by
  induction s with
  | nil => intro n _; cases n <;> simp [replaceAllF]
  | cons c cs ih =>
    intro n h
    simp only [occurs, Bool.or_eq_false_iff] at h
    cases n with
    | zero => simp [replaceAllF]
    | succ n => simp [replaceAllF, h.1, ih n h.2]

/-- an escaped text contains no `(?…`: every `(` is preceded by a backslash and every `?` too. -/
theorem occurs_group_esc (rest : Str) (s : Str) : occurs ('(' :: '?' :: rest) (esc s) = false := by
  induction s with
  | nil => simp [esc, occurs]
  | cons c cs ih =>
    simp only [esc]
    split
    · rename_i hc
      simp only [occurs, ih, Bool.or_false, Bool.or_eq_false_iff]
      constructor
      · simp [List.isPrefixOf]
      · simp only [List.isPrefixOf, Bool.and_eq_false_iff]
        by_cases h1 : c = '('
        · right
          cases hq : esc cs with
          | nil => simp [List.isPrefixOf]
          | cons d ds =>
            simp only [List.isPrefixOf, Bool.and_eq_false_iff]
            left
            have := esc_head cs d (by simp [hq])
            rcases this with h | h
            · subst h; decide
            · have := (not_meta_of_not_contains h).2.2.2.1
              simp [Ne.symm this]
        · left; simp [Ne.symm h1]
    · rename_i hc
      simp only [occurs, ih, Bool.or_false]
      have := (not_meta_of_not_contains (by simpa using hc)).2.2.2.2.1
      simp [List.isPrefixOf, Ne.symm this]

theorem wrap_esc (s : Str) : wrap (esc s) = litSource s := by
  unfold wrap replaceAll litSource
  rw [replaceAllF_noOcc _ _ (esc s) _ (occurs_group_esc _ s)]
  rw [replaceAllF_noOcc _ _ (esc s) _ (occurs_group_esc _ s)]

theorem findGrok_noPh (t : Str) (h : noPh t = true) : findGrok t = none := by
  induction t with
  | nil => rfl
  | cons c cs ih =>
    simp only [noPh, Bool.and_eq_true, Bool.not_eq_true'] at h
    unfold findGrok
    by_cases hc : c = '%'
    · subst hc
      simp only [↓reduceIte]
      cases cs with
      | nil => exact ih h.2
      | cons d ds =>
        by_cases hd : d = '{'
        · subst hd; simp at h
        · split
          · rename_i body heq; injection heq with e1 _; exact absurd e1 hd
          · exact ih h.2
    · simp only [hc, ↓reduceIte]; exact ih h.2

/-! ### the reference matcher on escaped literals -/

abbrev atomChr (c : Char) : Rx.Tok := .atom (.chr c)

theorem step_esc_meta {c : Char} (h : metas.contains c = true) :
    Rx.step .esc c = some ([atomChr c], .norm) := by
  rcases meta_cases h with h | h | h | h | h | h | h | h | h | h | h | h | h | h | h <;> subst h <;> decide

theorem stepNorm_plain {c : Char} (h : metas.contains c = false) :
    Rx.stepNorm c = some ([atomChr c], .norm) := by
  have := not_meta_of_not_contains h
  obtain ⟨h1, h2, h3, h4, h5, h6, h7, h8, h9, h10, h11, h12, h13, h14, _⟩ := this
  simp [Rx.stepNorm, atomChr, *]

theorem tokenize_esc (s tail : Str) (ts : List Rx.Tok) (h : Rx.tokenizeFrom .norm tail = .ok ts) :
    Rx.tokenizeFrom .norm (esc s ++ tail) = .ok (s.map atomChr ++ ts) := by
  induction s with
  | nil => simpa [esc] using h
  | cons c cs ih =>
    simp only [esc]
    split
    · rename_i hc
      have h1 : Rx.step .norm '\\' = some ([], .esc) := by decide
      simp only [List.cons_append, Rx.tokenizeFrom, h1, step_esc_meta hc, ih]
      simp
    · rename_i hc
      have h1 : Rx.step .norm c = some ([atomChr c], .norm) := stepNorm_plain (by simpa using hc)
      simp only [List.cons_append, Rx.tokenizeFrom, h1, ih]
      simp

theorem tokenize_literal_source (s : Str) :
    Rx.tokenize (litSource s)
      = .ok (.flagM :: .anchor .bos :: (s.map atomChr ++ [.anchor .eos])) := by
  unfold litSource
  have htail : Rx.tokenizeFrom .norm cs!"\\z" = .ok [.anchor .eos] := by rfl
  have := tokenize_esc s _ _ htail
  unfold Rx.tokenize
  have e1 : Rx.step .norm '(' = some ([], .lpar) := by decide
  have e2 : Rx.step .lpar '?' = some ([], .lparQ) := by decide
  have e3 : Rx.step .lparQ 'm' = some ([], .flag) := by decide
  have e4 : Rx.step .flag ')' = some ([.flagM], .norm) := by decide
  have e5 : Rx.step .norm '\\' = some ([], .esc) := by decide
  have e6 : Rx.step .esc 'A' = some ([.anchor .bos], .norm) := by decide
  simp only [List.cons_append, List.nil_append, Rx.tokenizeFrom, e1, e2, e3, e4, e5, e6, this]

/-- `c₁ c₂ … cₙ` followed by `tl`. -/
def litSeq : Str → Rx.Re → Rx.Re
  | [], tl => tl
  | c :: cs, tl => .seq (.chr c) (litSeq cs tl)

/-- the expression of a literal-only rule: `\A c₁ … cₙ \z`. -/
def litRe (s : Str) : Rx.Re := .seq .bos (litSeq s (.seq .eos .eps))

theorem foldl_rev_chr (s : Str) (init : Rx.Re) :
    (s.reverse.map Rx.Re.chr).foldl (fun acc a => Rx.Re.seq a acc) init = litSeq s init := by
  induction s with
  | nil => rfl
  | cons c cs ih =>
    simp only [List.reverse_cons, List.map_append, List.map_cons, List.map_nil, List.foldl_append,
      List.foldl_cons, List.foldl_nil, ih, litSeq]

theorem parseToks_atoms (s : Str) (ts : List Rx.Tok) :
    ∀ (kind : Option (Option Str)) (alts cur : List Rx.Re) (q : Nat) (fs : List Rx.Frame),
      ∃ q', Rx.parseToks (s.map atomChr ++ ts) (⟨kind, alts, cur, q⟩ :: fs)
        = Rx.parseToks ts (⟨kind, alts, s.reverse.map Rx.Re.chr ++ cur, q'⟩ :: fs) := by
  induction s with
  | nil => intro kind alts cur q fs; exact ⟨q, by simp⟩
  | cons c cs ih =>
    intro kind alts cur q fs
    obtain ⟨q', hq'⟩ := ih kind alts (.chr c :: cur) 1 fs
    refine ⟨q', ?_⟩
    simp only [List.map_cons, List.cons_append, Rx.parseToks, Rx.pstep]
    simpa using hq'

theorem parse_literal_source (s : Str) :
    Rx.parse (litSource s) = .ok (litRe s) := by
  unfold Rx.parse
  rw [tokenize_literal_source]
  simp only [Rx.parseToks, Rx.pstep, Rx.Frame.empty]
  obtain ⟨q', hq'⟩ := parseToks_atoms s [.anchor .eos] none [] [.bos] 0 []
  rw [hq']
  simp only [Rx.parseToks, Rx.pstep, Rx.Frame.finish, Rx.mkAlt, Rx.mkSeq, List.foldl_cons, List.foldl_nil,
    List.foldl_append, foldl_rev_chr, litRe]

theorem run_litSeq_eos (s : Str) : ∀ (p : Option Char) (t : Str) (caps : Rx.Caps),
    Rx.run (litSeq s (.seq .eos .eps)) (fun _ c => some c) ⟨p, t⟩ caps = if t = s then some caps else none := by
  induction s with
  | nil =>
    intro p t caps
    cases t <;> simp [litSeq, Rx.run]
  | cons c cs ih =>
    intro p t caps
    cases t with
    | nil => simp [litSeq, Rx.run, Rx.oneChar]
    | cons d t' =>
      simp only [litSeq, Rx.run, Rx.oneChar]
      by_cases hd : d = c
      · subst hd; simp [ih]
      · simp [hd]

theorem matchAt_litRe_start (s t : Str) :
    Rx.matchAt (litRe s) none t = if t = s then some [] else none := by
  simp [Rx.matchAt, litRe, Rx.run, run_litSeq_eos]

theorem matchAt_litRe_later (s t : Str) (c : Char) : Rx.matchAt (litRe s) (some c) t = none := by
  simp [Rx.matchAt, litRe, Rx.run]

theorem searchFrom_litRe_later (s : Str) : ∀ (t : Str) (c : Char), Rx.searchFrom (litRe s) (some c) t = none := by
  intro t
  induction t with
  | nil => intro c; simp [Rx.searchFrom, matchAt_litRe_later]
  | cons d ds ih => intro c; simp [Rx.searchFrom, matchAt_litRe_later, ih]

/-- (iii, reference semantics) the expression of `esc s` matches `t` exactly when `t = s`. -/
theorem search_litRe (s t : Str) : Rx.search (litRe s) t = if t = s then some [] else none := by
  unfold Rx.search
  cases t with
  | nil => simp [Rx.searchFrom, matchAt_litRe_start]
  | cons d ds =>
    simp only [Rx.searchFrom, matchAt_litRe_start]
    by_cases h : d :: ds = s
    · simp [h]
    · simp [h, searchFrom_litRe_later]

theorem groupNames_litSeq (s : Str) (tl : Rx.Re) : Rx.groupNames (litSeq s tl) = Rx.groupNames tl := by
  induction s with
  | nil => rfl
  | cons c cs ih => simp [litSeq, Rx.groupNames, ih]

theorem groupNames_litRe (s : Str) : Rx.groupNames (litRe s) = [] := by
  simp [litRe, Rx.groupNames, groupNames_litSeq]

theorem refCompile_litSource (s : Str) : Rx.refCompile (litSource s) = .ok (litRe s) := by
  unfold Rx.refCompile
  rw [parse_literal_source]
  simp [groupNames_litRe, Rx.nodup]

theorem noPh_litSource (s : Str) : noPh (litSource s) = true := by
  have h := noPh_esc_append s cs!"\\z" (by decide) (by decide)
  unfold litSource
  simp only [List.cons_append, List.nil_append, noPh, h]
  simp

theorem grokExpand_noPh (lib : List (Str × Str)) (src : Str) (h : noPh src = true) :
    grokExpand lib src = .ok ⟨src, [], 0⟩ := by
  unfold grokExpand
  rw [show (1024 : Nat) = 1023 + 1 from rfl, expandF, findGrok_noPh _ h]

end C32
