/-
  The structural induction over the runtime model for an abstract state invariant (Lemmas/Inv.lean):
  `eval_inv` / `evalSeq_inv` / `evalList_inv` / `evalKVs_inv` / `thunks_inv`, and `run_inv` for whole
  runs. Same skeleton as the C16 coverage proof (Props/C16.lean), with the log-coverage predicate
  replaced by `I.J` and the coverage hypotheses by "every static target operation of the expression
  satisfies the static condition of its kind":
    external queries (`queriesE`, includes `exists` and `del` paths)  — `I.G`
    external assignment targets (`assignsE`)                          — `I.W`
    external `del` paths (`delsE`)                                     — `I.D`.
-/
import VrlProofs.Lemmas.Inv

namespace Lang

def CovE (I : Inv) (e : Expr) : Prop :=
  (∀ x ∈ queriesE e, I.G x) ∧ (∀ x ∈ assignsE e, I.W x) ∧ (∀ x ∈ delsE e, I.D x)
def CovS (I : Inv) (es : Exprs) : Prop :=
  (∀ x ∈ queriesS es, I.G x) ∧ (∀ x ∈ assignsS es, I.W x) ∧ (∀ x ∈ delsS es, I.D x)
def CovK (I : Inv) (k : KExprs) : Prop :=
  (∀ x ∈ queriesK k, I.G x) ∧ (∀ x ∈ assignsK k, I.W x) ∧ (∀ x ∈ delsK k, I.D x)
def CovA (I : Inv) (a : Args) : Prop :=
  (∀ x ∈ queriesA a, I.G x) ∧ (∀ x ∈ assignsA a, I.W x) ∧ (∀ x ∈ delsA a, I.D x)

/-- coverage of a sub-term from coverage `h` of the term -/
macro "cov_sub " h:ident : tactic => `(tactic|
  exact ⟨fun x hx => ($h).1 x (by simp [queriesE, queriesS, queriesK, queriesA, hx]),
         fun x hx => ($h).2.1 x (by simp [assignsE, assignsS, assignsK, assignsA, hx]),
         fun x hx => ($h).2.2 x (by simp [delsE, delsS, delsK, delsA, hx])⟩)

theorem Inv.keep (I : Inv) {s t : St} (hs : I.J s) (he : t.event = s.event)
    (hm : t.metadata = s.metadata) (hl : t.log = s.log) : I.J t := I.stable s t he hm hl hs

variable {I : Inv}

mutual
  theorem eval_inv : (e : Expr) → CovE I e → (s : St) → I.J s → I.J (eval e s).2
    | .lit _, _, s, hs => by rw [eval]; exact hs
    | .noop, _, s, hs => by rw [eval]; exact hs
    | .var _, _, s, hs => by rw [eval]; exact hs
    | .qvar _ _, _, s, hs => by rw [eval]; exact hs
    | .grp e, h, s, hs => by
      rw [eval]; exact eval_inv e (by cov_sub h) s hs
    | .blk es, h, s, hs => by
      rw [eval]; exact evalSeq_inv es (by cov_sub h) s hs
    | .arr es, h, s, hs => by
      have := evalList_inv es (by cov_sub h) s hs
      rw [eval]
      cases hr : evalList es s with | mk r s1 => rw [hr] at this; cases r <;> exact this
    | .obj kvs, h, s, hs => by
      have := evalKVs_inv kvs (by cov_sub h) s hs
      rw [eval]
      cases hr : evalKVs kvs s with | mk r s1 => rw [hr] at this; cases r <;> exact this
    | .ifte pred thn hasElse els, h, s, hs => by
      have hp : CovS I pred := (by cov_sub h)
      have ht : CovS I thn := (by cov_sub h)
      have he : CovS I els := (by cov_sub h)
      have h1 := evalSeq_inv pred hp { s with evShort := true } (I.keep hs rfl rfl rfl)
      rw [eval]
      cases hr : evalSeq pred { s with evShort := true } with
      | mk r s1 =>
        rw [hr] at h1
        cases r with
        | ok v =>
          cases v with
          | bool b =>
            cases b with
            | true => exact evalSeq_inv thn ht s1 h1
            | false =>
              simp only
              split
              · exact evalSeq_inv els he s1 h1
              · exact h1
          | _ => exact h1
        | _ => exact h1
    | .op o l r, h, s, hs => by
      have hl : CovE I l := (by cov_sub h)
      have hr : CovE I r := (by cov_sub h)
      cases o with
      | err =>
        have h1 := eval_inv l hl { s with evCatch := true } (I.keep hs rfl rfl rfl)
        rw [eval]
        cases hq : eval l { s with evCatch := true } with
        | mk r1 s1 =>
          rw [hq] at h1
          cases r1 with
          | err => exact eval_inv r hr s1 h1
          | _ => exact h1
      | or =>
        have h1 := eval_inv l hl { s with evShort := true } (I.keep hs rfl rfl rfl)
        rw [eval]
        cases hq : eval l { s with evShort := true } with
        | mk r1 s1 =>
          rw [hq] at h1
          cases r1 with
          | ok v =>
            have h2 := eval_inv r hr s1 h1
            cases v with
            | null =>
              simp only
              cases hq2 : eval r s1 with | mk r2 s2 => rw [hq2] at h2; cases r2 <;> exact h2
            | bool b =>
              cases b with
              | false =>
                simp only
                cases hq2 : eval r s1 with | mk r2 s2 => rw [hq2] at h2; cases r2 <;> exact h2
              | true => exact h1
            | _ => exact h1
          | _ => exact h1
      | and =>
        have h1 := eval_inv l hl { s with evShort := true } (I.keep hs rfl rfl rfl)
        rw [eval]
        cases hq : eval l { s with evShort := true } with
        | mk r1 s1 =>
          rw [hq] at h1
          cases r1 with
          | ok v =>
            have h2 := eval_inv r hr s1 h1
            cases v with
            | null => exact h1
            | bool b =>
              cases b with
              | false => exact h1
              | true =>
                simp only
                cases hq2 : eval r s1 with | mk r2 s2 => rw [hq2] at h2; cases r2 <;> exact h2
            | _ =>
              simp only
              cases hq2 : eval r s1 with | mk r2 s2 => rw [hq2] at h2; cases r2 <;> exact h2
          | _ => exact h1
      | _ =>
        have h1 := eval_inv l hl s hs
        rw [eval]
        · cases hq : eval l s with
          | mk r1 s1 =>
            rw [hq] at h1
            cases r1 with
            | ok v =>
              have h2 := eval_inv r hr s1 h1
              simp only
              cases hq2 : eval r s1 with | mk r2 s2 => rw [hq2] at h2; cases r2 <;> exact h2
            | _ => exact h1
        all_goals (intro hc; cases hc)
    | .asg t e, h, s, hs => by
      have he : CovE I e := (by cov_sub h)
      have ht : ∀ x ∈ tgtAssign t, I.W x := fun x hx => h.2.1 x (by simp [assignsE, hx])
      have h1 := eval_inv e he s hs
      rw [eval]
      cases hq : eval e s with
      | mk r1 s1 =>
        rw [hq] at h1
        cases r1 with
        | ok v =>
          simp only
          cases hi : t.insert v s1 with
          | none => exact h1
          | some s2 => exact I.tgtInsert t v s1 s2 h1 ht hi
        | _ => exact h1
    | .iasg okT errT e d, h, s, hs => by
      have he : CovE I e := (by cov_sub h)
      have hok : ∀ x ∈ tgtAssign okT, I.W x := fun x hx => h.2.1 x (by simp [assignsE, hx])
      have herr : ∀ x ∈ tgtAssign errT, I.W x := fun x hx => h.2.1 x (by simp [assignsE, hx])
      have h1 := eval_inv e he { s with evCatch := true } (I.keep hs rfl rfl rfl)
      rw [eval]
      cases hq : eval e { s with evCatch := true } with
      | mk r1 s1 =>
        rw [hq] at h1
        cases r1 with
        | ok v =>
          simp only
          cases hi : okT.insert v s1 with
          | none => exact h1
          | some s2 =>
            have h2 := I.tgtInsert okT v s1 s2 h1 hok hi
            simp only
            cases hi2 : errT.insert .null s2 with
            | none => exact h2
            | some s3 => exact I.tgtInsert errT .null s2 s3 h2 herr hi2
        | err =>
          simp only
          cases hi : okT.insert d s1 with
          | none => exact h1
          | some s2 =>
            have h2 := I.tgtInsert okT d s1 s2 h1 hok hi
            simp only
            cases hm : s2.errs with
            | nil => exact h2
            | cons msg rest =>
              simp only
              cases hi2 : errT.insert (.bytes msg) { s2 with errs := rest } with
              | none => exact I.keep h2 rfl rfl rfl
              | some s3 => exact I.tgtInsert errT _ { s2 with errs := rest } s3 (I.keep (s := s2) h2 rfl rfl rfl) herr hi2
        | _ => exact h1
    | .qext m p, h, s, hs => by
      have := I.get s m p (h.1 _ (by simp [queriesE])) hs
      rw [eval]
      cases hq : s.targetGet m p with | mk r s1 => rw [hq] at this; exact this
    | .qexpr e p, h, s, hs => by
      have h1 := eval_inv e (by cov_sub h) s hs
      rw [eval]
      cases hq : eval e s with | mk r1 s1 => rw [hq] at h1; cases r1 <;> exact h1
    | .not e, h, s, hs => by
      have h1 := eval_inv e (by cov_sub h) s hs
      rw [eval]
      cases hq : eval e s with
      | mk r1 s1 =>
        rw [hq] at h1
        cases r1 with
        | ok v => cases v <;> exact h1
        | _ => exact h1
    | .abort hasMsg e, h, s, hs => by
      have h1 := eval_inv e (by cov_sub h) s hs
      rw [eval]
      split
      · cases hq : eval e s with
        | mk r1 s1 =>
          rw [hq] at h1
          cases r1 with
          | ok v =>
            cases v with
            | bytes b => simp only; split <;> first | exact h1 | exact I.keep h1 rfl rfl rfl
            | _ => exact h1
          | _ => exact h1
      · exact I.keep hs rfl rfl rfl
    | .ret e, h, s, hs => by
      have h1 := eval_inv e (by cov_sub h) s hs
      rw [eval]
      cases hq : eval e s with
      | mk r1 s1 =>
        rw [hq] at h1
        cases r1 with
        | ok v => exact I.keep h1 rfl rfl rfl
        | _ => exact h1
    | .delExt m p hasC c, h, s, hs => by
      have hc : CovE I c := (by cov_sub h)
      have hq : I.D (m, p) := h.2.2 _ (by simp [delsE])
      have h1 : I.J (if hasC then eval c s else (.ok (.bool false), s)).2 := by
        split
        · exact eval_inv c hc s hs
        · exact hs
      rw [eval]
      cases hx : (if hasC then eval c s else (.ok (.bool false), s)) with
      | mk r1 s1 =>
        rw [hx] at h1
        cases r1 with
        | ok v =>
          cases v with
          | bool b =>
            simp only
            have := I.rem s1 m p b hq h1
            cases hy : s1.targetRemove m p b with | mk r2 s2 => rw [hy] at this; exact this
          | _ => exact h1
        | _ => exact h1
    | .delVar n p hasC c, h, s, hs => by
      have hc : CovE I c := (by cov_sub h)
      have h1 : I.J (if hasC then eval c s else (.ok (.bool false), s)).2 := by
        split
        · exact eval_inv c hc s hs
        · exact hs
      rw [eval]
      cases hx : (if hasC then eval c s else (.ok (.bool false), s)) with
      | mk r1 s1 =>
        rw [hx] at h1
        cases r1 with
        | ok v =>
          cases v with
          | bool b =>
            simp only
            cases hv : s1.getVar n with
            | none => exact h1
            | some w => exact I.keep h1 rfl rfl rfl
          | _ => exact h1
        | _ => exact h1
    | .delExpr e p hasC c, h, s, hs => by
      have hc : CovE I c := (by cov_sub h)
      have he : CovE I e := (by cov_sub h)
      have h1 : I.J (if hasC then eval c s else (.ok (.bool false), s)).2 := by
        split
        · exact eval_inv c hc s hs
        · exact hs
      rw [eval]
      cases hx : (if hasC then eval c s else (.ok (.bool false), s)) with
      | mk r1 s1 =>
        rw [hx] at h1
        cases r1 with
        | ok v =>
          cases v with
          | bool b =>
            simp only
            have h2 := eval_inv e he s1 h1
            cases hy : eval e s1 with | mk r2 s2 => rw [hy] at h2; cases r2 <;> exact h2
          | _ => exact h1
        | _ => exact h1
    | .existsExt m p, h, s, hs => by
      have := I.get s m p (h.1 _ (by simp [queriesE])) hs
      rw [eval]
      cases hq : s.targetGet m p with | mk r s1 => rw [hq] at this; exact this
    | .existsVar n p, _, s, hs => by
      rw [eval]; cases s.getVar n <;> exact hs
    | .existsExpr e p, h, s, hs => by
      have h1 := eval_inv e (by cov_sub h) s hs
      rw [eval]
      cases hq : eval e s with | mk r1 s1 => rw [hq] at h1; cases r1 <;> exact h1
    | .call name _ _ args hasClosure cvars cbody, h, s, hs => by
      have ha : CovA I args := (by cov_sub h)
      have hb : CovS I cbody := (by cov_sub h)
      rw [eval]
      apply I.callFn name _ _ (thunks_inv args ha)
      · intro vars body hcl
        split at hcl
        · cases hcl
          intro s' hs'
          exact evalSeq_inv cbody hb s' hs'
        · cases hcl
      · split
        · exact I.keep hs rfl rfl rfl
        · exact hs

  theorem evalSeq_inv : (es : Exprs) → CovS I es → (s : St) → I.J s → I.J (evalSeq es s).2
    | .nil, _, s, hs => by rw [evalSeq]; exact hs
    | .cons e .nil, h, s, hs => by
      rw [evalSeq]
      exact eval_inv e (by cov_sub h) s hs
    | .cons e (.cons e2 es), h, s, hs => by
      have h1 := eval_inv e (by cov_sub h) s hs
      have ht : CovS I (.cons e2 es) :=
        ⟨fun x hx => h.1 x (by simp only [queriesS] at hx ⊢; simp [hx]),
         fun x hx => h.2.1 x (by simp only [assignsS] at hx ⊢; simp [hx]),
         fun x hx => h.2.2 x (by simp only [delsS] at hx ⊢; simp [hx])⟩
      rw [evalSeq]
      · cases hq : eval e s with
        | mk r1 s1 =>
          rw [hq] at h1
          cases r1 with
          | ok v => exact evalSeq_inv (.cons e2 es) ht s1 h1
          | _ => exact h1
      · intro hc; cases hc

  theorem evalList_inv : (es : Exprs) → CovS I es → (s : St) → I.J s → I.J (evalList es s).2
    | .nil, _, s, hs => by rw [evalList]; exact hs
    | .cons e es, h, s, hs => by
      have h1 := eval_inv e (by cov_sub h) s hs
      have ht : CovS I es := (by cov_sub h)
      rw [evalList]
      cases hq : eval e s with
      | mk r1 s1 =>
        rw [hq] at h1
        cases r1 with
        | ok v =>
          have h2 := evalList_inv es ht s1 h1
          simp only
          cases hq2 : evalList es s1 with | mk r2 s2 => rw [hq2] at h2; cases r2 <;> exact h2
        | _ => exact h1

  theorem evalKVs_inv : (k : KExprs) → CovK I k → (s : St) → I.J s → I.J (evalKVs k s).2
    | .nil, _, s, hs => by rw [evalKVs]; exact hs
    | .cons key e kes, h, s, hs => by
      have h1 := eval_inv e (by cov_sub h) s hs
      have ht : CovK I kes := (by cov_sub h)
      rw [evalKVs]
      cases hq : eval e s with
      | mk r1 s1 =>
        rw [hq] at h1
        cases r1 with
        | ok v =>
          have h2 := evalKVs_inv kes ht s1 h1
          simp only
          cases hq2 : evalKVs kes s1 with | mk r2 s2 => rw [hq2] at h2; cases r2 <;> exact h2
        | _ => exact h1

  theorem thunks_inv : (as : Args) → CovA I as → I.ArgsOK (thunks as)
    | .nil, _ => by intro k t hm; simp [thunks] at hm
    | .cons kw e as, h => by
      intro k t hm
      rw [thunks] at hm
      rcases List.mem_cons.mp hm with e1 | e1
      · cases e1
        intro s hs
        exact eval_inv e (by cov_sub h) s hs
      · exact thunks_inv as (by cov_sub h) k t e1
end

/-- whole runs: the root check of `Runtime::resolve` is one more read (of the event root). -/
theorem run_inv (I : Inv) (prog : Exprs) (hcov : CovS I prog) (hroot : I.G (false, [])) (s : St)
    (hs : I.J s) : I.J (run prog s).2 := by
  have h1 : I.J (s.tick 0 false []).2 := by
    have := I.get s false [] hroot hs
    unfold St.targetGet at this
    cases ht : s.tick 0 false [] with
    | mk rej s' => rw [ht] at this; simp only at this; split at this <;> exact this
  unfold run
  cases ht : s.tick 0 false [] with
  | mk rej s1 =>
    rw [ht] at h1
    simp only
    split
    · exact h1
    · have h2 := evalSeq_inv prog hcov s1 h1
      cases hr : evalSeq prog s1 with | mk r s2 => rw [hr] at h2; cases r <;> exact h2

end Lang
