/-
  C03 clause (b): a call typed infallible does not return an error. Value-level lemmas: run-time
  typing of the slots (`TypesOk`) and the functions that cannot fail on well-typed arguments.
-/
import VrlProofs.Lemmas.C03Coll
import VrlProofs.Lemmas.F64

namespace C03
open Spec
open Str (R)

/-! ### unpacking `TypesOk` -/

theorem typesOk_nil {vs : Slots} (h : TypesOk [] vs = true) : vs = [] := by
  cases vs with
  | nil => rfl
  | cons _ _ => simp [TypesOk] at h

theorem typesOk_req {k : String} {m : Nat} {ps : List Param} {vs : Slots}
    (h : TypesOk (req k m :: ps) vs = true) :
    ∃ v rest, vs = some v :: rest ∧ hasBit m (kindBit v) = true ∧ TypesOk ps rest = true := by
  cases vs with
  | nil => simp [TypesOk] at h
  | cons o rest =>
    cases o with
    | none => simp [TypesOk, req] at h
    | some v =>
      simp only [TypesOk, req, Bool.and_eq_true] at h
      exact ⟨v, rest, rfl, h.1, h.2⟩

theorem typesOk_opt {k : String} {m : Nat} {ps : List Param} {vs : Slots}
    (h : TypesOk (opt k m :: ps) vs = true) :
    ∃ o rest, vs = o :: rest ∧ (∀ v, o = some v → hasBit m (kindBit v) = true) ∧
      TypesOk ps rest = true := by
  cases vs with
  | nil => simp [TypesOk] at h
  | cons o rest =>
    cases o with
    | none =>
      simp only [TypesOk, opt, Bool.and_eq_true] at h
      exact ⟨none, rest, rfl, fun v hv => (by cases hv), h.2⟩
    | some v =>
      simp only [TypesOk, opt, Bool.and_eq_true] at h
      exact ⟨some v, rest, rfl, fun w hw => (by cases hw; exact h.1), h.2⟩

/-- discharge the constructors of a value that its kind bit excludes -/
macro "kill_bits" h:ident : tactic =>
  `(tactic| first
    | (exfalso; revert $h:ident
       simp [kindBit, hasBit, mBytes, mInteger, mFloat, mBoolean, mObject, mArray, mTimestamp, mRegex,
         mNull, mAny]; done)
    | skip)

theorem bytes_of_bit {v : Value} (h : hasBit mBytes (kindBit v) = true) : ∃ b, v = .bytes b := by
  cases v <;> kill_bits h; exact ⟨_, rfl⟩
theorem int_of_bit {v : Value} (h : hasBit mInteger (kindBit v) = true) : ∃ i, v = .int i := by
  cases v <;> kill_bits h; exact ⟨_, rfl⟩
theorem arr_of_bit {v : Value} (h : hasBit mArray (kindBit v) = true) : ∃ xs, v = .arr xs := by
  cases v <;> kill_bits h; exact ⟨_, rfl⟩
theorem obj_of_bit {v : Value} (h : hasBit mObject (kindBit v) = true) : ∃ m, v = .obj m := by
  cases v <;> kill_bits h; exact ⟨_, rfl⟩

/-! ### kinds with a single state: members have that state -/

theorem prim_flags {p : Prim} (h : p.isEmpty = true) :
    p.bytes = false ∧ p.integer = false ∧ p.float = false ∧ p.boolean = false ∧
    p.timestamp = false ∧ p.regex = false ∧ p.null = false ∧ p.undefined = false := by
  cases p; simp only [Prim.isEmpty] at h; simp_all

theorem tag_of_isBytes {v : Value} {k : Kind} (hk : k.isBytes = true) (hm : mem v k = true) :
    tagOf v = .bytes := by
  cases k with
  | mk p a o =>
    simp only [Kind.isBytes, Kind.onlyPrim, Kind.prim, Bool.and_eq_true, Bool.not_eq_true',
      Prim.isEmpty, Bool.or_eq_false_iff] at hk
    cases v <;> first | rfl | (simp_all [mem, Kind.prim]; done) | skip
    all_goals first
      | (cases a <;> simp_all [mem, Kind.hasArr]; done)
      | (cases o <;> simp_all [mem, Kind.hasObj]; done)

theorem tag_of_isFloat {v : Value} {k : Kind} (hk : k.isFloat = true) (hm : mem v k = true) :
    tagOf v = .float := by
  cases k with
  | mk p a o =>
    simp only [Kind.isFloat, Kind.onlyPrim, Kind.prim, Bool.and_eq_true, Bool.not_eq_true',
      Prim.isEmpty, Bool.or_eq_false_iff] at hk
    cases v <;> first | rfl | (simp_all [mem, Kind.prim]; done) | skip
    all_goals first
      | (cases a <;> simp_all [mem, Kind.hasArr]; done)
      | (cases o <;> simp_all [mem, Kind.hasObj]; done)

theorem tag_of_isBoolean {v : Value} {k : Kind} (hk : k.isBoolean = true) (hm : mem v k = true) :
    tagOf v = .boolean := by
  cases k with
  | mk p a o =>
    simp only [Kind.isBoolean, Kind.onlyPrim, Kind.prim, Bool.and_eq_true, Bool.not_eq_true',
      Prim.isEmpty, Bool.or_eq_false_iff] at hk
    cases v <;> first | rfl | (simp_all [mem, Kind.prim]; done) | skip
    all_goals first
      | (cases a <;> simp_all [mem, Kind.hasArr]; done)
      | (cases o <;> simp_all [mem, Kind.hasObj]; done)

theorem tag_of_isTimestamp {v : Value} {k : Kind} (hk : k.isTimestamp = true) (hm : mem v k = true) :
    tagOf v = .timestamp := by
  cases k with
  | mk p a o =>
    simp only [Kind.isTimestamp, Kind.onlyPrim, Kind.prim, Bool.and_eq_true, Bool.not_eq_true',
      Prim.isEmpty, Bool.or_eq_false_iff] at hk
    cases v <;> first | rfl | (simp_all [mem, Kind.prim]; done) | skip
    all_goals first
      | (cases a <;> simp_all [mem, Kind.hasArr]; done)
      | (cases o <;> simp_all [mem, Kind.hasObj]; done)

theorem anyArray_noExactAny : anyArray.anyUnknown Unknown.exactIsAny = false := by decide
theorem anyObject_noExactAny : anyObject.anyUnknown Unknown.exactIsAny = false := by decide

theorem tag_of_mem_anyArray {v : Value} (h : mem v anyArray = true) : tagOf v = .array := by
  cases v <;> first | rfl | (simp [mem, anyArray, Kind.ofArray, Kind.hasObj, Kind.prim] at h)

theorem tag_of_mem_anyObject {v : Value} (h : mem v anyObject = true) : tagOf v = .object := by
  cases v <;> first | rfl | (simp [mem, anyObject, Kind.ofObject, Kind.hasArr, Kind.prim] at h)

theorem tag_array_of_superset {v : Value} {k : Kind} (hs : anyArray.isSuperset k = true)
    (hm : mem v k = true) : tagOf v = .array :=
  tag_of_mem_anyArray ((Spec.isSupersetF_sound _).mem _ _ v anyArray_noExactAny hs hm)

theorem tag_object_of_superset {v : Value} {k : Kind} (hs : anyObject.isSuperset k = true)
    (hm : mem v k = true) : tagOf v = .object :=
  tag_of_mem_anyObject ((Spec.isSupersetF_sound _).mem _ _ v anyObject_noExactAny hs hm)

/-- `contains_*` false: no member has that state -/
theorem not_contains {v : Value} {k : Kind} (hm : mem v k = true) :
    (k.containsBytes = false → tagOf v ≠ .bytes) ∧ (k.containsTimestamp = false → tagOf v ≠ .timestamp) ∧
    (k.containsRegex = false → tagOf v ≠ .regex) ∧ (k.containsArray = false → tagOf v ≠ .array) ∧
    (k.containsObject = false → tagOf v ≠ .object) := by
  cases k with
  | mk p a o =>
    simp only [Kind.containsBytes, Kind.containsTimestamp, Kind.containsRegex, Kind.containsArray,
      Kind.containsObject, Kind.prim, Bool.or_eq_false_iff]
    cases v <;> simp_all [mem, Kind.prim, tagOf]

/-! ### functions that cannot fail on well-typed arguments -/

theorem optBool_some {d : Bool} {o : Option Value}
    (h : ∀ v, o = some v → hasBit mBoolean (kindBit v) = true) : ∃ b, Coll.optBool d o = some b := by
  cases o with
  | none => exact ⟨d, rfl⟩
  | some w =>
    have hw := h w rfl
    cases w <;> kill_bits hw
    exact ⟨_, rfl⟩

theorem opt_bytes {o : Option Value} (d : Value) (hd : ∃ b, d = .bytes b)
    (h : ∀ v, o = some v → hasBit mBytes (kindBit v) = true) : ∃ b, o.getD d = .bytes b := by
  cases o with
  | none => exact hd
  | some w =>
    have hw := h w rfl
    cases w <;> kill_bits hw
    exact ⟨_, rfl⟩

theorem opt_int {o : Option Value} (d : Value) (hd : ∃ i, d = .int i)
    (h : ∀ v, o = some v → hasBit mInteger (kindBit v) = true) : ∃ i, o.getD d = .int i := by
  cases o with
  | none => exact hd
  | some w =>
    have hw := h w rfl
    cases w <;> kill_bits hw
    exact ⟨_, rfl⟩

theorem opt_bool {o : Option Value} (d : Value) (hd : ∃ b, d = .bool b)
    (h : ∀ v, o = some v → hasBit mBoolean (kindBit v) = true) : ∃ b, o.getD d = .bool b := by
  cases o with
  | none => exact hd
  | some w =>
    have hw := h w rfl
    cases w <;> kill_bits hw
    exact ⟨_, rfl⟩

/-! ### `from_entries`: the entries the loop accepts -/

def entryOk : Value → Bool
  | .obj e => (match Conv.selectKey e with | .bytes _ => true | _ => false)
  | _ => false

def allEntriesOk : VList → Bool
  | .nil => true
  | .cons x xs => entryOk x && allEntriesOk xs

theorem fromEntriesLoop_ne_err : (xs : VList) → (acc : VMap) → allEntriesOk xs = true →
    Conv.fromEntriesLoop xs acc ≠ .err
  | .nil, _, _ => by simp [Conv.fromEntriesLoop]
  | .cons x rest, acc, h => by
    simp only [allEntriesOk, Bool.and_eq_true] at h
    cases x <;> simp [entryOk] at h
    rename_i e
    simp only [Conv.fromEntriesLoop]
    split at h
    · rename_i k hk
      rw [hk]
      exact fromEntriesLoop_ne_err rest _ h.2
    · exact absurd h.1 (by simp)

end C03
