/-
  C30 helper lemmas, part 2: the token rules of the grammar (`TERM`, `TERM_PREFIX`, `PHRASE`,
  `NUMERIC_TERM`, `RANGE_VALUE`) on the texts `to_lucene` prints: raw text (attribute names, wildcards)
  and text printed through `lucene_escape` / `quoted_escape`; `unescape` inverts both escapes.
-/
import VrlModel.Search.NF

namespace Search
open Grammar

/-! ### `unescape` -/

theorem unescape_bs (c : Char) (r : Str) : unescape ('\\' :: c :: r) = c :: unescape r := by
  rw [unescape]

theorem unescape_cons (c : Char) (r : Str) (h : c ≠ '\\') : unescape (c :: r) = c :: unescape r := by
  rw [unescape]
  · intro e; exact absurd e h
  · intro c' r' e; exact absurd e h

theorem unescape_luceneEscape : (s : Str) → unescape (luceneEscape s) = s
  | [] => rfl
  | c :: r => by
    by_cases h : isLuceneSpecial c = true
    · simp only [luceneEscape, h, if_true]
      rw [unescape_bs, unescape_luceneEscape r]
    · have hc : c ≠ '\\' := by intro e; subst e; exact h (by decide)
      simp only [luceneEscape, h, Bool.false_eq_true, if_false]
      rw [unescape_cons c _ hc, unescape_luceneEscape r]

theorem unescape_quotedEscape : (s : Str) → unescape (quotedEscape s) = s
  | [] => rfl
  | c :: r => by
    by_cases h : (c == '"' || c == '\\') = true
    · simp only [quotedEscape, h, if_true]
      rw [unescape_bs, unescape_quotedEscape r]
    · have hc : c ≠ '\\' := by intro e; subst e; exact h (by decide)
      simp only [quotedEscape, h, Bool.false_eq_true, if_false]
      rw [unescape_cons c _ hc, unescape_quotedEscape r]

theorem unescape_noBackslash : (s : Str) → (∀ c ∈ s, c ≠ '\\') → unescape s = s
  | [], _ => rfl
  | c :: r, h => by
    rw [unescape_cons c r (h c (by simp)), unescape_noBackslash r (fun d hd => h d (by simp [hd]))]


/-! ### character classes -/

/-- where a run of term characters stops: end of input or a character that is neither a term
    character nor the start of an escape -/
def termStop (rest : Str) : Bool :=
  match rest with
  | [] => true
  | c :: _ => isInvalidStartChar c && c != '-' && c != '+' && c != '=' && c != '\\'

theorem termStop_of_atTermEnd {rest : Str} (h : atTermEnd rest = true) : termStop rest = true := by
  cases rest with
  | nil => rfl
  | cons c r =>
    simp only [atTermEnd, Bool.or_eq_true, beq_iff_eq] at h
    simp only [termStop]
    rcases h with ((h | h) | h) | h
    · simp only [isWs, Bool.or_eq_true, beq_iff_eq] at h
      rcases h with ((h | h) | h) | h <;> subst h <;> decide
    · subst h; decide
    · subst h; decide
    · subst h; decide

theorem termStop_star (r : Str) : termStop ('*' :: r) = true := rfl
theorem termStop_colon (r : Str) : termStop (':' :: r) = true := rfl

/-- the single characters of `INVALID_TERM_STARTS` that `lucene_escape` escapes -/
def invalidChars : List Char :=
  ['"', '(', ')', '[', ']', '{', '}', '+', '-', '!', ':', '~', '^', '?', '*', '\\', '>', '=', '<']

theorem invalid_iff (c : Char) :
    isInvalidStartChar c = true ↔ (isWs c = true ∨ c = '　' ∨ c ∈ invalidChars) := by
  simp only [isInvalidStartChar, invalidChars, Bool.or_eq_true, beq_iff_eq, List.mem_cons, List.mem_nil_iff,
    or_false, or_assoc]

theorem invalidChars_special : ∀ c ∈ invalidChars, isLuceneSpecial c = true := by decide

/-- a character that is invalid at the start of a term is blank (WHITESPACE or U+3000) or one
    `lucene_escape` escapes -/
theorem invalid_blank_or_special (c : Char) (h : isInvalidStartChar c = true) :
    isBlank c = true ∨ isLuceneSpecial c = true := by
  rcases (invalid_iff c).1 h with h | h | h
  · exact Or.inl (by simp [isBlank, h])
  · exact Or.inl (by subst h; rfl)
  · exact Or.inr (invalidChars_special c h)

theorem not_invalid_of_plain (c : Char) (hw : isBlank c = false) (hs : isLuceneSpecial c = false) :
    isInvalidStartChar c = false := by
  cases h : isInvalidStartChar c with
  | false => rfl
  | true =>
    cases invalid_blank_or_special c h with
    | inl h' => rw [hw] at h'; cases h'
    | inr h' => rw [hs] at h'; cases h'

/-! ### prefixes of plain characters cannot be completed by what follows -/

theorem startsWith_nil (s : Str) : startsWith [] s = true := by simp [startsWith, stripPrefix]

theorem startsWith_cons (a : Char) (p : List Char) (c : Char) (s : Str) :
    startsWith (a :: p) (c :: s) = (decide (a = c) && startsWith p s) := by
  simp only [startsWith, stripPrefix]
  by_cases h : a = c <;> simp [h]

theorem startsWith_cons_nil (a : Char) (p : List Char) : startsWith (a :: p) [] = false := by
  simp [startsWith, stripPrefix]

/-- a pattern of plain characters found at the start of `s ++ rest` lies within `s` -/
theorem startsWith_append : (p : List Char) → (s rest : Str) →
    (∀ c ∈ p, isInvalidStartChar c = false) → termStop rest = true →
    startsWith p (s ++ rest) = true → startsWith p s = true
  | [], s, _, _, _, _ => startsWith_nil s
  | a :: p, [], rest, hp, hr, h => by
    cases rest with
    | nil => simp [startsWith_cons_nil] at h
    | cons c r =>
      simp only [List.nil_append, startsWith_cons, Bool.and_eq_true, decide_eq_true_eq] at h
      have h1 := hp a (by simp)
      simp only [termStop, Bool.and_eq_true] at hr
      rw [h.1] at h1
      rw [h1] at hr
      simp at hr
  | a :: p, c :: s, rest, hp, hr, h => by
    simp only [List.cons_append, startsWith_cons, Bool.and_eq_true, decide_eq_true_eq] at h ⊢
    exact ⟨h.1, startsWith_append p s rest (fun d hd => hp d (by simp [hd])) hr h.2⟩

/-- the same through `lucene_escape`: the pattern has no character that gets escaped -/
theorem startsWith_escape : (p : List Char) → (s rest : Str) →
    (∀ c ∈ p, isInvalidStartChar c = false) → termStop rest = true →
    startsWith p (luceneEscape s ++ rest) = true → startsWith p s = true
  | [], s, _, _, _, _ => startsWith_nil s
  | a :: p, [], rest, hp, hr, h => startsWith_append (a :: p) [] rest hp hr (by simpa [luceneEscape] using h)
  | a :: p, c :: s, rest, hp, hr, h => by
    by_cases hc : isLuceneSpecial c = true
    · simp only [luceneEscape, hc, if_true, List.cons_append, startsWith_cons, Bool.and_eq_true,
        decide_eq_true_eq] at h
      have h1 := hp a (by simp)
      rw [h.1] at h1
      exact absurd h1 (by decide)
    · simp only [luceneEscape, hc, Bool.false_eq_true, if_false, List.cons_append, startsWith_cons,
        Bool.and_eq_true, decide_eq_true_eq] at h ⊢
      exact ⟨h.1, startsWith_escape p s rest (fun d hd => hp d (by simp [hd])) hr h.2⟩

/-! ### runs of term characters -/

theorem termChars_bs (c : Char) (r : Str) :
    termChars ('\\' :: c :: r) = ('\\' :: c :: (termChars r).1, (termChars r).2) := by
  rw [termChars]; simp

theorem termChars_cons (c : Char) (r : Str) (h : c ≠ '\\') :
    termChars (c :: r) =
      if !invalidStart (c :: r) || c == '-' || c == '+' || c == '=' then (c :: (termChars r).1, (termChars r).2)
      else ([], c :: r) := by
  conv => lhs; unfold termChars
  simp [h]

theorem termChars_stop (rest : Str) (h : termStop rest = true) : termChars rest = ([], rest) := by
  cases rest with
  | nil => rfl
  | cons c r =>
    simp only [termStop, Bool.and_eq_true, bne_iff_ne, ne_eq] at h
    obtain ⟨⟨⟨⟨h1, h2⟩, h3⟩, h4⟩, h5⟩ := h
    rw [termChars_cons c r h5]
    simp [invalidStart, h1, h2, h3, h4]

theorem invalidStart_cons (c : Char) (r : Str) : invalidStart (c :: r) = isInvalidStartChar c := by
  rw [invalidStart]

/-- a run of unescaped term characters is taken whole -/
theorem termChars_raw : (r rest : Str) → r.all isMidChar = true →
    termStop rest = true → termChars (r ++ rest) = (r, rest)
  | [], rest, _, hr => termChars_stop rest hr
  | c :: r, rest, hm, hr => by
    simp only [List.all_cons, Bool.and_eq_true] at hm
    have hc : c ≠ '\\' := by
      intro e; subst e; exact absurd hm.1 (by decide)
    have ih := termChars_raw r rest hm.2 hr
    rw [List.cons_append, termChars_cons c _ hc, ih]
    have hcond : (!invalidStart (c :: (r ++ rest)) || c == '-' || c == '+' || c == '=') = true := by
      have hm1 := hm.1
      simp only [isMidChar, Bool.or_eq_true, Bool.not_eq_true'] at hm1
      rcases hm1 with ((h | h) | h) | h
      · simp [invalidStart_cons, h]
      · simp [h]
      · simp [h]
      · simp [h]
    simp [hcond]

/-- a run printed by `lucene_escape` is taken whole -/
theorem termChars_esc : (v rest : Str) → hasBlank v = false →
    termStop rest = true → termChars (luceneEscape v ++ rest) = (luceneEscape v, rest)
  | [], rest, _, hr => by simpa [luceneEscape] using termChars_stop rest hr
  | c :: v, rest, hw, hr => by
    simp only [hasBlank, List.any_cons, Bool.or_eq_false_iff] at hw
    have ih := termChars_esc v rest (by simpa [hasBlank] using hw.2) hr
    by_cases hs : isLuceneSpecial c = true
    · simp only [luceneEscape, hs, if_true, List.cons_append]
      rw [termChars_bs, ih]
    · have hs' : isLuceneSpecial c = false := by simpa using hs
      have hc : c ≠ '\\' := by intro e; subst e; exact hs (by decide)
      have hinv := not_invalid_of_plain c hw.1 hs'
      simp only [luceneEscape, hs, Bool.false_eq_true, if_false, List.cons_append]
      rw [termChars_cons c _ hc, ih]
      simp [invalidStart_cons, hinv]

/-! ### keywords -/

theorem noKeyword_eq (s : Str) : noKeyword s = (!kwStart s && !startsWith ['-'] s) := by
  simp only [noKeyword, kwAnd, kwOr, kwNot, kwStart, startsWith]
  cases stripPrefix ['A', 'N', 'D'] s <;> cases stripPrefix ['&', '&'] s <;> cases stripPrefix ['O', 'R'] s <;>
    cases stripPrefix ['|', '|'] s <;> cases stripPrefix ['N', 'O', 'T'] s <;> cases stripPrefix ['-'] s <;> rfl

theorem kwStart_append (s rest : Str) (hr : termStop rest = true) (h : kwStart s = false) :
    kwStart (s ++ rest) = false := by
  simp only [kwStart, Bool.or_eq_false_iff] at h ⊢
  obtain ⟨⟨⟨⟨h1, h2⟩, h3⟩, h4⟩, h5⟩ := h
  have key : ∀ p : List Char, (∀ c ∈ p, isInvalidStartChar c = false) → startsWith p s = false →
      startsWith p (s ++ rest) = false := by
    intro p hp hs
    cases hq : startsWith p (s ++ rest) with
    | false => rfl
    | true => rw [startsWith_append p s rest hp hr hq] at hs; cases hs
  exact ⟨⟨⟨⟨key _ (by decide) h1, key _ (by decide) h2⟩, key _ (by decide) h3⟩, key _ (by decide) h4⟩,
    key _ (by decide) h5⟩

theorem kwStart_escape (v rest : Str) (hr : termStop rest = true) (h : kwStart v = false) :
    kwStart (luceneEscape v ++ rest) = false := by
  simp only [kwStart, Bool.or_eq_false_iff] at h ⊢
  obtain ⟨⟨⟨⟨h1, h2⟩, h3⟩, h4⟩, h5⟩ := h
  have key : ∀ p : List Char, (∀ c ∈ p, isInvalidStartChar c = false) → startsWith p v = false →
      startsWith p (luceneEscape v ++ rest) = false := by
    intro p hp hs
    cases hq : startsWith p (luceneEscape v ++ rest) with
    | false => rfl
    | true => rw [startsWith_escape p v rest hp hr hq] at hs; cases hs
  exact ⟨⟨⟨⟨key _ (by decide) h1, key _ (by decide) h2⟩, key _ (by decide) h3⟩, key _ (by decide) h4⟩,
    key _ (by decide) h5⟩

theorem startsWith_minus (c : Char) (r : Str) (h : c ≠ '-') : startsWith ['-'] (c :: r) = false := by
  simp only [startsWith_cons]
  simp [Ne.symm h]

/-! ### `TERM` -/

theorem termStartChar_bs (c : Char) (r : Str) : termStartChar ('\\' :: c :: r) = some (['\\', c], r) := by
  simp [termStartChar]

theorem termStartChar_cons (c : Char) (r : Str) (h : c ≠ '\\') :
    termStartChar (c :: r) = if invalidStart (c :: r) then none else some ([c], r) := by
  simp [termStartChar, h]

/-- text that is, as it stands, a run of term characters is scanned whole -/
theorem termScan_raw (a rest : Str) (hne : a ≠ []) (hch : rawTermChars a = true)
    (hr : termStop rest = true) : termScan (a ++ rest) = some (a, rest) := by
  cases a with
  | nil => exact absurd rfl hne
  | cons c a =>
    simp only [rawTermChars, Bool.and_eq_true, Bool.not_eq_true'] at hch
    have hc : c ≠ '\\' := by intro e; subst e; exact absurd hch.1 (by decide)
    unfold termScan
    rw [List.cons_append, termStartChar_cons c _ hc, invalidStart_cons, hch.1]
    simp [termChars_raw a rest hch.2 hr]

/-- text printed by `lucene_escape` is scanned whole -/
theorem termScan_esc (v rest : Str) (h : escTermOK v = true) (hr : termStop rest = true) :
    termScan (luceneEscape v ++ rest) = some (luceneEscape v, rest) := by
  simp only [escTermOK, Bool.and_eq_true, Bool.not_eq_true'] at h
  obtain ⟨hne, hw⟩ := h
  cases v with
  | nil => simp at hne
  | cons c v =>
    have hw' := hw
    simp only [hasBlank, List.any_cons, Bool.or_eq_false_iff] at hw'
    have htail := termChars_esc v rest (by simpa [hasBlank] using hw'.2) hr
    unfold termScan
    by_cases hs : isLuceneSpecial c = true
    · simp only [luceneEscape, hs, if_true, List.cons_append]
      rw [termStartChar_bs]
      simp [htail]
    · have hs' : isLuceneSpecial c = false := by simpa using hs
      have hc : c ≠ '\\' := by intro e; subst e; exact hs (by decide)
      have hinv := not_invalid_of_plain c hw'.1 hs'
      simp only [luceneEscape, hs, Bool.false_eq_true, if_false, List.cons_append]
      rw [termStartChar_cons c _ hc, invalidStart_cons, hinv]
      simp [htail]

theorem noKeyword_raw (a rest : Str) (hne : a ≠ []) (hch : rawTermChars a = true) (hk : kwStart a = false)
    (hr : termStop rest = true) : noKeyword (a ++ rest) = true := by
  cases a with
  | nil => exact absurd rfl hne
  | cons c a =>
    simp only [rawTermChars, Bool.and_eq_true, Bool.not_eq_true'] at hch
    have hminus : c ≠ '-' := by intro e; subst e; exact absurd hch.1 (by decide)
    rw [noKeyword_eq, kwStart_append _ rest hr hk]
    simp [startsWith_minus c _ hminus]

theorem noKeyword_esc (v rest : Str) (hne : v ≠ []) (hk : kwStart v = false) (hr : termStop rest = true) :
    noKeyword (luceneEscape v ++ rest) = true := by
  cases v with
  | nil => exact absurd rfl hne
  | cons c v =>
    by_cases hs : isLuceneSpecial c = true
    · simp only [luceneEscape, hs, if_true, List.cons_append]; rfl
    · have hminus : c ≠ '-' := by intro e; subst e; exact hs (by decide)
      rw [noKeyword_eq, kwStart_escape _ rest hr hk]
      simp [luceneEscape, hs, startsWith_minus c _ hminus]

/-- text that is, as it stands, a `TERM` is read as that `TERM` -/
theorem term_raw (a rest : Str) (h : rawTermOK a = true) (hr : termStop rest = true) :
    term (a ++ rest) = some (a, rest) := by
  simp only [rawTermOK, Bool.and_eq_true, Bool.not_eq_true'] at h
  obtain ⟨⟨hne, hch⟩, hk⟩ := h
  have hne' : a ≠ [] := by intro e; subst e; simp at hne
  unfold term
  rw [noKeyword_raw a rest hne' hch hk hr, termScan_raw a rest hne' hch hr]
  simp

/-- text printed by `lucene_escape` is read as one `TERM` -/
theorem term_esc (v rest : Str) (h : escTermOK v = true) (hk : kwStart v = false)
    (hr : termStop rest = true) : term (luceneEscape v ++ rest) = some (luceneEscape v, rest) := by
  have hne' : v ≠ [] := by
    intro e; subst e; simp [escTermOK] at h
  unfold term
  rw [noKeyword_esc v rest hne' hk hr, termScan_esc v rest h hr]
  simp


/-! ### `NUMERIC_TERM` with something after it -/

/-- what may follow a number for the number to be scanned the same way -/
def numStop (rest : Str) : Bool :=
  match rest with
  | [] => true
  | c :: _ => !isAsciiDigit c && c != '.' && c != 'E' && c != '-' && c != '\\'

theorem digits_nil : digits [] = ([], []) := rfl

theorem digits_cons (c : Char) (r : Str) :
    digits (c :: r) = if isAsciiDigit c then (c :: (digits r).1, (digits r).2) else ([], c :: r) := by
  rw [digits]

theorem digits_stop (rest : Str) (h : numStop rest = true) : digits rest = ([], rest) := by
  cases rest with
  | nil => rfl
  | cons c r =>
    simp only [numStop, Bool.and_eq_true, Bool.not_eq_true'] at h
    rw [digits_cons, h.1.1.1.1]; rfl

theorem digits_append : (a rest : Str) → numStop rest = true →
    digits (a ++ rest) = ((digits a).1, (digits a).2 ++ rest)
  | [], rest, h => by simp [digits_stop rest h, digits_nil]
  | c :: a, rest, h => by
    rw [List.cons_append, digits_cons, digits_cons]
    by_cases hc : isAsciiDigit c = true
    · simp [hc, digits_append a rest h]
    · simp [hc]

theorem numUnsigned_append (a rest x r : Str) (hs : numStop rest = true) (h : numUnsigned a = some (x, r)) :
    numUnsigned (a ++ rest) = some (x, r ++ rest) := by
  unfold numUnsigned at h ⊢
  rw [digits_append a rest hs]
  simp only at h ⊢
  by_cases he : (digits a).1.isEmpty = true
  · simp [he] at h
  · simp only [he, Bool.false_eq_true, if_false] at h ⊢
    cases hd : (digits a).2 with
    | nil =>
      simp only [hd] at h
      simp only [List.nil_append]
      cases rest with
      | nil => simpa using h
      | cons c r' =>
        simp only [numStop, Bool.and_eq_true, Bool.not_eq_true', bne_iff_ne, ne_eq] at hs
        have hc : c ≠ '.' := hs.1.1.1.2
        simp only [hc, if_false]
        simp only [Option.some.injEq, Prod.mk.injEq] at h
        obtain ⟨rfl, rfl⟩ := h
        rfl
    | cons c r2 =>
      simp only [hd] at h
      simp only [List.cons_append]
      by_cases hc : c = '.'
      · simp only [hc, if_true] at h ⊢
        rw [digits_append r2 rest hs]
        simp only
        by_cases hf : (digits r2).1.isEmpty = true
        · simp only [hf, if_true, Option.some.injEq, Prod.mk.injEq] at h ⊢
          obtain ⟨rfl, rfl⟩ := h
          exact ⟨rfl, rfl⟩
        · simp only [hf, Bool.false_eq_true, if_false, Option.some.injEq, Prod.mk.injEq] at h ⊢
          obtain ⟨rfl, rfl⟩ := h
          exact ⟨rfl, rfl⟩
      · simp only [hc, if_false, Option.some.injEq, Prod.mk.injEq] at h ⊢
        obtain ⟨rfl, rfl⟩ := h
        exact ⟨rfl, rfl⟩

theorem numUnsigned_none_append (a rest : Str) (hs : numStop rest = true) (h : numUnsigned a = none) :
    numUnsigned (a ++ rest) = none := by
  unfold numUnsigned at h ⊢
  rw [digits_append a rest hs]
  simp only at h ⊢
  by_cases he : (digits a).1.isEmpty = true
  · simp [he]
  · simp only [he, Bool.false_eq_true, if_false] at h
    cases hd : (digits a).2 with
    | nil => simp [hd] at h
    | cons c r2 =>
      simp only [hd] at h
      by_cases hc : c = '.'
      · simp only [hc, if_true] at h
        by_cases hf : (digits r2).1.isEmpty = true <;> simp [hf] at h
      · simp [hc] at h

theorem numSign_append (a rest : Str) (hs : numStop rest = true) :
    numSign (a ++ rest) = ((numSign a).1, (numSign a).2 ++ rest) := by
  cases a with
  | nil =>
    cases rest with
    | nil => rfl
    | cons c r =>
      simp only [numStop, Bool.and_eq_true, Bool.not_eq_true', bne_iff_ne, ne_eq] at hs
      simp [numSign, hs.1.2, hs.2]
  | cons c a =>
    by_cases h1 : c = '-'
    · simp [numSign, h1]
    · by_cases h2 : c = '\\'
      · subst h2
        cases a with
        | nil =>
          cases rest with
          | nil => rfl
          | cons d r =>
            simp only [numStop, Bool.and_eq_true, Bool.not_eq_true', bne_iff_ne, ne_eq] at hs
            simp [numSign, hs.1.2]
        | cons d a =>
          by_cases h3 : d = '-' <;> simp [numSign, h3]
      · simp [numSign, h1, h2]

theorem numValue_append (a rest x r : Str) (hs : numStop rest = true) (h : numValue a = some (x, r)) :
    numValue (a ++ rest) = some (x, r ++ rest) := by
  unfold numValue at h ⊢
  rw [numSign_append a rest hs]
  simp only at h ⊢
  cases hu : numUnsigned (numSign a).2 with
  | none => simp [hu] at h
  | some p =>
    obtain ⟨x', r'⟩ := p
    simp only [hu, Option.map_some, Option.some.injEq, Prod.mk.injEq] at h
    obtain ⟨rfl, rfl⟩ := h
    rw [numUnsigned_append _ rest x' r' hs hu]
    rfl

theorem numValue_none_append (a rest : Str) (hs : numStop rest = true) (h : numValue a = none) :
    numValue (a ++ rest) = none := by
  unfold numValue at h ⊢
  rw [numSign_append a rest hs]
  simp only at h ⊢
  cases hu : numUnsigned (numSign a).2 with
  | none => rw [numUnsigned_none_append _ rest hs hu]; rfl
  | some p => simp [hu] at h

/-- a text that is wholly a `NUMERIC_TERM` is still read as that `NUMERIC_TERM` when followed by
    something that cannot continue a number -/
theorem numericTerm_append (p rest : Str) (hs : numStop rest = true) (h : numericTerm p = some (p, [])) :
    numericTerm (p ++ rest) = some (p, rest) := by
  unfold numericTerm at h ⊢
  cases hv : numValue p with
  | none => simp [hv] at h
  | some q =>
    obtain ⟨a, r⟩ := q
    simp only [hv] at h
    rw [numValue_append p rest a r hs hv]
    simp only
    cases r with
    | nil =>
      simp only [Option.some.injEq, Prod.mk.injEq] at h
      simp only [List.nil_append]
      cases rest with
      | nil => simpa using h.1
      | cons c r' =>
        simp only [numStop, Bool.and_eq_true, Bool.not_eq_true', bne_iff_ne, ne_eq] at hs
        simp [hs.1.1.2, h.1]
    | cons c r1 =>
      simp only [List.cons_append]
      by_cases hc : c = 'E'
      · simp only [hc, if_true] at h ⊢
        cases hv2 : numValue r1 with
        | none => simp [hv2] at h
        | some q2 =>
          obtain ⟨b, r2⟩ := q2
          simp only [hv2, Option.some.injEq, Prod.mk.injEq] at h
          rw [numValue_append r1 rest b r2 hs hv2]
          simp [h.1, h.2]
      · simp [hc] at h

end Search
