import VrlProofs.Lemmas.TypeKind
import VrlProofs.Lemmas.Vars

/-! Algebra of the type state (`LocalEnv` as an association list) and preservation of
    `Conforms` by the state operations of the type inference: `TypeState::merge`,
    `apply_child_scope`, changes of run-time flags. -/

namespace Lang
open Spec

/-! ### `safe`-style lists of checks -/

/-- every failed check is the NaN marker -/
def AllNan (l : List Chk) : Prop := ∀ c ∈ l, c = Chk.nan

theorem allNan_nil : AllNan [] := by intro c h; cases h

theorem allNan_append {a b : List Chk} : AllNan (a ++ b) ↔ AllNan a ∧ AllNan b := by
  unfold AllNan
  constructor
  · intro h; exact ⟨fun c hc => h c (List.mem_append_left _ hc), fun c hc => h c (List.mem_append_right _ hc)⟩
  · rintro ⟨h1, h2⟩ c hc
    rcases List.mem_append.mp hc with h | h
    · exact h1 c h
    · exact h2 c h

theorem allNan_chk {c : Chk} {b : Bool} (hc : c ≠ .nan) : AllNan (chk c b) ↔ b = true := by
  unfold AllNan chk
  cases b
  · simp [hc]
  · simp

theorem allNan_chk_nan (b : Bool) : AllNan (chk .nan b) := by
  unfold AllNan chk
  cases b <;> simp

theorem allNan_of_all {l : List Chk} (h : l.all (· == .nan) = true) : AllNan l := by
  intro c hc
  have := List.all_eq_true.mp h c hc
  simpa using this

theorem all_of_allNan {l : List Chk} (h : AllNan l) : l.all (· == .nan) = true := by
  apply List.all_eq_true.mpr
  intro c hc
  simp [h c hc]

theorem allNan_ite {b : Bool} {x y : List Chk} : AllNan (if b = true then x else y) ↔
    (b = true → AllNan x) ∧ (b = false → AllNan y) := by
  cases b <;> simp

/-! ### `Locals` -/

namespace Locals

theorem get_nil (n : String) : get [] n = none := rfl

theorem get_cons (x : String × Details) (l : Locals) (n : String) :
    get (x :: l) n = if x.1 = n then some x.2 else get l n := by
  unfold get
  by_cases h : x.1 = n
  · simp [List.find?, h]
  · have : (x.1 == n) = false := by simp [h]
    simp [List.find?, this, h]

theorem find_filter_ne (l : Locals) (n m : String) (h : n ≠ m) :
    (l.filter (·.1 != n)).find? (·.1 == m) = l.find? (·.1 == m) := by
  induction l with
  | nil => rfl
  | cons x xs ih =>
    by_cases hx : x.1 = n
    · have : (x.1 != n) = false := by simp [hx]
      have hm : (x.1 == m) = false := by simp [hx, h]
      simp [List.filter, this, List.find?, hm, ih]
    · have : (x.1 != n) = true := by simp [hx]
      simp only [List.filter, this, List.find?]
      cases hxm : (x.1 == m) <;> simp [ih]

@[simp] theorem get_set_same (l : Locals) (n : String) (d : Details) : get (set l n d) n = some d := by
  simp [get, set, List.find?]

theorem get_set_other (l : Locals) (n m : String) (d : Details) (h : n ≠ m) :
    get (set l n d) m = get l m := by
  have hm : (n == m) = false := by simp [h]
  simp [get, set, List.find?, hm, find_filter_ne _ _ _ h]

theorem mem_of_get {l : Locals} {n : String} {d : Details} (h : get l n = some d) : (n, d) ∈ l := by
  unfold get at h
  cases hf : l.find? (·.1 == n) with
  | none => simp [hf] at h
  | some x =>
    rw [hf] at h
    simp only [Option.map_some, Option.some.injEq] at h
    have h1 := List.mem_of_find?_eq_some hf
    have h2 := List.find?_some hf
    simp only [beq_iff_eq] at h2
    cases x with
    | mk a b => simp only at h h2; subst h; subst h2; exact h1

theorem get_isSome_of_mem {l : Locals} {n : String} {d : Details} (h : (n, d) ∈ l) : (get l n).isSome = true := by
  induction l with
  | nil => cases h
  | cons x xs ih =>
    rw [get_cons]
    by_cases hx : x.1 = n
    · simp [hx]
    · simp only [hx, if_false]
      rcases List.mem_cons.mp h with h | h
      · subst h; exact absurd rfl hx
      · exact ih h

theorem get_applyChildScope (P C : Locals) (n : String) :
    get (applyChildScope P C) n = (get P n).map fun d => (get C n).getD d := by
  unfold applyChildScope
  induction P with
  | nil => rfl
  | cons x xs ih =>
    rw [List.map_cons, get_cons, get_cons]
    by_cases hx : x.1 = n
    · subst hx; simp
    · simp only [hx, if_false]; exact ih

theorem mergeEntry_fst (B : Locals) (x : String × Details) : (mergeEntry B x).1 = x.1 := by
  unfold mergeEntry; cases get B x.1 <;> rfl

theorem get_map_merge (A B : Locals) (n : String) :
    get (A.map (mergeEntry B)) n =
      (get A n).map fun d => match get B n with | some od => d.merge od | none => d := by
  induction A with
  | nil => rfl
  | cons x xs ih =>
    rw [List.map_cons, get_cons, get_cons, mergeEntry_fst]
    by_cases hx : x.1 = n
    · subst hx
      simp only [if_true, Option.map_some, Option.some.injEq]
      unfold mergeEntry
      cases get B x.1 <;> rfl
    · simp only [hx, if_false]
      exact ih

theorem get_append (A B : Locals) (n : String) :
    get (A ++ B) n = match get A n with | some d => some d | none => get B n := by
  induction A with
  | nil => rfl
  | cons x xs ih =>
    rw [List.cons_append, get_cons, get_cons]
    by_cases hx : x.1 = n
    · simp [hx]
    · simp only [hx, if_false]; exact ih

theorem get_filter (B : Locals) (f : String → Bool) (n : String) :
    get (B.filter fun x => f x.1) n = if f n then get B n else none := by
  induction B with
  | nil => simp [get_nil]
  | cons x xs ih =>
    by_cases hf : f x.1 = true
    · have : (List.filter (fun x => f x.1) (x :: xs)) = x :: List.filter (fun x => f x.1) xs := by
        simp [List.filter, hf]
      rw [this, get_cons, get_cons]
      by_cases hx : x.1 = n
      · subst hx; simp [hf]
      · simp only [hx, if_false]; exact ih
    · have : (List.filter (fun x => f x.1) (x :: xs)) = List.filter (fun x => f x.1) xs := by
        simp [List.filter, hf]
      rw [this, get_cons, ih]
      by_cases hx : x.1 = n
      · subst hx; simp [hf]
      · simp [hx]

/-- `LocalEnv::merge` pointwise -/
theorem get_merge (A B : Locals) (n : String) :
    get (merge A B) n =
      match get A n, get B n with
      | some a, some b => some (a.merge b)
      | some a, none => some a
      | none, b => b := by
  unfold merge
  rw [get_append, get_map_merge]
  cases ha : get A n with
  | some a => cases hb : get B n <;> simp
  | none =>
    simp only [Option.map_none]
    have := get_filter B (fun m => (get A m).isNone) n
    rw [this, ha]
    simp

end Locals

/-! ### `Conforms` -/

/-- the part of the run-time state `Conforms` looks at -/
def St.Same (s s' : St) : Prop :=
  s'.vars = s.vars ∧ s'.event = s.event ∧ s'.metadata = s.metadata ∧ s'.faults = s.faults

theorem St.Same.refl (s : St) : St.Same s s := ⟨rfl, rfl, rfl, rfl⟩

theorem St.Same.trans {a b c : St} (h1 : St.Same a b) (h2 : St.Same b c) : St.Same a c :=
  ⟨h2.1.trans h1.1, h2.2.1.trans h1.2.1, h2.2.2.1.trans h1.2.2.1, h2.2.2.2.trans h1.2.2.2⟩

theorem Conforms.of_same {s s' : St} {T : TState} (h : St.Same s s') (hc : Conforms s T) : Conforms s' T := by
  obtain ⟨hv, he, hm, hf⟩ := h
  refine ⟨by rw [hf]; exact hc.faults, ?_, by rw [he]; exact hc.event, by rw [he]; exact hc.eventSorted,
    by rw [hm]; exact hc.metadata, by rw [hm]; exact hc.metadataSorted, ?_⟩
  · intro n d hd
    obtain ⟨v, h1, h2⟩ := hc.vars n d hd
    exact ⟨v, by simpa [St.getVar, hv] using h1, h2⟩
  · intro n v hn
    exact hc.closed n v (by simpa [St.getVar, hv] using hn)

/-- changing only what `Conforms` does not look at in the type state -/
theorem Conforms.of_tstate {s : St} {T T' : TState} (hl : T'.locals = T.locals) (ht : T'.target = T.target)
    (hm : T'.metadata = T.metadata) (hk : T'.leaked = T.leaked) (hc : Conforms s T) : Conforms s T' := by
  refine ⟨hc.faults, ?_, by rw [ht]; exact hc.event, hc.eventSorted, by rw [hm]; exact hc.metadata,
    hc.metadataSorted, ?_⟩
  · intro n d hd
    exact hc.vars n d (by simpa [TState.getVar, hl] using hd)
  · intro n v hn
    have := hc.closed n v hn
    simpa [TState.getVar, hl, hk] using this

theorem names_of_all {A : Locals} {f : String → Bool} (h : A.all (fun (n, _) => f n) = true)
    {n : String} {d : Details} (hd : Locals.get A n = some d) : f n = true := by
  have := List.all_eq_true.mp h (n, d) (Locals.mem_of_get hd)
  simpa using this

theorem detailsMerge_checks_of_get {A B : TState} {n : String} {a b : Details}
    (h : AllNan (A.locals.flatMap fun (n, d) =>
      match B.getVar n with
      | some od => detailsMergeChecks d od
      | none => []))
    (ha : A.getVar n = some a) (hb : B.getVar n = some b) : AllNan (detailsMergeChecks a b) := by
  intro c hc
  apply h c
  rw [List.mem_flatMap]
  refine ⟨(n, a), Locals.mem_of_get ha, ?_⟩
  simp only [hb]
  exact hc

/-- the hypotheses `mergeChecks` provides -/
structure MergeOk (A B : TState) : Prop where
  subBA : ∀ n d, B.getVar n = some d → (A.getVar n).isSome = true
  subAB : ∀ n d, A.getVar n = some d → (B.getVar n).isSome = true
  details : ∀ n a b, A.getVar n = some a → B.getVar n = some b →
    unionOk a.td.kind b.td.kind = true ∧ (optValueEq a.value b.value = true → a.value = b.value)
  target : unionOk A.target B.target = true
  metadata : unionOk A.metadata B.metadata = true

theorem mergeOk_of_checks {A B : TState} (h : AllNan (mergeChecks A B)) : MergeOk A B := by
  unfold mergeChecks at h
  simp only [allNan_append] at h
  obtain ⟨⟨⟨⟨h1, h2⟩, h3⟩, h4⟩, h5⟩ := h
  rw [allNan_chk (by decide)] at h1 h2 h4 h5
  refine ⟨?_, ?_, ?_, h4, h5⟩
  · intro n d hd
    exact names_of_all (f := fun n => (A.getVar n).isSome) h1 hd
  · intro n d hd
    exact names_of_all (f := fun n => (B.getVar n).isSome) h2 hd
  · intro n a b ha hb
    have := detailsMerge_checks_of_get h3 ha hb
    unfold detailsMergeChecks at this
    simp only [allNan_append] at this
    rw [allNan_chk (by decide), allNan_chk (by decide)] at this
    refine ⟨this.1, ?_⟩
    intro he
    have h2 := this.2
    simp only [he, Bool.not_true, Bool.false_or, decide_eq_true_eq] at h2
    exact h2

theorem TState.getVar_merge (A B : TState) (n : String) :
    (A.merge B).getVar n =
      match A.getVar n, B.getVar n with
      | some a, some b => some (a.merge b)
      | some a, none => some a
      | none, b => b := Locals.get_merge A.locals B.locals n

/-- the state after the branch that ran conforms to the merge (left operand ran) -/
theorem Conforms.merge_left {s : St} {A B : TState} (ok : MergeOk A B) (hc : Conforms s A) :
    Conforms s (A.merge B) := by
  refine ⟨hc.faults, ?_, mem_union_left' ok.target hc.event, hc.eventSorted,
    mem_union_left' ok.metadata hc.metadata, hc.metadataSorted, ?_⟩
  case refine_2 =>
    intro n v hn
    rcases hc.closed n v hn with h | h
    · left
      rw [TState.getVar_merge]
      cases ha : A.getVar n with
      | none => rw [ha] at h; cases h
      | some a => cases B.getVar n <;> rfl
    · right; exact List.mem_append_left _ h
  intro n d hd
  rw [TState.getVar_merge] at hd
  cases ha : A.getVar n with
  | none =>
    rw [ha] at hd
    simp only at hd
    have := ok.subBA n d hd
    rw [ha] at this; cases this
  | some a =>
    obtain ⟨v, hv1, hv2, hv3, hv4⟩ := hc.vars n a ha
    rw [ha] at hd
    cases hb : B.getVar n with
    | none => rw [hb] at hd; simp only [Option.some.injEq] at hd; subst hd; exact ⟨v, hv1, hv2, hv3, hv4⟩
    | some b =>
      rw [hb] at hd
      simp only [Option.some.injEq] at hd
      subst hd
      refine ⟨v, hv1, mem_union_left' (ok.details n a b ha hb).1 hv2, hv3, ?_⟩
      intro c hcv
      simp only [Details.merge] at hcv
      split at hcv
      · exact hv4 c hcv
      · cases hcv

/-- … right operand ran -/
theorem Conforms.merge_right {s : St} {A B : TState} (ok : MergeOk A B) (hc : Conforms s B) :
    Conforms s (A.merge B) := by
  refine ⟨hc.faults, ?_, mem_union_right' ok.target hc.event, hc.eventSorted,
    mem_union_right' ok.metadata hc.metadata, hc.metadataSorted, ?_⟩
  case refine_2 =>
    intro n v hn
    rcases hc.closed n v hn with h | h
    · left
      rw [TState.getVar_merge]
      cases hb : B.getVar n with
      | none => rw [hb] at h; cases h
      | some b => cases A.getVar n <;> rfl
    · right; exact List.mem_append_right _ h
  intro n d hd
  rw [TState.getVar_merge] at hd
  cases ha : A.getVar n with
  | none =>
    rw [ha] at hd
    simp only at hd
    exact hc.vars n d hd
  | some a =>
    rw [ha] at hd
    cases hb : B.getVar n with
    | none =>
      have := ok.subAB n a ha
      rw [hb] at this; cases this
    | some b =>
      obtain ⟨v, hv1, hv2, hv3, hv4⟩ := hc.vars n b hb
      rw [hb] at hd
      simp only [Option.some.injEq] at hd
      subst hd
      refine ⟨v, hv1, mem_union_right' (ok.details n a b ha hb).1 hv2, hv3, ?_⟩
      intro c hcv
      simp only [Details.merge] at hcv
      split at hcv
      · rename_i he
        have := (ok.details n a b ha hb).2 he
        exact hv4 c (by rw [← this]; exact hcv)
      · cases hcv

theorem Locals.mem_droppedNames {P C : Locals} {n : String} {d : Details} (hc : Locals.get C n = some d)
    (hp : Locals.get P n = none) : n ∈ Locals.droppedNames P C := by
  unfold Locals.droppedNames
  rw [List.mem_map]
  refine ⟨(n, d), ?_, rfl⟩
  rw [List.mem_filter]
  exact ⟨Locals.mem_of_get hc, by simp [hp]⟩

/-- `apply_child_scope`: the parent's variables with what the block made of them -/
theorem Conforms.scope {s : St} {P : Locals} {C : TState}
    (hsub : P.all (fun (n, _) => (C.getVar n).isSome) = true) (hc : Conforms s C) :
    Conforms s (scopedState P C) := by
  refine ⟨hc.faults, ?_, hc.event, hc.eventSorted, hc.metadata, hc.metadataSorted, ?_⟩
  · intro n d hd
    simp only [TState.getVar, scopedState] at hd
    rw [Locals.get_applyChildScope] at hd
    cases hp : Locals.get P n with
    | none => rw [hp] at hd; cases hd
    | some pd =>
      rw [hp] at hd
      have := names_of_all (f := fun n => (C.getVar n).isSome) hsub hp
      cases hcn : C.getVar n with
      | none => rw [hcn] at this; cases this
      | some cd =>
        simp only [TState.getVar] at hcn
        simp only [Option.map_some, hcn, Option.getD_some, Option.some.injEq] at hd
        subst hd
        exact hc.vars n cd hcn
  · intro n v hn
    rcases hc.closed n v hn with h | h
    · cases hcn : C.getVar n with
      | none => rw [hcn] at h; cases h
      | some cd =>
        cases hp : Locals.get P n with
        | some pd =>
          left
          simp only [TState.getVar, scopedState, Locals.get_applyChildScope, hp, Option.map_some, Option.isSome_some]
        | none =>
          right
          simp only [scopedState]
          exact List.mem_append_right _ (Locals.mem_droppedNames (by simpa [TState.getVar] using hcn) hp)
    · right
      simp only [scopedState]
      exact List.mem_append_left _ h

end Lang
