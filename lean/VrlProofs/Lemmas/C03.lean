/-
  Lemmas for C03: argument checking of a call (`checkArgs`) vs. run-time values, membership in the
  kinds the type_defs build (`anyArray`, `anyObject`, `restrictArray`, …).
-/
import VrlModel.C03
import VrlProofs.Props.C19

namespace C03
open Spec

/-! ### run-time kind tags -/

def Tag.bit : Tag → Nat
  | .bytes => 2 | .integer => 4 | .float => 8 | .boolean => 16 | .object => 32 | .array => 64
  | .timestamp => 128 | .regex => 256 | .null => 512

theorem kindBit_eq (v : Value) : kindBit v = (tagOf v).bit := by cases v <;> rfl

/-- all values of every slot are key-sorted (`BTreeMap` invariant of every real `Value`). -/
def SlotsSorted : Slots → Bool
  | [] => true
  | none :: vs => SlotsSorted vs
  | some v :: vs => v.Sorted && SlotsSorted vs

/-- the literal arguments are key-sorted values (what the compiler holds in a `Literal`). -/
def LitsSorted : ASlots → Bool
  | [] => true
  | some (.lit v) :: as => v.Sorted && LitsSorted as
  | _ :: as => LitsSorted as

/-! ### membership in the parameter kind decides the kind bit -/

theorem paramKind_noExactAny (m : Nat) :
    (paramKind m).anyUnknown Unknown.exactIsAny = false := by
  unfold paramKind
  cases hasBit m 64 <;> cases hasBit m 32 <;> rfl

theorem mem_paramKind (m : Nat) (v : Value) (h : mem v (paramKind m) = true) :
    hasBit m (kindBit v) = true := by
  cases v <;> simp only [mem, paramKind, kindBit] at h ⊢ <;> try exact h
  · -- arr
    rename_i xs
    cases hb : hasBit m 64 with
    | true => rfl
    | false => simp [hb, Kind.hasArr] at h
  · rename_i mm
    cases hb : hasBit m 32 with
    | true => rfl
    | false => simp [hb, Kind.hasObj] at h

/-- an argument that passed `checkArg` with `exact` only evaluates to values of the parameter's kinds. -/
theorem admits_exact (p : Param) (a : Arg) (v : Value) (hl : ∀ w, a = .lit w → w.Sorted = true)
    (hc : checkArg p a = .exact) (ha : a.admits v = true) : hasBit p.mask (kindBit v) = true := by
  have hsup : (paramKind p.mask).isSuperset a.kind = true := by
    simp only [checkArg] at hc
    split at hc
    · cases hc
    · split at hc
      · cases hc
      · rename_i h; simpa using h
  have hm : mem v a.kind = true := by
    cases a with
    | lit w =>
      simp only [Arg.admits, decide_eq_true_eq] at ha
      subst ha
      exact Spec.mem_kindOf v (hl v rfl)
    | dyn k => exact ha
  exact mem_paramKind _ _ ((Spec.isSupersetF_sound _).mem _ _ v (paramKind_noExactAny _) hsup hm)

/-- run-time typing of the slots against the parameter table: shape (required arguments present,
    as many slots as parameters) and kind bits. -/
def TypesOk : List Param → Slots → Bool
  | [], [] => true
  | p :: ps, none :: vs => !p.required && TypesOk ps vs
  | p :: ps, some v :: vs => hasBit p.mask (kindBit v) && TypesOk ps vs
  | _, _ => false

/-- shape only: as many slots as parameters, required ones present. -/
def ShapeOk : List Param → Slots → Bool
  | [], [] => true
  | p :: ps, none :: vs => !p.required && ShapeOk ps vs
  | _ :: ps, some _ :: vs => ShapeOk ps vs
  | _, _ => false

theorem typesOk_of_checkArgs : (ps : List Param) → (as : ASlots) → (vs : Slots) →
    LitsSorted as = true → checkArgs ps as = some false → Admits as vs = true → TypesOk ps vs = true
  | [], [], [], _, _, _ => rfl
  | [], [], _ :: _, _, _, h => by simp [Admits] at h
  | [], _ :: _, _, _, h, _ => by simp [checkArgs] at h
  | _ :: _, [], _, _, h, _ => by simp [checkArgs] at h
  | p :: ps, none :: as, vs, hl, hc, ha => by
    cases vs with
    | nil => simp [Admits] at ha
    | cons v vs =>
      cases v with
      | some _ => simp [Admits] at ha
      | none =>
        simp only [checkArgs] at hc
        split at hc
        · cases hc
        · rename_i hr
          simp only [Admits] at ha
          simp only [TypesOk, Bool.and_eq_true]
          exact ⟨by simpa using hr, typesOk_of_checkArgs ps as vs (by simpa [LitsSorted] using hl) hc ha⟩
  | p :: ps, some a :: as, vs, hl, hc, ha => by
    cases vs with
    | nil => simp [Admits] at ha
    | cons v vs =>
      cases v with
      | none => simp [Admits] at ha
      | some v =>
        simp only [Admits, Bool.and_eq_true] at ha
        have hl' : LitsSorted as = true ∧ ∀ w, a = .lit w → w.Sorted = true := by
          cases a with
          | lit w =>
            simp only [LitsSorted, Bool.and_eq_true] at hl
            exact ⟨hl.2, fun w' h => by cases h; exact hl.1⟩
          | dyn k => exact ⟨by simpa [LitsSorted] using hl, fun w' h => by cases h⟩
        simp only [checkArgs] at hc
        cases hca : checkArg p a with
        | invalid => simp [hca] at hc
        | unknownValidity =>
          rw [hca] at hc
          cases hr : checkArgs ps as <;> simp [hr] at hc
        | exact =>
          rw [hca] at hc
          cases hr : checkArgs ps as with
          | none => simp [hr] at hc
          | some b =>
            simp [hr] at hc
            subst hc
            simp only [TypesOk, Bool.and_eq_true]
            exact ⟨admits_exact p a v hl'.2 hca ha.1, typesOk_of_checkArgs ps as vs hl'.1 hr ha.2⟩

theorem shapeOk_of_checkArgs : (ps : List Param) → (as : ASlots) → (vs : Slots) → (b : Bool) →
    checkArgs ps as = some b → Admits as vs = true → ShapeOk ps vs = true
  | [], [], [], _, _, _ => rfl
  | [], [], _ :: _, _, _, h => by simp [Admits] at h
  | [], _ :: _, _, _, h, _ => by simp [checkArgs] at h
  | _ :: _, [], _, _, h, _ => by simp [checkArgs] at h
  | p :: ps, none :: as, vs, b, hc, ha => by
    cases vs with
    | nil => simp [Admits] at ha
    | cons v vs =>
      cases v with
      | some _ => simp [Admits] at ha
      | none =>
        simp only [checkArgs] at hc
        split at hc
        · cases hc
        · rename_i hr
          simp only [Admits] at ha
          simp only [ShapeOk, Bool.and_eq_true]
          exact ⟨by simpa using hr, shapeOk_of_checkArgs ps as vs b hc ha⟩
  | p :: ps, some a :: as, vs, b, hc, ha => by
    cases vs with
    | nil => simp [Admits] at ha
    | cons v vs =>
      cases v with
      | none => simp [Admits] at ha
      | some v =>
        simp only [Admits, Bool.and_eq_true] at ha
        simp only [checkArgs] at hc
        cases hr : checkArgs ps as with
        | none => cases hca : checkArg p a <;> simp [hr, hca] at hc
        | some b' => simpa [ShapeOk] using shapeOk_of_checkArgs ps as vs b' hr ha.2

/-! ### membership in the constant kinds -/

theorem mem_arr_anyArray (xs : VList) : mem (.arr xs) anyArray = true := by
  simp only [mem, anyArray, Kind.ofArray, Kind.hasArr, arrayD, Kind.array, Option.getD_some,
    Bool.true_and, Bool.and_eq_true, Col.any, Unknown.any]
  exact ⟨Spec.memList_infAny xs 0, by simp [absentIdxOk, Col.known, KList.keys]⟩

theorem mem_obj_anyObject (m : VMap) : mem (.obj m) anyObject = true := by
  simp only [mem, anyObject, Kind.ofObject, Kind.hasObj, objectD, Kind.object, Option.getD_some,
    Bool.true_and, Bool.and_eq_true, Col.any, Unknown.any]
  exact ⟨Spec.memMap_infAny m, by simp [absentKeysOk, Col.known, KList.keys]⟩

/-- membership of an array only looks at the array state of the kind. -/
theorem mem_arr_restrictArray (xs : VList) (k : Kind) (h : mem (.arr xs) k = true) :
    mem (.arr xs) (restrictArray k) = true := by
  cases k with
  | mk p a o =>
    cases a with
    | none => simp [mem, Kind.hasArr] at h
    | some c =>
      simpa [mem, restrictArray, Kind.array, Kind.ofArray, Kind.hasArr, arrayD] using h

theorem mem_obj_restrictObject (m : VMap) (k : Kind) (h : mem (.obj m) k = true) :
    mem (.obj m) (restrictObject k) = true := by
  cases k with
  | mk p a o =>
    cases o with
    | none => simp [mem, Kind.hasObj] at h
    | some c =>
      simpa [mem, restrictObject, Kind.object, Kind.ofObject, Kind.hasObj, objectD] using h

theorem memR_of_mem {v : Value} {k : Kind} (h : mem v k = true) : memR v k = true := by
  simp [memR, h]

end C03
