/-
  C03: `Kind::from(&Value)` of a literal satisfies the hypotheses of C19's union theorem.
-/
import VrlProofs.Lemmas.C03Union
namespace C03
open Spec

theorem allGt_kindsFrom : (xs : VList) → (i j : Nat) → i < j → KList.allGt (Key.ofIdx i) (VList.kindsFrom xs j) = true
  | .nil, _, _, _ => rfl
  | .cons x xs, i, j, h => by
    simp only [VList.kindsFrom, KList.allGt, Bool.and_eq_true]
    refine ⟨by simp [Key.ofIdx, Key.lt, h], allGt_kindsFrom xs i (j + 1) (by omega)⟩

theorem sortedKeys_kindsFrom : (xs : VList) → (i : Nat) → (VList.kindsFrom xs i).SortedKeys = true
  | .nil, _ => rfl
  | .cons x xs, i => by
    simp only [VList.kindsFrom, KList.SortedKeys, Bool.and_eq_true]
    exact ⟨allGt_kindsFrom xs i (i + 1) (by omega), sortedKeys_kindsFrom xs (i + 1)⟩

theorem allGt_kinds : (m : VMap) → (k : Key) → VMap.allGt k m = true → KList.allGt k (VMap.kinds m) = true
  | .nil, _, _ => rfl
  | .cons l v m, k, h => by
    simp only [VMap.allGt, Bool.and_eq_true] at h
    simp only [VMap.kinds, KList.allGt, Bool.and_eq_true]
    exact ⟨h.1, allGt_kinds m k h.2⟩

theorem undefUnknown_good : (Unknown.ofKind Kind.undefined).SortedK = true ∧
    (Unknown.ofKind Kind.undefined).hasNonAnyInf = false := by decide

mutual
  /-- `Kind::from(&v)` satisfies the hypotheses of C19's union theorem. -/
  theorem kindOf_good : (v : Value) → v.Sorted = true → Good v.kindOf
    | .null, _ => ⟨by decide, by decide⟩
    | .bool _, _ => ⟨rfl, rfl⟩
    | .int _, _ => ⟨rfl, rfl⟩
    | .float _, _ => ⟨rfl, rfl⟩
    | .bytes _, _ => ⟨rfl, rfl⟩
    | .ts _, _ => ⟨rfl, rfl⟩
    | .regex _, _ => ⟨rfl, rfl⟩
    | .arr xs, h => by
      simp only [Value.Sorted] at h
      have hk := kindsFrom_good xs h 0
      refine ⟨?_, ?_⟩
      · simp only [Value.kindOf, Kind.ofArray, Col.ofKnown, Kind.SortedK, OCol.SortedK, Col.SortedK,
          Bool.and_eq_true]
        exact ⟨⟨⟨sortedKeys_kindsFrom xs 0, hk.1⟩, undefUnknown_good.1⟩, trivial⟩
      · simp only [Value.kindOf, Kind.ofArray, Col.ofKnown, Kind.hasNonAnyInf, OCol.hasNonAnyInf,
          Col.hasNonAnyInf, Bool.or_eq_false_iff]
        exact ⟨⟨hk.2, undefUnknown_good.2⟩, trivial⟩
    | .obj m, h => by
      simp only [Value.Sorted] at h
      have hk := kinds_good m h
      refine ⟨?_, ?_⟩
      · simp only [Value.kindOf, Kind.ofObject, Col.ofKnown, Kind.SortedK, OCol.SortedK, Col.SortedK,
          Bool.and_eq_true]
        exact ⟨trivial, ⟨hk.1, hk.2.1⟩, undefUnknown_good.1⟩
      · simp only [Value.kindOf, Kind.ofObject, Col.ofKnown, Kind.hasNonAnyInf, OCol.hasNonAnyInf,
          Col.hasNonAnyInf, Bool.or_eq_false_iff]
        exact ⟨trivial, hk.2.2, undefUnknown_good.2⟩
  theorem kindsFrom_good : (xs : VList) → xs.Sorted = true → (i : Nat) →
      (VList.kindsFrom xs i).SortedK = true ∧ (VList.kindsFrom xs i).hasNonAnyInf = false
    | .nil, _, _ => ⟨rfl, rfl⟩
    | .cons x xs, h, i => by
      simp only [VList.Sorted, Bool.and_eq_true] at h
      have hx := kindOf_good x h.1
      have hr := kindsFrom_good xs h.2 (i + 1)
      simp only [VList.kindsFrom, KList.SortedK, KList.hasNonAnyInf, Bool.and_eq_true,
        Bool.or_eq_false_iff]
      exact ⟨⟨hx.1, hr.1⟩, hx.2, hr.2⟩
  theorem kinds_good : (m : VMap) → m.Sorted = true →
      (VMap.kinds m).SortedKeys = true ∧ (VMap.kinds m).SortedK = true ∧
        (VMap.kinds m).hasNonAnyInf = false
    | .nil, _ => ⟨rfl, rfl, rfl⟩
    | .cons k v m, h => by
      simp only [VMap.Sorted, Bool.and_eq_true] at h
      have hv := kindOf_good v h.1.1
      have hr := kinds_good m h.2
      simp only [VMap.kinds, KList.SortedKeys, KList.SortedK, KList.hasNonAnyInf, Bool.and_eq_true,
        Bool.or_eq_false_iff]
      exact ⟨⟨allGt_kinds m k h.1.2, hr.1⟩, ⟨hv.1, hr.2.1⟩, hv.2, hr.2.2⟩
end

/-! ### no `undefined` state in the kinds of literals and their unions -/

theorem union_prim (a b : Kind) : (a.union b).prim = a.prim.or b.prim := by
  cases a with
  | mk p1 a1 o1 =>
    cases b with
    | mk p2 a2 o2 =>
      simp only [Kind.union, Kind.mergeKeep, Kind.fuel]
      rw [show 2 * ((Kind.mk p1 a1 o1).depth + (Kind.mk p2 a2 o2).depth) + 4
          = (2 * ((Kind.mk p1 a1 o1).depth + (Kind.mk p2 a2 o2).depth) + 3) + 1 from rfl]
      simp only [Kind.mergeKeepF, Kind.prim]

def NoUndef (k : Kind) : Prop := k.prim.undefined = false

theorem noUndef_union {a b : Kind} (ha : NoUndef a) (hb : NoUndef b) : NoUndef (a.union b) := by
  unfold NoUndef at *
  rw [union_prim]; simp [Prim.or, ha, hb]

theorem noUndef_kindOf (v : Value) : NoUndef v.kindOf := by cases v <;> rfl

theorem noUndef_withoutUndefined (k : Kind) : NoUndef k.withoutUndefined := by
  cases k; rfl

theorem noUndef_unionAll : (m : KList) → (acc : Kind) → NoUndef acc →
    (∀ q K, m.get q = some K → NoUndef K) → (m.all fun _ K => !K.prim.undefined) = true →
    NoUndef (unionAll acc m)
  | .nil, _, h, _, _ => h
  | .cons k v rest, acc, h, _, ha => by
    simp only [KList.all, Bool.and_eq_true, Bool.not_eq_true'] at ha
    exact noUndef_unionAll rest (acc.union v) (noUndef_union h ha.1)
      (fun q K hq => by
        have := KList.all_of_get _ rest ha.2 q K hq
        simpa [NoUndef] using this) ha.2

theorem isAny_of_isNever {k : Kind} (h : k.isNever = true) : k.isAny = true := by
  simp [Kind.isAny, Kind.containsBytes, Kind.containsInteger, Kind.containsFloat, Kind.containsBoolean,
    Kind.containsTimestamp, Kind.containsRegex, Kind.containsNull, Kind.containsUndefined,
    Kind.containsArray, Kind.containsObject, h]

/-- a kind without the `undefined` state is never taken for `json` by `Unknown::from`. -/
theorem ofKindOk_of_noUndef {k : Kind} (h : NoUndef k) : ofKindOk k = true := by
  unfold ofKindOk
  cases hj : k.isJson with
  | false => simp
  | true =>
    have hu : k.containsUndefined = true := by
      simp only [Kind.isJson, Bool.and_eq_true] at hj
      exact hj.1.1.2
    have h' : k.prim.undefined = false := h
    simp only [Kind.containsUndefined, h', Bool.false_or] at hu
    simp [isAny_of_isNever hu]

theorem all_noUndef_kinds : (m : VMap) → ((VMap.kinds m).all fun _ K => !K.prim.undefined) = true
  | .nil => rfl
  | .cons k v m => by
    simp only [VMap.kinds, KList.all, Bool.and_eq_true, Bool.not_eq_true']
    exact ⟨noUndef_kindOf v, all_noUndef_kinds m⟩

end C03
