import VrlProofs.Lemmas.Log

namespace Lang

variable {Q A : PL}

theorem logOK_forEachMap (vars : List String) (body : Thunk) (hb : TOK Q A body) :
    (m : VMap) → (s : St) → LogOK Q A s → LogOK Q A (forEachMap vars body m s).2
  | .nil, _, hs => hs
  | .cons k v m, s, hs => by
    have h1 := logOK_runKeyValue vars body hb k v s hs
    rw [forEachMap]
    cases hr : runKeyValue vars body k v s with
    | mk r s1 =>
      rw [hr] at h1
      cases r with
      | ok _ => exact logOK_forEachMap vars body hb m s1 h1
      | _ => exact h1

theorem logOK_forEachList (vars : List String) (body : Thunk) (hb : TOK Q A body) :
    (a : VList) → (i : Nat) → (s : St) → LogOK Q A s → LogOK Q A (forEachList vars body a i s).2
  | .nil, _, _, hs => hs
  | .cons v vs, i, s, hs => by
    have h1 := logOK_runIndexValue vars body hb i v s hs
    rw [forEachList]
    cases hr : runIndexValue vars body i v s with
    | mk r s1 =>
      rw [hr] at h1
      cases r with
      | ok _ => exact logOK_forEachList vars body hb vs (i + 1) s1 h1
      | _ => exact h1

theorem logOK_filterMap (vars : List String) (body : Thunk) (hb : TOK Q A body) :
    (m : VMap) → (s : St) → LogOK Q A s → LogOK Q A (filterMap vars body m s).2
  | .nil, _, hs => hs
  | .cons k v m, s, hs => by
    have h1 := logOK_runKeyValue vars body hb k v s hs
    rw [filterMap]
    cases hr : runKeyValue vars body k v s with
    | mk r s1 =>
      rw [hr] at h1
      cases r with
      | ok w =>
        cases w with
        | bool b =>
          have ih := logOK_filterMap vars body hb m s1 h1
          simp only
          cases hf : filterMap vars body m s1 with
          | mk r2 s2 => rw [hf] at ih; cases r2 <;> exact ih
        | _ => exact h1
      | _ => exact h1

theorem logOK_filterList (vars : List String) (body : Thunk) (hb : TOK Q A body) :
    (a : VList) → (i : Nat) → (s : St) → LogOK Q A s → LogOK Q A (filterList vars body a i s).2
  | .nil, _, _, hs => hs
  | .cons v vs, i, s, hs => by
    have h1 := logOK_runIndexValue vars body hb i v s hs
    rw [filterList]
    cases hr : runIndexValue vars body i v s with
    | mk r s1 =>
      rw [hr] at h1
      cases r with
      | ok w =>
        cases w with
        | bool b =>
          have ih := logOK_filterList vars body hb vs (i + 1) s1 h1
          simp only
          cases hf : filterList vars body vs (i + 1) s1 with
          | mk r2 s2 => rw [hf] at ih; cases r2 <;> exact ih
        | _ => exact h1
      | _ => exact h1

theorem logOK_mapKeysMap (vars : List String) (body : Thunk) (hb : TOK Q A body) :
    (m : VMap) → (s : St) → LogOK Q A s → LogOK Q A (mapKeysMap vars body m s).2
  | .nil, _, hs => hs
  | .cons k v m, s, hs => by
    have h1 := logOK_mapKey vars body hb k s hs
    rw [mapKeysMap]
    cases hr : mapKey vars body k s with
    | mk r s1 =>
      rw [hr] at h1
      cases r with
      | ok k' =>
        have ih := logOK_mapKeysMap vars body hb m s1 h1
        simp only
        cases hf : mapKeysMap vars body m s1 with
        | mk r2 s2 => rw [hf] at ih; cases r2 <;> exact ih
      | error _ => exact h1

theorem logOK_mapValuesMap (vars : List String) (body : Thunk) (hb : TOK Q A body) :
    (m : VMap) → (s : St) → LogOK Q A s → LogOK Q A (mapValuesMap vars body m s).2
  | .nil, _, hs => hs
  | .cons k v m, s, hs => by
    have h1 := logOK_mapValue vars body hb v s hs
    rw [mapValuesMap]
    cases hr : mapValue vars body v s with
    | mk r s1 =>
      rw [hr] at h1
      cases r with
      | ok w =>
        have ih := logOK_mapValuesMap vars body hb m s1 h1
        simp only
        cases hf : mapValuesMap vars body m s1 with
        | mk r2 s2 => rw [hf] at ih; cases r2 <;> exact ih
      | _ => exact h1

theorem logOK_mapValuesList (vars : List String) (body : Thunk) (hb : TOK Q A body) :
    (a : VList) → (s : St) → LogOK Q A s → LogOK Q A (mapValuesList vars body a s).2
  | .nil, _, hs => hs
  | .cons v vs, s, hs => by
    have h1 := logOK_mapValue vars body hb v s hs
    rw [mapValuesList]
    cases hr : mapValue vars body v s with
    | mk r s1 =>
      rw [hr] at h1
      cases r with
      | ok w =>
        have ih := logOK_mapValuesList vars body hb vs s1 h1
        simp only
        cases hf : mapValuesList vars body vs s1 with
        | mk r2 s2 => rw [hf] at ih; cases r2 <;> exact ih
      | _ => exact h1

/-- all present slot thunks keep the log covered -/
def SlotsOK (Q A : PL) (slots : List (Option Thunk)) : Prop := ∀ t, some t ∈ slots → TOK Q A t

theorem logOK_evalSlots : (slots : List (Option Thunk)) → SlotsOK Q A slots → (s : St) → LogOK Q A s →
    LogOK Q A (evalSlots slots s).2
  | [], _, _, hs => hs
  | none :: rest, hsl, s, hs => by
    have ih := logOK_evalSlots rest (fun t ht => hsl t (List.mem_cons_of_mem _ ht)) s hs
    rw [evalSlots]
    cases hr : evalSlots rest s with | mk r s1 => rw [hr] at ih; cases r <;> exact ih
  | some t :: rest, hsl, s, hs => by
    have h1 := hsl t (List.mem_cons_self) s hs
    rw [evalSlots]
    cases ht : t s with
    | mk r s1 =>
      rw [ht] at h1
      cases r with
      | ok v =>
        have ih := logOK_evalSlots rest (fun t ht => hsl t (List.mem_cons_of_mem _ ht)) s1 h1
        simp only
        cases hr : evalSlots rest s1 with | mk r2 s2 => rw [hr] at ih; cases r2 <;> exact ih
      | _ => exact h1

/-- every thunk of the argument list keeps the log covered -/
def ArgsOK (Q A : PL) (args : List (Option String × Thunk)) : Prop := ∀ k t, (k, t) ∈ args → TOK Q A t

theorem fill_mem : (slots : List (Option Thunk)) → (us : List Thunk) → (out : List (Option Thunk)) →
    placeArgs.fill slots us = some out → ∀ t, some t ∈ out → some t ∈ slots ∨ t ∈ us
  | [], [], out, h, t, ht => by simp [placeArgs.fill] at h; subst h; simp at ht
  | [], _ :: _, out, h, _, _ => by simp [placeArgs.fill] at h
  | some x :: rest, us, out, h, t, ht => by
    simp only [placeArgs.fill, Option.map_eq_some_iff] at h
    obtain ⟨o, ho, rfl⟩ := h
    rcases List.mem_cons.mp ht with e | e
    · left; rw [e]; exact List.mem_cons_self
    · rcases fill_mem rest us o ho t e with h1 | h1
      · left; exact List.mem_cons_of_mem _ h1
      · right; exact h1
  | none :: rest, u :: us, out, h, t, ht => by
    simp only [placeArgs.fill, Option.map_eq_some_iff] at h
    obtain ⟨o, ho, rfl⟩ := h
    rcases List.mem_cons.mp ht with e | e
    · right; cases e; exact List.mem_cons_self
    · rcases fill_mem rest us o ho t e with h1 | h1
      · left; exact List.mem_cons_of_mem _ h1
      · right; exact List.mem_cons_of_mem _ h1
  | none :: rest, [], out, h, t, ht => by
    simp only [placeArgs.fill, Option.map_eq_some_iff] at h
    obtain ⟨o, ho, rfl⟩ := h
    rcases List.mem_cons.mp ht with e | e
    · cases e
    · rcases fill_mem rest [] o ho t e with h1 | h1
      · left; exact List.mem_cons_of_mem _ h1
      · right; exact h1

theorem slotsOK_of_placeArgs (params : List String) (args : List (Option String × Thunk))
    (slots : List (Option Thunk)) (ha : ArgsOK Q A args) (h : placeArgs params args = some slots) :
    SlotsOK Q A slots := by
  intro t ht
  unfold placeArgs at h
  simp only at h
  split at h
  · cases h
  · rcases fill_mem _ _ _ h t ht with h1 | h1
    · -- a named slot
      simp only [List.mem_map] at h1
      obtain ⟨p, _, hp⟩ := h1
      cases hf : List.find? (fun x => x.fst == p) (List.filterMap (fun x => Option.map (fun x_1 => (x_1, x.snd)) x.fst) args) with
      | none => rw [hf] at hp; cases hp
      | some kt =>
        rw [hf] at hp
        simp only [Option.map_some, Option.some.injEq] at hp
        have hm := List.mem_of_find?_eq_some hf
        simp only [List.mem_filterMap] at hm
        obtain ⟨⟨k, t'⟩, hmem, hk⟩ := hm
        cases k with
        | none => simp at hk
        | some kk =>
          simp at hk
          subst hk
          simp at hp
          subst hp
          exact ha _ _ hmem
    · -- an unnamed argument
      simp only [List.mem_filterMap] at h1
      obtain ⟨⟨k, t'⟩, hmem, hk⟩ := h1
      cases k with
      | none => simp at hk; subst hk; exact ha _ _ hmem
      | some _ => simp at hk

end Lang
