/-
  Helper lemmas for C25 (flatten / unflatten), part 1: `split_once` / `split` on joined keys.
-/
import VrlModel.C25

namespace Conv

theorem isPrefix_append_of_le : (s a x : List Nat) → s.length ≤ a.length →
    isPrefix s (a ++ x) = isPrefix s a
  | [], _, _, _ => by simp [isPrefix]
  | _ :: _, [], _, h => by simp at h
  | c :: s, d :: a, x, h => by
    simp only [List.cons_append, isPrefix]
    rw [isPrefix_append_of_le s a x (by simpa using h)]

theorem isPrefix_self_append : (s x : List Nat) → isPrefix s (s ++ x) = true
  | [], _ => by simp [isPrefix]
  | c :: s, x => by simp [isPrefix, isPrefix_self_append s x]

theorem isPrefix_append : (s a x : List Nat) → isPrefix s a = true → isPrefix s (a ++ x) = true
  | [], _, _, _ => by simp [isPrefix]
  | _ :: _, [], _, h => by simp [isPrefix] at h
  | c :: s, d :: a, x, h => by
    simp only [isPrefix, Bool.and_eq_true] at h
    simp only [List.cons_append, isPrefix, Bool.and_eq_true]
    exact ⟨h.1, isPrefix_append s a x h.2⟩

namespace Flat

theorem splitOnce_cons (sep : Key) (c : Nat) (cs : Key) :
    splitOnce sep (c :: cs) =
      if isPrefix sep (c :: cs) then some ([], (c :: cs).drop sep.length)
      else (splitOnce sep cs).map fun p => (c :: p.1, p.2) := rfl

/-- a separator match at the very front -/
theorem splitOnce_sep_append (sep x : Key) : splitOnce sep (sep ++ x) = some ([], x) := by
  cases hs : sep ++ x with
  | nil =>
    have h1 : sep = [] := by cases sep <;> simp_all
    have h2 : x = [] := by cases sep <;> simp_all
    subst h1; subst h2; rfl
  | cons c cs =>
    rw [splitOnce_cons, ← hs, isPrefix_self_append]
    simp

/-- the decomposition `split_once` returns -/
theorem splitOnce_eq : (sep key h r : Key) → splitOnce sep key = some (h, r) → key = h ++ sep ++ r
  | sep, [], h, r, hs => by
    simp only [splitOnce] at hs
    split at hs
    · cases hs
      have : sep = [] := by cases sep <;> simp_all
      simp [this]
    · cases hs
  | sep, c :: cs, h, r, hs => by
    rw [splitOnce_cons] at hs
    split at hs
    next hp =>
      cases hs
      -- sep is a prefix of c :: cs
      have : ∀ (s l : Key), isPrefix s l = true → l = s ++ l.drop s.length := by
        intro s
        induction s with
        | nil => intro l _; simp
        | cons a s ih =>
          intro l hl
          cases l with
          | nil => simp [isPrefix] at hl
          | cons b l =>
            simp only [isPrefix, Bool.and_eq_true, beq_iff_eq] at hl
            simp only [List.length_cons, List.drop_succ_cons, List.cons_append, List.cons.injEq]
            exact ⟨hl.1.symm, ih l hl.2⟩
      simpa using this sep (c :: cs) hp
    next hp =>
      cases hso : splitOnce sep cs with
      | none => simp [hso] at hs
      | some p =>
        simp only [hso, Option.map_some, Option.some.injEq, Prod.mk.injEq] at hs
        have := splitOnce_eq sep cs p.1 p.2 hso
        rw [← hs.1, ← hs.2]
        simp [this]

/-- `sepFree k`: joining `k`, the separator and anything splits back at the join. -/
theorem splitOnce_join : (sep k x : Key) → C25.sepFree sep k = true →
    splitOnce sep (k ++ sep ++ x) = some (k, x)
  | sep, [], x, _ => by simpa using splitOnce_sep_append sep x
  | sep, c :: cs, x, h => by
    simp only [C25.sepFree, beq_iff_eq, List.cons_append] at h
    rw [splitOnce_cons] at h
    split at h
    next hp => simp at h
    next hp =>
      cases hso : splitOnce sep (cs ++ sep) with
      | none => simp [hso] at h
      | some p =>
        simp only [hso, Option.map_some, Option.some.injEq, Prod.mk.injEq, List.cons.injEq,
          true_and] at h
        have hfree : C25.sepFree sep cs = true := by
          simp only [C25.sepFree, beq_iff_eq, hso]
          rw [← h.1, ← h.2]
        have ih := splitOnce_join sep cs x hfree
        simp only [List.cons_append, List.append_assoc] at ih ⊢
        rw [splitOnce_cons]
        have hlen : sep.length ≤ (c :: (cs ++ sep)).length := by simp; omega
        have hp' : isPrefix sep (c :: (cs ++ (sep ++ x))) = false := by
          have := isPrefix_append_of_le sep (c :: (cs ++ sep)) x hlen
          simp only [List.cons_append, List.append_assoc] at this
          rw [this]
          simpa using hp
        simp [hp', ih]

/-- `sepFree k` (and a non-empty separator): `k` itself does not split. -/
theorem splitOnce_free : (sep k : Key) → sep ≠ [] → C25.sepFree sep k = true → splitOnce sep k = none
  | sep, [], hne, _ => by
    cases sep with
    | nil => exact absurd rfl hne
    | cons _ _ => rfl
  | sep, c :: cs, hne, h => by
    simp only [C25.sepFree, beq_iff_eq, List.cons_append] at h
    rw [splitOnce_cons] at h
    split at h
    next hp => simp at h
    next hp =>
      cases hso : splitOnce sep (cs ++ sep) with
      | none => simp [hso] at h
      | some p =>
        simp only [hso, Option.map_some, Option.some.injEq, Prod.mk.injEq, List.cons.injEq,
          true_and] at h
        have hfree : C25.sepFree sep cs = true := by
          simp only [C25.sepFree, beq_iff_eq, hso]
          rw [← h.1, ← h.2]
        have ih := splitOnce_free sep cs hne hfree
        rw [splitOnce_cons]
        have hp' : isPrefix sep (c :: cs) = false := by
          cases hq : isPrefix sep (c :: cs) with
          | false => rfl
          | true =>
            have := isPrefix_append sep (c :: cs) sep hq
            simp only [List.cons_append] at this
            simp [this] at hp
        simp [hp', ih]

theorem headRest_join (sep k x : Key) (h : C25.sepFree sep k = true) :
    headRest sep (k ++ sep ++ x) = (k, some x) := by
  have := splitOnce_join sep k x h
  simp only [headRest, this]

theorem headRest_free (sep k : Key) (hne : sep ≠ []) (h : C25.sepFree sep k = true) :
    headRest sep k = (k, none) := by
  simp [headRest, splitOnce_free sep k hne h]

/-- with a non-empty separator the amount of fuel (beyond the key length) does not matter -/
theorem splitAllF_fuel (sep : Key) (hne : sep ≠ []) : ∀ (f1 f2 : Nat) (key : Key),
    key.length < f1 → key.length < f2 → splitAllF sep f1 key = splitAllF sep f2 key := by
  intro f1
  induction f1 with
  | zero => intro f2 key h; omega
  | succ f1 ih =>
    intro f2 key h1 h2
    cases f2 with
    | zero => omega
    | succ f2 =>
      simp only [splitAllF]
      cases hso : splitOnce sep key with
      | none => rfl
      | some p =>
        obtain ⟨h, r⟩ := p
        have hk := splitOnce_eq sep key h r hso
        have hsl : 0 < sep.length := by cases sep <;> simp_all
        have hlen : r.length < key.length := by rw [hk]; simp; omega
        simp only [List.cons.injEq, true_and]
        exact ih f2 r (by omega) (by omega)

theorem splitAll_of_split (sep key h r : Key) (hne : sep ≠ []) (hs : splitOnce sep key = some (h, r)) :
    splitAll sep key = h :: splitAll sep r := by
  have hk := splitOnce_eq sep key h r hs
  have hsl : 0 < sep.length := by cases sep <;> simp_all
  have hlen : r.length < key.length := by rw [hk]; simp; omega
  have he : sep.isEmpty = false := by cases sep <;> simp_all
  simp only [splitAll, he, Bool.false_eq_true, ↓reduceIte]
  rw [splitAllF, hs]
  simp only [List.cons.injEq, true_and]
  exact splitAllF_fuel sep hne _ _ r hlen (by omega)

theorem splitAll_of_none (sep key : Key) (hne : sep ≠ []) (hs : splitOnce sep key = none) :
    splitAll sep key = [key] := by
  have he : sep.isEmpty = false := by cases sep <;> simp_all
  simp [splitAll, he, splitAllF, hs]

end Flat
end Conv
