/-
  Helper lemmas for C32 (ii): the regex source and the fields built for a flat rule.
-/
import VrlProofs.Lemmas.C32

namespace C32
open Grok

/-- the field map holds the keys `0 … n-1` in order. -/
def Numbered (fs : List (Nat × Field)) : Prop := fs.map Prod.fst = List.range fs.length

theorem insertField_fresh (fs : List (Nat × Field)) (n : Nat) (f : Field)
    (h : ∀ kv ∈ fs, kv.1 ≠ n) : insertField fs n f = fs ++ [(n, f)] := by
  induction fs with
  | nil => rfl
  | cons kv rest ih =>
    obtain ⟨m, g⟩ := kv
    have hm : m ≠ n := h (m, g) (by simp)
    simp only [insertField, hm, ↓reduceIte, List.cons_append]
    rw [ih (fun kv hkv => h kv (List.mem_cons_of_mem _ hkv))]

theorem numbered_keys_lt {fs : List (Nat × Field)} (h : Numbered fs) : ∀ kv ∈ fs, kv.1 ≠ fs.length := by
  intro kv hkv
  have : kv.1 ∈ fs.map Prod.fst := List.mem_map_of_mem hkv
  rw [h] at this
  have := List.mem_range.mp this
  omega

theorem numbered_snoc {fs : List (Nat × Field)} (h : Numbered fs) (f : Field) :
    Numbered (fs ++ [(fs.length, f)]) := by
  unfold Numbered at *
  simp [List.range_succ, h]

theorem insertField_numbered {fs : List (Nat × Field)} (h : Numbered fs) (f : Field) :
    insertField fs fs.length f = fs ++ [(fs.length, f)] :=
  insertField_fresh fs fs.length f (numbered_keys_lt h)

/-- expanding a placeholder-free definition appends it verbatim. -/
theorem parseRuleF_plain (P : Prims) (aliases : List (Str × Str)) (n : Nat) (d : Str) (c : Ctx)
    (h : seg d = [.text d]) : parseRuleF P aliases (n + 1) d c = .ok (c.append d) := by
  simp [parseRuleF, h, resolvePieces]

/-- `self` expands the (placeholder-free) definitions of the aliases verbatim. -/
def ExpandsPlain (aliases : List (Str × Str)) (self : Str → Ctx → Out Ctx) : Prop :=
  ∀ a d c, lookupAlias aliases a = some d → seg d = [.text d] → self d c = .ok (c.append d)

theorem expandsPlain_parseRuleF (P : Prims) (aliases : List (Str × Str)) :
    ExpandsPlain aliases (parseRuleF P aliases aliases.length) := by
  intro a d c hd hseg
  cases aliases with
  | nil => simp [lookupAlias] at hd
  | cons kv rest => exact parseRuleF_plain P _ rest.length d c hseg

theorem parseAlias_plain {aliases : List (Str × Str)} {self : Str → Ctx → Out Ctx}
    (hself : ExpandsPlain aliases self) (name d : Str) (c : Ctx)
    (hd : lookupAlias aliases name = some d) (h : seg d = [.text d]) (hs : c.stack = []) :
    parseAlias self name d c = .ok (c.append d) := by
  unfold parseAlias
  simp [hs, hself name d _ hd h, Ctx.append]

theorem resolvePat_ref {aliases : List (Str × Str)} {self : Str → Ctx → Out Ctx}
    (hself : ExpandsPlain aliases self) (fn : Fn) (d : Str) (c : Ctx)
    (hd : lookupAlias aliases fn.name = some d) (hseg : seg d = [.text d]) (hs : c.stack = []) :
    resolvePat aliases self ⟨fn, none⟩ c = .ok (c.append d) := by
  unfold resolvePat
  simp [registerDest, hd, parseAlias_plain hself fn.name d c hd hseg hs]

theorem resolvePat_cap {aliases : List (Str × Str)} {self : Str → Ctx → Out Ctx}
    (hself : ExpandsPlain aliases self) (fn : Fn) (d : Str) (c : Ctx)
    (path : List Str) (fl : List Filter)
    (hreg : registerDest ⟨fn, some ⟨path, fo⟩⟩ c
      = .ok { c with fields := insertField c.fields c.fields.length ⟨path, fl⟩ })
    (hd : lookupAlias aliases fn.name = some d) (hseg : seg d = [.text d]) (hs : c.stack = [])
    (hnum : Numbered c.fields) :
    resolvePat aliases self ⟨fn, some ⟨path, fo⟩⟩ c
      = .ok ⟨c.regex ++ (cs!"(?<" ++ grokName c.fields.length ++ cs!">" ++ d ++ cs!")"),
             c.fields ++ [(c.fields.length, ⟨path, fl⟩)], []⟩ := by
  unfold resolvePat
  simp only [hreg, hd, Option.map_some]
  rw [parseAlias_plain hself fn.name d _ hd hseg (by simp [openGroup, Ctx.append, hs])]
  simp [openGroup, Ctx.append, insertField_numbered hnum, hs, List.append_assoc]

theorem resolvePieces_flat (P : Prims) {aliases : List (Str × Str)} {self : Str → Ctx → Out Ctx}
    (hself : ExpandsPlain aliases self)
    (ps : List Piece) (items : List SItem) (h : ReadsAll P aliases ps items) :
    ∀ c : Ctx, c.stack = [] → Numbered c.fields →
      resolvePieces P aliases self ps c
        = .ok ⟨c.regex ++ (specFrom c.fields.length items).1,
               c.fields ++ (specFrom c.fields.length items).2, []⟩ := by
  induction h with
  | nil =>
    intro c hs _
    obtain ⟨r, f, st⟩ := c
    simp at hs; subst hs
    simp [resolvePieces, specFrom]
  | @cons pc it ps its hr _ ih =>
    intro c hs hnum
    cases hr with
    | text t =>
      simp only [resolvePieces]
      rw [ih (c.append t) (by simpa [Ctx.append] using hs) (by simpa [Ctx.append] using hnum)]
      simp [Ctx.append, specFrom, List.append_assoc]
    | @ref s fn d hp hd hseg =>
      simp only [resolvePieces, hp, resolvePat_ref hself fn d c hd hseg hs]
      rw [ih (c.append d) (by simpa [Ctx.append] using hs) (by simpa [Ctx.append] using hnum)]
      simp [Ctx.append, specFrom, List.append_assoc]
    | @cap s fn d path hp hd hseg =>
      have hreg : registerDest ⟨fn, some ⟨path, none⟩⟩ c
          = .ok { c with fields := insertField c.fields c.fields.length ⟨path, []⟩ } := by
        simp [registerDest]
      simp only [resolvePieces, hp, resolvePat_cap hself fn d c path [] hreg hd hseg hs hnum]
      rw [ih _ rfl (numbered_snoc hnum _)]
      simp [specFrom, List.append_assoc]
    | @capF s fn f d path flt hp hf hd hseg =>
      have hreg : registerDest ⟨fn, some ⟨path, some f⟩⟩ c
          = .ok { c with fields := insertField c.fields c.fields.length ⟨path, [flt]⟩ } := by
        simp [registerDest, hf]
      simp only [resolvePieces, hp, resolvePat_cap hself fn d c path [flt] hreg hd hseg hs hnum]
      rw [ih _ rfl (numbered_snoc hnum _)]
      simp [specFrom, List.append_assoc]

end C32

namespace C32
open Grok

/-! ### captures in rule order -/

/-- the text the engine captured for group `grok<i>` (empty when the group did not participate). -/
def textOf (caps : List (Str × Option Str)) (i : Nat) : Str := capText caps (grokName i)

theorem lookupField_of_nodup (fs : List (Nat × Field)) (h : (fs.map Prod.fst).Nodup) :
    ∀ kv ∈ fs, lookupField fs kv.1 = some kv.2 := by
  induction fs with
  | nil => intro kv hkv; cases hkv
  | cons x rest ih =>
    obtain ⟨m, g⟩ := x
    simp only [List.map_cons, List.nodup_cons] at h
    intro kv hkv
    rcases List.mem_cons.mp hkv with rfl | hkv'
    · simp [lookupField]
    · have hne : m ≠ kv.1 := by
        intro e; subst e
        exact h.1 (List.mem_map_of_mem hkv')
      simp only [lookupField, hne, ↓reduceIte]
      exact ih h.2 kv hkv'

theorem numbered_nodup {fs : List (Nat × Field)} (h : Numbered fs) : (fs.map Prod.fst).Nodup := by
  rw [h]; exact List.nodup_range

/-- `grokIndex` reads back the names `grok0 … grok10`. -/
theorem grokIndex_grokName_small : ∀ i, i < 11 → grokIndex (grokName i) = some i := by decide

/-- with at most ten names, the `BTreeMap` order of `grok<i>` is the numeric order. -/
theorem patternNames_small : ∀ k, k < 11 →
    patternNames [] ((List.range k).map grokName) = (List.range k).map (fun i => (grokName i, grokName i)) := by
  decide

theorem applyCaptures_eq_expectedFrom (P : Prims) (fields : List (Nat × Field))
    (caps : List (Str × Option Str)) (rest : List (Nat × Field))
    (hrest : ∀ kv ∈ rest, kv.1 < 11 ∧ lookupField fields kv.1 = some kv.2) :
    ∀ (parsed : Value) (n : Nat),
      applyCaptures P fields caps (rest.map fun kv => (grokName kv.1, grokName kv.1)) parsed n
        = expectedFrom P (capsOf rest (textOf caps)) parsed n := by
  induction rest with
  | nil => intro parsed n; rfl
  | cons kv rest ih =>
    intro parsed n
    obtain ⟨hlt, hlook⟩ := hrest kv (by simp)
    have ih' := ih (fun kv' h' => hrest kv' (List.mem_cons_of_mem _ h'))
    simp only [List.map_cons, applyCaptures, capsOf, expectedFrom]
    have htext : capText caps (grokName kv.1) = textOf caps kv.1 := rfl
    simp only [htext, grokIndex_grokName_small kv.1 hlt, Option.bind_some, hlook]
    by_cases he : (textOf caps kv.1).isEmpty = true
    · simp only [he, ↓reduceIte]; exact ih' parsed n
    · simp only [he, Bool.false_eq_true, ↓reduceIte]
      cases hf : applyFilters P kv.2.filters (some (SV.str (textOf caps kv.1))) n with
      | ok r =>
        obtain ⟨v, n'⟩ := r
        cases v with
        | some v => simp only []; exact ih' _ _
        | none => simp only []; exact ih' _ _
      | err e => rfl
      | panic => rfl
      | oom => rfl
      | fuel => rfl

end C32
