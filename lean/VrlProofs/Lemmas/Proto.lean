/-
  Helper lemmas for C26 that do not depend on the value/descriptor nesting: the field store of a
  dynamic message, `find?` on lists with distinct keys, extensionality of key-sorted objects, the
  two loops over the fields of a descriptor (`encodeFields`, `collectFields`), enum lookups and the
  integer casts.
-/
import VrlModel.Proto
import VrlModel.ProtoSpec
import VrlProofs.Lemmas.Value
import VrlProofs.Lemmas.Sorted

namespace Proto

/-! ### the field store -/

namespace PFields

theorem get_set_same : (fs : PFields) → (n : Nat) → (v : PValue) → (fs.set n v).get n = some v
  | .nil, n, v => by simp [set, get]
  | .cons k w rest, n, v => by
    simp only [set]
    split
    · rename_i h; simp [get, h]
    · rename_i h; simp [get, h, get_set_same rest n v]

theorem get_set_other : (fs : PFields) → (n k : Nat) → (v : PValue) → n ≠ k → (fs.set n v).get k = fs.get k
  | .nil, n, k, v, h => by simp [set, get, h]
  | .cons j w rest, n, k, v, h => by
    simp only [set]
    split
    · rename_i h2; subst h2; simp [get, h]
    · simp [get, get_set_other rest n k v h]

theorem get_clear_same : (fs : PFields) → (n : Nat) → (fs.clear n).get n = none
  | .nil, _ => rfl
  | .cons j w rest, n => by
    simp only [clear]
    split
    · exact get_clear_same rest n
    · rename_i h; simp [get, h, get_clear_same rest n]

theorem get_clear_other : (fs : PFields) → (n k : Nat) → n ≠ k → (fs.clear n).get k = fs.get k
  | .nil, _, _, _ => rfl
  | .cons j w rest, n, k, h => by
    simp only [clear]
    split
    · rename_i h2; subst h2; simp [get, h, get_clear_other rest j k h]
    · simp [get, get_clear_other rest n k h]

/-- no field number is stored twice -/
def distinct : PFields → Bool
  | .nil => true
  | .cons n _ rest => (rest.get n).isNone && rest.distinct

theorem distinct_set : (fs : PFields) → (n : Nat) → (v : PValue) → fs.distinct = true →
    (fs.set n v).distinct = true
  | .nil, n, v, _ => by simp [set, distinct, get]
  | .cons k w rest, n, v, h => by
    simp only [distinct, Bool.and_eq_true] at h
    simp only [set]
    split
    · simp [distinct, h.1, h.2]
    · rename_i hne
      simp only [distinct, Bool.and_eq_true]
      refine ⟨?_, distinct_set rest n v h.2⟩
      rw [get_set_other rest n k v (fun e => hne e.symm)]
      exact h.1

theorem get_clear_none : (fs : PFields) → (n k : Nat) → fs.get k = none → (fs.clear n).get k = none
  | .nil, _, _, _ => rfl
  | .cons j w rest, n, k, h => by
    simp only [get] at h
    split at h
    · cases h
    · rename_i hjk
      simp only [clear]
      split
      · exact get_clear_none rest n k h
      · simp only [get, hjk, if_false]; exact get_clear_none rest n k h

theorem distinct_clear : (fs : PFields) → (n : Nat) → fs.distinct = true → (fs.clear n).distinct = true
  | .nil, _, _ => rfl
  | .cons k w rest, n, h => by
    simp only [distinct, Bool.and_eq_true] at h
    simp only [clear]
    split
    · exact distinct_clear rest n h.2
    · simp only [distinct, Bool.and_eq_true]
      refine ⟨?_, distinct_clear rest n h.2⟩
      have : rest.get k = none := by simpa using h.1
      simp [get_clear_none rest n k this]

end PFields

/-! ### `find?` under distinct keys -/

theorem find_of_mem_distinct {α β : Type} [DecidableEq β] (key : α → β) (p : α → Bool) (a : α)
    (hp : ∀ x, p x = true ↔ key x = key a) :
    (l : List α) → distinctBy key l = true → a ∈ l → l.find? p = some a
  | [], _, h => by cases h
  | b :: bs, hd, hm => by
    simp only [distinctBy, Bool.and_eq_true, List.all_eq_true, decide_eq_true_eq] at hd
    rcases List.mem_cons.mp hm with h | h
    · subst h
      have : p a = true := (hp a).mpr rfl
      simp [this]
    · have hne : key b ≠ key a := hd.1 a h
      have : p b = false := by
        cases hpb : p b
        · rfl
        · exact absurd ((hp b).mp hpb) hne
      simp only [List.find?_cons, this]
      exact find_of_mem_distinct key p a hp bs hd.2 h

theorem findField_of_mem (fields : List Field) (f : Field)
    (hd : distinctBy (fun f : Field => f.name) fields = true) (hm : f ∈ fields) :
    findField fields f.name = some f := by
  unfold findField
  exact find_of_mem_distinct (fun f : Field => f.name) _ f (by intro x; simp) fields hd hm

theorem findField_some {fields : List Field} {k : List Nat} {f : Field} (h : findField fields k = some f) :
    f.name = k ∧ f ∈ fields := by
  unfold findField at h
  have h1 := List.find?_some h
  have h2 := List.mem_of_find?_eq_some h
  simp at h1
  exact ⟨h1, h2⟩

/-! ### key-sorted objects are determined by their `get` -/

/-- keys strictly increasing (the values are not looked at) -/
def keysSorted : VMap → Bool
  | .nil => true
  | .cons k _ m => VMap.allGt k m && keysSorted m

theorem keysSorted_of_sorted : (m : VMap) → m.Sorted = true → keysSorted m = true
  | .nil, _ => rfl
  | .cons k v m, h => by
    simp only [VMap.Sorted, Bool.and_eq_true] at h
    simp [keysSorted, h.1.2, keysSorted_of_sorted m h.2]

theorem get_none_of_allGt : (m : VMap) → (k q : List Nat) → VMap.allGt k m = true →
    (q = k ∨ Key.lt q k = true) → m.get q = none
  | .nil, _, _, _, _ => rfl
  | .cons l v m, k, q, h, hq => by
    simp only [VMap.allGt, Bool.and_eq_true] at h
    have hql : Key.lt q l = true := by
      rcases hq with hq | hq
      · subst hq; exact h.1
      · exact Key.lt_trans q k l hq h.1
    have hne : l ≠ q := fun e => Key.lt_ne q l hql e.symm
    simp only [VMap.get, hne, if_false]
    exact get_none_of_allGt m k q h.2 hq

theorem allGt_of_get : (m : VMap) → (k : List Nat) → keysSorted m = true →
    (∀ q, (q = k ∨ Key.lt q k = true) → m.get q = none) → VMap.allGt k m = true
  | .nil, _, _, _ => rfl
  | .cons l v m, k, hs, h => by
    simp only [keysSorted, Bool.and_eq_true] at hs
    have hkl : Key.lt k l = true := by
      rcases Key.lt_total k l with h1 | h1 | h1
      · exact h1
      · have := h l (Or.inl h1.symm); simp [VMap.get] at this
      · have := h l (Or.inr h1); simp [VMap.get] at this
    simp only [VMap.allGt, Bool.and_eq_true]
    exact ⟨hkl, VMap.allGt_trans m k l hkl hs.1⟩

theorem ext_keysSorted : (a b : VMap) → keysSorted a = true → keysSorted b = true →
    (∀ q, a.get q = b.get q) → a = b
  | .nil, .nil, _, _, _ => rfl
  | .nil, .cons l w b, _, _, h => by have := h l; simp [VMap.get] at this
  | .cons k v a, .nil, _, _, h => by have := h k; simp [VMap.get] at this
  | .cons k v a, .cons l w b, ha, hb, h => by
    simp only [keysSorted, Bool.and_eq_true] at ha hb
    have hkl : k = l := by
      rcases Key.lt_total k l with h1 | h1 | h1
      · have h2 := h k
        have hne : l ≠ k := fun e => Key.lt_ne k l h1 e.symm
        simp only [VMap.get, if_true, hne, if_false] at h2
        rw [get_none_of_allGt b l k hb.1 (Or.inr h1)] at h2
        cases h2
      · exact h1
      · have h2 := h l
        have hne : k ≠ l := fun e => Key.lt_ne l k h1 e.symm
        simp only [VMap.get, if_true, hne, if_false] at h2
        rw [get_none_of_allGt a k l ha.1 (Or.inr h1)] at h2
        cases h2
    subst hkl
    have hv : v = w := by
      have h2 := h k
      simp only [VMap.get, if_true] at h2
      exact Option.some.inj h2
    subst hv
    have htail : ∀ q, a.get q = b.get q := by
      intro q
      by_cases hq : q = k
      · subst hq
        rw [get_none_of_allGt a q q ha.1 (Or.inl rfl), get_none_of_allGt b q q hb.1 (Or.inl rfl)]
      · have h2 := h q
        have hne : k ≠ q := fun e => hq e.symm
        simpa only [VMap.get, hne, if_false] using h2
    rw [ext_keysSorted a b ha.2 hb.2 htail]

theorem keysSorted_insert : (m : VMap) → (q : List Nat) → (x : Value) → keysSorted m = true →
    keysSorted (m.insert q x) = true
  | .nil, q, x, _ => by simp [VMap.insert, keysSorted, VMap.allGt]
  | .cons k v m, q, x, hs => by
    simp only [keysSorted, Bool.and_eq_true] at hs
    simp only [VMap.insert]
    split
    · rename_i hlt
      simp only [keysSorted, VMap.allGt, Bool.and_eq_true]
      exact ⟨⟨hlt, VMap.allGt_trans m q k hlt hs.1⟩, hs.1, hs.2⟩
    · split
      · simp only [keysSorted, Bool.and_eq_true]
        exact ⟨hs.1, hs.2⟩
      · rename_i hnlt hne
        have hkq : Key.lt k q = true := by
          rcases Key.lt_total k q with h | h | h
          · exact h
          · exact absurd h hne
          · simp [h] at hnlt
        simp only [keysSorted, Bool.and_eq_true]
        exact ⟨VMap.allGt_insert m k q x hkq hs.1, keysSorted_insert m q x hs.2⟩

/-! ### the loop of `encode_message` -/

theorem encodeFields_spec (conv : Field → Option (Option PValue)) :
    (fields : List Field) → (acc : PFields) →
    distinctBy (fun f : Field => f.number) fields = true →
    (∀ f ∈ fields, ∃ o, conv f = some o ∧ ∀ pv, o = some pv → validFor f pv = true) →
    ∃ fs, encodeFields conv fields acc = some fs ∧
      (∀ f ∈ fields, ∀ o, conv f = some o → fs.get f.number = o) ∧
      (∀ n, (∀ f ∈ fields, f.number ≠ n) → fs.get n = acc.get n) ∧
      (acc.distinct = true → fs.distinct = true)
  | [], acc, _, _ => by
    refine ⟨acc, rfl, ?_, ?_, id⟩
    · intro f hf; cases hf
    · intro n _; rfl
  | f :: rest, acc, hd, h => by
    simp only [distinctBy, Bool.and_eq_true, List.all_eq_true, decide_eq_true_eq] at hd
    obtain ⟨o, ho, hv⟩ := h f List.mem_cons_self
    have hrest : ∀ g ∈ rest, ∃ o, conv g = some o ∧ ∀ pv, o = some pv → validFor g pv = true :=
      fun g hg => h g (List.mem_cons_of_mem _ hg)
    cases o with
    | none =>
      obtain ⟨fs, h1, h2, h3, h4⟩ := encodeFields_spec conv rest (acc.clear f.number) hd.2 hrest
      refine ⟨fs, ?_, ?_, ?_, fun ha => h4 (PFields.distinct_clear _ _ ha)⟩
      · simp [encodeFields, ho, h1]
      · intro g hg o' ho'
        rcases List.mem_cons.mp hg with e | e
        · subst e
          rw [ho] at ho'; cases ho'
          rw [h3 g.number (fun g' hg' => (hd.1 g' hg').symm)]
          exact PFields.get_clear_same _ _
        · exact h2 g e o' ho'
      · intro n hn
        rw [h3 n (fun g hg => hn g (List.mem_cons_of_mem _ hg))]
        exact PFields.get_clear_other _ _ _ (hn f List.mem_cons_self)
    | some pv =>
      have hvalid : validFor f pv = true := hv pv rfl
      obtain ⟨fs, h1, h2, h3, h4⟩ := encodeFields_spec conv rest (acc.set f.number pv) hd.2 hrest
      refine ⟨fs, ?_, ?_, ?_, fun ha => h4 (PFields.distinct_set _ _ _ ha)⟩
      · simp [encodeFields, ho, hvalid, h1]
      · intro g hg o' ho'
        rcases List.mem_cons.mp hg with e | e
        · subst e
          rw [ho] at ho'; cases ho'
          rw [h3 g.number (fun g' hg' => (hd.1 g' hg').symm)]
          exact PFields.get_set_same _ _ _
        · exact h2 g e o' ho'
      · intro n hn
        rw [h3 n (fun g hg => hn g (List.mem_cons_of_mem _ hg))]
        exact PFields.get_set_other _ _ _ _ (hn f List.mem_cons_self)

/-! ### the loop of `proto_to_value` over the fields of a message -/

/-- the object `collectFields` builds when every lookup succeeds with `e f` -/
def foldIns (e : Field → Option Value) : List Field → VMap → VMap
  | [], acc => acc
  | f :: fs, acc =>
    match e f with
    | some x => foldIns e fs (acc.insert f.name x)
    | none => foldIns e fs acc

theorem collectFields_spec (look : Field → Option (Option Value)) (e : Field → Option Value) :
    (fields : List Field) → (acc : VMap) → (∀ f ∈ fields, look f = some (e f)) →
    collectFields look fields acc = some (foldIns e fields acc)
  | [], _, _ => rfl
  | f :: rest, acc, h => by
    have hf := h f List.mem_cons_self
    have hrest : ∀ g ∈ rest, look g = some (e g) := fun g hg => h g (List.mem_cons_of_mem _ hg)
    cases he : e f with
    | none =>
      rw [he] at hf
      simp only [collectFields, hf, foldIns, he]
      exact collectFields_spec look e rest acc hrest
    | some x =>
      rw [he] at hf
      simp only [collectFields, hf, foldIns, he]
      exact collectFields_spec look e rest _ hrest

theorem foldIns_keysSorted (e : Field → Option Value) :
    (fields : List Field) → (acc : VMap) → keysSorted acc = true → keysSorted (foldIns e fields acc) = true
  | [], _, h => h
  | f :: rest, acc, h => by
    simp only [foldIns]
    split
    · exact foldIns_keysSorted e rest _ (keysSorted_insert acc _ _ h)
    · exact foldIns_keysSorted e rest acc h

theorem findField_cons_same (f : Field) (rest : List Field) : findField (f :: rest) f.name = some f := by
  simp [findField]

theorem findField_cons_other (f : Field) (rest : List Field) (k : List Nat) (h : f.name ≠ k) :
    findField (f :: rest) k = findField rest k := by
  simp [findField, h]

theorem findField_none_of_distinct (f : Field) (rest : List Field)
    (hd : ∀ b ∈ rest, f.name ≠ b.name) : findField rest f.name = none := by
  unfold findField
  rw [List.find?_eq_none]
  intro b hb
  simpa using fun e => hd b hb e.symm

theorem foldIns_get (e : Field → Option Value) :
    (fields : List Field) → (acc : VMap) → distinctBy (fun f : Field => f.name) fields = true →
    ∀ k, (foldIns e fields acc).get k =
      match findField fields k with
      | some f => (match e f with | some x => some x | none => acc.get k)
      | none => acc.get k
  | [], acc, _, k => by simp [foldIns, findField]
  | f :: rest, acc, hd, k => by
    simp only [distinctBy, Bool.and_eq_true, List.all_eq_true, decide_eq_true_eq] at hd
    by_cases hk : f.name = k
    · subst hk
      rw [findField_cons_same]
      have hnone := findField_none_of_distinct f rest hd.1
      simp only [foldIns]
      cases he : e f with
      | none =>
        simp only []
        rw [foldIns_get e rest acc hd.2 f.name, hnone]
      | some x =>
        simp only []
        rw [foldIns_get e rest _ hd.2 f.name, hnone]
        exact VMap.get_insert_same _ _ _
    · rw [findField_cons_other f rest k hk]
      simp only [foldIns]
      cases he : e f with
      | none =>
        simp only []
        exact foldIns_get e rest acc hd.2 k
      | some x =>
        simp only []
        rw [foldIns_get e rest _ hd.2 k, VMap.get_insert_other _ _ _ _ hk]

theorem toValueLookup_eq (pool : Pool) : (fs : PFields) → (f : Field) →
    toValueLookup pool fs f =
      match fs.get f.number with
      | none => some none
      | some pv => if hasValue pool f pv then (toValue pool (some f) pv).map some else some none
  | .nil, f => by simp [toValueLookup, PFields.get]
  | .cons n pv rest, f => by
    simp only [toValueLookup, PFields.get]
    split
    · rfl
    · exact toValueLookup_eq pool rest f

/-! ### `ddMap` seen through `get` -/

theorem allGt_ddMap (pool : Pool) (fields : List Field) : (m : VMap) → (k : List Nat) →
    VMap.allGt k m = true → VMap.allGt k (ddMap pool fields m) = true
  | .nil, _, _ => rfl
  | .cons l x rest, k, h => by
    simp only [VMap.allGt, Bool.and_eq_true] at h
    simp only [ddMap]
    split
    · split
      · exact allGt_ddMap pool fields rest k h.2
      · simp [VMap.allGt, h.1, allGt_ddMap pool fields rest k h.2]
    · simp [VMap.allGt, h.1, allGt_ddMap pool fields rest k h.2]

theorem keysSorted_ddMap (pool : Pool) (fields : List Field) : (m : VMap) → keysSorted m = true →
    keysSorted (ddMap pool fields m) = true
  | .nil, _ => rfl
  | .cons l x rest, h => by
    simp only [keysSorted, Bool.and_eq_true] at h
    simp only [ddMap]
    split
    · split
      · exact keysSorted_ddMap pool fields rest h.2
      · simp [keysSorted, allGt_ddMap pool fields rest l h.1, keysSorted_ddMap pool fields rest h.2]
    · simp [keysSorted, allGt_ddMap pool fields rest l h.1, keysSorted_ddMap pool fields rest h.2]

theorem ddMap_get (pool : Pool) (fields : List Field) : (m : VMap) → keysSorted m = true → ∀ k,
    (ddMap pool fields m).get k =
      match m.get k with
      | none => none
      | some x =>
        match findField fields k with
        | some f => if isDefaultValue pool f x then none else some (dropDefaults pool f x)
        | none => some x
  | .nil, _, k => by simp [ddMap, VMap.get]
  | .cons l x rest, h, k => by
    simp only [keysSorted, Bool.and_eq_true] at h
    by_cases hk : l = k
    · subst hk
      have hrest : (ddMap pool fields rest).get l = none :=
        get_none_of_allGt _ l l (allGt_ddMap pool fields rest l h.1) (Or.inl rfl)
      cases hff : findField fields l with
      | none => simp [ddMap, VMap.get, hff]
      | some f =>
        simp only [ddMap, VMap.get, if_true, hff]
        split
        · exact hrest
        · simp [VMap.get]
    · have ih := ddMap_get pool fields rest h.2 k
      simp only [ddMap, VMap.get, hk, if_false]
      split
      · split
        · exact ih
        · simp only [VMap.get, hk, if_false]; exact ih
      · simp only [VMap.get, hk, if_false]; exact ih

/-! ### normalisation (what the wire does) is invisible to `proto_to_value` -/

/-- `none`: the message as built; `some w`: `normalize pool w` of it -/
def normOpt (pool : Pool) : Option Bool → PValue → PValue
  | none, pv => pv
  | some w, pv => normalize pool w pv

def normFieldsOpt (pool : Pool) (fields : List Field) : Option Bool → PFields → PFields
  | none, fs => fs
  | some w, fs => normFields pool w fields fs

theorem normList_isEmpty (pool : Pool) (w : Bool) (xs : PList) : (normList pool w xs).isEmpty = xs.isEmpty := by
  cases xs <;> simp [normList, PList.isEmpty]

theorem normMap_isEmpty (pool : Pool) (w : Bool) (es : PMap) : (normMap pool w es).isEmpty = es.isEmpty := by
  cases es <;> simp [normMap, PMap.isEmpty]

theorem isDefault_normalize (pool : Pool) (w : Bool) (f : Field) (pv : PValue) :
    isDefault pool f (normalize pool w pv) = isDefault pool f pv := by
  cases pv <;> simp only [normalize]
  case message r fs =>
    cases pool.msg r <;> simp only [isDefault] <;> split <;> first | rfl | (cases f.kind <;> rfl)
  case list xs => simp [isDefault, normList_isEmpty]
  case map es => simp [isDefault, normMap_isEmpty]

theorem hasValue_normalize (pool : Pool) (w : Bool) (f : Field) (pv : PValue) :
    hasValue pool f (normalize pool w pv) = hasValue pool f pv := by
  simp [hasValue, isDefault_normalize]

theorem get_normFields (pool : Pool) (w : Bool) (fields : List Field)
    (hnum : distinctBy (fun f : Field => f.number) fields = true) :
    (fs : PFields) → fs.distinct = true → ∀ f ∈ fields,
    (normFields pool w fields fs).get f.number =
      match fs.get f.number with
      | none => none
      | some pv =>
        if hasValue pool f pv then some (wrapList (w && f.isList) pv (normalize pool w pv)) else none
  | .nil, _, f, _ => by simp [normFields, PFields.get]
  | .cons n pv rest, hd, f, hf => by
    simp only [PFields.distinct, Bool.and_eq_true] at hd
    have ih := get_normFields pool w fields hnum rest hd.2 f hf
    by_cases hn : n = f.number
    · subst hn
      have hfind : fields.find? (fun g => g.number == f.number) = some f :=
        find_of_mem_distinct (fun f : Field => f.number) _ f (by intro x; simp) fields hnum hf
      have hrest : rest.get f.number = none := by simpa using hd.1
      rw [hrest] at ih
      simp only [normFields, hfind, PFields.get, if_true]
      split
      · simp [PFields.get]
      · exact ih
    · simp only [normFields, PFields.get, hn, if_false]
      split
      · split
        · simp only [PFields.get, hn, if_false]; exact ih
        · exact ih
      · exact ih

/-! ### one message: the two loops are inverse when they are inverse field by field -/

/-- What the two case tables owe each other for one field: `ox` is `map.get(field_name)`, `o` what
    `convert_value` made of it. -/
def FieldRT (pool : Pool) (f : Field) (ox : Option Value) (o : Option PValue) : Prop :=
  match ox with
  | none => o = none
  | some x => ∃ pv, o = some pv ∧ validFor f pv = true ∧ (f.isList = true → ∃ xs, pv = .list xs) ∧
      hasValue pool f pv = !isDefaultValue pool f x ∧
      ∀ mode, toValue pool (some f) (normOpt pool mode pv) = some (dropDefaults pool f x)

theorem message_roundtrip (pool : Pool) (fields : List Field) (m : VMap)
    (conv : Field → Option (Option PValue))
    (hnames : distinctBy (fun f : Field => f.name) fields = true)
    (hnums : distinctBy (fun f : Field => f.number) fields = true)
    (hs : keysSorted m = true)
    (hkeys : ∀ k x, m.get k = some x → ∃ f, findField fields k = some f)
    (h : ∀ f ∈ fields, ∃ o, conv f = some o ∧ FieldRT pool f (m.get f.name) o) :
    ∃ fs, encodeFields conv fields .nil = some fs ∧ ∀ mode,
      collectFields (fun f => toValueLookup pool (normFieldsOpt pool fields mode fs) f) fields .nil =
        some (ddMap pool fields m) := by
  obtain ⟨fs, h1, h2, _, hdist⟩ := encodeFields_spec conv fields .nil hnums (by
    intro f hf
    obtain ⟨o, ho, hrt⟩ := h f hf
    refine ⟨o, ho, ?_⟩
    intro pv hpv
    subst hpv
    unfold FieldRT at hrt
    cases hx : m.get f.name with
    | none => rw [hx] at hrt; cases hrt
    | some x =>
      rw [hx] at hrt
      obtain ⟨pv', e, hv, _⟩ := hrt
      cases e; exact hv)
  have hdist := hdist rfl
  refine ⟨fs, h1, ?_⟩
  intro mode
  let e : Field → Option Value := fun f =>
    match m.get f.name with
    | none => none
    | some x => if isDefaultValue pool f x then none else some (dropDefaults pool f x)
  have hlook : ∀ f ∈ fields, toValueLookup pool (normFieldsOpt pool fields mode fs) f = some (e f) := by
    intro f hf
    obtain ⟨o, ho, hrt⟩ := h f hf
    have hget := h2 f hf o ho
    rw [toValueLookup_eq]
    unfold FieldRT at hrt
    cases hx : m.get f.name with
    | none =>
      rw [hx] at hrt; subst hrt
      cases mode with
      | none => simp [normFieldsOpt, hget, e, hx]
      | some w => simp [normFieldsOpt, get_normFields pool w fields hnums fs hdist f hf, hget, e, hx]
    | some x =>
      rw [hx] at hrt
      obtain ⟨pv, ho', _, hlist, hhas, htv⟩ := hrt
      subst ho'
      cases mode with
      | none =>
        have := htv none
        simp only [normOpt] at this
        simp only [normFieldsOpt, hget, e, hx, hhas, this]
        cases isDefaultValue pool f x <;> simp
      | some w =>
        have htw := htv (some w)
        simp only [normOpt] at htw
        have hwrap : wrapList (w && f.isList) pv (normalize pool w pv) = normalize pool w pv := by
          unfold wrapList
          cases hl : f.isList with
          | false => simp
          | true =>
            obtain ⟨xs, rfl⟩ := hlist hl
            simp
        simp only [normFieldsOpt, get_normFields pool w fields hnums fs hdist f hf, hget, hhas, hwrap, e, hx]
        cases hdv : isDefaultValue pool f x with
        | true => simp
        | false =>
          simp only [Bool.not_false, if_true, hasValue_normalize, hhas, hdv, htw]
          simp
  rw [collectFields_spec _ e fields .nil hlook]
  congr 1
  apply ext_keysSorted _ _ (foldIns_keysSorted e fields .nil rfl) (keysSorted_ddMap pool fields m hs)
  intro k
  rw [foldIns_get e fields .nil hnames k, ddMap_get pool fields m hs k]
  cases hff : findField fields k with
  | none =>
    simp only [VMap.get_nil]
    cases hx : m.get k with
    | none => rfl
    | some x =>
      obtain ⟨f, hf⟩ := hkeys k x hx
      rw [hff] at hf; cases hf
  | some f =>
    obtain ⟨hn, _⟩ := findField_some hff
    subst hn
    simp only [e, VMap.get_nil]
    cases hx : m.get f.name with
    | none => rfl
    | some x =>
      simp only []
      cases isDefaultValue pool f x <;> simp

end Proto
