/-
  Helper lemmas for C27: lengths and injectivity of the encodings (`toLE`/`toBE`, lower-case hex,
  decimal text, `u64 as i64`), and length invariants of the hash states.
-/
import VrlModel.Hash.Vrl

namespace C27
open Hash

/-! ### byte order -/

theorem toLE_length : ∀ (k n : Nat), (toLE k n).length = k
  | 0, _ => rfl
  | k + 1, n => by simp [toLE, toLE_length k]

theorem toBE_length (k n : Nat) : (toBE k n).length = k := by
  simp [toBE, toLE_length]

theorem toLE_lt : ∀ (k n : Nat), ∀ x ∈ toLE k n, x < 256
  | 0, _ => by simp [toLE]
  | k + 1, n => by
    intro x hx
    simp only [toLE, List.mem_cons] at hx
    rcases hx with h | h
    · omega
    · exact toLE_lt k _ x h

theorem toBE_lt (k n : Nat) : ∀ x ∈ toBE k n, x < 256 := by
  intro x hx
  exact toLE_lt k n x (by simpa [toBE] using hx)

/-! ### lower-case hex (`hex::encode`) -/

theorem hexChars_length : ∀ bs : Bytes, (hexChars bs).length = 2 * bs.length
  | [] => rfl
  | _ :: bs => by simp [hexChars, hexChars_length bs]; omega

theorem hexAscii_length (bs : Bytes) : (hexAscii bs).length = 2 * bs.length := by
  simp [hexAscii, hexChars_length]

theorem hexDigit_inj : ∀ a, a < 16 → ∀ b, b < 16 → hexDigit a = hexDigit b → a = b := by
  decide

theorem hexDigit_lower : ∀ a, a < 16 → hexDigit a ∈ "0123456789abcdef".toList := by
  decide

theorem hexChars_inj : ∀ a b : Bytes, (∀ x ∈ a, x < 256) → (∀ x ∈ b, x < 256) →
    hexChars a = hexChars b → a = b
  | [], [], _, _, _ => rfl
  | [], _ :: _, _, _, h => by simp [hexChars] at h
  | _ :: _, [], _, _, h => by simp [hexChars] at h
  | x :: a, y :: b, ha, hb, h => by
    simp only [hexChars, List.cons.injEq] at h
    have hx : x < 256 := ha x (by simp)
    have hy : y < 256 := hb y (by simp)
    have h1 := hexDigit_inj (x / 16) (by omega) (y / 16) (by omega) h.1
    have h2 := hexDigit_inj (x % 16) (by omega) (y % 16) (by omega) h.2.1
    have hxy : x = y := by omega
    have := hexChars_inj a b (fun z hz => ha z (by simp [hz])) (fun z hz => hb z (by simp [hz])) h.2.2
    rw [hxy, this]

theorem hexChars_lower : ∀ bs : Bytes, (∀ x ∈ bs, x < 256) →
    ∀ c ∈ hexChars bs, c ∈ "0123456789abcdef".toList
  | [], _, c, hc => by simp [hexChars] at hc
  | x :: bs, h, c, hc => by
    have hx : x < 256 := h x (by simp)
    simp only [hexChars, List.mem_cons] at hc
    rcases hc with hc | hc | hc
    · rw [hc]; exact hexDigit_lower _ (by omega)
    · rw [hc]; exact hexDigit_lower _ (by omega)
    · exact hexChars_lower bs (fun z hz => h z (by simp [hz])) c hc

/-! ### `u64 as i64` -/

theorem asI64_range (n : Nat) (h : n < 2 ^ 64) : -(2 ^ 63 : Int) ≤ asI64 n ∧ asI64 n < 2 ^ 63 := by
  unfold asI64; split <;> omega

theorem asI64_inj (a b : Nat) (ha : a < 2 ^ 64) (hb : b < 2 ^ 64) (h : asI64 a = asI64 b) : a = b := by
  unfold asI64 at h; split at h <;> split at h <;> omega

/-- two's complement: the result is congruent to the unsigned value modulo 2^64. -/
theorem asI64_mod (n : Nat) (h : n < 2 ^ 64) : asI64 n % (2 ^ 64 : Int) = n := by
  unfold asI64; split <;> omega

/-! ### decimal text (`to_string()` of an unsigned integer) -/

/-- value of a string of ASCII decimal digits. -/
def decValue (ds : List Nat) : Nat := ds.foldl (fun a d => a * 10 + (d - 48)) 0

theorem foldl_dec (ds : List Nat) : ∀ a : Nat,
    ds.foldl (fun a d => a * 10 + (d - 48)) a = a * 10 ^ ds.length + decValue ds := by
  induction ds with
  | nil => intro a; simp [decValue]
  | cons d ds ih =>
    intro a
    simp only [List.foldl_cons, List.length_cons, decValue]
    rw [ih, ih (0 * 10 + (d - 48))]
    rw [Nat.pow_succ, Nat.add_mul]; simp [Nat.mul_assoc, Nat.mul_comm, Nat.add_assoc]

theorem decValue_cons (d : Nat) (ds : List Nat) :
    decValue (d :: ds) = (d - 48) * 10 ^ ds.length + decValue ds := by
  show List.foldl (fun a d => a * 10 + (d - 48)) (0 * 10 + (d - 48)) ds = _
  rw [foldl_dec]; simp

theorem decDigitsAux_value : ∀ (fuel n : Nat) (acc : List Nat), n < 10 ^ fuel →
    decValue (decDigitsAux fuel n acc) = n * 10 ^ acc.length + decValue acc
  | 0, n, acc, h => by
    have : n = 0 := by simpa using h
    simp [decDigitsAux, this]
  | fuel + 1, n, acc, h => by
    unfold decDigitsAux
    split
    · rw [decValue_cons]; simp
    · rename_i hn
      have hlt : n / 10 < 10 ^ fuel := by
        rw [Nat.pow_succ] at h
        exact Nat.div_lt_of_lt_mul (by omega)
      rw [decDigitsAux_value fuel (n / 10) _ hlt, decValue_cons]
      simp only [List.length_cons, Nat.add_sub_cancel_left, Nat.pow_succ]
      have := Nat.div_add_mod n 10
      calc n / 10 * (10 ^ acc.length * 10) + (n % 10 * 10 ^ acc.length + decValue acc)
          = (10 * (n / 10) + n % 10) * 10 ^ acc.length + decValue acc := by
            rw [Nat.add_mul]; simp [Nat.mul_assoc, Nat.mul_comm, Nat.mul_left_comm, Nat.add_assoc]
        _ = n * 10 ^ acc.length + decValue acc := by rw [this]

/-- reading the decimal text back gives the number (for everything below 10^64, which covers
    all CRC widths up to 82 bits and the 128-bit XXH3 result). -/
theorem decValue_decAscii (n : Nat) (h : n < 10 ^ 64) : decValue (decAscii n) = n := by
  have := decDigitsAux_value 64 n [] h
  simpa [decAscii, decValue] using this

theorem decAscii_inj (a b : Nat) (ha : a < 10 ^ 64) (hb : b < 10 ^ 64)
    (h : decAscii a = decAscii b) : a = b := by
  rw [← decValue_decAscii a ha, ← decValue_decAscii b hb, h]

/-! ### digest lengths -/

theorem foldl_length_inv {α β : Type} (f : List α → β → List α)
    (h : ∀ s x, (f s x).length = s.length) : ∀ (l : List β) (s : List α),
    (l.foldl f s).length = s.length := by
  intro l
  induction l with
  | nil => intro s; rfl
  | cons x l ih => intro s; simp [List.foldl_cons, ih, h]

theorem flatMap_length_const {α β : Type} (f : α → List β) (k : Nat) (h : ∀ x, (f x).length = k) :
    ∀ l : List α, (l.flatMap f).length = k * l.length := by
  intro l
  induction l with
  | nil => simp
  | cons x l ih => simp [List.flatMap_cons, h, ih, Nat.mul_succ, Nat.add_comm]

theorem md5_length (m : Bytes) : (MD5.digest m).length = 16 := by
  simp [MD5.digest, toLE_length]

theorem sha1_round_length (st : List Nat) (tw : Nat × Nat) :
    (SHA.SHA1.round st tw).length = st.length := by
  unfold SHA.SHA1.round; split <;> simp

theorem sha1_block_length (h : List Nat) (blk : Bytes) : (SHA.SHA1.block h blk).length = h.length := by
  simp [SHA.SHA1.block, List.length_zipWith, foldl_length_inv _ sha1_round_length]

theorem sha1_length (m : Bytes) : (SHA.SHA1.digest m).length = 20 := by
  unfold SHA.SHA1.digest
  rw [flatMap_length_const (toBE 4) 4 (toBE_length 4), foldl_length_inv _ sha1_block_length]
  rfl

theorem sha2_round_length (c : SHA.Core) (st : List Nat) (kw : Nat × Nat) :
    (c.round st kw).length = st.length := by
  unfold SHA.Core.round; split <;> simp

theorem sha2_block_length (c : SHA.Core) (h : List Nat) (blk : Bytes) :
    (c.block h blk).length = h.length := by
  simp [SHA.Core.block, List.length_zipWith, foldl_length_inv _ (sha2_round_length c)]

theorem sha2_hashWords_length (c : SHA.Core) (iv : List Nat) (m : Bytes) :
    (c.hashWords iv m).length = iv.length := by
  unfold SHA.Core.hashWords
  exact foldl_length_inv _ (sha2_block_length c) _ _

theorem sha2_digest_length (c : SHA.Core) (iv : List Nat) (out : Nat) (m : Bytes) :
    (c.digest iv out m).length = min out (c.wordBytes * iv.length) := by
  unfold SHA.Core.digest
  rw [List.length_take, flatMap_length_const (toBE c.wordBytes) c.wordBytes (toBE_length _),
    sha2_hashWords_length]

theorem sha3_length (out : Nat) (m : Bytes) : (SHA3.sha3 out m).length = out := by
  simp [SHA3.sha3, toLE_length]

/-! ### padding -/

theorem md5_pad_length (m : Bytes) : (MD5.pad m).length % 64 = 0 := by
  simp only [MD5.pad, List.length_append, List.length_cons, List.length_replicate, toLE_length]
  omega

theorem sha_pad64_length (m : Bytes) : (SHA.pad 64 8 m).length % 64 = 0 := by
  simp only [SHA.pad, List.length_append, List.length_cons, List.length_replicate, toBE_length]
  omega

theorem sha_pad128_length (m : Bytes) : (SHA.pad 128 16 m).length % 128 = 0 := by
  simp only [SHA.pad, List.length_append, List.length_cons, List.length_replicate, toBE_length]
  omega

theorem sha3_pad_length (rate : Nat) (hr : 2 ≤ rate) (m : Bytes) :
    (SHA3.pad rate m).length % rate = 0 ∧ m.length < (SHA3.pad rate m).length := by
  have hlt := Nat.mod_lt m.length (show 0 < rate by omega)
  have hdm := Nat.div_add_mod m.length rate
  unfold SHA3.pad
  simp only
  split
  · rename_i hq
    simp only [List.length_append, List.length_cons, List.length_nil]
    refine ⟨?_, by omega⟩
    have : m.length + 1 = rate * (m.length / rate + 1) := by rw [Nat.mul_add]; omega
    simp [this]
  · rename_i hq
    simp only [List.length_append, List.length_cons, List.length_replicate, List.length_nil]
    refine ⟨?_, by omega⟩
    have : m.length + (rate - m.length % rate - 2 + 1) + 1 = rate * (m.length / rate + 1) := by
      rw [Nat.mul_add]; omega
    simp [this]

/-! ### word bounds (the results fit the Rust integer types) -/

theorem reflect_lt : ∀ (w v : Nat), CRC.reflect w v < 2 ^ w
  | 0, _ => by simp [CRC.reflect]
  | w + 1, v => by
    have ih := reflect_lt w (v / 2)
    have h2 : v % 2 = 0 ∨ v % 2 = 1 := by omega
    simp only [CRC.reflect, Nat.pow_succ]
    rcases h2 with h | h <;> rw [h] <;> omega

theorem feedBit_lt (p : CRC.Params) (hp : p.poly < 2 ^ p.width) (reg bit : Nat) :
    CRC.feedBit p reg bit < 2 ^ p.width := by
  have hpos : 0 < 2 ^ p.width := Nat.pow_pos (by omega)
  unfold CRC.feedBit
  simp only
  split
  · exact Nat.xor_lt_two_pow (Nat.mod_lt _ hpos) hp
  · exact Nat.mod_lt _ hpos

theorem foldl_lt {β : Type} (f : Nat → β → Nat) (bound : Nat) (h : ∀ r x, f r x < bound) :
    ∀ (l : List β) (r : Nat), r < bound → l.foldl f r < bound := by
  intro l
  induction l with
  | nil => intro r hr; exact hr
  | cons x l ih => intro r _; exact ih _ (h r x)

theorem feedByte_lt (p : CRC.Params) (hp : p.poly < 2 ^ p.width) (reg byte : Nat)
    (hr : reg < 2 ^ p.width) : CRC.feedByte p reg byte < 2 ^ p.width := by
  unfold CRC.feedByte
  exact foldl_lt _ _ (fun r _ => feedBit_lt p hp r _) _ _ hr

theorem crc_reg_lt (p : CRC.Params) (hp : p.poly < 2 ^ p.width) :
    ∀ (m : Bytes) (r : Nat), r < 2 ^ p.width → m.foldl (CRC.feedByte p) r < 2 ^ p.width := by
  intro m
  induction m with
  | nil => intro r hr; exact hr
  | cons b m ih => intro r hr; exact ih _ (feedByte_lt p hp r b hr)

theorem xorshift_lt (x s n : Nat) (h : x < 2 ^ n) : x ^^^ (x >>> s) < 2 ^ n := by
  apply Nat.xor_lt_two_pow h
  exact Nat.lt_of_le_of_lt (by rw [Nat.shiftRight_eq_div_pow]; exact Nat.div_le_self _ _) h

/-! ### XXH3 results fit 64 / 128 bits -/

theorem xxh3_avalanche_lt (h : Nat) : XXH3.avalanche h < 2 ^ 64 := by
  unfold XXH3.avalanche XXH3.xorshift
  exact xorshift_lt _ 32 64 (Nat.mod_lt _ (by decide))

theorem xxh_avalanche64_lt (h : Nat) : XXH3.avalanche64 h < 2 ^ 64 := by
  unfold XXH3.avalanche64 XXH.avalanche64
  exact xorshift_lt _ 32 64 (Nat.mod_lt _ (by decide))

theorem xxh3_rrmxmx_lt (h len : Nat) : XXH3.rrmxmx h len < 2 ^ 64 := by
  unfold XXH3.rrmxmx XXH3.xorshift
  exact xorshift_lt _ 28 64 (Nat.mod_lt _ (by decide))

theorem xxh3_mergeAccs_lt (acc : List Nat) (soff start : Nat) : XXH3.mergeAccs acc soff start < 2 ^ 64 := by
  unfold XXH3.mergeAccs
  split
  · exact xxh3_avalanche_lt _
  · decide

theorem xxh3_64_lt (m : Bytes) : XXH3.xxh3_64 m < 2 ^ 64 := by
  unfold XXH3.xxh3_64
  extract_lets len
  split
  · exact xxh_avalanche64_lt _
  split
  · exact xxh_avalanche64_lt _
  split
  · exact xxh3_rrmxmx_lt _ _
  split
  · exact xxh3_avalanche_lt _
  split
  · exact xxh3_avalanche_lt _
  split
  · exact xxh3_avalanche_lt _
  · exact xxh3_mergeAccs_lt _ _ _

theorem pack128_lt (hi lo : Nat) (h1 : hi < 2 ^ 64) (h2 : lo < 2 ^ 64) : hi * M64 + lo < 2 ^ 128 := by
  have : M64 = 2 ^ 64 := by decide
  rw [this]
  have : hi * 2 ^ 64 ≤ (2 ^ 64 - 1) * 2 ^ 64 := Nat.mul_le_mul_right _ (by omega)
  have e : (2:Nat) ^ 128 = (2 ^ 64 - 1) * 2 ^ 64 + 2 ^ 64 := by decide
  omega

theorem xxh3_finish128_lt (acc : Nat × Nat) (len : Nat) : XXH3.finish128 acc len < 2 ^ 128 := by
  unfold XXH3.finish128 XXH3.sub64
  exact pack128_lt _ _ (Nat.mod_lt _ (by decide)) (xxh3_avalanche_lt _)

theorem xorshift28_lt (x : Nat) : XXH3.xorshift (x % M64) 28 < 2 ^ 64 := by
  unfold XXH3.xorshift; exact xorshift_lt _ 28 64 (Nat.mod_lt _ (by decide))

theorem xxh3_128_lt (m : Bytes) : XXH3.xxh3_128 m < 2 ^ 128 := by
  unfold XXH3.xxh3_128
  extract_lets len
  split
  · exact pack128_lt _ _ (xxh_avalanche64_lt _) (xxh_avalanche64_lt _)
  split
  · exact pack128_lt _ _ (xxh_avalanche64_lt _) (xxh_avalanche64_lt _)
  split
  · exact pack128_lt _ _ (xxh3_avalanche_lt _) (xorshift28_lt _)
  split
  · exact pack128_lt _ _ (xxh3_avalanche_lt _) (xxh3_avalanche_lt _)
  split
  · exact xxh3_finish128_lt _ _
  split
  · exact xxh3_finish128_lt _ _
  · exact pack128_lt _ _ (xxh3_mergeAccs_lt _ _ _) (xxh3_mergeAccs_lt _ _ _)

end C27
