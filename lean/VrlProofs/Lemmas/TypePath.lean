import VrlProofs.Lemmas.TypeKind
import VrlProofs.Props.C18

/-! Path operations under the side conditions of `Lang.checks`: reading (`at_path`) and inserting,
    on result values (`memR`); array / object literals. -/

namespace Spec
open Lang

theorem optSorted_getOpt : (p : Path) → (c : Option Value) → optSorted c = true →
    optSorted (Value.getOpt c p) = true
  | [], c, h => by cases c <;> simpa [Value.getOpt] using h
  | s :: rest, c, h => by
    rw [getOpt_cons]
    exact optSorted_getOpt rest _ (child_sorted c s h)

theorem atPath_sound_ok (p : Path) (c : Option Value) (K : Kind) (hs : optSorted c = true)
    (hm : memOpt c K = true) (ok : atOk K p = true) : memOpt (Value.getOpt c p) (K.atPath p) = true := by
  simp only [atOk, Bool.and_eq_true, decide_eq_true_eq] at ok
  obtain ⟨sK, hc⟩ := ok
  unfold C19.atClass at hc
  split at hc
  · cases hc
  · rename_i h1
    have h1 : C19.anyOnPath C19.optionalIdx K p = false := by simpa using h1
    split at hc
    · cases hc
    · rename_i h2
      simp only [Bool.and_eq_true, not_and, Bool.not_eq_true] at h2
      cases hn : C19.anyOnPath C19.negUnknown K p with
      | false => exact atPath_sound p c K hs hm h1 hn
      | true => exact atPath_sound_full p c K hs hm sK (h2 hn) h1

/-- reading a path from a result value: the value read (`null` when absent) is a result of the
    kind `at_path` reports -/
theorem memR_atPath {v : Value} {K : Kind} {p : Path} (h : memR v K = true) (hs : v.Sorted = true)
    (ok : atOk K p = true) :
    memR ((v.get p).getD .null) (K.atPath p) = true ∧ ((v.get p).getD .null).Sorted = true := by
  have hopt := memOpt_asOpt h
  have hso : optSorted (asOpt v K) = true := by
    unfold asOpt; split
    · exact hs
    · rfl
  have hsound := atPath_sound_ok p (asOpt v K) K hso hopt ok
  have hsorted := optSorted_getOpt p (asOpt v K) hso
  have heq : (v.get p).getD .null = (Value.getOpt (asOpt v K) p).getD .null := by
    unfold asOpt
    cases hm : mem v K with
    | true => rfl
    | false =>
      rcases (memR_iff v K).mp h with h1 | ⟨h1, _⟩
      · rw [hm] at h1; cases h1
      · subst h1
        cases p with
        | nil => simp [Value.get, Value.getOpt]
        | cons s rest => simp [Value.get, Value.getOpt, getOpt_none]
  rw [heq]
  cases hg : Value.getOpt (asOpt v K) p with
  | none =>
    rw [hg] at hsound
    simp only [memOpt] at hsound
    exact ⟨(memR_iff _ _).mpr (Or.inr ⟨rfl, hsound⟩), rfl⟩
  | some w =>
    rw [hg] at hsound hsorted
    exact ⟨memR_of_mem hsound, hsorted⟩

/-- inserting a result value into a member -/
theorem mem_insert {v x v' : Value} {prev : Option Value} {K X : Kind} {p : Path}
    (hv : mem v K = true) (hvs : v.Sorted = true) (hx : memR x X = true) (hxs : x.Sorted = true)
    (ok : insertOk K p = true) (hi : v.insert p x = .ok (v', prev)) :
    mem v' (K.insert p X) = true ∧ v'.Sorted = true := by
  refine ⟨?_, C18.insert_sorted v p x v' prev hvs hxs hi⟩
  simp only [insertOk, insertClassOk, Bool.and_eq_true, Bool.not_eq_true'] at ok
  have := insertRec_sound p (some v) K x X.upgradeUndefined hvs hv (mem_upgrade_of_memR hx) ok.1 ok.2.1 ok.2.2
  unfold Value.insert at hi
  split at hi
  · cases hi
  · cases hi
    exact this

/-! ### array literals -/

/-- the elements of a run-time array against the element types collected by `Array::type_info` -/
def ListMem : VList → List TypeDef → Prop
  | .nil, [] => True
  | .cons v vs, t :: ts => mem v t.kind = true ∧ v.Sorted = true ∧ ListMem vs ts
  | _, _ => False

theorem ListMem.length : (vs : VList) → (ts : List TypeDef) → ListMem vs ts → vs.length = ts.length
  | .nil, [], _ => rfl
  | .cons _ vs, _ :: ts, h => by simp [VList.length, ListMem.length vs ts h.2.2]
  | .nil, _ :: _, h => by cases h
  | .cons _ _, [], h => by cases h

theorem ListMem.getN : (vs : VList) → (ts : List TypeDef) → ListMem vs ts → ∀ j x, vs.getN j = some x →
    ∃ t, ts[j]? = some t ∧ mem x t.kind = true
  | .nil, [], _, j, x, hx => by simp [VList.getN] at hx
  | .cons v vs, t :: ts, h, 0, x, hx => by
    simp only [VList.getN, Option.some.injEq] at hx; subst hx; exact ⟨t, rfl, h.1⟩
  | .cons v vs, t :: ts, h, j + 1, x, hx => by
    simp only [VList.getN] at hx
    obtain ⟨t', h1, h2⟩ := ListMem.getN vs ts h.2.2 j x hx
    exact ⟨t', by simpa using h1, h2⟩
  | .nil, _ :: _, h, _, _, _ => by cases h
  | .cons _ _, [], h, _, _, _ => by cases h

theorem ListMem.sorted : (vs : VList) → (ts : List TypeDef) → ListMem vs ts → vs.Sorted = true
  | .nil, [], _ => rfl
  | .cons v vs, t :: ts, h => by simp [VList.Sorted, h.2.1, ListMem.sorted vs ts h.2.2]
  | .nil, _ :: _, h => by cases h
  | .cons _ _, [], h => by cases h

/-- appending one element at the end -/
theorem ListMem.snoc : (vs : VList) → (ts : List TypeDef) → (v : Value) → (t : TypeDef) → ListMem vs ts →
    mem v t.kind = true → v.Sorted = true → ListMem (vs.append (.cons v .nil)) (ts ++ [t])
  | .nil, [], v, t, _, hv, hs => ⟨hv, hs, trivial⟩
  | .cons a vs, b :: ts, v, t, h, hv, hs => ⟨h.1, h.2.1, ListMem.snoc vs ts v t h.2.2 hv hs⟩
  | .nil, _ :: _, _, _, h, _, _ => by cases h
  | .cons _ _, [], _, _, h, _, _ => by cases h

theorem kindsFromIdx_get : (ts : List TypeDef) → (i j : Nat) →
    (kindsFromIdx ts i).get (Key.ofIdx (i + j)) = (ts[j]?).map (·.kind)
  | [], i, j => by simp [kindsFromIdx, KList.get]
  | t :: ts, i, 0 => by simp [kindsFromIdx, KList.get]
  | t :: ts, i, j + 1 => by
    have hne : Key.ofIdx i ≠ Key.ofIdx (i + (j + 1)) := by
      simp only [Key.ofIdx, ne_eq, List.cons.injEq, and_true]; omega
    rw [kindsFromIdx, KList.get, if_neg hne]
    have := kindsFromIdx_get ts (i + 1) j
    rw [show i + 1 + j = i + (j + 1) by omega] at this
    rw [this]; simp

theorem kindsFromIdx_get_some : (ts : List TypeDef) → (i : Nat) → (k : Key) → (K : Kind) →
    (kindsFromIdx ts i).get k = some K → ∃ j, j < ts.length ∧ k = Key.ofIdx (i + j)
  | [], _, _, _, h => by simp [kindsFromIdx, KList.get] at h
  | t :: ts, i, k, K, h => by
    rw [kindsFromIdx, KList.get] at h
    split at h
    · rename_i hk; exact ⟨0, by simp, by simpa using hk.symm⟩
    · obtain ⟨j, hj, hk⟩ := kindsFromIdx_get_some ts (i + 1) k K h
      exact ⟨j + 1, by simp; omega, by rw [hk]; congr 1; omega⟩

theorem ofKnown_unknown_undefined (kl : KList) : (Col.ofKnown kl).unknown = Unknown.ofKind Kind.undefined := rfl

/-- the array literal is a member of the array kind built from its element types -/
theorem mem_arr_of_listMem (vs : VList) (ts : List TypeDef) (h : ListMem vs ts) :
    mem (.arr vs) (Kind.ofArray (Col.ofKnown (kindsFromIdx ts 0))) = true := by
  rw [mem_arr_iff]
  refine ⟨Col.ofKnown (kindsFromIdx ts 0), rfl, ?_, ?_⟩
  · intro j x hx
    obtain ⟨t, ht, hm⟩ := ListMem.getN vs ts h j x hx
    have := kindsFromIdx_get ts 0 j
    rw [Nat.zero_add, ht] at this
    simp only [slotKind, Col.ofKnown, Col.known, this, Option.map_some]
    exact hm
  · intro k K' hk hl
    exfalso
    obtain ⟨j, hj, hkj⟩ := kindsFromIdx_get_some ts 0 k K' hk
    subst hkj
    rw [ListMem.length vs ts h] at hl
    simp [Key.ofIdx, Key.idx] at hl
    omega

/-! ### object literals -/

/-- a run-time object has exactly the keys of the literal, in the same order -/
def KeysEq : VMap → KExprs → Prop
  | .nil, .nil => True
  | .cons k _ m, .cons k' _ kes => k = k' ∧ KeysEq m kes
  | _, _ => False

def keyOf : KExprs → List Key
  | .nil => []
  | .cons k _ kes => k :: keyOf kes

theorem KeysEq.get_isSome : (m : VMap) → (kes : KExprs) → KeysEq m kes → ∀ q, (m.get q).isSome = true → q ∈ keyOf kes
  | .nil, .nil, _, q, h => by simp [VMap.get] at h
  | .cons k v m, .cons k' e kes, h, q, hq => by
    obtain ⟨rfl, h2⟩ := h
    simp only [VMap.get] at hq
    simp only [keyOf, List.mem_cons]
    by_cases hk : k = q
    · exact Or.inl hk.symm
    · simp only [hk, if_false] at hq
      exact Or.inr (KeysEq.get_isSome m kes h2 q hq)
  | .nil, .cons _ _ _, h, _, _ => by cases h
  | .cons _ _ _, .nil, h, _, _ => by cases h

/-- all keys of a sorted literal's tail are greater than its head -/
theorem keysSorted_tail_gt : (k : Key) → (e : Expr) → (kes : KExprs) → keysSorted (.cons k e kes) = true →
    (∀ q ∈ keyOf kes, Key.lt k q = true) ∧ keysSorted kes = true
  | _, _, .nil, _ => ⟨by simp [keyOf], rfl⟩
  | k, e, .cons k' e' kes, h => by
    simp only [keysSorted, Bool.and_eq_true] at h
    obtain ⟨h1, h2⟩ := h
    obtain ⟨ih, _⟩ := keysSorted_tail_gt k' e' kes h2
    refine ⟨?_, h2⟩
    intro q hq
    simp only [keyOf, List.mem_cons] at hq
    rcases hq with rfl | hq
    · exact h1
    · exact Key.lt_trans _ _ _ h1 (ih q hq)

theorem KeysEq.allGt : (m : VMap) → (kes : KExprs) → KeysEq m kes → (k : Key) →
    (∀ q ∈ keyOf kes, Key.lt k q = true) → VMap.allGt k m = true
  | .nil, .nil, _, _, _ => rfl
  | .cons a v m, .cons a' e kes, h, k, hk => by
    obtain ⟨rfl, h2⟩ := h
    simp only [VMap.allGt, Bool.and_eq_true]
    exact ⟨hk a (by simp [keyOf]), KeysEq.allGt m kes h2 k (fun q hq => hk q (by simp [keyOf, hq]))⟩
  | .nil, .cons _ _ _, h, _, _ => by cases h
  | .cons _ _ _, .nil, h, _, _ => by cases h

end Spec
