/-
  Helper lemmas for C31: the build phase (`Build.mapM`, `buildList`) against the field check of the
  reference semantics, and the per-field refinement `VrlFilter::* = Spec.*Ref`.
-/
import VrlModel.Search.MatchSpec

namespace Search
open Spec

/-! ### `Build` -/

@[simp] theorem Build.map_ok {α β : Type} (f : α → β) (a : α) : (Build.ok a).map f = .ok (f a) := rfl
@[simp] theorem Build.map_err {α β : Type} (f : α → β) : (Build.err : Build α).map f = .err := rfl
@[simp] theorem Build.map_panic {α β : Type} (f : α → β) : (Build.panic : Build α).map f = .panic := rfl

/-- `withField` succeeds exactly when the field's path parses, with the resolved inner matcher. -/
theorem withField_eq (f : Field) (inner : Matcher) :
    withField f inner =
      match lookupField f with
      | .ok p => .ok (resolveValue p inner)
      | .err => .err
      | .panic => .panic := rfl

theorem resolveValue_apply (p : Path) (m : Matcher) (e : Value) :
    resolveValue p m e = match e.get p with | some v => m v | none => false := rfl

/-- the elements of the `tags` array, as the implementation's `onArray` sees them -/
theorem anyV_eq_any (f : Value → Bool) : (a : VList) → VList.anyV f a = (VList.toL a).any f
  | .nil => rfl
  | .cons v vs => by simp [VList.anyV, VList.toL, anyV_eq_any f vs]

theorem lookupField_tag (t : Str) : lookupField (.tag t) = .ok [.field (utf8 tagsName)] := rfl

theorem pathOf_tag (t : Str) : pathOf (.tag t) = [.field (utf8 tagsName)] := rfl

/-- running a matcher built on the `tags` array = quantifying over `tagElems` -/
theorem resolve_onArray (f : Value → Bool) (e : Value) :
    resolveValue [.field (utf8 tagsName)] (onArray f) e = (tagElems e).any f := by
  unfold resolveValue tagElems
  cases h : e.get [.field (utf8 tagsName)] with
  | none => simp
  | some v =>
    cases v <;> simp [onArray, anyV_eq_any]

/-- a per-field matcher refines a reference predicate: same success condition as the path check,
    and the same verdict on every event -/
def FieldRefines (b : Build Matcher) (f : Field) (ref : Value → Bool) : Prop :=
  match lookupField f with
  | .ok _ => ∃ m, b = .ok m ∧ ∀ e, m e = ref e
  | .err => b = .err
  | .panic => b = .panic

theorem fieldRefines_withField (f : Field) (inner : Matcher) (ref : Value → Bool)
    (h : ∀ p, lookupField f = .ok p → ∀ e, resolveValue p inner e = ref e) :
    FieldRefines (withField f inner) f ref := by
  unfold FieldRefines
  rw [withField_eq]
  cases hl : lookupField f with
  | ok p => exact ⟨_, rfl, h p hl⟩
  | err => rfl
  | panic => rfl

theorem valueAt_of_lookup {f : Field} {p : Path} (h : lookupField f = .ok p) (e : Value) :
    valueAt f e = e.get p := by
  simp [valueAt, pathOf, h]

/-! ### the five `VrlFilter` methods against the reference predicates -/

theorem exists_refines (E : Env) (f : Field) (hdev : isTagsReserved f = false) :
    FieldRefines (filterExists E f) f (existsRef E f) := by
  unfold filterExists
  apply fieldRefines_withField
  intro p hp e
  cases f with
  | tag t =>
    rw [lookupField_tag] at hp
    cases hp
    simp only [existsRef]
    exact resolve_onArray _ e
  | reserved r =>
    have hr : ¬ r = tagsName := by simpa [isTagsReserved] using hdev
    simp only [hr, if_false, existsRef, valueAt_of_lookup hp, resolveValue_apply]
    cases e.get p <;> rfl
  | default d =>
    simp only [existsRef, valueAt_of_lookup hp, resolveValue_apply]
    cases e.get p <;> rfl
  | attr a =>
    simp only [existsRef, valueAt_of_lookup hp, resolveValue_apply]
    cases e.get p <;> rfl

theorem tagsReserved_path {r : Str} (h : r = tagsName) {p : Path}
    (hp : lookupField (.reserved r) = .ok p) : p = [.field (utf8 tagsName)] := by
  subst h
  have : lookupField (.reserved tagsName) = .ok [.field (utf8 tagsName)] := by decide
  rw [this] at hp
  cases hp
  rfl

theorem equals_refines (E : Env) (f : Field) (v : Str) :
    FieldRefines (filterEquals E f v) f (equalsRef E f v) := by
  unfold filterEquals
  apply fieldRefines_withField
  intro p hp e
  cases f with
  | tag t =>
    rw [lookupField_tag] at hp
    cases hp
    simp only [equalsRef]
    exact resolve_onArray _ e
  | reserved r =>
    by_cases hr : r = tagsName
    · have := tagsReserved_path hr hp
      subst this
      simp only [hr, if_true, equalsRef]
      exact resolve_onArray _ e
    · simp only [hr, if_false, equalsRef, valueAt_of_lookup hp, resolveValue_apply]
      cases e.get p <;> rfl
  | default d =>
    simp only [equalsRef, valueAt_of_lookup hp, resolveValue_apply]
    cases h : e.get p with
    | none => rfl
    | some x => cases x <;> rfl
  | attr a =>
    simp only [equalsRef, valueAt_of_lookup hp, resolveValue_apply]
    cases e.get p <;> rfl

theorem prefix_refines (E : Env) (f : Field) (v : Str) :
    FieldRefines (filterPrefix E f v) f (prefixRef E f v) := by
  unfold filterPrefix
  apply fieldRefines_withField
  intro p hp e
  cases f with
  | tag t =>
    rw [lookupField_tag] at hp
    cases hp
    simp only [prefixRef]
    exact resolve_onArray _ e
  | reserved r =>
    simp only [prefixRef, valueAt_of_lookup hp, resolveValue_apply]
    cases e.get p <;> rfl
  | default d =>
    simp only [prefixRef, valueAt_of_lookup hp, resolveValue_apply]
    cases e.get p <;> rfl
  | attr a =>
    simp only [prefixRef, valueAt_of_lookup hp, resolveValue_apply]
    cases e.get p <;> rfl

theorem wildcard_refines (E : Env) (f : Field) (v : Str) :
    FieldRefines (filterWildcard E f v) f (wildcardRef E f v) := by
  unfold filterWildcard
  apply fieldRefines_withField
  intro p hp e
  cases f with
  | tag t =>
    rw [lookupField_tag] at hp
    cases hp
    simp only [wildcardRef]
    exact resolve_onArray _ e
  | reserved r =>
    simp only [wildcardRef, valueAt_of_lookup hp, resolveValue_apply]
    cases e.get p <;> rfl
  | default d =>
    simp only [wildcardRef, valueAt_of_lookup hp, resolveValue_apply]
    cases e.get p <;> rfl
  | attr a =>
    simp only [wildcardRef, valueAt_of_lookup hp, resolveValue_apply]
    cases e.get p <;> rfl

theorem compareAttr_eq (E : Env) (c : Cmp) (cv : CV) (x : Value) :
    compareAttr E c cv x = compareValue E c cv x := by
  cases x <;> cases cv <;> rfl

/-- comparing the values of the elements `key:value` whose key is the tag = comparing `tagValues` -/
theorem any_tagCompare (E : Env) (t : Str) (p : Bytes → Bool) : (l : List Value) →
    l.any (fun v => match splitColon (stringValue E v) with
      | some (key, lhs) => key == utf8 t && p lhs
      | none => false) =
    (l.filterMap fun x =>
      match splitColon (stringValue E x) with
      | some (k, v) => if k = utf8 t then some v else none
      | none => none).any p
  | [] => rfl
  | x :: l => by
    rw [List.any_cons, List.filterMap_cons, any_tagCompare E t p l]
    cases hs : splitColon (stringValue E x) with
    | none => simp
    | some kv =>
      obtain ⟨k, v⟩ := kv
      by_cases hk : k = utf8 t <;> simp [hk]

theorem compare_refines (E : Env) (f : Field) (c : Cmp) (cv : CV) :
    FieldRefines (filterCompare E f c cv) f (compareRef E f c cv) := by
  unfold filterCompare
  apply fieldRefines_withField
  intro p hp e
  cases f with
  | tag t =>
    rw [lookupField_tag] at hp
    cases hp
    simp only [compareRef, tagValues]
    rw [resolve_onArray]
    exact any_tagCompare E t _ (tagElems e)
  | reserved r =>
    simp only [compareRef, valueAt_of_lookup hp, resolveValue_apply]
    cases e.get p <;> rfl
  | default d =>
    simp only [compareRef, valueAt_of_lookup hp, resolveValue_apply]
    cases e.get p <;> rfl
  | attr a =>
    simp only [compareRef, valueAt_of_lookup hp, resolveValue_apply]
    cases e.get p with
    | none => rfl
    | some x => exact compareAttr_eq E c cv x

/-! ### ranges -/

theorem FieldRefines.congr {b : Build Matcher} {f : Field} {r r' : Value → Bool}
    (h : FieldRefines b f r) (hr : ∀ e, r e = r' e) : FieldRefines b f r' := by
  unfold FieldRefines at h ⊢
  cases hl : lookupField f with
  | ok p =>
    simp only [hl] at h ⊢
    obtain ⟨m, em, rm⟩ := h
    exact ⟨m, em, fun e => (rm e).trans (hr e)⟩
  | err => simpa [hl] using h
  | panic => simpa [hl] using h

/-- the `Definitive range` arm of `Filter::range`: both one-sided matchers, conjoined -/
def bothM (b1 b2 : Build Matcher) : Build Matcher :=
  match b1 with
  | .ok lower =>
    (match b2 with
      | .ok upper => .ok (fun v => lower v && upper v)
      | .err => .err
      | .panic => .panic)
  | .err => .err
  | .panic => .panic

theorem both_refines {b1 b2 : Build Matcher} {f : Field} {r1 r2 : Value → Bool}
    (h1 : FieldRefines b1 f r1) (h2 : FieldRefines b2 f r2) :
    FieldRefines (bothM b1 b2) f (fun e => r1 e && r2 e) := by
  unfold FieldRefines at h1 h2 ⊢
  cases hl : lookupField f with
  | ok p =>
    simp only [hl] at h1 h2 ⊢
    obtain ⟨m1, e1, q1⟩ := h1; obtain ⟨m2, e2, q2⟩ := h2
    exact ⟨fun v => m1 v && m2 v, by simp [bothM, e1, e2], fun e => by simp [q1, q2]⟩
  | err => simp only [hl] at h1 h2 ⊢; simp [bothM, h1]
  | panic => simp only [hl] at h1 h2 ⊢; simp [bothM, h1]

theorem filterRange_bounded (E : Env) (f : Field) (lo : CV) (li : Bool) (hi : CV) (ui : Bool)
    (h1 : lo ≠ .unbounded) (h2 : hi ≠ .unbounded) :
    filterRange E f lo li hi ui =
      bothM (filterCompare E f (lowerOp li) lo) (filterCompare E f (upperOp ui) hi) := by
  cases lo <;> cases hi <;> first | rfl | exact absurd rfl h1 | exact absurd rfl h2

theorem filterRange_lower_unbounded (E : Env) (f : Field) (li : Bool) (hi : CV) (ui : Bool)
    (h2 : hi ≠ .unbounded) :
    filterRange E f .unbounded li hi ui = filterCompare E f (upperOp ui) hi := by
  cases hi <;> first | rfl | exact absurd rfl h2

theorem filterRange_upper_unbounded (E : Env) (f : Field) (lo : CV) (li : Bool) (ui : Bool)
    (h1 : lo ≠ .unbounded) :
    filterRange E f lo li .unbounded ui = filterCompare E f (lowerOp li) lo := by
  cases lo <;> first | rfl | exact absurd rfl h1

theorem filterRange_unbounded (E : Env) (f : Field) (li ui : Bool) :
    filterRange E f .unbounded li .unbounded ui = filterExists E f := rfl

theorem boundRef_bounded (E : Env) (f : Field) (c : Cmp) (cv : CV) (e : Value) (h : cv ≠ .unbounded) :
    boundRef E f c cv e = compareRef E f c cv e := by
  cases cv <;> first | rfl | exact absurd rfl h

theorem rangeRef_not_both (E : Env) (f : Field) (lo : CV) (li : Bool) (hi : CV) (ui : Bool) (e : Value)
    (h : ¬ (lo = .unbounded ∧ hi = .unbounded)) :
    rangeRef E f lo li hi ui e = (boundRef E f (lowerOp li) lo e && boundRef E f (upperOp ui) hi e) := by
  cases lo <;> cases hi <;> first | rfl | exact absurd ⟨rfl, rfl⟩ h

theorem range_refines (E : Env) (f : Field) (lo : CV) (li : Bool) (hi : CV) (ui : Bool)
    (hR : isTagsReserved f = false ∨ ¬ (lo = .unbounded ∧ hi = .unbounded)) :
    FieldRefines (filterRange E f lo li hi ui) f (rangeRef E f lo li hi ui) := by
  by_cases h1 : lo = .unbounded
  · by_cases h2 : hi = .unbounded
    · subst h1; subst h2
      have hr : isTagsReserved f = false := by
        cases hR with
        | inl h => exact h
        | inr h => exact absurd ⟨rfl, rfl⟩ h
      rw [filterRange_unbounded]
      exact (exists_refines E f hr).congr (fun e => rfl)
    · subst h1
      rw [filterRange_lower_unbounded E f li hi ui h2]
      exact (compare_refines E f (upperOp ui) hi).congr (fun e => by
        rw [rangeRef_not_both E f .unbounded li hi ui e (fun h => h2 h.2), boundRef_bounded E f _ hi e h2]
        simp [boundRef])
  · by_cases h2 : hi = .unbounded
    · subst h2
      rw [filterRange_upper_unbounded E f lo li ui h1]
      exact (compare_refines E f (lowerOp li) lo).congr (fun e => by
        rw [rangeRef_not_both E f lo li .unbounded ui e (fun h => h1 h.1), boundRef_bounded E f _ lo e h1]
        simp [boundRef])
    · rw [filterRange_bounded E f lo li hi ui h1 h2]
      exact (both_refines (compare_refines E f (lowerOp li) lo) (compare_refines E f (upperOp ui) hi)).congr
        (fun e => by
          rw [rangeRef_not_both E f lo li hi ui e (fun h => h1 h.1), boundRef_bounded E f _ lo e h1,
            boundRef_bounded E f _ hi e h2])

/-! ### a list of fields -/

/-- refinement of a whole build result against a field check -/
def Refines (b : Build Matcher) (chk : Build Unit) (ref : Value → Bool) : Prop :=
  match chk with
  | .ok _ => ∃ m, b = .ok m ∧ ∀ e, m e = ref e
  | .err => b = .err
  | .panic => b = .panic

theorem mapM_refines (mk : Field → Build Matcher) (ref : Field → Value → Bool) :
    (fs : List Field) → (∀ f ∈ fs, FieldRefines (mk f) f (ref f)) →
    match checkFields fs with
    | .ok _ => ∃ ms, Build.mapM mk fs = .ok ms ∧ ∀ e, ms.map (fun m => m e) = fs.map (fun f => ref f e)
    | .err => Build.mapM mk fs = .err
    | .panic => Build.mapM mk fs = .panic
  | [], _ => by simp [checkFields, Build.mapM]
  | f :: fs, h => by
    have hf := h f (by simp)
    have ih := mapM_refines mk ref fs (fun g hg => h g (by simp [hg]))
    unfold FieldRefines at hf
    simp only [checkFields]
    cases hl : lookupField f with
    | ok p =>
      simp only [hl] at hf ⊢
      obtain ⟨m, em, rm⟩ := hf
      cases hc : checkFields fs with
      | ok u =>
        simp only [hc] at ih ⊢
        obtain ⟨ms, ems, rms⟩ := ih
        exact ⟨m :: ms, by simp [Build.mapM, em, ems], fun e => by simp [rm, rms]⟩
      | err => simp only [hc] at ih ⊢; simp [Build.mapM, em, ih]
      | panic => simp only [hc] at ih ⊢; simp [Build.mapM, em, ih]
    | err => simp only [hl] at hf ⊢; simp [Build.mapM, hf]
    | panic => simp only [hl] at hf ⊢; simp [Build.mapM, hf]

theorem any_map_eq {α : Type} (ms : List Matcher) (fs : List α) (g : α → Bool) (e : Value)
    (h : ms.map (fun m => m e) = fs.map g) : ms.any (fun m => m e) = fs.any g := by
  have : ms.any (fun m => m e) = (ms.map (fun m => m e)).any id := by simp [List.any_map]
  rw [this, h]; simp [List.any_map]

theorem all_map_eq {α : Type} (ms : List Matcher) (fs : List α) (g : α → Bool) (e : Value)
    (h : ms.map (fun m => m e) = fs.map g) : ms.all (fun m => m e) = fs.all g := by
  have : ms.all (fun m => m e) = (ms.map (fun m => m e)).all id := by simp [List.all_map]
  rw [this, h]; simp [List.all_map]

/-- `any` over the per-field matchers of an attribute -/
theorem anyFields_refines (mk : Field → Build Matcher) (ref : Field → Value → Bool) (fs : List Field)
    (h : ∀ f ∈ fs, FieldRefines (mk f) f (ref f)) :
    Refines ((Build.mapM mk fs).map anyM) (checkFields fs) (fun e => fs.any fun f => ref f e) := by
  have := mapM_refines mk ref fs h
  unfold Refines
  cases hc : checkFields fs with
  | ok u =>
    simp only [hc] at this
    obtain ⟨ms, ems, rms⟩ := this
    exact ⟨anyM ms, by simp [ems], fun e => any_map_eq ms fs _ e (rms e)⟩
  | err => simp only [hc] at this; simp [this]
  | panic => simp only [hc] at this; simp [this]

end Search
