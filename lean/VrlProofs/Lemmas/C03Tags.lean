/-
  C03: the kind tag of what each modelled function returns (`f … = .ok r → tagOf r = t`), for the
  functions whose declared kind is one primitive state.
-/
import VrlProofs.Lemmas.C03

namespace C03
open Str (R)

/-- close `h : … = .ok r ⊢ tagOf r = t` when `h` is an equation between constructors -/
macro "ok_tag" h:ident : tactic =>
  `(tactic| first | (cases $h:ident; done) | (cases $h:ident; rfl))

/-! ### slot combinators -/

theorem un_ok {f : Value → R Value} {vs : Slots} {r : Value} (h : un f vs = .ok r) :
    ∃ v, vs = [some v] ∧ f v = .ok r := by
  unfold un at h
  split at h
  · exact ⟨_, rfl, h⟩
  · cases h

theorem un1_ok {f : Value → Option Value → R Value} {vs : Slots} {r : Value} (h : un1 f vs = .ok r) :
    ∃ v o, vs = [some v, o] ∧ f v o = .ok r := by
  unfold un1 at h
  split at h
  · exact ⟨_, _, rfl, h⟩
  · cases h

theorem un2_ok {f : Value → Option Value → Option Value → R Value} {vs : Slots} {r : Value}
    (h : un2 f vs = .ok r) : ∃ v o1 o2, vs = [some v, o1, o2] ∧ f v o1 o2 = .ok r := by
  unfold un2 at h
  split at h
  · exact ⟨_, _, _, rfl, h⟩
  · cases h

theorem un6_ok {f : Value → Option Value → Option Value → Option Value → Option Value → Option Value →
    Option Value → R Value} {vs : Slots} {r : Value} (h : un6 f vs = .ok r) :
    ∃ v o1 o2 o3 o4 o5 o6, vs = [some v, o1, o2, o3, o4, o5, o6] ∧ f v o1 o2 o3 o4 o5 o6 = .ok r := by
  unfold un6 at h
  split at h
  · exact ⟨_, _, _, _, _, _, _, rfl, h⟩
  · cases h

theorem bin_ok {f : Value → Value → R Value} {vs : Slots} {r : Value} (h : bin f vs = .ok r) :
    ∃ a b, vs = [some a, some b] ∧ f a b = .ok r := by
  unfold bin at h
  split at h
  · exact ⟨_, _, rfl, h⟩
  · cases h

theorem bin1_ok {f : Value → Value → Option Value → R Value} {vs : Slots} {r : Value}
    (h : bin1 f vs = .ok r) : ∃ a b o, vs = [some a, some b, o] ∧ f a b o = .ok r := by
  unfold bin1 at h
  split at h
  · exact ⟨_, _, _, rfl, h⟩
  · cases h

/-! ### result tags of the value-level functions -/

theorem assertV_ok {t : Tag} {v r : Value} (h : assertV t v = .ok r) : r = v ∧ tagOf v = t := by
  unfold assertV at h
  split at h
  · cases h; exact ⟨rfl, by assumption⟩
  · cases h

theorem isV_tag {t : Tag} {v r : Value} (h : isV t v = .ok r) : tagOf r = .boolean := by
  unfold isV boolR at h; cases h; rfl

theorem boolR_tag {b : Bool} {r : Value} (h : boolR b = .ok r) : tagOf r = .boolean := by
  unfold boolR at h; cases h; rfl

theorem isEmptyV_tag {v r : Value} (h : isEmptyV v = .ok r) : tagOf r = .boolean := by
  cases v <;> simp [isEmptyV, boolR] at h <;> subst h <;> rfl

theorem length_tag {v r : Value} (h : Coll.length v = .ok r) : tagOf r = .integer := by
  cases v <;> simp [Coll.length] at h <;> subst h <;> rfl

theorem strlen_tag {v r : Value} (h : Str.strlen v = .ok r) : tagOf r = .integer := by
  cases v <;> simp [Str.strlen] at h <;> subst h <;> rfl

theorem ofRes_ok {x : Conv.Res Value} {r : Value} (h : ofRes x = .ok r) : x = .ok r := by
  cases x <;> simp [ofRes] at h; subst h; rfl

theorem map_bytes_tag {x : Conv.Res (List Nat)} {r : Value} (h : x.map Value.bytes = .ok r) :
    tagOf r = .bytes := by
  cases x <;> simp [Conv.Res.map] at h; subst h; rfl

theorem map_int_tag {x : Conv.Res Int} {r : Value} (h : x.map Value.int = .ok r) :
    tagOf r = .integer := by
  cases x <;> simp [Conv.Res.map] at h; subst h; rfl

theorem toInt_tag {v r : Value} (h : ofRes (Conv.Num.toInt v) = .ok r) : tagOf r = .integer := by
  have h := ofRes_ok h
  cases v <;> simp only [Conv.Num.toInt] at h <;> try (ok_tag h)
  exact map_int_tag h

theorem bytesToFloat_tag {p : List Nat → Option Nat} {b : List Nat} {r : Value}
    (h : Round.bytesToFloat p b = .ok r) : tagOf r = .float := by
  unfold Round.bytesToFloat at h
  split at h
  · split at h
    · cases h
    · cases h; rfl
  · cases h

theorem toFloat_tag {p : List Nat → Option Nat} {v r : Value} (h : Round.toFloat p v = .ok r) :
    tagOf r = .float := by
  cases v <;> simp only [Round.toFloat] at h <;> try (ok_tag h)
  · exact bytesToFloat_tag h
  · split at h
    · cases h; rfl
    · cases h; rfl

theorem parseFloat_tag {p : List Nat → Option Nat} {v r : Value} (h : Round.parseFloat p v = .ok r) :
    tagOf r = .float := by
  cases v <;> simp only [Round.parseFloat] at h <;> try (cases h)
  exact bytesToFloat_tag h

theorem toBool_tag {v r : Value} (h : toBool v = .ok r) : tagOf r = .boolean := by
  cases v <;> simp only [toBool] at h <;> try (ok_tag h)
  split at h
  · cases h; rfl
  · cases h

theorem toStringV_tag {E : Env} {v r : Value} (h : toStringV E v = .ok r) : tagOf r = .bytes := by
  cases v <;> try (simp only [toStringV] at h; ok_tag h)
  · rename_i b; cases b <;> (simp only [toStringV] at h; cases h; rfl)

theorem upcaseV_tag {cm : Str.CaseMap} {v r : Value} (h : Str.upcaseV cm v = .ok r) : tagOf r = .bytes := by
  cases v <;> simp [Str.upcaseV] at h; subst h; rfl

theorem downcaseV_tag {cm : Str.CaseMap} {v r : Value} (h : Str.downcaseV cm v = .ok r) :
    tagOf r = .bytes := by
  cases v <;> simp [Str.downcaseV] at h; subst h; rfl

theorem stripWhitespace_tag {v r : Value} (h : Str.stripWhitespace v = .ok r) : tagOf r = .bytes := by
  cases v <;> simp [Str.stripWhitespace] at h; subst h; rfl

theorem startsWith_tag {cm : Str.CaseMap} {v s : Value} {cs : Option Value} {r : Value}
    (h : Str.startsWith cm v s cs = .ok r) : tagOf r = .boolean := by
  unfold Str.startsWith at h
  split at h <;> ok_tag h

theorem endsWith_tag {cm : Str.CaseMap} {v s : Value} {cs : Option Value} {r : Value}
    (h : Str.endsWith cm v s cs = .ok r) : tagOf r = .boolean := by
  unfold Str.endsWith at h
  split at h <;> ok_tag h

theorem contains_tag {cm : Str.CaseMap} {v s : Value} {cs : Option Value} {r : Value}
    (h : Str.contains cm v s cs = .ok r) : tagOf r = .boolean := by
  unfold Str.contains at h
  split at h <;> ok_tag h

theorem truncate_tag {v l : Value} {s : Option Value} {r : Value}
    (h : Str.truncate v l s = .ok r) : tagOf r = .bytes := by
  unfold Str.truncate at h
  split at h <;> ok_tag h

theorem join_tag {v : Value} {s : Option Value} {r : Value} (h : Str.join v s = .ok r) :
    tagOf r = .bytes := by
  unfold Str.join at h
  repeat' (split at h)
  all_goals ok_tag h

theorem formatInt_tag {v b r : Value} (h : ofRes (Conv.formatInt v b) = .ok r) : tagOf r = .bytes := by
  have h := ofRes_ok h
  unfold Conv.formatInt at h
  repeat' (split at h)
  all_goals first | exact map_bytes_tag h | cases h

theorem parseInt_tag {v : Value} {b : Option Value} {r : Value}
    (h : ofRes (Conv.parseInt v b) = .ok r) : tagOf r = .integer := by
  have h := ofRes_ok h
  unfold Conv.parseInt at h
  repeat' (split at h)
  all_goals first | exact map_int_tag h | cases h

theorem ofOpt_tag {x : Option (List Nat)} {r : Value} (h : ofOpt x = .ok r) : tagOf r = .bytes := by
  cases x <;> simp [ofOpt] at h; subst h; rfl

theorem encodeBase64V_tag {v : Value} {p c : Option Value} {r : Value}
    (h : encodeBase64V v p c = .ok r) : tagOf r = .bytes := by
  unfold encodeBase64V at h
  split at h
  · exact ofOpt_tag h
  · cases h

theorem decodeBase64V_tag {v : Value} {c : Option Value} {r : Value}
    (h : decodeBase64V v c = .ok r) : tagOf r = .bytes := by
  unfold decodeBase64V at h
  split at h
  · split at h
    · cases h; rfl
    · cases h
  · cases h

theorem encodeBase16V_tag {v r : Value} (h : encodeBase16V v = .ok r) : tagOf r = .bytes := by
  cases v <;> simp [encodeBase16V] at h; subst h; rfl

theorem decodeBase16V_tag {v r : Value} (h : decodeBase16V v = .ok r) : tagOf r = .bytes := by
  cases v <;> simp only [decodeBase16V] at h <;> try (cases h)
  exact ofOpt_tag h

theorem encodeJsonV_tag {E : Env} {v : Value} {p : Option Value} {r : Value}
    (h : encodeJsonV E v p = .ok r) : tagOf r = .bytes := by
  unfold encodeJsonV at h
  split at h
  · cases h; rfl
  · cases h

end C03
