/-
  Abstract state invariants of the runtime model (generalises the C16 log-coverage induction).

  An `Inv` packages a predicate `J` on runtime states with the closure properties the structural
  induction over `eval` needs:
  * `stable`: `J` only looks at the target (event, metadata) and at the access log — every change of
    variables, flags, caught-error texts, fault counter keeps it;
  * `get` / `ins` / `rem`: the three target operations keep it whenever the *static* condition `G` /
    `W` / `D` holds of the (prefix, path) they act on.
  `Lang.eval_inv` … `Lang.run_inv` (Lemmas/InvEval.lean) then show: if every external query of a
  program satisfies `G`, every external assignment target `W` and every `del` path `D`, every run
  from a `J`-state ends in a `J`-state — whatever the outcome, through closures and iteration
  functions, under every fault schedule.
-/
import VrlProofs.Lemmas.LogFn
import VrlModel.Lang.Writes

namespace Lang

structure Inv where
  J : St → Prop
  /-- static condition on reads (`target_get`) -/
  G : Bool × Path → Prop
  /-- static condition on inserts (`target_insert`) -/
  W : Bool × Path → Prop
  /-- static condition on removals (`target_remove`) -/
  D : Bool × Path → Prop
  stable : ∀ (s t : St), t.event = s.event → t.metadata = s.metadata → t.log = s.log → J s → J t
  get : ∀ (s : St) (m : Bool) (p : Path), G (m, p) → J s → J (s.targetGet m p).2
  ins : ∀ (s s' : St) (m : Bool) (p : Path) (v : Value), W (m, p) → J s →
    s.targetInsert m p v = some s' → J s'
  rem : ∀ (s : St) (m : Bool) (p : Path) (c : Bool), D (m, p) → J s → J (s.targetRemove m p c).2

namespace Inv
variable (I : Inv)

/-- a state transformer that keeps the invariant -/
def TOK (t : Thunk) : Prop := ∀ s, I.J s → I.J (t s).2

theorem tgtInsert (t : Tgt) (v : Value) (s s' : St) (hs : I.J s)
    (ha : ∀ x ∈ tgtAssign t, I.W x) (hi : t.insert v s = some s') : I.J s' := by
  cases t with
  | noop => simp [Tgt.insert] at hi; subst hi; exact hs
  | internal n p =>
    simp only [Tgt.insert] at hi
    split at hi
    · cases hi; exact I.stable s _ rfl rfl rfl hs
    · split at hi
      · split at hi
        · cases hi
        · cases hi; exact I.stable s _ rfl rfl rfl hs
      · split at hi
        · cases hi
        · cases hi; exact I.stable s _ rfl rfl rfl hs
  | external m p => exact I.ins s s' m p v (ha _ (by simp [tgtAssign])) hs hi

theorem cInsert (s : St) (i : Option String) (v : Value) (hs : I.J s) : I.J (cInsert s i v).2 := by
  cases i with
  | none => exact hs
  | some n => exact I.stable s _ rfl rfl rfl hs

theorem cCleanup (s : St) (i : Option String) (o : Option Value) (hs : I.J s) : I.J (cCleanup s i o) := by
  cases i with
  | none => exact hs
  | some n => cases o <;> exact I.stable s _ rfl rfl rfl hs

theorem runBody (body : Thunk) (hb : I.TOK body) : I.TOK (runBody body) := by
  intro s hs
  have := hb s hs
  unfold Lang.runBody
  cases h : body s with | mk r s1 => rw [h] at this; cases r <;> exact this

theorem runKeyValue (vars : List String) (body : Thunk) (hb : I.TOK body)
    (k : List Nat) (v : Value) (s : St) (hs : I.J s) : I.J (runKeyValue vars body k v s).2 := by
  unfold Lang.runKeyValue
  simp only
  exact I.cCleanup _ _ _ (I.cCleanup _ _ _ (I.runBody body hb _ (I.cInsert _ _ _ (I.cInsert _ _ _ hs))))

theorem runIndexValue (vars : List String) (body : Thunk) (hb : I.TOK body)
    (i : Nat) (v : Value) (s : St) (hs : I.J s) : I.J (runIndexValue vars body i v s).2 := by
  unfold Lang.runIndexValue
  simp only
  exact I.cCleanup _ _ _ (I.cCleanup _ _ _ (I.runBody body hb _ (I.cInsert _ _ _ (I.cInsert _ _ _ hs))))

theorem mapKey (vars : List String) (body : Thunk) (hb : I.TOK body)
    (k : List Nat) (s : St) (hs : I.J s) : I.J (mapKey vars body k s).2 := by
  unfold Lang.mapKey
  simp only
  have h := I.cCleanup _ (cIdent vars 0) (Lang.cInsert s (cIdent vars 0) (.bytes k)).1
    (I.runBody body hb _ (I.cInsert s (cIdent vars 0) (.bytes k) hs))
  split <;> exact h

theorem mapValue (vars : List String) (body : Thunk) (hb : I.TOK body)
    (v : Value) (s : St) (hs : I.J s) : I.J (mapValue vars body v s).2 := by
  unfold Lang.mapValue
  simp only
  exact I.cCleanup _ _ _ (I.runBody body hb _ (I.cInsert _ _ _ hs))

theorem forEachMap (vars : List String) (body : Thunk) (hb : I.TOK body) :
    (m : VMap) → (s : St) → I.J s → I.J (forEachMap vars body m s).2
  | .nil, _, hs => hs
  | .cons k v m, s, hs => by
    have h1 := I.runKeyValue vars body hb k v s hs
    rw [Lang.forEachMap]
    cases hr : Lang.runKeyValue vars body k v s with
    | mk r s1 =>
      rw [hr] at h1
      cases r with
      | ok _ => exact forEachMap vars body hb m s1 h1
      | _ => exact h1

theorem forEachList (vars : List String) (body : Thunk) (hb : I.TOK body) :
    (a : VList) → (i : Nat) → (s : St) → I.J s → I.J (forEachList vars body a i s).2
  | .nil, _, _, hs => hs
  | .cons v vs, i, s, hs => by
    have h1 := I.runIndexValue vars body hb i v s hs
    rw [Lang.forEachList]
    cases hr : Lang.runIndexValue vars body i v s with
    | mk r s1 =>
      rw [hr] at h1
      cases r with
      | ok _ => exact forEachList vars body hb vs (i + 1) s1 h1
      | _ => exact h1

theorem filterMap (vars : List String) (body : Thunk) (hb : I.TOK body) :
    (m : VMap) → (s : St) → I.J s → I.J (filterMap vars body m s).2
  | .nil, _, hs => hs
  | .cons k v m, s, hs => by
    have h1 := I.runKeyValue vars body hb k v s hs
    rw [Lang.filterMap]
    cases hr : Lang.runKeyValue vars body k v s with
    | mk r s1 =>
      rw [hr] at h1
      cases r with
      | ok w =>
        cases w with
        | bool b =>
          have ih := filterMap vars body hb m s1 h1
          simp only
          cases hf : Lang.filterMap vars body m s1 with
          | mk r2 s2 => rw [hf] at ih; cases r2 <;> exact ih
        | _ => exact h1
      | _ => exact h1

theorem filterList (vars : List String) (body : Thunk) (hb : I.TOK body) :
    (a : VList) → (i : Nat) → (s : St) → I.J s → I.J (filterList vars body a i s).2
  | .nil, _, _, hs => hs
  | .cons v vs, i, s, hs => by
    have h1 := I.runIndexValue vars body hb i v s hs
    rw [Lang.filterList]
    cases hr : Lang.runIndexValue vars body i v s with
    | mk r s1 =>
      rw [hr] at h1
      cases r with
      | ok w =>
        cases w with
        | bool b =>
          have ih := filterList vars body hb vs (i + 1) s1 h1
          simp only
          cases hf : Lang.filterList vars body vs (i + 1) s1 with
          | mk r2 s2 => rw [hf] at ih; cases r2 <;> exact ih
        | _ => exact h1
      | _ => exact h1

theorem mapKeysMap (vars : List String) (body : Thunk) (hb : I.TOK body) :
    (m : VMap) → (s : St) → I.J s → I.J (mapKeysMap vars body m s).2
  | .nil, _, hs => hs
  | .cons k v m, s, hs => by
    have h1 := I.mapKey vars body hb k s hs
    rw [Lang.mapKeysMap]
    cases hr : Lang.mapKey vars body k s with
    | mk r s1 =>
      rw [hr] at h1
      cases r with
      | ok k' =>
        have ih := mapKeysMap vars body hb m s1 h1
        simp only
        cases hf : Lang.mapKeysMap vars body m s1 with
        | mk r2 s2 => rw [hf] at ih; cases r2 <;> exact ih
      | error _ => exact h1

theorem mapValuesMap (vars : List String) (body : Thunk) (hb : I.TOK body) :
    (m : VMap) → (s : St) → I.J s → I.J (mapValuesMap vars body m s).2
  | .nil, _, hs => hs
  | .cons k v m, s, hs => by
    have h1 := I.mapValue vars body hb v s hs
    rw [Lang.mapValuesMap]
    cases hr : Lang.mapValue vars body v s with
    | mk r s1 =>
      rw [hr] at h1
      cases r with
      | ok w =>
        have ih := mapValuesMap vars body hb m s1 h1
        simp only
        cases hf : Lang.mapValuesMap vars body m s1 with
        | mk r2 s2 => rw [hf] at ih; cases r2 <;> exact ih
      | _ => exact h1

theorem mapValuesList (vars : List String) (body : Thunk) (hb : I.TOK body) :
    (a : VList) → (s : St) → I.J s → I.J (mapValuesList vars body a s).2
  | .nil, _, hs => hs
  | .cons v vs, s, hs => by
    have h1 := I.mapValue vars body hb v s hs
    rw [Lang.mapValuesList]
    cases hr : Lang.mapValue vars body v s with
    | mk r s1 =>
      rw [hr] at h1
      cases r with
      | ok w =>
        have ih := mapValuesList vars body hb vs s1 h1
        simp only
        cases hf : Lang.mapValuesList vars body vs s1 with
        | mk r2 s2 => rw [hf] at ih; cases r2 <;> exact ih
      | _ => exact h1

/-- all present slot thunks keep the invariant -/
def SlotsOK (slots : List (Option Thunk)) : Prop := ∀ t, some t ∈ slots → I.TOK t

theorem evalSlots : (slots : List (Option Thunk)) → I.SlotsOK slots → (s : St) → I.J s →
    I.J (evalSlots slots s).2
  | [], _, _, hs => hs
  | none :: rest, hsl, s, hs => by
    have ih := evalSlots rest (fun t ht => hsl t (List.mem_cons_of_mem _ ht)) s hs
    rw [Lang.evalSlots]
    cases hr : Lang.evalSlots rest s with | mk r s1 => rw [hr] at ih; cases r <;> exact ih
  | some t :: rest, hsl, s, hs => by
    have h1 := hsl t (List.mem_cons_self) s hs
    rw [Lang.evalSlots]
    cases ht : t s with
    | mk r s1 =>
      rw [ht] at h1
      cases r with
      | ok v =>
        have ih := evalSlots rest (fun t ht => hsl t (List.mem_cons_of_mem _ ht)) s1 h1
        simp only
        cases hr : Lang.evalSlots rest s1 with | mk r2 s2 => rw [hr] at ih; cases r2 <;> exact ih
      | _ => exact h1

/-- every thunk of the argument list keeps the invariant -/
def ArgsOK (args : List (Option String × Thunk)) : Prop := ∀ k t, (k, t) ∈ args → I.TOK t

theorem slotsOK_of_placeArgs (params : List String) (args : List (Option String × Thunk))
    (slots : List (Option Thunk)) (ha : I.ArgsOK args) (h : placeArgs params args = some slots) :
    I.SlotsOK slots := by
  intro t ht
  unfold placeArgs at h
  simp only at h
  split at h
  · cases h
  · rcases fill_mem _ _ _ h t ht with h1 | h1
    · -- a named slot
      simp only [List.mem_map] at h1
      obtain ⟨p, _, hp⟩ := h1
      cases hf : List.find? (fun x => x.fst == p) (List.filterMap (fun x => Option.map (fun x_1 => (x_1, x.snd)) x.fst) args) with
      | none => rw [hf] at hp; cases hp
      | some kt =>
        rw [hf] at hp
        simp only [Option.map_some, Option.some.injEq] at hp
        have hm := List.mem_of_find?_eq_some hf
        simp only [List.mem_filterMap] at hm
        obtain ⟨⟨k, t'⟩, hmem, hk⟩ := hm
        cases k with
        | none => simp at hk
        | some kk =>
          simp at hk
          subst hk
          simp at hp
          subst hp
          exact ha _ _ hmem
    · -- an unnamed argument
      simp only [List.mem_filterMap] at h1
      obtain ⟨⟨k, t'⟩, hmem, hk⟩ := h1
      cases k with
      | none => simp at hk; subst hk; exact ha _ _ hmem
      | some _ => simp at hk

theorem recArg (rec : Option Thunk) (h : ∀ t, rec = some t → I.TOK t) (s : St)
    (hs : I.J s) : I.J (recArg rec s).2 := by
  cases rec with
  | none => exact hs
  | some t => exact h t rfl s hs

theorem mapKeysCall (vars : List String) (body value : Thunk) (hb : I.TOK body)
    (hv : I.TOK value) (rr : Res × St) (hr : I.J rr.2) :
    I.J (mapKeysCall vars body value rr).2 := by
  obtain ⟨r, s0⟩ := rr
  cases r with
  | ok w =>
    cases w with
    | bool bb =>
      cases bb with
      | false =>
        show I.J (Lang.mapKeysCall vars body value (Res.ok (Value.bool false), s0)).2
        unfold Lang.mapKeysCall
        simp only
        have hv' := hv _ hr
        cases hq : value s0 with
        | mk r1 s2 =>
          rw [hq] at hv'
          cases r1 with
          | ok v =>
            cases v with
            | obj m =>
              have := I.mapKeysMap vars body hb m s2 hv'
              simp only
              cases hf : Lang.mapKeysMap vars body m s2 with | mk r2 s3 => rw [hf] at this; cases r2 <;> exact this
            | _ => exact hv'
          | _ => exact hv'
      | true => exact hr
    | _ => exact hr
  | _ => exact hr

theorem mapValuesCall (vars : List String) (body value : Thunk) (hb : I.TOK body)
    (hv : I.TOK value) (rr : Res × St) (hr : I.J rr.2) :
    I.J (mapValuesCall vars body value rr).2 := by
  obtain ⟨r, s0⟩ := rr
  cases r with
  | ok w =>
    cases w with
    | bool bb =>
      cases bb with
      | false =>
        show I.J (Lang.mapValuesCall vars body value (Res.ok (Value.bool false), s0)).2
        unfold Lang.mapValuesCall
        simp only
        have hv' := hv _ hr
        cases hq : value s0 with
        | mk r1 s2 =>
          rw [hq] at hv'
          cases r1 with
          | ok v =>
            cases v with
            | obj m =>
              have := I.mapValuesMap vars body hb m s2 hv'
              simp only
              cases hf : Lang.mapValuesMap vars body m s2 with | mk r2 s3 => rw [hf] at this; cases r2 <;> exact this
            | arr a =>
              have := I.mapValuesList vars body hb a s2 hv'
              simp only
              cases hf : Lang.mapValuesList vars body a s2 with | mk r2 s3 => rw [hf] at this; cases r2 <;> exact this
            | _ => exact I.mapValue vars body hb _ s2 hv'
          | _ => exact hv'
      | true => exact hr
    | _ => exact hr
  | _ => exact hr

/-- a function call keeps the invariant when its argument thunks and its closure body do. -/
theorem callFn (name : String) (args : List (Option String × Thunk))
    (closure : Option (List String × Thunk)) (ha : I.ArgsOK args)
    (hc : ∀ vars body, closure = some (vars, body) → I.TOK body) (s : St) (hs : I.J s) :
    I.J (callFn name args closure s).2 := by
  unfold Lang.callFn
  split
  · exact hs
  · split
    · exact hs
    · rename_i params _ slots hpl
      have hsl := I.slotsOK_of_placeArgs _ args slots ha hpl
      split
      · -- for_each
        rename_i value vars body
        have hb := hc vars body rfl
        have hv := hsl value (by simp) s hs
        cases hr : value s with
        | mk r s1 =>
          rw [hr] at hv
          cases r with
          | ok v =>
            cases v with
            | obj m => exact I.forEachMap vars body hb m s1 hv
            | arr a => exact I.forEachList vars body hb a 0 s1 hv
            | _ => exact hv
          | _ => exact hv
      · -- filter
        rename_i value vars body
        have hb := hc vars body rfl
        have hv := hsl value (by simp) s hs
        cases hr : value s with
        | mk r s1 =>
          rw [hr] at hv
          cases r with
          | ok v =>
            cases v with
            | obj m =>
              have := I.filterMap vars body hb m s1 hv
              simp only
              cases hf : Lang.filterMap vars body m s1 with | mk r2 s2 => rw [hf] at this; cases r2 <;> exact this
            | arr a =>
              have := I.filterList vars body hb a 0 s1 hv
              simp only
              cases hf : Lang.filterList vars body a 0 s1 with | mk r2 s2 => rw [hf] at this; cases r2 <;> exact this
            | _ => exact hv
          | _ => exact hv
      · -- map_keys
        rename_i value rec vars body
        exact I.mapKeysCall vars body value (hc vars body rfl) (hsl value (by simp)) _
          (I.recArg rec (fun t ht => hsl t (by simp [ht])) s hs)
      · -- map_values
        rename_i value rec vars body
        exact I.mapValuesCall vars body value (hc vars body rfl) (hsl value (by simp)) _
          (I.recArg rec (fun t ht => hsl t (by simp [ht])) s hs)
      · -- pure function
        have := I.evalSlots slots hsl s hs
        cases hr : Lang.evalSlots slots s with | mk r s1 => rw [hr] at this; cases r <;> exact this
      · exact hs

end Inv
end Lang
