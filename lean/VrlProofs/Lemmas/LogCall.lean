import VrlProofs.Lemmas.LogFn
namespace Lang
variable {Q A : PL}

theorem logOK_recArg (rec : Option Thunk) (h : ∀ t, rec = some t → TOK Q A t) (s : St)
    (hs : LogOK Q A s) : LogOK Q A (recArg rec s).2 := by
  cases rec with
  | none => exact hs
  | some t => exact h t rfl s hs

theorem logOK_mapKeysCall (vars : List String) (body value : Thunk) (hb : TOK Q A body)
    (hv : TOK Q A value) (rr : Res × St) (hr : LogOK Q A rr.2) :
    LogOK Q A (mapKeysCall vars body value rr).2 := by
  obtain ⟨r, s0⟩ := rr
  cases r with
  | ok w =>
    cases w with
    | bool bb =>
      cases bb with
      | false =>
        show LogOK Q A (mapKeysCall vars body value (Res.ok (Value.bool false), s0)).2
        unfold mapKeysCall
        simp only
        · 
          have hv' := hv _ hr
          cases hq : value s0 with
          | mk r1 s2 =>
            rw [hq] at hv'
            cases r1 with
            | ok v =>
              cases v with
              | obj m =>
                have := logOK_mapKeysMap vars body hb m s2 hv'
                simp only
                cases hf : mapKeysMap vars body m s2 with | mk r2 s3 => rw [hf] at this; cases r2 <;> exact this
              | _ => exact hv'
            | _ => exact hv'
      | true => exact hr
    | _ => exact hr
  | _ => exact hr

theorem logOK_mapValuesCall (vars : List String) (body value : Thunk) (hb : TOK Q A body)
    (hv : TOK Q A value) (rr : Res × St) (hr : LogOK Q A rr.2) :
    LogOK Q A (mapValuesCall vars body value rr).2 := by
  obtain ⟨r, s0⟩ := rr
  cases r with
  | ok w =>
    cases w with
    | bool bb =>
      cases bb with
      | false =>
        show LogOK Q A (mapValuesCall vars body value (Res.ok (Value.bool false), s0)).2
        unfold mapValuesCall
        simp only
        · 
          have hv' := hv _ hr
          cases hq : value s0 with
          | mk r1 s2 =>
            rw [hq] at hv'
            cases r1 with
            | ok v =>
              cases v with
              | obj m =>
                have := logOK_mapValuesMap vars body hb m s2 hv'
                simp only
                cases hf : mapValuesMap vars body m s2 with | mk r2 s3 => rw [hf] at this; cases r2 <;> exact this
              | arr a =>
                have := logOK_mapValuesList vars body hb a s2 hv'
                simp only
                cases hf : mapValuesList vars body a s2 with | mk r2 s3 => rw [hf] at this; cases r2 <;> exact this
              | _ => exact logOK_mapValue vars body hb _ s2 hv'
            | _ => exact hv'
      | true => exact hr
    | _ => exact hr
  | _ => exact hr

/-- a function call keeps the log covered when its argument thunks and its closure body do. -/
theorem logOK_callFn (name : String) (args : List (Option String × Thunk))
    (closure : Option (List String × Thunk)) (ha : ArgsOK Q A args)
    (hc : ∀ vars body, closure = some (vars, body) → TOK Q A body) (s : St) (hs : LogOK Q A s) :
    LogOK Q A (callFn name args closure s).2 := by
  unfold callFn
  split
  · exact hs
  · split
    · exact hs
    · rename_i params _ slots hpl
      have hsl := slotsOK_of_placeArgs (Q := Q) (A := A) _ args slots ha hpl
      split
      · -- for_each
        rename_i value vars body
        have hb := hc vars body rfl
        have hv := hsl value (by simp) s hs
        cases hr : value s with
        | mk r s1 =>
          rw [hr] at hv
          cases r with
          | ok v =>
            cases v with
            | obj m => exact logOK_forEachMap vars body hb m s1 hv
            | arr a => exact logOK_forEachList vars body hb a 0 s1 hv
            | _ => exact hv
          | _ => exact hv
      · -- filter
        rename_i value vars body
        have hb := hc vars body rfl
        have hv := hsl value (by simp) s hs
        cases hr : value s with
        | mk r s1 =>
          rw [hr] at hv
          cases r with
          | ok v =>
            cases v with
            | obj m =>
              have := logOK_filterMap vars body hb m s1 hv
              simp only
              cases hf : filterMap vars body m s1 with | mk r2 s2 => rw [hf] at this; cases r2 <;> exact this
            | arr a =>
              have := logOK_filterList vars body hb a 0 s1 hv
              simp only
              cases hf : filterList vars body a 0 s1 with | mk r2 s2 => rw [hf] at this; cases r2 <;> exact this
            | _ => exact hv
          | _ => exact hv
      · -- map_keys
        rename_i value rec vars body
        exact logOK_mapKeysCall vars body value (hc vars body rfl) (hsl value (by simp)) _
          (logOK_recArg rec (fun t ht => hsl t (by simp [ht])) s hs)
      · -- map_values
        rename_i value rec vars body
        exact logOK_mapValuesCall vars body value (hc vars body rfl) (hsl value (by simp)) _
          (logOK_recArg rec (fun t ht => hsl t (by simp [ht])) s hs)
      · -- pure function
        have := logOK_evalSlots slots hsl s hs
        cases hr : evalSlots slots s with | mk r s1 => rw [hr] at this; cases r <;> exact this
      · exact hs
end Lang
