import VrlProofs.Lemmas.TypeOps
import VrlProofs.Lemmas.TypeState

/-! `Op::type_info` against `Op::resolve` for the operators that evaluate both operands first. -/

namespace Lang
open Spec

/-- the opcodes whose operands are both evaluated first -/
def strictOp : Opcode → Bool
  | .err | .or | .and => false
  | _ => true

theorem eval_op_strict (o : Opcode) (ho : strictOp o = true) (l r : Expr) (s : St) :
    eval (.op o l r) s =
      (match eval l s with
       | (.ok v, s) =>
         (match eval r s with
          | (.ok w, s) => (binop o v w, s)
          | r => r)
       | r => r) := by
  cases o <;> first
    | (simp [strictOp] at ho; done)
    | (rw [eval]
       · rfl
       all_goals (intro hc; cases hc))

theorem mem_chk_nan {b : Bool} (h : b = false) : Chk.nan ∈ chk .nan b := by
  subst h; simp [chk]

/-- value-level soundness of `Op::type_info` for the strict operators -/
theorem binop_sound (o : Opcode) (ho : strictOp o = true) (v w : Value) (l r : TypeDef)
    (lv rv : Option Value) (T1 Tr : TState)
    (hv : memR v l.kind = true) (hw : memR w r.kind = true) (hvs : v.Sorted = true) (hws : w.Sorted = true)
    (hrv : ∀ c, rv = some c → w = c) (hchk : AllNan (opChecks o l lv T1 r Tr)) :
    (∀ x, binop o v w = .ok x → memR x (opDef o l lv r rv).kind = true ∧ x.Sorted = true) ∧
    (binop o v w = .err → (opDef o l lv r rv).fallible = true ∨ Chk.nan ∈ opChecks o l lv T1 r Tr) := by
  cases o
  case err => simp [strictOp] at ho
  case or => simp [strictOp] at ho
  case and => simp [strictOp] at ho
  case eq =>
    refine ⟨fun x hx => ?_, fun he => by simp [binop] at he⟩
    simp only [binop, Res.ok.injEq] at hx; subst hx
    exact ⟨memR_bool _, rfl⟩
  case ne =>
    refine ⟨fun x hx => ?_, fun he => by simp [binop] at he⟩
    simp only [binop, Res.ok.injEq] at hx; subst hx
    exact ⟨memR_bool _, rfl⟩
  case gt =>
    have := cmp_sound .gt v w l r hv hw
    refine ⟨fun x hx => ?_, fun he => Or.inl (this.2 he)⟩
    obtain ⟨b, rfl⟩ := this.1 x hx
    simp only [opDef]; split <;> exact ⟨memR_bool _, rfl⟩
  case ge =>
    have := cmp_sound .ge v w l r hv hw
    refine ⟨fun x hx => ?_, fun he => Or.inl (this.2 he)⟩
    obtain ⟨b, rfl⟩ := this.1 x hx
    simp only [opDef]; split <;> exact ⟨memR_bool _, rfl⟩
  case lt =>
    have := cmp_sound .lt v w l r hv hw
    refine ⟨fun x hx => ?_, fun he => Or.inl (this.2 he)⟩
    obtain ⟨b, rfl⟩ := this.1 x hx
    simp only [opDef]; split <;> exact ⟨memR_bool _, rfl⟩
  case le =>
    have := cmp_sound .le v w l r hv hw
    refine ⟨fun x hx => ?_, fun he => Or.inl (this.2 he)⟩
    obtain ⟨b, rfl⟩ := this.1 x hx
    simp only [opDef]; split <;> exact ⟨memR_bool _, rfl⟩
  case add =>
    have := arith_sound .add (Or.inl rfl) v w l r (constNaN .add lv rv) hv hw
    refine ⟨fun x hx => this.1 x (ofArith_ok hx), fun he => ?_⟩
    obtain ⟨e, he'⟩ := ofArith_err he
    rcases this.2 e he' with h | ⟨_, h⟩
    · exact Or.inl h
    · right
      simp only [opChecks]
      apply List.mem_append_right
      apply mem_chk_nan
      rw [arithDef_kind_nf] at h
      simp [isArith, h]
  case sub =>
    have := arith_sound .sub (Or.inr (Or.inl rfl)) v w l r (constNaN .sub lv rv) hv hw
    refine ⟨fun x hx => this.1 x (ofArith_ok hx), fun he => ?_⟩
    obtain ⟨e, he'⟩ := ofArith_err he
    rcases this.2 e he' with h | ⟨_, h⟩
    · exact Or.inl h
    · right
      simp only [opChecks]
      apply List.mem_append_right
      apply mem_chk_nan
      rw [arithDef_kind_nf] at h
      simp [isArith, h]
  case mul =>
    have := arith_sound .mul (Or.inr (Or.inr rfl)) v w l r (constNaN .mul lv rv) hv hw
    refine ⟨fun x hx => this.1 x (ofArith_ok hx), fun he => ?_⟩
    obtain ⟨e, he'⟩ := ofArith_err he
    rcases this.2 e he' with h | ⟨_, h⟩
    · exact Or.inl h
    · right
      simp only [opChecks]
      apply List.mem_append_right
      apply mem_chk_nan
      rw [arithDef_kind_nf] at h
      simp [isArith, h]
  case div =>
    have := div_sound v w l rv hv hrv
    refine ⟨fun x hx => ?_, fun _ => ?_⟩
    · obtain ⟨b, rfl⟩ := this.1 x (ofArith_ok hx)
      simp only [opDef]; split <;> exact ⟨memR_float _, rfl⟩
    · right
      simp only [opChecks]
      apply List.mem_append_right
      simp [chk]
  case merge =>
    simp only [opChecks, allNan_append] at hchk
    rw [allNan_chk (by decide), allNan_chk (by decide)] at hchk
    obtain ⟨a, b, rfl, rfl, hm, hs⟩ := merge_sound v w l.kind r.kind hv hw hvs hws hchk.1.1 hchk.1.2
    refine ⟨fun x hx => ?_, fun he => by simp [binop, Arith.tryMerge, ofArith] at he⟩
    simp only [binop, Arith.tryMerge, ofArith, Res.ok.injEq] at hx
    subst hx
    exact ⟨memR_of_mem hm, hs⟩

theorem arithDef_returns (o : Opcode) (l r : TypeDef) (nf : Bool) :
    (arithDef o l r nf).returns = l.returns.union r.returns := by
  unfold arithDef
  repeat' split
  all_goals simp [TypeDef.fallibleUnless_returns]

theorem arithDef_fallible_l (o : Opcode) (l r : TypeDef) (nf : Bool) (h : l.fallible = true) :
    (arithDef o l r nf).fallible = true := by
  unfold arithDef
  repeat' split
  all_goals simp [TypeDef.fallibleUnless_mono _ _ h, h]

theorem arithDef_fallible_r (o : Opcode) (l r : TypeDef) (nf : Bool) (h : r.fallible = true) :
    (arithDef o l r nf).fallible = true := by
  unfold arithDef
  repeat' split
  all_goals simp [TypeDef.fallibleUnless_mono _ _ h, h]

/-- strict operators keep what their operands may `return` -/
theorem opDef_strict_returns (o : Opcode) (ho : strictOp o = true) (l r : TypeDef)
    (lv rv : Option Value) : (opDef o l lv r rv).returns = l.returns.union r.returns := by
  cases o <;> first
    | (simp [strictOp] at ho; done)
    | exact arithDef_returns _ l r _
    | (simp only [opDef]; first | rfl | (split <;> simp [TypeDef.fallibleUnless_returns]))

/-- … and the fallibility of their operands -/
theorem opDef_strict_fallible (o : Opcode) (ho : strictOp o = true) (l r : TypeDef)
    (lv rv : Option Value) (h : l.fallible = true ∨ r.fallible = true) :
    (opDef o l lv r rv).fallible = true := by
  cases o <;> first
    | (simp [strictOp] at ho; done)
    | (rcases h with h | h
       · exact arithDef_fallible_l _ l r _ h
       · exact arithDef_fallible_r _ l r _ h)
    | (simp only [opDef]
       first
         | ((rcases h with h | h <;> simp [TypeDef.mergeOverwrite, h]); done)
         | ((split <;> rcases h with h | h <;> simp [TypeDef.fallibleUnless_mono _ _ h, h]); done))

theorem opState_strict (o : Opcode) (ho : strictOp o = true) (l : TypeDef) (lv : Option Value) (T1 Tr : TState) :
    opState o l lv T1 Tr = Tr := by
  cases o <;> first | (simp [strictOp] at ho; done) | rfl

/-- the side conditions of every strict operator include the union of the operands' `returns` -/
theorem opChecks_strict_returns (o : Opcode) (ho : strictOp o = true) (l r : TypeDef) (lv : Option Value)
    (T1 Tr : TState) (h : AllNan (opChecks o l lv T1 r Tr)) : unionOk l.returns r.returns = true := by
  cases o <;> first
    | (simp [strictOp] at ho; done)
    | (simp only [opChecks, allNan_append] at h
       first
         | (rw [allNan_chk (by decide)] at h; exact h.1)
         | (have := h.2; rwa [allNan_chk (by decide)] at this))

theorem ofArith_shape (r : Arith.Res Value) : (∃ x, ofArith r = .ok x) ∨ ofArith r = .err ∨ ofArith r = .panic := by
  cases r
  · exact Or.inl ⟨_, rfl⟩
  · exact Or.inr (Or.inl rfl)
  · exact Or.inr (Or.inr rfl)

theorem binop_shape (o : Opcode) (v w : Value) :
    (∃ x, binop o v w = .ok x) ∨ binop o v w = .err ∨ binop o v w = .panic := by
  cases o <;> unfold binop <;> first
    | exact ofArith_shape _
    | exact Or.inl ⟨_, rfl⟩
    | exact Or.inr (Or.inr rfl)

theorem tryAnd_shape (v w : Value) :
    (∃ b, tryAnd v w = .ok (.bool b)) ∨ tryAnd v w = .err := by
  cases v <;> cases w <;> simp [tryAnd, Arith.tryAnd, ofArith]

end Lang
