/-
  Helper lemmas for C25 (flatten / unflatten), part 4: one level of `do_unflatten_entries` on a
  permutation of what `flatten` yields rebuilds the object; induction on the depth bound.
-/
import VrlProofs.Lemmas.C25Flat

namespace Conv.Flat
open C25

theorem unflattenStep_eq (recur : Entries → Option VMap) (sep : Key) (r : Bool) (es : Entries) :
    unflattenStep recur sep r es =
      ((dedup ((triplesOf sep es).map (·.1))).mapM fun h =>
        (groupValueWith recur sep r ((triplesOf sep es).filter fun t => t.1 == h)).map
          fun v => (h, v)).map ofList := rfl

/-- the value `do_unflatten_entries` builds for the head `h` is the field `h` of the object. -/
theorem groupValue_spec (sep : Key) (hne : sep ≠ []) (r : Bool) (fuel : Nat)
    (recur : Entries → Option VMap)
    (hrec : ∀ m' es', flatOKM sep m' = true → es'.Perm (F sep m') → es' ≠ [] →
      (∀ e ∈ es', e.1.length < fuel) → recur es' = some m')
    (m : VMap) (es : Entries) (hok : flatOKM sep m = true) (hp : es.Perm (F sep m))
    (hlen : ∀ e ∈ es, e.1.length < fuel + 1) (h : Key) (v : Value) (hv : m.get h = some v) :
    groupValueWith recur sep r ((triplesOf sep es).filter fun t => t.1 == h) = some v := by
  obtain ⟨hvok, hk⟩ := get_flatOK sep m h v hok hv
  have hT : ((triplesOf sep es).filter fun t => t.1 == h).Perm
      (triplesOf sep (fieldEntries sep h v)) := by
    have h1 : (triplesOf sep es).Perm (triplesOf sep (F sep m)) := hp.map _
    have h2 := h1.filter (fun t => t.1 == h)
    rw [filter_head sep hne m hok h, hv] at h2
    exact h2
  by_cases hobj : isObj v = false
  · -- a leaf: the group is the single entry `h: v`
    rw [triplesOf_field_leaf sep h v hne hk hobj] at hT
    rw [List.perm_singleton.mp hT]
    simp only [groupValueWith]
    exact leafWith_leaf recur r v hobj
  · -- a nested object
    cases v with
    | obj m' =>
      simp only [flatOKV, Bool.and_eq_true, Bool.not_eq_true'] at hvok
      obtain ⟨hm'ne, hm'ok⟩ := hvok
      rw [triplesOf_field_obj sep h m' hk] at hT
      have hFne := F_ne_nil sep m' hm'ne hm'ok
      -- the entries with a rest, as `do_unflatten_entries` passes them on
      have hφ : ∀ (l : Entries),
          (l.map fun e => ((h, some e.1, e.2) : Triple)).filterMap
            (fun t => t.2.1.map fun r => (r, t.2.2)) = l := by
        intro l
        induction l with
        | nil => rfl
        | cons a l ih => simp [List.filterMap_cons, ih]
      cases hg : (triplesOf sep es).filter (fun t => t.1 == h) with
      | nil =>
        rw [hg] at hT
        have := hT.length_eq
        cases hF : F sep m' with
        | nil => exact absurd hF hFne
        | cons a l => simp [hF] at this
      | cons t1 ts =>
        cases ts with
        | nil =>
          -- exactly one entry: `do_unflatten_entry`
          rw [hg] at hT
          have hsingle := (List.perm_singleton.mp hT.symm)
          cases hF : F sep m' with
          | nil => exact absurd hF hFne
          | cons e l =>
            rw [hF] at hsingle
            simp only [List.map_cons, List.cons.injEq, List.map_eq_nil_iff] at hsingle
            obtain ⟨ht1, hl⟩ := hsingle
            subst hl
            rw [← ht1]
            simp only [groupValueWith]
            have hleaf := F_leaf sep m' e (by rw [hF]; simp)
            rw [leafWith_leaf recur r e.2 hleaf]
            simp only [Option.map_some, Option.some.injEq]
            exact chain_map sep hne m' hm'ok e hF
        | cons t2 ts =>
          -- several entries: recurse on the rests
          have hgv : groupValueWith recur sep r (t1 :: t2 :: ts) =
              (recur ((t1 :: t2 :: ts).filterMap fun t => t.2.1.map fun r => (r, t.2.2))).map .obj := by
            simp only [groupValueWith]
          rw [hgv]
          rw [hg] at hT
          have hperm : ((t1 :: t2 :: ts).filterMap fun t => t.2.1.map fun r => (r, t.2.2)).Perm
              (F sep m') := by
            have := hT.filterMap (fun t => t.2.1.map fun r => (r, t.2.2))
            rw [hφ] at this
            exact this
          have hnonempty : ((t1 :: t2 :: ts).filterMap fun t => t.2.1.map fun r => (r, t.2.2)) ≠ [] := by
            intro hnil
            rw [hnil] at hperm
            exact hFne (List.perm_nil.mp hperm.symm)
          have hbound : ∀ e ∈ ((t1 :: t2 :: ts).filterMap fun t => t.2.1.map fun r => (r, t.2.2)),
              e.1.length < fuel := by
            intro e he
            have he' : e ∈ F sep m' := hperm.mem_iff.mp he
            have hin : pfx sep h e ∈ F sep m :=
              field_sub_F sep m h (.obj m') hv _ (by
                simp only [fieldEntries, List.mem_map]; exact ⟨e, he', rfl⟩)
            have := hlen _ (hp.mem_iff.mpr hin)
            have hsl : 0 < sep.length := by cases sep <;> simp_all
            simp only [pfx, List.length_append] at this
            omega
          rw [hrec m' _ hm'ok hperm hnonempty hbound]
          rfl
    | _ => simp [isObj] at hobj

/-- one level of `do_unflatten_entries` on a permutation of `flatten`'s entries for `m`. -/
theorem unflattenStep_spec (sep : Key) (hne : sep ≠ []) (r : Bool) (fuel : Nat)
    (recur : Entries → Option VMap)
    (hrec : ∀ m' es', flatOKM sep m' = true → es'.Perm (F sep m') → es' ≠ [] →
      (∀ e ∈ es', e.1.length < fuel) → recur es' = some m')
    (m : VMap) (es : Entries) (hok : flatOKM sep m = true) (hp : es.Perm (F sep m))
    (hlen : ∀ e ∈ es, e.1.length < fuel + 1) :
    unflattenStep recur sep r es = some m := by
  rw [unflattenStep_eq]
  -- heads of the entries = fields of `m`
  have hheads : ∀ h, h ∈ (triplesOf sep es).map (·.1) ↔ ∃ v, m.get h = some v := by
    intro h
    have h1 : ((triplesOf sep es).map (·.1)).Perm ((triplesOf sep (F sep m)).map (·.1)) :=
      (hp.map _).map _
    rw [h1.mem_iff]
    exact head_mem_iff sep hne m hok h
  let val : Key → Value := fun h => (m.get h).getD .null
  have hgv : ∀ h ∈ dedup ((triplesOf sep es).map (·.1)),
      (groupValueWith recur sep r ((triplesOf sep es).filter fun t => t.1 == h)).map
        (fun v => (h, v)) = some (h, val h) := by
    intro h hh
    obtain ⟨v, hv⟩ := (hheads h).mp ((mem_dedup _ h).mp hh)
    rw [groupValue_spec sep hne r fuel recur hrec m es hok hp hlen h v hv]
    simp [val, hv]
  rw [mapM_some _ (fun h => (h, val h)) _ hgv]
  simp only [Option.map_some, Option.some.injEq]
  -- the collected map has the same `get` as `m`
  apply ext_ksorted _ _ (ksorted_ofList _) (ksorted_of_flatOKM sep m hok)
  intro k
  have hkeys : ((dedup ((triplesOf sep es).map (·.1))).map fun h => (h, val h)).map (·.1)
      = dedup ((triplesOf sep es).map (·.1)) := by
    simp [List.map_map, Function.comp_def]
  cases hk : m.get k with
  | some v =>
    have hmem : k ∈ dedup ((triplesOf sep es).map (·.1)) :=
      (mem_dedup _ k).mpr ((hheads k).mpr ⟨v, hk⟩)
    have := get_ofList_in ((dedup ((triplesOf sep es).map (·.1))).map fun h => (h, val h)) k (val k)
      (by rw [hkeys]; exact nodup_dedup _) (List.mem_map.mpr ⟨k, hmem, rfl⟩)
    rw [this]
    simp [val, hk]
  | none =>
    apply get_ofList_notin
    rw [hkeys]
    intro hmem
    obtain ⟨v, hv⟩ := (hheads k).mp ((mem_dedup _ k).mp hmem)
    rw [hk] at hv
    cases hv

/-- `do_unflatten_entries` with enough depth rebuilds `m` from any permutation of its flattening -/
theorem unflattenEntries_spec (sep : Key) (hne : sep ≠ []) (r : Bool) : ∀ (fuel : Nat) (m : VMap)
    (es : Entries), flatOKM sep m = true → es.Perm (F sep m) → es ≠ [] →
    (∀ e ∈ es, e.1.length < fuel) → unflattenEntries fuel sep r es = some m := by
  intro fuel
  induction fuel with
  | zero =>
    intro m es _ _ hne' hlen
    cases es with
    | nil => exact absurd rfl hne'
    | cons e es => exact absurd (hlen e (by simp)) (by omega)
  | succ fuel ih =>
    intro m es hok hp _ hlen
    simp only [unflattenEntries]
    exact unflattenStep_spec sep hne r fuel _ (fun m' es' h1 h2 h3 h4 => ih m' es' h1 h2 h3 h4)
      m es hok hp hlen

theorem key_lt_weightM : (m : VMap) → ∀ e ∈ toList m, e.1.length < weightM m
  | .nil => by intro e he; simp [toList] at he
  | .cons k v rest => by
    intro e he
    simp only [toList, List.mem_cons] at he
    simp only [weightM]
    rcases he with he | he
    · subst he; simp; omega
    · have := key_lt_weightM rest e he
      omega

end Conv.Flat
