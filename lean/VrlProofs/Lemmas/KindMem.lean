import VrlProofs.Lemmas.Kind

/-! The "get view" of membership: `mem` on arrays/objects restated through lookups, and
    `mem_kindOf`. -/

namespace VMap

theorem allGt_get : (m : VMap) → (k q : List Nat) → (y : Value) → allGt k m = true →
    m.get q = some y → Key.lt k q = true
  | .nil, _, _, _, _, h => by simp [VMap.get] at h
  | .cons l w m, k, q, y, hg, h => by
    simp only [allGt, Bool.and_eq_true] at hg
    simp only [VMap.get] at h
    split at h
    · rename_i hl; subst hl; exact hg.1
    · exact allGt_get m k q y hg.2 h

theorem allGt_get_ne (m : VMap) (k q : List Nat) (y : Value) (hg : allGt k m = true)
    (h : m.get q = some y) : k ≠ q :=
  Key.lt_ne k q (allGt_get m k q y hg h)

end VMap

namespace Spec

/-! ### get view -/

theorem memList_iff : (xs : VList) → (i : Nat) → (c : Col) →
    (memList xs i c = true ↔
      ∀ j x, xs.getN j = some x → mem x (slotKind c (Key.ofIdx (i + j))) = true)
  | .nil, i, c => by simp [memList, VList.getN]
  | .cons x xs, i, c => by
    simp only [memList, Bool.and_eq_true, memList_iff xs (i + 1) c]
    constructor
    · rintro ⟨h0, hr⟩ j y hj
      cases j with
      | zero => simp only [VList.getN] at hj; cases hj; simpa using h0
      | succ j =>
        simp only [VList.getN] at hj
        have := hr j y hj
        rwa [show i + 1 + j = i + (j + 1) by omega] at this
    · intro h
      refine ⟨by simpa using h 0 x rfl, ?_⟩
      intro j y hj
      have := h (j + 1) y (by simpa [VList.getN] using hj)
      rwa [show i + (j + 1) = i + 1 + j by omega] at this

theorem memMap_of_get : (m : VMap) → (c : Col) → memMap m c = true →
    ∀ k x, m.get k = some x → mem x (slotKind c k) = true
  | .nil, _, _, _, _, h => by simp [VMap.get] at h
  | .cons l w m, c, hm, k, x, h => by
    simp only [memMap, Bool.and_eq_true] at hm
    simp only [VMap.get] at h
    split at h
    · rename_i hl; subst hl; cases h; exact hm.1
    · exact memMap_of_get m c hm.2 k x h

/-- spine sortedness of an object (keys strictly increasing at the top level). -/
def _root_.VMap.SortedKeys : VMap → Bool
  | .nil => true
  | .cons k _ m => VMap.allGt k m && VMap.SortedKeys m

theorem _root_.VMap.sortedKeys_of_sorted : (m : VMap) → m.Sorted = true → m.SortedKeys = true
  | .nil, _ => rfl
  | .cons k v m, h => by
    simp only [VMap.Sorted, Bool.and_eq_true] at h
    simp [VMap.SortedKeys, h.1.2, VMap.sortedKeys_of_sorted m h.2]

theorem memMap_of_forall : (m : VMap) → (c : Col) → m.SortedKeys = true →
    (∀ k x, m.get k = some x → mem x (slotKind c k) = true) → memMap m c = true
  | .nil, _, _, _ => rfl
  | .cons l w m, c, hs, h => by
    simp only [VMap.SortedKeys, Bool.and_eq_true] at hs
    simp only [memMap, Bool.and_eq_true]
    refine ⟨h l w (by simp [VMap.get]), memMap_of_forall m c hs.2 ?_⟩
    intro k x hk
    apply h k x
    have hne := VMap.allGt_get_ne m l k x hs.1 hk
    simp [VMap.get, hne, hk]

theorem memMap_iff (m : VMap) (c : Col) (hs : m.SortedKeys = true) :
    memMap m c = true ↔ ∀ k x, m.get k = some x → mem x (slotKind c k) = true :=
  ⟨memMap_of_get m c, memMap_of_forall m c hs⟩

theorem knownKind_of_get {kn : KList} {k : Key} {K : Kind} (h : kn.get k = some K) :
    knownKind kn k = K := by simp [knownKind, h]

theorem absentKeysOk_iff (m : VMap) (kn : KList) :
    absentKeysOk m kn = true ↔
      ∀ k K, kn.get k = some K → m.get k = none → K.prim.undefined = true := by
  unfold absentKeysOk
  rw [List.all_eq_true]
  constructor
  · intro h k K hk hm
    have := h k (KList.mem_keys_of_get kn k K hk)
    simpa [hm, knownKind_of_get hk, admitsUndefined] using this
  · intro h k hk
    have hs := KList.get_isSome_of_mem_keys kn k hk
    cases hg : kn.get k with
    | none => simp [hg] at hs
    | some K =>
      cases hm : m.get k with
      | some _ => simp
      | none => simpa [knownKind_of_get hg, admitsUndefined] using h k K hg hm

theorem absentIdxOk_iff (len : Nat) (kn : KList) :
    absentIdxOk len kn = true ↔
      ∀ k K, kn.get k = some K → len ≤ k.idx → K.prim.undefined = true := by
  unfold absentIdxOk
  rw [List.all_eq_true]
  constructor
  · intro h k K hk hl
    have := h k (KList.mem_keys_of_get kn k K hk)
    simpa [Nat.not_lt.mpr hl, knownKind_of_get hk, admitsUndefined] using this
  · intro h k hk
    have hs := KList.get_isSome_of_mem_keys kn k hk
    cases hg : kn.get k with
    | none => simp [hg] at hs
    | some K =>
      by_cases hl : k.idx < len
      · simp [hl]
      · simpa [hl, knownKind_of_get hg, admitsUndefined] using h k K hg (Nat.not_lt.mp hl)

theorem mem_arr_iff (xs : VList) (K : Kind) :
    mem (.arr xs) K = true ↔ ∃ c, K.array = some c ∧
      (∀ j x, xs.getN j = some x → mem x (slotKind c (Key.ofIdx j)) = true) ∧
      (∀ k K', c.known.get k = some K' → xs.length ≤ k.idx → K'.prim.undefined = true) := by
  cases K with
  | mk p a o =>
    cases a with
    | none => simp [mem, Kind.hasArr, Kind.array]
    | some c =>
      simp only [mem, Kind.hasArr, arrayD, Kind.array, Option.getD_some, Bool.true_and,
        Bool.and_eq_true, memList_iff, absentIdxOk_iff, Nat.zero_add]
      constructor
      · rintro ⟨h1, h2⟩; exact ⟨c, rfl, h1, h2⟩
      · rintro ⟨c', hc, h1, h2⟩; cases hc; exact ⟨h1, h2⟩

theorem mem_obj_iff (m : VMap) (K : Kind) (hs : m.SortedKeys = true) :
    mem (.obj m) K = true ↔ ∃ c, K.object = some c ∧
      (∀ k x, m.get k = some x → mem x (slotKind c k) = true) ∧
      (∀ k K', c.known.get k = some K' → m.get k = none → K'.prim.undefined = true) := by
  cases K with
  | mk p a o =>
    cases o with
    | none => simp [mem, Kind.hasObj, Kind.object]
    | some c =>
      simp only [mem, Kind.hasObj, objectD, Kind.object, Option.getD_some, Bool.true_and,
        Bool.and_eq_true, memMap_iff m c hs, absentKeysOk_iff]
      constructor
      · rintro ⟨h1, h2⟩; exact ⟨c, rfl, h1, h2⟩
      · rintro ⟨c', hc, h1, h2⟩; cases hc; exact ⟨h1, h2⟩

/-! ### `Kind::from(&Value)` describes its value -/

theorem kindsFrom_get : (xs : VList) → (i j : Nat) →
    (VList.kindsFrom xs i).get (Key.ofIdx (i + j)) = (xs.getN j).map Value.kindOf
  | .nil, _, _ => rfl
  | .cons x xs, i, j => by
    cases j with
    | zero => simp [VList.kindsFrom, KList.get, VList.getN]
    | succ j =>
      have h : Key.ofIdx i ≠ Key.ofIdx (i + (j + 1)) := by simp [Key.ofIdx]
      simp only [VList.kindsFrom, KList.get, h, if_false, VList.getN]
      rw [show i + (j + 1) = i + 1 + j by omega]
      exact kindsFrom_get xs (i + 1) j

theorem kindsFrom_get_idx : (xs : VList) → (i : Nat) → (k : Key) → (K : Kind) →
    (VList.kindsFrom xs i).get k = some K → k.idx < i + xs.length
  | .nil, _, _, _, h => by simp [VList.kindsFrom, KList.get] at h
  | .cons x xs, i, k, K, h => by
    simp only [VList.kindsFrom, KList.get] at h
    split at h
    · rename_i hk; subst hk; simp [Key.ofIdx, Key.idx, VList.length]
    · have := kindsFrom_get_idx xs (i + 1) k K h
      simp only [VList.length]; omega

theorem kinds_get : (m : VMap) → (k : Key) → (VMap.kinds m).get k = (m.get k).map Value.kindOf
  | .nil, _ => rfl
  | .cons l w m, k => by
    simp only [VMap.kinds, KList.get, VMap.get]
    split
    · rfl
    · exact kinds_get m k

mutual
  theorem mem_kindOf : (v : Value) → v.Sorted = true → mem v v.kindOf = true
    | .null, _ => rfl
    | .bool _, _ => rfl
    | .int _, _ => rfl
    | .float _, _ => rfl
    | .bytes _, _ => rfl
    | .ts _, _ => rfl
    | .regex _, _ => rfl
    | .arr xs, h => by
      simp only [Value.Sorted] at h
      simp only [mem, Value.kindOf, Kind.ofArray, Kind.hasArr, arrayD, Kind.array, Option.getD_some,
        Bool.true_and, Bool.and_eq_true]
      refine ⟨memList_kindOf xs h 0 _ ?_, ?_⟩
      · intro j x hj
        have hg := kindsFrom_get xs 0 j
        rw [Nat.zero_add] at hg
        simp [slotKind, Col.ofKnown, Col.known, hg, hj]
      · rw [absentIdxOk_iff]
        intro k K hk hl
        have := kindsFrom_get_idx xs 0 k K (by simpa [Col.ofKnown, Col.known] using hk)
        omega
    | .obj m, h => by
      simp only [Value.Sorted] at h
      simp only [mem, Value.kindOf, Kind.ofObject, Kind.hasObj, objectD, Kind.object,
        Option.getD_some, Bool.true_and, Bool.and_eq_true]
      refine ⟨memMap_kindOf m h _ ?_, ?_⟩
      · intro k x hk
        simp [slotKind, Col.ofKnown, Col.known, kinds_get m k, hk]
      · rw [absentKeysOk_iff]
        intro k K hk hm
        simp [Col.ofKnown, Col.known, kinds_get m k, hm] at hk
  theorem memList_kindOf : (xs : VList) → xs.Sorted = true → ∀ (i : Nat) (c : Col),
      (∀ j x, xs.getN j = some x → slotKind c (Key.ofIdx (i + j)) = x.kindOf) →
      memList xs i c = true
    | .nil, _, _, _, _ => rfl
    | .cons x xs, h, i, c, hc => by
      simp only [VList.Sorted, Bool.and_eq_true] at h
      simp only [memList, Bool.and_eq_true]
      refine ⟨?_, memList_kindOf xs h.2 (i + 1) c ?_⟩
      · have := hc 0 x rfl
        rw [Nat.add_zero] at this
        rw [this]; exact mem_kindOf x h.1
      · intro j y hj
        have := hc (j + 1) y (by simpa [VList.getN] using hj)
        rwa [show i + (j + 1) = i + 1 + j by omega] at this
  theorem memMap_kindOf : (m : VMap) → m.Sorted = true → ∀ (c : Col),
      (∀ k x, m.get k = some x → slotKind c k = x.kindOf) → memMap m c = true
    | .nil, _, _, _ => rfl
    | .cons l w m, h, c, hc => by
      simp only [VMap.Sorted, Bool.and_eq_true] at h
      simp only [memMap, Bool.and_eq_true]
      refine ⟨?_, memMap_kindOf m h.2 c ?_⟩
      · rw [hc l w (by simp [VMap.get])]; exact mem_kindOf w h.1.1
      · intro k x hk
        apply hc k x
        have hne := VMap.allGt_get_ne m l k x h.1.2 hk
        simp [VMap.get, hne, hk]
end

end Spec
