/-
  Sanity instance of the abstract invariant induction (Lemmas/Inv.lean, Lemmas/InvEval.lean): the C16
  log-coverage invariant `LogOK Q A` is an `Inv`, and `Lang.run_inv` specialises to C16's main
  theorem (`run_covered_inv` has the statement of `C16.run_covered`; the original proof in
  Props/C16.lean is kept as it is). `del` paths are reported among the queries (`delsS_sub`).
-/
import VrlProofs.Lemmas.InvEval
import VrlProofs.Lemmas.LogCall

namespace Lang

/-- reads and removals covered by `Q`, inserts by `A` -/
def logInv (Q A : PL) : Inv where
  J := LogOK Q A
  G := fun x => x ∈ Q
  W := fun x => x ∈ A
  D := fun x => x ∈ Q
  stable := fun _ _ _ _ hl hs => logOK_of_log_eq hl hs
  get := fun s m p hq hs => logOK_targetGet s m p hs hq
  ins := fun s s' m p v ha hs hi => logOK_targetInsert s s' m p v hs ha hi
  rem := fun s m p c hq hs => logOK_targetRemove s m p c hs hq

mutual
  theorem delsE_sub : (e : Expr) → ∀ x ∈ delsE e, x ∈ queriesE e
    | .lit _, x, h | .noop, x, h | .var _, x, h | .qvar _ _, x, h | .existsVar _ _, x, h
    | .qext _ _, x, h | .existsExt _ _, x, h => by simp [delsE] at h
    | .grp e, x, h | .not e, x, h | .ret e, x, h | .qexpr e _, x, h | .existsExpr e _, x, h
    | .asg _ e, x, h | .iasg _ _ e _, x, h | .abort _ e, x, h => by
      simp only [delsE] at h; simp only [queriesE]; exact delsE_sub e x h
    | .blk es, x, h | .arr es, x, h => by
      simp only [delsE] at h; simp only [queriesE]; exact delsS_sub es x h
    | .obj kvs, x, h => by
      simp only [delsE] at h; simp only [queriesE]; exact delsK_sub kvs x h
    | .ifte p t _ e, x, h => by
      simp only [delsE, List.mem_append] at h
      simp only [queriesE, List.mem_append]
      rcases h with (h | h) | h
      · exact .inl (.inl (delsS_sub p x h))
      · exact .inl (.inr (delsS_sub t x h))
      · exact .inr (delsS_sub e x h)
    | .op _ l r, x, h => by
      simp only [delsE, List.mem_append] at h
      simp only [queriesE, List.mem_append]
      rcases h with h | h
      · exact .inl (delsE_sub l x h)
      · exact .inr (delsE_sub r x h)
    | .delExt m p _ c, x, h => by
      simp only [delsE, List.mem_cons] at h
      simp only [queriesE, List.mem_cons]
      rcases h with h | h
      · exact .inl h
      · exact .inr (delsE_sub c x h)
    | .delVar _ _ _ c, x, h => by
      simp only [delsE] at h; simp only [queriesE]; exact delsE_sub c x h
    | .delExpr e _ _ c, x, h => by
      simp only [delsE, List.mem_append] at h
      simp only [queriesE, List.mem_append]
      rcases h with h | h
      · exact .inl (delsE_sub e x h)
      · exact .inr (delsE_sub c x h)
    | .call name _ _ args _ _ body, x, h => by
      simp only [delsE, List.mem_append] at h
      simp only [queriesE, List.mem_append]
      rcases h with h | h
      · exact .inl (.inr (delsA_sub args x h))
      · exact .inr (delsS_sub body x h)
  theorem delsS_sub : (es : Exprs) → ∀ x ∈ delsS es, x ∈ queriesS es
    | .nil, x, h => by simp [delsS] at h
    | .cons e es, x, h => by
      simp only [delsS, List.mem_append] at h
      simp only [queriesS, List.mem_append]
      rcases h with h | h
      · exact .inl (delsE_sub e x h)
      · exact .inr (delsS_sub es x h)
  theorem delsK_sub : (k : KExprs) → ∀ x ∈ delsK k, x ∈ queriesK k
    | .nil, x, h => by simp [delsK] at h
    | .cons _ e kes, x, h => by
      simp only [delsK, List.mem_append] at h
      simp only [queriesK, List.mem_append]
      rcases h with h | h
      · exact .inl (delsE_sub e x h)
      · exact .inr (delsK_sub kes x h)
  theorem delsA_sub : (a : Args) → ∀ x ∈ delsA a, x ∈ queriesA a
    | .nil, x, h => by simp [delsA] at h
    | .cons _ e as, x, h => by
      simp only [delsA, List.mem_append] at h
      simp only [queriesA, List.mem_append]
      rcases h with h | h
      · exact .inl (delsE_sub e x h)
      · exact .inr (delsA_sub as x h)
end

/-- C16's `run_covered`, obtained from the abstract induction. -/
theorem run_covered_inv (prog : Exprs) (s : St) (hlog : s.log = []) :
    LogOK ((false, []) :: queriesS prog) (assignsS prog) (run prog s).2 :=
  run_inv (logInv ((false, []) :: queriesS prog) (assignsS prog)) prog
    ⟨fun _ hx => List.mem_cons_of_mem _ hx, fun _ hx => hx,
     fun x hx => List.mem_cons_of_mem _ (delsS_sub prog x hx)⟩
    List.mem_cons_self s (by intro a ha; rw [hlog] at ha; cases ha)

end Lang
