/-
  Helper lemmas for C32 (i): the alias expansion of `parse_grok_rule` is a depth-first traversal of
  the reference graph whose current path is `alias_stack`.
-/
import VrlProofs.Lemmas.C32

namespace C32
open Grok

/-- `self` gives back the stack it was given (on success). -/
def KeepsStack (self : Str → Ctx → Out Ctx) : Prop :=
  ∀ d c c', self d c = .ok c' → c'.stack = c.stack

/-- an outcome that is neither the circular-dependency error nor fuel exhaustion. -/
def Calm {α : Type} (x : Out α) : Prop := x ≠ .fuel ∧ ∀ n, x ≠ .err (.circular n)

theorem filterOf_calm (f : Fn) : Calm (filterOf f) := by
  unfold filterOf Calm
  cases filterKind f.name <;> simp only
  all_goals first
    | (simp; done)
    | (constructor
       · intro h; split at h <;> simp at h
       · intro n h; split at h <;> simp at h)

theorem registerDest_ok {p : Pat} {c c1 : Ctx} (h : registerDest p c = .ok c1) :
    c1.stack = c.stack := by
  unfold registerDest at h
  split at h
  · split at h <;> simp at h
    subst h; rfl
  · simp at h; subst h; rfl
  · simp at h; subst h; rfl

theorem registerDest_calm (p : Pat) (c : Ctx) : Calm (registerDest p c) := by
  unfold registerDest
  split
  · rename_i path f _
    have := filterOf_calm f
    unfold Calm at *
    split <;> simp_all
  · simp [Calm]
  · simp [Calm]

theorem withFilter_stack (g : Option Nat) (c : Ctx) (flt : Filter) (s : Str) :
    (withFilter g c flt s).stack = c.stack := by
  cases g <;> simp [withFilter, Ctx.append]

theorem resolveMatchFn_ok {g : Option Nat} {p : Pat} {c c' : Ctx} (h : resolveMatchFn g p c = .ok c') :
    c'.stack = c.stack := by
  unfold resolveMatchFn at h
  cases hk : matcherKind p.fn.name <;> simp only [hk] at h
  · split at h <;> simp at h
    subst h; simp [Ctx.append]
  all_goals first
    | (simp at h; subst h; first | exact withFilter_stack _ _ _ _ | simp [Ctx.append]; done)
    | (split at h <;> simp at h)

theorem resolveMatchFn_calm (g : Option Nat) (p : Pat) (c : Ctx) : Calm (resolveMatchFn g p c) := by
  unfold resolveMatchFn Calm
  cases matcherKind p.fn.name <;> simp only
  all_goals first
    | (simp; done)
    | (constructor
       · intro h; split at h <;> simp at h
       · intro n h; split at h <;> simp at h)

theorem openGroup_stack (g : Option Nat) (c : Ctx) : (openGroup g c).stack = c.stack := by
  cases g <;> simp [openGroup, Ctx.append]

theorem closePure_stack (g : Option Nat) (c : Ctx) : (closePure g c).stack = c.stack := by
  cases g <;> simp [closePure, Ctx.append]

theorem resolveBuiltin_ok {g : Option Nat} {p : Pat} {c c' : Ctx} (h : resolveBuiltin g p c = .ok c') :
    c'.stack = c.stack := by
  unfold resolveBuiltin at h
  split at h
  · split at h <;> simp at h
    rename_i c3 hc3
    subst h
    have := resolveMatchFn_ok hc3
    simpa [Ctx.append, openGroup_stack] using this
  · split at h <;> simp at h
    rename_i c3 hc3
    subst h
    have := resolveMatchFn_ok hc3
    simpa [Ctx.append, closePure_stack] using this

theorem resolveBuiltin_calm (g : Option Nat) (p : Pat) (c : Ctx) : Calm (resolveBuiltin g p c) := by
  unfold resolveBuiltin
  split
  · have := resolveMatchFn_calm g p (openGroup g c)
    unfold Calm at *
    split <;> simp_all
  · have := resolveMatchFn_calm g p (c.append cs!"%{")
    unfold Calm at *
    split <;> simp_all

/-! ### `parse_alias` -/

theorem parseAlias_ok {self : Str → Ctx → Out Ctx} {name d : Str} {c c' : Ctx}
    (h : parseAlias self name d c = .ok c') :
    name ∉ c.stack ∧ ∃ c'', self d { c with stack := c.stack ++ [name] } = .ok c'' ∧
      c' = { c'' with stack := c''.stack.dropLast } := by
  unfold parseAlias at h
  split at h
  · simp at h
  · rename_i hn
    split at h <;> simp at h
    rename_i c'' hc''
    exact ⟨by simpa using hn, c'', hc'', h.symm⟩

theorem parseAlias_circular {self : Str → Ctx → Out Ctx} {name d : Str} {c : Ctx} {x : Str}
    (h : parseAlias self name d c = .err (.circular x)) :
    (name ∈ c.stack ∧ x = c.stack.headD []) ∨
    (name ∉ c.stack ∧ self d { c with stack := c.stack ++ [name] } = .err (.circular x)) := by
  unfold parseAlias at h
  split at h
  · rename_i hn
    simp at h
    exact Or.inl ⟨by simpa using hn, by simpa [List.headD_eq_head?_getD] using h.symm⟩
  · rename_i hn
    split at h <;> simp at h
    rename_i e he
    subst h
    exact Or.inr ⟨by simpa using hn, he⟩

theorem parseAlias_fuel {self : Str → Ctx → Out Ctx} {name d : Str} {c : Ctx}
    (h : parseAlias self name d c = .fuel) :
    name ∉ c.stack ∧ self d { c with stack := c.stack ++ [name] } = .fuel := by
  unfold parseAlias at h
  split at h
  · simp at h
  · rename_i hn
    split at h <;> simp at h
    rename_i he
    exact ⟨by simpa using hn, he⟩

/-! ### `resolve_grok_pattern` -/

/-- what an expansion step does with an alias `a` whose definition is `d`, from a stack `S`. -/
def Enters (self : Str → Ctx → Out Ctx) (S : List Str) (a d : Str) (r : Out Ctx) : Prop :=
  ∃ cin : Ctx, cin.stack = S ++ [a] ∧ self d cin = r

theorem resolvePat_ok {aliases : List (Str × Str)} {self : Str → Ctx → Out Ctx} {p : Pat} {c c' : Ctx}
    (hk : KeepsStack self) (h : resolvePat aliases self p c = .ok c') :
    c'.stack = c.stack ∧
    ∀ d, lookupAlias aliases p.fn.name = some d →
      p.fn.name ∉ c.stack ∧ ∃ cout, Enters self c.stack p.fn.name d (.ok cout) := by
  unfold resolvePat at h
  simp only at h
  split at h <;> (try (simp at h; done))
  rename_i c1 hc1
  have hs1 := registerDest_ok hc1
  split at h
  · rename_i d hd
    split at h
    · split at h <;> simp at h
      rename_i c2 hc2
      obtain ⟨hn, c'', hrun, hc2'⟩ := parseAlias_ok hc2
      have hst := hk _ _ _ hrun
      simp only [openGroup_stack] at hst hn
      subst h; subst hc2'
      refine ⟨by simp [Ctx.append, hst, hs1], ?_⟩
      intro d' hd'
      rw [hd] at hd'; injection hd' with hd'; subst hd'
      refine ⟨by simpa [hs1] using hn, c'', ⟨_, ?_, hrun⟩⟩
      simp [openGroup_stack, hs1]
    · obtain ⟨hn, c'', hrun, hc2'⟩ := parseAlias_ok h
      have hst := hk _ _ _ hrun
      simp only at hst
      subst hc2'
      refine ⟨by simp [hst, hs1], ?_⟩
      intro d' hd'
      rw [hd] at hd'; injection hd' with hd'; subst hd'
      refine ⟨by simpa [hs1] using hn, c'', ⟨_, ?_, hrun⟩⟩
      simp [hs1]
  · rename_i hnone
    refine ⟨by rw [resolveBuiltin_ok h, hs1], ?_⟩
    intro d hd; rw [hnone] at hd; cases hd

theorem resolvePat_circular {aliases : List (Str × Str)} {self : Str → Ctx → Out Ctx} {p : Pat} {c : Ctx}
    {x : Str} (h : resolvePat aliases self p c = .err (.circular x)) :
    ∃ d, lookupAlias aliases p.fn.name = some d ∧
      ((p.fn.name ∈ c.stack ∧ x = c.stack.headD []) ∨
       (p.fn.name ∉ c.stack ∧ Enters self c.stack p.fn.name d (.err (.circular x)))) := by
  unfold resolvePat at h
  simp only at h
  split at h
  · rename_i c1 hc1
    have hs1 := registerDest_ok hc1
    split at h
    · rename_i d hd
      refine ⟨d, hd, ?_⟩
      split at h
      · split at h <;> simp at h
        rename_i e he
        subst h
        rcases parseAlias_circular he with ⟨h1, h2⟩ | ⟨h1, h2⟩
        · left; simpa [openGroup_stack, hs1] using And.intro h1 h2
        · right
          refine ⟨by simpa [openGroup_stack, hs1] using h1, ⟨_, ?_, h2⟩⟩
          simp [openGroup_stack, hs1]
      · rcases parseAlias_circular h with ⟨h1, h2⟩ | ⟨h1, h2⟩
        · left; simpa [hs1] using And.intro h1 h2
        · right
          refine ⟨by simpa [hs1] using h1, ⟨_, ?_, h2⟩⟩
          simp [hs1]
    · exact absurd h ((resolveBuiltin_calm _ _ _).2 x)
  · rename_i e he
    simp at h; subst h
    exact absurd he ((registerDest_calm _ _).2 x)
  · simp at h
  · simp at h
  · simp at h

theorem resolvePat_fuel {aliases : List (Str × Str)} {self : Str → Ctx → Out Ctx} {p : Pat} {c : Ctx}
    (h : resolvePat aliases self p c = .fuel) :
    ∃ d, lookupAlias aliases p.fn.name = some d ∧
      p.fn.name ∉ c.stack ∧ Enters self c.stack p.fn.name d .fuel := by
  unfold resolvePat at h
  simp only at h
  split at h
  · rename_i c1 hc1
    have hs1 := registerDest_ok hc1
    split at h
    · rename_i d hd
      refine ⟨d, hd, ?_⟩
      split at h
      · split at h <;> simp at h
        rename_i he
        obtain ⟨h1, h2⟩ := parseAlias_fuel he
        refine ⟨by simpa [openGroup_stack, hs1] using h1, ⟨_, ?_, h2⟩⟩
        simp [openGroup_stack, hs1]
      · obtain ⟨h1, h2⟩ := parseAlias_fuel h
        refine ⟨by simpa [hs1] using h1, ⟨_, ?_, h2⟩⟩
        simp [hs1]
    · exact absurd h (resolveBuiltin_calm _ _ _).1
  · simp at h
  · simp at h
  · simp at h
  · rename_i he
    exact absurd he (registerDest_calm _ _).1

/-! ### the loop over the pieces -/

theorem phName_of_parse {P : Prims} {s : Str} {p : Pat} (h : parsePlaceholder P s = .ok p) :
    phName P s = some p.fn.name := by
  simp [phName, h]

theorem resolvePieces_ok {P : Prims} {aliases : List (Str × Str)} {self : Str → Ctx → Out Ctx}
    (hk : KeepsStack self) (ps : List Piece) : ∀ (c c' : Ctx),
    resolvePieces P aliases self ps c = .ok c' →
    c'.stack = c.stack ∧
    ∀ a ∈ refsOfPieces P aliases ps, a ∉ c.stack ∧
      ∃ d cout, lookupAlias aliases a = some d ∧ Enters self c.stack a d (.ok cout) := by
  induction ps with
  | nil =>
    intro c c' h
    simp only [resolvePieces, Out.ok.injEq] at h
    subst h
    exact ⟨rfl, by simp [refsOfPieces]⟩
  | cons pc rest ih =>
    intro c c' h
    cases pc with
    | text s =>
      simp only [resolvePieces] at h
      have := ih _ _ h
      simpa [refsOfPieces, Ctx.append] using this
    | ph s =>
      simp only [resolvePieces] at h
      split at h
      · rename_i p hp
        split at h <;> (try (simp at h; done))
        rename_i c1 hc1
        obtain ⟨hs1, hal⟩ := resolvePat_ok hk hc1
        obtain ⟨hs2, hrest⟩ := ih _ _ h
        refine ⟨by rw [hs2, hs1], ?_⟩
        intro a ha
        simp only [refsOfPieces, phName_of_parse hp] at ha
        split at ha
        · rename_i hsome
          rcases List.mem_cons.mp ha with rfl | ha'
          · obtain ⟨d, hd⟩ := Option.isSome_iff_exists.mp hsome
            obtain ⟨hn, cout, hen⟩ := hal d hd
            exact ⟨hn, d, cout, hd, hen⟩
          · have := hrest a ha'
            simpa [hs1] using this
        · have := hrest a ha
          simpa [hs1] using this
      · simp at h
      · simp at h

theorem resolvePieces_circular {P : Prims} {aliases : List (Str × Str)} {self : Str → Ctx → Out Ctx}
    (hk : KeepsStack self) (ps : List Piece) : ∀ (c : Ctx) (x : Str),
    resolvePieces P aliases self ps c = .err (.circular x) →
    ∃ a ∈ refsOfPieces P aliases ps, ∃ d, lookupAlias aliases a = some d ∧
      ((a ∈ c.stack ∧ x = c.stack.headD []) ∨
       (a ∉ c.stack ∧ Enters self c.stack a d (.err (.circular x)))) := by
  induction ps with
  | nil => intro c x h; simp [resolvePieces] at h
  | cons pc rest ih =>
    intro c x h
    cases pc with
    | text s =>
      simp only [resolvePieces] at h
      have := ih _ _ h
      simpa [refsOfPieces, Ctx.append] using this
    | ph s =>
      simp only [resolvePieces] at h
      split at h
      · rename_i p hp
        split at h
        · rename_i c1 hc1
          obtain ⟨hs1, _⟩ := resolvePat_ok hk hc1
          obtain ⟨a, ha, d, hd, hcase⟩ := ih _ _ h
          refine ⟨a, ?_, d, hd, by simpa [hs1] using hcase⟩
          simp only [refsOfPieces, phName_of_parse hp]
          split
          · exact List.mem_cons_of_mem _ ha
          · exact ha
        · rename_i e he
          simp at h; subst h
          obtain ⟨d, hd, hcase⟩ := resolvePat_circular he
          refine ⟨p.fn.name, ?_, d, hd, hcase⟩
          simp [refsOfPieces, phName_of_parse hp, hd]
        · simp at h
        · simp at h
        · simp at h
      · simp at h
      · simp at h

theorem resolvePieces_fuel {P : Prims} {aliases : List (Str × Str)} {self : Str → Ctx → Out Ctx}
    (hk : KeepsStack self) (ps : List Piece) : ∀ (c : Ctx),
    resolvePieces P aliases self ps c = .fuel →
    ∃ a ∈ refsOfPieces P aliases ps, ∃ d, lookupAlias aliases a = some d ∧
      a ∉ c.stack ∧ Enters self c.stack a d .fuel := by
  induction ps with
  | nil => intro c h; simp [resolvePieces] at h
  | cons pc rest ih =>
    intro c h
    cases pc with
    | text s =>
      simp only [resolvePieces] at h
      have := ih _ h
      simpa [refsOfPieces, Ctx.append] using this
    | ph s =>
      simp only [resolvePieces] at h
      split at h
      · rename_i p hp
        split at h
        · rename_i c1 hc1
          obtain ⟨hs1, _⟩ := resolvePat_ok hk hc1
          obtain ⟨a, ha, d, hd, hcase⟩ := ih _ h
          refine ⟨a, ?_, d, hd, by simpa [hs1] using hcase⟩
          simp only [refsOfPieces, phName_of_parse hp]
          split
          · exact List.mem_cons_of_mem _ ha
          · exact ha
        · simp at h
        · simp at h
        · simp at h
        · rename_i he
          obtain ⟨d, hd, hcase⟩ := resolvePat_fuel he
          refine ⟨p.fn.name, ?_, d, hd, hcase⟩
          simp [refsOfPieces, phName_of_parse hp, hd]
      · simp at h
      · simp at h

/-! ### `parse_grok_rule` -/

theorem keepsStack_parseRuleF (P : Prims) (aliases : List (Str × Str)) :
    ∀ n, KeepsStack (parseRuleF P aliases n) := by
  intro n
  induction n with
  | zero => intro d c c' h; simp [parseRuleF] at h
  | succ n ih =>
    intro d c c' h
    simp only [parseRuleF] at h
    exact (resolvePieces_ok ih _ _ _ h).1

/-! ### counting: the aliases that are not on the stack -/

/-- number of defined aliases that are not on the stack `S`. -/
def remaining (aliases : List (Str × Str)) (S : List Str) : Nat :=
  ((aliases.map Prod.fst).filter (fun k => !S.contains k)).length

theorem filter_length_lt {α : Type} (l : List α) (p q : α → Bool) (hpq : ∀ x, p x = true → q x = true)
    (a : α) (ha : a ∈ l) (hq : q a = true) (hp : p a = false) :
    (l.filter p).length < (l.filter q).length := by
  induction l with
  | nil => cases ha
  | cons x xs ih =>
    have hle : (xs.filter p).length ≤ (xs.filter q).length := by
      clear ih ha
      induction xs with
      | nil => simp
      | cons y ys ih2 =>
        simp only [List.filter]
        cases hpy : p y
        · cases q y <;> simp <;> omega
        · simp [hpq y hpy, ih2]
    rcases List.mem_cons.mp ha with rfl | ha'
    · simp only [List.filter, hp, hq, List.length_cons]; omega
    · have := ih ha'
      simp only [List.filter]
      cases hpx : p x
      · cases q x <;> simp <;> omega
      · simp [hpq x hpx]; omega

theorem lookupAlias_mem {aliases : List (Str × Str)} {a d : Str} (h : lookupAlias aliases a = some d) :
    a ∈ aliases.map Prod.fst := by
  induction aliases with
  | nil => simp [lookupAlias] at h
  | cons kv rest ih =>
    obtain ⟨k, v⟩ := kv
    simp only [lookupAlias] at h
    split at h
    · rename_i hk; simp [hk]
    · simp [ih h]

theorem remaining_lt {aliases : List (Str × Str)} {a d : Str} {S : List Str}
    (h : lookupAlias aliases a = some d) (hn : a ∉ S) :
    remaining aliases (S ++ [a]) < remaining aliases S := by
  unfold remaining
  apply filter_length_lt _ _ _ _ a (lookupAlias_mem h)
  · simpa using hn
  · simp
  · intro x hx
    simp only [Bool.not_eq_true', List.contains_eq_mem, List.mem_append, List.mem_singleton,
      decide_eq_false_iff_not, not_or] at hx ⊢
    exact hx.1

theorem remaining_le (aliases : List (Str × Str)) (S : List Str) : remaining aliases S ≤ aliases.length := by
  unfold remaining
  have := List.length_filter_le (fun k => !S.contains k) (aliases.map Prod.fst)
  simpa using this

theorem headD_append_of_mem {α : Type} (l m : List α) (d a : α) (h : a ∈ l) :
    (l ++ m).headD d = l.headD d := by
  cases l with
  | nil => cases h
  | cons x xs => rfl

end C32

namespace C32
open Grok

/-! ### the closure computation of `cycleReachable` only finds real walks -/

/-- `b` is reachable from the alias `a` through at least one reference. -/
inductive Reaches (P : Prims) (aliases : List (Str × Str)) : Str → Str → Prop where
  | step {a b : Str} : b ∈ succs P aliases a → Reaches P aliases a b
  | trans {a b c : Str} : b ∈ succs P aliases a → Reaches P aliases b c → Reaches P aliases a c

theorem addNew_mem {S xs : List Str} {x : Str} (h : x ∈ addNew S xs) : x ∈ S ∨ x ∈ xs := by
  unfold addNew at h
  induction xs generalizing S with
  | nil => left; simpa using h
  | cons y ys ih =>
    simp only [List.foldl_cons] at h
    rcases ih h with h' | h'
    · split at h'
      · exact Or.inl h'
      · rcases List.mem_append.mp h' with h'' | h''
        · exact Or.inl h''
        · right; simp at h''; simp [h'']
    · right; exact List.mem_cons_of_mem _ h'

theorem closeStep_mem {P : Prims} {aliases : List (Str × Str)} {S : List Str} {x : Str}
    (h : x ∈ closeStep P aliases S) : x ∈ S ∨ ∃ a ∈ S, x ∈ succs P aliases a := by
  unfold closeStep at h
  have gen : ∀ (l acc : List Str), x ∈ l.foldl (fun acc a => addNew acc (succs P aliases a)) acc →
      x ∈ acc ∨ ∃ a ∈ l, x ∈ succs P aliases a := by
    intro l
    induction l with
    | nil => intro acc h; left; simpa using h
    | cons y ys ih =>
      intro acc h
      simp only [List.foldl_cons] at h
      rcases ih _ h with h' | ⟨a, ha, hx⟩
      · rcases addNew_mem h' with h'' | h''
        · exact Or.inl h''
        · exact Or.inr ⟨y, by simp, h''⟩
      · exact Or.inr ⟨a, List.mem_cons_of_mem _ ha, hx⟩
  exact gen S S h

theorem closure_mem {P : Prims} {aliases : List (Str × Str)} : ∀ (n : Nat) (S : List Str) (b : Str),
    b ∈ closure P aliases n S → b ∈ S ∨ ∃ s ∈ S, Reaches P aliases s b := by
  intro n
  induction n with
  | zero => intro S b h; left; simpa [closure] using h
  | succ n ih =>
    intro S b h
    simp only [closure] at h
    rcases ih _ _ h with h' | ⟨s, hs, hr⟩
    · rcases closeStep_mem h' with h'' | ⟨a, ha, hx⟩
      · exact Or.inl h''
      · exact Or.inr ⟨a, ha, .step hx⟩
    · rcases closeStep_mem hs with h'' | ⟨a, ha, hx⟩
      · exact Or.inr ⟨s, h'', hr⟩
      · exact Or.inr ⟨a, ha, .trans hx hr⟩

theorem succs_lookup {P : Prims} {aliases : List (Str × Str)} {a b : Str} (h : b ∈ succs P aliases a) :
    ∃ d, lookupAlias aliases a = some d ∧ b ∈ refs P aliases d := by
  unfold succs at h
  split at h
  · rename_i d hd; exact ⟨d, hd, h⟩
  · cases h

theorem walk_of_reaches {P : Prims} {aliases : List (Str × Str)} {a b : Str} (h : Reaches P aliases a b) :
    ∃ d w, lookupAlias aliases a = some d ∧ Walk P aliases d w ∧ b ∈ w := by
  induction h with
  | step hb =>
    obtain ⟨d, hd, hbd⟩ := succs_lookup hb
    exact ⟨d, [_], hd, .one hbd, by simp⟩
  | trans hb _ ih =>
    obtain ⟨d, hd, hbd⟩ := succs_lookup hb
    obtain ⟨d', w', hd', hw', hc⟩ := ih
    exact ⟨d, _ :: w', hd, .cons hbd hd' hw', List.mem_cons_of_mem _ hc⟩

/-- a walk that ends at `a` can be continued by a walk that starts in the definition of `a`. -/
theorem walk_append {P : Prims} {aliases : List (Str × Str)} {text : Str} {w1 : List Str}
    (h1 : Walk P aliases text w1) :
    ∀ {a da : Str} {w2 : List Str}, w1.getLast? = some a → lookupAlias aliases a = some da →
      Walk P aliases da w2 → Walk P aliases text (w1 ++ w2) := by
  induction h1 with
  | one ha =>
    intro a da w2 hl hda h2
    simp at hl; subst hl
    exact .cons ha hda h2
  | @cons text x d w hx hd hw ih =>
    intro a da w2 hl hda h2
    have hl' : w.getLast? = some a := by
      cases w with
      | nil => cases hw
      | cons y ys => simpa [List.getLast?_cons_cons] using hl
    exact .cons hx hd (ih hl' hda h2)

/-- a walk can be cut at the first occurrence of one of its names. -/
theorem walk_prefix_to {P : Prims} {aliases : List (Str × Str)} {text : Str} {w : List Str}
    (h : Walk P aliases text w) : ∀ {b : Str}, b ∈ w →
      ∃ w', Walk P aliases text w' ∧ w'.getLast? = some b := by
  induction h with
  | @one text a ha =>
    intro b hb
    simp at hb; subst hb
    exact ⟨[b], .one ha, rfl⟩
  | @cons text x d w hx hd hw ih =>
    intro b hb
    rcases List.mem_cons.mp hb with rfl | hb'
    · exact ⟨[b], .one hx, rfl⟩
    · obtain ⟨w', hw', hl⟩ := ih hb'
      refine ⟨x :: w', .cons hx hd hw', ?_⟩
      cases w' with
      | nil => cases hw'
      | cons y ys => simpa [List.getLast?_cons_cons] using hl

theorem getLast?_mem {l : List Str} {a : Str} (h : l.getLast? = some a) : a ∈ l := by
  exact List.mem_of_getLast? h

end C32

namespace C32
open Grok

/-! ### … and finds every reachable cycle (completeness of the closure) -/

theorem mem_addNew {S xs : List Str} {x : Str} : x ∈ addNew S xs ↔ x ∈ S ∨ x ∈ xs := by
  constructor
  · exact addNew_mem
  · unfold addNew
    induction xs generalizing S with
    | nil => intro h; rcases h with h | h; exact h; cases h
    | cons y ys ih =>
      intro h
      simp only [List.foldl_cons]
      apply ih
      rcases h with h | h
      · left; split
        · exact h
        · exact List.mem_append_left _ h
      · rcases List.mem_cons.mp h with rfl | h'
        · left; split
          · rename_i hc; simpa using hc
          · simp
        · right; exact h'

theorem mem_closeStep {P : Prims} {aliases : List (Str × Str)} {S : List Str} {x : Str} :
    x ∈ closeStep P aliases S ↔ x ∈ S ∨ ∃ a ∈ S, x ∈ succs P aliases a := by
  constructor
  · exact closeStep_mem
  · unfold closeStep
    have gen : ∀ (l acc : List Str), (x ∈ acc ∨ ∃ a ∈ l, x ∈ succs P aliases a) →
        x ∈ l.foldl (fun acc a => addNew acc (succs P aliases a)) acc := by
      intro l
      induction l with
      | nil => intro acc h; rcases h with h | ⟨a, ha, _⟩; simpa using h; cases ha
      | cons y ys ih =>
        intro acc h
        simp only [List.foldl_cons]
        apply ih
        rcases h with h | ⟨a, ha, hx⟩
        · left; exact mem_addNew.mpr (Or.inl h)
        · rcases List.mem_cons.mp ha with rfl | ha'
          · left; exact mem_addNew.mpr (Or.inr hx)
          · right; exact ⟨a, ha', hx⟩
    intro h
    exact gen S S h

theorem subset_closure {P : Prims} {aliases : List (Str × Str)} : ∀ (n : Nat) (S : List Str) (x : Str),
    x ∈ S → x ∈ closure P aliases n S := by
  intro n
  induction n with
  | zero => intro S x h; simpa [closure] using h
  | succ n ih => intro S x h; simp only [closure]; exact ih _ _ (mem_closeStep.mpr (Or.inl h))

theorem refsOfPieces_key {P : Prims} {aliases : List (Str × Str)} {ps : List Piece} {b : Str}
    (h : b ∈ refsOfPieces P aliases ps) : b ∈ aliases.map Prod.fst := by
  induction ps with
  | nil => simp [refsOfPieces] at h
  | cons pc rest ih =>
    cases pc with
    | text s => exact ih (by simpa [refsOfPieces] using h)
    | ph s =>
      simp only [refsOfPieces] at h
      split at h
      · split at h
        · rename_i n _ hsome
          rcases List.mem_cons.mp h with rfl | h'
          · obtain ⟨d, hd⟩ := Option.isSome_iff_exists.mp hsome
            exact lookupAlias_mem hd
          · exact ih h'
        · exact ih h
      · exact ih h

theorem succs_key {P : Prims} {aliases : List (Str × Str)} {a b : Str} (h : b ∈ succs P aliases a) :
    b ∈ aliases.map Prod.fst := by
  obtain ⟨d, _, hb⟩ := succs_lookup h
  exact refsOfPieces_key hb

theorem reaches_key {P : Prims} {aliases : List (Str × Str)} {a b : Str} (h : Reaches P aliases a b) :
    b ∈ aliases.map Prod.fst := by
  induction h with
  | step hb => exact succs_key hb
  | trans _ _ ih => exact ih

/-- number of defined aliases missing from `S`. -/
def missing (aliases : List (Str × Str)) (S : List Str) : Nat :=
  ((aliases.map Prod.fst).filter (fun k => !S.contains k)).length

theorem closure_complete {P : Prims} {aliases : List (Str × Str)} :
    ∀ (n : Nat) (S : List Str) (b : Str), missing aliases S ≤ n →
      (b ∈ S ∨ ∃ s ∈ S, Reaches P aliases s b) → b ∈ closure P aliases n S := by
  intro n
  induction n with
  | zero =>
    intro S b hm hb
    simp only [closure]
    rcases hb with hb | ⟨s, _, hr⟩
    · exact hb
    · have hkey := reaches_key hr
      have hz : missing aliases S = 0 := by omega
      unfold missing at hz
      have := List.length_eq_zero_iff.mp hz
      have hnot : b ∉ (aliases.map Prod.fst).filter (fun k => !S.contains k) := by rw [this]; simp
      simp only [List.mem_filter, Bool.not_eq_true', List.contains_eq_mem, decide_eq_false_iff_not, not_and,
        Decidable.not_not] at hnot
      exact hnot hkey
  | succ n ih =>
    intro S b hm hb
    simp only [closure]
    by_cases hstat : ∀ x, x ∈ closeStep P aliases S → x ∈ S
    · -- stationary: S is closed under references
      have hclosed : ∀ s c, s ∈ S → Reaches P aliases s c → c ∈ S := by
        intro s c hs hr
        induction hr with
        | step hc => exact hstat _ (mem_closeStep.mpr (Or.inr ⟨_, hs, hc⟩))
        | trans hb' _ ih' => exact ih' (hstat _ (mem_closeStep.mpr (Or.inr ⟨_, hs, hb'⟩)))
      have hbS : b ∈ S := by
        rcases hb with hb | ⟨s, hs, hr⟩
        · exact hb
        · exact hclosed s b hs hr
      exact subset_closure n _ b (mem_closeStep.mpr (Or.inl hbS))
    · -- progress: a new alias entered
      have ⟨x, hx⟩ := Classical.not_forall.mp hstat
      have ⟨hx1, hx2⟩ := Classical.not_imp.mp hx
      have hxkey : x ∈ aliases.map Prod.fst := by
        rcases mem_closeStep.mp hx1 with h | ⟨a, _, ha⟩
        · exact absurd h hx2
        · exact succs_key ha
      have hlt : missing aliases (closeStep P aliases S) < missing aliases S := by
        unfold missing
        apply filter_length_lt _ _ _ _ x hxkey
        · simpa using hx2
        · simpa using hx1
        · intro y hy
          simp only [Bool.not_eq_true', List.contains_eq_mem, decide_eq_false_iff_not] at hy ⊢
          exact fun h => hy (mem_closeStep.mpr (Or.inl h))
      apply ih _ b (by omega)
      rcases hb with hb | ⟨s, hs, hr⟩
      · exact Or.inl (mem_closeStep.mpr (Or.inl hb))
      · exact Or.inr ⟨s, mem_closeStep.mpr (Or.inl hs), hr⟩

theorem missing_le (aliases : List (Str × Str)) (S : List Str) : missing aliases S ≤ aliases.length :=
  remaining_le aliases S

theorem reaches_of_walk {P : Prims} {aliases : List (Str × Str)} {d : Str} {w : List Str}
    (hw : Walk P aliases d w) : ∀ {x b : Str}, lookupAlias aliases x = some d → b ∈ w → Reaches P aliases x b := by
  induction hw with
  | @one text a ha =>
    intro x b hx hb
    simp at hb; subst hb
    exact .step (by simp [succs, hx, ha])
  | @cons text y d' w' hy hd' _ ih =>
    intro x b hx hb
    have hyx : y ∈ succs P aliases x := by simp [succs, hx, hy]
    rcases List.mem_cons.mp hb with rfl | hb'
    · exact .step hyx
    · exact .trans hyx (ih hd' hb')

/-- a walk that repeats a name exhibits an alias that is reachable from the text and reaches itself. -/
theorem cycle_of_walk {P : Prims} {aliases : List (Str × Str)} {text : Str} {w : List Str}
    (hw : Walk P aliases text w) : ¬ w.Nodup →
      ∃ a, (a ∈ refs P aliases text ∨ ∃ s ∈ refs P aliases text, Reaches P aliases s a) ∧ Reaches P aliases a a := by
  induction hw with
  | one _ => intro h; exact absurd (by simp) h
  | @cons text x d w' hx hd hw' ih =>
    intro hnd
    by_cases hmem : x ∈ w'
    · exact ⟨x, Or.inl hx, reaches_of_walk hw' hd hmem⟩
    · have hnd' : ¬ w'.Nodup := fun h => hnd (List.nodup_cons.mpr ⟨hmem, h⟩)
      obtain ⟨a, ha, hloop⟩ := ih hnd'
      refine ⟨a, Or.inr ⟨x, hx, ?_⟩, hloop⟩
      rcases ha with ha | ⟨s, hs, hr⟩
      · exact .step (by simp [succs, hd, ha])
      · exact .trans (by simp [succs, hd, hs]) hr

end C32
