/-
  Lemmas: an expression of the effect-free fragment `pureE` never evaluates to `return`
  (used by C34: a discarded pure statement cannot end the program early with success).
-/
import VrlProofs.Lemmas.Pure

namespace Lang
theorem ofArith_no_ret (a : Arith.Res Value) (v : Value) : ofArith a ≠ .ret v := by
  cases a <;> simp [ofArith]

theorem binop_no_ret (o : Opcode) (a b v : Value) : binop o a b ≠ .ret v := by
  cases o <;> simp [binop, ofArith_no_ret]

mutual
  theorem pure_no_ret : (e : Expr) → pureE e = true → ∀ s v, (eval e s).1 ≠ .ret v
    | .lit _, _, s, v => by rw [eval]; simp
    | .noop, _, s, v => by rw [eval]; simp
    | .var n, _, s, v => by rw [eval]; cases s.getVar n <;> simp
    | .qvar n p, _, s, v => by rw [eval]; cases s.getVar n <;> simp
    | .existsVar n _, _, s, v => by rw [eval]; cases s.getVar n <;> simp
    | .grp e, h, s, v => by rw [eval]; exact pure_no_ret e (by simpa [pureE] using h) s v
    | .not e, h, s, v => by
      have h1 := pure_no_ret e (by simpa [pureE] using h) s v
      rw [eval]
      cases hq : eval e s with
      | mk r s1 =>
        rw [hq] at h1
        cases r with
        | ok v => cases v <;> simp
        | _ => simp_all
    | .qexpr e _, h, s, v => by
      have h1 := pure_no_ret e (by simpa [pureE] using h) s v
      rw [eval]
      cases hq : eval e s with | mk r s1 => rw [hq] at h1; cases r <;> simp_all
    | .existsExpr e _, h, s, v => by
      have h1 := pure_no_ret e (by simpa [pureE] using h) s v
      rw [eval]
      cases hq : eval e s with | mk r s1 => rw [hq] at h1; cases r <;> simp_all
    | .arr es, h, s, v => by
      have h1 := pureList_no_ret es (by simpa [pureE] using h) s v
      rw [eval]
      cases hq : evalList es s with | mk r s1 => rw [hq] at h1; cases r <;> simp_all
    | .obj kvs, h, s, v => by
      have h1 := pureKVs_no_ret kvs (by simpa [pureE] using h) s v
      rw [eval]
      cases hq : evalKVs kvs s with | mk r s1 => rw [hq] at h1; cases r <;> simp_all
    | .op o l r, h, s, v => by
      simp only [pureE, Bool.and_eq_true] at h
      obtain ⟨⟨ho, hl⟩, hr⟩ := h
      have h1 := pure_no_ret l hl s v
      cases o <;> simp [plainOp] at ho
      all_goals
        rw [eval]
        · cases hq : eval l s with
          | mk r1 s1 =>
            rw [hq] at h1
            cases r1 with
            | ok v1 =>
              have h2 := pure_no_ret r hr s1 v
              simp only
              cases hq2 : eval r s1 with | mk r2 s2 => rw [hq2] at h2; cases r2 <;> simp_all [binop_no_ret]
            | _ => simp_all
        all_goals (intro hc; cases hc)
    | .call name _ _ args hasClosure _ _, h, s, v => by
      simp only [pureE, Bool.and_eq_true, Bool.not_eq_true'] at h
      obtain ⟨⟨_, hc⟩, ha⟩ := h
      subst hc
      rw [eval]
      simp only [Bool.false_eq_true, ↓reduceIte]
      exact callFn_no_ret name _ (pureArgs_no_ret args ha) s v
    | .blk _, h, _, _ => by simp [pureE] at h
    | .ifte _ _ _ _, h, _, _ => by simp [pureE] at h
    | .asg _ _, h, _, _ => by simp [pureE] at h
    | .iasg _ _ _ _, h, _, _ => by simp [pureE] at h
    | .qext _ _, h, _, _ => by simp [pureE] at h
    | .abort _ _, h, _, _ => by simp [pureE] at h
    | .ret _, h, _, _ => by simp [pureE] at h
    | .delExt _ _ _ _, h, _, _ => by simp [pureE] at h
    | .delVar _ _ _ _, h, _, _ => by simp [pureE] at h
    | .delExpr _ _ _ _, h, _, _ => by simp [pureE] at h
    | .existsExt _ _, h, _, _ => by simp [pureE] at h

  theorem pureList_no_ret : (es : Exprs) → pureS es = true → ∀ s v, (evalList es s).1 ≠ .error (.ret v)
    | .nil, _, s, v => by rw [evalList]; simp
    | .cons e es, h, s, v => by
      simp only [pureS, Bool.and_eq_true] at h
      have h1 := pure_no_ret e h.1 s v
      rw [evalList]
      cases hq : eval e s with
      | mk r1 s1 =>
        rw [hq] at h1
        cases r1 with
        | ok v1 =>
          have h2 := pureList_no_ret es h.2 s1 v
          simp only
          cases hq2 : evalList es s1 with | mk r2 s2 => rw [hq2] at h2; cases r2 <;> simp_all
        | _ => simp_all

  theorem pureKVs_no_ret : (k : KExprs) → pureK k = true → ∀ s v, (evalKVs k s).1 ≠ .error (.ret v)
    | .nil, _, s, v => by rw [evalKVs]; simp
    | .cons key e kes, h, s, v => by
      simp only [pureK, Bool.and_eq_true] at h
      have h1 := pure_no_ret e h.1 s v
      rw [evalKVs]
      cases hq : eval e s with
      | mk r1 s1 =>
        rw [hq] at h1
        cases r1 with
        | ok v1 =>
          have h2 := pureKVs_no_ret kes h.2 s1 v
          simp only
          cases hq2 : evalKVs kes s1 with | mk r2 s2 => rw [hq2] at h2; cases r2 <;> simp_all
        | _ => simp_all

  theorem pureArgs_no_ret : (as : Args) → pureA as = true → ∀ k t, (k, t) ∈ thunks as → NoRet t
    | .nil, _, k, t, hm => by simp [thunks] at hm
    | .cons kw e as, h, k, t, hm => by
      simp only [pureA, Bool.and_eq_true] at h
      rw [thunks] at hm
      rcases List.mem_cons.mp hm with e1 | e1
      · cases e1
        intro s v
        exact pure_no_ret e h.1 s v
      · exact pureArgs_no_ret as h.2 k t e1
end

end Lang
