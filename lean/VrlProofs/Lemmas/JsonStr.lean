/-
  Lemmas about strings in `VrlModel.Json`: the string parser reads back what `quote` writes; the
  escaped text of a UTF-8 string is UTF-8; lossy conversion is the identity on UTF-8.
-/
import VrlModel.Json

namespace Json

/-! ### escaping round trip -/

theorem hex_low : ∀ b, b < 32 →
    hexVal (hexLower (b / 16)) = some (b / 16) ∧ hexVal (hexLower (b % 16)) = some (b % 16) := by
  decide

theorem hex4_u00 (b : Nat) (hb : b < 32) (X : List Nat) :
    hex4 (48 :: 48 :: hexLower (b / 16) :: hexLower (b % 16) :: X) = some (b, X) := by
  obtain ⟨h1, h2⟩ := hex_low b hb
  have h0 : hexVal 48 = some 0 := by decide
  have hv : ((0 * 16 + 0) * 16 + b / 16) * 16 + b % 16 = b := by omega
  simp only [hex4, h0, h1, h2, hv]

theorem parseEscape_u00 (b : Nat) (hb : b < 32) (X : List Nat) :
    parseEscape (117 :: 48 :: 48 :: hexLower (b / 16) :: hexLower (b % 16) :: X) = some ([b], X) := by
  have hn1 : ¬ (56320 ≤ b ∧ b ≤ 57343) := by omega
  have hn2 : b < 55296 ∨ 56319 < b := by omega
  have hn3 : b < 128 := by omega
  simp [parseEscape, parseUnicode, hex4_u00 b hb X, hn1, hn2, encodeUtf8, hn3]

/-- one escaped byte is read back as that byte -/
theorem parseStrBody_step (b : Nat) (f : Nat) (X : List Nat) :
    parseStrBody (f + 1) (escapeByte b ++ X) =
      match parseStrBody f X with
      | none => none
      | some (t, r) => some (b :: t, r) := by
  unfold escapeByte
  split
  · rename_i h; subst h; simp [parseStrBody, parseEscape]; cases parseStrBody f X <;> simp
  split
  · rename_i h; subst h; simp [parseStrBody, parseEscape]; cases parseStrBody f X <;> simp
  split
  · rename_i h; subst h; simp [parseStrBody, parseEscape]; cases parseStrBody f X <;> simp
  split
  · rename_i h; subst h; simp [parseStrBody, parseEscape]; cases parseStrBody f X <;> simp
  split
  · rename_i h; subst h; simp [parseStrBody, parseEscape]; cases parseStrBody f X <;> simp
  split
  · rename_i h; subst h; simp [parseStrBody, parseEscape]; cases parseStrBody f X <;> simp
  split
  · rename_i h; subst h; simp [parseStrBody, parseEscape]; cases parseStrBody f X <;> simp
  split
  · rename_i hlt
    have := parseEscape_u00 b hlt X
    simp only [List.cons_append, List.nil_append, parseStrBody]
    simp [this]
    cases parseStrBody f X <;> simp
  · rename_i h1 h2 h3 h4 h5 h6 h7 h8
    simp [parseStrBody, h1, h2, h8]
    cases parseStrBody f X <;> rfl

theorem escapeByte_length_pos (b : Nat) : 1 ≤ (escapeByte b).length := by
  unfold escapeByte
  repeat' split
  all_goals simp

theorem parseStrBody_escape : (s rest : List Nat) → (f : Nat) → (escape s ++ 34 :: rest).length < f →
    parseStrBody f (escape s ++ 34 :: rest) = some (s, rest)
  | [], rest, f, hf => by
    obtain ⟨f', rfl⟩ : ∃ f', f = f' + 1 := ⟨f - 1, by simp at hf; omega⟩
    simp [escape, parseStrBody]
  | b :: bs, rest, f, hf => by
    have hpos := escapeByte_length_pos b
    simp only [escape, List.append_assoc, List.length_append] at hf
    obtain ⟨f', rfl⟩ : ∃ f', f = f' + 1 := ⟨f - 1, by omega⟩
    have ih := parseStrBody_escape bs rest f' (by simp only [List.length_append]; omega)
    simp only [escape, List.append_assoc]
    rw [parseStrBody_step, ih]

/-- `parse_str` reads back the text `quote` wrote (after the opening quote) -/
theorem parseStr_escape (s rest : List Nat) (hv : validUtf8 s = true) :
    parseStr (escape s ++ 34 :: rest) = some (s, rest) := by
  unfold parseStr
  rw [parseStrBody_escape s rest _ (Nat.lt_succ_self _)]
  simp [hv]

/-! ### UTF-8 -/

theorem validUtf8_1 (b : Nat) (rest : List Nat) (h : b < 128) :
    validUtf8 (b :: rest) = validUtf8 rest := by
  rw [validUtf8.eq_def]; simp [h]

theorem validUtf8_2 (b c : Nat) (r : List Nat) (h : 194 ≤ b ∧ b ≤ 223) :
    validUtf8 (b :: c :: r) = (isCont c && validUtf8 r) := by
  have h1 : ¬ b < 128 := by omega
  rw [validUtf8.eq_def]; simp [h, h1]

theorem validUtf8_3 (b c d : Nat) (r : List Nat) (h : 224 ≤ b ∧ b ≤ 239) :
    validUtf8 (b :: c :: d :: r) = (second3 b c && isCont d && validUtf8 r) := by
  have h1 : ¬ b < 128 := by omega
  have h2 : ¬ (194 ≤ b ∧ b ≤ 223) := by omega
  rw [validUtf8.eq_def]; simp [h, h1, h2]

theorem validUtf8_4 (b c d e : Nat) (r : List Nat) (h : 240 ≤ b ∧ b ≤ 244) :
    validUtf8 (b :: c :: d :: e :: r) = (second4 b c && isCont d && isCont e && validUtf8 r) := by
  have h1 : ¬ b < 128 := by omega
  have h2 : ¬ (194 ≤ b ∧ b ≤ 223) := by omega
  have h3 : ¬ (224 ≤ b ∧ b ≤ 239) := by omega
  rw [validUtf8.eq_def]; simp [h, h1, h2, h3]

/-- the four ways a non-empty list can be valid UTF-8 -/
theorem validUtf8_cases (x : Nat) (rest : List Nat) (h : validUtf8 (x :: rest) = true) :
    (x < 128 ∧ validUtf8 rest = true) ∨
    (∃ c r, rest = c :: r ∧ (194 ≤ x ∧ x ≤ 223) ∧ isCont c = true ∧ validUtf8 r = true) ∨
    (∃ c d r, rest = c :: d :: r ∧ (224 ≤ x ∧ x ≤ 239) ∧ second3 x c = true ∧ isCont d = true ∧
      validUtf8 r = true) ∨
    (∃ c d e r, rest = c :: d :: e :: r ∧ (240 ≤ x ∧ x ≤ 244) ∧ second4 x c = true ∧ isCont d = true ∧
      isCont e = true ∧ validUtf8 r = true) := by
  rw [validUtf8.eq_def] at h
  simp only at h
  split at h
  · left; exact ⟨by assumption, h⟩
  · split at h
    · rename_i h2
      right; left
      split at h
      · rename_i c r
        simp only [Bool.and_eq_true] at h
        exact ⟨c, r, rfl, h2, h.1, h.2⟩
      · exact absurd h (by simp)
    · split at h
      · rename_i h3
        right; right; left
        split at h
        · rename_i c d r
          simp only [Bool.and_eq_true] at h
          exact ⟨c, d, r, rfl, h3, h.1.1, h.1.2, h.2⟩
        · exact absurd h (by simp)
      · split at h
        · rename_i h4
          right; right; right
          split at h
          · rename_i c d e r
            simp only [Bool.and_eq_true] at h
            exact ⟨c, d, e, r, rfl, h4, h.1.1.1, h.1.1.2, h.1.2, h.2⟩
          · exact absurd h (by simp)
        · exact absurd h (by simp)

theorem isCont_ge (c : Nat) (h : isCont c = true) : 128 ≤ c := by
  simp only [isCont, Bool.and_eq_true, decide_eq_true_eq] at h; omega

theorem second3_ge (b c : Nat) (h : second3 b c = true) : 128 ≤ c := by
  simp only [second3, isCont] at h
  repeat' split at h
  all_goals (simp only [Bool.and_eq_true, decide_eq_true_eq] at h; omega)

theorem second4_ge (b c : Nat) (h : second4 b c = true) : 128 ≤ c := by
  simp only [second4, isCont] at h
  repeat' split at h
  all_goals (simp only [Bool.and_eq_true, decide_eq_true_eq] at h; omega)

/-- an ASCII prefix does not change validity -/
theorem validUtf8_ascii_append : (a b : List Nat) → (∀ c ∈ a, c < 128) →
    validUtf8 (a ++ b) = validUtf8 b
  | [], _, _ => rfl
  | c :: a, b, h => by
    have hc : c < 128 := h c (by simp)
    have ih := validUtf8_ascii_append a b (fun x hx => h x (by simp [hx]))
    rw [List.cons_append, validUtf8_1 _ _ hc, ih]

theorem hexLower_lt (n : Nat) (h : n < 16) : hexLower n < 128 := by
  unfold hexLower; split <;> omega

theorem escapeByte_ascii (b : Nat) (hb : b < 128) : ∀ c ∈ escapeByte b, c < 128 := by
  have h1 := hexLower_lt (b / 16) (by omega)
  have h2 := hexLower_lt (b % 16) (by omega)
  unfold escapeByte
  repeat' split
  all_goals (intro c hc; simp at hc)
  all_goals first
    | omega
    | (rcases hc with h | h | h | h | h | h <;> omega)

theorem escapeByte_high (b : Nat) (hb : 128 ≤ b) : escapeByte b = [b] := by
  unfold escapeByte
  repeat' split
  all_goals first
    | rfl
    | omega

/-- escaping keeps UTF-8 validity -/
theorem validUtf8_escape : (s : List Nat) → validUtf8 s = true → validUtf8 (escape s) = true
  | [], _ => rfl
  | x :: rest, h => by
    rcases validUtf8_cases x rest h with ⟨hx, hr⟩ | ⟨c, r, rfl, hx, hc, hr⟩ |
      ⟨c, d, r, rfl, hx, hc, hd, hr⟩ | ⟨c, d, e, r, rfl, hx, hc, hd, he, hr⟩
    · simp only [escape]
      rw [validUtf8_ascii_append _ _ (escapeByte_ascii x hx)]
      exact validUtf8_escape rest hr
    · simp only [escape, escapeByte_high x (by omega), escapeByte_high c (isCont_ge c hc),
        List.cons_append, List.nil_append]
      rw [validUtf8_2 _ _ _ hx, hc, validUtf8_escape r hr]; rfl
    · simp only [escape, escapeByte_high x (by omega), escapeByte_high c (second3_ge x c hc),
        escapeByte_high d (isCont_ge d hd), List.cons_append, List.nil_append]
      rw [validUtf8_3 _ _ _ _ hx, hc, hd, validUtf8_escape r hr]; rfl
    · simp only [escape, escapeByte_high x (by omega), escapeByte_high c (second4_ge x c hc),
        escapeByte_high d (isCont_ge d hd), escapeByte_high e (isCont_ge e he),
        List.cons_append, List.nil_append]
      rw [validUtf8_4 _ _ _ _ _ hx, hc, hd, he, validUtf8_escape r hr]; rfl

/-- a valid prefix does not change validity of the whole -/
theorem validUtf8_append : (a b : List Nat) → validUtf8 a = true → validUtf8 (a ++ b) = validUtf8 b
  | [], _, _ => rfl
  | x :: rest, b, h => by
    rcases validUtf8_cases x rest h with ⟨hx, hr⟩ | ⟨c, r, rfl, hx, hc, hr⟩ |
      ⟨c, d, r, rfl, hx, hc, hd, hr⟩ | ⟨c, d, e, r, rfl, hx, hc, hd, he, hr⟩
    · rw [List.cons_append, validUtf8_1 _ _ hx, validUtf8_append rest b hr]
    · simp only [List.cons_append]
      rw [validUtf8_2 _ _ _ hx, hc, validUtf8_append r b hr]; simp
    · simp only [List.cons_append]
      rw [validUtf8_3 _ _ _ _ hx, hc, hd, validUtf8_append r b hr]; simp
    · simp only [List.cons_append]
      rw [validUtf8_4 _ _ _ _ _ hx, hc, hd, he, validUtf8_append r b hr]; simp

theorem utf8Lossy_1 (b : Nat) (rest : List Nat) (h : b < 128) :
    utf8Lossy (b :: rest) = b :: utf8Lossy rest := by
  rw [utf8Lossy.eq_def]; simp [h]

theorem utf8Lossy_2 (b c : Nat) (r : List Nat) (h : 194 ≤ b ∧ b ≤ 223) (hc : isCont c = true) :
    utf8Lossy (b :: c :: r) = b :: c :: utf8Lossy r := by
  have h1 : ¬ b < 128 := by omega
  rw [utf8Lossy.eq_def]; simp [h, h1, hc]

theorem utf8Lossy_3 (b c d : Nat) (r : List Nat) (h : 224 ≤ b ∧ b ≤ 239) (hc : second3 b c = true)
    (hd : isCont d = true) : utf8Lossy (b :: c :: d :: r) = b :: c :: d :: utf8Lossy r := by
  have h1 : ¬ b < 128 := by omega
  have h2 : ¬ (194 ≤ b ∧ b ≤ 223) := by omega
  rw [utf8Lossy.eq_def]; simp [h, h1, h2, hc, hd]

theorem utf8Lossy_4 (b c d e : Nat) (r : List Nat) (h : 240 ≤ b ∧ b ≤ 244) (hc : second4 b c = true)
    (hd : isCont d = true) (he : isCont e = true) :
    utf8Lossy (b :: c :: d :: e :: r) = b :: c :: d :: e :: utf8Lossy r := by
  have h1 : ¬ b < 128 := by omega
  have h2 : ¬ (194 ≤ b ∧ b ≤ 223) := by omega
  have h3 : ¬ (224 ≤ b ∧ b ≤ 239) := by omega
  rw [utf8Lossy.eq_def]; simp [h, h1, h2, h3, hc, hd, he]

/-- lossy conversion leaves UTF-8 text alone -/
theorem utf8Lossy_valid : (s : List Nat) → validUtf8 s = true → utf8Lossy s = s
  | [], _ => rfl
  | x :: rest, h => by
    rcases validUtf8_cases x rest h with ⟨hx, hr⟩ | ⟨c, r, rfl, hx, hc, hr⟩ |
      ⟨c, d, r, rfl, hx, hc, hd, hr⟩ | ⟨c, d, e, r, rfl, hx, hc, hd, he, hr⟩
    · rw [utf8Lossy_1 _ _ hx, utf8Lossy_valid rest hr]
    · rw [utf8Lossy_2 _ _ _ hx hc, utf8Lossy_valid r hr]
    · rw [utf8Lossy_3 _ _ _ _ hx hc hd, utf8Lossy_valid r hr]
    · rw [utf8Lossy_4 _ _ _ _ _ hx hc hd he, utf8Lossy_valid r hr]

theorem validUtf8_quote (s : List Nat) (h : validUtf8 s = true) : validUtf8 (quote s) = true := by
  unfold quote
  rw [validUtf8_1 _ _ (by omega), validUtf8_append _ _ (validUtf8_escape s h)]
  decide

end Json
