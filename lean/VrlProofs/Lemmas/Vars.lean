import VrlModel.Lang.Eval

/-! Algebra of the runtime variable store (`RuntimeState.variables`) and of the closure
    parameter bookkeeping (`insert` / `cleanup` of function/closure.rs). -/

namespace Lang

theorem find_filter_ne (l : List (String × Value)) (n m : String) (h : n ≠ m) :
    (l.filter (·.1 != n)).find? (·.1 == m) = l.find? (·.1 == m) := by
  induction l with
  | nil => rfl
  | cons x xs ih =>
    by_cases hx : x.1 = n
    · have : (x.1 != n) = false := by simp [hx]
      have hm : (x.1 == m) = false := by simp [hx, h]
      simp [List.filter, this, List.find?, hm, ih]
    · have : (x.1 != n) = true := by simp [hx]
      simp only [List.filter, this, List.find?]
      cases hxm : (x.1 == m) <;> simp [ih]

theorem find_filter_same (l : List (String × Value)) (n : String) :
    (l.filter (·.1 != n)).find? (·.1 == n) = none := by
  induction l with
  | nil => rfl
  | cons x xs ih =>
    by_cases hx : x.1 = n
    · have : (x.1 != n) = false := by simp [hx]
      simp [List.filter, this, ih]
    · have : (x.1 != n) = true := by simp [hx]
      have hm : (x.1 == n) = false := by simp [hx]
      simp [List.filter, this, List.find?, hm, ih]

namespace St

@[simp] theorem getVar_setVar_same (s : St) (n : String) (v : Value) :
    (s.setVar n v).getVar n = some v := by
  simp [getVar, setVar, List.find?]

theorem getVar_setVar_other (s : St) (n m : String) (v : Value) (h : n ≠ m) :
    (s.setVar n v).getVar m = s.getVar m := by
  have hm : (n == m) = false := by simp [h]
  simp [getVar, setVar, List.find?, hm, find_filter_ne _ _ _ h]

@[simp] theorem getVar_delVar_same (s : St) (n : String) : (s.delVar n).getVar n = none := by
  simp [getVar, delVar, find_filter_same]

theorem getVar_delVar_other (s : St) (n m : String) (h : n ≠ m) :
    (s.delVar n).getVar m = s.getVar m := by
  simp [getVar, delVar, find_filter_ne _ _ _ h]

end St

/-- binding a parameter and later restoring it gives back the outer value, whatever happened to
    the state in between. -/
theorem cleanup_restores (s t : St) (p : String) (v : Value) :
    (cCleanup t (some p) (cInsert s (some p) v).1).getVar p = s.getVar p := by
  simp only [cInsert, cCleanup]
  cases h : s.getVar p with
  | none => simp
  | some w => simp

theorem cleanup_other (t : St) (i : Option String) (old : Option Value) (p : String)
    (h : i ≠ some p) : (cCleanup t i old).getVar p = t.getVar p := by
  cases i with
  | none => rfl
  | some n =>
    have hn : n ≠ p := by intro e; exact h (by rw [e])
    cases old with
    | none => simp [cCleanup, St.getVar_delVar_other _ _ _ hn]
    | some w => simp [cCleanup, St.getVar_setVar_other _ _ _ _ hn]

theorem insert_other (s : St) (i : Option String) (v : Value) (p : String) (h : i ≠ some p) :
    (cInsert s i v).2.getVar p = s.getVar p := by
  cases i with
  | none => rfl
  | some n =>
    have hn : n ≠ p := by intro e; exact h (by rw [e])
    simp [cInsert, St.getVar_setVar_other _ _ _ _ hn]

end Lang
