/-
  Frame lemmas for C15 on field-only paths: what `crud::insert` / `crud::remove` (with and without
  compaction) at a path `p` do to a location `q` that diverges from `p`.

  Removal with `compact: true` deletes the parents it emptied; for a diverging `q` this is
  harmless, because a parent is only deleted when it is empty, i.e. when nothing was stored below
  it on the way to `q` either. The one thing needed from the value is that the objects met along
  `q` have strictly sorted (hence unique) keys — the `BTreeMap` invariant, `spineOK`: the model's
  `VMap.remove` drops the first entry with the key, and on an association list with a duplicate key
  that would uncover the second one (`C15.witness_remove_unsorted_model`).
-/
import VrlModel.ReadOnly
import VrlProofs.Props.C18

namespace C15
open ReadOnly Value

/-- keys strictly increasing (nothing is asked of the values) -/
def keysSorted : VMap → Bool
  | .nil => true
  | .cons k _ m => VMap.allGt k m && keysSorted m

/-- every object met on the way along `q` has strictly sorted keys -/
def spineOK : Option Value → Path → Bool
  | some (.obj m), .field f :: rest => keysSorted m && spineOK (m.get f) rest
  | _, _ => true

theorem spineOK_none (q : Path) : spineOK none q = true := by
  cases q with
  | nil => rfl
  | cons s _ => cases s <;> rfl

theorem keysSorted_of_sorted : (m : VMap) → m.Sorted = true → keysSorted m = true
  | .nil, _ => rfl
  | .cons k v m, h => by
    simp only [VMap.Sorted, Bool.and_eq_true] at h
    simp only [keysSorted, Bool.and_eq_true]
    exact ⟨h.1.2, keysSorted_of_sorted m h.2⟩

theorem spineOK_of_sorted (q : Path) : ∀ (c : Option Value), (∀ v, c = some v → v.Sorted = true) →
    spineOK c q = true := by
  induction q with
  | nil => intro c _; cases c with
    | none => rfl
    | some v => cases v <;> rfl
  | cons s rest ih =>
    intro c hc
    cases c with
    | none => exact spineOK_none _
    | some v =>
      cases s with
      | index _ => cases v <;> rfl
      | field f =>
        cases v with
        | obj m =>
          have hm : m.Sorted = true := by simpa [Value.Sorted] using hc _ rfl
          simp only [spineOK, Bool.and_eq_true]
          exact ⟨keysSorted_of_sorted m hm, ih _ (fun w hw => VMap.sorted_get m f w hm hw)⟩
        | _ => rfl

theorem keysSorted_insert : (m : VMap) → (q : List Nat) → (x : Value) → keysSorted m = true →
    keysSorted (m.insert q x) = true
  | .nil, q, x, _ => by simp [VMap.insert, keysSorted, VMap.allGt]
  | .cons k v m, q, x, hs => by
    simp only [keysSorted, Bool.and_eq_true] at hs
    simp only [VMap.insert]
    split
    · rename_i hlt
      simp only [keysSorted, VMap.allGt, Bool.and_eq_true]
      exact ⟨⟨hlt, VMap.allGt_trans m q k hlt hs.1⟩, hs.1, hs.2⟩
    · split
      · simp only [keysSorted, Bool.and_eq_true]
        exact ⟨hs.1, hs.2⟩
      · rename_i hnlt hne
        have hkq : Key.lt k q = true := by
          rcases Key.lt_total k q with h | h | h
          · exact h
          · exact absurd h hne
          · simp [h] at hnlt
        simp only [keysSorted, Bool.and_eq_true]
        exact ⟨VMap.allGt_insert m k q x hkq hs.1, keysSorted_insert m q x hs.2⟩

theorem keysSorted_remove : (m : VMap) → (q : List Nat) → keysSorted m = true →
    keysSorted (m.remove q) = true
  | .nil, _, _ => rfl
  | .cons k v m, q, hs => by
    simp only [keysSorted, Bool.and_eq_true] at hs
    simp only [VMap.remove]
    split
    · exact hs.2
    · simp only [keysSorted, Bool.and_eq_true]
      exact ⟨VMap.allGt_remove m k q hs.1, keysSorted_remove m q hs.2⟩

theorem get_none_of_allGt : (m : VMap) → (k : List Nat) → VMap.allGt k m = true → m.get k = none
  | .nil, _, _ => rfl
  | .cons l v m, k, h => by
    simp only [VMap.allGt, Bool.and_eq_true] at h
    have hne : l ≠ k := fun e => Key.lt_ne k l h.1 e.symm
    simp only [VMap.get, hne, ↓reduceIte]
    exact get_none_of_allGt m k h.2

/-- with unique keys a removed key is gone -/
theorem get_remove_same : (m : VMap) → (q : List Nat) → keysSorted m = true → (m.remove q).get q = none
  | .nil, _, _ => rfl
  | .cons k v m, q, hs => by
    simp only [keysSorted, Bool.and_eq_true] at hs
    simp only [VMap.remove]
    split
    · rename_i h; subst h; exact get_none_of_allGt m k hs.1
    · rename_i h
      simp only [VMap.get, h, ↓reduceIte]
      exact get_remove_same m q hs.2

theorem keysSorted_asMap (c : Option Value) (g : List Nat) (q : Path)
    (h : spineOK c (.field g :: q) = true) : keysSorted (asMap c) = true := by
  cases c with
  | none => rfl
  | some v =>
    cases v with
    | obj m => simp only [spineOK, Bool.and_eq_true] at h; exact h.1
    | _ => rfl

theorem spineOK_asMap_get (c : Option Value) (g : List Nat) (q : Path)
    (h : spineOK c (.field g :: q) = true) : spineOK ((asMap c).get g) q = true := by
  cases c with
  | none => exact spineOK_none _
  | some v =>
    cases v with
    | obj m => simp only [spineOK, Bool.and_eq_true] at h; exact h.2
    | _ => exact spineOK_none _

/-- an insert at a field path keeps the spine of every diverging field path well-formed -/
theorem insert_spine (p : Path) : ∀ (c : Option Value) (q : Path) (x : Value),
    C18.diverge p q = true → fieldOnly p = true → fieldOnly q = true → spineOK c q = true →
    spineOK (some (insertOpt c p x)) q = true := by
  induction p with
  | nil => intro c q x hd; simp [C18.diverge] at hd
  | cons s rest ih =>
    intro c q x hd hp hq hs
    cases q with
    | nil => simp [C18.diverge] at hd
    | cons t q' =>
      cases s with
      | index _ => simp [fieldOnly] at hp
      | field f =>
        cases t with
        | index _ => simp [fieldOnly] at hq
        | field g =>
          simp only [C18.diverge] at hd
          have hp' : fieldOnly rest = true := by simpa [fieldOnly] using hp
          have hq' : fieldOnly q' = true := by simpa [fieldOnly] using hq
          have hk := keysSorted_asMap c g q' hs
          have hg := spineOK_asMap_get c g q' hs
          simp only [insertOpt, spineOK, Bool.and_eq_true]
          refine ⟨keysSorted_insert _ _ _ hk, ?_⟩
          by_cases hfg : f = g
          · subst hfg
            simp only [↓reduceIte] at hd
            rw [VMap.get_insert_same]
            exact ih _ q' x hd hp' hq' hg
          · rw [VMap.get_insert_other _ _ _ _ hfg]
            exact hg

/-- removal (any prune flag) at a field path `p`, seen from a diverging field path `q` whose spine is
    well-formed: the value at `q` is unchanged, the spine stays well-formed, and if the location
    was dropped by compaction then nothing was stored at `q`. -/
theorem removeOpt_frame (p : Path) : ∀ (c : Option Value) (q : Path) (prune : Bool) (r : Value × Value × Bool),
    C18.diverge p q = true → fieldOnly p = true → fieldOnly q = true → spineOK c q = true →
    removeOpt c p prune = some r →
    getOpt (some r.2.1) q = getOpt c q ∧ spineOK (some r.2.1) q = true ∧
      (r.2.2 = true → getOpt c q = none) := by
  induction p with
  | nil => intro c q prune r hd; simp [C18.diverge] at hd
  | cons s rest ih =>
    intro c q prune r hd hp hq hs h
    cases q with
    | nil => simp [C18.diverge] at hd
    | cons t q' =>
      cases s with
      | index _ => simp [fieldOnly] at hp
      | field f =>
        cases t with
        | index _ => simp [fieldOnly] at hq
        | field g =>
          simp only [C18.diverge] at hd
          have hp' : fieldOnly rest = true := by simpa [fieldOnly] using hp
          have hq' : fieldOnly q' = true := by simpa [fieldOnly] using hq
          cases c with
          | none => simp [removeOpt] at h
          | some cv =>
            cases cv with
            | obj m =>
              simp only [spineOK, Bool.and_eq_true] at hs
              obtain ⟨hk, hg⟩ := hs
              simp only [removeOpt] at h
              cases hr : removeOpt (m.get f) rest prune with
              | none => rw [hr] at h; simp at h
              | some r' =>
                rw [hr] at h
                obtain ⟨prev, new, gone⟩ := r'
                simp only [Option.some.injEq] at h
                subst h
                -- the first two facts, about the new map
                have key : getOpt ((if gone = true then m.remove f else m.insert f new).get g) q' = getOpt (m.get g) q' ∧
                    spineOK ((if gone = true then m.remove f else m.insert f new).get g) q' = true := by
                  by_cases hfg : f = g
                  · subst hfg
                    simp only [↓reduceIte] at hd
                    obtain ⟨i1, i2, i3⟩ := ih (m.get f) q' prune _ hd hp' hq' hg hr
                    cases gone with
                    | true =>
                      simp only [↓reduceIte, get_remove_same m f hk]
                      exact ⟨by rw [i3 rfl]; exact C18.getOpt_none _, spineOK_none _⟩
                    | false =>
                      simp only [Bool.false_eq_true, ↓reduceIte, VMap.get_insert_same]
                      exact ⟨i1, i2⟩
                  · cases gone with
                    | true =>
                      simp only [↓reduceIte, VMap.get_remove_other m f g hfg]
                      exact ⟨trivial, hg⟩
                    | false =>
                      simp only [Bool.false_eq_true, ↓reduceIte, VMap.get_insert_other m f g new hfg]
                      exact ⟨trivial, hg⟩
                have hks : keysSorted (if gone = true then m.remove f else m.insert f new) = true := by
                  split
                  · exact keysSorted_remove m f hk
                  · exact keysSorted_insert m f new hk
                refine ⟨?_, ?_, ?_⟩
                · simp only [getOpt]; exact key.1
                · simp only [spineOK, Bool.and_eq_true]; exact ⟨hks, key.2⟩
                · intro hgone
                  simp only [Bool.and_eq_true] at hgone
                  have hempty := hgone.2
                  have : getOpt (some (Value.obj m)) (.field g :: q') =
                      getOpt ((if gone = true then m.remove f else m.insert f new).get g) q' := by
                    simp only [getOpt]; exact key.1.symm
                  rw [this]
                  cases hm' : (if gone = true then m.remove f else m.insert f new) with
                  | nil => simp only [VMap.get_nil]; exact C18.getOpt_none _
                  | cons _ _ _ => rw [hm'] at hempty; simp [VMap.isEmpty] at hempty
            | _ => simp [removeOpt] at h

end C15
