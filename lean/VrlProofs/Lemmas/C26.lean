/-
  C26: the two case tables (`convField` = `convert_value`, `toValue` = `proto_to_value`) are inverse
  on shaped values, by structural recursion over the value (mutual over `Value`/`VList`/`VMap`).
-/
import VrlProofs.Lemmas.ProtoScalar

namespace Proto

/-- the round trip of the value `x` of field `f` -/
def FieldOK (P : Prims) (lossy : Bool) (pool : Pool) (f : Field) (x : Value) : Prop :=
  ∃ pv, convField P lossy pool f x = some pv ∧ validFor f pv = true ∧
    (f.isList = true → ∃ xs, pv = .list xs) ∧
    hasValue pool f pv = !isDefaultValue pool f x ∧
    ∀ (mode : Option Bool) (g : Field), g.kind = f.kind → g.isMap = f.isMap →
      toValue pool (some g) (normOpt pool mode pv) = some (dropDefaults pool f x)

def normListOpt (pool : Pool) : Option Bool → PList → PList
  | none, xs => xs
  | some w, xs => normList pool w xs

def normMapOpt (pool : Pool) : Option Bool → PMap → PMap
  | none, es => es
  | some w, es => normMap pool w es

theorem normOpt_of_scalar (pool : Pool) (mode : Option Bool) (pv : PValue) (s : Scalar)
    (h : validKind pv (.scalar s) = true) : normOpt pool mode pv = pv := by
  cases mode with
  | none => rfl
  | some w => cases pv <;> simp_all [normOpt, normalize, validKind]

/-! ### small facts used by the recursion -/

theorem insert_of_allGt : (m : VMap) → (k : List Nat) → (x : Value) → VMap.allGt k m = true →
    m.insert k x = .cons k x m
  | .nil, _, _, _ => rfl
  | .cons l v m, k, x, h => by
    simp only [VMap.allGt, Bool.and_eq_true] at h
    simp [VMap.insert, h.1]

theorem allGt_ddEntries (pool : Pool) (vk : Kind) : (m : VMap) → (k : List Nat) →
    VMap.allGt k m = true → VMap.allGt k (ddEntries pool vk m) = true
  | .nil, _, _ => rfl
  | .cons l x rest, k, h => by
    simp only [VMap.allGt, Bool.and_eq_true] at h
    simp [ddEntries, VMap.allGt, h.1, allGt_ddEntries pool vk rest k h.2]

theorem validFor_plain (k : Kind) (pv : PValue) : validFor (Field.plain k) pv = validKind pv k := by
  cases pv <;> rfl

theorem parseMapKey_valid {ks : Scalar} {k : List Nat} {mk : MapKey} (h : parseMapKey ks k = some mk) :
    validMapKey mk ks = true := by
  unfold parseMapKey at h
  cases hc : ks.carrier <;> rw [hc] at h <;> simp only at h
  all_goals first
    | (cases h; simp [validMapKey, hc]; done)
    | (cases h; done)
    | (split at h <;> first | (cases h; simp [validMapKey, hc]; done) | (split at h <;> first | (cases h; simp [validMapKey, hc]; done) | (cases h; done)))
    | (simp only [Option.map_eq_some_iff] at h; obtain ⟨i, _, rfl⟩ := h; simp [validMapKey, hc])

/-! ### the non-recursive rows -/

def isSing : Card → Bool
  | .singular => true
  | _ => false

theorem fieldOK_scalar (P : Prims) (lossy : Bool) (pool : Pool) (nm : List Nat) (num : Nat) (s : Scalar)
    (c : Card) (x : Value) (hc : c = .singular ∨ c = .optional)
    (hd : defect pool ⟨nm, num, .scalar s, c⟩ x = none) :
    FieldOK P lossy pool ⟨nm, num, .scalar s, c⟩ x := by
  have hds : defectScalar (isSing c) s x = none := by
    rcases hc with rfl | rfl <;> cases x <;> simp_all [defect, isSing]
  have hconv : convField P lossy pool ⟨nm, num, .scalar s, c⟩ x = convScalar P lossy x s := by
    rcases hc with rfl | rfl <;> cases x <;> simp_all [defect, convField]
  have hdd : dropDefaults pool ⟨nm, num, .scalar s, c⟩ x = x := by
    rcases hc with rfl | rfl <;> cases x <;> simp [dropDefaults]
  obtain ⟨pv, h1, h2, h3, h4⟩ := rt_scalar P lossy pool (isSing c) s x hds
  refine ⟨pv, by rw [hconv, h1], ?_, ?_, ?_, ?_⟩
  · rcases hc with rfl | rfl <;> cases pv <;> simp_all [validFor, validKind]
  · rcases hc with rfl | rfl <;> (intro h; simp [Field.isList] at h)
  · rcases hc with rfl | rfl
    · simp only [hasValue, Field.presence, Bool.false_or]
      rw [h4 ⟨nm, num, .scalar s, .singular⟩ rfl rfl rfl]
    · cases x <;> simp [hasValue, Field.presence, isDefaultValue]
  · intro mode g _ _
    rw [hdd, normOpt_of_scalar pool mode pv s h2]; exact h3 (some g)

theorem fieldOK_enum (P : Prims) (lossy : Bool) (pool : Pool) (hok : pool.Ok = true) (nm : List Nat)
    (num : Nat) (e : Nat) (c : Card) (b : List Nat) (hc : c = .singular ∨ c = .optional)
    (hd : defect pool ⟨nm, num, .enum e, c⟩ (.bytes b) = none) :
    FieldOK P lossy pool ⟨nm, num, .enum e, c⟩ (.bytes b) := by
  have hd' : ∃ ed, pool.enum e = some ed ∧ ed.hasName b = true := by
    rcases hc with rfl | rfl <;> simp only [defect] at hd <;>
      (cases he : pool.enum e with
       | none => simp [he] at hd
       | some ed =>
         refine ⟨ed, rfl, ?_⟩
         simp only [he] at hd
         split at hd
         · assumption
         · cases hd)
  obtain ⟨ed, he, hn⟩ := hd'
  have hedok := enum_ok_of_pool hok he
  obtain ⟨n, hm⟩ := EnumDesc.mem_of_hasName hn
  have hlossy := EnumDesc.lossy_name hedok hm
  have hby := EnumDesc.byNameCI_of_mem hedok hm
  have hnum := EnumDesc.byNumber_of_mem hedok hm
  have hconv : convField P lossy pool ⟨nm, num, .enum e, c⟩ (.bytes b) = some (.enumNumber n) := by
    rcases hc with rfl | rfl <;> simp [convField, he, hlossy, hby]
  refine ⟨.enumNumber n, hconv, ?_, ?_, ?_, ?_⟩
  · rcases hc with rfl | rfl <;> simp [validFor, validKind]
  · rcases hc with rfl | rfl <;> (intro h; simp [Field.isList] at h)
  · rcases hc with rfl | rfl
    · simp only [hasValue, Field.presence, Bool.false_or, isDefault, Field.isList, Field.isMap,
        Bool.or_self, Bool.false_eq_true, if_false, he, isDefaultValue]
      congr 1
      by_cases hnd : n = ed.dflt
      · subst hnd
        simp [hm]
      · have : ¬ (b, ed.dflt) ∈ ed.values := fun hm' => hnd (EnumDesc.number_unique hedok hm hm')
        simp [hnd, this]
    · simp [hasValue, Field.presence, isDefaultValue]
  · intro mode g hk _
    obtain ⟨gn, gnum, gk, gc⟩ := g
    simp only at hk
    subst hk
    have hdd : dropDefaults pool ⟨nm, num, .enum e, c⟩ (.bytes b) = .bytes b := by
      rcases hc with rfl | rfl <;> simp [dropDefaults]
    have hno : normOpt pool mode (.enumNumber n) = .enumNumber n := by
      cases mode <;> simp [normOpt, normalize]
    rw [hdd, hno]
    simp [toValue, he, hnum]

theorem fieldOK_message (P : Prims) (lossy : Bool) (pool : Pool) (hok : pool.Ok = true) (nm : List Nat)
    (num : Nat) (r : Nat) (c : Card) (m : VMap) (md : MsgDesc) (hc : c = .singular ∨ c = .optional)
    (hmd : pool.msg r = some md) (hs : keysSorted m = true)
    (hkeys : ∀ k x, m.get k = some x → ∃ f, findField md.fields k = some f)
    (hl : ∀ f, findField md.fields f.name = some f →
      ∃ o, convLookup P lossy pool m f = some o ∧ FieldRT pool f (m.get f.name) o) :
    FieldOK P lossy pool ⟨nm, num, .message r, c⟩ (.obj m) := by
  have hmdok := msg_ok_of_pool hok hmd
  simp only [MsgDesc.Ok, Bool.and_eq_true] at hmdok
  obtain ⟨fs, h1, h2⟩ := message_roundtrip pool md.fields m (fun f => convLookup P lossy pool m f)
    hmdok.1 hmdok.2 hs hkeys (fun f hf => hl f (findField_of_mem md.fields f hmdok.1 hf))
  have hconv : convField P lossy pool ⟨nm, num, .message r, c⟩ (.obj m) = some (.message r fs) := by
    rcases hc with rfl | rfl <;> simp [convField, hmd, h1]
  refine ⟨.message r fs, hconv, ?_, ?_, ?_, ?_⟩
  · rcases hc with rfl | rfl <;> simp [validFor, validKind]
  · rcases hc with rfl | rfl <;> (intro h; simp [Field.isList] at h)
  · rcases hc with rfl | rfl <;>
      simp [hasValue, Field.presence, isDefault, Field.isList, Field.isMap, isDefaultValue]
  · intro mode g _ _
    have hdd : dropDefaults pool ⟨nm, num, .message r, c⟩ (.obj m) = .obj (ddMap pool md.fields m) := by
      rcases hc with rfl | rfl <;> simp [dropDefaults, hmd]
    have hno : normOpt pool mode (.message r fs) = .message r (normFieldsOpt pool md.fields mode fs) := by
      cases mode <;> simp [normOpt, normFieldsOpt, normalize, hmd]
    rw [hdd, hno]
    simp [toValue, hmd, h2 mode]

def isLeaf : Value → Bool
  | .null => false
  | .arr _ => false
  | .obj _ => false
  | _ => true

theorem fieldOK_leaf (P : Prims) (lossy : Bool) (pool : Pool) (hok : pool.Ok = true) (f : Field) (x : Value)
    (hl : isLeaf x = true) (hd : defect pool f x = none) : FieldOK P lossy pool f x := by
  obtain ⟨nm, num, k, c⟩ := f
  cases x <;> first
    | (simp [isLeaf] at hl; done)
    | (cases c <;> cases k <;>
        first
        | (simp [defect] at hd; done)
        | exact fieldOK_scalar P lossy pool nm num _ _ _ (Or.inl rfl) hd
        | exact fieldOK_scalar P lossy pool nm num _ _ _ (Or.inr rfl) hd
        | exact fieldOK_enum P lossy pool hok nm num _ _ _ (Or.inl rfl) hd
        | exact fieldOK_enum P lossy pool hok nm num _ _ _ (Or.inr rfl) hd)

theorem defectMap_keys (pool : Pool) (fields : List Field) : (m : VMap) → defectMap pool fields m = none →
    ∀ k x, m.get k = some x → ∃ f, findField fields k = some f
  | .nil, _, k, x, h => by simp [VMap.get] at h
  | .cons l y rest, hd, k, x, h => by
    simp only [defectMap] at hd
    cases hfl : findField fields l with
    | none => simp [hfl] at hd
    | some f' =>
      simp only [hfl] at hd
      cases hdy : defect pool f' y with
      | some d => simp [hdy] at hd
      | none =>
        simp only [hdy] at hd
        by_cases hk : l = k
        · subst hk; exact ⟨f', hfl⟩
        · simp only [VMap.get, hk, if_false] at h
          exact defectMap_keys pool fields rest hd k x h

theorem canonicalKey_spec {ks : Scalar} {k : List Nat} (h : canonicalKey ks k = true) :
    ∃ mk, parseMapKey ks k = some mk ∧ showMapKey mk = k := by
  unfold canonicalKey at h
  cases hp : parseMapKey ks k with
  | none => simp [hp] at h
  | some mk =>
    simp only [hp, beq_iff_eq] at h
    exact ⟨mk, rfl, h⟩

/-! ### the recursion over the value -/

mutual
  theorem rt_field (P : Prims) (lossy : Bool) (pool : Pool) (hok : pool.Ok = true) :
      (f : Field) → (x : Value) → x.Sorted = true → defect pool f x = none → FieldOK P lossy pool f x
    | f, .null, _, hd => by simp [defect] at hd
    | f, .bool b, _, hd => fieldOK_leaf P lossy pool hok f (.bool b) rfl hd
    | f, .int i, _, hd => fieldOK_leaf P lossy pool hok f (.int i) rfl hd
    | f, .float b, _, hd => fieldOK_leaf P lossy pool hok f (.float b) rfl hd
    | f, .bytes b, _, hd => fieldOK_leaf P lossy pool hok f (.bytes b) rfl hd
    | f, .ts t, _, hd => fieldOK_leaf P lossy pool hok f (.ts t) rfl hd
    | f, .regex r, _, hd => fieldOK_leaf P lossy pool hok f (.regex r) rfl hd
    | ⟨nm, num, k, c⟩, .arr a, hs, hd => by
      cases c with
      | repeated =>
        simp only [defect] at hd
        simp only [Value.Sorted] at hs
        obtain ⟨xs, h1, h2, h3, h4⟩ := rt_list P lossy pool hok k a hs hd
        refine ⟨.list xs, by simp [convField, h1], by simp [validFor, h2], fun _ => ⟨xs, rfl⟩, ?_, ?_⟩
        · simp only [hasValue, Field.presence, Bool.false_or, isDefault, Field.isList, Bool.true_and, h3]
          cases a <;> simp [isDefaultValue, VList.isEmpty]
        · intro mode g hk hm
          simp only at hk
          have hm' : g.isMap = false := hm
          have hno : normOpt pool mode (.list xs) = .list (normListOpt pool mode xs) := by
            cases mode <;> simp [normOpt, normListOpt, normalize]
          rw [hno]
          simp [toValue, h4 mode g hk hm', dropDefaults]
      | singular => simp [defect] at hd
      | optional => simp [defect] at hd
      | map ks => simp [defect] at hd
    | ⟨nm, num, k, c⟩, .obj m, hs, hd => by
      simp only [Value.Sorted] at hs
      cases c with
      | map ks =>
        simp only [defect] at hd
        obtain ⟨es, h1, h2, h3, _, h5⟩ := rt_entries P lossy pool hok ks k m hs hd
        refine ⟨.map es, by simp [convField, h1], by simp [validFor, h2],
          by intro h; simp [Field.isList] at h, ?_, ?_⟩
        · simp only [hasValue, Field.presence, Bool.false_or, isDefault, Field.isMap, Bool.true_and, h3]
          cases m <;> simp [isDefaultValue, VMap.isEmpty]
        · intro mode g hk hm
          simp only at hk
          have hm' : g.isMap = true := hm
          have := h5 mode g.entryValue (by simp [Field.entryValue, hk]) (by simp [Field.entryValue, Field.isMap])
          have hno : normOpt pool mode (.map es) = .map (normMapOpt pool mode es) := by
            cases mode <;> simp [normOpt, normMapOpt, normalize]
          rw [hno]
          simp [toValue, hm', this, dropDefaults]
      | repeated => simp [defect] at hd
      | singular =>
        cases k with
        | message r =>
          simp only [defect] at hd
          cases hmd : pool.msg r with
          | none => simp [hmd] at hd
          | some md =>
            simp only [hmd] at hd
            exact fieldOK_message P lossy pool hok nm num r .singular m md (Or.inl rfl) hmd
              (keysSorted_of_sorted m hs) (defectMap_keys pool md.fields m hd)
              (rt_lookup P lossy pool hok md.fields m hs hd)
        | enum e => simp [defect] at hd
        | scalar s => exact fieldOK_scalar P lossy pool nm num s .singular _ (Or.inl rfl) hd
      | optional =>
        cases k with
        | message r =>
          simp only [defect] at hd
          cases hmd : pool.msg r with
          | none => simp [hmd] at hd
          | some md =>
            simp only [hmd] at hd
            exact fieldOK_message P lossy pool hok nm num r .optional m md (Or.inr rfl) hmd
              (keysSorted_of_sorted m hs) (defectMap_keys pool md.fields m hd)
              (rt_lookup P lossy pool hok md.fields m hs hd)
        | enum e => simp [defect] at hd
        | scalar s => exact fieldOK_scalar P lossy pool nm num s .optional _ (Or.inr rfl) hd
  theorem rt_list (P : Prims) (lossy : Bool) (pool : Pool) (hok : pool.Ok = true) :
      (k : Kind) → (a : VList) → a.Sorted = true → defectList pool k a = none →
      ∃ xs, convList P lossy pool a k = some xs ∧ xs.allValid k = true ∧ xs.isEmpty = a.isEmpty ∧
        ∀ (mode : Option Bool) (g : Field), g.kind = k → g.isMap = false →
          toValueList pool (some g) (normListOpt pool mode xs) = some (ddList pool k a)
    | k, .nil, _, _ => ⟨.nil, rfl, rfl, rfl, fun mode _ _ _ => by cases mode <;> rfl⟩
    | k, .cons x xs, hs, hd => by
      simp only [VList.Sorted, Bool.and_eq_true] at hs
      simp only [defectList] at hd
      cases hdx : defect pool (Field.plain k) x with
      | some d => simp [hdx] at hd
      | none =>
        simp only [hdx] at hd
        obtain ⟨pv, h1, h2, _, _, h4⟩ := rt_field P lossy pool hok (Field.plain k) x hs.1 hdx
        obtain ⟨pvs, g1, g2, _, g4⟩ := rt_list P lossy pool hok k xs hs.2 hd
        refine ⟨.cons pv pvs, by simp [convList, h1, g1], ?_, rfl, ?_⟩
        · rw [validFor_plain] at h2; simp [PList.allValid, h2, g2]
        · intro mode g hk hm
          have e1 := h4 mode g (by simpa [Field.plain] using hk) (by simpa [Field.plain, Field.isMap] using hm)
          have e2 := g4 mode g hk hm
          have hno : normListOpt pool mode (.cons pv pvs) = .cons (normOpt pool mode pv) (normListOpt pool mode pvs) := by
            cases mode <;> simp [normOpt, normListOpt, normList]
          rw [hno]
          simp [toValueList, e1, e2, ddList]
  theorem rt_entries (P : Prims) (lossy : Bool) (pool : Pool) (hok : pool.Ok = true) :
      (ks : Scalar) → (vk : Kind) → (m : VMap) → m.Sorted = true → defectEntries pool ks vk m = none →
      ∃ es, convEntries P lossy pool m ks vk = some es ∧ es.allValid ks vk = true ∧
        es.isEmpty = m.isEmpty ∧
        (∀ mk, es.has mk = true → (m.get (showMapKey mk)).isSome = true) ∧
        ∀ (mode : Option Bool) (vf : Field), vf.kind = vk → vf.isMap = false →
          toValueEntries pool vf (normMapOpt pool mode es) = some (ddEntries pool vk m)
    | ks, vk, .nil, _, _ =>
      ⟨.nil, rfl, rfl, rfl, by intro mk h; simp [PMap.has] at h, fun mode _ _ _ => by cases mode <;> rfl⟩
    | ks, vk, .cons k x rest, hs, hd => by
      simp only [VMap.Sorted, Bool.and_eq_true] at hs
      simp only [defectEntries] at hd
      split at hd
      · rename_i hcan
        cases hdx : defect pool (Field.plain vk) x with
        | some d => simp [hdx] at hd
        | none =>
          simp only [hdx] at hd
          obtain ⟨mk, hparse, hshow⟩ := canonicalKey_spec hcan
          obtain ⟨pv, h1, h2, _, _, h4⟩ := rt_field P lossy pool hok (Field.plain vk) x hs.1.1 hdx
          obtain ⟨es, e1, e2, _, e4, e5⟩ := rt_entries P lossy pool hok ks vk rest hs.2 hd
          have hnew : es.has mk = false := by
            cases hh : es.has mk with
            | false => rfl
            | true =>
              have := e4 mk hh
              rw [hshow, get_none_of_allGt rest k k hs.1.2 (Or.inl rfl)] at this
              cases this
          refine ⟨.cons mk pv es, by simp [convEntries, hparse, h1, e1, PMap.setNew, hnew], ?_, rfl, ?_, ?_⟩
          · rw [validFor_plain] at h2
            simp [PMap.allValid, parseMapKey_valid hparse, h2, e2]
          · intro mk' h
            simp only [PMap.has, Bool.or_eq_true, beq_iff_eq] at h
            rcases h with h | h
            · subst h; simp [VMap.get, hshow]
            · have := e4 mk' h
              simp only [VMap.get]
              split
              · rfl
              · exact this
          · intro mode vf hk hm
            have t1 := h4 mode vf (by simpa [Field.plain] using hk) (by simpa [Field.plain, Field.isMap] using hm)
            have hag := allGt_ddEntries pool vk rest k hs.1.2
            have hno : normMapOpt pool mode (.cons mk pv es) = .cons mk (normOpt pool mode pv) (normMapOpt pool mode es) := by
              cases mode <;> simp [normOpt, normMapOpt, normMap]
            rw [hno]
            simp [toValueEntries, t1, e5 mode vf hk hm, ddEntries, hshow, insertNew,
              get_none_of_allGt _ k k hag (Or.inl rfl), insert_of_allGt _ k _ hag]
      · cases hd
  theorem rt_lookup (P : Prims) (lossy : Bool) (pool : Pool) (hok : pool.Ok = true) :
      (fields : List Field) → (m : VMap) → m.Sorted = true → defectMap pool fields m = none →
      ∀ f, findField fields f.name = some f →
        ∃ o, convLookup P lossy pool m f = some o ∧ FieldRT pool f (m.get f.name) o
    | fields, .nil, _, _, f, _ => ⟨none, by simp [convLookup], by simp [FieldRT, VMap.get]⟩
    | fields, .cons k x rest, hs, hd, f, hf => by
      simp only [VMap.Sorted, Bool.and_eq_true] at hs
      simp only [defectMap] at hd
      cases hfk : findField fields k with
      | none => simp [hfk] at hd
      | some f' =>
        simp only [hfk] at hd
        cases hdx : defect pool f' x with
        | some d => simp [hdx] at hd
        | none =>
          simp only [hdx] at hd
          by_cases hk : k = f.name
          · subst hk
            rw [hf] at hfk
            cases hfk
            obtain ⟨pv, h1, h2, hl, h3, h4⟩ := rt_field P lossy pool hok f x hs.1.1 hdx
            refine ⟨some pv, ?_, ?_⟩
            · simp only [convLookup, if_true, h1]
              cases x <;> first | (simp [defect] at hdx; done) | rfl
            · simp only [FieldRT, VMap.get, if_true]
              exact ⟨pv, rfl, h2, hl, h3, fun mode => h4 mode f rfl rfl⟩
          · obtain ⟨o, h1, h2⟩ := rt_lookup P lossy pool hok fields rest hs.2 hd f hf
            refine ⟨o, ?_, ?_⟩
            · simp [convLookup, hk, h1]
            · simpa [VMap.get, hk] using h2
end

end Proto
