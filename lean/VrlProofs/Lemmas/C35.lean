/-
  Helper lemmas for C35 (VrlModel/Conversion.lean): decimal integer text, boolean spellings.
-/
import VrlModel.Conversion

namespace Cnv

/-! ### `natDigits` -/

theorem natDigits_lt (n : Nat) (h : n < 10) : natDigits n = [48 + n] := by
  rw [natDigits]; simp [h]

theorem natDigits_ge (n : Nat) (h : ¬ n < 10) : natDigits n = natDigits (n / 10) ++ [48 + n % 10] := by
  rw [natDigits]; simp [h]

/-- every digit is an ASCII digit -/
theorem natDigits_digits (n : Nat) : ∀ d ∈ natDigits n, 48 ≤ d ∧ d ≤ 57 := by
  induction n using Nat.strongRecOn with
  | _ n ih =>
    by_cases h : n < 10
    · rw [natDigits_lt n h]; intro d hd; simp at hd; omega
    · rw [natDigits_ge n h]
      intro d hd
      simp only [List.mem_append, List.mem_singleton] at hd
      rcases hd with hd | hd
      · exact ih (n / 10) (by omega) d hd
      · omega

theorem natDigits_ne_nil (n : Nat) : natDigits n ≠ [] := by
  by_cases h : n < 10
  · rw [natDigits_lt n h]; simp
  · rw [natDigits_ge n h]; simp

/-! ### the digit loops -/

theorem accPos_append (acc : Int) (xs ys : List Nat) :
    accPos acc (xs ++ ys) = (accPos acc xs).bind (fun a => accPos a ys) := by
  induction xs generalizing acc with
  | nil => simp [accPos]
  | cons d ds ih =>
    simp only [List.cons_append, accPos]
    split
    · simp
    · split
      · simp
      · split
        · simp
        · exact ih _

theorem accNeg_append (acc : Int) (xs ys : List Nat) :
    accNeg acc (xs ++ ys) = (accNeg acc xs).bind (fun a => accNeg a ys) := by
  induction xs generalizing acc with
  | nil => simp [accNeg]
  | cons d ds ih =>
    simp only [List.cons_append, accNeg]
    split
    · simp
    · split
      · simp
      · split
        · simp
        · exact ih _

/-- the positive loop reads back the digits of every `n ≤ i64::MAX` -/
theorem accPos_natDigits (n : Nat) (h : (n : Int) ≤ i64Max) : accPos 0 (natDigits n) = some (n : Int) := by
  induction n using Nat.strongRecOn with
  | _ n ih =>
    have hM : i64Max = 9223372036854775807 := rfl
    by_cases hn : n < 10
    · rw [natDigits_lt n hn]
      have e : 48 + n - 48 = n := by omega
      simp only [accPos, e]
      split
      · omega
      · split
        · omega
        · split
          · omega
          · simp
    · rw [natDigits_ge n hn, accPos_append, ih (n / 10) (by omega) (by omega)]
      have e : 48 + n % 10 - 48 = n % 10 := by omega
      simp only [Option.bind_some, accPos, e]
      have hq : ((n / 10 : Nat) : Int) * 10 + ((n % 10 : Nat) : Int) = (n : Int) := by omega
      split
      · omega
      · split
        · omega
        · split
          · omega
          · simp only [Option.some.injEq]; omega

/-- the negative loop reads back the digits of every `n ≤ 2^63` as `-n` -/
theorem accNeg_natDigits (n : Nat) (h : i64Min ≤ -(n : Int)) : accNeg 0 (natDigits n) = some (-(n : Int)) := by
  induction n using Nat.strongRecOn with
  | _ n ih =>
    have hM : i64Min = -9223372036854775808 := rfl
    by_cases hn : n < 10
    · rw [natDigits_lt n hn]
      have e : 48 + n - 48 = n := by omega
      simp only [accNeg, e]
      split
      · omega
      · split
        · omega
        · split
          · omega
          · simp
    · rw [natDigits_ge n hn, accNeg_append, ih (n / 10) (by omega) (by omega)]
      have e : 48 + n % 10 - 48 = n % 10 := by omega
      simp only [Option.bind_some, accNeg, e]
      have hq : -((n / 10 : Nat) : Int) * 10 - ((n % 10 : Nat) : Int) = -(n : Int) := by omega
      split
      · omega
      · split
        · omega
        · split
          · omega
          · simp only [Option.some.injEq]; omega

/-- a text whose first byte is a digit goes to the unsigned branch -/
theorem parseI64_digit_head (d : Nat) (ds : List Nat) (h : 48 ≤ d ∧ d ≤ 57) :
    parseI64 (d :: ds) = accPos 0 (d :: ds) := by
  unfold parseI64
  split <;> first | rfl | (simp_all; try omega)

theorem parseI64_natDigits (n : Nat) : parseI64 (natDigits n) = accPos 0 (natDigits n) := by
  have hd := natDigits_digits n
  have hne := natDigits_ne_nil n
  cases hl : natDigits n with
  | nil => exact absurd hl hne
  | cons d ds =>
    rw [hl] at hd
    exact parseI64_digit_head d ds (hd d (by simp))

theorem parseI64_neg_natDigits (n : Nat) : parseI64 (45 :: natDigits n) = accNeg 0 (natDigits n) := by
  have hne := natDigits_ne_nil n
  cases hl : natDigits n with
  | nil => exact absurd hl hne
  | cons d ds => rfl

/-! ### results are in range; accepted texts are sign + digits -/

theorem accPos_range (acc : Int) (ds : List Nat) (v : Int) (h0 : 0 ≤ acc ∧ acc ≤ i64Max)
    (h : accPos acc ds = some v) : 0 ≤ v ∧ v ≤ i64Max := by
  induction ds generalizing acc with
  | nil => simp [accPos] at h; subst h; exact h0
  | cons d ds ih =>
    simp only [accPos] at h
    split at h
    · simp at h
    · split at h
      · simp at h
      · split at h
        · simp at h
        · refine ih _ ?_ h
          have hM : i64Max = 9223372036854775807 := rfl
          omega

theorem accNeg_range (acc : Int) (ds : List Nat) (v : Int) (h0 : i64Min ≤ acc ∧ acc ≤ 0)
    (h : accNeg acc ds = some v) : i64Min ≤ v ∧ v ≤ 0 := by
  induction ds generalizing acc with
  | nil => simp [accNeg] at h; subst h; exact h0
  | cons d ds ih =>
    simp only [accNeg] at h
    split at h
    · simp at h
    · split at h
      · simp at h
      · split at h
        · simp at h
        · refine ih _ ?_ h
          have hM : i64Min = -9223372036854775808 := rfl
          omega

theorem accPos_all_digits (acc : Int) (ds : List Nat) (v : Int) (h : accPos acc ds = some v) :
    ∀ d ∈ ds, 48 ≤ d ∧ d ≤ 57 := by
  induction ds generalizing acc with
  | nil => simp
  | cons d ds ih =>
    simp only [accPos] at h
    split at h
    · simp at h
    · split at h
      · simp at h
      · split at h
        · simp at h
        · intro x hx
          simp only [List.mem_cons] at hx
          rcases hx with rfl | hx
          · omega
          · exact ih _ h x hx

theorem accNeg_all_digits (acc : Int) (ds : List Nat) (v : Int) (h : accNeg acc ds = some v) :
    ∀ d ∈ ds, 48 ≤ d ∧ d ≤ 57 := by
  induction ds generalizing acc with
  | nil => simp
  | cons d ds ih =>
    simp only [accNeg] at h
    split at h
    · simp at h
    · split at h
      · simp at h
      · split at h
        · simp at h
        · intro x hx
          simp only [List.mem_cons] at hx
          rcases hx with rfl | hx
          · omega
          · exact ih _ h x hx

/-- the three shapes of an accepted text -/
theorem parseI64_cases (s : List Nat) (v : Int) (h : parseI64 s = some v) :
    (∃ ds, s = 43 :: ds ∧ ds ≠ [] ∧ accPos 0 ds = some v) ∨
    (∃ ds, s = 45 :: ds ∧ ds ≠ [] ∧ accNeg 0 ds = some v) ∨
    (s ≠ [] ∧ accPos 0 s = some v) := by
  unfold parseI64 at h
  split at h
  · simp at h
  · simp at h
  · simp at h
  · rename_i ds h1
    exact .inl ⟨ds, rfl, by intro e; subst e; exact h1 rfl, h⟩
  · rename_i ds h1
    exact .inr (.inl ⟨ds, rfl, by intro e; subst e; exact h1 rfl, h⟩)
  · rename_i h0 _ _ _ _
    exact .inr (.inr ⟨by intro e; subst e; exact h0 rfl, h⟩)

/-! ### boolean words -/

theorem lowerByte_eq (b a : Nat) (h : lowerByte b = a) : b = a ∨ b + 32 = a := by
  unfold lowerByte at h
  split at h <;> omega

theorem lowerAscii_cons (s : List Nat) (a : Nat) (w : List Nat) (h : lowerAscii s = a :: w) :
    ∃ b r, s = b :: r ∧ lowerByte b = a ∧ lowerAscii r = w := by
  cases s with
  | nil => simp [lowerAscii] at h
  | cons b r =>
    simp only [lowerAscii, List.map_cons, List.cons.injEq] at h
    exact ⟨b, r, rfl, h.1, h.2⟩

theorem lowerAscii_nil (s : List Nat) (h : lowerAscii s = []) : s = [] := by
  cases s with
  | nil => rfl
  | cons b r => simp [lowerAscii] at h

/-- a text that lowercases to a word beginning with a lowercase letter starts with a letter,
    so it is not a number -/
theorem parseI64_none_of_letter (b : Nat) (r : List Nat) (h : 65 ≤ b) : parseI64 (b :: r) = none := by
  unfold parseI64
  split
  · rfl
  · rfl
  · rfl
  · rename_i heq; simp at heq; omega
  · rename_i heq; simp at heq; omega
  · simp only [accPos]
    split
    · rfl
    · omega

end Cnv
