/-
  Helper lemmas for the CSV part of C24: the csv-core NFA (`Csv.readFields`) reading what the
  csv-core writer (`Csv.writeField`/`Csv.joinFields`) wrote.
-/
import VrlModel.Csv

namespace Csv

theorem special_false {d b : Nat} (h : special d b = false) :
    b ≠ d ∧ b ≠ 34 ∧ b ≠ 13 ∧ b ≠ 10 := by
  simp [special, QUOTE, CR, LF] at h
  omega

theorem delimOK_iff {d : Nat} : delimOK d = true ↔ d ≠ 34 ∧ d ≠ 13 ∧ d ≠ 10 := by
  simp [delimOK, QUOTE, CR, LF, and_assoc]

/-- plain bytes are copied while in an unquoted field. -/
theorem read_plain_inField (d : Nat) (f : List Nat) : ∀ (R cur : List Nat),
    (∀ b ∈ f, special d b = false) →
    readFields d .inField (f ++ R) cur = readFields d .inField R (cur ++ f) := by
  induction f with
  | nil => intro R cur _; simp
  | cons b f ih =>
    intro R cur h
    obtain ⟨h1, h2, h3, h4⟩ := special_false (h b (by simp))
    have ih' := ih R (cur ++ [b]) (fun x hx => h x (by simp [hx]))
    simp only [List.cons_append, readFields, isTerm, CR, LF]
    simp [h1, h3, h4, ih']

/-- a plain (unquoted) field read from `StartField`. -/
theorem read_plain_startField (d : Nat) (f : List Nat) (R : List Nat)
    (h : ∀ b ∈ f, special d b = false) (hne : f ≠ []) :
    readFields d .startField (f ++ R) [] = readFields d .inField R f := by
  cases f with
  | nil => exact absurd rfl hne
  | cons b f =>
    obtain ⟨h1, h2, h3, h4⟩ := special_false (h b (by simp))
    have := read_plain_inField d f R [b] (fun x hx => h x (by simp [hx]))
    simp only [List.cons_append, readFields, isTerm, CR, LF, QUOTE]
    simp [h1, h2, h3, h4, this]

/-- the body of a quoted field followed by the closing quote. -/
theorem read_quoted_body (d : Nat) (f : List Nat) : ∀ (R cur : List Nat),
    readFields d .inQuoted (quoteBody f ++ QUOTE :: R) cur
      = readFields d .inDoubleEsc R (cur ++ f) := by
  induction f with
  | nil => intro R cur; simp [quoteBody, readFields]
  | cons b f ih =>
    intro R cur
    by_cases hb : b = QUOTE
    · subst hb
      have := ih R (cur ++ [QUOTE])
      simp [quoteBody, readFields, this]
    · have := ih R (cur ++ [b])
      simp [quoteBody, readFields, hb, this]

/-- states in which a field can end: what happens at end of input and at a delimiter. -/
inductive FieldEnd : St → List Nat → Prop where
  | start : FieldEnd .startField []
  | inField (cur : List Nat) : FieldEnd .inField cur
  | dbl (cur : List Nat) : FieldEnd .inDoubleEsc cur

theorem read_end_eof (d : Nat) {st : St} {cur : List Nat} (_h : FieldEnd st cur) :
    readFields d st [] cur = [cur] := by
  cases st <;> simp [readFields]

theorem read_end_delim (d : Nat) (hd : delimOK d = true) {st : St} {cur : List Nat}
    (h : FieldEnd st cur) (R : List Nat) :
    readFields d st (d :: R) cur = cur :: readFields d .startField R [] := by
  obtain ⟨h1, _, _⟩ := delimOK_iff.mp hd
  cases h <;> simp [readFields, QUOTE, h1]

/-- one written field, read back from `StartField`: the reader ends in a field-end state holding
    exactly the field. -/
theorem read_writeField (d : Nat) (f R : List Nat) :
    ∃ st, FieldEnd st f ∧
      readFields d .startField (writeField d f ++ R) [] = readFields d st R f := by
  unfold writeField
  by_cases hq : needsQuotes d f = true
  · refine ⟨.inDoubleEsc, .dbl f, ?_⟩
    have := read_quoted_body d f R []
    simp only [hq, if_true, List.cons_append, List.append_assoc]
    simp [readFields, this]
  · have hq' : ∀ b ∈ f, special d b = false := by
      simpa [needsQuotes] using hq
    by_cases hne : f = []
    · subst hne
      exact ⟨.startField, .start, by simp [needsQuotes]⟩
    · refine ⟨.inField, .inField f, ?_⟩
      simp only [hq, Bool.false_eq_true, if_false]
      exact read_plain_startField d f R hq' hne

/-- the fields of a written record are read back one by one. -/
theorem read_joinFields (d : Nat) (hd : delimOK d = true) : ∀ (fs : List (List Nat)) (f : List Nat),
    readFields d .startField (joinFields d (f :: fs)) [] = f :: fs := by
  intro fs
  induction fs with
  | nil =>
    intro f
    obtain ⟨st, hst, h⟩ := read_writeField d f []
    simp only [joinFields]
    simp only [List.append_nil] at h
    rw [h, read_end_eof d hst]
  | cons g r ih =>
    intro f
    obtain ⟨st, hst, h⟩ := read_writeField d f (d :: joinFields d (g :: r))
    simp only [joinFields]
    rw [h, read_end_delim d hd hst, ih g]

/-- the first byte of a written record is never a record terminator. -/
theorem joinFields_head (d : Nat) (hd : delimOK d = true) (fs : List (List Nat)) (b : Nat)
    (t : List Nat) (h : joinFields d fs = b :: t) : isTerm b = false := by
  obtain ⟨_, h2, h3⟩ := delimOK_iff.mp hd
  have field_head : ∀ (f X : List Nat), writeField d f ++ X = b :: t →
      f ≠ [] ∨ needsQuotes d f = true → isTerm b = false := by
    intro f X hx hf
    unfold writeField at hx
    by_cases hq : needsQuotes d f = true
    · simp only [hq, if_true, List.cons_append] at hx
      have : b = QUOTE := by cases hx; rfl
      simp [this, isTerm, QUOTE, CR, LF]
    · simp only [hq, Bool.false_eq_true, if_false] at hx
      cases f with
      | nil => simp [needsQuotes] at hf
      | cons c f' =>
        have hc : special d c = false := by
          have : ∀ x ∈ c :: f', special d x = false := by simpa [needsQuotes] using hq
          exact this c (by simp)
        obtain ⟨_, _, c3, c4⟩ := special_false hc
        have : b = c := by cases hx; rfl
        simp [this, isTerm, CR, LF, c3, c4]
  cases fs with
  | nil => simp [joinFields] at h
  | cons f r =>
    cases r with
    | nil =>
      simp only [joinFields] at h
      by_cases hf : f = []
      · subst hf; simp [writeField, needsQuotes] at h
      · exact field_head f [] (by simpa using h) (Or.inl hf)
    | cons g r' =>
      simp only [joinFields] at h
      by_cases hf : f = []
      · subst hf
        simp only [writeField, needsQuotes, List.any_nil, Bool.false_eq_true, if_false,
          List.nil_append] at h
        have : b = d := by cases h; rfl
        simp [this, isTerm, CR, LF, h2, h3]
      · exact field_head f _ h (Or.inl hf)

/-- a record whose written form is empty is the single empty field. -/
theorem joinFields_eq_nil (d : Nat) (fs : List (List Nat)) (hne : fs ≠ [])
    (h : joinFields d fs = []) : fs = [[]] := by
  cases fs with
  | nil => exact absurd rfl hne
  | cons f r =>
    cases r with
    | nil =>
      simp only [joinFields, writeField] at h
      by_cases hq : needsQuotes d f = true
      · simp [hq] at h
      · simp only [hq, Bool.false_eq_true, if_false] at h
        simp [h]
    | cons g r' =>
      simp [joinFields] at h

theorem stripBom_of_not_bom (s : List Nat) (h : startsWithBom s = false) : stripBom s = s := by
  unfold stripBom
  split
  · simp [startsWithBom] at h
  · rfl

end Csv
