/-
  Helper lemmas for C25 (unflatten): with a non-empty separator the depth bound of the model is
  never exhausted, i.e. the model's `.panic` (stack overflow) outcome needs `separator: ""`.
-/
import VrlProofs.Lemmas.C25Split
import VrlModel.C25

namespace Conv.Flat

/-- size of a list of entries: key bytes, one per entry, weight of the values -/
def mu (es : Entries) : Nat := (es.map fun e => e.1.length + 1 + weight e.2).sum

theorem mu_cons (e : Key × Value) (es : Entries) : mu (e :: es) = e.1.length + 1 + weight e.2 + mu es := by
  simp [mu]

theorem mu_toList : (m : VMap) → mu (toList m) = weightM m
  | .nil => rfl
  | .cons k v rest => by simp [toList, mu_cons, weightM, mu_toList rest]

theorem weight_le_mu (es : Entries) (e : Key × Value) (he : e ∈ es) : weight e.2 + 1 ≤ mu es := by
  induction es with
  | nil => simp at he
  | cons a es ih =>
    rw [mu_cons]
    rcases List.mem_cons.mp he with h | h
    · subst h; omega
    · have := ih h; omega

def φ (t : Triple) : Option (Key × Value) := t.2.1.map fun r => (r, t.2.2)

def tripleOf (sep : Key) (e : Key × Value) : Triple :=
  ((headRest sep e.1).1, (headRest sep e.1).2, e.2)

theorem phi_triple (sep : Key) (hne : sep ≠ []) (e : Key × Value) :
    φ (tripleOf sep e) = none ∨
      ∃ r, φ (tripleOf sep e) = some (r, e.2) ∧ r.length + 1 ≤ e.1.length := by
  cases hso : splitOnce sep e.1 with
  | none => left; simp [φ, tripleOf, headRest, hso]
  | some p =>
    obtain ⟨hd, r⟩ := p
    right
    have hk := splitOnce_eq sep e.1 hd r hso
    have hsl : 0 < sep.length := by cases sep <;> simp_all
    refine ⟨r, by simp [φ, tripleOf, headRest, hso], ?_⟩
    rw [hk]; simp; omega

theorem triplesOf_eq (sep : Key) (es : Entries) : triplesOf sep es = es.map (tripleOf sep) := rfl

/-- the rests passed down for one head are smaller than the entries they come from, by at
    least one byte (of the separator) each -/
theorem mu_rests (sep : Key) (hne : sep ≠ []) (h : Key) : ∀ (es : Entries),
    mu (((triplesOf sep es).filter fun t => t.1 == h).filterMap φ) +
      (((triplesOf sep es).filter fun t => t.1 == h).filterMap φ).length ≤ mu es := by
  intro es
  induction es with
  | nil => simp [triplesOf, mu]
  | cons e es ih =>
    rw [triplesOf_eq] at ih ⊢
    rw [List.map_cons, mu_cons, List.filter_cons]
    split
    · rw [List.filterMap_cons]
      rcases phi_triple sep hne e with hp | ⟨r, hp, hlen⟩
      · rw [hp]; simp only; omega
      · rw [hp]
        simp only [List.length_cons]
        rw [mu_cons]
        simp only
        omega
    · omega

theorem mem_triples_value (sep : Key) (es : Entries) (t : Triple) (ht : t ∈ triplesOf sep es) :
    ∃ e ∈ es, t.2.2 = e.2 := by
  simp only [triplesOf, List.mem_map] at ht
  obtain ⟨e, he, rfl⟩ := ht
  exact ⟨e, he, rfl⟩

theorem mapM_isSome {α β : Type} (f : α → Option β) : (l : List α) →
    (∀ x ∈ l, (f x).isSome = true) → (l.mapM f).isSome = true
  | [], _ => rfl
  | a :: l, h => by
    have h1 := h a (by simp)
    have h2 := mapM_isSome f l (fun x hx => h x (by simp [hx]))
    obtain ⟨b, hb⟩ := Option.isSome_iff_exists.mp h1
    obtain ⟨bs, hbs⟩ := Option.isSome_iff_exists.mp h2
    simp [List.mapM_cons, hb, hbs]

theorem leafWith_isSome (recur : Entries → Option VMap) (fuel : Nat)
    (hrec : ∀ es', mu es' < fuel → (recur es').isSome = true) (r : Bool) (v : Value)
    (hv : weight v ≤ fuel) : (leafWith recur r v).isSome = true := by
  unfold leafWith
  cases r with
  | false => rfl
  | true =>
    cases v with
    | obj m =>
      simp only [↓reduceIte, Option.isSome_map]
      apply hrec
      rw [mu_toList]
      simp only [weight] at hv
      omega
    | _ => rfl

theorem unflattenStep_isSome (sep : Key) (hne : sep ≠ []) (r : Bool) (fuel : Nat)
    (recur : Entries → Option VMap) (hrec : ∀ es', mu es' < fuel → (recur es').isSome = true)
    (es : Entries) (hmu : mu es < fuel + 1) : (unflattenStep recur sep r es).isSome = true := by
  unfold unflattenStep
  simp only [Option.isSome_map]
  apply mapM_isSome
  intro h hh
  simp only [Option.isSome_map]
  -- a value of the group is a value of an entry
  have hval : ∀ t ∈ (triplesOf sep es).filter (fun t => t.1 == h), weight t.2.2 ≤ fuel := by
    intro t ht
    obtain ⟨e, he, hte⟩ := mem_triples_value sep es t (List.mem_filter.mp ht).1
    have := weight_le_mu es e he
    rw [hte]; omega
  have hrests := mu_rests sep hne h es
  have hpos : 1 ≤ fuel ∨ es = [] := by
    cases es with
    | nil => exact Or.inr rfl
    | cons e es => left; rw [mu_cons] at hmu; omega
  have hthird : (recur (((triplesOf sep es).filter fun t => t.1 == h).filterMap φ)).isSome = true := by
    apply hrec
    rcases hpos with hp | hp
    · cases hl : (((triplesOf sep es).filter fun t => t.1 == h).filterMap φ) with
      | nil => simp [mu]; omega
      | cons a l => rw [hl] at hrests; simp only [List.length_cons] at hrests; omega
    · subst hp; simp [triplesOf, mu] at hh
      simp [dedup] at hh
  cases hg : (triplesOf sep es).filter (fun t => t.1 == h) with
  | nil =>
    rw [hg] at hthird
    simp only [groupValueWith, Option.isSome_map]
    exact hthird
  | cons t1 ts =>
    cases ts with
    | nil =>
      have hv := hval t1 (by rw [hg]; simp)
      obtain ⟨a, ro, v⟩ := t1
      cases ro with
      | none => simpa [groupValueWith] using leafWith_isSome recur fuel hrec r v hv
      | some rest =>
        simp only [groupValueWith, Option.isSome_map]
        exact leafWith_isSome recur fuel hrec r v hv
    | cons t2 ts =>
      rw [hg] at hthird
      simp only [groupValueWith, Option.isSome_map]
      exact hthird

theorem unflattenEntries_isSome (sep : Key) (hne : sep ≠ []) (r : Bool) : ∀ (fuel : Nat) (es : Entries),
    mu es < fuel → (unflattenEntries fuel sep r es).isSome = true := by
  intro fuel
  induction fuel with
  | zero => intro es h; omega
  | succ fuel ih =>
    intro es h
    simp only [unflattenEntries]
    exact unflattenStep_isSome sep hne r fuel _ ih es h

end Conv.Flat
