import VrlProofs.Lemmas.KindUnion

/-! Soundness of `Kind::insert` for paths of field segments and non-negative indices, outside the
    classes `D_minlen_counts_optional` and `D_insert_union_alt`. -/

namespace VMap

theorem sortedKeys_insert : (m : VMap) → (q : List Nat) → (x : Value) → m.SortedKeys = true →
    (m.insert q x).SortedKeys = true
  | .nil, q, x, _ => by simp [VMap.insert, VMap.SortedKeys, allGt]
  | .cons k v m, q, x, hs => by
    simp only [VMap.SortedKeys, Bool.and_eq_true] at hs
    simp only [VMap.insert]
    split
    · rename_i hlt
      simp only [VMap.SortedKeys, allGt, Bool.and_eq_true]
      exact ⟨⟨hlt, allGt_trans m q k hlt hs.1⟩, hs.1, hs.2⟩
    · split
      · simp only [VMap.SortedKeys, Bool.and_eq_true]; exact hs
      · rename_i hnlt hne
        have hkq : Key.lt k q = true := by
          rcases Key.lt_total k q with h | h | h
          · exact h
          · exact absurd h hne
          · simp [h] at hnlt
        simp only [VMap.SortedKeys, Bool.and_eq_true]
        exact ⟨allGt_insert m k q x hkq hs.1, sortedKeys_insert m q x hs.2⟩

theorem get_insert (m : VMap) (q r : List Nat) (x : Value) :
    (m.insert q x).get r = if q = r then some x else m.get r := by
  by_cases h : q = r
  · subst h; simp [get_insert_same]
  · simp [h, get_insert_other m q r x h]

end VMap

namespace Kind

theorem isExact_of_isObject (K : Kind) (h : K.isObject = true) : K.isExact = true := by
  simp [isExact, h]

theorem isExact_of_isArray (K : Kind) (h : K.isArray = true) : K.isExact = true := by
  simp [isExact, h]

theorem empty_unknownKind : Col.empty.unknownKind = Kind.undefined := by decide

theorem empty_known : Col.empty.known = .nil := rfl

theorem object_of_hasObj {K : Kind} (h : K.hasObj = true) : ∃ c, K.object = some c := by
  cases K with
  | mk p a o => cases o <;> simp [hasObj, object] at h ⊢

theorem array_of_hasArr {K : Kind} (h : K.hasArr = true) : ∃ c, K.array = some c := by
  cases K with
  | mk p a o => cases a <;> simp [hasArr, array] at h ⊢

theorem array_none_of_hasArr_false {K : Kind} (h : K.hasArr = false) : K.array = none := by
  cases K with
  | mk p a o => cases a <;> simp [hasArr] at h ⊢ <;> rfl

theorem prim_isEmpty_of_isObject {K : Kind} (h : K.isObject = true) : K.prim.isEmpty = true := by
  simp only [isObject, Bool.and_eq_true] at h; exact h.1

theorem hasArr_false_of_isObject {K : Kind} (h : K.isObject = true) : K.hasArr = false := by
  simp only [isObject, Bool.and_eq_true, Bool.not_eq_true'] at h; exact h.2

theorem prim_isEmpty_of_isArray {K : Kind} (h : K.isArray = true) : K.prim.isEmpty = true := by
  simp only [isArray, Bool.and_eq_true] at h; exact h.1

theorem hasObj_false_of_isArray {K : Kind} (h : K.isArray = true) : K.hasObj = false := by
  simp only [isArray, Bool.and_eq_true, Bool.not_eq_true'] at h; exact h.2

end Kind

namespace Spec

theorem mem_obj_hasObj (m : VMap) (K : Kind) (h : mem (.obj m) K = true) : K.hasObj = true := by
  simp only [mem, Bool.and_eq_true] at h; exact h.1.1

theorem mem_arr_hasArr (a : VList) (K : Kind) (h : mem (.arr a) K = true) : K.hasArr = true := by
  simp only [mem, Bool.and_eq_true] at h; exact h.1.1

/-- a member of a kind that is exactly an object is an object. -/
theorem obj_of_mem_isObject (c : Option Value) (K : Kind) (h : memOpt c K = true)
    (hO : K.isObject = true) : ∃ m, c = some (.obj m) := by
  have hp := Kind.prim_isEmpty_of_isObject hO
  have ha := Kind.hasArr_false_of_isObject hO
  cases c with
  | none =>
    simp only [memOpt] at h
    rw [Kind.prim_isEmpty_false_of_undefined _ h] at hp; cases hp
  | some v =>
    simp only [memOpt] at h
    cases v with
    | obj m => exact ⟨m, rfl⟩
    | arr a => rw [mem_arr_hasArr a K h] at ha; cases ha
    | _ =>
      have := prim_nonempty_of_mem_scalar _ K h (by intro xs; simp) (by intro m; simp)
      rw [this] at hp; cases hp

theorem arr_of_mem_isArray (c : Option Value) (K : Kind) (h : memOpt c K = true)
    (hA : K.isArray = true) : ∃ a, c = some (.arr a) := by
  have hp := Kind.prim_isEmpty_of_isArray hA
  have ho := Kind.hasObj_false_of_isArray hA
  cases c with
  | none =>
    simp only [memOpt] at h
    rw [Kind.prim_isEmpty_false_of_undefined _ h] at hp; cases hp
  | some v =>
    simp only [memOpt] at h
    cases v with
    | arr a => exact ⟨a, rfl⟩
    | obj m => rw [mem_obj_hasObj m K h] at ho; cases ho
    | _ =>
      have := prim_nonempty_of_mem_scalar _ K h (by intro xs; simp) (by intro m; simp)
      rw [this] at hp; cases hp

theorem asMap_sorted (c : Option Value) (hs : optSorted c = true) : (Value.asMap c).Sorted = true := by
  cases c with
  | none => rfl
  | some v => cases v <;> first | rfl | (simpa [optSorted, Value.Sorted, Value.asMap] using hs)

theorem asList_sorted (c : Option Value) (hs : optSorted c = true) : (Value.asList c).Sorted = true := by
  cases c with
  | none => rfl
  | some v => cases v <;> first | rfl | (simpa [optSorted, Value.Sorted, Value.asList] using hs)

theorem asMap_non_obj (c : Option Value) (h : ¬ ∃ m, c = some (.obj m)) : Value.asMap c = .nil := by
  cases c with
  | none => rfl
  | some v => cases v <;> first | rfl | (exact absurd ⟨_, rfl⟩ h)

theorem asList_non_arr (c : Option Value) (h : ¬ ∃ a, c = some (.arr a)) : Value.asList c = .nil := by
  cases c with
  | none => rfl
  | some v => cases v <;> first | rfl | (exact absurd ⟨_, rfl⟩ h)

/-- the facts `insert_recursive` relies on at a field segment: the object found at the location (or
    the fresh empty one) satisfies the collection the kind continues with. -/
theorem field_facts (c : Option Value) (K : Kind) (hs : optSorted c = true) (h : memOpt c K = true)
    (f : Key) (rest : Path) (hu : C19.unionAltReq K (.field f) rest = false) :
    let m := Value.asMap c
    let col := K.object.getD Col.empty
    m.Sorted = true ∧
    (∀ k w, m.get k = some w → mem w (slotKind col k) = true) ∧
    (∀ k K', col.known.get k = some K' → m.get k = none → K'.prim.undefined = true) := by
  intro m col
  have hms : m.Sorted = true := asMap_sorted c hs
  cases hO : K.hasObj with
  | true =>
    obtain ⟨col', hc⟩ := Kind.object_of_hasObj hO
    have hcol : col = col' := by simp [col, hc]
    by_cases hv : ∃ m', c = some (.obj m')
    · obtain ⟨m', rfl⟩ := hv
      simp only [optSorted, Value.Sorted] at hs
      simp only [memOpt] at h
      obtain ⟨col'', hc', hmem, habs⟩ := (mem_obj_iff m' K (VMap.sortedKeys_of_sorted m' hs)).mp h
      rw [hc] at hc'; cases hc'
      have hm : m = m' := rfl
      rw [hcol, hm]
      exact ⟨hs, hmem, habs⟩
    · -- the value is not an object: the kind is a union, so no known field is required
      have hm : m = .nil := asMap_non_obj c hv
      have hIs : K.isObject = false := by
        cases hIs : K.isObject with
        | false => rfl
        | true => exact absurd (obj_of_mem_isObject c K h hIs) hv
      have hreq : col'.known.any (fun _ v => !v.prim.undefined) = false := by
        simpa [C19.unionAltReq, hO, hIs, hc] using hu
      rw [hcol, hm]
      refine ⟨rfl, ?_, ?_⟩
      · intro k w hk; simp [VMap.get] at hk
      · intro k K' hk _
        have := KList.any_false _ col'.known hreq k K' hk
        simpa using this
  | false =>
    have hnone := Kind.object_none_of_hasObj_false hO
    have hcol : col = Col.empty := by simp [col, hnone]
    have hm : m = .nil := by
      apply asMap_non_obj
      rintro ⟨m', rfl⟩
      simp only [memOpt] at h
      rw [mem_obj_hasObj m' K h] at hO; cases hO
    rw [hcol, hm]
    refine ⟨rfl, ?_, ?_⟩
    · intro k w hk; simp [VMap.get] at hk
    · intro k K' hk; simp [Kind.empty_known, KList.get] at hk

/-- the location a field segment continues with is described by the kind it continues with. -/
theorem field_child (m : VMap) (col : Col) (f : Key)
    (hmem : ∀ k w, m.get k = some w → mem w (slotKind col k) = true)
    (habs : ∀ k K', col.known.get k = some K' → m.get k = none → K'.prim.undefined = true) :
    memOpt (m.get f) ((col.known.get f).getD col.unknownKind) = true := by
  cases hg : m.get f with
  | some w =>
    have := hmem f w hg
    simp only [memOpt]
    cases hk : col.known.get f with
    | some K' => simpa [slotKind, hk] using this
    | none =>
      simp only [slotKind, hk] at this
      simp only [Option.getD_none, Col.unknownKind]
      rw [mem_unknown_toKind]; exact this
  | none =>
    simp only [memOpt]
    cases hk : col.known.get f with
    | some K' => simpa using habs f K' hk hg
    | none => simpa [Col.unknownKind] using toKind_undefined col.unknown

/-- the object after a field insertion belongs to the kind after the field insertion. -/
theorem field_insert_mem (m : VMap) (col : Col) (f : Key) (y : Value) (Y : Kind)
    (hms : m.SortedKeys = true)
    (hmem : ∀ k w, m.get k = some w → mem w (slotKind col k) = true)
    (habs : ∀ k K', col.known.get k = some K' → m.get k = none → K'.prim.undefined = true)
    (hy : mem y Y = true) :
    mem (.obj (m.insert f y)) (Kind.ofObject (.mk (col.known.insert f Y) col.unknown)) = true := by
  rw [mem_obj_iff _ _ (VMap.sortedKeys_insert m f y hms)]
  refine ⟨_, rfl, ?_, ?_⟩
  · intro k w hk
    rw [VMap.get_insert] at hk
    rw [slotKind_mk, KList.get_insert]
    by_cases hfk : f = k
    · simp only [hfk, if_true] at hk ⊢
      cases hk; exact hy
    · simp only [hfk, if_false] at hk ⊢
      have := hmem k w hk
      cases col with
      | mk kn u => rw [slotKind_mk] at this; exact this
  · intro k K' hk hg
    simp only [Col.known] at hk
    rw [VMap.get_insert] at hg
    rw [KList.get_insert] at hk
    by_cases hfk : f = k
    · simp [hfk] at hg
    · simp only [hfk, if_false] at hk hg
      exact habs k K' hk hg

end Spec

/-! ### index segments -/

namespace Kind

/-- `q` is the key of an index in `lo .. lo + n`. -/
def inRange (lo n : Nat) : Key → Bool
  | [j] => decide (lo ≤ j ∧ j < lo + n)
  | _ => false

theorem inRange_ofIdx (lo n j : Nat) : inRange lo n (Key.ofIdx j) = decide (lo ≤ j ∧ j < lo + n) := rfl

theorem fillRange_get (g : Kind → Kind) (fill : Kind) : (n lo : Nat) → (kn : KList) → (q : Key) →
    (fillRange g fill lo n kn).get q =
      if inRange lo n q = true then some (g ((kn.get q).getD fill)) else kn.get q
  | 0, lo, kn, q => by
    have : inRange lo 0 q = false := by
      unfold inRange
      split
      · simp
      · rfl
    simp [fillRange, this]
  | n + 1, lo, kn, q => by
    simp only [fillRange]
    rw [fillRange_get g fill n (lo + 1) _ q, KList.get_insert]
    by_cases hq : Key.ofIdx lo = q
    · subst hq
      have h1 : inRange (lo + 1) n (Key.ofIdx lo) = false := by
        rw [inRange_ofIdx]; simp; omega
      have h2 : inRange lo (n + 1) (Key.ofIdx lo) = true := by
        rw [inRange_ofIdx]; simp
      simp [h1, h2]
    · have h3 : inRange (lo + 1) n q = inRange lo (n + 1) q := by
        unfold inRange
        split
        · rename_i j
          have hj : j ≠ lo := fun e => hq (by simp [Key.ofIdx, e])
          by_cases hr : lo + 1 ≤ j ∧ j < lo + 1 + n
          · have : lo ≤ j ∧ j < lo + (n + 1) := by omega
            simp [hr, this]
          · have : ¬ (lo ≤ j ∧ j < lo + (n + 1)) := by omega
            simp [hr, this]
        · rfl
      simp only [hq, if_false, h3]

end Kind

namespace Spec

/-- the facts `insert_recursive` relies on at a non-negative index segment. -/
theorem index_facts (c : Option Value) (K : Kind) (h : memOpt c K = true)
    (i : Int) (rest : Path) (hu : C19.unionAltReq K (.index i) rest = false)
    (hopt : (match K.array with | some col => col.known.any (fun _ v => v.prim.undefined) | none => false) = false) :
    let a := Value.asList c
    let col := K.array.getD Col.empty
    (∀ j w, a.getN j = some w → mem w (slotKind col (Key.ofIdx j)) = true) ∧
    (∀ k K', col.known.get k = some K' → k.idx < a.length) := by
  intro a col
  cases hA : K.hasArr with
  | true =>
    obtain ⟨col', hc⟩ := Kind.array_of_hasArr hA
    have hcol : col = col' := by simp [col, hc]
    rw [hc] at hopt
    by_cases hv : ∃ a', c = some (.arr a')
    · obtain ⟨a', rfl⟩ := hv
      simp only [memOpt] at h
      obtain ⟨col'', hc', hmem, habs⟩ := (mem_arr_iff a' K).mp h
      rw [hc] at hc'; cases hc'
      have ha : a = a' := rfl
      rw [hcol, ha]
      refine ⟨hmem, ?_⟩
      intro k K' hk
      by_cases hl : k.idx < a'.length
      · exact hl
      · have h1 := habs k K' hk (Nat.not_lt.mp hl)
        have h2 := KList.any_false _ col'.known hopt k K' hk
        simp [h1] at h2
    · have ha : a = .nil := asList_non_arr c hv
      have hIs : K.isArray = false := by
        cases hIs : K.isArray with
        | false => rfl
        | true => exact absurd (arr_of_mem_isArray c K h hIs) hv
      have hreq : col'.known.any (fun _ v => !v.prim.undefined) = false := by
        simpa [C19.unionAltReq, hA, hIs, hc] using hu
      rw [hcol, ha]
      refine ⟨?_, ?_⟩
      · intro j w hj; simp [VList.getN] at hj
      · intro k K' hk
        exfalso
        have h1 := KList.any_false _ col'.known hreq k K' hk
        have h2 := KList.any_false _ col'.known hopt k K' hk
        simp [h2] at h1
  | false =>
    have hnone := Kind.array_none_of_hasArr_false hA
    have hcol : col = Col.empty := by simp [col, hnone]
    have ha : a = .nil := by
      apply asList_non_arr
      rintro ⟨a', rfl⟩
      simp only [memOpt] at h
      rw [mem_arr_hasArr a' K h] at hA; cases hA
    rw [hcol, ha]
    refine ⟨?_, ?_⟩
    · intro j w hj; simp [VList.getN] at hj
    · intro k K' hk; simp [Kind.empty_known, KList.get] at hk

end Spec

namespace Spec

/-- `Vec::insert_value` at a non-negative index. -/
def insN (a : VList) (idx : Nat) (y : Value) : VList :=
  if a.length ≤ idx then (a.append (VList.nulls (idx - a.length))).append (.cons y .nil)
  else a.setN idx y

theorem insertIdx_nonneg (a : VList) (i : Int) (y : Value) (hi : 0 ≤ i) :
    a.insertIdx i y = insN a i.toNat y := by
  simp [VList.insertIdx, insN, hi]

theorem insN_length (a : VList) (idx : Nat) (y : Value) :
    idx < (insN a idx y).length ∧ a.length ≤ (insN a idx y).length := by
  unfold insN
  split
  · simp [VList.length_append, VList.length_nulls]; omega
  · simp [VList.length_setN]; omega

theorem insN_getN (a : VList) (idx : Nat) (y : Value) (j : Nat) :
    (insN a idx y).getN j =
      if j = idx then some y
      else if j < a.length then a.getN j
      else if j < idx then some .null else none := by
  unfold insN
  by_cases hle : a.length ≤ idx
  · simp only [hle, if_true]
    by_cases hj : j = idx
    · subst hj
      rw [VList.getN_append_right _ _ _ (by simp [VList.length_append, VList.length_nulls]; omega)]
      simp [VList.length_append, VList.length_nulls, show j - (a.length + (j - a.length)) = 0 by omega,
        VList.getN]
    · simp only [hj, if_false]
      by_cases hjl : j < a.length
      · simp only [hjl, if_true]
        rw [VList.getN_append_left _ _ _ (by simp [VList.length_append]; omega),
          VList.getN_append_left _ _ _ hjl]
      · simp only [hjl, if_false]
        by_cases hji : j < idx
        · simp only [hji, if_true]
          rw [VList.getN_append_left _ _ _ (by simp [VList.length_append, VList.length_nulls]; omega),
            VList.getN_append_right _ _ _ (by omega)]
          exact VList.getN_nulls _ _ (by omega)
        · simp only [hji, if_false]
          apply VList.getN_none_of_le
          simp [VList.length_append, VList.length_nulls]; omega
  · simp only [hle, if_false]
    by_cases hj : j = idx
    · subst hj; simp [VList.getN_setN_same a j y (by omega)]
    · simp only [hj, if_false]
      rw [VList.getN_setN_other a idx j y (fun e => hj e.symm)]
      by_cases hjl : j < a.length
      · simp [hjl]
      · simp only [hjl, if_false]
        have : ¬ j < idx := by omega
        simp [this, VList.getN_none_of_le a j (by omega)]

/-- the known map after the hole filling of a non-negative index insertion. -/
def filled (col : Col) (idx : Nat) : KList :=
  if !col.known.contains (Key.ofIdx idx) then
    Kind.fillRange id col.unknownKind.withoutUndefined.orNull 0 idx col.known
  else col.known

theorem filled_get_idx (col : Col) (idx : Nat) :
    (filled col idx).get (Key.ofIdx idx) = col.known.get (Key.ofIdx idx) := by
  unfold filled
  split
  · rw [Kind.fillRange_get, Kind.inRange_ofIdx]; simp
  · rfl

/-- the array after an insertion at a non-negative index belongs to the kind after it. -/
theorem index_insert_mem (a : VList) (col : Col) (idx : Nat) (y : Value) (Y : Kind)
    (hmem : ∀ j w, a.getN j = some w → mem w (slotKind col (Key.ofIdx j)) = true)
    (hlen : ∀ k K', col.known.get k = some K' → k.idx < a.length)
    (hy : mem y Y = true) :
    mem (.arr (insN a idx y))
      (Kind.ofArray (.mk ((filled col idx).insert (Key.ofIdx idx) Y) col.unknown)) = true := by
  cases col with
  | mk kn u =>
  rw [mem_arr_iff]
  refine ⟨_, rfl, ?_, ?_⟩
  · intro j w hj
    rw [insN_getN] at hj
    rw [slotKind_mk, KList.get_insert]
    by_cases hji : j = idx
    · subst hji; simp only [if_true] at hj ⊢; cases hj; exact hy
    · have hne : Key.ofIdx idx ≠ Key.ofIdx j := by simp [Key.ofIdx]; omega
      simp only [hji, if_false, hne] at hj ⊢
      by_cases hjl : j < a.length
      · simp only [hjl, if_true] at hj
        have hold := hmem j w hj
        rw [slotKind_mk] at hold
        unfold filled
        by_cases hc : kn.contains (Key.ofIdx idx) = true
        · simp only [Col.known, hc, Bool.not_true, Bool.false_eq_true, if_false]; exact hold
        · simp only [Col.known, hc, Bool.not_false, if_true]
          rw [Kind.fillRange_get, Kind.inRange_ofIdx]
          by_cases hr : 0 ≤ j ∧ j < 0 + idx
          · simp only [hr, decide_true, if_true, id]
            cases hk : kn.get (Key.ofIdx j) with
            | some K' => simpa [hk] using hold
            | none =>
              simp only [hk, Option.getD_none] at hold ⊢
              apply mem_orNull_of_mem
              rw [mem_withoutUndefined, Col.unknownKind, mem_unknown_toKind]; exact hold
          · simp only [hr, decide_false, Bool.false_eq_true, if_false]; exact hold
      · simp only [hjl, if_false] at hj
        by_cases hjx : j < idx
        · simp only [hjx, if_true] at hj
          cases hj
          -- a padding null: index `j` is not known (known indices are below the length)
          have hnk : kn.get (Key.ofIdx j) = none := by
            cases hk : kn.get (Key.ofIdx j) with
            | none => rfl
            | some K' =>
              have := hlen (Key.ofIdx j) K' hk
              simp [Key.ofIdx, Key.idx] at this; omega
          have hnc : kn.contains (Key.ofIdx idx) = false := by
            cases hk : kn.get (Key.ofIdx idx) with
            | none => simp [KList.contains, hk]
            | some K' =>
              have := hlen (Key.ofIdx idx) K' hk
              simp [Key.ofIdx, Key.idx] at this; omega
          unfold filled
          simp only [Col.known, hnc, Bool.not_false, if_true]
          rw [Kind.fillRange_get, Kind.inRange_ofIdx]
          have hr : 0 ≤ j ∧ j < 0 + idx := by omega
          simp only [hr, decide_true, if_true, id, hnk, Option.getD_none]
          cases col_uk : (Col.mk kn u).unknownKind.withoutUndefined with
          | mk p a' o' => simp [mem, Kind.orNull, Kind.prim]
        · simp [hjx] at hj
  · intro k K' hk hl
    exfalso
    obtain ⟨h1, h2⟩ := insN_length a idx y
    simp only [Col.known] at hk
    rw [KList.get_insert] at hk
    by_cases hkx : Key.ofIdx idx = k
    · subst hkx; simp [Key.ofIdx, Key.idx] at hl; omega
    · simp only [hkx, if_false] at hk
      unfold filled at hk
      by_cases hc : kn.contains (Key.ofIdx idx) = true
      · simp only [Col.known, hc, Bool.not_true, Bool.false_eq_true, if_false] at hk
        have := hlen k K' hk; omega
      · simp only [Col.known, hc, Bool.not_false, if_true] at hk
        rw [Kind.fillRange_get] at hk
        by_cases hr : Kind.inRange 0 idx k = true
        · unfold Kind.inRange at hr
          split at hr
          · rename_i j
            simp at hr
            simp [Key.idx] at hl; omega
          · cases hr
        · simp only [hr, if_false] at hk
          have := hlen k K' hk; omega

end Spec

namespace Spec

theorem insertRec_nil (K X : Kind) (hX : X.isNever = false) : K.insertRec [] X = X := by
  simp [Kind.insertRec, hX]

theorem insertRec_field (K X : Kind) (f : Key) (rest : Path) (hX : X.isNever = false) :
    K.insertRec (.field f :: rest) X =
      Kind.ofObject (.mk ((K.object.getD Col.empty).known.insert f
        (Kind.insertRec (((K.object.getD Col.empty).known.get f).getD (K.object.getD Col.empty).unknownKind)
          rest X)) (K.object.getD Col.empty).unknown) := by
  simp [Kind.insertRec, hX]

theorem insertRec_index_nonneg (K X : Kind) (i : Int) (rest : Path) (hi : 0 ≤ i)
    (hX : X.isNever = false) :
    K.insertRec (.index i :: rest) X =
      Kind.ofArray (.mk ((filled (K.array.getD Col.empty) i.toNat).insert (Key.ofIdx i.toNat)
        (Kind.insertRec (((K.array.getD Col.empty).known.get (Key.ofIdx i.toNat)).getD
          (K.array.getD Col.empty).unknownKind) rest X)) (K.array.getD Col.empty).unknown) := by
  have hneg : ¬ i < 0 := by omega
  generalize hcol : K.array.getD Col.empty = col
  cases col with
  | mk kn u =>
    have hfg := filled_get_idx (.mk kn u) i.toNat
    simp only [Kind.insertRec, hX, hneg, hcol, false_and, if_false, Bool.false_eq_true]
    simp only [filled, Col.known, Col.unknown, Col.unknownKind] at hfg ⊢
    rw [hfg]

end Spec

namespace Spec

theorem optSorted_map_get (m : VMap) (f : Key) (hs : m.Sorted = true) : optSorted (m.get f) = true := by
  cases hg : m.get f with
  | none => rfl
  | some w => exact VMap.sorted_get m f w hs hg

theorem optSorted_getN (a : VList) (j : Nat) (hs : a.Sorted = true) : optSorted (a.getN j) = true := by
  cases hg : a.getN j with
  | none => rfl
  | some w => exact VList.sorted_getN a j w hs hg

theorem getIdx_nonneg (a : VList) (i : Int) (hi : 0 ≤ i) : a.getIdx i = a.getN i.toNat := by
  simp [VList.getIdx, VList.arrayIndex, hi]

theorem index_child (a : VList) (col : Col) (idx : Nat)
    (hmem : ∀ j w, a.getN j = some w → mem w (slotKind col (Key.ofIdx j)) = true)
    (hlen : ∀ k K', col.known.get k = some K' → k.idx < a.length) :
    memOpt (a.getN idx) ((col.known.get (Key.ofIdx idx)).getD col.unknownKind) = true := by
  cases hg : a.getN idx with
  | some w =>
    have := hmem idx w hg
    simp only [memOpt]
    cases hk : col.known.get (Key.ofIdx idx) with
    | some K' => simpa [slotKind, hk] using this
    | none =>
      simp only [slotKind, hk] at this
      simp only [Option.getD_none, Col.unknownKind]
      rw [mem_unknown_toKind]; exact this
  | none =>
    simp only [memOpt]
    have hl := getN_none_length a idx hg
    cases hk : col.known.get (Key.ofIdx idx) with
    | some K' =>
      have := hlen _ K' hk
      simp [Key.ofIdx, Key.idx] at this; omega
    | none => simpa [Col.unknownKind] using toKind_undefined col.unknown

/-- **`insert_recursive` is sound** along paths of fields and non-negative indices on which it meets
    neither an array kind with an optional known index nor a union kind whose collection state for the
    segment has a required known entry. -/
theorem insertRec_sound : (p : Path) → (c : Option Value) → (K : Kind) → (x : Value) → (X : Kind) →
    optSorted c = true → memOpt c K = true → mem x X = true → nonNegPath p = true →
    C19.anyOnInsertPath C19.optionalIdx K p = false →
    C19.anyOnInsertPath C19.unionAltReq K p = false →
    mem (Value.insertOpt c p x) (K.insertRec p X) = true
  | [], c, K, x, X, _, _, hx, _, _, _ => by
    rw [insertRec_nil K X (not_never_of_mem x X hx)]
    simpa [Value.insertOpt] using hx
  | .field f :: rest, c, K, x, X, hs, hc, hx, hp, h1, h2 => by
    have hX := not_never_of_mem x X hx
    simp only [nonNegPath, List.all_cons, Bool.and_eq_true] at hp
    simp only [C19.anyOnInsertPath, Bool.or_eq_false_iff] at h1 h2
    obtain ⟨hms, hmem, habs⟩ := field_facts c K hs hc f rest h2.1
    have ih := insertRec_sound rest ((Value.asMap c).get f) _ x X
      (optSorted_map_get _ f hms) (field_child _ _ f hmem habs) hx hp.2 h1.2 h2.2
    rw [insertRec_field K X f rest hX]
    simp only [Value.insertOpt]
    exact field_insert_mem _ _ f _ _ (VMap.sortedKeys_of_sorted _ hms) hmem habs ih
  | .index i :: rest, c, K, x, X, hs, hc, hx, hp, h1, h2 => by
    have hX := not_never_of_mem x X hx
    simp only [nonNegPath, List.all_cons, Bool.and_eq_true] at hp
    have hi : 0 ≤ i := by simpa [nonNegSeg] using hp.1
    simp only [C19.anyOnInsertPath, Bool.or_eq_false_iff] at h1 h2
    have hopt : (match K.array with
        | some col => col.known.any (fun _ v => v.prim.undefined) | none => false) = false := by
      have := h1.1
      simp only [C19.optionalIdx] at this
      cases hA : K.array with
      | none => rfl
      | some col => simpa [hA] using this
    obtain ⟨hmem, hlen⟩ := index_facts c K hc i rest h2.1 hopt
    have hnext : C19.insertNext K (.index i) =
        (((K.array.getD Col.empty).known.get (Key.ofIdx i.toNat)).getD (K.array.getD Col.empty).unknownKind) := by
      simp [C19.insertNext, Int.not_lt.mpr hi]
    rw [hnext] at h1 h2
    have has := asList_sorted c hs
    have ih := insertRec_sound rest ((Value.asList c).getN i.toNat) _ x X
      (optSorted_getN _ _ has) (index_child _ _ i.toNat hmem hlen) hx hp.2 h1.2 h2.2
    rw [insertRec_index_nonneg K X i rest hi hX]
    simp only [Value.insertOpt]
    rw [getIdx_nonneg _ i hi, insertIdx_nonneg _ i _ hi]
    exact index_insert_mem _ _ i.toNat _ _ hmem hlen ih

theorem mem_upgradeUndefined_of_mem (x : Value) (X : Kind) (h : mem x X = true) :
    mem x X.upgradeUndefined = true := by
  have := mem_upgradeUndefined (some x) X h
  simpa using this

end Spec
