import VrlModel.Lang.TypeSpec

/-! A call-free expression without an `abort` node never evaluates to the outcome `abort`
    (the program-level half of C02: "non-abortable programs never abort"). -/

namespace Lang

mutual
  /-- no `abort` expression (and no function call) anywhere -/
  def noAbort : Expr → Bool
    | .lit _ | .noop | .var _ | .qvar _ _ | .qext _ _ | .existsExt _ _ | .existsVar _ _ => true
    | .grp e | .not e | .qexpr e _ | .existsExpr e _ | .ret e | .asg _ e | .iasg _ _ e _ => noAbort e
    | .blk es | .arr es => noAbortS es
    | .obj kvs => noAbortK kvs
    | .ifte p t _ e => noAbortS p && noAbortS t && noAbortS e
    | .op _ l r => noAbort l && noAbort r
    | .delExt _ _ _ c | .delVar _ _ _ c => noAbort c
    | .delExpr e _ _ c => noAbort e && noAbort c
    | .abort _ _ => false
    | .call _ _ _ _ _ _ _ => false
  def noAbortS : Exprs → Bool
    | .nil => true
    | .cons e es => noAbort e && noAbortS es
  def noAbortK : KExprs → Bool
    | .nil => true
    | .cons _ e kes => noAbort e && noAbortK kes
end

def Res.isAbort : Res → Bool
  | .abort _ => true
  | _ => false

def exIsAbort {α : Type} : Except Res α → Bool
  | .error r => r.isAbort
  | .ok _ => false

mutual
  theorem eval_noAbort : (e : Expr) → noAbort e = true → ∀ s, (eval e s).1.isAbort = false
    | .lit _, _, s => by rw [eval]; rfl
    | .noop, _, s => by rw [eval]; rfl
    | .var _, _, s => by rw [eval]; rfl
    | .qvar _ _, _, s => by rw [eval]; rfl
    | .existsVar _ _, _, s => by rw [eval]; split <;> rfl
    | .qext m p, _, s => by
      rw [eval]; cases s.targetGet m p; rfl
    | .existsExt m p, _, s => by
      rw [eval]; cases s.targetGet m p; rfl
    | .grp e, h, s => by
      rw [eval]; exact eval_noAbort e (by simpa [noAbort] using h) s
    | .blk es, h, s => by
      rw [eval]; exact evalSeq_noAbort es (by simpa [noAbort] using h) s
    | .not e, h, s => by
      have := eval_noAbort e (by simpa [noAbort] using h) s
      rw [eval]
      cases hq : eval e s with
      | mk r s1 =>
        rw [hq] at this
        cases r with
        | ok v => cases v <;> rfl
        | _ => first | rfl | exact this
    | .qexpr e p, h, s => by
      have := eval_noAbort e (by simpa [noAbort] using h) s
      rw [eval]
      cases hq : eval e s with
      | mk r s1 => rw [hq] at this; cases r <;> first | rfl | exact this
    | .existsExpr e p, h, s => by
      have := eval_noAbort e (by simpa [noAbort] using h) s
      rw [eval]
      cases hq : eval e s with
      | mk r s1 => rw [hq] at this; cases r <;> first | rfl | exact this
    | .ret e, h, s => by
      have := eval_noAbort e (by simpa [noAbort] using h) s
      rw [eval]
      cases hq : eval e s with
      | mk r s1 => rw [hq] at this; cases r <;> first | rfl | exact this
    | .asg t e, h, s => by
      have := eval_noAbort e (by simpa [noAbort] using h) s
      rw [eval]
      cases hq : eval e s with
      | mk r s1 =>
        rw [hq] at this
        cases r with
        | ok v => simp only; cases t.insert v s1 <;> rfl
        | _ => first | rfl | exact this
    | .iasg okT errT e d, h, s => by
      have := eval_noAbort e (by simpa [noAbort] using h) { s with evCatch := true }
      rw [eval]
      cases hq : eval e { s with evCatch := true } with
      | mk r s1 =>
        rw [hq] at this
        cases r with
        | ok v =>
          simp only
          cases okT.insert v s1 with
          | none => rfl
          | some s2 => simp only; cases errT.insert .null s2 <;> rfl
        | err =>
          simp only
          cases okT.insert d s1 with
          | none => rfl
          | some s2 =>
            simp only
            cases s2.errs with
            | nil => rfl
            | cons msg rest => simp only; cases errT.insert (.bytes msg) { s2 with errs := rest } <;> rfl
        | _ => first | rfl | exact this
    | .arr es, h, s => by
      have := evalList_noAbort es (by simpa [noAbort] using h) s
      rw [eval]
      cases hq : evalList es s with
      | mk r s1 => rw [hq] at this; cases r <;> first | rfl | exact this
    | .obj kvs, h, s => by
      have := evalKVs_noAbort kvs (by simpa [noAbort] using h) s
      rw [eval]
      cases hq : evalKVs kvs s with
      | mk r s1 => rw [hq] at this; cases r <;> first | rfl | exact this
    | .ifte p t hasElse e, h, s => by
      simp only [noAbort, Bool.and_eq_true] at h
      have h1 := evalSeq_noAbort p h.1.1 { s with evShort := true }
      rw [eval]
      cases hq : evalSeq p { s with evShort := true } with
      | mk r s1 =>
        rw [hq] at h1
        cases r with
        | ok v =>
          cases v with
          | bool b =>
            cases b with
            | true => exact evalSeq_noAbort t h.1.2 s1
            | false =>
              simp only
              split
              · exact evalSeq_noAbort e h.2 s1
              · rfl
          | _ => rfl
        | _ => first | rfl | exact h1
    | .op o l r, h, s => by
      simp only [noAbort, Bool.and_eq_true] at h
      cases o with
      | err =>
        have h1 := eval_noAbort l h.1 { s with evCatch := true }
        rw [eval]
        cases hq : eval l { s with evCatch := true } with
        | mk r1 s1 =>
          rw [hq] at h1
          cases r1 with
          | err => exact eval_noAbort r h.2 s1
          | _ => first | rfl | exact h1
      | or =>
        have h1 := eval_noAbort l h.1 { s with evShort := true }
        rw [eval]
        cases hq : eval l { s with evShort := true } with
        | mk r1 s1 =>
          rw [hq] at h1
          have h2 := eval_noAbort r h.2 s1
          cases r1 with
          | ok v =>
            cases v with
            | null =>
              simp only
              cases hq2 : eval r s1 with | mk r2 s2 => rw [hq2] at h2; cases r2 <;> first | rfl | exact h2
            | bool b =>
              cases b with
              | false =>
                simp only
                cases hq2 : eval r s1 with | mk r2 s2 => rw [hq2] at h2; cases r2 <;> first | rfl | exact h2
              | true => rfl
            | _ => rfl
          | _ => first | rfl | exact h1
      | and =>
        have h1 := eval_noAbort l h.1 { s with evShort := true }
        rw [eval]
        cases hq : eval l { s with evShort := true } with
        | mk r1 s1 =>
          rw [hq] at h1
          have h2 := eval_noAbort r h.2 s1
          cases r1 with
          | ok v =>
            have hta : ∀ w, (tryAnd v w).isAbort = false := by
              intro w; cases v <;> cases w <;> rfl
            cases v with
            | null => rfl
            | bool b =>
              cases b with
              | false => rfl
              | true =>
                simp only
                cases hq2 : eval r s1 with
                | mk r2 s2 => rw [hq2] at h2; cases r2 <;> first | exact hta _ | rfl | exact h2
            | _ =>
              simp only
              cases hq2 : eval r s1 with
              | mk r2 s2 => rw [hq2] at h2; cases r2 <;> first | exact hta _ | rfl | exact h2
          | _ => first | rfl | exact h1
      | _ =>
        have h1 := eval_noAbort l h.1 s
        rw [eval]
        · cases hq : eval l s with
          | mk r1 s1 =>
            rw [hq] at h1
            cases r1 with
            | ok v =>
              have h2 := eval_noAbort r h.2 s1
              simp only
              cases hq2 : eval r s1 with
              | mk r2 s2 =>
                rw [hq2] at h2
                cases r2 with
                | ok w =>
                  simp only
                  generalize hb : binop _ v w = res
                  have : res.isAbort = false := by
                    subst hb
                    unfold binop
                    split <;> first | rfl | (unfold ofArith; split <;> rfl)
                  exact this
                | _ => first | rfl | exact h2
            | _ => first | rfl | exact h1
        all_goals (intro hc; cases hc)
    | .delExt m p hasC c, h, s => by
      have h1 := eval_noAbort c (by simpa [noAbort] using h) s
      rw [eval]
      cases hasC with
      | false => simp only [Bool.false_eq_true, if_false]; cases s.targetRemove m p false; rfl
      | true =>
        simp only [if_true]
        cases hq : eval c s with
        | mk r1 s1 =>
          rw [hq] at h1
          cases r1 with
          | ok v =>
            cases v with
            | bool b => simp only; cases s1.targetRemove m p b; rfl
            | _ => rfl
          | _ => first | rfl | exact h1
    | .delVar n p hasC c, h, s => by
      have h1 := eval_noAbort c (by simpa [noAbort] using h) s
      rw [eval]
      cases hasC with
      | false => simp only [Bool.false_eq_true, if_false]; split <;> rfl
      | true =>
        simp only [if_true]
        cases hq : eval c s with
        | mk r1 s1 =>
          rw [hq] at h1
          cases r1 with
          | ok v =>
            cases v with
            | bool b => simp only; split <;> rfl
            | _ => rfl
          | _ => first | rfl | exact h1
    | .delExpr e p hasC c, h, s => by
      simp only [noAbort, Bool.and_eq_true] at h
      have h1 := eval_noAbort c h.2 s
      rw [eval]
      cases hasC with
      | false =>
        simp only [Bool.false_eq_true, if_false]
        have h2 := eval_noAbort e h.1 s
        cases hq2 : eval e s with
        | mk r2 s2 => rw [hq2] at h2; cases r2 <;> first | rfl | exact h2
      | true =>
        simp only [if_true]
        cases hq : eval c s with
        | mk r1 s1 =>
          rw [hq] at h1
          cases r1 with
          | ok v =>
            cases v with
            | bool b =>
              simp only
              have h2 := eval_noAbort e h.1 s1
              cases hq2 : eval e s1 with
              | mk r2 s2 => rw [hq2] at h2; cases r2 <;> first | rfl | exact h2
            | _ => rfl
          | _ => first | rfl | exact h1
    | .abort _ _, h, _ => by simp [noAbort] at h
    | .call _ _ _ _ _ _ _, h, _ => by simp [noAbort] at h

  theorem evalSeq_noAbort : (es : Exprs) → noAbortS es = true → ∀ s, (evalSeq es s).1.isAbort = false
    | .nil, _, s => by rw [evalSeq]; rfl
    | .cons e .nil, h, s => by
      simp only [noAbortS, Bool.and_eq_true] at h
      rw [evalSeq]; exact eval_noAbort e h.1 s
    | .cons e (.cons e' es), h, s => by
      simp only [noAbortS, Bool.and_eq_true] at h
      have h1 := eval_noAbort e h.1 s
      rw [evalSeq]
      · cases hq : eval e s with
        | mk r s1 =>
          rw [hq] at h1
          cases r with
          | ok v => exact evalSeq_noAbort (.cons e' es) (by simp [noAbortS, h.2]) s1
          | _ => first | rfl | exact h1
      · intro hc; cases hc

  theorem evalList_noAbort : (es : Exprs) → noAbortS es = true → ∀ s, exIsAbort (evalList es s).1 = false
    | .nil, _, s => by rw [evalList]; rfl
    | .cons e es, h, s => by
      simp only [noAbortS, Bool.and_eq_true] at h
      have h1 := eval_noAbort e h.1 s
      rw [evalList]
      cases hq : eval e s with
      | mk r s1 =>
        rw [hq] at h1
        cases r with
        | ok v =>
          have h2 := evalList_noAbort es h.2 s1
          simp only
          cases hq2 : evalList es s1 with
          | mk r2 s2 => rw [hq2] at h2; cases r2 <;> first | rfl | exact h2
        | _ => first | rfl | exact h1

  theorem evalKVs_noAbort : (kvs : KExprs) → noAbortK kvs = true → ∀ s, exIsAbort (evalKVs kvs s).1 = false
    | .nil, _, s => by rw [evalKVs]; rfl
    | .cons k e kes, h, s => by
      simp only [noAbortK, Bool.and_eq_true] at h
      have h1 := eval_noAbort e h.1 s
      rw [evalKVs]
      cases hq : eval e s with
      | mk r s1 =>
        rw [hq] at h1
        cases r with
        | ok v =>
          have h2 := evalKVs_noAbort kes h.2 s1
          simp only
          cases hq2 : evalKVs kes s1 with
          | mk r2 s2 => rw [hq2] at h2; cases r2 <;> first | rfl | exact h2
        | _ => first | rfl | exact h1
end

end Lang
