import VrlProofs.Lemmas.KindGet

/-! Soundness of `Kind::union` (`merge_keep(_, false)`) for kinds whose `Infinite` unknowns are all
    `any` (outside that, `Unknown::merge` lets an `Infinite` unknown overwrite an `Exact` one:
    finding `D_inf_over_exact`). -/

namespace KList

theorem get_none_of_allGt : (m : KList) → (k : Key) → allGt k m = true → m.get k = none
  | .nil, _, _ => rfl
  | .cons l v m, k, h => by
    simp only [allGt, Bool.and_eq_true] at h
    have hne : l ≠ k := fun e => by
      subst e; have := Key.lt_irrefl l; rw [this] at h; exact absurd h.1 (by simp)
    simp [get, hne, get_none_of_allGt m k h.2]

/-- lookup in the result of loop 2 of `Collection::merge`. -/
theorem get_foldl_insert (skip : Key → Bool) (g : Kind → Kind) : (m : KList) → (acc : KList) →
    (q : Key) → m.SortedKeys = true →
    (m.foldl (fun acc key ok => if skip key then acc else acc.insert key (g ok)) acc).get q =
      (match m.get q with
       | some w => if skip q then acc.get q else some (g w)
       | none => acc.get q)
  | .nil, acc, q, _ => rfl
  | .cons k v m, acc, q, hs => by
    simp only [SortedKeys, Bool.and_eq_true] at hs
    simp only [foldl]
    rw [get_foldl_insert skip g m _ q hs.2]
    by_cases hk : k = q
    · subst hk
      simp only [get, if_true, get_none_of_allGt m k hs.1]
      by_cases hsk : skip k = true
      · simp [hsk]
      · simp [hsk, get_insert_same]
    · simp only [get, hk, if_false]
      have : (if skip k = true then acc else acc.insert k (g v)).get q = acc.get q := by
        split
        · rfl
        · exact get_insert_other acc k q _ hk
      rw [this]

end KList

namespace Col

/-- lookup in the known map of `Collection::merge`. -/
theorem mergeWith_known_get (f : Kind → Kind → Bool → Kind) (c1 c2 : Col) (ow : Bool) (q : Key)
    (hs : c2.known.SortedKeys = true) :
    (Col.mergeWith f c1 c2 ow).known.get q =
      (match c1.known.get q with
       | some k1 => some (mergeKnownSelf f c2 ow q k1)
       | none => (c2.known.get q).map (mergeKnownOther f c1.unknownKind ow)) := by
  cases c1 with
  | mk k1 u1 =>
  cases c2 with
  | mk k2 u2 =>
  simp only [Col.known] at hs
  show ((k2.foldl (fun acc key ok => if (fun key => k1.contains key) key = true then acc
      else acc.insert key (mergeKnownOther f (Col.mk k1 u1).unknownKind ow ok))
      (k1.mapKV (mergeKnownSelf f (.mk k2 u2) ow))).get q) =
    (match k1.get q with
     | some kk1 => some (mergeKnownSelf f (.mk k2 u2) ow q kk1)
     | none => (k2.get q).map (mergeKnownOther f (Col.mk k1 u1).unknownKind ow))
  rw [KList.get_foldl_insert (fun key => k1.contains key) _ k2 _ q hs]
  rw [KList.get_mapKV]
  cases h1 : k1.get q with
  | some kk1 =>
    have : k1.contains q = true := by simp [KList.contains, h1]
    cases h2 : k2.get q <;> simp [this]
  | none =>
    have : k1.contains q = false := by simp [KList.contains, h1]
    cases h2 : k2.get q <;> simp [this]

end Col

/-! ### closure of the hypotheses under sub-kinds -/

theorem KList.sortedK_get : (m : KList) → (q : Key) → (K : Kind) → m.SortedK = true →
    m.get q = some K → K.SortedK = true
  | .nil, _, _, _, h => by simp [KList.get] at h
  | .cons k v m, q, K, hs, h => by
    simp only [KList.SortedK, Bool.and_eq_true] at hs
    simp only [KList.get] at h
    split at h
    · cases h; exact hs.1
    · exact KList.sortedK_get m q K hs.2 h

theorem KList.infAny_get : (m : KList) → (q : Key) → (K : Kind) → m.hasNonAnyInf = false →
    m.get q = some K → K.hasNonAnyInf = false
  | .nil, _, _, _, h => by simp [KList.get] at h
  | .cons k v m, q, K, hs, h => by
    simp only [KList.hasNonAnyInf, Bool.or_eq_false_iff] at hs
    simp only [KList.get] at h
    split at h
    · cases h; exact hs.1
    · exact KList.infAny_get m q K hs.2 h

theorem Kind.sortedK_setPrim (p p' : Prim) (a o : OCol) :
    (Kind.mk p a o).SortedK = (Kind.mk p' a o).SortedK := by
  simp [Kind.SortedK]

theorem Kind.infAny_setPrim (p p' : Prim) (a o : OCol) :
    (Kind.mk p a o).hasNonAnyInf = (Kind.mk p' a o).hasNonAnyInf := by
  simp [Kind.hasNonAnyInf]

theorem Unknown.sortedK_toKind (u : Unknown) (h : u.SortedK = true) : u.toKind.SortedK = true := by
  cases u with
  | exact k =>
    cases k with
    | mk p a o =>
      simpa [Unknown.toKind, Unknown.toExistingKind, Kind.withoutUndefined, Kind.orUndefined,
        Unknown.SortedK, Kind.SortedK] using h
  | infinite i =>
    simp only [Unknown.toKind, Unknown.toExistingKind, Kind.ofInf, Kind.withoutUndefined,
      Kind.orUndefined, Kind.SortedK]
    cases i.array <;> cases i.object <;>
      simp [OCol.SortedK, Col.SortedK, KList.SortedKeys, KList.SortedK, Unknown.SortedK]

theorem Unknown.infAny_toKind (u : Unknown) (h : u.hasNonAnyInf = false) :
    u.toKind.hasNonAnyInf = false := by
  cases u with
  | exact k =>
    cases k with
    | mk p a o =>
      simpa [Unknown.toKind, Unknown.toExistingKind, Kind.withoutUndefined, Kind.orUndefined,
        Unknown.hasNonAnyInf, Kind.hasNonAnyInf] using h
  | infinite i =>
    simp only [Unknown.hasNonAnyInf, Bool.not_eq_eq_eq_not, Bool.not_false] at h
    simp only [Unknown.toKind, Unknown.toExistingKind, Kind.ofInf, Kind.withoutUndefined,
      Kind.orUndefined, Kind.hasNonAnyInf]
    cases i.array <;> cases i.object <;>
      simp [OCol.hasNonAnyInf, Col.hasNonAnyInf, KList.hasNonAnyInf, Unknown.hasNonAnyInf, h]

namespace Spec

/-! ### everything is a member of `any` -/

mutual
  theorem mem_infAny : (v : Value) → mem v (infKind Inf.any) = true
    | .null => rfl
    | .bool _ => rfl
    | .int _ => rfl
    | .float _ => rfl
    | .bytes _ => rfl
    | .ts _ => rfl
    | .regex _ => rfl
    | .arr xs => by
      simp only [mem, infKind, Inf.any, if_true, Kind.hasArr, arrayD, Kind.array, Option.getD_some,
        Bool.true_and, Bool.and_eq_true]
      exact ⟨memList_infAny xs 0, by simp [absentIdxOk, Col.known, KList.keys]⟩
    | .obj m => by
      simp only [mem, infKind, Inf.any, if_true, Kind.hasObj, objectD, Kind.object, Option.getD_some,
        Bool.true_and, Bool.and_eq_true]
      exact ⟨memMap_infAny m, by simp [absentKeysOk, Col.known, KList.keys]⟩
  theorem memList_infAny : (xs : VList) → (i : Nat) →
      memList xs i (.mk .nil (.infinite Inf.any)) = true
    | .nil, _ => rfl
    | .cons x xs, i => by
      simp only [memList, Bool.and_eq_true]
      exact ⟨by simpa [slotKind, Col.known, KList.get, Col.unknown, unknownElemKind] using mem_infAny x,
        memList_infAny xs (i + 1)⟩
  theorem memMap_infAny : (m : VMap) → memMap m (.mk .nil (.infinite Inf.any)) = true
    | .nil => rfl
    | .cons k x m => by
      simp only [memMap, Bool.and_eq_true]
      exact ⟨by simpa [slotKind, Col.known, KList.get, Col.unknown, unknownElemKind] using mem_infAny x,
        memMap_infAny m⟩
end

theorem mem_any (v : Value) : mem v Kind.any = true := by
  have h := mem_infAny v
  have : Kind.any = (infKind Inf.any).orUndefined := by
    simp [Kind.any, infKind, Inf.any, Kind.orUndefined, Prim.all, Col.any, Unknown.any]
  rw [this, mem_orUndefined]; exact h

theorem inf_eq_any_of_isAny (i : Inf) (h : i.isAny = true) : i = Inf.any := by
  cases i
  simp only [Inf.isAny, Bool.and_eq_true] at h
  simp_all [Inf.any]

/-! ### monotonicity of membership in the slots -/

theorem memList_mono (c c' : Col) (h : ∀ k x, mem x (slotKind c k) = true → mem x (slotKind c' k) = true) :
    (xs : VList) → (i : Nat) → memList xs i c = true → memList xs i c' = true
  | .nil, _, _ => rfl
  | .cons x xs, i, hm => by
    simp only [memList, Bool.and_eq_true] at hm ⊢
    exact ⟨h _ x hm.1, memList_mono c c' h xs (i + 1) hm.2⟩

theorem memMap_mono (c c' : Col) (h : ∀ k x, mem x (slotKind c k) = true → mem x (slotKind c' k) = true) :
    (m : VMap) → memMap m c = true → memMap m c' = true
  | .nil, _ => rfl
  | .cons k x m, hm => by
    simp only [memMap, Bool.and_eq_true] at hm ⊢
    exact ⟨h k x hm.1, memMap_mono c c' h m hm.2⟩

end Spec

namespace Spec

/-- what the collection-level lemmas need from the kind-level merge function (`overwrite = false`). -/
structure FSound (f : Kind → Kind → Bool → Kind) : Prop where
  left : ∀ x y v, x.SortedK = true → y.SortedK = true → x.hasNonAnyInf = false →
    y.hasNonAnyInf = false → mem v x = true → mem v (f x y false) = true
  right : ∀ x y v, x.SortedK = true → y.SortedK = true → x.hasNonAnyInf = false →
    y.hasNonAnyInf = false → mem v y = true → mem v (f x y false) = true
  undefL : ∀ x y, x.prim.undefined = true → (f x y false).prim.undefined = true
  undefR : ∀ x y, y.prim.undefined = true → (f x y false).prim.undefined = true

theorem containsAnyDefined_of_mem (x : Value) (K : Kind) (h : mem x K = true) :
    K.containsAnyDefined = true := by
  cases hd : K.containsAnyDefined with
  | true => rfl
  | false =>
    have hu : K.isUndefined = true := by simpa [Kind.containsAnyDefined] using hd
    rw [mem_false_of_isUndefined x K hu] at h; cases h

/-- the unknown of a union contains both unknowns (all `Infinite` being `any`). -/
theorem unknown_merge_sound (f : Kind → Kind → Bool → Kind) (hf : FSound f) (u1 u2 : Unknown)
    (s1 : u1.SortedK = true) (s2 : u2.SortedK = true) (i1 : u1.hasNonAnyInf = false)
    (i2 : u2.hasNonAnyInf = false) (x : Value) :
    (mem x (unknownElemKind u1) = true → mem x (unknownElemKind (Unknown.mergeWith f u1 u2 false)) = true) ∧
    (mem x (unknownElemKind u2) = true → mem x (unknownElemKind (Unknown.mergeWith f u1 u2 false)) = true) := by
  cases u1 with
  | exact l =>
    cases u2 with
    | exact r =>
      simp only [Unknown.mergeWith, unknownElemKind]
      simp only [Unknown.SortedK, Unknown.hasNonAnyInf] at s1 s2 i1 i2
      exact ⟨hf.left l r x s1 s2 i1 i2, hf.right l r x s1 s2 i1 i2⟩
    | infinite r =>
      simp only [Unknown.hasNonAnyInf, Bool.not_eq_eq_eq_not, Bool.not_false] at i2
      have := inf_eq_any_of_isAny r i2; subst this
      simp only [Unknown.mergeWith, unknownElemKind]
      exact ⟨fun _ => mem_infAny x, fun _ => mem_infAny x⟩
  | infinite l =>
    simp only [Unknown.hasNonAnyInf, Bool.not_eq_eq_eq_not, Bool.not_false] at i1
    have := inf_eq_any_of_isAny l i1; subst this
    cases u2 with
    | exact r =>
      simp only [Unknown.mergeWith, unknownElemKind]
      exact ⟨fun _ => mem_infAny x, fun _ => mem_infAny x⟩
    | infinite r =>
      simp only [Unknown.hasNonAnyInf, Bool.not_eq_eq_eq_not, Bool.not_false] at i2
      have := inf_eq_any_of_isAny r i2; subst this
      simp only [Unknown.mergeWith, unknownElemKind]
      exact ⟨fun _ => mem_infAny x, fun _ => mem_infAny x⟩

theorem col_sortedK {k : KList} {u : Unknown} (h : (Col.mk k u).SortedK = true) :
    k.SortedKeys = true ∧ k.SortedK = true ∧ u.SortedK = true := by
  simp only [Col.SortedK, Bool.and_eq_true] at h
  exact ⟨h.1.1, h.1.2, h.2⟩

theorem col_infAny {k : KList} {u : Unknown} (h : (Col.mk k u).hasNonAnyInf = false) :
    k.hasNonAnyInf = false ∧ u.hasNonAnyInf = false := by
  simpa [Col.hasNonAnyInf] using h

theorem mergeKnownSelf_false (f : Kind → Kind → Bool → Kind) (c2 : Col) (k : Key) (k1 : Kind) :
    Col.mergeKnownSelf f c2 false k k1 =
      (match c2.known.get k with
       | some k2 => f k1 k2 false
       | none => if c2.unknownKind.containsAnyDefined = true then f k1 c2.unknownKind false
                 else k1.orUndefined) := by
  unfold Col.mergeKnownSelf
  cases c2.known.get k <;> simp

theorem mergeKnownOther_false (f : Kind → Kind → Bool → Kind) (suk ok : Kind) :
    Col.mergeKnownOther f suk false ok =
      if suk.containsAnyDefined = true then f ok suk false else ok.orUndefined := by
  unfold Col.mergeKnownOther
  simp

theorem slotKind_mk (k : KList) (u : Unknown) (q : Key) :
    slotKind (.mk k u) q = (match k.get q with | some K => K | none => unknownElemKind u) := rfl

/-- slot-wise soundness of `Collection::merge(_, false)`. -/
theorem col_merge_sound (f : Kind → Kind → Bool → Kind) (hf : FSound f) (c1 c2 : Col)
    (s1 : c1.SortedK = true) (s2 : c2.SortedK = true) (i1 : c1.hasNonAnyInf = false)
    (i2 : c2.hasNonAnyInf = false) :
    (∀ k x, mem x (slotKind c1 k) = true → mem x (slotKind (Col.mergeWith f c1 c2 false) k) = true) ∧
    (∀ k x, mem x (slotKind c2 k) = true → mem x (slotKind (Col.mergeWith f c1 c2 false) k) = true) ∧
    (∀ k K', (Col.mergeWith f c1 c2 false).known.get k = some K' →
      (∀ K1, c1.known.get k = some K1 → K1.prim.undefined = true) → K'.prim.undefined = true) ∧
    (∀ k K', (Col.mergeWith f c1 c2 false).known.get k = some K' →
      (∀ K2, c2.known.get k = some K2 → K2.prim.undefined = true) → K'.prim.undefined = true) := by
  cases c1 with
  | mk k1 u1 =>
  cases c2 with
  | mk k2 u2 =>
  obtain ⟨sk1, sK1, su1⟩ := col_sortedK s1
  obtain ⟨sk2, sK2, su2⟩ := col_sortedK s2
  obtain ⟨ik1, iu1⟩ := col_infAny i1
  obtain ⟨ik2, iu2⟩ := col_infAny i2
  -- the merged collection, described by lookups
  have hmk : ∃ km, Col.mergeWith f (.mk k1 u1) (.mk k2 u2) false = .mk km (Unknown.mergeWith f u1 u2 false) ∧
      ∀ q, km.get q = (match k1.get q with
        | some kk1 => some (Col.mergeKnownSelf f (.mk k2 u2) false q kk1)
        | none => (k2.get q).map (Col.mergeKnownOther f u1.toKind false)) := by
    refine ⟨(Col.mergeWith f (.mk k1 u1) (.mk k2 u2) false).known, rfl, ?_⟩
    intro q
    exact Col.mergeWith_known_get f (.mk k1 u1) (.mk k2 u2) false q sk2
  obtain ⟨km, hm, hget⟩ := hmk
  rw [hm]
  have suk1 := Unknown.sortedK_toKind u1 su1
  have suk2 := Unknown.sortedK_toKind u2 su2
  have iuk1 := Unknown.infAny_toKind u1 iu1
  have iuk2 := Unknown.infAny_toKind u2 iu2
  have hundef1 := toKind_undefined u1
  have hundef2 := toKind_undefined u2
  have huk2 : (Col.mk k2 u2).unknownKind = u2.toKind := rfl
  have hkn2 : (Col.mk k2 u2).known = k2 := rfl
  refine ⟨?_, ?_, ?_, ?_⟩
  · -- left slots
    intro k x hx
    rw [slotKind_mk] at hx ⊢
    rw [hget k]
    cases h1 : k1.get k with
    | some kk1 =>
      rw [h1] at hx
      have sK := KList.sortedK_get k1 k kk1 sK1 h1
      have iK := KList.infAny_get k1 k kk1 ik1 h1
      show mem x (Col.mergeKnownSelf f (.mk k2 u2) false k kk1) = true
      rw [mergeKnownSelf_false, hkn2, huk2]
      cases h2 : k2.get k with
      | some kk2 =>
        exact hf.left kk1 kk2 x sK (KList.sortedK_get k2 k kk2 sK2 h2) iK (KList.infAny_get k2 k kk2 ik2 h2) hx
      | none =>
        show mem x (if u2.toKind.containsAnyDefined = true then f kk1 u2.toKind false else kk1.orUndefined) = true
        by_cases hd : u2.toKind.containsAnyDefined = true
        · rw [if_pos hd]; exact hf.left kk1 _ x sK suk2 iK iuk2 hx
        · rw [if_neg hd, mem_orUndefined]; exact hx
    | none =>
      rw [h1] at hx
      have hxu : mem x u1.toKind = true := by rw [mem_unknown_toKind]; exact hx
      have hdef := containsAnyDefined_of_mem x _ hxu
      cases h2 : k2.get k with
      | some kk2 =>
        show mem x (Col.mergeKnownOther f u1.toKind false kk2) = true
        rw [mergeKnownOther_false, if_pos hdef]
        exact hf.right kk2 _ x (KList.sortedK_get k2 k kk2 sK2 h2) suk1 (KList.infAny_get k2 k kk2 ik2 h2) iuk1 hxu
      | none =>
        exact (unknown_merge_sound f hf u1 u2 su1 su2 iu1 iu2 x).1 hx
  · -- right slots
    intro k x hx
    rw [slotKind_mk] at hx ⊢
    rw [hget k]
    cases h1 : k1.get k with
    | some kk1 =>
      have sK := KList.sortedK_get k1 k kk1 sK1 h1
      have iK := KList.infAny_get k1 k kk1 ik1 h1
      show mem x (Col.mergeKnownSelf f (.mk k2 u2) false k kk1) = true
      rw [mergeKnownSelf_false, hkn2, huk2]
      cases h2 : k2.get k with
      | some kk2 =>
        rw [h2] at hx
        exact hf.right kk1 kk2 x sK (KList.sortedK_get k2 k kk2 sK2 h2) iK (KList.infAny_get k2 k kk2 ik2 h2) hx
      | none =>
        rw [h2] at hx
        have hxu : mem x u2.toKind = true := by rw [mem_unknown_toKind]; exact hx
        have hdef := containsAnyDefined_of_mem x _ hxu
        show mem x (if u2.toKind.containsAnyDefined = true then f kk1 u2.toKind false else kk1.orUndefined) = true
        rw [if_pos hdef]
        exact hf.right kk1 _ x sK suk2 iK iuk2 hxu
    | none =>
      cases h2 : k2.get k with
      | some kk2 =>
        rw [h2] at hx
        show mem x (Col.mergeKnownOther f u1.toKind false kk2) = true
        rw [mergeKnownOther_false]
        by_cases hd : u1.toKind.containsAnyDefined = true
        · rw [if_pos hd]
          exact hf.left kk2 _ x (KList.sortedK_get k2 k kk2 sK2 h2) suk1 (KList.infAny_get k2 k kk2 ik2 h2) iuk1 hx
        · rw [if_neg hd, mem_orUndefined]; exact hx
      | none =>
        rw [h2] at hx
        exact (unknown_merge_sound f hf u1 u2 su1 su2 iu1 iu2 x).2 hx
  · -- absent entries, left
    intro k K' hk habs
    have hk' : km.get k = some K' := hk
    have habs' : ∀ K1, k1.get k = some K1 → K1.prim.undefined = true := habs
    rw [hget k] at hk'
    cases h1 : k1.get k with
    | some kk1 =>
      rw [h1] at hk'
      have hu := habs' kk1 h1
      have hK : K' = Col.mergeKnownSelf f (.mk k2 u2) false k kk1 := by
        simpa using hk'.symm
      rw [hK, mergeKnownSelf_false, hkn2, huk2]
      cases h2 : k2.get k with
      | some kk2 => exact hf.undefL _ _ hu
      | none =>
        show (if u2.toKind.containsAnyDefined = true then f kk1 u2.toKind false else kk1.orUndefined).prim.undefined = true
        by_cases hd : u2.toKind.containsAnyDefined = true
        · rw [if_pos hd]; exact hf.undefL _ _ hu
        · rw [if_neg hd]; exact Kind.orUndefined_prim_undefined _
    | none =>
      rw [h1] at hk'
      cases h2 : k2.get k with
      | none => rw [h2] at hk'; simp at hk'
      | some kk2 =>
        rw [h2] at hk'
        have hK : K' = Col.mergeKnownOther f u1.toKind false kk2 := by simpa using hk'.symm
        rw [hK, mergeKnownOther_false]
        by_cases hd : u1.toKind.containsAnyDefined = true
        · rw [if_pos hd]; exact hf.undefR _ _ hundef1
        · rw [if_neg hd]; exact Kind.orUndefined_prim_undefined _
  · -- absent entries, right
    intro k K' hk habs
    have hk' : km.get k = some K' := hk
    have habs' : ∀ K2, k2.get k = some K2 → K2.prim.undefined = true := habs
    rw [hget k] at hk'
    cases h1 : k1.get k with
    | some kk1 =>
      rw [h1] at hk'
      have hK : K' = Col.mergeKnownSelf f (.mk k2 u2) false k kk1 := by
        simpa using hk'.symm
      rw [hK, mergeKnownSelf_false, hkn2, huk2]
      cases h2 : k2.get k with
      | some kk2 => exact hf.undefR _ _ (habs' kk2 h2)
      | none =>
        show (if u2.toKind.containsAnyDefined = true then f kk1 u2.toKind false else kk1.orUndefined).prim.undefined = true
        by_cases hd : u2.toKind.containsAnyDefined = true
        · rw [if_pos hd]; exact hf.undefR _ _ hundef2
        · rw [if_neg hd]; exact Kind.orUndefined_prim_undefined _
    | none =>
      rw [h1] at hk'
      cases h2 : k2.get k with
      | none => rw [h2] at hk'; simp at hk'
      | some kk2 =>
        rw [h2] at hk'
        have hK : K' = Col.mergeKnownOther f u1.toKind false kk2 := by simpa using hk'.symm
        have hu := habs' kk2 h2
        rw [hK, mergeKnownOther_false]
        by_cases hd : u1.toKind.containsAnyDefined = true
        · rw [if_pos hd]; exact hf.undefL _ _ hu
        · rw [if_neg hd]; exact Kind.orUndefined_prim_undefined _

end Spec

namespace Spec

theorem kind_sortedK {p : Prim} {a o : OCol} (h : (Kind.mk p a o).SortedK = true) :
    a.SortedK = true ∧ o.SortedK = true := by
  simpa [Kind.SortedK] using h

theorem kind_infAny {p : Prim} {a o : OCol} (h : (Kind.mk p a o).hasNonAnyInf = false) :
    a.hasNonAnyInf = false ∧ o.hasNonAnyInf = false := by
  simpa [Kind.hasNonAnyInf] using h

/-- membership in an array kind depends on the array collection only. -/
theorem mem_arr_mk (xs : VList) (p : Prim) (a o : OCol) :
    mem (.arr xs) (.mk p a o) =
      (match a with
       | .none => false
       | .some c => memList xs 0 c && absentIdxOk xs.length c.known) := by
  cases a <;> simp [mem, Kind.hasArr, arrayD, Kind.array]

theorem mem_obj_mk (m : VMap) (p : Prim) (a o : OCol) :
    mem (.obj m) (.mk p a o) =
      (match o with
       | .none => false
       | .some c => memMap m c && absentKeysOk m c.known) := by
  cases o <;> simp [mem, Kind.hasObj, objectD, Kind.object]

/-- a collection slot of a union contains the corresponding slot of either operand:
    `inL`/`inR` say that a value that satisfies the membership conditions of the operand's
    collection satisfies those of the merged one. -/
theorem ocol_merge_list (f : Kind → Kind → Bool → Kind) (hf : FSound f) (a1 a2 : OCol)
    (s1 : a1.SortedK = true) (s2 : a2.SortedK = true) (i1 : a1.hasNonAnyInf = false)
    (i2 : a2.hasNonAnyInf = false) (xs : VList) :
    (∀ c1, a1 = .some c1 → memList xs 0 c1 = true → absentIdxOk xs.length c1.known = true →
      ∃ c, OCol.mergeWith f a1 a2 false = .some c ∧ memList xs 0 c = true ∧
        absentIdxOk xs.length c.known = true) ∧
    (∀ c2, a2 = .some c2 → memList xs 0 c2 = true → absentIdxOk xs.length c2.known = true →
      ∃ c, OCol.mergeWith f a1 a2 false = .some c ∧ memList xs 0 c = true ∧
        absentIdxOk xs.length c.known = true) := by
  constructor
  · intro c1 h1 hm ha
    subst h1
    cases a2 with
    | none => exact ⟨c1, rfl, hm, ha⟩
    | some c2 =>
      obtain ⟨hL, _, haL, _⟩ := col_merge_sound f hf c1 c2 s1 s2 i1 i2
      refine ⟨_, rfl, memList_mono _ _ hL xs 0 hm, ?_⟩
      rw [absentIdxOk_iff] at ha ⊢
      intro k K' hk hl
      exact haL k K' hk (fun K1 hK1 => ha k K1 hK1 hl)
  · intro c2 h2 hm ha
    subst h2
    cases a1 with
    | none => exact ⟨c2, rfl, hm, ha⟩
    | some c1 =>
      obtain ⟨_, hR, _, haR⟩ := col_merge_sound f hf c1 c2 s1 s2 i1 i2
      refine ⟨_, rfl, memList_mono _ _ hR xs 0 hm, ?_⟩
      rw [absentIdxOk_iff] at ha ⊢
      intro k K' hk hl
      exact haR k K' hk (fun K2 hK2 => ha k K2 hK2 hl)

theorem ocol_merge_map (f : Kind → Kind → Bool → Kind) (hf : FSound f) (a1 a2 : OCol)
    (s1 : a1.SortedK = true) (s2 : a2.SortedK = true) (i1 : a1.hasNonAnyInf = false)
    (i2 : a2.hasNonAnyInf = false) (m : VMap) :
    (∀ c1, a1 = .some c1 → memMap m c1 = true → absentKeysOk m c1.known = true →
      ∃ c, OCol.mergeWith f a1 a2 false = .some c ∧ memMap m c = true ∧
        absentKeysOk m c.known = true) ∧
    (∀ c2, a2 = .some c2 → memMap m c2 = true → absentKeysOk m c2.known = true →
      ∃ c, OCol.mergeWith f a1 a2 false = .some c ∧ memMap m c = true ∧
        absentKeysOk m c.known = true) := by
  constructor
  · intro c1 h1 hm ha
    subst h1
    cases a2 with
    | none => exact ⟨c1, rfl, hm, ha⟩
    | some c2 =>
      obtain ⟨hL, _, haL, _⟩ := col_merge_sound f hf c1 c2 s1 s2 i1 i2
      refine ⟨_, rfl, memMap_mono _ _ hL m hm, ?_⟩
      rw [absentKeysOk_iff] at ha ⊢
      intro k K' hk hl
      exact haL k K' hk (fun K1 hK1 => ha k K1 hK1 hl)
  · intro c2 h2 hm ha
    subst h2
    cases a1 with
    | none => exact ⟨c2, rfl, hm, ha⟩
    | some c1 =>
      obtain ⟨_, hR, _, haR⟩ := col_merge_sound f hf c1 c2 s1 s2 i1 i2
      refine ⟨_, rfl, memMap_mono _ _ hR m hm, ?_⟩
      rw [absentKeysOk_iff] at ha ⊢
      intro k K' hk hl
      exact haR k K' hk (fun K2 hK2 => ha k K2 hK2 hl)

theorem prim_or_left (p1 p2 : Prim) :
    (p1.bytes = true → (p1.or p2).bytes = true) ∧ (p1.integer = true → (p1.or p2).integer = true) ∧
    (p1.float = true → (p1.or p2).float = true) ∧ (p1.boolean = true → (p1.or p2).boolean = true) ∧
    (p1.timestamp = true → (p1.or p2).timestamp = true) ∧ (p1.regex = true → (p1.or p2).regex = true) ∧
    (p1.null = true → (p1.or p2).null = true) ∧ (p1.undefined = true → (p1.or p2).undefined = true) := by
  simp [Prim.or]; intros; simp_all

theorem prim_or_right (p1 p2 : Prim) :
    (p2.bytes = true → (p1.or p2).bytes = true) ∧ (p2.integer = true → (p1.or p2).integer = true) ∧
    (p2.float = true → (p1.or p2).float = true) ∧ (p2.boolean = true → (p1.or p2).boolean = true) ∧
    (p2.timestamp = true → (p1.or p2).timestamp = true) ∧ (p2.regex = true → (p1.or p2).regex = true) ∧
    (p2.null = true → (p1.or p2).null = true) ∧ (p2.undefined = true → (p1.or p2).undefined = true) := by
  simp [Prim.or]; intros; simp_all

/-- **`merge_keep(_, false)` with any fuel contains both operands** (all `Infinite` being `any`). -/
theorem mergeKeepF_sound : (n : Nat) → FSound (Kind.mergeKeepF n)
  | 0 => by
    refine ⟨?_, ?_, ?_, ?_⟩ <;> intros <;> simp only [Kind.mergeKeepF]
    · exact mem_any _
    · exact mem_any _
    · rfl
    · rfl
  | n + 1 => by
    have ih := mergeKeepF_sound n
    refine ⟨?_, ?_, ?_, ?_⟩
    · intro x y v sx sy ix iy hv
      cases x with
      | mk p1 a1 o1 =>
      cases y with
      | mk p2 a2 o2 =>
      obtain ⟨sa1, so1⟩ := kind_sortedK sx
      obtain ⟨sa2, so2⟩ := kind_sortedK sy
      obtain ⟨ia1, io1⟩ := kind_infAny ix
      obtain ⟨ia2, io2⟩ := kind_infAny iy
      simp only [Kind.mergeKeepF]
      have hp := prim_or_left p1 p2
      cases v with
      | arr xs =>
        rw [mem_arr_mk] at hv ⊢
        cases a1 with
        | none => simp at hv
        | some c1 =>
          simp only [Bool.and_eq_true] at hv
          obtain ⟨c, hc, hm, ha⟩ := (ocol_merge_list _ ih (.some c1) a2 sa1 sa2 ia1 ia2 xs).1 c1 rfl hv.1 hv.2
          rw [hc]; simp [hm, ha]
      | obj m =>
        rw [mem_obj_mk] at hv ⊢
        cases o1 with
        | none => simp at hv
        | some c1 =>
          simp only [Bool.and_eq_true] at hv
          obtain ⟨c, hc, hm, ha⟩ := (ocol_merge_map _ ih (.some c1) o2 so1 so2 io1 io2 m).1 c1 rfl hv.1 hv.2
          rw [hc]; simp [hm, ha]
      | null => simp only [mem, Kind.prim] at hv ⊢; exact hp.2.2.2.2.2.2.1 hv
      | bool _ => simp only [mem, Kind.prim] at hv ⊢; exact hp.2.2.2.1 hv
      | int _ => simp only [mem, Kind.prim] at hv ⊢; exact hp.2.1 hv
      | float _ => simp only [mem, Kind.prim] at hv ⊢; exact hp.2.2.1 hv
      | bytes _ => simp only [mem, Kind.prim] at hv ⊢; exact hp.1 hv
      | ts _ => simp only [mem, Kind.prim] at hv ⊢; exact hp.2.2.2.2.1 hv
      | regex _ => simp only [mem, Kind.prim] at hv ⊢; exact hp.2.2.2.2.2.1 hv
    · intro x y v sx sy ix iy hv
      cases x with
      | mk p1 a1 o1 =>
      cases y with
      | mk p2 a2 o2 =>
      obtain ⟨sa1, so1⟩ := kind_sortedK sx
      obtain ⟨sa2, so2⟩ := kind_sortedK sy
      obtain ⟨ia1, io1⟩ := kind_infAny ix
      obtain ⟨ia2, io2⟩ := kind_infAny iy
      simp only [Kind.mergeKeepF]
      have hp := prim_or_right p1 p2
      cases v with
      | arr xs =>
        rw [mem_arr_mk] at hv ⊢
        cases a2 with
        | none => simp at hv
        | some c2 =>
          simp only [Bool.and_eq_true] at hv
          obtain ⟨c, hc, hm, ha⟩ := (ocol_merge_list _ ih a1 (.some c2) sa1 sa2 ia1 ia2 xs).2 c2 rfl hv.1 hv.2
          rw [hc]; simp [hm, ha]
      | obj m =>
        rw [mem_obj_mk] at hv ⊢
        cases o2 with
        | none => simp at hv
        | some c2 =>
          simp only [Bool.and_eq_true] at hv
          obtain ⟨c, hc, hm, ha⟩ := (ocol_merge_map _ ih o1 (.some c2) so1 so2 io1 io2 m).2 c2 rfl hv.1 hv.2
          rw [hc]; simp [hm, ha]
      | null => simp only [mem, Kind.prim] at hv ⊢; exact hp.2.2.2.2.2.2.1 hv
      | bool _ => simp only [mem, Kind.prim] at hv ⊢; exact hp.2.2.2.1 hv
      | int _ => simp only [mem, Kind.prim] at hv ⊢; exact hp.2.1 hv
      | float _ => simp only [mem, Kind.prim] at hv ⊢; exact hp.2.2.1 hv
      | bytes _ => simp only [mem, Kind.prim] at hv ⊢; exact hp.1 hv
      | ts _ => simp only [mem, Kind.prim] at hv ⊢; exact hp.2.2.2.2.1 hv
      | regex _ => simp only [mem, Kind.prim] at hv ⊢; exact hp.2.2.2.2.2.1 hv
    · intro x y h
      cases x; cases y
      simp only [Kind.mergeKeepF, Kind.prim] at h ⊢
      exact (prim_or_left _ _).2.2.2.2.2.2.2 h
    · intro x y h
      cases x; cases y
      simp only [Kind.mergeKeepF, Kind.prim] at h ⊢
      exact (prim_or_right _ _).2.2.2.2.2.2.2 h

end Spec
