/-
  Helper lemmas for the key-value part of C24: `parse_key_value` (model `KV.parseKV`) reading what
  `encode_key_value` (model `KV.encodeKV`) wrote, for tokens of the safe class.
-/
import VrlModel.KeyValue

namespace KV

/-! ### one-step equations of the scanners -/

theorem scanEscaped_normal (q c : Char) (t : List Char) (h1 : c ≠ '\\') (h2 : c ≠ q) :
    scanEscaped q (c :: t) = (scanEscaped q t).map fun p => (c :: p.1, p.2) := by
  cases t with
  | nil => simp [scanEscaped, h1, h2]
  | cons e r => simp [scanEscaped, h1, h2]

theorem scanEscaped_quote (q : Char) (t : List Char) (hq : q ≠ '\\') :
    scanEscaped q (q :: t) = some ([], q :: t) := by
  cases t with
  | nil => simp [scanEscaped, hq]
  | cons e r => simp [scanEscaped, hq]

theorem scanEscaped_esc (q e : Char) (t : List Char) :
    scanEscaped q ('\\' :: e :: t) = (scanEscaped q t).map fun p => ('\\' :: e :: p.1, p.2) := by
  simp [scanEscaped]

theorem unescapeLoop_normal (c : Char) (t : List Char) (h : c ≠ '\\') :
    unescapeLoop (c :: t) = c :: unescapeLoop t := by
  cases t with
  | nil => simp [unescapeLoop]
  | cons e r => simp [unescapeLoop, h]

theorem unescapeLoop_bs (t : List Char) : unescapeLoop ('\\' :: '\\' :: t) = '\\' :: unescapeLoop t := by
  simp [unescapeLoop]

theorem unescapeLoop_dq (t : List Char) : unescapeLoop ('\\' :: '"' :: t) = '"' :: unescapeLoop t := by
  simp [unescapeLoop]

theorem unescapeLoop_id (s : List Char) (h : ∀ c ∈ s, c ≠ '\\') : unescapeLoop s = s := by
  induction s with
  | nil => simp [unescapeLoop]
  | cons c r ih =>
    rw [unescapeLoop_normal c r (h c (by simp)), ih (fun x hx => h x (by simp [hx]))]

theorem escapeStr_eq (s : List Char) : escapeStr s = unescapeLoop s := by
  unfold escapeStr
  split
  · rfl
  · rename_i h
    rw [unescapeLoop_id]
    intro c hc hcc
    subst hcc
    exact h (by simpa using hc)

/-! ### escaping and unescaping -/

theorem unescape_escBody (s : List Char) (h : ∀ c ∈ s, c ≠ '\n') :
    unescapeLoop (escBody s) = s := by
  induction s with
  | nil => simp [escBody, unescapeLoop]
  | cons c r ih =>
    have ih' := ih (fun x hx => h x (by simp [hx]))
    have hn : c ≠ '\n' := h c (by simp)
    simp only [escBody, escChar]
    by_cases h1 : c = '\\'
    · subst h1; simp [unescapeLoop_bs, ih']
    · by_cases h2 : c = '"'
      · subst h2; simp [unescapeLoop_dq, ih']
      · simp [h1, h2, hn, unescapeLoop_normal c _ h1, ih']

theorem scan_escBody (s R : List Char) :
    scanEscaped '"' (escBody s ++ '"' :: R) = some (escBody s, '"' :: R) := by
  induction s with
  | nil => simp [escBody, scanEscaped_quote]
  | cons c r ih =>
    simp only [escBody, escChar]
    by_cases h1 : c = '\\'
    · subst h1; simp [scanEscaped_esc, ih]
    · by_cases h2 : c = '"'
      · subst h2; simp [scanEscaped_esc, ih]
      · by_cases h3 : c = '\n'
        · subst h3
          simp only [h1, h2, if_false, if_true, List.cons_append, List.nil_append]
          rw [scanEscaped_esc, scanEscaped_normal '"' 'n' _ (by decide) (by decide), ih]
          simp
        · simp [h1, h2, h3, scanEscaped_normal '"' c _ h1 h2, ih]

theorem escBody_id (s : List Char) (h : ∀ c ∈ s, c ≠ '\\' ∧ c ≠ '"' ∧ c ≠ '\n') : escBody s = s := by
  induction s with
  | nil => rfl
  | cons c r ih =>
    obtain ⟨h1, h2, h3⟩ := h c (by simp)
    simp [escBody, escChar, h1, h2, h3, ih (fun x hx => h x (by simp [hx]))]

/-! ### `tag`, `take_until`, `trim`, `space0` on tokens without the relevant characters -/

theorem tag_single (d c : Char) (t : List Char) :
    tag [d] (c :: t) = if d = c then some t else none := by
  simp [tag]

theorem tag_single_nil (d : Char) : tag [d] [] = none := by simp [tag]

theorem takeUntil_found (d : Char) (s R : List Char) (h : ∀ c ∈ s, c ≠ d) :
    takeUntil [d] (s ++ d :: R) = some (s, d :: R) := by
  induction s with
  | nil => simp [takeUntil, tag]
  | cons c r ih =>
    have hc : d ≠ c := fun e => h c (by simp) e.symm
    simp [takeUntil, tag, hc, ih (fun x hx => h x (by simp [hx]))]

theorem takeUntil_none (d : Char) (s : List Char) (h : ∀ c ∈ s, c ≠ d) :
    takeUntil [d] s = none := by
  induction s with
  | nil => simp [takeUntil, tag]
  | cons c r ih =>
    have hc : d ≠ c := fun e => h c (by simp) e.symm
    simp [takeUntil, tag, hc, ih (fun x hx => h x (by simp [hx]))]

theorem containsStr_single (d : Char) (s : List Char) (h : ∀ c ∈ s, c ≠ d) :
    containsStr [d] s = false := by
  induction s with
  | nil => simp [containsStr, tag]
  | cons c r ih =>
    have hc : d ≠ c := fun e => h c (by simp) e.symm
    simp [containsStr, tag, hc, ih (fun x hx => h x (by simp [hx]))]

theorem dropWhile_head_false {p : Char → Bool} (c : Char) (t : List Char) (h : p c = false) :
    (c :: t).dropWhile p = c :: t := by
  simp [List.dropWhile, h]

theorem trim_id (s : List Char) (h : ∀ c ∈ s, isWs c = false) : trim s = s := by
  have key : ∀ l : List Char, (∀ c ∈ l, isWs c = false) → l.dropWhile isWs = l := by
    intro l hl
    cases l with
    | nil => rfl
    | cons c t => exact dropWhile_head_false c t (hl c (by simp))
  unfold trim trimEnd trimStart
  rw [key s h, key s.reverse (fun c hc => h c (by simpa using hc))]
  simp

theorem space0_head (c : Char) (t : List Char) (h1 : c ≠ ' ') (h2 : c ≠ '\t') :
    space0 (c :: t) = c :: t := by
  unfold space0
  apply dropWhile_head_false
  simp [h1, h2]

theorem dropSpaces_head (c : Char) (t : List Char) (h1 : c ≠ ' ') :
    dropSpaces (c :: t) = c :: t := by
  unfold dropSpaces
  apply dropWhile_head_false
  simp [h1]

theorem isWs_space : isWs ' ' = true := by decide
theorem isWs_tab : isWs '\t' = true := by decide
theorem isWs_nl : isWs '\n' = true := by decide

theorem not_ws_ne_space {c : Char} (h : isWs c = false) : c ≠ ' ' ∧ c ≠ '\t' ∧ c ≠ '\n' := by
  refine ⟨?_, ?_, ?_⟩ <;> (intro e; subst e; simp [isWs_space, isWs_tab, isWs_nl] at h)

/-! ### `parse_delimited` -/

theorem parseDelimited_head_ne (q : Char) (term : List Char) (c : Char) (t : List Char)
    (h : c ≠ q) : parseDelimited q term (c :: t) = none := by
  simp [parseDelimited, h]

/-- a string quoted by `encode_string`, followed by something the terminator check accepts. -/
theorem parseDelimited_quoted (term s R : List Char) (hs : ∀ c ∈ s, c ≠ '\n')
    (hpeek : ((parseFieldDelim term R).isSome || (space0 R).isEmpty) = true) :
    parseDelimited '"' term ('"' :: (escBody s ++ '"' :: R)) = some (s, R) := by
  simp only [parseDelimited, if_true, scan_escBody]
  simp [hpeek, escapeStr_eq, unescape_escBody s hs]

/-! ### the safe token class, unfolded -/

/-- an unquoted token the parser reads back verbatim: non-empty, not starting with `'`, no white
    space, `"`, `=`, backslash, and none of the delimiter characters in `bad`. -/
structure Unq (bad : List Char) (s : List Char) : Prop where
  ne : s ≠ []
  head : s.head? ≠ some '\''
  chars : ∀ c ∈ s, isWs c = false ∧ c ≠ '"' ∧ c ≠ '=' ∧ c ≠ '\\' ∧ c ∉ bad

/-- a token of the safe class: quoted by the encoder and free of newlines, or unquoted-safe. -/
inductive Tok (bad : List Char) (s : List Char) : Prop where
  | quoted (hq : needsQuoting s = true) (ne : s ≠ []) (nl : ∀ c ∈ s, c ≠ '\n')
  | plain (hq : needsQuoting s = false) (h : Unq bad s)

theorem firstBad_none (kd fd : Char) (isKey : Bool) : ∀ (s : List Char) (first : Bool),
    firstBadUnquoted [kd] [fd] isKey first s = none →
    (first = true → s.head? ≠ some '\'') ∧
      ∀ c ∈ s, c ≠ '\\' ∧ c ≠ fd ∧ (isKey = true → c ≠ kd) := by
  intro s
  induction s with
  | nil => intro first _; simp
  | cons c r ih =>
    intro first h
    simp only [firstBadUnquoted] at h
    split at h
    · cases h
    · rename_i h1
      split at h
      · cases h
      · rename_i h2
        split at h
        · cases h
        · rename_i h3
          split at h
          · cases h
          · rename_i h4
            obtain ⟨_, ihc⟩ := ih false h
            have hfd : c ≠ fd := by
              intro e; subst e; simp [tag] at h3
            have hkd : isKey = true → c ≠ kd := by
              intro hk e; subst e; simp [tag, hk] at h4
            refine ⟨?_, ?_⟩
            · intro hf e
              simp only [List.head?_cons, Option.some.injEq] at e
              subst e; simp [hf] at h2
            · intro x hx
              simp only [List.mem_cons] at hx
              rcases hx with rfl | hx
              · exact ⟨h1, hfd, hkd⟩
              · exact ihc x hx

theorem needsQuoting_false {s : List Char} (h : needsQuoting s = false) :
    ∀ c ∈ s, isWs c = false ∧ c ≠ '"' ∧ c ≠ '=' := by
  intro c hc
  simp only [needsQuoting, List.any_eq_false] at h
  have := h c hc
  simpa [not_or, and_assoc] using this

theorem tok_of_class (kd fd : Char) (isKey : Bool) (s : List Char)
    (h : tokenClass [kd] [fd] isKey s = none) :
    Tok (if isKey then [kd, fd] else [fd]) s := by
  unfold tokenClass at h
  split at h
  · cases h
  · rename_i hne
    have hne' : s ≠ [] := by simpa using hne
    split at h
    · rename_i hq
      split at h
      · cases h
      · rename_i hnl
        refine .quoted hq hne' ?_
        intro c hc e
        subst e
        exact hnl (by simpa using hc)
    · rename_i hq
      have hq' : needsQuoting s = false := by simpa using hq
      obtain ⟨hh, hc⟩ := firstBad_none kd fd isKey s true h
      refine .plain hq' ⟨hne', hh rfl, ?_⟩
      intro c hcs
      obtain ⟨a1, a2, a3⟩ := needsQuoting_false hq' c hcs
      obtain ⟨b1, b2, b3⟩ := hc c hcs
      refine ⟨a1, a2, a3, b1, ?_⟩
      cases isKey <;> simp_all

theorem tok_key {kd fd : Char} {s : List Char} (h : safeKey kd fd s = true) : Tok [kd, fd] s := by
  have := tok_of_class kd fd true s (by simpa [safeKey] using h)
  simpa using this

theorem tok_val {kd fd : Char} {s : List Char} (h : safeVal kd fd s = true) : Tok [fd] s := by
  have := tok_of_class kd fd false s (by simpa [safeVal] using h)
  simpa using this

/-- the encoder writes an unquoted-safe token verbatim. -/
theorem encodeString_plain {bad : List Char} {s : List Char} (hq : needsQuoting s = false)
    (h : Unq bad s) : encodeString s = s := by
  unfold encodeString
  simp only [hq, Bool.false_eq_true, if_false]
  apply escBody_id
  intro c hc
  obtain ⟨w, q, _, b, _⟩ := h.chars c hc
  exact ⟨b, q, (not_ws_ne_space w).2.2⟩

theorem encodeString_quoted {s : List Char} (hq : needsQuoting s = true) :
    encodeString s = '"' :: (escBody s ++ ['"']) := by
  simp [encodeString, hq]

/-- what the encoder writes for a safe token starts with a character that is neither a space nor a
    tab, a single quote or (for unquoted tokens) a double quote. -/
theorem tok_encoded_head {bad : List Char} {s : List Char} (h : Tok bad s) (X : List Char) :
    ∃ c t, encodeString s ++ X = c :: t ∧ c ≠ ' ' ∧ c ≠ '\t' := by
  cases h with
  | quoted hq ne nl =>
    refine ⟨'"', escBody s ++ ['"'] ++ X, by simp [encodeString_quoted hq], by decide, by decide⟩
  | plain hq hu =>
    rw [encodeString_plain hq hu]
    cases s with
    | nil => exact absurd rfl hu.ne
    | cons c t =>
      obtain ⟨w, _⟩ := hu.chars c (by simp)
      exact ⟨c, t ++ X, rfl, (not_ws_ne_space w).1, (not_ws_ne_space w).2.1⟩

/-! ### delimiters -/

theorem delimOK_iff {kd : Char} : delimOK kd = true ↔ kd ≠ ' ' ∧ kd ≠ '\t' := by
  simp [delimOK]

/-- `parse_field_delimiter(fd)` on the delimiter followed by an encoded token. -/
theorem parseFieldDelim_at (fd : Char) (c : Char) (t : List Char) (hc : c ≠ ' ') :
    parseFieldDelim [fd] (fd :: c :: t) = some (c :: t) := by
  unfold parseFieldDelim
  by_cases h : fd = ' '
  · subst h; simp [dropSpaces_head c t hc]
  · simp [h, dropSpaces_head fd _ h, tag]

theorem parseFieldDelim_isSome (fd : Char) (R : List Char) :
    (parseFieldDelim [fd] (fd :: R)).isSome = true := by
  unfold parseFieldDelim
  by_cases h : fd = ' '
  · subst h; simp
  · simp [h, dropSpaces_head fd _ h, tag]

theorem parseFieldDelim_nil (fd : Char) : parseFieldDelim [fd] [] = none := by
  unfold parseFieldDelim
  by_cases h : fd = ' '
  · subst h; simp
  · simp [h, dropSpaces, tag]

/-- what may follow a value: the end of the line or the field delimiter. -/
inductive AfterValue (fd : Char) : List Char → Prop where
  | eol : AfterValue fd []
  | more (R : List Char) : AfterValue fd (fd :: R)

theorem peek_after_value {fd : Char} {R : List Char} (h : AfterValue fd R) :
    ((parseFieldDelim [fd] R).isSome || (space0 R).isEmpty) = true := by
  cases h with
  | eol => simp [space0]
  | more R => simp [parseFieldDelim_isSome]

/-! ### `parse_value` and `parse_key` on encoded tokens -/

theorem parseValue_enc {fd : Char} {v R : List Char}
    (hv : Tok [fd] v) (hR : AfterValue fd R) :
    parseValue [fd] (encodeString v ++ R) = (v, R) := by
  cases hv with
  | quoted hq ne nl =>
    have e : encodeString v ++ R = '"' :: (escBody v ++ '"' :: R) := by
      simp [encodeString_quoted hq]
    rw [e]
    unfold parseValue
    rw [parseDelimited_head_ne '\'' _ '"' _ (by decide),
      parseDelimited_quoted [fd] v R nl (peek_after_value hR)]
  | plain hq hu =>
    rw [encodeString_plain hq hu]
    obtain ⟨c, t, rfl⟩ : ∃ c t, v = c :: t := by
      cases v with
      | nil => exact absurd rfl hu.ne
      | cons c t => exact ⟨c, t, rfl⟩
    have hc := hu.chars c (by simp)
    have h1 : c ≠ '\'' := by
      intro e; exact hu.head (by simp [e])
    have hws : ∀ x ∈ c :: t, isWs x = false := fun x hx => (hu.chars x hx).1
    have hnf : ∀ x ∈ c :: t, x ≠ fd := fun x hx => by
      have := (hu.chars x hx).2.2.2.2
      simpa using this
    unfold parseValue
    simp only [List.cons_append]
    rw [parseDelimited_head_ne '\'' _ c _ h1, parseDelimited_head_ne '"' _ c _ hc.2.1]
    simp only [parseUndelimited]
    cases hR with
    | eol =>
      have := takeUntil_none fd (c :: t) hnf
      simp only [List.append_nil]
      rw [this]
      simp [trim_id _ hws]
    | more R =>
      have := takeUntil_found fd (c :: t) R hnf
      simp only [List.cons_append] at this
      rw [this]
      simp [trim_id _ hws]

theorem parseKey_enc {kd fd : Char} (sk : Bool) {k R : List Char}
    (hk : Tok [kd, fd] k) :
    parseKey [kd] [fd] sk (encodeString k ++ kd :: R) = some (k, kd :: R) := by
  have peek : ((parseFieldDelim [kd] (kd :: R)).isSome || (space0 (kd :: R)).isEmpty) = true := by
    simp [parseFieldDelim_isSome]
  cases hk with
  | quoted hq ne nl =>
    have e : encodeString k ++ kd :: R = '"' :: (escBody k ++ '"' :: kd :: R) := by
      simp [encodeString_quoted hq]
    rw [e]
    have hkne : k.isEmpty = false := by
      cases k with
      | nil => exact absurd rfl ne
      | cons _ _ => rfl
    unfold parseKey parseKeyAlt
    cases sk
    · simp only [Bool.false_eq_true, if_false]
      rw [parseDelimited_head_ne '\'' _ '"' _ (by decide),
        parseDelimited_quoted [kd] k (kd :: R) nl peek]
      simp [orElse, hkne]
    · simp only [if_true]
      rw [parseDelimited_head_ne '\'' [kd] '"' _ (by decide),
        parseDelimited_head_ne '\'' [fd] '"' _ (by decide),
        parseDelimited_quoted [kd] k (kd :: R) nl peek]
      simp [orElse, hkne]
  | plain hq hu =>
    rw [encodeString_plain hq hu]
    obtain ⟨c, t, rfl⟩ : ∃ c t, k = c :: t := by
      cases k with
      | nil => exact absurd rfl hu.ne
      | cons c t => exact ⟨c, t, rfl⟩
    have hc := hu.chars c (by simp)
    have h1 : c ≠ '\'' := by
      intro e; exact hu.head (by simp [e])
    have hws : ∀ x ∈ c :: t, isWs x = false := fun x hx => (hu.chars x hx).1
    have hnk : ∀ x ∈ c :: t, x ≠ kd := fun x hx => by
      have := (hu.chars x hx).2.2.2.2
      simp at this; exact this.1
    have hnf : ∀ x ∈ c :: t, x ≠ fd := fun x hx => by
      have := (hu.chars x hx).2.2.2.2
      simp at this; exact this.2
    have tu := takeUntil_found kd (c :: t) R hnk
    simp only [List.cons_append] at tu
    unfold parseKey parseKeyAlt
    simp only [List.cons_append]
    cases sk
    · simp only [Bool.false_eq_true, if_false]
      rw [parseDelimited_head_ne '\'' _ c _ h1, parseDelimited_head_ne '"' _ c _ hc.2.1]
      simp [orElse, parseUndelimited, tu, trim_id _ hws]
    · simp only [if_true]
      rw [parseDelimited_head_ne '\'' [kd] c _ h1, parseDelimited_head_ne '\'' [fd] c _ h1,
        parseDelimited_head_ne '"' [kd] c _ hc.2.1, parseDelimited_head_ne '"' [fd] c _ hc.2.1]
      simp [orElse, parseUndelimited, tu, trim_id _ hws, containsStr_single fd (c :: t) hnf]

/-! ### one `key=value` field, the field loop, the whole line -/

theorem parseSepOpt_at (c : Cfg) {kd : Char} (hkd : c.kd = [kd]) (hd : delimOK kd = true)
    (x : Char) (t : List Char) (hx1 : x ≠ ' ') (hx2 : x ≠ '\t') :
    parseSepOpt c (kd :: x :: t) = some (1, x :: t) := by
  obtain ⟨k1, k2⟩ := delimOK_iff.mp hd
  unfold parseSepOpt parseSep
  cases hw : c.ws with
  | strict => simp [hkd, tag]
  | lenient => simp [hkd, tag, space0_head kd _ k1 k2, space0_head x t hx1 hx2]

/-- the text of one field as `encode_field` writes it. -/
def encField (kd : Char) (kv : List Char × List Char) : List Char :=
  encodeString kv.1 ++ kd :: encodeString kv.2

theorem encodeField_single (kd : Char) (k v : List Char) :
    encodeField [kd] k v = encField kd (k, v) := by
  simp [encodeField, encField]

theorem parseKeyValue_enc (c : Cfg) {kd fd : Char} (hkd : c.kd = [kd]) (hfd : c.fd = [fd])
    (hd : delimOK kd = true) {k v R : List Char} (hk : Tok [kd, fd] k) (hv : Tok [fd] v)
    (hR : AfterValue fd R) :
    parseKeyValue c (encField kd (k, v) ++ R) = some ((k, .str v), R) := by
  obtain ⟨x, t, ex, x1, x2⟩ := tok_encoded_head hk (kd :: (encodeString v ++ R))
  obtain ⟨y, u, ey, y1, y2⟩ := tok_encoded_head hv R
  have e1 : encField kd (k, v) ++ R = encodeString k ++ kd :: (encodeString v ++ R) := by
    simp [encField]
  unfold parseKeyValue
  rw [e1, ex, space0_head x t x1 x2, ← ex, hkd, hfd, parseKey_enc c.standalone hk]
  simp only
  rw [ey, parseSepOpt_at c hkd hd y u y1 y2]
  simp only
  rw [← ey, parseValue_enc hv hR]
  simp

/-- fields after the first one: each preceded by the field delimiter. -/
def encRest (kd fd : Char) : List (List Char × List Char) → List Char
  | [] => []
  | kv :: r => fd :: (encField kd kv ++ encRest kd fd r)

theorem afterValue_encRest (kd fd : Char) (r : List (List Char × List Char)) :
    AfterValue fd (encRest kd fd r) := by
  cases r with
  | nil => exact .eol
  | cons kv r => exact .more _

def pairsOf (o : List (List Char × List Char)) : List (List Char × PVal) :=
  o.map fun kv => (kv.1, PVal.str kv.2)

theorem sepLoop_step (c : Cfg) (n : Nat) (i i1 i2 : List Char) (o : List Char × PVal)
    (h1 : parseFieldDelim c.fd i = some i1) (h2 : parseKeyValue c i1 = some (o, i2))
    (h3 : i2.length ≠ i.length) :
    sepLoop c (n + 1) i = (sepLoop c n i2).map fun p => (o :: p.1, p.2) := by
  simp [sepLoop, h1, h2, h3]

theorem sepLoop_enc (c : Cfg) {kd fd : Char} (hkd : c.kd = [kd]) (hfd : c.fd = [fd])
    (hd : delimOK kd = true) : ∀ (r : List (List Char × List Char)) (fuel : Nat),
    r.length < fuel →
    (∀ kv ∈ r, Tok [kd, fd] kv.1 ∧ Tok [fd] kv.2) →
    sepLoop c fuel (encRest kd fd r) = some (pairsOf r, []) := by
  intro r
  induction r with
  | nil =>
    intro fuel hf _
    cases fuel with
    | zero => omega
    | succ n => simp [sepLoop, encRest, hfd, parseFieldDelim_nil, pairsOf]
  | cons kv r ih =>
    intro fuel hf hs
    cases fuel with
    | zero => simp at hf
    | succ n =>
      obtain ⟨hk, hv⟩ := hs kv (by simp)
      obtain ⟨x, t, ex, x1, _⟩ := tok_encoded_head hk (kd :: (encodeString kv.2 ++ encRest kd fd r))
      have e1 : encField kd kv ++ encRest kd fd r = x :: t := by
        rw [← ex]; simp [encField]
      have pkv := parseKeyValue_enc c hkd hfd hd hk hv (afterValue_encRest kd fd r)
      have ih' := ih n (by simp at hf; omega) (fun y hy => hs y (by simp [hy]))
      have h1 : parseFieldDelim c.fd (encRest kd fd (kv :: r))
          = some (encField kd kv ++ encRest kd fd r) := by
        simp only [encRest]
        rw [hfd, e1]
        exact parseFieldDelim_at fd x t x1
      have h3 : (encRest kd fd r).length ≠ (encRest kd fd (kv :: r)).length := by
        simp [encRest]; omega
      rw [sepLoop_step c n _ _ _ _ h1 pkv h3, ih']
      simp [pairsOf]

theorem length_le_encRest (kd fd : Char) (r : List (List Char × List Char)) :
    r.length ≤ (encRest kd fd r).length := by
  induction r with
  | nil => simp
  | cons kv r ih => simp [encRest]; omega

theorem parsePairs_enc (c : Cfg) {kd fd : Char} (hkd : c.kd = [kd]) (hfd : c.fd = [fd])
    (hd : delimOK kd = true) (kv : List Char × List Char) (r : List (List Char × List Char))
    (hs : ∀ p ∈ kv :: r, Tok [kd, fd] p.1 ∧ Tok [fd] p.2) :
    parsePairs c (encField kd kv ++ encRest kd fd r) = some (pairsOf (kv :: r)) := by
  obtain ⟨hk, hv⟩ := hs kv (by simp)
  have pkv := parseKeyValue_enc c hkd hfd hd hk hv (afterValue_encRest kd fd r)
  have loop := sepLoop_enc c hkd hfd hd r ((encRest kd fd r).length + 1)
    (by have := length_le_encRest kd fd r; omega) (fun y hy => hs y (by simp [hy]))
  unfold parsePairs parseLine
  rw [pkv]
  simp only
  rw [loop]
  simp [trim, trimEnd, trimStart, pairsOf]

/-! ### what `to_string` writes for a flat string object -/

theorem encodeLoop_step (kd fd : Char) (kv : List Char × List Char)
    (r : List (List Char × List Char)) :
    encodeLoop [kd] [fd] false (strFields (kv :: r))
      = encField kd kv ++ fd :: encodeLoop [kd] [fd] false (strFields r) := by
  simp [strFields, encodeLoop, encodeField_single, Data.text]

theorem encodeLoop_strFields (kd fd : Char) : ∀ (r : List (List Char × List Char))
    (kv : List Char × List Char),
    encodeLoop [kd] [fd] false (strFields (kv :: r)) = (encField kd kv ++ encRest kd fd r) ++ [fd] := by
  intro r
  induction r with
  | nil =>
    intro kv
    rw [encodeLoop_step]
    simp [strFields, encodeLoop, encRest]
  | cons kv' r ih =>
    intro kv
    rw [encodeLoop_step, ih kv']
    simp [encRest]

theorem encodeKV_cons (kd fd : Char) (kv : List Char × List Char)
    (r : List (List Char × List Char)) :
    encodeKV [kd] [fd] (kv :: r) = encField kd kv ++ encRest kd fd r := by
  unfold encodeKV encodeFlat
  rw [encodeLoop_strFields]
  generalize encField kd kv ++ encRest kd fd r = X
  have h1 : endsWith (X ++ [fd]) [fd] = true := by simp [endsWith, tag]
  have h2 : (X ++ [fd]).take ((X ++ [fd]).length - [fd].length) = X := by
    simp
  simp only [h1, if_true, h2]

/-! ### grouping an already sorted list of pairs -/

theorem strLt_irrefl (a : List Char) : strLt a a = false := by
  induction a with
  | nil => rfl
  | cons c r ih => simp [strLt, ih]

theorem strLt_asymm : ∀ (a b : List Char), strLt a b = true → strLt b a = false := by
  intro a
  induction a with
  | nil => intro b h; cases b <;> simp_all [strLt]
  | cons x xs ih =>
    intro b h
    cases b with
    | nil => simp [strLt] at h
    | cons y ys =>
      simp only [strLt] at h ⊢
      by_cases h1 : x.toNat < y.toNat
      · have h2 : ¬ y.toNat < x.toNat := by omega
        have h3 : y ≠ x := by intro e; subst e; omega
        simp [h2, h3]
      · simp only [h1, if_false] at h
        by_cases h2 : x = y
        · subst h2
          simp only [if_true] at h
          simp [ih ys h]
        · simp [h2] at h

theorem groupInsert_append (k : List Char) (v : PVal) : ∀ (m : List (List Char × KVal)),
    (∀ e ∈ m, strLt e.1 k = true) → groupInsert k v m = m ++ [(k, v.toK)] := by
  intro m
  induction m with
  | nil => intro _; rfl
  | cons e m ih =>
    intro h
    have he := h e (by simp)
    have h1 : k ≠ e.1 := by
      intro eq; rw [eq, strLt_irrefl] at he; cases he
    have h2 : strLt k e.1 = false := strLt_asymm _ _ he
    obtain ⟨ek, ev⟩ := e
    simp only [groupInsert]
    simp only at h1 h2
    simp [h1, h2, ih (fun x hx => h x (by simp [hx]))]

theorem group_sorted_aux : ∀ (o : List (List Char × List Char)) (acc : List (List Char × KVal)),
    keysSorted o = true →
    (∀ e ∈ acc, ∀ kv ∈ o, strLt e.1 kv.1 = true) →
    (pairsOf o).foldl (fun m p => groupInsert p.1 p.2 m) acc = acc ++ expected o := by
  intro o
  induction o with
  | nil => intro acc _ _; simp [pairsOf, expected]
  | cons kv r ih =>
    intro acc hs hacc
    simp only [keysSorted, Bool.and_eq_true, List.all_eq_true] at hs
    obtain ⟨hkv, hr⟩ := hs
    simp only [pairsOf, List.map_cons, List.foldl_cons]
    rw [groupInsert_append kv.1 (.str kv.2) acc (fun e he => hacc e he kv (by simp))]
    have := ih (acc ++ [(kv.1, PVal.toK (.str kv.2))]) hr (by
      intro e he x hx
      simp only [List.mem_append, List.mem_singleton] at he
      rcases he with he | rfl
      · exact hacc e he x (by simp [hx])
      · exact hkv x hx)
    simp only [pairsOf] at this
    rw [this]
    simp [expected, PVal.toK]

theorem group_sorted (o : List (List Char × List Char)) (h : keysSorted o = true) :
    group (pairsOf o) = expected o := by
  have := group_sorted_aux o [] h (by simp)
  simpa [group] using this

/-! ### `flatten` on a flat string object is the identity (ties `encodeValue`, the function under
    the `kv.encode` correspondence op, to `encodeKV`, the function of the theorems) -/

/-- the `vrl::Value` object of a flat string object; `enc` is UTF-8 encoding. -/
def vmapOf (enc : List Char → List Nat) : List (List Char × List Char) → VMap
  | [] => .nil
  | kv :: r => .cons (enc kv.1) (.bytes (enc kv.2)) (vmapOf enc r)

theorem mapInsert_append {α : Type} (k : List Char) (v : α) : ∀ (m : List (List Char × α)),
    (∀ e ∈ m, strLt e.1 k = true) → mapInsert k v m = m ++ [(k, v)] := by
  intro m
  induction m with
  | nil => intro _; rfl
  | cons e m ih =>
    intro h
    have he := h e (by simp)
    have h1 : k ≠ e.1 := by
      intro eq; rw [eq, strLt_irrefl] at he; cases he
    have h2 : strLt k e.1 = false := strLt_asymm _ _ he
    obtain ⟨ek, ev⟩ := e
    simp only [mapInsert]
    simp only at h1 h2
    simp [h1, h2, ih (fun x hx => h x (by simp [hx]))]

theorem flattenTop_flat (dec : List Nat → Option (List Char)) (enc : List Char → List Nat)
    (hde : ∀ s, dec (enc s) = some s) : ∀ (o : List (List Char × List Char)) (acc : FMap),
    keysSorted o = true →
    (∀ e ∈ acc, ∀ kv ∈ o, strLt e.1 kv.1 = true) →
    flattenTop dec (vmapOf enc o) acc = some (acc ++ strFields o) := by
  intro o
  induction o with
  | nil => intro acc _ _; simp [vmapOf, flattenTop, strFields]
  | cons kv r ih =>
    intro acc hs hacc
    simp only [keysSorted, Bool.and_eq_true, List.all_eq_true] at hs
    obtain ⟨hkv, hr⟩ := hs
    simp only [vmapOf, flattenTop, hde, flattenV, Option.map_some]
    rw [mapInsert_append kv.1 (Data.str kv.2) acc (fun e he => hacc e he kv (by simp))]
    rw [ih (acc ++ [(kv.1, Data.str kv.2)]) hr (by
      intro e he x hx
      simp only [List.mem_append, List.mem_singleton] at he
      rcases he with he | rfl
      · exact hacc e he x (by simp [hx])
      · exact hkv x hx)]
    simp [strFields]

end KV
