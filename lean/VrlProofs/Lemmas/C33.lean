/-
  Helper lemmas for C33 (span producers, lean/VrlModel/Spans.lean).
-/
import VrlModel.Spans

namespace Spans

theorem boundary_of_ascii {src : List Nat} {i b : Nat} (h : src[i]? = some b) (hb : b < 128) :
    isCharBoundary src i = true := by
  unfold isCharBoundary
  cases i with
  | zero => rfl
  | succ n =>
    simp only [h]
    simp [isCont]; omega

theorem getElem?_of_take_drop {src c : List Nat} {a : Nat}
    (h : (src.drop a).take c.length = c) (j : Nat) (hj : j < c.length) :
    src[a + j]? = c[j]? := by
  have h2 : c[j]? = ((src.drop a).take c.length)[j]? := by rw [h]
  rw [h2, List.getElem?_take]
  simp [hj, List.getElem?_drop]

theorem popStep_parent_stop (p : Span) (s : Seg) :
    (popStep p s).2.stop = p.stop - (displayLen s + dotLen s) := by
  cases s <;> simp [popStep, dotLen] <;> omega

theorem popStep_seg_start (p : Span) (s : Seg) :
    (popStep p s).1.start = p.stop - displayLen s := by
  cases s <;> rfl

theorem popStep_seg_stop (p : Span) (s : Seg) : (popStep p s).1.stop = p.stop := by
  cases s <;> rfl

theorem popStep_parent_start (p : Span) (s : Seg) : (popStep p s).2.start = p.start := by
  cases s <;> rfl

theorem isFieldChar_lt {b : Nat} (h : isFieldChar b = true) : b < 128 := by
  simp [isFieldChar, isDigit, isAlphaU] at h
  omega

/-- the `Display` text of a segment is never empty and starts with an ASCII byte -/

theorem displayBytes_head (s : Seg) : ∃ b tl, displayBytes s = b :: tl ∧ b < 128 := by
  cases s with
  | field f =>
    by_cases hv : validField f = true
    · simp only [displayBytes, hv, if_true]
      cases f with
      | nil => simp [validField] at hv
      | cons b tl =>
        refine ⟨b, tl, rfl, ?_⟩
        simp only [validField, List.all_cons, Bool.and_eq_true] at hv
        exact isFieldChar_lt hv.1.1
    · simp only [displayBytes, hv]
      exact ⟨34, f ++ [34], by simp, by omega⟩
  | index i =>
    by_cases hi : i < 0
    · simp only [displayBytes, hi, if_true]
      exact ⟨91, _, rfl, by omega⟩
    · simp only [displayBytes, hi]
      exact ⟨91, _, rfl, by omega⟩

theorem canon_length (s : Seg) : (canon s).length = displayLen s + dotLen s := by
  cases s <;> simp [canon, displayLen, dotLen]

/-- byte `dotLen s` of the canonical spelling is the first byte of the `Display` text; byte 0 is
    ASCII as well (the dot or `[`) -/

theorem canon_bytes (s : Seg) : ∃ b0 b1, (canon s)[0]? = some b0 ∧ b0 < 128 ∧
    (canon s)[dotLen s]? = some b1 ∧ b1 < 128 := by
  obtain ⟨b, tl, hd, hb⟩ := displayBytes_head s
  cases s with
  | field f => exact ⟨46, b, by simp [canon], by omega, by simp [canon, dotLen, hd], hb⟩
  | index i => exact ⟨b, b, by simp [canon, hd], hb, by simp [canon, dotLen, hd], hb⟩

theorem canonAtB_le (src : List Nat) (segs : List Seg) : ∀ (start stop : Nat),
    canonAtB src start stop segs = true → start ≤ stop := by
  induction segs with
  | nil => intro a b h; simpa [canonAtB] using h
  | cons s rest ih =>
    intro a b h
    simp only [canonAtB, Bool.and_eq_true, decide_eq_true_eq] at h
    have := ih _ _ h.2
    omega

theorem walk_wf (src : List Nat) (segs : List Seg) : ∀ (parent : Span),
    parent.stop ≤ src.length →
    isCharBoundary src parent.start = true → isCharBoundary src parent.stop = true →
    canonAtB src parent.start parent.stop segs = true →
    ∀ x ∈ walk parent segs, WF src x.1 ∧ WF src x.2 := by
  induction segs with
  | nil => intro p _ _ _ _ x h; simp [walk] at h
  | cons s rest ih =>
    intro p hlen hbs hbe hc x h
    simp only [canonAtB, Bool.and_eq_true, decide_eq_true_eq, beq_iff_eq] at hc
    obtain ⟨⟨hcl, heq⟩, hrest⟩ := hc
    have hle := canonAtB_le _ _ _ _ hrest
    have hcl' := canon_length s
    obtain ⟨b0, b1, h0, hb0, h1, hb1⟩ := canon_bytes s
    have hdot : dotLen s < (canon s).length := by
      have ⟨b, tl, hd, _⟩ := displayBytes_head s
      have : 0 < displayLen s := by simp [displayLen, hd]
      omega
    have hpos : 0 < (canon s).length := by omega
    have e0 := getElem?_of_take_drop heq 0 hpos
    have e1 := getElem?_of_take_drop heq (dotLen s) hdot
    rw [h0] at e0
    rw [h1] at e1
    have bnd0 := boundary_of_ascii e0 hb0
    have bnd1 := boundary_of_ascii e1 hb1
    have q1 := popStep_parent_stop p s
    have q2 := popStep_seg_start p s
    have q3 := popStep_parent_start p s
    have q4 := popStep_seg_stop p s
    have ea : p.stop - (canon s).length + 0 = (popStep p s).2.stop := by omega
    have eb : p.stop - (canon s).length + dotLen s = (popStep p s).1.start := by omega
    rw [ea] at bnd0
    rw [eb] at bnd1
    simp only [walk, List.mem_cons] at h
    rcases h with h | h
    · subst h
      refine ⟨⟨by omega, by omega, bnd1, by rw [q4]; exact hbe⟩, ⟨by omega, by omega, by rw [q3]; exact hbs, bnd0⟩⟩
    · refine ih (popStep p s).2 (by omega) (by rw [q3]; exact hbs) bnd0 ?_ x h
      rw [q3, q1, ← hcl']; exact hrest

theorem fitsB_le (segs : List Seg) : ∀ (start stop : Nat), fitsB start stop segs = true → start ≤ stop := by
  induction segs with
  | nil => intro a b h; simpa [fitsB] using h
  | cons s rest ih =>
    intro a b h
    simp only [fitsB, Bool.and_eq_true, decide_eq_true_eq] at h
    have := ih _ _ h.2
    omega

theorem walk_ordered (segs : List Seg) : ∀ (parent : Span),
    fitsB parent.start parent.stop segs = true →
    ∀ x ∈ walk parent segs, x.2.start ≤ x.2.stop ∧ parent.start ≤ x.1.start := by
  induction segs with
  | nil => intro p _ x h; simp [walk] at h
  | cons s rest ih =>
    intro p hf x h
    simp only [fitsB, Bool.and_eq_true, decide_eq_true_eq] at hf
    simp only [walk, List.mem_cons] at h
    have h1 := popStep_parent_stop p s
    have h2 := popStep_seg_start p s
    have h3 := popStep_parent_start p s
    have hle := fitsB_le _ _ _ hf.2
    rcases h with h | h
    · subst h; omega
    · have hf' : fitsB (popStep p s).2.start (popStep p s).2.stop rest = true := by
        rw [h1, h3]; exact hf.2
      have := ih _ hf' x h
      omega

theorem utf8Len_pos (c : Nat) : 1 ≤ utf8Len c := by
  unfold utf8Len; split <;> (try split) <;> (try split) <;> omega
theorem utf8Len_le (c : Nat) : utf8Len c ≤ 4 := by
  unfold utf8Len; split <;> (try split) <;> (try split) <;> omega
theorem utf8Len_1 {c : Nat} (h : c < 128) : utf8Len c = 1 := by simp [utf8Len, h]
theorem utf8Len_2 {c : Nat} (h1 : 128 ≤ c) (h2 : c < 2048) : utf8Len c = 2 := by
  have : ¬ c < 128 := by omega
  simp [utf8Len, this, h2]
theorem utf8Len_3 {c : Nat} (h1 : 2048 ≤ c) (h2 : c < 65536) : utf8Len c = 3 := by
  have : ¬ c < 128 := by omega
  have : ¬ c < 2048 := by omega
  simp [utf8Len, *]
theorem utf8Len_4 {c : Nat} (h1 : 65536 ≤ c) : utf8Len c = 4 := by
  have : ¬ c < 128 := by omega
  have : ¬ c < 2048 := by omega
  have : ¬ c < 65536 := by omega
  simp [utf8Len, *]
/-- a decoded character is never shorter than `len_utf8` of its code point (equal for
    well-formed UTF-8, possibly longer for an overlong form) -/
theorem utf8Len_le_of_lt {c k : Nat} (hk : 1 ≤ k)
    (h2 : 2 ≤ k ∨ c < 128) (h3 : 3 ≤ k ∨ c < 2048) (h4 : 4 ≤ k ∨ c < 65536) : utf8Len c ≤ k := by
  unfold utf8Len; split <;> (try split) <;> (try split) <;> omega

/-- offsets strictly increase and stay inside `[lo, len)`; the `len_utf8` of a character fits -/

def PosOK (len : Nat) : Nat → List (Nat × Nat) → Prop
  | _, [] => True
  | lo, (p, c) :: rest => lo ≤ p ∧ p < len ∧ p + utf8Len c ≤ len ∧ PosOK len (p + 1) rest

theorem PosOK_mono {len : Nat} (cs : List (Nat × Nat)) : ∀ {lo lo' : Nat}, lo' ≤ lo → PosOK len lo cs → PosOK len lo' cs := by
  cases cs with
  | nil => intros; trivial
  | cons x rest =>
    intro lo lo' h hp
    obtain ⟨p, c⟩ := x
    simp only [PosOK] at hp ⊢
    exact ⟨by omega, hp.2.1, hp.2.2.1, hp.2.2.2⟩

theorem PosOK_cast {len len' lo lo' : Nat} {cs : List (Nat × Nat)} (h1 : len = len') (h2 : lo' ≤ lo)
    (h : PosOK len lo cs) : PosOK len' lo' cs := by
  subst h1; exact PosOK_mono cs h2 h

theorem posOK_charIndicesFrom (pos : Nat) (src : List Nat) :
    PosOK (pos + src.length) pos (charIndicesFrom pos src) := by
  fun_induction charIndicesFrom pos src <;> simp_all [PosOK]
  all_goals (refine ⟨?_, PosOK_cast ?_ ?_ ‹_›⟩ <;> first | omega | (apply utf8Len_le_of_lt <;> omega))

theorem nextIndex_bounds {len lo : Nat} {cs : List (Nat × Nat)} (h : PosOK len lo cs) (hl : lo ≤ len) :
    lo ≤ nextIndex len cs ∧ nextIndex len cs ≤ len := by
  cases cs with
  | nil => simp [nextIndex]; omega
  | cons x rest => obtain ⟨p, c⟩ := x; simp only [PosOK] at h; simp [nextIndex]; omega

/-- invariant of the scanner state: a pending backslash lies before the unread characters -/

def StOK (lo len : Nat) : StrSt → Prop
  | .normal => True
  | .esc bs => bs < lo ∧ bs < len
  | .uni bs => bs < lo ∧ bs < len
  | .hex bs _ _ => bs < lo ∧ bs < len

/-- every error of `string_literal` carries a label that is non-empty, ordered and inside the
    source (for ANY source, ASCII or not) -/

theorem scanString_label_range (len start : Nat) (hs : start < len) :
    ∀ (cs : List (Nat × Nat)) (st : StrSt) (lo : Nat) (e : LexErr),
    PosOK len lo cs → lo ≤ len → StOK lo len st → scanString len start st cs = .error e →
    e.label.start < e.label.stop ∧ e.label.stop ≤ len := by
  intro cs
  induction cs with
  | nil =>
    intro st lo e _ _ hst h
    cases st <;> simp [scanString] at h <;> subst h <;> simp [LexErr.label, StOK] at * <;> omega
  | cons x rest ih =>
    intro st lo e hp hl hst h
    obtain ⟨p, c⟩ := x
    simp only [PosOK] at hp
    obtain ⟨h1, h2, h2u, h3⟩ := hp
    have hu1 := utf8Len_pos c
    have hn := nextIndex_bounds h3 (by omega)
    cases st with
    | normal =>
      simp only [scanString] at h
      split at h
      · cases h
      · split at h
        · exact ih _ _ _ h3 (by omega) (by simp [StOK]; omega) h
        · exact ih _ _ _ h3 (by omega) (by simp [StOK]) h
    | esc bs =>
      simp only [scanString] at h
      simp only [StOK] at hst
      split at h
      · exact ih _ _ _ h3 (by omega) (by simp [StOK]) h
      · split at h
        · exact ih _ _ _ h3 (by omega) (by simp [StOK]; omega) h
        · cases h; simp [LexErr.label]; omega
    | uni bs =>
      simp only [scanString] at h
      simp only [StOK] at hst
      split at h
      · exact ih _ _ _ h3 (by omega) (by simp [StOK]; omega) h
      · cases h; simp [LexErr.label]; omega
    | hex bs n v =>
      simp only [scanString] at h
      simp only [StOK] at hst
      split at h
      · split at h
        · cases h; simp [LexErr.label]; omega
        · split at h
          · exact ih _ _ _ h3 (by omega) (by simp [StOK]) h
          · cases h; simp [LexErr.label]; omega
      · split at h
        · exact ih _ _ _ h3 (by omega) (by simp [StOK]; omega) h
        · cases h; simp [LexErr.label]; omega

theorem popStep_bounds (p : Span) (s : Seg) :
    (popStep p s).1.start ≤ (popStep p s).1.stop ∧ (popStep p s).1.stop = p.stop ∧
    (popStep p s).2.stop ≤ p.stop := by
  cases s <;> simp [popStep] <;> omega

/-- unconditional part: segment spans are ordered and end inside the parent; parent spans keep
    their start and never end later -/
theorem walk_bounds (segs : List Seg) : ∀ (parent : Span) (x : Span × Span), x ∈ walk parent segs →
    x.1.start ≤ x.1.stop ∧ x.1.stop ≤ parent.stop ∧ x.2.stop ≤ parent.stop ∧ x.2.start = parent.start := by
  induction segs with
  | nil => intro p x h; simp [walk] at h
  | cons s rest ih =>
    intro p x h
    simp only [walk, List.mem_cons] at h
    have hb := popStep_bounds p s
    have hs := popStep_parent_start p s
    rcases h with h | h
    · subst h; omega
    · have := ih _ x h
      omega

/-- whatever the kind check says, the reported pair is one of the pairs of the walk -/
theorem overwritableLoop_mem (valid : Nat → Bool) (segs : List Seg) : ∀ (parent : Span) (x : Span × Span),
    overwritableLoop valid parent segs = some x → x ∈ walk parent segs := by
  induction segs with
  | nil => intro p x h; simp [overwritableLoop] at h
  | cons s rest ih =>
    intro p x h
    simp only [overwritableLoop] at h
    simp only [walk, List.mem_cons]
    split at h
    · exact Or.inr (ih _ _ h)
    · cases h; exact Or.inl rfl

/-- in an ASCII-only source every offset up to the length is a character boundary -/
theorem ascii_boundary {src : List Nat} (ha : ∀ b ∈ src, b < 128) {i : Nat} (hi : i ≤ src.length) :
    isCharBoundary src i = true := by
  unfold isCharBoundary
  cases i with
  | zero => rfl
  | succ n =>
    cases h : src[n + 1]? with
    | none =>
      have := List.getElem?_eq_none_iff.mp h
      simp; omega
    | some b =>
      have hm : b ∈ src := List.mem_of_getElem? h
      have := ha b hm
      simp [isCont]; omega

theorem PosOK_tail {len lo : Nat} {cs : List (Nat × Nat)} (h : PosOK len lo cs) : PosOK len 0 (cs.drop 1) := by
  cases cs with
  | nil => trivial
  | cons x rest =>
    obtain ⟨p, c⟩ := x
    simp only [PosOK] at h
    exact PosOK_mono rest (Nat.zero_le _) h.2.2.2

/-- `quoted_literal` has a single error, pointing at the literal's first character -/
theorem scanQuoted_error (len start : Nat) : ∀ (cs : List (Nat × Nat)) (b : Bool) (e : LexErr),
    scanQuoted len start b cs = .error e → e = .literal start := by
  intro cs
  induction cs with
  | nil => intro b e h; cases b <;> simp [scanQuoted] at h <;> exact h.symm
  | cons x rest ih =>
    intro b e h
    obtain ⟨p, c⟩ := x
    cases b with
    | true => simp only [scanQuoted] at h; exact ih _ _ h
    | false =>
      simp only [scanQuoted] at h
      split at h
      · cases h
      · split at h <;> exact ih _ _ h

theorem charIndicesFrom_ascii (pos b0 : Nat) (rest : List Nat) (h : b0 < 128) :
    charIndicesFrom pos (b0 :: rest) = (pos, b0) :: charIndicesFrom (pos + 1) rest := by
  conv => lhs; unfold charIndicesFrom
  simp [h]

/-! ## well-formed UTF-8: the decoded characters tile the source -/

def Chain (src : List Nat) : Nat → List (Nat × Nat) → Prop
  | lo, [] => lo = src.length
  | lo, (p, c) :: rest =>
    p = lo ∧ isCharBoundary src p = true ∧ Chain src (p + utf8Len c) rest

theorem boundary_len (src : List Nat) : isCharBoundary src src.length = true := by
  unfold isCharBoundary
  cases h : src.length with
  | zero => rfl
  | succ n =>
    have : src[n + 1]? = none := by
      apply List.getElem?_eq_none_iff.mpr; omega
    simp [this]

theorem boundary_lead (pre : List Nat) (b : Nat) (rest : List Nat) (hb : isCont b = false) :
    isCharBoundary (pre ++ b :: rest) pre.length = true := by
  unfold isCharBoundary
  cases h : pre.length with
  | zero => rfl
  | succ n =>
    have : (pre ++ b :: rest)[n + 1]? = some b := by
      rw [← h]; simp
    simp [this, hb]

theorem not_cont_of_lt {b : Nat} (h : b < 128) : isCont b = false := by simp [isCont]; omega
theorem not_cont_of_ge {b : Nat} (h : 192 ≤ b) : isCont b = false := by simp [isCont]; omega

theorem chain_charIndicesFrom (pos : Nat) (suf : List Nat) :
    ∀ (pre : List Nat), pre.length = pos → wfUtf8 suf = true →
    Chain (pre ++ suf) pos (charIndicesFrom pos suf) := by
  fun_induction charIndicesFrom pos suf with
  | case1 pos =>
    intro pre hp _; simp [Chain, hp]
  | case2 pos b0 rest h ih =>
    intro pre hp hw
    unfold wfUtf8 at hw; simp only [h, if_true] at hw
    refine ⟨rfl, ?_, ?_⟩
    · rw [← hp]; exact boundary_lead pre b0 rest (not_cont_of_lt h)
    · have := ih (pre ++ [b0]) (by simp [hp]) hw
      rw [utf8Len_1 h]
      simpa [List.append_assoc] using this
  | case3 pos b0 h1 h2 b1 r ih =>
    intro pre hp hw
    have h3 : ¬ b0 < 192 := by
      intro h; (unfold wfUtf8 at hw; simp [h1, h] at hw)
    unfold wfUtf8 at hw; simp only [h1, h2, h3, if_true, if_false, Bool.and_eq_true, decide_eq_true_eq] at hw
    refine ⟨rfl, ?_, ?_⟩
    · rw [← hp]; exact boundary_lead pre b0 _ (not_cont_of_ge (by omega))
    · have := ih (pre ++ [b0, b1]) (by simp [hp]) hw.2
      rw [utf8Len_2 (by omega) (by omega)]
      simpa [List.append_assoc] using this
  | case4 pos b0 h1 h2 =>
    intro pre hp hw
    by_cases h3' : b0 < 192
    · (unfold wfUtf8 at hw; simp [h1, h3'] at hw)
    · (unfold wfUtf8 at hw; simp [h1, h2, h3'] at hw)
  | case5 pos b0 h1 h2 h3 b1 b2 r ih =>
    intro pre hp hw
    have h4 : ¬ b0 < 192 := by omega
    unfold wfUtf8 at hw; simp only [h1, h2, h3, h4, if_true, if_false, Bool.and_eq_true, decide_eq_true_eq] at hw
    refine ⟨rfl, ?_, ?_⟩
    · rw [← hp]; exact boundary_lead pre b0 _ (not_cont_of_ge (by omega))
    · have := ih (pre ++ [b0, b1, b2]) (by simp [hp]) hw.2
      rw [utf8Len_3 (by omega) (by omega)]
      simpa [List.append_assoc] using this
  | case6 pos b0 rest h1 h2 h3 hne =>
    intro pre hp hw
    have h4 : ¬ b0 < 192 := by omega
    exfalso
    cases rest with
    | nil => (unfold wfUtf8 at hw; simp [h1, h2, h3, h4] at hw)
    | cons b1 r =>
      cases r with
      | nil => (unfold wfUtf8 at hw; simp [h1, h2, h3, h4] at hw)
      | cons b2 r2 => exact hne b1 b2 r2 rfl
  | case7 pos b0 h1 h2 h3 b1 b2 b3 r ih =>
    intro pre hp hw
    have h4 : ¬ b0 < 192 := by omega
    have h5 : b0 < 248 := by
      apply Classical.byContradiction; intro h; (unfold wfUtf8 at hw; simp [h1, h2, h3, h4, h] at hw)
    unfold wfUtf8 at hw; simp only [h1, h2, h3, h4, h5, if_true, if_false, Bool.and_eq_true, decide_eq_true_eq] at hw
    refine ⟨rfl, ?_, ?_⟩
    · rw [← hp]; exact boundary_lead pre b0 _ (not_cont_of_ge (by omega))
    · have := ih (pre ++ [b0, b1, b2, b3]) (by simp [hp]) hw.2
      rw [utf8Len_4 (by omega)]
      simpa [List.append_assoc] using this
  | case8 pos b0 rest h1 h2 h3 hne =>
    intro pre hp hw
    have h4 : ¬ b0 < 192 := by omega
    exfalso
    by_cases h5 : b0 < 248
    · cases rest with
      | nil => (unfold wfUtf8 at hw; simp [h1, h2, h3, h4, h5] at hw)
      | cons b1 r =>
        cases r with
        | nil => (unfold wfUtf8 at hw; simp [h1, h2, h3, h4, h5] at hw)
        | cons b2 r2 =>
          cases r2 with
          | nil => (unfold wfUtf8 at hw; simp [h1, h2, h3, h4, h5] at hw)
          | cons b3 r3 => exact hne b1 b2 b3 r3 rfl
    · (unfold wfUtf8 at hw; simp [h1, h2, h3, h4, h5] at hw)

/-- what a chain starting at `lo` says about `lo` itself -/
theorem chain_start {src : List Nat} {lo : Nat} {cs : List (Nat × Nat)} (h : Chain src lo cs) :
    lo ≤ src.length ∧ isCharBoundary src lo = true ∧ nextIndex src.length cs = lo := by
  induction cs generalizing lo with
  | nil => simp only [Chain] at h; subst h; exact ⟨Nat.le_refl _, boundary_len src, rfl⟩
  | cons x rest ih =>
    obtain ⟨p, c⟩ := x
    simp only [Chain] at h
    obtain ⟨hp, hb, hr⟩ := h
    subst hp
    have := ih hr
    exact ⟨by omega, hb, rfl⟩

/-- a pending backslash at `bs`: one-byte character on boundaries, before the unread input -/
def StB (src : List Nat) (lo : Nat) : StrSt → Prop
  | .normal => True
  | .esc bs => isCharBoundary src bs = true ∧ isCharBoundary src (bs + 1) = true ∧ bs + 1 ≤ lo
  | .uni bs => isCharBoundary src bs = true ∧ isCharBoundary src (bs + 1) = true ∧ bs + 1 ≤ lo
  | .hex bs _ _ => isCharBoundary src bs = true ∧ isCharBoundary src (bs + 1) = true ∧ bs + 1 ≤ lo

/-- core of the lexer theorems (repaired code): scanning a well-formed tiling, every error other
    than "unterminated string" (whose label depends on where the caller says the literal started)
    has a well-formed label — the invalid-escape label now covers the whole character -/
theorem scanString_label_wf' (src : List Nat) (start : Nat) :
    ∀ (cs : List (Nat × Nat)) (st : StrSt) (lo : Nat) (e : LexErr),
    Chain src lo cs → StB src lo st → scanString src.length start st cs = .error e →
    e = .stringLiteral start ∨ WF src e.label := by
  intro cs
  induction cs with
  | nil =>
    intro st lo e hc hst h
    have hl := chain_start hc
    cases st <;> simp [scanString] at h <;> subst h <;> simp only [StB] at hst
    · exact Or.inl rfl
    all_goals (refine Or.inr ?_; simp only [LexErr.label, WF]; exact ⟨by omega, by omega, hst.1, hst.2.1⟩)
  | cons x rest ih =>
    intro st lo e hc hst h
    obtain ⟨p, c⟩ := x
    simp only [Chain] at hc
    obtain ⟨hp, hb, hr⟩ := hc
    subst hp
    have hn := chain_start hr
    have hu1 := utf8Len_pos c
    cases st with
    | normal =>
      simp only [scanString] at h
      split at h
      · cases h
      · split at h
        · rename_i hc92
          subst hc92
          have h1 : utf8Len 92 = 1 := by decide
          rw [h1] at hn hr
          exact ih _ _ _ hr (by simp only [StB]; exact ⟨hb, hn.2.1, Nat.le_refl _⟩) h
        · exact ih _ _ _ hr (by simp [StB]) h
    | esc bs =>
      simp only [scanString] at h
      simp only [StB] at hst
      split at h
      · exact ih _ _ _ hr (by simp [StB]) h
      · split at h
        · exact ih _ _ _ hr (by simp only [StB]; exact ⟨hst.1, hst.2.1, by omega⟩) h
        · cases h
          exact Or.inr ⟨by simp only [LexErr.label]; omega, by simp only [LexErr.label]; exact hn.1, hb, hn.2.1⟩
    | uni bs =>
      simp only [scanString] at h
      simp only [StB] at hst
      split at h
      · exact ih _ _ _ hr (by simp only [StB]; exact ⟨hst.1, hst.2.1, by omega⟩) h
      · cases h
        exact Or.inr ⟨by simp only [LexErr.label]; omega, by simp only [LexErr.label]; exact hn.1, hb, hn.2.1⟩
    | hex bs n v =>
      simp only [scanString] at h
      simp only [StB] at hst
      split at h
      · split at h
        · cases h
          refine Or.inr ⟨?_, ?_, hst.1, ?_⟩ <;> simp only [LexErr.label] <;> rw [hn.2.2]
          · omega
          · exact hn.1
          · exact hn.2.1
        · split at h
          · exact ih _ _ _ hr (by simp [StB]) h
          · cases h
            refine Or.inr ⟨?_, ?_, hst.1, ?_⟩ <;> simp only [LexErr.label] <;> rw [hn.2.2]
            · omega
            · exact hn.1
            · exact hn.2.1
      · split at h
        · exact ih _ _ _ hr (by simp only [StB]; exact ⟨hst.1, hst.2.1, by omega⟩) h
        · cases h
          exact Or.inr ⟨by simp only [LexErr.label]; omega, by simp only [LexErr.label]; exact hn.1, hb, hn.2.1⟩

theorem scanString_label_wf (src : List Nat) (start : Nat)
    (hs0 : isCharBoundary src start = true) (hs1 : isCharBoundary src (start + 1) = true)
    (hs2 : start + 1 ≤ src.length) (cs : List (Nat × Nat)) (st : StrSt) (lo : Nat) (e : LexErr)
    (hc : Chain src lo cs) (hst : StB src lo st) (h : scanString src.length start st cs = .error e) :
    WF src e.label := by
  rcases scanString_label_wf' src start cs st lo e hc hst h with h1 | h1
  · subst h1; exact ⟨by simp [LexErr.label], by simpa [LexErr.label] using hs2, hs0, hs1⟩
  · exact h1

/-- boundaries of a suffix are boundaries of the whole text, shifted -/
theorem isCharBoundary_append (pre sub : List Nat) (i : Nat) (hi : 0 < i) :
    isCharBoundary (pre ++ sub) (pre.length + i) = isCharBoundary sub i := by
  unfold isCharBoundary
  cases i with
  | zero => omega
  | succ n =>
    have h1 : pre.length + (n + 1) = (pre.length + n) + 1 := by omega
    rw [h1]
    have h2 : (pre ++ sub)[pre.length + n + 1]? = sub[n + 1]? := by
      rw [show pre.length + n + 1 = pre.length + (n + 1) by omega]
      exact List.getElem?_append_right (by omega) |>.trans (by simp)
    simp only [h2]
    cases sub[n + 1]? with
    | none =>
      rw [Bool.eq_iff_iff]
      simp only [beq_iff_eq, List.length_append]
      omega
    | some b => rfl

/-- a well-formed span of a well-formed suffix is a well-formed span of the whole text -/
theorem WF_shift (pre sub : List Nat) (hu : wfUtf8 sub = true) (s : Span) (h : WF sub s)
    (hne : s.start < s.stop) : WF (pre ++ sub) ⟨s.start + pre.length, s.stop + pre.length⟩ := by
  obtain ⟨h1, h2, h3, h4⟩ := h
  have hb0 : isCharBoundary (pre ++ sub) pre.length = true :=
    (chain_start (chain_charIndicesFrom pre.length sub pre rfl hu)).2.1
  refine ⟨by simp; omega, by simp; omega, ?_, ?_⟩
  · by_cases hz : s.start = 0
    · simp [hz]; exact hb0
    · have := isCharBoundary_append pre sub s.start (by omega)
      rw [show s.start + pre.length = pre.length + s.start by omega]
      simp only []
      rw [this]; exact h3
  · have := isCharBoundary_append pre sub s.stop (by omega)
    rw [show s.stop + pre.length = pre.length + s.stop by omega]
    simp only []
    rw [this]; exact h4

end Spans
