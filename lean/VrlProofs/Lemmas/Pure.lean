import VrlModel.Lang.Pure
import VrlProofs.Lemmas.LogFn

namespace Lang

/-- every slot thunk chosen by `placeArgs` is one of the argument thunks -/
theorem placeArgs_mem (params : List String) (args : List (Option String × Thunk))
    (slots : List (Option Thunk)) (h : placeArgs params args = some slots) (t : Thunk)
    (ht : some t ∈ slots) : ∃ k, (k, t) ∈ args := by
  unfold placeArgs at h
  simp only at h
  split at h
  · cases h
  · rcases fill_mem _ _ _ h t ht with h1 | h1
    · simp only [List.mem_map] at h1
      obtain ⟨p, _, hp⟩ := h1
      cases hf : List.find? (fun x => x.fst == p) (List.filterMap (fun x => Option.map (fun x_1 => (x_1, x.snd)) x.fst) args) with
      | none => rw [hf] at hp; cases hp
      | some kt =>
        rw [hf] at hp
        simp only [Option.map_some, Option.some.injEq] at hp
        have hm := List.mem_of_find?_eq_some hf
        simp only [List.mem_filterMap] at hm
        obtain ⟨⟨k, t'⟩, hmem, hk⟩ := hm
        cases k with
        | none => simp at hk
        | some kk =>
          simp at hk
          subst hk
          simp at hp
          subst hp
          exact ⟨_, hmem⟩
    · simp only [List.mem_filterMap] at h1
      obtain ⟨⟨k, t'⟩, hmem, hk⟩ := h1
      cases k with
      | none => simp at hk; subst hk; exact ⟨_, hmem⟩
      | some _ => simp at hk

/-- a thunk that never changes the state -/
def Stable (t : Thunk) : Prop := ∀ s, (t s).2 = s

theorem evalSlots_stable : (slots : List (Option Thunk)) → (∀ t, some t ∈ slots → Stable t) → ∀ s,
    (evalSlots slots s).2 = s
  | [], _, _ => rfl
  | none :: rest, h, s => by
    have ih := evalSlots_stable rest (fun t ht => h t (List.mem_cons_of_mem _ ht)) s
    rw [evalSlots]
    cases hr : evalSlots rest s with | mk r s1 => rw [hr] at ih; cases r <;> exact ih
  | some t :: rest, h, s => by
    have h1 := h t List.mem_cons_self s
    rw [evalSlots]
    cases ht : t s with
    | mk r s1 =>
      rw [ht] at h1
      simp only at h1
      subst h1
      cases r with
      | ok v =>
        have ih := evalSlots_stable rest (fun t ht => h t (List.mem_cons_of_mem _ ht)) s1
        simp only
        cases hr : evalSlots rest s1 with | mk r2 s2 => rw [hr] at ih; cases r2 <;> exact ih
      | _ => rfl

/-- a call without closure whose argument thunks are stable leaves the state untouched. -/
theorem callFn_stable (name : String) (args : List (Option String × Thunk))
    (ha : ∀ k t, (k, t) ∈ args → Stable t) (s : St) : (callFn name args none s).2 = s := by
  unfold callFn
  split
  · rfl
  · split
    · rfl
    · rename_i slots hpl
      have hsl : ∀ t, some t ∈ slots → Stable t := fun t ht => by
        obtain ⟨k, hk⟩ := placeArgs_mem _ args slots hpl t ht
        exact ha k t hk
      split
      all_goals first
        | contradiction
        | (have := evalSlots_stable _ hsl s
           cases hr : evalSlots _ s with | mk r s1 => rw [hr] at this; cases r <;> exact this)
        | rfl
        | trace_state

/-- a thunk that never evaluates to `return` -/
def NoRet (t : Thunk) : Prop := ∀ s v, (t s).1 ≠ .ret v

theorem purFn_no_ret (name : String) (args : List (Option Value)) (v : Value) : purFn name args ≠ .ret v := by
  unfold purFn
  repeat' split
  all_goals simp

theorem evalSlots_no_ret : (slots : List (Option Thunk)) → (∀ t, some t ∈ slots → NoRet t) → ∀ s v,
    (evalSlots slots s).1 ≠ .error (.ret v)
  | [], _, _, _ => by simp [evalSlots]
  | none :: rest, h, s, v => by
    have ih := evalSlots_no_ret rest (fun t ht => h t (List.mem_cons_of_mem _ ht)) s v
    rw [evalSlots]
    cases hr : evalSlots rest s with | mk r s1 => rw [hr] at ih; cases r <;> simp_all
  | some t :: rest, h, s, v => by
    have h1 := h t List.mem_cons_self s v
    rw [evalSlots]
    cases ht : t s with
    | mk r s1 =>
      rw [ht] at h1
      cases r with
      | ok v1 =>
        have ih := evalSlots_no_ret rest (fun t ht => h t (List.mem_cons_of_mem _ ht)) s1 v
        simp only
        cases hr : evalSlots rest s1 with | mk r2 s2 => rw [hr] at ih; cases r2 <;> simp_all
      | _ => simp_all

theorem callFn_no_ret (name : String) (args : List (Option String × Thunk))
    (ha : ∀ k t, (k, t) ∈ args → NoRet t) (s : St) (v : Value) : (callFn name args none s).1 ≠ .ret v := by
  unfold callFn
  split
  · simp
  · split
    · simp
    · rename_i slots hpl
      have hsl : ∀ t, some t ∈ slots → NoRet t := fun t ht => by
        obtain ⟨k, hk⟩ := placeArgs_mem _ args slots hpl t ht
        exact ha k t hk
      split
      all_goals first
        | contradiction
        | (have := evalSlots_no_ret _ hsl s v
           cases hr : evalSlots _ s with
           | mk r s1 =>
             rw [hr] at this
             cases r with
             | ok vals => exact purFn_no_ret _ _ _
             | error e => simpa using this)
        | simp
end Lang
