/-
  UTF-8 lemmas: `decode (encode cs) = some cs` for every list of Unicode scalar values.
-/
import VrlModel.Utf8

namespace Utf8

theorem charOfNat?_toNat (c : Char) : charOfNat? c.toNat = some c := by
  unfold charOfNat?
  have h : c.toNat.isValidChar := c.valid
  rw [dif_pos h]
  rfl

/-- a scalar value is below 0x110000 and not a surrogate. -/
theorem toNat_bounds (c : Char) : c.toNat < 0xD800 ∨ (0xDFFF < c.toNat ∧ c.toNat < 0x110000) :=
  c.valid

theorem encodeChar_ne_nil (c : Char) : encodeChar c ≠ [] := by
  unfold encodeChar
  simp only []
  split
  · simp
  · split
    · simp
    · split <;> simp

theorem isCont_iff (b : Nat) : isCont b = true ↔ (0x80 ≤ b ∧ b < 0xC0) := by
  simp only [isCont, Bool.and_eq_true, decide_eq_true_eq]

theorem decodeOne_1 (b0 : Nat) (bs : List Nat) (h : b0 < 0x80) :
    decodeOne (b0 :: bs) = (charOfNat? b0).map (·, bs) := by
  unfold decodeOne
  show (if b0 < 0x80 then _ else _) = _
  rw [if_pos h]

theorem decodeOne_2 (b0 b1 n : Nat) (bs : List Nat) (h1 : 0xC2 ≤ b0) (h2 : b0 < 0xE0)
    (c1 : isCont b1 = true) (hn : (b0 - 0xC0) * 64 + (b1 - 0x80) = n) :
    decodeOne (b0 :: b1 :: bs) = (charOfNat? n).map (·, bs) := by
  have a1 : ¬ b0 < 0x80 := by omega
  have a2 : ¬ b0 < 0xC2 := by omega
  simp only [decodeOne, a1, a2, h2, c1, hn, if_true, if_false]

theorem decodeOne_3 (b0 b1 b2 n : Nat) (bs : List Nat) (h1 : 0xE0 ≤ b0) (h2 : b0 < 0xF0)
    (c1 : isCont b1 = true) (c2 : isCont b2 = true)
    (hn : (b0 - 0xE0) * 4096 + (b1 - 0x80) * 64 + (b2 - 0x80) = n) (hge : 0x800 ≤ n) :
    decodeOne (b0 :: b1 :: b2 :: bs) = (charOfNat? n).map (·, bs) := by
  have a1 : ¬ b0 < 0x80 := by omega
  have a2 : ¬ b0 < 0xC2 := by omega
  have a3 : ¬ b0 < 0xE0 := by omega
  simp only [decodeOne, a1, a2, a3, h2, c1, c2, hn, hge, if_true, if_false, Bool.and_self,
    decide_true]

theorem decodeOne_4 (b0 b1 b2 b3 n : Nat) (bs : List Nat) (h1 : 0xF0 ≤ b0) (h2 : b0 < 0xF8)
    (c1 : isCont b1 = true) (c2 : isCont b2 = true) (c3 : isCont b3 = true)
    (hn : (b0 - 0xF0) * 262144 + (b1 - 0x80) * 4096 + (b2 - 0x80) * 64 + (b3 - 0x80) = n)
    (hge : 0x10000 ≤ n) :
    decodeOne (b0 :: b1 :: b2 :: b3 :: bs) = (charOfNat? n).map (·, bs) := by
  have a1 : ¬ b0 < 0x80 := by omega
  have a2 : ¬ b0 < 0xC2 := by omega
  have a3 : ¬ b0 < 0xE0 := by omega
  have a4 : ¬ b0 < 0xF0 := by omega
  simp only [decodeOne, a1, a2, a3, a4, h2, c1, c2, c3, hn, hge, if_true, if_false, Bool.and_self,
    decide_true]

/-- one decoder step undoes `encodeChar`. -/
theorem decodeOne_encodeChar_append (c : Char) (bs : List Nat) :
    decodeOne (encodeChar c ++ bs) = some (c, bs) := by
  have hb := toNat_bounds c
  have hc := charOfNat?_toNat c
  unfold encodeChar
  simp only []
  generalize c.toNat = n at hb hc ⊢
  by_cases h1 : n < 0x80
  · simp only [h1, if_true, List.cons_append, List.nil_append]
    rw [decodeOne_1 _ _ h1, hc]
    rfl
  · by_cases h2 : n < 0x800
    · simp only [h1, h2, if_true, if_false, List.cons_append, List.nil_append]
      rw [decodeOne_2 _ _ n bs (by omega) (by omega) ((isCont_iff _).2 (by omega)) (by omega),
        hc]
      rfl
    · by_cases h3 : n < 0x10000
      · simp only [h1, h2, h3, if_true, if_false, List.cons_append, List.nil_append]
        rw [decodeOne_3 _ _ _ n bs (by omega) (by omega) ((isCont_iff _).2 (by omega))
          ((isCont_iff _).2 (by omega)) (by omega) (by omega), hc]
        rfl
      · simp only [h1, h2, h3, if_false, List.cons_append, List.nil_append]
        rw [decodeOne_4 _ _ _ _ n bs (by omega) (by omega) ((isCont_iff _).2 (by omega))
          ((isCont_iff _).2 (by omega)) ((isCont_iff _).2 (by omega)) (by omega) (by omega), hc]
        rfl

theorem length_le_encode (cs : List Char) : cs.length ≤ (encode cs).length := by
  induction cs with
  | nil => simp [encode]
  | cons c cs ih =>
    have := encodeChar_ne_nil c
    simp only [encode, List.length_append, List.length_cons]
    cases h : encodeChar c with
    | nil => exact absurd h this
    | cons b bs => simp only [List.length_cons]; omega

theorem decodeFuel_encode (cs : List Char) : ∀ fuel, cs.length ≤ fuel →
    decodeFuel fuel (encode cs) = some cs := by
  induction cs with
  | nil => intro fuel _; cases fuel <;> rfl
  | cons c cs ih =>
    intro fuel hf
    cases fuel with
    | zero => simp at hf
    | succ f =>
      have hne := encodeChar_ne_nil c
      have hstep := decodeOne_encodeChar_append c (encode cs)
      simp only [encode]
      cases h : encodeChar c with
      | nil => exact absurd h hne
      | cons b bs =>
        rw [h] at hstep
        simp only [List.cons_append] at hstep ⊢
        rw [decodeFuel, hstep]
        simp only []
        rw [ih f (by simpa using hf)]

/-- UTF-8 round trip: decoding the encoding of any list of scalar values gives it back. -/
theorem decode_encode (cs : List Char) : decode (encode cs) = some cs :=
  decodeFuel_encode cs _ (length_le_encode cs)

/-- `encode` distributes over append. -/
theorem encode_append (a b : List Char) : encode (a ++ b) = encode a ++ encode b := by
  induction a with
  | nil => rfl
  | cons c cs ih => simp [encode, ih]

/-- `encode` is injective (consequence of the round trip). -/
theorem encode_injective {a b : List Char} (h : encode a = encode b) : a = b := by
  have := decode_encode a
  rw [h, decode_encode] at this
  exact (Option.some.inj this).symm

/-! ## the decoder is strict: `decode bs = some cs → encode cs = bs` -/

theorem toNat_of_charOfNat? {n : Nat} {c : Char} (h : charOfNat? n = some c) : c.toNat = n := by
  unfold charOfNat? at h
  split at h
  · cases h; rfl
  · cases h

theorem map_pair_eq {n : Nat} {r rest : List Nat} {c : Char}
    (h : (charOfNat? n).map (·, r) = some (c, rest)) : c.toNat = n ∧ r = rest := by
  cases hc : charOfNat? n with
  | none => simp [hc] at h
  | some c' =>
    simp only [hc, Option.map_some, Option.some.injEq, Prod.mk.injEq] at h
    obtain ⟨rfl, rfl⟩ := h
    exact ⟨toNat_of_charOfNat? hc, rfl⟩

/-- one decoder step only accepts the canonical encoding of the character it returns. -/
theorem decodeOne_sound (bs : List Nat) (c : Char) (rest : List Nat)
    (h : decodeOne bs = some (c, rest)) : bs = encodeChar c ++ rest := by
  cases bs with
  | nil => simp [decodeOne] at h
  | cons b0 r =>
    by_cases h1 : b0 < 0x80
    · simp only [decodeOne, h1, if_true] at h
      obtain ⟨hn, rfl⟩ := map_pair_eq h
      simp [encodeChar, hn, h1]
    · by_cases h2 : b0 < 0xC2
      · simp [decodeOne, h1, h2] at h
      · by_cases h3 : b0 < 0xE0
        · cases r with
          | nil => simp [decodeOne, h1, h2, h3] at h
          | cons b1 r1 =>
            simp only [decodeOne, h1, h2, h3, if_true, if_false] at h
            by_cases hcont : isCont b1 = true
            · simp only [hcont, if_true] at h
              obtain ⟨hn, rfl⟩ := map_pair_eq h
              rw [isCont_iff] at hcont
              have a1 : ¬ c.toNat < 0x80 := by omega
              have a2 : c.toNat < 0x800 := by omega
              have e1 : 0xC0 + c.toNat / 64 = b0 := by omega
              have e2 : 0x80 + c.toNat % 64 = b1 := by omega
              simp only [encodeChar, a1, a2, if_true, if_false, List.cons_append, List.nil_append,
                e1, e2]
            · simp [hcont] at h
        · by_cases h4 : b0 < 0xF0
          · match r, h with
            | [], h => simp [decodeOne, h1, h2, h3, h4] at h
            | [_], h => simp [decodeOne, h1, h2, h3, h4] at h
            | b1 :: b2 :: r2, h =>
              simp only [decodeOne, h1, h2, h3, h4, if_true, if_false] at h
              split at h
              · rename_i hcond
                simp only [Bool.and_eq_true, decide_eq_true_eq, isCont_iff] at hcond
                obtain ⟨hn, rfl⟩ := map_pair_eq h
                have a1 : ¬ c.toNat < 0x80 := by omega
                have a2 : ¬ c.toNat < 0x800 := by omega
                have a3 : c.toNat < 0x10000 := by omega
                have e1 : 0xE0 + c.toNat / 4096 = b0 := by omega
                have e2 : 0x80 + c.toNat / 64 % 64 = b1 := by omega
                have e3 : 0x80 + c.toNat % 64 = b2 := by omega
                simp only [encodeChar, a1, a2, a3, if_true, if_false, List.cons_append,
                  List.nil_append, e1, e2, e3]
              · cases h
          · by_cases h5 : b0 < 0xF8
            · match r, h with
              | [], h => simp [decodeOne, h1, h2, h3, h4, h5] at h
              | [_], h => simp [decodeOne, h1, h2, h3, h4, h5] at h
              | [_, _], h => simp [decodeOne, h1, h2, h3, h4, h5] at h
              | b1 :: b2 :: b3 :: r3, h =>
                simp only [decodeOne, h1, h2, h3, h4, h5, if_true, if_false] at h
                split at h
                · rename_i hcond
                  simp only [Bool.and_eq_true, decide_eq_true_eq, isCont_iff] at hcond
                  obtain ⟨hn, rfl⟩ := map_pair_eq h
                  have a1 : ¬ c.toNat < 0x80 := by omega
                  have a2 : ¬ c.toNat < 0x800 := by omega
                  have a3 : ¬ c.toNat < 0x10000 := by omega
                  have e1 : 0xF0 + c.toNat / 262144 = b0 := by omega
                  have e2 : 0x80 + c.toNat / 4096 % 64 = b1 := by omega
                  have e3 : 0x80 + c.toNat / 64 % 64 = b2 := by omega
                  have e4 : 0x80 + c.toNat % 64 = b3 := by omega
                  simp only [encodeChar, a1, a2, a3, if_false, List.cons_append, List.nil_append,
                    e1, e2, e3, e4]
                · cases h
            · simp [decodeOne, h1, h2, h3, h4, h5] at h

theorem decodeFuel_sound : ∀ (fuel : Nat) (bs : List Nat) (cs : List Char),
    decodeFuel fuel bs = some cs → encode cs = bs
  | 0, [], cs, h => by simp [decodeFuel] at h; subst h; rfl
  | _ + 1, [], cs, h => by simp [decodeFuel] at h; subst h; rfl
  | 0, _ :: _, cs, h => by simp [decodeFuel] at h
  | fuel + 1, b :: bs, cs, h => by
    rw [decodeFuel] at h
    cases h1 : decodeOne (b :: bs) with
    | none => simp [h1] at h
    | some pr =>
      obtain ⟨c, rest⟩ := pr
      simp only [h1] at h
      cases h2 : decodeFuel fuel rest with
      | none => simp [h2] at h
      | some cs' =>
        simp only [h2, Option.some.injEq] at h
        subst h
        rw [decodeOne_sound _ _ _ h1, encode, decodeFuel_sound fuel rest cs' h2]

/-- the decoder is strict: what decodes to `cs` is exactly `encode cs`. -/
theorem encode_decode (bs : List Nat) (cs : List Char) (h : decode bs = some cs) : encode cs = bs :=
  decodeFuel_sound _ bs cs h

end Utf8
