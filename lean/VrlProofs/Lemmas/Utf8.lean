/-
  UTF-8 lemmas: `decode (encode cs) = some cs` for every list of Unicode scalar values.
-/
import VrlModel.Utf8

namespace Utf8

theorem charOfNat?_toNat (c : Char) : charOfNat? c.toNat = some c := by
  unfold charOfNat?
  have h : c.toNat.isValidChar := c.valid
  rw [dif_pos h]
  rfl

/-- a scalar value is below 0x110000 and not a surrogate. -/
theorem toNat_bounds (c : Char) : c.toNat < 0xD800 ∨ (0xDFFF < c.toNat ∧ c.toNat < 0x110000) :=
  c.valid

theorem encodeChar_ne_nil (c : Char) : encodeChar c ≠ [] := by
  unfold encodeChar
  simp only []
  split
  · simp
  · split
    · simp
    · split <;> simp

/-- one decoder step undoes `encodeChar`. -/
theorem decodeOne_encodeChar_append (c : Char) (bs : List Nat) :
    decodeOne (encodeChar c ++ bs) = some (c, bs) := by
  have hb := toNat_bounds c
  have hc := charOfNat?_toNat c
  unfold encodeChar
  by_cases h1 : c.toNat < 0x80
  · simp only [h1, if_true, List.cons_append, List.nil_append, decodeOne, hc, Option.map]
  · by_cases h2 : c.toNat < 0x800
    · have a1 : ¬ (0xC0 + c.toNat / 64 < 0x80) := by omega
      have a2 : ¬ (0xC0 + c.toNat / 64 < 0xC2) := by omega
      have a3 : 0xC0 + c.toNat / 64 < 0xE0 := by omega
      have a4 : isCont (0x80 + c.toNat % 64) = true := by
        simp only [isCont, Bool.and_eq_true, decide_eq_true_eq]; omega
      have a5 : (0xC0 + c.toNat / 64 - 0xC0) * 64 + (0x80 + c.toNat % 64 - 0x80) = c.toNat := by
        omega
      simp only [h1, h2, if_true, if_false, List.cons_append, List.nil_append, decodeOne,
        a1, a2, a3, a4, a5, hc, Option.map]
    · by_cases h3 : c.toNat < 0x10000
      · have a1 : ¬ (0xE0 + c.toNat / 4096 < 0x80) := by omega
        have a2 : ¬ (0xE0 + c.toNat / 4096 < 0xC2) := by omega
        have a3 : ¬ (0xE0 + c.toNat / 4096 < 0xE0) := by omega
        have a4 : 0xE0 + c.toNat / 4096 < 0xF0 := by omega
        have a5 : isCont (0x80 + c.toNat / 64 % 64) = true := by
          simp only [isCont, Bool.and_eq_true, decide_eq_true_eq]; omega
        have a6 : isCont (0x80 + c.toNat % 64) = true := by
          simp only [isCont, Bool.and_eq_true, decide_eq_true_eq]; omega
        have a7 : (0xE0 + c.toNat / 4096 - 0xE0) * 4096 + (0x80 + c.toNat / 64 % 64 - 0x80) * 64
            + (0x80 + c.toNat % 64 - 0x80) = c.toNat := by omega
        have a8 : 0x800 ≤ c.toNat := by omega
        simp only [h1, h2, h3, if_true, if_false, List.cons_append, List.nil_append, decodeOne,
          a1, a2, a3, a4, a5, a6, a7, a8, hc, Option.map, Bool.and_self, decide_true]
      · have a1 : ¬ (0xF0 + c.toNat / 262144 < 0x80) := by omega
        have a2 : ¬ (0xF0 + c.toNat / 262144 < 0xC2) := by omega
        have a3 : ¬ (0xF0 + c.toNat / 262144 < 0xE0) := by omega
        have a4 : ¬ (0xF0 + c.toNat / 262144 < 0xF0) := by omega
        have a4' : 0xF0 + c.toNat / 262144 < 0xF8 := by omega
        have a5 : isCont (0x80 + c.toNat / 4096 % 64) = true := by
          simp only [isCont, Bool.and_eq_true, decide_eq_true_eq]; omega
        have a6 : isCont (0x80 + c.toNat / 64 % 64) = true := by
          simp only [isCont, Bool.and_eq_true, decide_eq_true_eq]; omega
        have a6' : isCont (0x80 + c.toNat % 64) = true := by
          simp only [isCont, Bool.and_eq_true, decide_eq_true_eq]; omega
        have a7 : (0xF0 + c.toNat / 262144 - 0xF0) * 262144
            + (0x80 + c.toNat / 4096 % 64 - 0x80) * 4096
            + (0x80 + c.toNat / 64 % 64 - 0x80) * 64 + (0x80 + c.toNat % 64 - 0x80) = c.toNat := by
          omega
        have a8 : 0x10000 ≤ c.toNat := by omega
        simp only [h1, h2, h3, if_false, List.cons_append, List.nil_append, decodeOne,
          a1, a2, a3, a4, a4', a5, a6, a6', a7, a8, hc, Option.map, Bool.and_self, decide_true,
          if_true]

theorem length_le_encode (cs : List Char) : cs.length ≤ (encode cs).length := by
  induction cs with
  | nil => simp [encode]
  | cons c cs ih =>
    have := encodeChar_ne_nil c
    simp only [encode, List.length_append, List.length_cons]
    cases h : encodeChar c with
    | nil => exact absurd h this
    | cons b bs => simp only [List.length_cons]; omega

theorem decodeFuel_encode (cs : List Char) : ∀ fuel, cs.length ≤ fuel →
    decodeFuel fuel (encode cs) = some cs := by
  induction cs with
  | nil => intro fuel _; cases fuel <;> rfl
  | cons c cs ih =>
    intro fuel hf
    cases fuel with
    | zero => simp at hf
    | succ f =>
      have hne := encodeChar_ne_nil c
      have hstep := decodeOne_encodeChar_append c (encode cs)
      simp only [encode]
      cases h : encodeChar c with
      | nil => exact absurd h hne
      | cons b bs =>
        rw [h] at hstep
        simp only [List.cons_append] at hstep ⊢
        rw [decodeFuel, hstep]
        simp only []
        rw [ih f (by simpa using hf)]

/-- UTF-8 round trip: decoding the encoding of any list of scalar values gives it back. -/
theorem decode_encode (cs : List Char) : decode (encode cs) = some cs :=
  decodeFuel_encode cs _ (length_le_encode cs)

/-- `encode` distributes over append. -/
theorem encode_append (a b : List Char) : encode (a ++ b) = encode a ++ encode b := by
  induction a with
  | nil => rfl
  | cons c cs ih => simp [encode, ih]

/-- `encode` is injective (consequence of the round trip). -/
theorem encode_injective {a b : List Char} (h : encode a = encode b) : a = b := by
  have := decode_encode a
  rw [h, decode_encode] at this
  exact (Option.some.inj this).symm

end Utf8
