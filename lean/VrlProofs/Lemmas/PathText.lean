/-
  Lemmas about the JIT path parser model, one group per state of the machine, used by the C20
  round-trip theorems.
-/
import VrlModel.PathText
import VrlProofs.Lemmas.Utf8

namespace PathText

/-! ## unfolding `jit` one character at a time -/

theorem jit_go {st st' : JitState} {c : Char} (rest : List Char) (h : step st c = .go st') :
    jit st (c :: rest) = jit st' rest := by
  simp [jit, h]

theorem jit_emit {st st' : JitState} {c : Char} {s : Seg} (rest : List Char)
    (h : step st c = .emit s st') : jit st (c :: rest) = (jit st' rest).cons s := by
  simp [jit, h]

theorem jit_invalid {st : JitState} {c : Char} (rest : List Char) (h : step st c = .invalid) :
    jit st (c :: rest) = .err := by
  simp [jit, h]

theorem jit_panic {st : JitState} {c : Char} (rest : List Char) (h : step st c = .panic) :
    jit st (c :: rest) = .panic := by
  simp [jit, h]

/-! ## character classes -/

theorem jit_of_ser {c : Char} (h : isSerChar c = true) : isJitChar c = true := by
  simp [isJitChar, h]

theorem beq_false_of_ser {c d : Char} (h : isSerChar c = true) (hd : isSerChar d = false) :
    (c == d) = false := by
  cases hcd : c == d with
  | false => rfl
  | true =>
    have := eq_of_beq hcd
    subst this
    simp [h] at hd

theorem beq_false_of_jit {c d : Char} (h : isJitChar c = true) (hd : isJitChar d = false) :
    (c == d) = false := by
  cases hcd : c == d with
  | false => rfl
  | true =>
    have := eq_of_beq hcd
    subst this
    simp [h] at hd

theorem beq_false_of_digit {c d : Char} (h : isDigit c = true) (hd : isDigit d = false) :
    (c == d) = false := by
  cases hcd : c == d with
  | false => rfl
  | true =>
    have := eq_of_beq hcd
    subst this
    simp [h] at hd

theorem isJitChar_dot : isJitChar '.' = false := by decide
theorem isJitChar_lbr : isJitChar '[' = false := by decide
theorem isJitChar_quote : isJitChar '"' = false := by decide
theorem digit_rbr : isDigit ']' = false := by decide
theorem digit_minus : isDigit '-' = false := by decide

theorem digitVal_bounds {c : Char} (h : isDigit c = true) : 0 ≤ digitVal c ∧ digitVal c ≤ 9 := by
  simp only [isDigit, Bool.and_eq_true, decide_eq_true_eq] at h
  unfold digitVal
  omega

theorem digitChar_toNat {d : Nat} (h : d < 10) : (digitChar d).toNat = 48 + d := by
  have : ∀ d, d < 10 → (digitChar d).toNat = 48 + d := by decide
  exact this d h

theorem isDigit_digitChar {d : Nat} (h : d < 10) : isDigit (digitChar d) = true := by
  simp only [isDigit, digitChar_toNat h, Bool.and_eq_true, decide_eq_true_eq]
  omega

theorem digitVal_digitChar {d : Nat} (h : d < 10) : digitVal (digitChar d) = d := by
  simp only [digitVal, digitChar_toNat h]
  omega

/-! ## quoted fields: states `quote`, `escapedQuote`, `escapeNext` -/

theorem step_escapedQuote_close (buf : List Char) :
    step (.escapedQuote buf) '"' = .emit (mkField buf) .cont := by
  simp [step]

theorem step_quote_close (acc : List Char) : step (.quote acc) '"' = .emit (mkField acc) .cont := by
  simp [step]

/-- in the copying state, the escaped form of `cs` followed by the closing quote yields the field
    `buf ++ cs`. -/
theorem jit_escapedQuote (cs : List Char) : ∀ (buf rest : List Char),
    jit (.escapedQuote buf) (escapeField cs ++ '"' :: rest)
      = (jit .cont rest).cons (mkField (buf ++ cs)) := by
  induction cs with
  | nil =>
    intro buf rest
    simp only [escapeField, List.nil_append, List.append_nil]
    exact jit_emit rest (step_escapedQuote_close buf)
  | cons c cs ih =>
    intro buf rest
    by_cases hc : (c == '"' || c == '\\') = true
    · have h1 : step (.escapedQuote buf) '\\' = .go (.escapeNext buf) := by
        have : ('\\' == '"') = false := by decide
        simp [step, this]
      have h2 : step (.escapeNext buf) c = .go (.escapedQuote (buf ++ [c])) := by
        have : (c == '\\' || c == '"') = true := by
          rw [Bool.or_comm]; exact hc
        simp only [step, this, if_true]
      simp only [escapeField, hc, if_true, List.cons_append]
      rw [jit_go _ h1, jit_go _ h2, ih, List.append_assoc]
      rfl
    · have hc' : (c == '"' || c == '\\') = false := by simpa using hc
      have hq : (c == '"') = false := by
        cases h : c == '"' <;> simp [h] at hc' ⊢
      have hb : (c == '\\') = false := by
        cases h : c == '\\' <;> simp [h] at hc' ⊢
      have h1 : step (.escapedQuote buf) c = .go (.escapedQuote (buf ++ [c])) := by
        simp [step, hq, hb]
      simp only [escapeField, hc', Bool.false_eq_true, if_false, List.cons_append]
      rw [jit_go _ h1, ih, List.append_assoc]
      rfl

/-- in the borrowing state `Quote`, likewise (the machine switches to copying at the first
    backslash). -/
theorem jit_quote (cs : List Char) : ∀ (acc rest : List Char),
    jit (.quote acc) (escapeField cs ++ '"' :: rest)
      = (jit .cont rest).cons (mkField (acc ++ cs)) := by
  induction cs with
  | nil =>
    intro acc rest
    simp only [escapeField, List.nil_append, List.append_nil]
    exact jit_emit rest (step_quote_close acc)
  | cons c cs ih =>
    intro acc rest
    by_cases hc : (c == '"' || c == '\\') = true
    · have h1 : step (.quote acc) '\\' = .go (.escapeNext acc) := by
        have : ('\\' == '"') = false := by decide
        simp [step, this]
      have h2 : step (.escapeNext acc) c = .go (.escapedQuote (acc ++ [c])) := by
        have : (c == '\\' || c == '"') = true := by
          rw [Bool.or_comm]; exact hc
        simp only [step, this, if_true]
      simp only [escapeField, hc, if_true, List.cons_append]
      rw [jit_go _ h1, jit_go _ h2, jit_escapedQuote, List.append_assoc]
      rfl
    · have hc' : (c == '"' || c == '\\') = false := by simpa using hc
      have hq : (c == '"') = false := by
        cases h : c == '"' <;> simp [h] at hc' ⊢
      have hb : (c == '\\') = false := by
        cases h : c == '\\' <;> simp [h] at hc' ⊢
      have h1 : step (.quote acc) c = .go (.quote (acc ++ [c])) := by
        simp [step, hq, hb]
      simp only [escapeField, hc', Bool.false_eq_true, if_false, List.cons_append]
      rw [jit_go _ h1, ih, List.append_assoc]
      rfl

/-! ## unquoted fields: state `field` -/

theorem jit_field_run (cs : List Char) : ∀ (acc rest : List Char),
    (∀ c ∈ cs, isJitChar c = true) →
    jit (.field acc) (cs ++ rest) = jit (.field (acc ++ cs)) rest := by
  induction cs with
  | nil => intro acc rest _; simp
  | cons c cs ih =>
    intro acc rest h
    have hc : isJitChar c = true := h c (by simp)
    have h1 : step (.field acc) c = .go (.field (acc ++ [c])) := by simp [step, hc]
    rw [List.cons_append, jit_go _ h1, ih _ _ (fun d hd => h d (by simp [hd])), List.append_assoc]
    rfl

/-- what may follow a rendered segment: nothing, `.` (a field follows) or `[` (an index follows). -/
def Delim (t : List Char) : Prop := t = [] ∨ (∃ r, t = '.' :: r) ∨ (∃ r, t = '[' :: r)

theorem jit_field_end (acc rest : List Char) (h : Delim rest) :
    jit (.field acc) rest = (jit .cont rest).cons (mkField acc) := by
  rcases h with h | ⟨r, h⟩ | ⟨r, h⟩
  · subst h; rfl
  · subst h
    have h1 : step (.field acc) '.' = .emit (mkField acc) .dot := by
      simp [step, isJitChar_dot]
    have h2 : step .cont '.' = .go .dot := by simp [step]
    rw [jit_emit _ h1, jit_go _ h2]
  · subst h
    have e1 : ('[' == '.') = false := by decide
    have h1 : step (.field acc) '[' = .emit (mkField acc) .indexStart := by
      simp [step, isJitChar_lbr, e1]
    have h2 : step .cont '[' = .go .indexStart := by
      simp [step, segStart, isJitChar_lbr, e1]
    rw [jit_emit _ h1, jit_go _ h2]

/-! ## indices: states `indexStart`, `index`, `negIndex` -/

theorem inIsize_iff (i : Int) :
    inIsize i = true ↔ (-9223372036854775808 ≤ i ∧ i ≤ 9223372036854775807) := by
  unfold inIsize isizeMin isizeMax
  rw [Bool.and_eq_true, decide_eq_true_iff, decide_eq_true_iff]


/-- the value accumulated by `Index { value }` over a run of digits. -/
def accPos (v : Int) (ds : List Char) : Int := ds.foldl (fun v c => v * 10 + digitVal c) v

/-- the value accumulated by `NegativeIndex { value }`. -/
def accNeg (v : Int) (ds : List Char) : Int := ds.foldl (fun v c => v * 10 - digitVal c) v

theorem accPos_append (v : Int) (a b : List Char) : accPos v (a ++ b) = accPos (accPos v a) b := by
  simp [accPos, List.foldl_append]

theorem accNeg_eq_neg_accPos (ds : List Char) : ∀ v : Int, accNeg v ds = - accPos (-v) ds := by
  induction ds with
  | nil => intro v; simp [accNeg, accPos]
  | cons d ds ih =>
    intro v
    have h1 : accNeg v (d :: ds) = accNeg (v * 10 - digitVal d) ds := rfl
    have h2 : accPos (-v) (d :: ds) = accPos (-v * 10 + digitVal d) ds := rfl
    rw [h1, h2, ih]
    congr 2
    omega

theorem accPos_mono (ds : List Char) : ∀ v : Int, (∀ c ∈ ds, isDigit c = true) → 0 ≤ v →
    v ≤ accPos v ds := by
  induction ds with
  | nil => intro v _ _; simp [accPos]
  | cons d ds ih =>
    intro v h hv
    have hd := digitVal_bounds (h d (by simp))
    have h2 : accPos v (d :: ds) = accPos (v * 10 + digitVal d) ds := rfl
    have := ih (v * 10 + digitVal d) (fun c hc => h c (by simp [hc])) (by omega)
    rw [h2]
    omega

theorem jit_index_run (ds : List Char) : ∀ (v : Int) (rest : List Char),
    (∀ c ∈ ds, isDigit c = true) → 0 ≤ v → accPos v ds ≤ isizeMax →
    jit (.index v) (ds ++ ']' :: rest) = (jit .cont rest).cons (.index (accPos v ds)) := by
  induction ds with
  | nil =>
    intro v rest _ _ _
    have h1 : step (.index v) ']' = .emit (.index v) .cont := by simp [step, digit_rbr]
    simpa [accPos] using jit_emit rest h1
  | cons d ds ih =>
    intro v rest h hv hmax
    have hdig : isDigit d = true := h d (by simp)
    have hd := digitVal_bounds hdig
    have h2 : accPos v (d :: ds) = accPos (v * 10 + digitVal d) ds := rfl
    have hrest : ∀ c ∈ ds, isDigit c = true := fun c hc => h c (by simp [hc])
    have hmono := accPos_mono ds (v * 10 + digitVal d) hrest (by omega)
    rw [h2] at hmax
    have hp : pushDigit v (digitVal d) = some (v * 10 + digitVal d) := by
      have a1 : inIsize (v * 10) = true := by
        rw [inIsize_iff]
        unfold isizeMax at hmax
        omega
      have a2 : inIsize (v * 10 + digitVal d) = true := by
        rw [inIsize_iff]
        unfold isizeMax at hmax
        omega
      simp [pushDigit, a1, a2]
    have h1 : step (.index v) d = .go (.index (v * 10 + digitVal d)) := by
      simp [step, hdig, hp]
    rw [List.cons_append, jit_go _ h1, ih _ _ hrest (by omega) hmax, h2]

theorem jit_negIndex_run (ds : List Char) : ∀ (v : Int) (rest : List Char),
    (∀ c ∈ ds, isDigit c = true) → v ≤ 0 → isizeMin ≤ accNeg v ds →
    jit (.negIndex v) (ds ++ ']' :: rest) = (jit .cont rest).cons (.index (accNeg v ds)) := by
  induction ds with
  | nil =>
    intro v rest _ _ _
    have h1 : step (.negIndex v) ']' = .emit (.index v) .cont := by simp [step, digit_rbr]
    simpa [accNeg] using jit_emit rest h1
  | cons d ds ih =>
    intro v rest h hv hmin
    have hdig : isDigit d = true := h d (by simp)
    have hd := digitVal_bounds hdig
    have h2 : accNeg v (d :: ds) = accNeg (v * 10 - digitVal d) ds := rfl
    have hrest : ∀ c ∈ ds, isDigit c = true := fun c hc => h c (by simp [hc])
    have hmono := accPos_mono ds (-(v * 10 - digitVal d)) hrest (by omega)
    rw [h2] at hmin
    rw [accNeg_eq_neg_accPos] at hmin
    have hp : pushDigitNeg v (digitVal d) = some (v * 10 - digitVal d) := by
      have a1 : inIsize (v * 10) = true := by
        rw [inIsize_iff]
        unfold isizeMin at hmin
        omega
      have a2 : inIsize (v * 10 - digitVal d) = true := by
        rw [inIsize_iff]
        unfold isizeMin at hmin
        omega
      simp [pushDigitNeg, a1, a2]
    have h1 : step (.negIndex v) d = .go (.negIndex (v * 10 - digitVal d)) := by
      simp [step, hdig, hp]
    rw [List.cons_append, jit_go _ h1,
      ih _ _ hrest (by omega) (by rw [accNeg_eq_neg_accPos]; exact hmin), h2]

/-! ### decimal rendering -/

theorem natDigits_digits (n : Nat) : ∀ c ∈ natDigits n, isDigit c = true := by
  induction n using Nat.strongRecOn with
  | _ n ih =>
    intro c hc
    rw [natDigits] at hc
    by_cases h : n < 10
    · simp only [h, if_true, List.mem_singleton] at hc
      subst hc
      exact isDigit_digitChar h
    · simp only [h, if_false, List.mem_append, List.mem_singleton] at hc
      rcases hc with hc | hc
      · exact ih (n / 10) (by omega) c hc
      · subst hc
        exact isDigit_digitChar (by omega)

theorem accPos_natDigits (n : Nat) : accPos 0 (natDigits n) = n := by
  induction n using Nat.strongRecOn with
  | _ n ih =>
    rw [natDigits]
    by_cases h : n < 10
    · simp only [h, if_true]
      show (0 : Int) * 10 + digitVal (digitChar n) = n
      rw [digitVal_digitChar h]
      omega
    · simp only [h, if_false]
      rw [accPos_append, ih (n / 10) (by omega)]
      show ((n / 10 : Nat) : Int) * 10 + digitVal (digitChar (n % 10)) = n
      rw [digitVal_digitChar (by omega)]
      omega

theorem natDigits_ne_nil (n : Nat) : natDigits n ≠ [] := by
  rw [natDigits]
  by_cases h : n < 10 <;> simp [h]

/-- `[` has been read; the digits of a non-negative in-range number and `]` give that index. -/
theorem jit_indexStart_nat (n : Nat) (rest : List Char) (h : (n : Int) ≤ isizeMax) :
    jit .indexStart (natDigits n ++ ']' :: rest) = (jit .cont rest).cons (.index n) := by
  have hdig := natDigits_digits n
  have hval := accPos_natDigits n
  cases hds : natDigits n with
  | nil => exact absurd hds (natDigits_ne_nil n)
  | cons d ds =>
    rw [hds] at hdig hval
    have hd : isDigit d = true := hdig d (by simp)
    have h1 : step .indexStart d = .go (.index (digitVal d)) := by simp [step, hd]
    have hv : accPos 0 (d :: ds) = accPos (digitVal d) ds := by
      show accPos (0 * 10 + digitVal d) ds = _
      congr 1; omega
    rw [hv] at hval
    rw [List.cons_append, jit_go _ h1,
      jit_index_run ds _ _ (fun c hc => hdig c (by simp [hc])) (digitVal_bounds hd).1
        (by rw [hval]; exact h), hval]

theorem jit_indexStart_neg (n : Nat) (rest : List Char) (h : isizeMin ≤ -(n : Int)) :
    jit .indexStart ('-' :: (natDigits n ++ ']' :: rest)) = (jit .cont rest).cons (.index (-(n : Int))) := by
  have hdig := natDigits_digits n
  have hval := accPos_natDigits n
  have e1 : ('-' == '-') = true := by decide
  have h1 : step .indexStart '-' = .go (.negIndex 0) := by simp [step, digit_minus]
  have hneg : accNeg 0 (natDigits n) = -(n : Int) := by
    rw [accNeg_eq_neg_accPos]
    simp [hval]
  rw [jit_go _ h1, jit_negIndex_run _ _ _ hdig (by omega) (by rw [hneg]; exact h), hneg]

/-- `[` has been read; `Display for isize` of any in-range index and `]` give that index. -/
theorem jit_indexStart_int (i : Int) (rest : List Char) (h : inIsize i = true) :
    jit .indexStart (intText i ++ ']' :: rest) = (jit .cont rest).cons (.index i) := by
  rw [inIsize_iff] at h
  unfold intText
  by_cases hneg : i < 0
  · simp only [hneg, if_true, List.cons_append]
    have : (-(i.natAbs : Int)) = i := by omega
    rw [jit_indexStart_neg _ _ (by unfold isizeMin; omega), this]
  · simp only [hneg, if_false]
    have : ((i.toNat : Nat) : Int) = i := by omega
    rw [jit_indexStart_nat _ _ (by unfold isizeMax; omega), this]

/-! ## whole segments and paths -/

theorem isSerChar_dot : isSerChar '.' = false := by decide
theorem isSerChar_lbr : isSerChar '[' = false := by decide

theorem step_start_ser {c : Char} (h : isSerChar c = true) : step .start c = .go (.field [c]) := by
  simp [step, segStart, beq_false_of_ser h isSerChar_dot, jit_of_ser h]

theorem step_eventRoot_ser {c : Char} (h : isSerChar c = true) :
    step .eventRoot c = .go (.field [c]) := by
  simp [step, segStart, jit_of_ser h]

theorem step_dot_ser {c : Char} (h : isSerChar c = true) : step .dot c = .go (.field [c]) := by
  simp [step, segStart, jit_of_ser h]

theorem step_start_quote : step .start '"' = .go (.quote []) := by decide
theorem step_eventRoot_quote : step .eventRoot '"' = .go (.quote []) := by decide
theorem step_dot_quote : step .dot '"' = .go (.quote []) := by decide
theorem step_start_lbr : step .start '[' = .go .indexStart := by decide
theorem step_eventRoot_lbr : step .eventRoot '[' = .go .indexStart := by decide
theorem step_cont_lbr : step .cont '[' = .go .indexStart := by decide
theorem step_cont_dot : step .cont '.' = .go .dot := by decide
theorem step_start_dot : step .start '.' = .go .eventRoot := by decide

theorem escapeField_append_quote (cs rest : List Char) :
    '"' :: (escapeField cs ++ ['"']) ++ rest = '"' :: (escapeField cs ++ '"' :: rest) := by
  simp

/-- a rendered field (quoted or not) read in a state where a field may start, followed by a
    delimiter, yields exactly that field and leaves the machine in `Continue`. -/
theorem jit_fieldText (st : JitState) (cs rest : List Char)
    (hser : ∀ c, isSerChar c = true → step st c = .go (.field [c]))
    (hq : step st '"' = .go (.quote []))
    (hd : Delim rest) :
    jit st (fieldText cs ++ rest) = (jit .cont rest).cons (mkField cs) := by
  unfold fieldText
  by_cases hn : needsQuotes cs = true
  · simp only [hn, if_true]
    rw [escapeField_append_quote, jit_go _ hq, jit_quote]
    rfl
  · simp only [hn]
    cases cs with
    | nil => simp [needsQuotes] at hn
    | cons c cs' =>
      have hall : ∀ d ∈ c :: cs', isSerChar d = true := by
        intro d hd'
        simp only [needsQuotes, List.isEmpty_cons, Bool.false_or, List.any_eq_true, Bool.not_eq_true',
          not_exists, not_and, Bool.not_eq_false] at hn
        exact hn d hd'
      have hc := hall c (by simp)
      rw [if_neg (by simp), List.cons_append, jit_go _ (hser c hc),
        jit_field_run cs' [c] rest (fun d hd' => jit_of_ser (hall d (by simp [hd']))),
        jit_field_end _ _ hd]
      rfl

theorem delim_renderFrom (p : CPath) : Delim (renderFrom false p) := by
  cases p with
  | nil => exact Or.inl rfl
  | cons s r =>
    cases s with
    | field cs => exact Or.inr (Or.inl ⟨_, rfl⟩)
    | index i => exact Or.inr (Or.inr ⟨_, rfl⟩)

theorem index_text_append (i : Int) (rest : List Char) :
    '[' :: (intText i ++ [']']) ++ rest = '[' :: (intText i ++ ']' :: rest) := by
  simp

theorem inRange_cons {s : CSeg} {r : CPath} (h : CPath.inRange (s :: r) = true) :
    s.inRange = true ∧ CPath.inRange r = true := by
  simpa [CPath.inRange] using h

theorem inIsize_of_inRange {i : Int} (h : (CSeg.index i).inRange = true) : inIsize i = true := h

/-- after the first segment: the rest of a rendered path read in `Continue`. -/
theorem jit_cont_render (p : CPath) : CPath.inRange p = true →
    jit .cont (renderFrom false p) = .ok p.toPath := by
  induction p with
  | nil => intro _; rfl
  | cons s r ih =>
    intro h
    have ⟨hs, hr⟩ := inRange_cons h
    cases s with
    | field cs =>
      show jit .cont (('.' :: fieldText cs) ++ renderFrom false r) = _
      rw [List.cons_append, jit_go _ step_cont_dot,
        jit_fieldText .dot cs _ (fun c hc => step_dot_ser hc) step_dot_quote (delim_renderFrom r),
        ih hr]
      rfl
    | index i =>
      show jit .cont ('[' :: (intText i ++ [']']) ++ renderFrom false r) = _
      rw [index_text_append, jit_go _ step_cont_lbr,
        jit_indexStart_int i _ (inIsize_of_inRange hs), ih hr]
      rfl

/-- the first segment: a rendered non-empty path read in a state `st` in which a segment may
    start (`Start`, `EventRoot`). -/
theorem jit_first_render (st : JitState) (s : CSeg) (r : CPath)
    (hser : ∀ c, isSerChar c = true → step st c = .go (.field [c]))
    (hq : step st '"' = .go (.quote []))
    (hl : step st '[' = .go .indexStart)
    (h : CPath.inRange (s :: r) = true) :
    jit st (renderFrom true (s :: r)) = .ok (CPath.toPath (s :: r)) := by
  have ⟨hs, hr⟩ := inRange_cons h
  cases s with
  | field cs =>
    show jit st (([] ++ fieldText cs) ++ renderFrom false r) = _
    rw [List.nil_append, jit_fieldText st cs _ hser hq (delim_renderFrom r), jit_cont_render r hr]
    rfl
  | index i =>
    show jit st ('[' :: (intText i ++ [']']) ++ renderFrom false r) = _
    rw [index_text_append, jit_go _ hl, jit_indexStart_int i _ (inIsize_of_inRange hs),
      jit_cont_render r hr]
    rfl

/-- the character view of the byte view is the identity (UTF-8 round trip). -/
theorem toC_toPath (p : CPath) : Path.toC p.toPath = some p := by
  induction p with
  | nil => rfl
  | cons s r ih =>
    have hs : Seg.toC s.toSeg = some s := by
      cases s with
      | field cs => simp [CSeg.toSeg, Seg.toC, Utf8.decode_encode]
      | index i => rfl
    simp only [Path.toC, CPath.toPath, List.map_cons, List.mapM_cons, hs] at ih ⊢
    rw [ih]
    rfl

/-- the byte view of the character view is the identity (strictness of the UTF-8 decoder). -/
theorem toPath_of_toC : ∀ (p : Path) (cp : CPath), Path.toC p = some cp → cp.toPath = p
  | [], cp, h => by
    simp [Path.toC] at h
    subst h; rfl
  | s :: r, cp, h => by
    simp only [Path.toC, List.mapM_cons] at h
    cases hs : Seg.toC s with
    | none => simp [hs] at h
    | some cs =>
      cases hr : List.mapM Seg.toC r with
      | none => simp [hs, hr] at h
      | some cr =>
        simp [hs, hr] at h
        subst h
        have ih := toPath_of_toC r cr hr
        have h1 : cs.toSeg = s := by
          cases s with
          | field k =>
            simp only [Seg.toC] at hs
            cases hd : Utf8.decode k with
            | none => simp [hd] at hs
            | some v =>
              simp [hd] at hs
              subst hs
              simp [CSeg.toSeg, Utf8.encode_decode k v hd]
          | index i =>
            simp [Seg.toC] at hs
            subst hs; rfl
        simp [CPath.toPath, h1] at ih ⊢
        exact ih

end PathText
