import VrlProofs.Lemmas.KindRemove
import VrlProofs.Lemmas.KindMerge
import VrlProofs.Lemmas.KindUnion
import VrlProofs.Lemmas.KindPres
import VrlProofs.Lemmas.Sorted

/-! `Kind::remove` of a single field from an (exact) object kind — the type-level `del(.field)`:
    sound for every object kind with key-sorted maps whose `Infinite` unknowns are all `any`, every
    member object, every field and both values of `compact`. (Extension of the C19 theorems, which
    prove removal at the root path only; deeper paths, indices and kinds with alternatives are in the
    witnessed classes `D_remove_*` / `D_compact_*`.) -/

namespace Spec

theorem KList.get_remove_same : (m : KList) → (q : Key) → m.SortedKeys = true → (m.remove q).get q = none
  | .nil, _, _ => rfl
  | .cons k v m, q, h => by
    simp only [KList.SortedKeys, Bool.and_eq_true] at h
    simp only [KList.remove]
    split
    · rename_i hk; subst hk; exact KList.get_none_of_allGt m k h.1
    · rename_i hk
      simp only [KList.get, hk, if_false]
      exact KList.get_remove_same m q h.2

theorem VMap.get_remove_same : (m : VMap) → (q : List Nat) → m.SortedKeys = true → (m.remove q).get q = none
  | .nil, _, _ => rfl
  | .cons k v m, q, h => by
    simp only [VMap.SortedKeys, Bool.and_eq_true] at h
    simp only [VMap.remove]
    split
    · rename_i hk; subst hk; exact _root_.VMap.get_none_of_allGt' m k h.1
    · rename_i hk
      simp only [VMap.get, hk, if_false]
      exact VMap.get_remove_same m q h.2

theorem VMap.remove_absent : (m : VMap) → (q : List Nat) → m.get q = none → m.remove q = m
  | .nil, _, _ => rfl
  | .cons k v m, q, h => by
    simp only [VMap.get] at h
    split at h
    · cases h
    · rename_i hk
      simp only [VMap.remove, hk, if_false]
      rw [VMap.remove_absent m q h]

/-- membership of an object's fields in a collection, in the `get` view -/
def MemCol (m : VMap) (c : Col) : Prop :=
  (∀ k x, m.get k = some x → mem x (slotKind c k) = true) ∧
  (∀ k K', c.known.get k = some K' → m.get k = none → K'.prim.undefined = true)

theorem mem_obj_of_memCol (m : VMap) (p : Prim) (a : OCol) (c : Col) (hs : m.SortedKeys = true)
    (h : MemCol m c) : mem (.obj m) (.mk p a (.some c)) = true :=
  (mem_obj_iff m _ hs).mpr ⟨c, rfl, h.1, h.2⟩

theorem memCol_of_mem_obj (m : VMap) (p : Prim) (a : OCol) (c : Col) (hs : m.SortedKeys = true)
    (h : mem (.obj m) (.mk p a (.some c)) = true) : MemCol m c := by
  obtain ⟨c', hc, h1, h2⟩ := (mem_obj_iff m _ hs).mp h
  simp only [Kind.object, Option.some.injEq] at hc
  subst hc
  exact ⟨h1, h2⟩

/-- removing the field from the object and from the known map -/
theorem memCol_remove (m : VMap) (kn : KList) (u : Unknown) (f : Key) (hs : m.SortedKeys = true)
    (hk : kn.SortedKeys = true) (h : MemCol m (.mk kn u)) : MemCol (m.remove f) (.mk (kn.remove f) u) := by
  constructor
  · intro k x hx
    by_cases hkf : f = k
    · subst hkf; rw [VMap.get_remove_same m f hs] at hx; cases hx
    · rw [VMap.get_remove_other m f k hkf] at hx
      have := h.1 k x hx
      simpa [slotKind, Col.known, Col.unknown, KList.get_remove_other kn f k hkf] using this
  · intro k K' hK hx
    simp only [Col.known] at hK
    by_cases hkf : f = k
    · subst hkf; rw [KList.get_remove_same kn f hk] at hK; cases hK
    · rw [KList.get_remove_other kn f k hkf] at hK
      rw [VMap.get_remove_other m f k hkf] at hx
      exact h.2 k K' hK hx

/-- re-inserting the kind a known key already has changes no slot -/
theorem memCol_insert_same (m : VMap) (kn : KList) (u : Unknown) (f : Key) (Kf : Kind)
    (hf : kn.get f = some Kf) (h : MemCol m (.mk kn u)) : MemCol m (.mk (kn.insert f Kf) u) := by
  have hget : ∀ k, (kn.insert f Kf).get k = kn.get k := by
    intro k
    rw [KList.get_insert]
    split
    · rename_i hk; subst hk; exact hf.symm
    · rfl
  constructor
  · intro k x hx
    have := h.1 k x hx
    simpa [slotKind, Col.known, Col.unknown, hget k] using this
  · intro k K' hK hx
    simp only [Col.known, hget k] at hK
    exact h.2 k K' hK hx

/-- membership in the left operand of `Collection::merge(_, false)` -/
theorem memCol_merge_left (m : VMap) (c1 c2 : Col) (s1 : c1.SortedK = true) (s2 : c2.SortedK = true)
    (i1 : c1.hasNonAnyInf = false) (i2 : c2.hasNonAnyInf = false) (h : MemCol m c1) :
    MemCol m (c1.merge c2 false) := by
  obtain ⟨hl, _, hu, _⟩ := col_merge_sound _ (mergeKeepF_sound (2 * (c1.depth + c2.depth) + 4)) c1 c2 s1 s2 i1 i2
  constructor
  · intro k x hx
    exact hl k x (h.1 k x hx)
  · intro k K' hK hx
    exact hu k K' hK (fun K1 hK1 => h.2 k K1 hK1 hx)

theorem col_sortedK_remove {kn : KList} {u : Unknown} (f : Key) (h : (Col.mk kn u).SortedK = true) :
    (Col.mk (kn.remove f) u).SortedK = true := by
  simp only [Col.SortedK, Bool.and_eq_true] at h ⊢
  refine ⟨⟨KList.sortedKeys_remove kn f h.1.1, ?_⟩, h.2⟩
  rw [KList.sortedK_eq_allV] at h ⊢
  exact KList.allV_remove _ kn f h.1.2

theorem col_infAny_remove {kn : KList} {u : Unknown} (f : Key) (h : (Col.mk kn u).hasNonAnyInf = false) :
    (Col.mk (kn.remove f) u).hasNonAnyInf = false := by
  simp only [Col.hasNonAnyInf, Bool.or_eq_false_iff] at h ⊢
  refine ⟨?_, h.2⟩
  have h1 : (!kn.hasNonAnyInf) = true := by simp [h.1]
  rw [KList.hasNonAnyInf_eq_allV] at h1
  have := KList.allV_remove _ kn f h1
  rw [← KList.hasNonAnyInf_eq_allV] at this
  simpa using this

theorem col_sortedK_insert {kn : KList} {u : Unknown} (f : Key) (Kf : Kind) (hKf : Kf.SortedK = true)
    (h : (Col.mk kn u).SortedK = true) : (Col.mk (kn.insert f Kf) u).SortedK = true := by
  simp only [Col.SortedK, Bool.and_eq_true] at h ⊢
  refine ⟨⟨KList.sortedKeys_insert kn f Kf h.1.1, ?_⟩, h.2⟩
  rw [KList.sortedK_eq_allV] at h ⊢
  exact KList.allV_insert _ kn f Kf h.1.2 hKf

theorem col_infAny_insert {kn : KList} {u : Unknown} (f : Key) (Kf : Kind) (hKf : Kf.hasNonAnyInf = false)
    (h : (Col.mk kn u).hasNonAnyInf = false) : (Col.mk (kn.insert f Kf) u).hasNonAnyInf = false := by
  simp only [Col.hasNonAnyInf, Bool.or_eq_false_iff] at h ⊢
  refine ⟨?_, h.2⟩
  have h1 : (!kn.hasNonAnyInf) = true := by simp [h.1]
  rw [KList.hasNonAnyInf_eq_allV] at h1
  have := KList.allV_insert _ kn f Kf h1 (by simp [hKf])
  rw [← KList.hasNonAnyInf_eq_allV] at this
  simpa using this

/-- the three outcomes of `CompactOptions::compact` on a field -/
theorem memCol_compactCol (co : Kind.Compact) (kn : KList) (u : Unknown) (f : Key) (cc : Bool) (m' : VMap)
    (s1 : (Col.mk kn u).SortedK = true) (i1 : (Col.mk kn u).hasNonAnyInf = false)
    (hrem : co ≠ .never → MemCol m' (.mk (kn.remove f) u))
    (hkeep : co = .never → MemCol m' (.mk kn u)) :
    MemCol m' (Kind.compactCol co false (.mk kn u) f cc).1 := by
  cases co with
  | always => simpa [Kind.compactCol, Kind.removeKnown, Col.known, Col.unknown] using hrem (by simp)
  | never => simpa [Kind.compactCol] using hkeep rfl
  | maybe =>
    simp only [Kind.compactCol, Kind.removeKnown, Bool.false_eq_true, if_false, Col.known, Col.unknown]
    exact memCol_merge_left m' _ _ (col_sortedK_remove f s1) s1 (col_infAny_remove f i1) i1 (hrem (by simp))

end Spec

namespace Spec

/-- the kind `remove_inner` works on below the field -/
def fieldTarget (p : Prim) (a : OCol) (kn : KList) (u : Unknown) (f : Key) : Kind :=
  (kn.get f).getD ((Kind.mk p a (.some (.mk kn u))).atPath [.field f])

def fieldCo (t : Kind) : Kind.Compact :=
  if t.isNever then .never else Kind.Compact.new t.containsAnyDefined t.containsUndefined

def fieldObject1 (kn : KList) (u : Unknown) (f : Key) (t : Kind) : Col :=
  if kn.contains f then .mk (kn.insert f (if t.isNever then Kind.never else t)) u else .mk kn u

/-- the object collection `Kind::remove` leaves behind for a single field -/
def removedFieldCol (p : Prim) (a : OCol) (kn : KList) (u : Unknown) (f : Key) (compact : Bool) : Col :=
  (Kind.compactCol (fieldCo (fieldTarget p a kn u f)) false (fieldObject1 kn u f (fieldTarget p a kn u f)) f compact).1

/-- `remove_inner` on a single field of a kind that has the object state, made explicit -/
theorem removeInner_field (p : Prim) (a : OCol) (kn : KList) (u : Unknown) (f : Key) (compact : Bool) :
    Kind.removeInner (.mk p a (.some (.mk kn u))) [.field f] compact =
      .ok (.mk p a (.some (removedFieldCol p a kn u f compact)),
        (Kind.compactCol (fieldCo (fieldTarget p a kn u f)) false
          (fieldObject1 kn u f (fieldTarget p a kn u f)) f compact).2) := by
  have hnn : (Kind.mk p a (.some (.mk kn u))).isNever = false := by simp [Kind.isNever]
  have hat : (Kind.mk p a (.some (.mk kn u))).atPathO [.field f] =
      .ok ((Kind.mk p a (.some (.mk kn u))).atPath [.field f]) := by
    simp [Kind.atPathO, Kind.atPathPanics, Kind.segPanics, hnn]
  rw [Kind.removeInner]
  simp only [hnn, Bool.false_eq_true, if_false, hat, Kind.Outcome.bind]
  by_cases htn : (fieldTarget p a kn u f).isNever = true
  · have h1 : Kind.removeInner (fieldTarget p a kn u f) [] compact = .ok (Kind.never, .never) := by
      rw [Kind.removeInner]; simp [htn]
    simp only [fieldTarget] at h1
    simp only [Col.known, Col.unknown, h1, Kind.Outcome.bind]
    simp only [removedFieldCol, fieldCo, fieldObject1, htn, if_true]
    rfl
  · have htn' : (fieldTarget p a kn u f).isNever = false := by simpa using htn
    have h1 : Kind.removeInner (fieldTarget p a kn u f) [] compact =
        .ok (fieldTarget p a kn u f, Kind.Compact.new (fieldTarget p a kn u f).containsAnyDefined
          (fieldTarget p a kn u f).containsUndefined) := by
      rw [Kind.removeInner]; simp [htn']
    simp only [fieldTarget] at h1
    simp only [Col.known, Col.unknown, h1, Kind.Outcome.bind]
    simp only [removedFieldCol, fieldCo, fieldObject1, htn', Bool.false_eq_true, if_false]
    rfl

end Spec

namespace Spec

theorem memCol_remove_value_absent (m : VMap) (c : Col) (f : Key) (hf : c.known.get f = none)
    (h : MemCol m c) (hs : m.SortedKeys = true) : MemCol (m.remove f) c := by
  constructor
  · intro k x hx
    by_cases hkf : f = k
    · subst hkf; rw [VMap.get_remove_same m f hs] at hx; cases hx
    · rw [VMap.get_remove_other m f k hkf] at hx; exact h.1 k x hx
  · intro k K' hK hx
    by_cases hkf : f = k
    · subst hkf; rw [hf] at hK; cases hK
    · rw [VMap.get_remove_other m f k hkf] at hx; exact h.2 k K' hK hx

theorem compact_new_never {a b : Bool} (h : Kind.Compact.new a b = .never) : a = false := by
  cases a <;> cases b <;> simp_all [Kind.Compact.new]

/-- **`Kind::remove` of one field is sound for objects**: for every kind with the object state whose
    object collection is key-sorted with `any` as only `Infinite` unknown, every member object, every
    field and both `compact` flags, `remove` succeeds and the object without the field belongs to the
    kind left behind. -/
theorem remove_field_obj_sound (m : VMap) (p : Prim) (a : OCol) (kn : KList) (u : Unknown) (f : Key)
    (compact : Bool) (sC : (Col.mk kn u).SortedK = true) (iC : (Col.mk kn u).hasNonAnyInf = false)
    (hs : m.Sorted = true) (hm : mem (.obj m) (.mk p a (.some (.mk kn u))) = true) :
    (Kind.mk p a (.some (.mk kn u))).remove [.field f] compact =
        .ok (.mk p a (.some (removedFieldCol p a kn u f compact)),
             (Kind.mk p a (.some (.mk kn u))).get [.field f]) ∧
      mem (.obj (m.remove f)) (.mk p a (.some (removedFieldCol p a kn u f compact))) = true := by
  have hsk := VMap.sortedKeys_of_sorted m hs
  have hsk' : (m.remove f).SortedKeys = true := VMap.sortedKeys_of_sorted _ (VMap.sorted_remove m f hs)
  have hmc := memCol_of_mem_obj m p a _ hsk hm
  obtain ⟨skn, sKn, su⟩ := col_sortedK sC
  obtain ⟨ikn, iu⟩ := col_infAny iC
  have hnn : (Kind.mk p a (.some (.mk kn u))).isNever = false := by simp [Kind.isNever]
  have hget : (Kind.mk p a (.some (.mk kn u))).getO [.field f] =
      .ok ((Kind.mk p a (.some (.mk kn u))).get [.field f]) := by
    simp [Kind.getO, Kind.atPathPanics, Kind.segPanics, hnn]
  have hrem := removeInner_field p a kn u f compact
  refine ⟨?_, ?_⟩
  · rw [Kind.remove, hget]
    simp only [Kind.Outcome.bind, hrem]
  · apply mem_obj_of_memCol _ _ _ _ hsk'
    unfold removedFieldCol fieldCo fieldObject1 fieldTarget
    cases hkf : kn.get f with
    | none =>
      -- the field is not known: the target is the unknown kind, which admits `undefined`
      have hcont : kn.contains f = false := by simp [KList.contains, hkf]
      simp only [hkf, Option.getD_none, hcont, Bool.false_eq_true, if_false]
      apply memCol_compactCol _ kn u f compact _ sC iC
      · intro _; exact memCol_remove m kn u f hsk skn hmc
      · intro _; exact memCol_remove_value_absent m _ f hkf hmc hsk
    | some Kf =>
      have hcont : kn.contains f = true := by simp [KList.contains, hkf]
      simp only [hkf, Option.getD_some, hcont, if_true]
      by_cases hKn : Kf.isNever = true
      · -- no object inhabits a kind with a `never` field
        exfalso
        cases hmf : m.get f with
        | some x =>
          have := hmc.1 f x hmf
          simp only [slotKind, Col.known, hkf] at this
          have hx := not_never_of_mem x Kf this
          rw [hKn] at hx; cases hx
        | none =>
          have := hmc.2 f Kf hkf hmf
          cases Kf with
          | mk pf af of =>
            cases af <;> cases of <;> simp [Kind.isNever] at hKn
            simp only [Kind.prim] at this
            simp [Prim.isEmpty, this] at hKn
      · have hKn' : Kf.isNever = false := by simpa using hKn
        simp only [hKn', Bool.false_eq_true, if_false]
        have hKs : Kf.SortedK = true := KList.sortedK_get kn f Kf sKn hkf
        have hKi : Kf.hasNonAnyInf = false := KList.infAny_get kn f Kf ikn hkf
        have hmc' := memCol_insert_same m kn u f Kf hkf hmc
        apply memCol_compactCol _ (kn.insert f Kf) u f compact _ (col_sortedK_insert f Kf hKs sC)
          (col_infAny_insert f Kf hKi iC)
        · intro _
          exact memCol_remove m _ u f hsk (KList.sortedKeys_insert kn f Kf skn) hmc'
        · intro hco
          -- the field's kind is exactly `undefined`: the object does not have it
          have hcad := compact_new_never hco
          have hund : Kf.isUndefined = true := by
            simpa [Kind.containsAnyDefined] using hcad
          have hmf : m.get f = none := by
            cases hmf : m.get f with
            | none => rfl
            | some x =>
              have := hmc.1 f x hmf
              simp only [slotKind, Col.known, hkf] at this
              rw [mem_false_of_isUndefined x Kf hund] at this; cases this
          rw [VMap.remove_absent m f hmf]
          exact hmc'

end Spec
