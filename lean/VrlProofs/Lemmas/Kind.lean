import VrlModel.KindSpec
import VrlProofs.Lemmas.Sorted

/-! Basic lemmas about the known maps of kinds (`KList`) and about membership (`Spec.mem`). -/

namespace KList

theorem get_insert_same : (m : KList) → (q : Key) → (x : Kind) → (m.insert q x).get q = some x
  | .nil, q, x => by simp [insert, get]
  | .cons k v m, q, x => by
    simp only [insert]
    split
    · simp [get]
    · split
      · rename_i h; simp [get, h]
      · rename_i h; simp [get, h, get_insert_same m q x]

theorem get_insert_other : (m : KList) → (q r : Key) → (x : Kind) → q ≠ r →
    (m.insert q x).get r = m.get r
  | .nil, q, r, x, h => by simp [insert, get, h]
  | .cons k v m, q, r, x, h => by
    simp only [insert]
    split
    · simp [get, h]
    · split
      · rename_i hk; subst hk; simp [get, h]
      · simp only [get]; split
        · rfl
        · exact get_insert_other m q r x h

theorem get_insert (m : KList) (q r : Key) (x : Kind) :
    (m.insert q x).get r = if q = r then some x else m.get r := by
  by_cases h : q = r
  · subst h; simp [get_insert_same]
  · simp [h, get_insert_other m q r x h]

theorem get_remove_other : (m : KList) → (q r : Key) → q ≠ r → (m.remove q).get r = m.get r
  | .nil, _, _, _ => rfl
  | .cons k v m, q, r, h => by
    simp only [remove]
    split
    · rename_i hk; subst hk; simp [get, h]
    · simp only [get]; split
      · rfl
      · exact get_remove_other m q r h

theorem get_mapKV (f : Key → Kind → Kind) : (m : KList) → (q : Key) →
    (mapKV f m).get q = (m.get q).map (f q)
  | .nil, _ => rfl
  | .cons k v m, q => by
    simp only [mapKV, get]
    split
    · rename_i h; subst h; rfl
    · exact get_mapKV f m q

theorem keys_mapKV (f : Key → Kind → Kind) : (m : KList) → (mapKV f m).keys = m.keys
  | .nil => rfl
  | .cons k v m => by simp [mapKV, keys, keys_mapKV f m]

theorem mem_keys_of_get : (m : KList) → (q : Key) → (v : Kind) → m.get q = some v → q ∈ m.keys
  | .nil, _, _, h => by simp [get] at h
  | .cons k w m, q, v, h => by
    simp only [get] at h
    simp only [keys, List.mem_cons]
    split at h
    · rename_i hk; exact Or.inl hk.symm
    · exact Or.inr (mem_keys_of_get m q v h)

theorem get_isSome_of_mem_keys : (m : KList) → (q : Key) → q ∈ m.keys → (m.get q).isSome = true
  | .nil, _, h => by simp [keys] at h
  | .cons k w m, q, h => by
    simp only [keys, List.mem_cons] at h
    simp only [get]
    split
    · rfl
    · rename_i hk
      rcases h with h | h
      · exact absurd h.symm hk
      · exact get_isSome_of_mem_keys m q h

theorem contains_iff (m : KList) (q : Key) : m.contains q = true ↔ q ∈ m.keys := by
  constructor
  · intro h
    unfold contains at h
    cases hg : m.get q with
    | none => simp [hg] at h
    | some v => exact mem_keys_of_get m q v hg
  · intro h; exact get_isSome_of_mem_keys m q h

theorem all_of_get (f : Key → Kind → Bool) : (m : KList) → m.all f = true →
    ∀ q v, m.get q = some v → f q v = true
  | .nil, _, _, _, h => by simp [get] at h
  | .cons k w m, ha, q, v, h => by
    simp only [all, Bool.and_eq_true] at ha
    simp only [get] at h
    split at h
    · rename_i hk; subst hk; cases h; exact ha.1
    · exact all_of_get f m ha.2 q v h

theorem any_false (f : Key → Kind → Bool) : (m : KList) → m.any f = false →
    ∀ q v, m.get q = some v → f q v = false
  | .nil, _, _, _, h => by simp [get] at h
  | .cons k w m, ha, q, v, h => by
    simp only [any, Bool.or_eq_false_iff] at ha
    simp only [get] at h
    split at h
    · rename_i hk; subst hk; cases h; exact ha.1
    · exact any_false f m ha.2 q v h

end KList

namespace Spec

/-! ### `mem` does not look at the `undefined` state -/

theorem hasArr_mk (p : Prim) (a o : OCol) : (Kind.mk p a o).hasArr = (match a with | .some _ => true | .none => false) := by
  cases a <;> rfl

theorem mem_setPrim_undefined (b : Bool) : (v : Value) → (p : Prim) → (a o : OCol) →
    mem v (.mk { p with undefined := b } a o) = mem v (.mk p a o)
  | .null, _, _, _ => by simp [mem, Kind.prim]
  | .bool _, _, _, _ => by simp [mem, Kind.prim]
  | .int _, _, _, _ => by simp [mem, Kind.prim]
  | .float _, _, _, _ => by simp [mem, Kind.prim]
  | .bytes _, _, _, _ => by simp [mem, Kind.prim]
  | .ts _, _, _, _ => by simp [mem, Kind.prim]
  | .regex _, _, _, _ => by simp [mem, Kind.prim]
  | .arr _, _, a, o => by cases a <;> cases o <;> simp [mem, Kind.hasArr, arrayD, Kind.array]
  | .obj _, _, a, o => by cases a <;> cases o <;> simp [mem, Kind.hasObj, objectD, Kind.object]

theorem mem_orUndefined (v : Value) (k : Kind) : mem v k.orUndefined = mem v k := by
  cases k with
  | mk p a o => exact mem_setPrim_undefined true v p a o

theorem mem_withoutUndefined (v : Value) (k : Kind) : mem v k.withoutUndefined = mem v k := by
  cases k with
  | mk p a o => exact mem_setPrim_undefined false v p a o

/-- the element kind of an unknown is its `to_kind` up to the `undefined` state. -/
theorem mem_unknown_toKind (v : Value) (u : Unknown) : mem v u.toKind = mem v (unknownElemKind u) := by
  cases u with
  | exact k => simp [Unknown.toKind, Unknown.toExistingKind, unknownElemKind, mem_orUndefined, mem_withoutUndefined]
  | infinite i =>
    simp only [Unknown.toKind, Unknown.toExistingKind, unknownElemKind, mem_orUndefined, mem_withoutUndefined]
    rfl

theorem infKind_eq_ofInf (i : Inf) : infKind i = Kind.ofInf i := rfl

theorem orUndefined_undefined (k : Kind) : k.orUndefined.prim.undefined = true := by
  cases k; rfl

theorem toKind_undefined (u : Unknown) : u.toKind.prim.undefined = true :=
  orUndefined_undefined _

end Spec
