import VrlProofs.Lemmas.KindInsert

/-! Soundness of `merge(Strategy::Overwrite)` against the run-time `a | b` on objects, outside the
    classes `D_merge_overwrite_maybe_absent`, `D_merge_unknown_overwrite`, `D_inf_over_exact`. -/

namespace VMap

theorem mergeInto_sortedKeys : (b a : VMap) → a.SortedKeys = true → (a.mergeInto b).SortedKeys = true
  | .nil, _, h => h
  | .cons k v m, a, h => by
    simp only [VMap.mergeInto]
    exact mergeInto_sortedKeys m _ (sortedKeys_insert a k v h)

theorem get_none_of_allGt' : (m : VMap) → (k : List Nat) → allGt k m = true → m.get k = none
  | .nil, _, _ => rfl
  | .cons l v m, k, h => by
    simp only [allGt, Bool.and_eq_true] at h
    have hne : l ≠ k := fun e => by
      subst e; have := Key.lt_irrefl l; rw [this] at h; exact absurd h.1 (by simp)
    simp [VMap.get, hne, get_none_of_allGt' m k h.2]

/-- `a | b`: the fields of `b` win. -/
theorem mergeInto_get : (b a : VMap) → (q : List Nat) → b.SortedKeys = true →
    (a.mergeInto b).get q = (match b.get q with | some w => some w | none => a.get q)
  | .nil, _, _, _ => rfl
  | .cons k v m, a, q, hs => by
    simp only [SortedKeys, Bool.and_eq_true] at hs
    simp only [VMap.mergeInto]
    rw [mergeInto_get m _ q hs.2, get_insert]
    by_cases hk : k = q
    · subst hk
      simp [VMap.get, get_none_of_allGt' m k hs.1]
    · simp [VMap.get, hk]

end VMap

namespace Spec

/-- merging with a kind that has no collection state keeps every member of the other operand. -/
theorem mergeKeepF_right_of_flat (n : Nat) (l r : Kind) (ow : Bool) (w : Value)
    (hl : l.hasArr = false ∧ l.hasObj = false) (h : mem w r = true) :
    mem w (Kind.mergeKeepF n l r ow) = true := by
  cases n with
  | zero => exact mem_any w
  | succ n =>
    cases l with
    | mk pl al ol =>
    cases r with
    | mk pr ar or' =>
    cases al with
    | some _ => simp [Kind.hasArr] at hl
    | none =>
    cases ol with
    | some _ => simp [Kind.hasObj] at hl
    | none =>
      have hp := prim_or_right pl pr
      have ha : OCol.mergeWith (Kind.mergeKeepF n) .none ar ow = ar := by cases ar <;> rfl
      have ho : OCol.mergeWith (Kind.mergeKeepF n) .none or' ow = or' := by cases or' <;> rfl
      simp only [Kind.mergeKeepF, ha, ho]
      cases w with
      | arr xs => rw [mem_arr_mk] at h ⊢; exact h
      | obj m => rw [mem_obj_mk] at h ⊢; exact h
      | null => simp only [mem, Kind.prim] at h ⊢; exact hp.2.2.2.2.2.2.1 h
      | bool _ => simp only [mem, Kind.prim] at h ⊢; exact hp.2.2.2.1 h
      | int _ => simp only [mem, Kind.prim] at h ⊢; exact hp.2.1 h
      | float _ => simp only [mem, Kind.prim] at h ⊢; exact hp.2.2.1 h
      | bytes _ => simp only [mem, Kind.prim] at h ⊢; exact hp.1 h
      | ts _ => simp only [mem, Kind.prim] at h ⊢; exact hp.2.2.2.2.1 h
      | regex _ => simp only [mem, Kind.prim] at h ⊢; exact hp.2.2.2.2.2.1 h

theorem mergeKeepF_left_of_flat (n : Nat) (l r : Kind) (ow : Bool) (w : Value)
    (hr : r.hasArr = false ∧ r.hasObj = false) (h : mem w l = true) :
    mem w (Kind.mergeKeepF n l r ow) = true := by
  cases n with
  | zero => exact mem_any w
  | succ n =>
    cases l with
    | mk pl al ol =>
    cases r with
    | mk pr ar or' =>
    cases ar with
    | some _ => simp [Kind.hasArr] at hr
    | none =>
    cases or' with
    | some _ => simp [Kind.hasObj] at hr
    | none =>
      have hp := prim_or_left pl pr
      have ha : OCol.mergeWith (Kind.mergeKeepF n) al .none ow = al := by cases al <;> rfl
      have ho : OCol.mergeWith (Kind.mergeKeepF n) ol .none ow = ol := by cases ol <;> rfl
      simp only [Kind.mergeKeepF, ha, ho]
      cases w with
      | arr xs => rw [mem_arr_mk] at h ⊢; exact h
      | obj m => rw [mem_obj_mk] at h ⊢; exact h
      | null => simp only [mem, Kind.prim] at h ⊢; exact hp.2.2.2.2.2.2.1 h
      | bool _ => simp only [mem, Kind.prim] at h ⊢; exact hp.2.2.2.1 h
      | int _ => simp only [mem, Kind.prim] at h ⊢; exact hp.2.1 h
      | float _ => simp only [mem, Kind.prim] at h ⊢; exact hp.2.2.1 h
      | bytes _ => simp only [mem, Kind.prim] at h ⊢; exact hp.1 h
      | ts _ => simp only [mem, Kind.prim] at h ⊢; exact hp.2.2.2.2.1 h
      | regex _ => simp only [mem, Kind.prim] at h ⊢; exact hp.2.2.2.2.2.1 h

/-- an `Exact(l)` unknown whose kind has no defined state: `l` is at most `undefined`. -/
theorem flat_of_not_defined (l : Kind) (h : (Unknown.exact l).toKind.containsAnyDefined = false) :
    l.hasArr = false ∧ l.hasObj = false := by
  cases l with
  | mk p a o =>
    simp only [Unknown.toKind, Unknown.toExistingKind, Kind.withoutUndefined, Kind.orUndefined,
      Kind.containsAnyDefined, Kind.isUndefined, Kind.onlyPrim, Kind.hasArr, Kind.hasObj,
      Bool.not_eq_false', Bool.and_eq_true, Bool.not_eq_true'] at h
    cases a <;> cases o <;> simp_all [Kind.hasArr, Kind.hasObj]

/-- the unknown of an overwrite-merge contains both unknowns, unless both are `Exact` with defined
    states (`D_merge_unknown_overwrite`). -/
theorem unknown_merge_overwrite_sound (n : Nat) (u1 u2 : Unknown)
    (i1 : u1.hasNonAnyInf = false) (i2 : u2.hasNonAnyInf = false)
    (hc : (u1.isExact && u1.toKind.containsAnyDefined && u2.isExact && u2.toKind.containsAnyDefined) = false)
    (x : Value) :
    (mem x (unknownElemKind u1) = true →
      mem x (unknownElemKind (Unknown.mergeWith (Kind.mergeKeepF n) u1 u2 true)) = true) ∧
    (mem x (unknownElemKind u2) = true →
      mem x (unknownElemKind (Unknown.mergeWith (Kind.mergeKeepF n) u1 u2 true)) = true) := by
  cases u1 with
  | exact l =>
    cases u2 with
    | exact r =>
      simp only [Unknown.mergeWith, unknownElemKind, Unknown.isExact, Bool.true_and, Bool.and_true] at hc ⊢
      cases hd1 : (Unknown.exact l).toKind.containsAnyDefined with
      | false =>
        have hfl := flat_of_not_defined l hd1
        constructor
        · intro hx
          have : mem x (Unknown.exact l).toKind = true := by rw [mem_unknown_toKind]; exact hx
          rw [containsAnyDefined_of_mem x _ this] at hd1; cases hd1
        · exact mergeKeepF_right_of_flat n l r true x hfl
      | true =>
        have hd2 : (Unknown.exact r).toKind.containsAnyDefined = false := by simpa [hd1] using hc
        have hfr := flat_of_not_defined r hd2
        constructor
        · exact mergeKeepF_left_of_flat n l r true x hfr
        · intro hx
          have : mem x (Unknown.exact r).toKind = true := by rw [mem_unknown_toKind]; exact hx
          rw [containsAnyDefined_of_mem x _ this] at hd2; cases hd2
    | infinite r =>
      simp only [Unknown.hasNonAnyInf, Bool.not_eq_eq_eq_not, Bool.not_false] at i2
      have := inf_eq_any_of_isAny r i2; subst this
      simp only [Unknown.mergeWith, unknownElemKind]
      exact ⟨fun _ => mem_infAny x, fun _ => mem_infAny x⟩
  | infinite l =>
    simp only [Unknown.hasNonAnyInf, Bool.not_eq_eq_eq_not, Bool.not_false] at i1
    have := inf_eq_any_of_isAny l i1; subst this
    cases u2 with
    | exact r =>
      simp only [Unknown.mergeWith, unknownElemKind]
      exact ⟨fun _ => mem_infAny x, fun _ => mem_infAny x⟩
    | infinite r =>
      simp only [Unknown.hasNonAnyInf, Bool.not_eq_eq_eq_not, Bool.not_false] at i2
      have := inf_eq_any_of_isAny r i2; subst this
      simp only [Unknown.mergeWith, unknownElemKind]
      exact ⟨fun _ => mem_infAny x, fun _ => mem_infAny x⟩

theorem mergeKnownSelf_true (f : Kind → Kind → Bool → Kind) (c2 : Col) (k : Key) (k1 : Kind) :
    Col.mergeKnownSelf f c2 true k k1 =
      (match c2.known.get k with
       | some k2 => k2
       | none => if c2.unknownKind.containsAnyDefined = true
                 then f c2.unknownKind.withoutUndefined k1 false else k1) := by
  unfold Col.mergeKnownSelf
  cases c2.known.get k <;> simp

theorem mergeKnownOther_true (f : Kind → Kind → Bool → Kind) (suk ok : Kind) :
    Col.mergeKnownOther f suk true ok = ok := by
  unfold Col.mergeKnownOther
  simp

/-- **the object collection of `merge(Overwrite)` describes `a | b`.** -/
theorem col_merge_overwrite_sound (n : Nat) (c1 c2 : Col) (ma mb : VMap)
    (hmb : mb.SortedKeys = true)
    (s1 : c1.SortedK = true) (s2 : c2.SortedK = true) (i1 : c1.hasNonAnyInf = false)
    (i2 : c2.hasNonAnyInf = false)
    (hopt : c2.known.any (fun _ v => v.prim.undefined) = false)
    (hunk : (c1.unknown.isExact && c1.unknownKind.containsAnyDefined &&
      c2.unknown.isExact && c2.unknownKind.containsAnyDefined) = false)
    (ha1 : ∀ k w, ma.get k = some w → mem w (slotKind c1 k) = true)
    (ha2 : ∀ k K', c1.known.get k = some K' → ma.get k = none → K'.prim.undefined = true)
    (hb1 : ∀ k w, mb.get k = some w → mem w (slotKind c2 k) = true)
    (hb2 : ∀ k K', c2.known.get k = some K' → mb.get k = none → K'.prim.undefined = true) :
    (∀ k w, (ma.mergeInto mb).get k = some w →
      mem w (slotKind (Col.mergeWith (Kind.mergeKeepF n) c1 c2 true) k) = true) ∧
    (∀ k K', (Col.mergeWith (Kind.mergeKeepF n) c1 c2 true).known.get k = some K' →
      (ma.mergeInto mb).get k = none → K'.prim.undefined = true) := by
  cases c1 with
  | mk k1 u1 =>
  cases c2 with
  | mk k2 u2 =>
  obtain ⟨sk1, sK1, su1⟩ := col_sortedK s1
  obtain ⟨sk2, sK2, su2⟩ := col_sortedK s2
  obtain ⟨ik1, iu1⟩ := col_infAny i1
  obtain ⟨ik2, iu2⟩ := col_infAny i2
  have hf := mergeKeepF_sound n
  have hmk : ∃ km, Col.mergeWith (Kind.mergeKeepF n) (.mk k1 u1) (.mk k2 u2) true =
        .mk km (Unknown.mergeWith (Kind.mergeKeepF n) u1 u2 true) ∧
      ∀ q, km.get q = (match k1.get q with
        | some kk1 => some (Col.mergeKnownSelf (Kind.mergeKeepF n) (.mk k2 u2) true q kk1)
        | none => (k2.get q).map (Col.mergeKnownOther (Kind.mergeKeepF n) u1.toKind true)) := by
    refine ⟨(Col.mergeWith (Kind.mergeKeepF n) (.mk k1 u1) (.mk k2 u2) true).known, rfl, ?_⟩
    intro q
    exact Col.mergeWith_known_get _ (.mk k1 u1) (.mk k2 u2) true q sk2
  obtain ⟨km, hm, hget⟩ := hmk
  rw [hm]
  have suk2 := Unknown.sortedK_toKind u2 su2
  have iuk2 := Unknown.infAny_toKind u2 iu2
  have suk2' : u2.toKind.withoutUndefined.SortedK = true := by
    cases hk : u2.toKind with
    | mk p a o => rw [hk] at suk2; simpa [Kind.withoutUndefined, Kind.SortedK] using suk2
  have iuk2' : u2.toKind.withoutUndefined.hasNonAnyInf = false := by
    cases hk : u2.toKind with
    | mk p a o => rw [hk] at iuk2; simpa [Kind.withoutUndefined, Kind.hasNonAnyInf] using iuk2
  have huk2 : (Col.mk k2 u2).unknownKind = u2.toKind := rfl
  have hkn2 : (Col.mk k2 u2).known = k2 := rfl
  have hnoopt : ∀ k K', k2.get k = some K' → K'.prim.undefined = false := by
    intro k K' hk
    have := KList.any_false _ k2 hopt k K' hk
    simpa using this
  have hunkS := unknown_merge_overwrite_sound n u1 u2 iu1 iu2 hunk
  constructor
  · intro k w hk
    rw [VMap.mergeInto_get mb ma k hmb] at hk
    rw [slotKind_mk, hget k]
    cases hbk : mb.get k with
    | some wb =>
      rw [hbk] at hk
      simp only [Option.some.injEq] at hk; subst hk
      have hslot := hb1 k wb hbk
      rw [slotKind_mk] at hslot
      cases h1 : k1.get k with
      | some kk1 =>
        show mem wb (Col.mergeKnownSelf (Kind.mergeKeepF n) (.mk k2 u2) true k kk1) = true
        rw [mergeKnownSelf_true, hkn2, huk2]
        cases h2 : k2.get k with
        | some kk2 => rw [h2] at hslot; exact hslot
        | none =>
          rw [h2] at hslot
          have hxu : mem wb u2.toKind = true := by rw [mem_unknown_toKind]; exact hslot
          have hdef := containsAnyDefined_of_mem wb _ hxu
          show mem wb (if u2.toKind.containsAnyDefined = true
            then Kind.mergeKeepF n u2.toKind.withoutUndefined kk1 false else kk1) = true
          rw [if_pos hdef]
          exact hf.left _ kk1 wb suk2' (KList.sortedK_get k1 k kk1 sK1 h1) iuk2'
            (KList.infAny_get k1 k kk1 ik1 h1) (by rw [mem_withoutUndefined]; exact hxu)
      | none =>
        cases h2 : k2.get k with
        | some kk2 =>
          rw [h2] at hslot
          show mem wb (Col.mergeKnownOther (Kind.mergeKeepF n) u1.toKind true kk2) = true
          rw [mergeKnownOther_true]; exact hslot
        | none =>
          rw [h2] at hslot
          exact (hunkS wb).2 hslot
    | none =>
      rw [hbk] at hk
      have hslot := ha1 k w hk
      rw [slotKind_mk] at hslot
      -- `b` lacks `k`: `k` is not known in `c2` (no optional known entry there)
      have h2 : k2.get k = none := by
        cases h2 : k2.get k with
        | none => rfl
        | some kk2 =>
          have := hb2 k kk2 h2 hbk
          rw [hnoopt k kk2 h2] at this; cases this
      cases h1 : k1.get k with
      | some kk1 =>
        rw [h1] at hslot
        show mem w (Col.mergeKnownSelf (Kind.mergeKeepF n) (.mk k2 u2) true k kk1) = true
        rw [mergeKnownSelf_true, hkn2, huk2, h2]
        show mem w (if u2.toKind.containsAnyDefined = true
          then Kind.mergeKeepF n u2.toKind.withoutUndefined kk1 false else kk1) = true
        by_cases hd : u2.toKind.containsAnyDefined = true
        · rw [if_pos hd]
          exact hf.right _ kk1 w suk2' (KList.sortedK_get k1 k kk1 sK1 h1) iuk2'
            (KList.infAny_get k1 k kk1 ik1 h1) hslot
        · rw [if_neg hd]; exact hslot
      | none =>
        rw [h1] at hslot
        rw [h2]
        exact (hunkS w).1 hslot
  · intro k K' hk hg
    have hk' : km.get k = some K' := hk
    rw [VMap.mergeInto_get mb ma k hmb] at hg
    have hbk : mb.get k = none := by
      cases hbk : mb.get k with
      | none => rfl
      | some wb => rw [hbk] at hg; cases hg
    rw [hbk] at hg
    have hak : ma.get k = none := hg
    rw [hget k] at hk'
    have h2 : k2.get k = none := by
      cases h2 : k2.get k with
      | none => rfl
      | some kk2 =>
        have := hb2 k kk2 h2 hbk
        rw [hnoopt k kk2 h2] at this; cases this
    cases h1 : k1.get k with
    | some kk1 =>
      rw [h1] at hk'
      have hu := ha2 k kk1 h1 hak
      have hK : K' = Col.mergeKnownSelf (Kind.mergeKeepF n) (.mk k2 u2) true k kk1 := by
        simpa using hk'.symm
      rw [hK, mergeKnownSelf_true, hkn2, huk2, h2]
      show (if u2.toKind.containsAnyDefined = true
        then Kind.mergeKeepF n u2.toKind.withoutUndefined kk1 false else kk1).prim.undefined = true
      by_cases hd : u2.toKind.containsAnyDefined = true
      · rw [if_pos hd]; exact hf.undefR _ _ hu
      · rw [if_neg hd]; exact hu
    | none =>
      rw [h1, h2] at hk'
      simp at hk'

end Spec
