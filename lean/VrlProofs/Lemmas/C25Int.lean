/-
  Helper lemmas for C25 (format_int / parse_int): the digit loop of `format_radix` and the digit
  fold of `from_str_radix` are inverse.
-/
import VrlModel.Conv.Int

namespace Conv

theorem inI64_iff (n : Int) :
    inI64 n = true ↔ -9223372036854775808 ≤ n ∧ n ≤ 9223372036854775807 := by
  unfold inI64 i64Min i64Max
  rw [Bool.and_eq_true, decide_eq_true_iff, decide_eq_true_iff]

theorem digitVal_digitChar (d : Nat) (h : d < 36) : digitVal (digitChar d) = some d := by
  unfold digitChar digitVal
  by_cases h10 : d < 10
  · simp [h10]; omega
  · simp [h10]
    have h1 : ¬ (48 ≤ 87 + d ∧ 87 + d ≤ 57) := by omega
    have h2 : 97 ≤ 87 + d ∧ 87 + d ≤ 122 := by omega
    simp [h1, h2]

theorem digitChar_not_sign (d : Nat) (h : d < 36) : digitChar d ≠ 43 ∧ digitChar d ≠ 45 := by
  unfold digitChar
  split <;> omega

theorem digitsValue_append (b : Nat) (l1 l2 : List Nat) (acc : Nat) :
    digitsValue b (l1 ++ l2) acc = (digitsValue b l1 acc).bind (digitsValue b l2) := by
  induction l1 generalizing acc with
  | nil => rfl
  | cons c cs ih =>
    simp only [List.cons_append, digitsValue]
    cases digitVal c with
    | none => rfl
    | some d =>
      simp only
      split
      · exact ih _
      · rfl

/-- reading the text of `x` and then `rest` is reading `rest` from the accumulator `x`. -/
theorem digitsValue_digitsRev (b : Nat) (hb2 : 2 ≤ b) (hb36 : b ≤ 36) :
    ∀ (fuel x : Nat) (rest : List Nat), x < 2 ^ fuel →
      digitsValue b (((digitsRev b fuel x).map digitChar).reverse ++ rest) 0 = digitsValue b rest x := by
  intro fuel
  induction fuel with
  | zero =>
    intro x rest hx
    have : x = 0 := by simpa using hx
    subst this
    simp [digitsRev]
  | succ fuel ih =>
    intro x rest hx
    have hmod : x % b < b := Nat.mod_lt _ (by omega)
    have hdv : digitVal (digitChar (x % b)) = some (x % b) := digitVal_digitChar _ (by omega)
    simp only [digitsRev]
    by_cases hq : x / b = 0
    · have hlt : x < b := by
        rcases Nat.div_eq_zero_iff.mp hq with h | h
        · omega
        · exact h
      have hxm : x % b = x := Nat.mod_eq_of_lt hlt
      rw [hxm] at hdv
      simp [hq, digitsValue, hxm, hdv, hlt]
    · simp only [hq, ↓reduceIte, List.map_cons, List.reverse_cons, List.append_assoc,
        List.singleton_append]
      have hx2 : x / b < 2 ^ fuel := by
        have h1 : x / b ≤ x / 2 := Nat.div_le_div_left hb2 (by omega)
        have h2 : 2 ^ (fuel + 1) = 2 * 2 ^ fuel := by rw [Nat.pow_succ]; omega
        omega
      rw [ih (x / b) _ hx2]
      simp only [digitsValue, hdv, hmod, ↓reduceIte]
      have : x / b * b + x % b = x := by
        rw [Nat.mul_comm]; exact Nat.div_add_mod x b
      rw [this]

theorem digitsRev_ne_nil (b fuel x : Nat) : digitsRev b (fuel + 1) x ≠ [] := by
  simp [digitsRev]

theorem digitsRev_lt (b : Nat) (hb : 0 < b) : ∀ (fuel x d : Nat), d ∈ digitsRev b fuel x → d < b := by
  intro fuel
  induction fuel with
  | zero => intro x d h; simp [digitsRev] at h
  | succ fuel ih =>
    intro x d h
    simp only [digitsRev, List.mem_cons] at h
    rcases h with h | h
    · subst h; exact Nat.mod_lt _ hb
    · split at h
      · simp at h
      · exact ih _ _ h

theorem magText_ne_nil (b x : Nat) : magText b x ≠ [] := by
  simp [magText, digitsRev]

theorem magText_not_sign (b x : Nat) (hb : 0 < b) (hb36 : b ≤ 36) :
    ∀ c ∈ magText b x, c ≠ 43 ∧ c ≠ 45 := by
  intro c hc
  simp only [magText, List.mem_reverse, List.mem_map] at hc
  obtain ⟨d, hd, rfl⟩ := hc
  exact digitChar_not_sign d (by have := digitsRev_lt b hb 64 x d hd; omega)

theorem digitsValue_magText (b x : Nat) (hb2 : 2 ≤ b) (hb36 : b ≤ 36) (hx : x < 2 ^ 64) :
    digitsValue b (magText b x) 0 = some x := by
  have h := digitsValue_digitsRev b hb2 hb36 64 x [] hx
  simpa [magText, digitsValue] using h

/-- text of a signed integer in base `b` (what `format_radix` produces — `unsigned_abs`, no overflow —
    and what `i64::to_string` produces for `b = 10`) -/
def signedText (b : Nat) (n : Int) : List Nat :=
  if n < 0 then 45 :: magText b (-n).toNat else magText b n.toNat

/-- `from_str_radix` reads back the signed text of every `i64`, `i64::MIN` included. -/
theorem fromStrRadix_signedText (n : Int) (b : Nat) (hb2 : 2 ≤ b) (hb36 : b ≤ 36)
    (hn : inI64 n = true) : fromStrRadix (signedText b n) b = some n := by
  rw [inI64_iff] at hn
  unfold signedText
  by_cases hneg : n < 0
  · simp only [hneg, ↓reduceIte]
    have hx : (-n).toNat < 2 ^ 64 := by omega
    have hv := digitsValue_magText b (-n).toNat hb2 hb36 hx
    have hne := magText_ne_nil b (-n).toNat
    have hback : -(((-n).toNat : Nat) : Int) = n := by omega
    cases hm : magText b (-n).toNat with
    | nil => exact absurd hm hne
    | cons c t =>
      simp only [fromStrRadix]
      rw [← hm, hv]
      simp [hm, i64Min, hback]
      omega
  · simp only [hneg, ↓reduceIte]
    have hx : n.toNat < 2 ^ 64 := by omega
    have hv := digitsValue_magText b n.toNat hb2 hb36 hx
    have hne := magText_ne_nil b n.toNat
    have hsig := magText_not_sign b n.toNat (by omega) hb36
    have hback : ((n.toNat : Nat) : Int) = n := by omega
    cases hm : magText b n.toNat with
    | nil => exact absurd hm hne
    | cons c t =>
      have hc := hsig c (by rw [hm]; simp)
      simp only [fromStrRadix, hc.1, hc.2, ↓reduceIte]
      rw [← hm, hv]
      simp [i64Max, hback]
      omega

theorem formatRadix_eq_signedText (n : Int) (b : Nat) :
    formatRadix n b = .ok (signedText b n) := by
  unfold formatRadix signedText
  by_cases hneg : n < 0 <;> simp [hneg]

/-- the most significant digit of a positive number is not zero -/
theorem digitsRev_getLast (b : Nat) (hb2 : 2 ≤ b) : ∀ (fuel x : Nat), 0 < x → x < 2 ^ fuel →
    ∃ d, (digitsRev b fuel x).getLast? = some d ∧ d ≠ 0 := by
  intro fuel
  induction fuel with
  | zero => intro x h0 h1; simp at h1; omega
  | succ fuel ih =>
    intro x h0 hx
    simp only [digitsRev]
    by_cases hq : x / b = 0
    · have hlt : x < b := by
        rcases Nat.div_eq_zero_iff.mp hq with h | h
        · omega
        · exact h
      refine ⟨x % b, by simp [hq], ?_⟩
      rw [Nat.mod_eq_of_lt hlt]; omega
    · have hx2 : x / b < 2 ^ fuel := by
        have h1 : x / b ≤ x / 2 := Nat.div_le_div_left hb2 (by omega)
        have h2 : 2 ^ (fuel + 1) = 2 * 2 ^ fuel := by rw [Nat.pow_succ]; omega
        omega
      obtain ⟨d, hd, hd0⟩ := ih (x / b) (Nat.pos_of_ne_zero hq) hx2
      refine ⟨d, ?_, hd0⟩
      simp only [hq, ↓reduceIte]
      rw [List.getLast?_cons, hd]
      rfl

/-- … so the text of a positive number does not start with `0` -/
theorem magText_head (b x : Nat) (hb2 : 2 ≤ b) (hb36 : b ≤ 36) (h0 : 0 < x) (hx : x < 2 ^ 64) :
    ∃ c t, magText b x = c :: t ∧ c ≠ 48 := by
  obtain ⟨d, hd, hd0⟩ := digitsRev_getLast b hb2 64 x h0 hx
  have hdlt : d < b := digitsRev_lt b (by omega) 64 x d (List.mem_of_getLast? hd)
  have hhead : (magText b x).head? = some (digitChar d) := by
    simp [magText, List.head?_reverse, hd]
  cases hm : magText b x with
  | nil => simp [hm] at hhead
  | cons c t =>
    simp only [hm, List.head?_cons, Option.some.injEq] at hhead
    refine ⟨c, t, rfl, ?_⟩
    rw [hhead]
    unfold digitChar
    split <;> omega

/-- `parse_int` without a base argument reads decimal text back: `"0"` goes through the octal
    branch, every other decimal text starts with `-` or a non-zero digit. -/
theorem parseInt_auto_signedText (i : Int) (hi : inI64 i = true) :
    parseInt (.bytes (signedText 10 i)) none = .ok (.int i) := by
  have h := fromStrRadix_signedText i 10 (by omega) (by omega) hi
  have hi' := (inI64_iff i).mp hi
  by_cases hneg : i < 0
  · have ht : signedText 10 i = 45 :: magText 10 (-i).toNat := by simp [signedText, hneg]
    rw [ht] at h ⊢
    simp [parseInt, h, optToRes, Res.map]
  · by_cases h0 : i = 0
    · subst h0; decide
    · have ht : signedText 10 i = magText 10 i.toNat := by simp [signedText, hneg]
      obtain ⟨c, t, hm, hc⟩ := magText_head 10 i.toNat (by omega) (by omega) (by omega) (by omega)
      rw [ht, hm] at h ⊢
      simp [parseInt, hc, h, optToRes, Res.map]

theorem magText_ascii (b x : Nat) (hb : 0 < b) (hb36 : b ≤ 36) : ∀ c ∈ magText b x, c < 128 := by
  intro c hc
  simp only [magText, List.mem_reverse, List.mem_map] at hc
  obtain ⟨d, hd, rfl⟩ := hc
  have := digitsRev_lt b hb 64 x d hd
  unfold digitChar
  split <;> omega

end Conv
