/-
  Helper lemmas for C25 (format_int / parse_int): the digit loop of `format_radix` and the digit
  fold of `from_str_radix` are inverse.
-/
import VrlModel.Conv.Int

namespace Conv

theorem inI64_iff (n : Int) :
    inI64 n = true ↔ -9223372036854775808 ≤ n ∧ n ≤ 9223372036854775807 := by
  unfold inI64 i64Min i64Max
  rw [Bool.and_eq_true, decide_eq_true_iff, decide_eq_true_iff]

theorem digitVal_digitChar (d : Nat) (h : d < 36) : digitVal (digitChar d) = some d := by
  unfold digitChar digitVal
  by_cases h10 : d < 10
  · simp [h10]; omega
  · simp [h10]
    have h1 : ¬ (48 ≤ 87 + d ∧ 87 + d ≤ 57) := by omega
    have h2 : 97 ≤ 87 + d ∧ 87 + d ≤ 122 := by omega
    simp [h1, h2]

theorem digitChar_not_sign (d : Nat) (h : d < 36) : digitChar d ≠ 43 ∧ digitChar d ≠ 45 := by
  unfold digitChar
  split <;> omega

theorem digitsValue_append (b : Nat) (l1 l2 : List Nat) (acc : Nat) :
    digitsValue b (l1 ++ l2) acc = (digitsValue b l1 acc).bind (digitsValue b l2) := by
  induction l1 generalizing acc with
  | nil => rfl
  | cons c cs ih =>
    simp only [List.cons_append, digitsValue]
    cases digitVal c with
    | none => rfl
    | some d =>
      simp only
      split
      · exact ih _
      · rfl

/-- reading the text of `x` and then `rest` is reading `rest` from the accumulator `x`. -/
theorem digitsValue_digitsRev (b : Nat) (hb2 : 2 ≤ b) (hb36 : b ≤ 36) :
    ∀ (fuel x : Nat) (rest : List Nat), x < 2 ^ fuel →
      digitsValue b (((digitsRev b fuel x).map digitChar).reverse ++ rest) 0 = digitsValue b rest x := by
  intro fuel
  induction fuel with
  | zero =>
    intro x rest hx
    have : x = 0 := by simpa using hx
    subst this
    simp [digitsRev]
  | succ fuel ih =>
    intro x rest hx
    have hmod : x % b < b := Nat.mod_lt _ (by omega)
    have hdv : digitVal (digitChar (x % b)) = some (x % b) := digitVal_digitChar _ (by omega)
    simp only [digitsRev]
    by_cases hq : x / b = 0
    · have hlt : x < b := by
        rcases Nat.div_eq_zero_iff.mp hq with h | h
        · omega
        · exact h
      have hxm : x % b = x := Nat.mod_eq_of_lt hlt
      rw [hxm] at hdv
      simp [hq, digitsValue, hxm, hdv, hlt]
    · simp only [hq, ↓reduceIte, List.map_cons, List.reverse_cons, List.append_assoc,
        List.singleton_append]
      have hx2 : x / b < 2 ^ fuel := by
        have h1 : x / b ≤ x / 2 := Nat.div_le_div_left hb2 (by omega)
        have h2 : 2 ^ (fuel + 1) = 2 * 2 ^ fuel := by rw [Nat.pow_succ]; omega
        omega
      rw [ih (x / b) _ hx2]
      simp only [digitsValue, hdv, hmod, ↓reduceIte]
      have : x / b * b + x % b = x := by
        rw [Nat.mul_comm]; exact Nat.div_add_mod x b
      rw [this]

theorem digitsRev_ne_nil (b fuel x : Nat) : digitsRev b (fuel + 1) x ≠ [] := by
  simp [digitsRev]

theorem digitsRev_lt (b : Nat) (hb : 0 < b) : ∀ (fuel x d : Nat), d ∈ digitsRev b fuel x → d < b := by
  intro fuel
  induction fuel with
  | zero => intro x d h; simp [digitsRev] at h
  | succ fuel ih =>
    intro x d h
    simp only [digitsRev, List.mem_cons] at h
    rcases h with h | h
    · subst h; exact Nat.mod_lt _ hb
    · split at h
      · simp at h
      · exact ih _ _ h

theorem magText_ne_nil (b x : Nat) : magText b x ≠ [] := by
  simp [magText, digitsRev]

theorem magText_not_sign (b x : Nat) (hb : 0 < b) (hb36 : b ≤ 36) :
    ∀ c ∈ magText b x, c ≠ 43 ∧ c ≠ 45 := by
  intro c hc
  simp only [magText, List.mem_reverse, List.mem_map] at hc
  obtain ⟨d, hd, rfl⟩ := hc
  exact digitChar_not_sign d (by have := digitsRev_lt b hb 64 x d hd; omega)

theorem digitsValue_magText (b x : Nat) (hb2 : 2 ≤ b) (hb36 : b ≤ 36) (hx : x < 2 ^ 64) :
    digitsValue b (magText b x) 0 = some x := by
  have h := digitsValue_digitsRev b hb2 hb36 64 x [] hx
  simpa [magText, digitsValue] using h

end Conv
