import VrlModel.Arith
import VrlModel.C10
import VrlModel.C11
import VrlProofs.Lemmas.F64
import VrlProofs.Lemmas.Value

/-! Helper lemmas for the C10/C11 property theorems. -/

namespace C10
open Arith

/-- the six answers computed from two order keys are consistent -/
theorem consistent_of_keys (x y : Int) :
    consistent { lt := some (decide (x < y)), le := some (decide (x ≤ y)), eq := some (decide (x = y)),
                 ne := some (!decide (x = y)), gt := some (decide (y < x)), ge := some (decide (y ≤ x)) }
      = true := by
  simp only [consistent]
  rcases Int.lt_trichotomy x y with h | h | h
  · have h1 : x ≤ y := by omega
    have h2 : ¬ x = y := by omega
    have h3 : ¬ y < x := by omega
    have h4 : ¬ y ≤ x := by omega
    simp [h, h1, h2, h3, h4]
  · subst h; simp
  · have h1 : ¬ x ≤ y := by omega
    have h2 : ¬ x = y := by omega
    have h3 : ¬ x < y := by omega
    have h4 : y ≤ x := by omega
    simp [h, h1, h2, h3, h4]

/-- the same for the lexicographic order on byte strings -/
theorem consistent_of_bytes (a b : List Nat) :
    consistent { lt := some (Key.lt a b), le := some (!Key.lt b a), eq := some (a == b),
                 ne := some (!(a == b)), gt := some (Key.lt b a), ge := some (!Key.lt a b) } = true := by
  simp only [consistent]
  rcases Key.lt_total a b with h | h | h
  · have h2 := Key.lt_asymm a b h
    have h3 : (a == b) = false := by simpa using Key.lt_ne a b h
    simp [h, h2, h3]
  · subst h; simp [Key.lt_irrefl]
  · have h2 := Key.lt_asymm b a h
    have h3 : (a == b) = false := by
      have := Key.lt_ne b a h
      simp; exact fun e => this e.symm
    simp [h, h2, h3]

/-! ### structural equality -/

theorem norm_float_eq (x y : Nat) (hx : x < F64.p64) (hy : y < F64.p64)
    (nx : F64.isNaN x = false) (ny : F64.isNaN y = false) :
    F64.eq x y = true ↔ norm (.float x) = norm (.float y) := by
  rw [F64.eq_true_iff x y nx ny hx hy]
  simp only [norm]
  have zx : F64.isZero x = true → x = 0 ∨ x = F64.p63 := by
    intro h; have := F64.bits_eq x hx; unfold F64.isZero at h; simp at h; rw [h] at this
    split at this <;> omega
  cases h1 : F64.isZero x <;> cases h2 : F64.isZero y <;> simp
  · constructor
    · intro h; subst h; simp [h1] at h2
    · intro h; subst h; simp [F64.isZero, F64.mag] at h1
  · constructor
    · intro h; subst h; simp [h1] at h2
    · intro h; subst h; simp [F64.isZero, F64.mag] at h2

mutual
  theorem veq_iff : (a b : Value) → floatsOK a = true → floatsOK b = true →
      (veq a b = true ↔ norm a = norm b)
    | .null, b, _, _ => by cases b <;> simp [veq, norm] <;> split <;> simp
    | .bool x, b, _, _ => by cases b <;> simp [veq, norm] <;> split <;> simp
    | .int x, b, _, _ => by cases b <;> simp [veq, norm] <;> split <;> simp
    | .bytes x, b, _, _ => by cases b <;> simp [veq, norm] <;> split <;> simp
    | .ts x, b, _, _ => by cases b <;> simp [veq, norm] <;> split <;> simp
    | .regex x, b, _, _ => by cases b <;> simp [veq, norm] <;> split <;> simp
    | .float x, b, ha, hb => by
      cases b
      case float y =>
        simp only [floatsOK, Bool.and_eq_true, decide_eq_true_eq, Bool.not_eq_true'] at ha hb
        simp only [veq]
        exact norm_float_eq x y ha.1 hb.1 ha.2 hb.2
      all_goals (simp [veq, norm]; try (split <;> simp))
    | .arr xs, b, ha, hb => by
      cases b
      case arr ys =>
        simp only [floatsOK] at ha hb
        simp only [veq, norm, Value.arr.injEq]
        exact veqList_iff xs ys ha hb
      all_goals (simp [veq, norm]; try (split <;> simp))
    | .obj m, b, ha, hb => by
      cases b
      case obj n =>
        simp only [floatsOK] at ha hb
        simp only [veq, norm, Value.obj.injEq]
        exact veqMap_iff m n ha hb
      all_goals (simp [veq, norm]; try (split <;> simp))
  theorem veqList_iff : (a b : VList) → floatsOKList a = true → floatsOKList b = true →
      (veqList a b = true ↔ normList a = normList b)
    | .nil, .nil, _, _ => by simp [veqList, normList]
    | .nil, .cons _ _, _, _ => by simp [veqList, normList]
    | .cons _ _, .nil, _, _ => by simp [veqList, normList]
    | .cons x xs, .cons y ys, ha, hb => by
      simp only [floatsOKList, Bool.and_eq_true] at ha hb
      simp only [veqList, normList, Bool.and_eq_true, VList.cons.injEq]
      rw [veq_iff x y ha.1 hb.1, veqList_iff xs ys ha.2 hb.2]
  theorem veqMap_iff : (a b : VMap) → floatsOKMap a = true → floatsOKMap b = true →
      (veqMap a b = true ↔ normMap a = normMap b)
    | .nil, .nil, _, _ => by simp [veqMap, normMap]
    | .nil, .cons _ _ _, _, _ => by simp [veqMap, normMap]
    | .cons _ _ _, .nil, _, _ => by simp [veqMap, normMap]
    | .cons k x xs, .cons l y ys, ha, hb => by
      simp only [floatsOKMap, Bool.and_eq_true] at ha hb
      simp only [veqMap, normMap, Bool.and_eq_true, VMap.cons.injEq, beq_iff_eq]
      rw [veq_iff x y ha.1 hb.1, veqMap_iff xs ys ha.2 hb.2]
      exact and_assoc
end

end C10

namespace Arith

theorem inI64_iff (x : Int) :
    inI64 x = true ↔ (-9223372036854775808 ≤ x ∧ x ≤ 9223372036854775807) := by
  unfold inI64 i64Min i64Max
  rw [Bool.and_eq_true]
  constructor
  · intro h; exact ⟨of_decide_eq_true h.1, of_decide_eq_true h.2⟩
  · intro h; exact ⟨decide_eq_true h.1, decide_eq_true h.2⟩

theorem inI64_natAbs (x : Int) (h : inI64 x = true) : x.natAbs < F64.p64 := by
  rw [inI64_iff] at h; unfold F64.p64; omega

theorem concatN_eq (b : List Nat) (k : Nat) : concatN b k = (List.replicate k b).flatten := by
  induction k with
  | zero => rfl
  | succ n ih => simp [concatN, List.replicate_succ, ih]

/-- `float_result` lets a float through exactly when it is not NaN -/
theorem floatResult_ok (o : Option Nat) (r : Nat) (h : floatResult o = .ok (.float r)) :
    F64.isNaN r = false := by
  unfold floatResult at h
  split at h
  · cases h
  · split at h
    · cases h
    · rename_i hn; cases h; simpa using hn

theorem floatResult_ok_eq (o : Option Nat) (r : Nat) (h : floatResult o = .ok (.float r)) : o = some r := by
  unfold floatResult at h
  split at h
  · cases h
  · split at h
    · cases h
    · cases h; rfl

theorem floatResult_ok_float (o : Option Nat) (v : Value) (h : floatResult o = .ok v) :
    ∃ r, v = .float r ∧ F64.isNaN r = false := by
  unfold floatResult at h
  split at h
  · cases h
  · split at h
    · cases h
    · rename_i hn; cases h; exact ⟨_, rfl, by simpa using hn⟩

theorem floatResult_some (r : Nat) (h : F64.isNaN r = false) : floatResult (some r) = .ok (.float r) := by
  simp [floatResult, h]

/-- for a non-NaN pattern, `x == 0.0` is "is a zero" -/
theorem eq_zero_iff (r : Nat) (h : F64.isNaN r = false) : F64.eq r 0 = F64.isZero r := by
  have h0 : F64.isNaN 0 = false := by decide
  rw [F64.eq_iff_key r 0 h h0]
  unfold F64.key F64.isZero
  have k0 : F64.signBit 0 = false := by decide
  have m0 : F64.mag 0 = 0 := by decide
  simp only [k0, m0]
  cases hs : F64.signBit r <;> simp <;> (by_cases hm : F64.mag r = 0 <;> simp [hm])

end Arith
