/-
  Helper lemmas for C25 (IP address text): std's IPv4 parser reads back what `Display` printed.
-/
import VrlModel.Conv.Ip
import VrlProofs.Lemmas.C25Int

namespace Conv

theorem lossyF_ascii : ∀ (fuel : Nat) (s : List Nat), s.length ≤ fuel → (∀ c ∈ s, c < 128) →
    Utf8.lossyF fuel s = s := by
  intro fuel
  induction fuel with
  | zero => intro s h _; cases s <;> simp_all [Utf8.lossyF]
  | succ fuel ih =>
    intro s h ha
    cases s with
    | nil => simp [Utf8.lossyF]
    | cons b t =>
      have hb : b < 128 := ha b (by simp)
      simp only [Utf8.lossyF, hb, ↓reduceIte, List.cons.injEq, true_and]
      exact ih t (by simpa using h) (fun c hc => ha c (by simp [hc]))

theorem lossy_ascii (s : List Nat) (h : ∀ c ∈ s, c < 128) : Utf8.lossy s = s :=
  lossyF_ascii s.length s (Nat.le_refl _) h

namespace Ip

def octDigits (a : Nat) : List Nat :=
  if a < 10 then [a] else if a < 100 then [a / 10, a % 10] else [a / 100, a / 10 % 10, a % 10]

theorem showOctet_eq (a : Nat) : showOctet a = (octDigits a).map (48 + ·) := by
  unfold showOctet octDigits
  split
  · rfl
  · split <;> rfl

/-- the parser's digit loop stops at the head of `rest` -/
def stops (rest : List Nat) : Prop := takeDigits 10 rest = ([], rest)

theorem stops_nil : stops [] := rfl
theorem stops_dot (r : List Nat) : stops (46 :: r) := by
  simp [stops, takeDigits, digitVal]

theorem takeDigits_map (ds : List Nat) (h : ∀ d ∈ ds, d < 10) (rest : List Nat) (hs : stops rest) :
    takeDigits 10 (ds.map (48 + ·) ++ rest) = (ds, rest) := by
  induction ds with
  | nil => exact hs
  | cons d ds ih =>
    have hd : d < 10 := h d (by simp)
    have hv : digitVal (48 + d) = some d := by
      unfold digitVal
      have : 48 ≤ 48 + d ∧ 48 + d ≤ 57 := by omega
      simp [this]
    simp only [List.map_cons, List.cons_append, takeDigits, hv, hd, ↓reduceIte]
    rw [ih (fun x hx => h x (by simp [hx]))]

def octetOK (a : Nat) : Bool :=
  (octDigits a).all (· < 10) && decide (1 ≤ (octDigits a).length) && decide ((octDigits a).length ≤ 3)
    && !((octDigits a).head? == some 0 && decide ((octDigits a).length > 1))
    && digitsNat 10 (octDigits a) == a

set_option maxRecDepth 100000 in
theorem octetOK_all : ∀ a : Fin 256, octetOK a.val = true := by decide

theorem readOctet_show (a : Nat) (ha : a < 256) (rest : List Nat) (hs : stops rest) :
    readOctet (showOctet a ++ rest) = some (a, rest) := by
  have hok := octetOK_all ⟨a, ha⟩
  simp only [octetOK, Bool.and_eq_true, List.all_eq_true, decide_eq_true_eq, Bool.not_eq_true',
    beq_iff_eq] at hok
  obtain ⟨⟨⟨⟨h10, hlen1⟩, hlen3⟩, hzero⟩, hval⟩ := hok
  rw [showOctet_eq]
  unfold readOctet readNumber
  rw [takeDigits_map _ h10 rest hs]
  have hn0 : (octDigits a).length ≠ 0 := by omega
  have hn3 : ¬ (octDigits a).length > 3 := by omega
  simp only [hn0, ↓reduceIte, hn3, hval]
  cases hds : octDigits a with
  | nil => simp [hds] at hn0
  | cons d ds =>
    rw [hds] at hzero
    simp only [List.map_cons, List.cons_append, List.head?_cons, Bool.not_false, Bool.true_and]
    by_cases hd0 : d = 0
    · subst hd0
      have : ds.length = 0 := by
        simp only [List.head?_cons, List.length_cons, Bool.and_eq_false_iff] at hzero
        rcases hzero with h | h
        · simp at h
        · simpa using h
      simp [this]
      omega
    · have : ¬ (48 + d = 48) := by omega
      simp [this]
      omega

theorem showOctet_len (a : Nat) : (showOctet a).length ≤ 3 := by
  unfold showOctet
  split
  · simp
  · split <;> simp

theorem showOctet_ascii (a : Nat) (ha : a < 256) : ∀ c ∈ showOctet a, c < 128 := by
  intro c hc
  unfold showOctet at hc
  split at hc
  · simp at hc; omega
  · split at hc
    · simp at hc; omega
    · simp at hc; omega

/-- `read_ipv4_addr` reads back exactly what `Display for Ipv4Addr` printed. -/
theorem readV4_showV4 (a b c d : Nat) (ha : a < 256) (hb : b < 256) (hc : c < 256) (hd : d < 256)
    (rest : List Nat) (hs : stops rest) :
    readV4 (showV4 [a, b, c, d] ++ rest) = some ([a, b, c, d], rest) := by
  simp only [showV4, List.append_assoc, List.cons_append]
  unfold readV4
  rw [readOctet_show a ha _ (stops_dot _)]
  simp only [Option.bind_eq_bind, Option.bind_some, expect, ↓reduceIte]
  rw [readOctet_show b hb _ (stops_dot _)]
  simp only [Option.bind_some, expect, ↓reduceIte]
  rw [readOctet_show c hc _ (stops_dot _)]
  simp only [Option.bind_some, expect, ↓reduceIte]
  rw [readOctet_show d hd _ hs]
  rfl

theorem showV4_len (a b c d : Nat) : (showV4 [a, b, c, d]).length ≤ 15 := by
  have := showOctet_len a; have := showOctet_len b; have := showOctet_len c; have := showOctet_len d
  simp only [showV4, List.length_append, List.length_cons]
  omega

theorem showV4_ascii (a b c d : Nat) (ha : a < 256) (hb : b < 256) (hc : c < 256) (hd : d < 256) :
    ∀ x ∈ showV4 [a, b, c, d], x < 128 := by
  intro x hx
  simp only [showV4, List.append_assoc, List.cons_append, List.mem_append, List.mem_cons] at hx
  rcases hx with h | h | h | h | h | h | h
  · exact showOctet_ascii a ha x h
  · omega
  · exact showOctet_ascii b hb x h
  · omega
  · exact showOctet_ascii c hc x h
  · omega
  · exact showOctet_ascii d hd x h

theorem parseV4_showV4 (a b c d : Nat) (ha : a < 256) (hb : b < 256) (hc : c < 256) (hd : d < 256) :
    parseV4 (showV4 [a, b, c, d]) = some [a, b, c, d] := by
  have h := readV4_showV4 a b c d ha hb hc hd [] stops_nil
  rw [List.append_nil] at h
  have hl := showV4_len a b c d
  unfold parseV4
  rw [h]
  simp
  omega

theorem bytesOfSegs_segsOfBytes : (b : List Nat) → b.length % 2 = 0 → (∀ x ∈ b, x < 256) →
    bytesOfSegs (segsOfBytes b) = b
  | [], _, _ => rfl
  | [_], h, _ => by simp at h
  | x :: y :: rest, h, ho => by
    have hy : y < 256 := ho y (by simp)
    have ih := bytesOfSegs_segsOfBytes rest (by simp at h; omega) (fun z hz => ho z (by simp [hz]))
    simp only [segsOfBytes, bytesOfSegs, ih, List.cons.injEq, and_true]
    omega

theorem octetsOfU32_lt (n : Nat) : ∀ x ∈ octetsOfU32 n, x < 256 := by
  intro x hx
  simp only [octetsOfU32, List.mem_cons, List.not_mem_nil, or_false] at hx
  rcases hx with h | h | h | h <;> omega

theorem u32_octets (n : Nat) (h : n < 4294967296) : u32OfOctets (octetsOfU32 n) = n := by
  simp only [octetsOfU32, u32OfOctets]
  omega

theorem parseIp_showV4 (t : V6Text) (a b c d : Nat) (ha : a < 256) (hb : b < 256) (hc : c < 256)
    (hd : d < 256) : parseIp t (showV4 [a, b, c, d]) = some (.v4 [a, b, c, d]) := by
  have h := readV4_showV4 a b c d ha hb hc hd [] stops_nil
  rw [List.append_nil] at h
  simp [parseIp, h]

end Ip
end Conv
