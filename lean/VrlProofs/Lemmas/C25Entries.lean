/-
  Helper lemmas for C25 (to_entries / from_entries): inserting keys in increasing order into a
  `BTreeMap` appends them.
-/
import VrlModel.C25
import VrlProofs.Lemmas.Value

namespace Conv

def mapAppend : VMap → VMap → VMap
  | .nil, b => b
  | .cons k v m, b => .cons k v (mapAppend m b)

/-- every key of the map is smaller than `k` -/
def allLt (k : Key) : VMap → Bool
  | .nil => true
  | .cons l _ m => Key.lt l k && allLt k m

theorem mapAppend_nil : (a : VMap) → mapAppend a .nil = a
  | .nil => rfl
  | .cons k v m => by simp [mapAppend, mapAppend_nil m]

theorem mapAppend_assoc : (a b c : VMap) → mapAppend (mapAppend a b) c = mapAppend a (mapAppend b c)
  | .nil, _, _ => rfl
  | .cons k v m, b, c => by simp [mapAppend, mapAppend_assoc m b c]

theorem insert_allLt : (acc : VMap) → (k : Key) → (v : Value) → allLt k acc = true →
    acc.insert k v = mapAppend acc (.cons k v .nil)
  | .nil, _, _, _ => rfl
  | .cons l x m, k, v, h => by
    simp only [allLt, Bool.and_eq_true] at h
    have h1 : Key.lt k l = false := Key.lt_asymm l k h.1
    have h2 : l ≠ k := Key.lt_ne l k h.1
    simp [VMap.insert, h1, h2, mapAppend, insert_allLt m k v h.2]

theorem allLt_trans : (acc : VMap) → (a b : Key) → Key.lt a b = true → allLt a acc = true →
    allLt b acc = true
  | .nil, _, _, _, _ => rfl
  | .cons l _ m, a, b, hab, h => by
    simp only [allLt, Bool.and_eq_true] at h ⊢
    exact ⟨Key.lt_trans l a b h.1 hab, allLt_trans m a b hab h.2⟩

theorem allLt_append : (acc : VMap) → (k l : Key) → (v : Value) → Key.lt k l = true →
    allLt k acc = true → allLt l (mapAppend acc (.cons k v .nil)) = true
  | .nil, k, l, v, hkl, _ => by simp [mapAppend, allLt, hkl]
  | .cons a x m, k, l, v, hkl, h => by
    simp only [allLt, Bool.and_eq_true] at h
    simp only [mapAppend, allLt, Bool.and_eq_true]
    exact ⟨Key.lt_trans a k l h.1 hkl, allLt_append m k l v hkl h.2⟩

/-- the key and value `from_entries` selects from an entry built by `to_entries`. -/
theorem selectKey_buildEntry (k v : Value) (hk : keyUsable k = true) :
    ∀ e, buildEntry k v = .obj e → selectKey e = k ∧ selectValue e = v := by
  intro e he
  simp only [buildEntry, Value.obj.injEq] at he
  subst he
  constructor
  · simp [selectKey, VMap.get, kKey, kKeyU, kName, kNameU, kValue, List.filterMap, List.find?, hk]
  · simp [selectValue, VMap.get, kKey, kValue]

/-- the first key of `m` (if any) is above every key of `acc` -/
def below (acc : VMap) : VMap → Bool
  | .nil => true
  | .cons k _ _ => allLt k acc

theorem fromEntriesLoop_entriesOfMap : (m acc : VMap) → VMap.Sorted m = true →
    C25.keysFixed m = true → below acc m = true →
    fromEntriesLoop (entriesOfMap m) acc = .ok (.obj (mapAppend acc m))
  | .nil, acc, _, _, _ => by simp [entriesOfMap, fromEntriesLoop, mapAppend_nil]
  | .cons k v rest, acc, hs, hf, hb => by
    simp only [VMap.Sorted, Bool.and_eq_true] at hs
    simp only [C25.keysFixed, Bool.and_eq_true, Utf8.fixed, beq_iff_eq] at hf
    simp only [below] at hb
    obtain ⟨hk, hv⟩ := selectKey_buildEntry (.bytes k) v rfl _ rfl
    have hstep : fromEntriesLoop (entriesOfMap (.cons k v rest)) acc
        = fromEntriesLoop (entriesOfMap rest) (acc.insert k v) := by
      simp only [entriesOfMap, buildEntry] at hk hv ⊢
      simp only [fromEntriesLoop, hk, hv, hf.1]
    rw [hstep, insert_allLt acc k v hb]
    have hb' : below (mapAppend acc (.cons k v .nil)) rest = true := by
      cases rest with
      | nil => rfl
      | cons l w r =>
        simp only [VMap.allGt, Bool.and_eq_true] at hs
        exact allLt_append acc k l v hs.1.2.1 hb
    rw [fromEntriesLoop_entriesOfMap rest _ hs.2 hf.2 hb', mapAppend_assoc]
    simp [mapAppend]

end Conv
